import SyneTune.Lemmas.EarlyRemovalInv
/-
C20, speculative early checkpoint removal (explicitly requested through
`early_checkpoint_removal_kwargs`): property theorems about the bookkeeping of
`HyperbandRemoveCheckpointsCommon` (`Model/EarlyRemoval.lean`) for ALL histories of callback calls.

Reading guide.  `run p h` is the callback's state after the calls `h` (oldest first) since
`on_tuning_start`; `trace p h` pairs every call with what it output (for `on_loop_end`: the ids handed
to `delete_checkpoint`, or that it raised).  `OpOK` is the contract (three clauses; `Legal p h`: every
call of `h` met it); theorems without `Legal` hold for every history whatsoever.  Beside every
implication an `example` exhibits a concrete history that meets the hypotheses non-trivially.
-/
namespace SyneTune.C20Early
open SyneTune SyneTune.Early

/-! ### example data -/

/-- `max_num_checkpoints = 2`, baseline "by_level" -/
def pB : Params := ⟨2, .byLevel⟩
/-- `max_num_checkpoints = 2`, estimator-based callback -/
def pE : Params := ⟨2, .estimator⟩

/-- trials 0 and 1 paused at level 1, trials 2 and 3 running: four checkpoints -/
def hFour : List Op :=
  [.start 0, .start 1, .result 0 .continue, .result 0 .pause, .result 1 .pause, .start 2, .start 3]

/-- the loop end that follows: the scheduler lists both paused trials, the oracle names both -/
def leBoth : Op := .loopEnd [(0, 1), (1, 1)] (some [(1, 1), (0, 1)])

/-- … then trial 0 is promoted although its checkpoint is gone, pauses again at level 3, trial 2
stops, another loop end removes nothing -/
def hLong : List Op :=
  hFour ++ [leBoth, .resume 0, .result 0 .continue, .result 0 .pause, .result 2 .stop, .complete 2,
            .loopEnd [(0, 3), (1, 1)] (some [])]

/-! ### 1. Only paused trials that still have a checkpoint are chosen -/

/-- Every id `on_loop_end` hands to `delete_checkpoint` is, at that moment, PAUSED_WITH_CHECKPOINT in
the callback's books: never RUNNING (no checkpoint of a trial that occupies a worker is deleted),
never stopped / completed, never a trial whose checkpoint was already removed.  Needs of the
history NOTHING; needs of this call only that the scheduler's list names paused trials (`OpOK`). -/
theorem removed_only_paused_with_checkpoint (p : Params) (h : List Op) (paused : List (Nat × Nat))
    (picks : Option (List (Nat × Nat))) (ids : List Nat)
    (hok : OpOK (run p h) (.loopEnd paused picks))
    (hout : (step p (run p h) (.loopEnd paused picks)).2 = .deleted ids) :
    ∀ t ∈ ids, (run p h).statusOf t = some .pausedCp :=
  (loopEnd_deleted p _ paused picks (noCp_has_entry p h) hok ids hout).1

example : OpOK (run pB hFour) leBoth ∧ (step pB (run pB hFour) leBoth).2 = .deleted [1, 0] := by decide

/-- … and no id is handed over twice in one `on_loop_end`. -/
theorem removed_ids_distinct (p : Params) (h : List Op) (paused : List (Nat × Nat))
    (picks : Option (List (Nat × Nat))) (ids : List Nat)
    (hok : OpOK (run p h) (.loopEnd paused picks))
    (hout : (step p (run p h) (.loopEnd paused picks)).2 = .deleted ids) : ids.Nodup :=
  (loopEnd_deleted p _ paused picks (noCp_has_entry p h) hok ids hout).2

/-- The status map is exact bookkeeping of the history, for EVERY history: the status of a trial is
what the last trace entry that concerns it leaves (its own `start` / `resume` / `result` /
`complete`, or a loop end that deleted its checkpoint); a trial no entry concerns is absent. -/
theorem status_exact (p : Params) (h : List Op) (t : Nat) :
    (run p h).statusOf t = specStatus t (trace p h) := status_spec p h t

example : (run pB hLong).status = [(0, .pausedCp), (1, .pausedNoCp), (2, .done), (3, .running)] := by decide

/-- RUNNING iff the last event about the trial is `start`, `resume` or a result answered CONTINUE. -/
theorem running_iff (p : Params) (h : List Op) (t : Nat) :
    (run p h).statusOf t = some .running ↔
      ∃ o, lastTouch t (trace p h) = some (.start t, o) ∨ lastTouch t (trace p h) = some (.resume t, o) ∨
           lastTouch t (trace p h) = some (.result t .continue, o) := by
  rw [status_exact]; unfold specStatus
  cases hl : lastTouch t (trace p h) with
  | none => simp
  | some x =>
    obtain ⟨op, o⟩ := x
    have ht := lastTouch_touches hl
    cases op with
    | start u => simp [touches] at ht; subst ht; simp [statusAfter]
    | resume u => simp [touches] at ht; subst ht; simp [statusAfter]
    | result u d => simp [touches] at ht; subst ht; cases d <;> simp [statusAfter]
    | complete u => simp [statusAfter]
    | loopEnd a b => simp [statusAfter]

/-- PAUSED_WITH_CHECKPOINT iff the last event about the trial is a result answered PAUSE. -/
theorem paused_with_checkpoint_iff (p : Params) (h : List Op) (t : Nat) :
    (run p h).statusOf t = some .pausedCp ↔ ∃ o, lastTouch t (trace p h) = some (.result t .pause, o) := by
  rw [status_exact]; unfold specStatus
  cases hl : lastTouch t (trace p h) with
  | none => simp
  | some x =>
    obtain ⟨op, o⟩ := x
    have ht := lastTouch_touches hl
    cases op with
    | start u => simp [statusAfter]
    | resume u => simp [statusAfter]
    | result u d => simp [touches] at ht; subst ht; cases d <;> simp [statusAfter]
    | complete u => simp [statusAfter]
    | loopEnd a b => simp [statusAfter]

/-- PAUSED_NO_CHECKPOINT iff the last event about the trial is a loop end that handed it to
`delete_checkpoint`. -/
theorem paused_no_checkpoint_iff (p : Params) (h : List Op) (t : Nat) :
    (run p h).statusOf t = some .pausedNoCp ↔
      ∃ paused picks ids, lastTouch t (trace p h) = some (.loopEnd paused picks, .deleted ids) ∧ t ∈ ids := by
  rw [status_exact]; unfold specStatus
  cases hl : lastTouch t (trace p h) with
  | none => simp
  | some x =>
    obtain ⟨op, o⟩ := x
    have ht := lastTouch_touches hl
    cases op with
    | start u => simp [statusAfter]
    | resume u => simp [statusAfter]
    | result u d => cases d <;> simp [statusAfter]
    | complete u => simp [statusAfter]
    | loopEnd a b =>
      cases o with
      | deleted ids =>
        simp [touches] at ht
        exact ⟨fun _ => ⟨a, b, ids, rfl, ht⟩, fun _ => by simp [statusAfter]⟩
      | _ => simp [touches] at ht

/-- STOPPED_OR_COMPLETED iff the last event about the trial is a result answered STOP or its
completion. -/
theorem done_iff (p : Params) (h : List Op) (t : Nat) :
    (run p h).statusOf t = some .done ↔
      ∃ o, lastTouch t (trace p h) = some (.result t .stop, o) ∨ lastTouch t (trace p h) = some (.complete t, o) := by
  rw [status_exact]; unfold specStatus
  cases hl : lastTouch t (trace p h) with
  | none => simp
  | some x =>
    obtain ⟨op, o⟩ := x
    have ht := lastTouch_touches hl
    cases op with
    | start u => simp [statusAfter]
    | resume u => simp [statusAfter]
    | result u d => simp [touches] at ht; subst ht; cases d <;> simp [statusAfter]
    | complete u => simp [touches] at ht; subst ht; simp [statusAfter]
    | loopEnd a b => simp [statusAfter]

/-- A trial is absent from `_trial_status` iff no entry of the trace concerns it. -/
theorem absent_iff_never_mentioned (p : Params) (h : List Op) (t : Nat) :
    (run p h).statusOf t = none ↔ ∀ x ∈ trace p h, touches t x = false := by
  rw [status_exact]; unfold specStatus lastTouch
  simp only [Option.map_eq_none_iff, List.find?_eq_none, List.mem_reverse, Bool.not_eq_true]

/-- `_trial_status` never holds a trial twice (what makes `_count_trials_with_checkpoints` a count of
trials). -/
theorem status_keys_distinct (p : Params) (h : List Op) : ((run p h).status.map (·.1)).Nodup := keys_nodup p h

/-- The last event about a trial whose checkpoint `on_loop_end` removes is the PAUSE decision for
it: since it was paused it has neither been resumed nor had its checkpoint removed already.  So no
checkpoint is deleted twice without a resume in between. -/
theorem removed_last_event_is_pause (p : Params) (h : List Op) (paused : List (Nat × Nat))
    (picks : Option (List (Nat × Nat))) (ids : List Nat)
    (hok : OpOK (run p h) (.loopEnd paused picks))
    (hout : (step p (run p h) (.loopEnd paused picks)).2 = .deleted ids) :
    ∀ t ∈ ids, ∃ o, lastTouch t (trace p h) = some (.result t .pause, o) :=
  fun t ht => (paused_with_checkpoint_iff p h t).1 (removed_only_paused_with_checkpoint p h paused picks ids hok hout t ht)

example : lastTouch 1 (trace pB hFour) = some (.result 1 .pause, .done) := by decide

/-- In particular never RUNNING, never stopped / completed, never already removed. -/
theorem never_removes_running (p : Params) (h : List Op) (paused : List (Nat × Nat))
    (picks : Option (List (Nat × Nat))) (ids : List Nat)
    (hok : OpOK (run p h) (.loopEnd paused picks))
    (hout : (step p (run p h) (.loopEnd paused picks)).2 = .deleted ids) (t : Nat) (ht : t ∈ ids) :
    (run p h).statusOf t ≠ some .running ∧ (run p h).statusOf t ≠ some .done ∧
    (run p h).statusOf t ≠ some .pausedNoCp ∧ (run p h).statusOf t ≠ none := by
  rw [removed_only_paused_with_checkpoint p h paused picks ids hok hout t ht]
  simp

example : OpOK (run pB hFour) leBoth ∧ (step pB (run pB hFour) leBoth).2 = .deleted [1, 0] ∧ 0 ∈ [1, 0] := by decide

/-- The `loopEnd` clause of the contract is necessary, and this is what the code really does:
`_filter_paused_trials` tests only `trial_id not in _trials_with_checkpoints_removed`, never
`_trial_status`.  If `terminator.paused_trials()` lists a trial the callback holds for RUNNING, its
checkpoint is deleted while it occupies a worker (history otherwise legal). -/
theorem removes_running_if_scheduler_lists_it_counterexample :
    ∃ (p : Params) (h : List Op) (paused : List (Nat × Nat)) (picks : Option (List (Nat × Nat))) (ids : List Nat) (t : Nat),
      Legal p h ∧ (step p (run p h) (.loopEnd paused picks)).2 = .deleted ids ∧ t ∈ ids ∧
      (run p h).statusOf t = some .running ∧ ¬ OpOK (run p h) (.loopEnd paused picks) :=
  ⟨pB, [.start 0, .start 1, .start 2], [(0, 1)], some [(0, 1)], [0], 0, by decide⟩

/-! ### 2. The map of removed checkpoints -/

/-- For EVERY history: a trial marked PAUSED_NO_CHECKPOINT has an entry in
`_trials_with_checkpoints_removed` (so it is filtered out of the candidates). -/
theorem no_checkpoint_status_has_entry (p : Params) (h : List Op) (t : Nat)
    (hs : (run p h).statusOf t = some .pausedNoCp) : ∃ l, alookup t (run p h).removed = some l :=
  Option.isSome_iff_exists.1 (noCp_has_entry p h t hs)

example : (run pB hLong).statusOf 1 = some .pausedNoCp := by decide

/-- For every legal history `_trials_with_checkpoints_removed` is read off the trace: `t ↦ l` iff the
last event about `t` is a loop end that deleted its checkpoint, `l` being the level that loop end's
oracle answer carried for `t`. -/
theorem removed_map_exact (p : Params) (h : List Op) (hl : Legal p h) (t : Nat) :
    alookup t (run p h).removed = specRemoved t (trace p h) := removed_spec p h hl t

example : Legal pB hLong ∧ (run pB hLong).removed = [(1, 1)] ∧
    (run pB (hFour ++ [leBoth])).removed = [(1, 1), (0, 1)] := by decide

/-- For every legal history the keys of `_trials_with_checkpoints_removed` are exactly the trials
marked PAUSED_NO_CHECKPOINT. -/
theorem removed_keys_iff_paused_no_checkpoint (p : Params) (h : List Op) (hl : Legal p h) (t : Nat) :
    (∃ l, alookup t (run p h).removed = some l) ↔ (run p h).statusOf t = some .pausedNoCp := by
  constructor
  · rintro ⟨l, hlk⟩
    rw [status_exact]
    exact specRemoved_some_status (l := l) (by rw [← removed_spec p h hl t, hlk])
  · exact no_checkpoint_status_has_entry p h t

/-- The level recorded for a trial is the level of an entry of that trial in the list
`terminator.paused_trials()` returned inside the `on_loop_end` that removed its checkpoint. -/
theorem removed_level_from_scheduler_list (p : Params) (h : List Op) (hl : Legal p h) (t l : Nat)
    (hlk : alookup t (run p h).removed = some l) :
    ∃ paused picks ids, lastTouch t (trace p h) = some (.loopEnd paused picks, .deleted ids) ∧ (t, l) ∈ paused := by
  rw [removed_map_exact p h hl] at hlk
  unfold specRemoved at hlk
  cases hlt : lastTouch t (trace p h) with
  | none => simp [hlt] at hlk
  | some x =>
    obtain ⟨op, o⟩ := x
    simp only [hlt, Option.bind_some] at hlk
    cases op with
    | loopEnd paused picks =>
      cases o with
      | deleted ids =>
        cases picks with
        | none => simp [levelIn] at hlk
        | some pk =>
          refine ⟨paused, some pk, ids, rfl, ?_⟩
          simp only [levelIn] at hlk
          have hmem := alookup_some_mem hlk
          have hx : (Op.loopEnd paused (some pk), Out.deleted ids) ∈ trace p h := by
            unfold lastTouch at hlt
            exact List.mem_reverse.1 (List.mem_of_find?_eq_some hlt)
          obtain ⟨h1, h2, _, e2⟩ := mem_trace p h _ hx
          have htch := lastTouch_touches hlt
          simp only [touches, List.contains_iff_mem] at htch
          simp only [step] at e2
          have hc := loopEnd_cases p (run p h1) paused (some pk)
          generalize loopEnd p (run p h1) paused (some pk) = r at hc e2
          cases hc with
          | within hh => simp only [Out.deleted.injEq] at e2; subst e2; simp at htch
          | raised hh he hv => cases e2
          | oracleRaised hh hne hp => cases e2
          | rejected hh hne pk' hp e => cases e2
          | removed hh hne pk' hp hlen hmem' hnd =>
            cases hp
            exact (mem_filterPaused.1 (hmem' _ hmem)).1
      | _ => simp [levelIn] at hlk
    | _ => simp [levelIn] at hlk

example : Legal pB hLong ∧ alookup 1 (run pB hLong).removed = some 1 := by decide

/-- The `start` clause of the contract is necessary: starting (instead of resuming) a trial whose
checkpoint has been removed leaves it RUNNING with a stale entry in
`_trials_with_checkpoints_removed` (`on_start_trial` does not touch that dict). -/
theorem start_clause_counterexample :
    ∃ (p : Params) (h : List Op) (op : Op) (t : Nat), Legal p h ∧ ¬ OpOK (run p h) op ∧
      (run p (h ++ [op])).statusOf t = some .running ∧ alookup t (run p (h ++ [op])).removed = some 1 :=
  ⟨pB, hFour ++ [leBoth], .start 0, 0, by decide⟩

/-- The `result … CONTINUE` clause of the contract is necessary, for the same reason (the CONTINUE
branch of `on_trial_result` does not touch that dict either; PAUSE and STOP pop the entry, which is
why they need no clause). -/
theorem continue_clause_counterexample :
    ∃ (p : Params) (h : List Op) (op : Op) (t : Nat), Legal p h ∧ ¬ OpOK (run p h) op ∧
      (run p (h ++ [op])).statusOf t = some .running ∧ alookup t (run p (h ++ [op])).removed = some 1 :=
  ⟨pB, hFour ++ [leBoth], .result 0 .continue, 0, by decide⟩

/-- The Tuner's life cycle of a trial (fresh ids are started, paused trials are resumed, only
running trials report or complete — a completion may follow a STOP of the same poll) implies the
contract. -/
theorem natural_implies_ok (s : State) (op : Op) (h : NaturalOK s op) : OpOK s op := naturalOK_opOK s op h

example : NaturalOK (run pB hFour) leBoth ∧ NaturalOK (run pB hFour) (.result 2 .continue) := by decide

/-- … hence every history that follows the life cycle is legal. -/
theorem natural_legal_implies_legal (p : Params) (h : List Op) (hn : NaturalLegal p h) : Legal p h :=
  naturalLegalFrom_legalFrom p _ h hn

example : NaturalLegal pB hLong := by decide

/-- No checkpoint is deleted twice without a resume in between: in a history that follows the life
cycle, the next event about a trial whose checkpoint has been removed (it stays
PAUSED_NO_CHECKPOINT until then, `status_exact`) can only be its resume — in particular not another
removal.  (With the weaker `OpOK` alone a late `result … PAUSE` for the paused trial would make the
callback believe the checkpoint is back.) -/
theorem after_removal_only_resume (p : Params) (h : List Op) (op : Op) (t : Nat)
    (hn : NaturalOK (run p h) op) (hs : (run p h).statusOf t = some .pausedNoCp)
    (ht : touches t (op, (step p (run p h) op).2) = true) : op = .resume t := by
  cases op with
  | start u => simp [touches] at ht; subst ht; simp [NaturalOK, hs] at hn
  | resume u => simp [touches] at ht; rw [ht]
  | result u d => simp [touches] at ht; subst ht; simp [NaturalOK, hs] at hn
  | complete u => simp [touches] at ht; subst ht; simp [NaturalOK, hs] at hn
  | loopEnd paused picks =>
    exfalso
    cases ho : (step p (run p h) (.loopEnd paused picks)).2 with
    | deleted ids =>
      rw [ho] at ht
      simp only [touches, List.contains_iff_mem] at ht
      have := removed_only_paused_with_checkpoint p h paused picks ids (natural_implies_ok _ _ hn) ho t ht
      rw [hs] at this; cases this
    | _ => rw [ho] at ht; simp [touches] at ht

example : NaturalOK (run pB (hFour ++ [leBoth])) (.resume 0) ∧ (run pB (hFour ++ [leBoth])).statusOf 0 = some .pausedNoCp ∧
    touches 0 (Op.resume 0, (step pB (run pB (hFour ++ [leBoth])) (.resume 0)).2) = true := by decide

/-- Under the life cycle the three `pop(trial_id, None)` of `on_trial_result` (PAUSE / STOP) and
`on_trial_complete` never find anything to pop: a trial that reports or completes is RUNNING, hence
has no entry.  (Changes to those three lines are invisible in any Tuner run; the correspondence stream
reaches them only through its direct cases.) -/
theorem pops_are_noops_in_life_cycle (p : Params) (h : List Op) (hn : NaturalLegal p h) (op : Op)
    (hop : NaturalOK (run p h) op) (hk : (∃ t d, op = .result t d) ∨ (∃ t, op = .complete t)) :
    (run p (h ++ [op])).removed = (run p h).removed := by
  have hl := natural_legal_implies_legal p h hn
  have key : ∀ t, (run p h).statusOf t = some .running ∨ (run p h).statusOf t = some .done →
      alookup t (run p h).removed = none := by
    intro t ht
    cases hlk : alookup t (run p h).removed with
    | none => rfl
    | some l =>
      have := removed_entry_status p h hl t (by simp [hlk])
      rcases ht with ht | ht <;> (rw [ht] at this; cases this)
  rw [run_snoc]
  rcases hk with ⟨t, d, rfl⟩ | ⟨t, rfl⟩
  · have := key t (.inl hop)
    cases d <;> simp [step, result, aerase_eq_self _ _ this]
  · have := key t hop
    simp [step, aerase_eq_self _ _ this]

example : NaturalLegal pB (hFour ++ [leBoth, .resume 0]) ∧
    NaturalOK (run pB (hFour ++ [leBoth, .resume 0])) (.result 0 .pause) := by decide

/-- The life-cycle clause "only running trials report" is necessary for that: under `OpOK` alone, a
(late) report answered PAUSE for a trial whose checkpoint has been removed pops its entry and marks
it PAUSED_WITH_CHECKPOINT; the next loop end hands it to `delete_checkpoint` a second time, with no
resume in between. -/
theorem double_removal_without_life_cycle_counterexample :
    ∃ (p : Params) (h : List Op) (le1 le2 : Op) (mid : List Op) (t : Nat),
      Legal p (h ++ [le1] ++ mid ++ [le2]) ∧ ¬ NaturalLegal p (h ++ [le1] ++ mid ++ [le2]) ∧
      t ∈ deletedIds [(le1, (step p (run p h) le1).2)] ∧
      t ∈ deletedIds [(le2, (step p (run p (h ++ [le1] ++ mid)) le2).2)] ∧
      (∀ op ∈ mid, isResume op = false) :=
  ⟨pB, hFour, leBoth, .loopEnd [(0, 1), (1, 1)] (some [(0, 1)]), [.result 0 .pause], 0, by decide⟩

/-! ### 3. The promise about the number of checkpoints kept -/

/-- What `on_loop_end` guarantees when it returns, exactly.  Within the limit
(`count ≤ max_num_checkpoints`) it does nothing.  Beyond it, it removes
`min(count − max_num_checkpoints, len(filtered))` checkpoints of paused trials and no running
trial is touched. -/
theorem count_after_loop_end (p : Params) (h : List Op) (paused : List (Nat × Nat))
    (picks : Option (List (Nat × Nat))) (ids : List Nat)
    (hok : OpOK (run p h) (.loopEnd paused picks))
    (hout : (step p (run p h) (.loopEnd paused picks)).2 = .deleted ids) :
    (excess p (run p h) ≤ 0 → run p (h ++ [.loopEnd paused picks]) = run p h ∧ ids = []) ∧
    (0 < excess p (run p h) →
      countCp (run p (h ++ [.loopEnd paused picks])) +
        min (excess p (run p h)).toNat (filterPaused (run p h) paused).length = countCp (run p h) ∧
      numRunning (run p (h ++ [.loopEnd paused picks])) = numRunning (run p h) ∧
      ids.length = min (excess p (run p h)).toNat (filterPaused (run p h) paused).length) := by
  rw [run_snoc]
  constructor
  · intro hex
    have e : loopEnd p (run p h) paused picks = (run p h, .deleted []) := by simp [loopEnd, hex]
    refine ⟨?_, ?_⟩
    · simp only [step, e]
    · simp only [step, e, Out.deleted.injEq] at hout
      exact hout.symm
  · intro hex
    exact loopEnd_count p _ paused picks (noCp_has_entry p h) hok ids hout hex

example : 0 < excess pB (run pB hFour) ∧ countCp (run pB hFour) = 4 ∧
    countCp (run pB (hFour ++ [leBoth])) = 2 := by decide

/-- THE PROMISE.  After `on_loop_end` returned, the number of trials that hold a checkpoint (RUNNING or
PAUSED_WITH_CHECKPOINT in the callback's books) is at most
`max(max_num_checkpoints, number of RUNNING trials)` — provided the history is legal and the
scheduler's list is complete (names every trial the callback holds for PAUSED_WITH_CHECKPOINT). -/
theorem promise (p : Params) (h : List Op) (hl : Legal p h) (paused : List (Nat × Nat))
    (picks : Option (List (Nat × Nat))) (ids : List Nat)
    (hok : OpOK (run p h) (.loopEnd paused picks)) (hcomp : Complete (run p h) paused)
    (hout : (step p (run p h) (.loopEnd paused picks)).2 = .deleted ids) :
    (countCp (run p (h ++ [.loopEnd paused picks])) : Int) ≤
      max p.maxCp (numRunning (run p (h ++ [.loopEnd paused picks]))) := by
  obtain ⟨c0, c1⟩ := count_after_loop_end p h paused picks ids hok hout
  by_cases hex : excess p (run p h) ≤ 0
  · rw [(c0 hex).1]
    unfold excess at hex
    omega
  · obtain ⟨d1, d2, _⟩ := c1 (by omega)
    have hsplit := countCp_split (run p h)
    have hle := pausedCp_le_filtered (run p h) paused (keys_nodup p h) (removed_entry_status p h hl) hcomp
    rw [d2]
    unfold excess at hex d1
    omega

example : Legal pB hFour ∧ OpOK (run pB hFour) leBoth ∧ Complete (run pB hFour) [(0, 1), (1, 1)] := by decide

/-- When enough paused candidates are on offer, exactly `max_num_checkpoints` checkpoints remain: the
callback removes no more than it has to. -/
theorem promise_exact_when_enough (p : Params) (h : List Op) (paused : List (Nat × Nat))
    (picks : Option (List (Nat × Nat))) (ids : List Nat)
    (hok : OpOK (run p h) (.loopEnd paused picks))
    (hout : (step p (run p h) (.loopEnd paused picks)).2 = .deleted ids)
    (hex : 0 < excess p (run p h))
    (henough : excess p (run p h) ≤ (filterPaused (run p h) paused).length) :
    (countCp (run p (h ++ [.loopEnd paused picks])) : Int) = p.maxCp := by
  obtain ⟨d1, _, _⟩ := (count_after_loop_end p h paused picks ids hok hout).2 hex
  unfold excess at hex henough d1
  omega

example : 0 < excess pB (run pB hFour) ∧
    excess pB (run pB hFour) ≤ (filterPaused (run pB hFour) [(0, 1), (1, 1)]).length := by decide

/-- "At most `max_num_checkpoints` checkpoints after every loop end" is FALSE: running trials keep
theirs.  Three running trials, `max_num_checkpoints = 2`, nothing paused: the (baseline) callback
returns and three checkpoints remain.  Legal history, complete list. -/
theorem promise_max_alone_counterexample :
    ∃ (p : Params) (h : List Op) (paused : List (Nat × Nat)) (picks : Option (List (Nat × Nat))) (ids : List Nat),
      Legal p (h ++ [.loopEnd paused picks]) ∧ Complete (run p h) paused ∧
      (step p (run p h) (.loopEnd paused picks)).2 = .deleted ids ∧
      p.maxCp < countCp (run p (h ++ [.loopEnd paused picks])) :=
  ⟨pB, [.start 0, .start 1, .start 2], [], some [], [], by decide⟩

/-- Completeness of the scheduler's list is necessary for the promise: a paused trial with a
checkpoint that `paused_trials()` does not name keeps its checkpoint beyond the limit. -/
theorem promise_incomplete_list_counterexample :
    ∃ (p : Params) (h : List Op) (paused : List (Nat × Nat)) (picks : Option (List (Nat × Nat))) (ids : List Nat),
      Legal p (h ++ [.loopEnd paused picks]) ∧ (step p (run p h) (.loopEnd paused picks)).2 = .deleted ids ∧
      max p.maxCp (numRunning (run p (h ++ [.loopEnd paused picks]))) < countCp (run p (h ++ [.loopEnd paused picks])) :=
  ⟨pB, hFour, [(0, 1)], some [(0, 1)], [0], by decide⟩

/-! ### 4. The counters of the documented price -/

/-- `_num_trials_resumed` is the number of `on_resume_trial` calls (every history). -/
theorem num_resumed_counts_resumes (p : Params) (h : List Op) :
    (run p h).numResumed = (h.filter isResume).length := numResumed_spec p h

/-- `_num_checkpoints_removed` is the number of ids handed to `delete_checkpoint` (every history). -/
theorem num_removed_counts_deletions (p : Params) (h : List Op) :
    (run p h).numRemoved = (deletedIds (trace p h)).length := numRemoved_spec p h

/-- `_trials_resumed_without_checkpoint` lists, in order, exactly the resumes of trials whose last
event before the resume was the removal of their checkpoint, with the level recorded then (legal
histories). -/
theorem resumed_without_checkpoint_exact (p : Params) (h : List Op) (hl : Legal p h) :
    (run p h).resumedNoCp = specRes (trace p h) := resumedNoCp_spec p h hl

example : (run pB hLong).numResumed = 1 ∧ (run pB hLong).numRemoved = 2 ∧
    (run pB hLong).resumedNoCp = [(0, 1)] ∧ specRes (trace pB hLong) = [(0, 1)] ∧
    deletedIds (trace pB hLong) = [1, 0] := by decide

/-! ### 5. The failure mode: `on_loop_end` raises -/

/-- `on_loop_end` raises the `ValueError` of `zip(*[])` exactly when the instance is the
estimator-based callback, more trials hold a checkpoint than `max_num_checkpoints`, and the filtered
list is empty. -/
theorem loop_end_raises_iff (p : Params) (s : State) (paused : List (Nat × Nat)) (picks : Option (List (Nat × Nat))) :
    (step p s (.loopEnd paused picks)).2 = .raised ↔
      p.variant = .estimator ∧ 0 < excess p s ∧ filterPaused s paused = [] := by
  simp only [step]
  have hc := loopEnd_cases p s paused picks
  generalize loopEnd p s paused picks = r at hc
  cases hc with
  | within h => simp; intro _; omega
  | raised h he hv => simp [h, he, hv]
  | oracleRaised h hne hp => simp; intro hv _; exact fun he => hne ⟨he, hv⟩
  | rejected h hne pk hp e => simp; intro hv _; exact fun he => hne ⟨he, hv⟩
  | removed h hne pk hp hlen hmem hnd => simp; intro hv _; exact fun he => hne ⟨he, hv⟩

/-- A concrete legal history in which `on_loop_end` raises (and with it `Tuner.run()`): three workers,
`max_num_checkpoints = 2`, estimator-based callback — the FIRST loop end raises, with the
scheduler's (empty) list complete. -/
theorem loop_end_raises_counterexample :
    ∃ (p : Params) (h : List Op) (paused : List (Nat × Nat)) (picks : Option (List (Nat × Nat))),
      Legal p (h ++ [.loopEnd paused picks]) ∧ Complete (run p h) paused ∧
      (step p (run p h) (.loopEnd paused picks)).2 = .raised :=
  ⟨pE, [.start 0, .start 1, .start 2], [], none, by decide⟩

/-- The two baselines never raise that error. -/
theorem baselines_never_raise (p : Params) (s : State) (paused : List (Nat × Nat)) (picks : Option (List (Nat × Nat)))
    (hv : p.variant ≠ .estimator) : (step p s (.loopEnd paused picks)).2 ≠ .raised := by
  rw [Ne, loop_end_raises_iff]
  exact fun h => hv h.1

example : pB.variant ≠ .estimator := by decide

/-- `on_loop_end` does not raise that error as long as no more trials are RUNNING (in the callback's
books: a failed trial stays RUNNING there for ever) than `max_num_checkpoints`, the history is legal
and the scheduler's list is complete. -/
theorem no_raise_partial (p : Params) (h : List Op) (hl : Legal p h) (paused : List (Nat × Nat))
    (picks : Option (List (Nat × Nat))) (hcomp : Complete (run p h) paused)
    (hrun : (numRunning (run p h) : Int) ≤ p.maxCp) :
    (step p (run p h) (.loopEnd paused picks)).2 ≠ .raised := by
  rw [Ne, loop_end_raises_iff]
  rintro ⟨_, hex, hemp⟩
  have hsplit := countCp_split (run p h)
  have hle := pausedCp_le_filtered (run p h) paused (keys_nodup p h) (removed_entry_status p h hl) hcomp
  rw [hemp] at hle
  unfold excess at hex
  simp only [List.length_nil] at hle
  omega

example : Legal pE hFour ∧ Complete (run pE hFour) [(0, 1), (1, 1)] ∧
    (numRunning (run pE hFour) : Int) ≤ pE.maxCp := by decide

/-- The oracle's own failure leaves `on_loop_end` exactly when it was consulted (beyond the limit,
not the forced `ValueError`) and failed. -/
theorem loop_end_oracle_raised_iff (p : Params) (s : State) (paused : List (Nat × Nat))
    (picks : Option (List (Nat × Nat))) :
    (step p s (.loopEnd paused picks)).2 = .oracleRaised ↔
      0 < excess p s ∧ ¬ (filterPaused s paused = [] ∧ p.variant = .estimator) ∧ picks = none := by
  simp only [step]
  have hc := loopEnd_cases p s paused picks
  generalize loopEnd p s paused picks = r at hc
  cases hc with
  | within h => simp; intro _; omega
  | raised h he hv => simp [he, hv]
  | oracleRaised h hne hp => simp [h, hp]; exact fun a b => hne ⟨a, b⟩
  | rejected h hne pk hp e => simp [hp]
  | removed h hne pk hp hlen hmem hnd => simp [hp]

/-- Whenever `on_loop_end` raises, or the oracle answer is inadmissible, the books are untouched:
nothing is deleted, nothing is half done. -/
theorem failed_outcome_keeps_state (p : Params) (s : State) (paused : List (Nat × Nat))
    (picks : Option (List (Nat × Nat))) (h : ∀ ids, (step p s (.loopEnd paused picks)).2 ≠ .deleted ids) :
    (step p s (.loopEnd paused picks)).1 = s := by
  simp only [step] at h ⊢
  have hc := loopEnd_cases p s paused picks
  generalize loopEnd p s paused picks = r at hc h
  cases hc with
  | removed hh hne pk hp hlen hmem hnd => exact absurd rfl (h _)
  | _ => rfl

example : (step pE (run pE [.start 0, .start 1, .start 2]) (.loopEnd [] none)).2 = .raised ∧
    (step pE (run pE hFour) (.loopEnd [(0, 1)] none)).2 = .oracleRaised := by decide

/-- Within the limit `on_loop_end` does nothing at all (it does not even ask the scheduler). -/
theorem loop_end_noop_within_limit (p : Params) (s : State) (paused : List (Nat × Nat))
    (picks : Option (List (Nat × Nat))) (h : (countCp s : Int) ≤ p.maxCp) :
    step p s (.loopEnd paused picks) = (s, .deleted []) := by
  have : excess p s ≤ 0 := by unfold excess; omega
  simp [step, loopEnd, this]

example : (countCp (run pB [.start 0, .start 1]) : Int) ≤ pB.maxCp := by decide

end SyneTune.C20Early
