import SyneTune.Lemmas.PollOps
import SyneTune.Lemmas.SimPrefix
import SyneTune.Lemmas.SimComplete
import SyneTune.Lemmas.SimProv
import SyneTune.Lemmas.SimCongr
import SyneTune.Lemmas.SimClock
/-
C02 — Every reported result is delivered exactly once, in order, never after stop.
Property theorems only.

Part 1 (generic poll logic, `Model/PollBackend.lean`): `TrialBackend.fetch_status_results`
with its cursor and status hiding, `start/resume/pause/stop_trial`, `stop_all`, and the batch
filter of `Tuner._update_running_trials`, over ALL histories of backend / worker / loop
operations (`Poll.run`; a rejected operation is skipped).

Part 2 (simulator, `Model/Simulator.lean` + `Model/TabularBackend.lean`): the event heap,
`_next_results_to_fetch` ("not polled ⇒ dropped but counted"), stop / pause, resume, over all
histories of operations none of which raised (`TB.run … = .ok s`).

On the current tree "nothing a trial reports after the decision is delivered, not even after
a resume / after a resume delivery continues with the first report of the new run" is FALSE
for both backends; see the `…_partial` / `…_counterexample` pairs.
-/
namespace SyneTune.C02
open SyneTune SyneTune.Backend SyneTune.PollL SyneTune.SimL SyneTune.SimTab

/-- reports of run `k` among a list of reports (`runReps`) -/
abbrev ofRun (k : Nat) (l : List Rep) : List Rep := runReps k l

/-- **prefix (generic poll logic).**  After ANY history of backend / worker / loop
operations, what `fetch_status_results` has returned for a trial so far (`deliv`, in the
order returned) is exactly the first `cursor` reports of everything the trial ever wrote;
hence for every run `k` the delivered reports of that run are a prefix of the reports of that
run — each once, in report order, without gaps (the reports of a run carry the indices
`0, 1, 2, …`). -/
theorem poll_prefix (dc ds : Bool) (ops : List POp) (t : Nat) (x : PTrial)
    (hx : ((Poll.init dc ds).run ops).trials[t]? = some x) :
    x.deliv = x.out.take x.cursor ∧
    ∀ k, ofRun k x.deliv <+: ofRun k x.out ∧ ∃ n, (ofRun k x.out).map (·.idx) = List.range n := by
  have h := (PInv.run ops (PInv.init dc ds)).get hx
  refine ⟨h.deliv_eq, fun k => ⟨?_, h.all_idx k⟩⟩
  rw [h.deliv_eq]
  exact List.IsPrefix.filter _ (List.take_prefix _ _)

/-- **complete (generic).**  In every reachable state: a poll of trial `t` that reports
`Completed` (the job ended on its own, exit code 0, no stop / pause marker) has handed out
everything: the delivered sequence is the whole output of the trial. -/
theorem poll_complete (dc ds : Bool) (ops : List POp) (ids : List Nat) (b' : Poll)
    (sts : List (Nat × St)) (batch : List (Nat × Rep)) (t : Nat) (x' : PTrial)
    (hf : ((Poll.init dc ds).run ops).fetch ids = .ok (b', sts, batch)) (ht : t ∈ ids)
    (hx : b'.trials[t]? = some x') (hc : x'.status = .completed) :
    x'.deliv = x'.out ∧ alookup t sts = some .completed := by
  have hinv := PInv.run ops (PInv.init dc ds)
  obtain ⟨h1, h2, _, _, _, _, _, _, hsts⟩ := fetch_spec hinv hf
  have hinv' := (hinv.fetch hf).get hx
  cases hx0 : ((Poll.init dc ds).run ops).trials[t]? with
  | none => rw [h2 t hx0] at hx; cases hx
  | some x =>
    have h1a := (h1 t x hx0).1
    rw [hx] at h1a
    simp only [ht, if_true, Option.some.injEq] at h1a
    have hst : x.status = .completed := by
      have : x'.status = x.status := by
        rw [h1a, status_record, status_fetchOne]
      rw [← this]; exact hc
    have hcur := (fetchOne_completed (hinv.get hx0) hst).2
    constructor
    · rw [hinv'.deliv_eq, h1a, (record_keeps _ _).2.2.1, (record_keeps _ _).2.2.2.1, hcur,
        (fetchOne_keeps x).2.2.1, List.take_length]
    · rw [hsts, alookup_map_key (fun t => (b'.trials[t]?.map (·.dictSt)).getD St.inProgress)]
      simp only [ht, if_true, hx, Option.map_some, Option.getD_some]
      rw [h1a, (record_keeps _ _).2.2.2.2, (fetchOne_keeps x).2.2.2, hst]

/-- **nothing after the decision (generic).**  `afterDec` collects every result a poll
returns for a trial, and every result the loop hands to the scheduler, while the trial is
"decided" (from the STOP / PAUSE answer of the scheduler inside `_update_running_trials`
until the next `resume_trial`).  It stays empty in every reachable state: the rest of the
batch is skipped, later polls hide the trial (paused / stopping / stopped) or find nothing new
(STOP of a trial already polled as completed). -/
theorem poll_nothing_after_decision (dc ds : Bool) (ops : List POp) (t : Nat) (x : PTrial)
    (hx : ((Poll.init dc ds).run ops).trials[t]? = some x) : x.afterDec = [] :=
  ((PInv.run ops (PInv.init dc ds)).get hx).after

/-- **fresh after resume — partial (generic).**  `since` collects what polls returned for the
trial since its last `start_trial` / `resume_trial`.  If at that resume every report written
so far had been seen (`staleAtResume = false`: the old run wrote nothing between the deciding
poll and the pause), the first result delivered afterwards is report 0 of the new run.

The full statement (without the hypothesis) is FALSE of the code: `poll_resume_fresh_counterexample`. -/
theorem poll_resume_fresh_partial (dc ds : Bool) (ops : List POp) (t : Nat) (x : PTrial) (r : Rep)
    (hx : ((Poll.init dc ds).run ops).trials[t]? = some x)
    (hclean : x.staleAtResume = false) (hr : x.since.head? = some r) :
    r.run = x.run ∧ r.idx = 0 := by
  have h := (PInv.run ops (PInv.init dc ds)).get hx
  have hf := h.fresh hclean
  cases hs : x.since with
  | nil => rw [hs] at hr; cases hr
  | cons r0 tl =>
    rw [hs] at hr hf
    simp only [List.head?_cons, Option.some.injEq] at hr
    subst hr
    have hmem : r0 ∈ runReps x.run x.out := by rw [← hf]; simp
    have hrun : r0.run = x.run := by
      have := (List.mem_filter.mp hmem).2
      simpa using this
    refine ⟨hrun, ?_⟩
    have hidx := h.cur_idx
    rw [← hf] at hidx
    simp only [List.cons_append, List.map_cons] at hidx
    cases hn : x.nrep with
    | zero => rw [hn] at hidx; simp at hidx
    | succ n =>
      rw [hn, List.range_succ_eq_map] at hidx
      simp only [List.cons.injEq] at hidx
      exact hidx.1

/-- the history of §6-F2: a report written between the deciding poll and the pause -/
def staleHistory : List POp :=
  [.start none, .emit 0 1,
   .loop [0] [⟨.pause, 1⟩],     -- poll sees report 0, PAUSE; the worker writes report 1 before the kill
   .resume 0, .emit 0 1,        -- new run (run 1) writes its report 0
   .fetch [0]]

theorem staleHistory_eval :
    (((Poll.init false false).run staleHistory).trials[0]?).map
        (fun x => (x.run, x.since.map (fun r => (r.run, r.idx)), x.staleAtResume)) =
      some (1, [(0, 1), (1, 0)], true) := by
  decide

/-- **fresh after resume — counterexample (generic).**  On the current tree the statement
"after a resume the first delivered result is the first report of the new run" is false for
the generic poll logic: in `staleHistory` the first result after the resume is report 1 of the
OLD run (written after the scheduler's PAUSE decision), ahead of report 0 of the new run. -/
theorem poll_resume_fresh_counterexample :
    ¬ ∀ (ops : List POp) (t : Nat) (x : PTrial) (r : Rep),
        ((Poll.init false false).run ops).trials[t]? = some x → x.since.head? = some r →
        r.run = x.run ∧ r.idx = 0 := by
  intro h
  have hc := staleHistory_eval
  cases hx : ((Poll.init false false).run staleHistory).trials[0]? with
  | none => rw [hx] at hc; cases hc
  | some x =>
    rw [hx] at hc
    simp only [Option.map_some, Option.some.injEq, Prod.mk.injEq] at hc
    cases hs : x.since with
    | nil => rw [hs] at hc; simp at hc
    | cons r tl =>
      have := h staleHistory 0 x r hx (by rw [hs]; rfl)
      rw [hs] at hc
      simp only [List.map_cons, List.cons.injEq, Prod.mk.injEq] at hc
      omega


/-! ## Part 2: simulator backend -/

/-- the tabular job, guarded by the sign of the repair step: it coincides with `tabJob` on all
job states of a history whose initial repair step (the literal `0.01`) is non-negative
(`run_congr`), and its result lists are sorted for every job state -/
def posJob (A : Arith) : JobFn TabState := fun js t =>
  if 0 ≤ js.minStep then tabJob A js t else .error (.assertion "negative repair step")

theorem posJob_agree (A : Arith) : JobAgree (fun js : TabState => 0 ≤ js.minStep) (tabJob A) (posJob A) := by
  constructor
  · intro js t hq; simp only [posJob, hq, if_true]
  · intro js t js' st rs hq h
    rw [(tabJob_stable A js js' t st rs h).2.2.2.2.2]; exact hq

theorem hooks_keep : HooksKeep (fun js : TabState => 0 ≤ js.minStep) :=
  ⟨fun _ _ _ h => h, fun _ _ _ h => h, fun _ _ h => h⟩

theorem posJob_sorted (A : Arith) (hA : AddGe A) : JobSorted (posJob A) := by
  intro js t js' st rs h
  unfold posJob at h
  split at h
  · rename_i hq
    exact (tabJob_sorted A js js' t st rs (fun a => hA a _ hq) h).1
  · cases h

theorem posJob_statusOK (A : Arith) : JobStatusOK (posJob A) := by
  intro js t js' st rs h
  unfold posJob at h
  split at h
  · rw [(tabJob_spec A js js' t st rs h).1]; simp
  · cases h

/-- a history of the real (tabular) backend is a history of the guarded job -/
theorem run_pos (A : Arith) (cfg : SimCfg) (js : TabState) (hm : 0 ≤ js.minStep) (ops : List SOp) (s : TB)
    (h : TB.run A (tabJob A) (TB.init cfg js) ops = .ok s) :
    TB.run A (posJob A) (TB.init cfg js) ops = .ok s := by
  rw [← run_congr (posJob_agree A) hooks_keep A ops (TB.init cfg js) hm]; exact h

/-- indices of the results of run `r` of trial `t` that polls DELIVERED, in delivery order -/
def deliveredIdx (s : TB) (t r : Nat) : List Nat :=
  (s.log.filter (fun en => en.trial == t && en.tag.run == r && en.delivered)).map (·.tag.idx)

/-- **prefix (simulator).**  In every reachable state, for every trial `t` and run `r`: the
results of the run that polls have handled so far (`logIdx`: delivered, or dropped-but-counted
because the trial was not among the polled ids), then those that have arrived and wait for the
next poll, then those still in the event heap carry the indices `0, 1, …, m-1` in this order.
Hence the handled ones are `0, …, k-1`; the delivered ones are a sub-sequence of these (each
once, in order) and — when no result of the run was dropped, i.e. the trial was covered by
every poll while results of the run were queued — exactly the gap-free prefix `0, …, k-1`.
Assumptions: floating-point addition is monotone (`AddMono`, `AddGe`), repair step `≥ 0`. -/
theorem sim_prefix (A : Arith) (hA : AddMono A) (hA2 : AddGe A) (cfg : SimCfg) (js : TabState)
    (hm : 0 ≤ js.minStep) (ops : List SOp) (s : TB)
    (h : TB.run A (tabJob A) (TB.init cfg js) ops = .ok s) (t r : Nat) :
    ∃ m k, logIdx s t r ++ nextIdx s t r ++ heapIdx s t r = List.range m ∧
      logIdx s t r = List.range k ∧ k ≤ m ∧
      (deliveredIdx s t r).Sublist (List.range k) ∧
      ((∀ en ∈ s.log, en.trial = t → en.tag.run = r → en.delivered = true) → deliveredIdx s t r = List.range k) := by
  obtain ⟨m, hm'⟩ := sim_prefix_run A (posJob A) hA (posJob_sorted A hA2) cfg js ops s (run_pos A cfg js hm ops s h) t r
  have hk : logIdx s t r = List.range (logIdx s t r).length := by
    rw [List.append_assoc] at hm'
    exact range_prefix hm'
  have hle : (logIdx s t r).length ≤ m := by
    have := congrArg List.length hm'
    simp at this; omega
  refine ⟨m, (logIdx s t r).length, hm', hk, hle, ?_, ?_⟩
  · rw [← hk]
    unfold deliveredIdx logIdx
    apply List.Sublist.map
    have : (s.log.filter fun en => en.trial == t && en.tag.run == r && en.delivered) =
        (s.log.filter fun en => en.trial == t && en.tag.run == r).filter (fun en => en.delivered) := by
      rw [List.filter_filter]; congr 1; funext en; simp [Bool.and_comm]
    rw [this]
    exact List.filter_sublist
  · intro hall
    rw [← hk]
    unfold deliveredIdx logIdx
    congr 1
    apply List.filter_congr
    intro en hen
    by_cases h1 : en.trial = t
    · by_cases h2 : en.tag.run = r
      · simp [h1, h2, hall en hen h1 h2]
      · simp [h2]
    · simp [h1]

/-- **complete (simulator).**  Once the completion event that the run's own start event pushed
has been processed (`completedRun = some r`: the job ended on its own, status `Completed` is
what the next poll reports), every result of run `r` has arrived at the backend — handled by
an earlier poll or queued for the next one, none left in the heap.  So the first poll covering
the trial after that hands out the rest: the handled indices are then `0, …, n-1` with `n` the
number of results of the run, and (no drops, `sim_prefix`) the delivered ones are all of them.
Assumption of the real `SimulatorConfig`: `delay_on_trial_result ≤
delay_complete_after_final_report`. -/
theorem sim_complete (A : Arith) (hA : AddMono A) (hA2 : AddGe A) (cfg : SimCfg) (js : TabState)
    (hm : 0 ≤ js.minStep) (hd : cfg.dResult ≤ cfg.dCompleteFinal) (ops : List SOp) (s : TB)
    (h : TB.run A (tabJob A) (TB.init cfg js) ops = .ok s)
    (t : Nat) (x : STrial) (r : Nat) (hx : s.trials[t]? = some x) (hc : x.completedRun = some r) :
    ∃ ρ ∈ s.runs, ρ.trial = t ∧ ρ.run = r ∧
      logIdx s t r ++ nextIdx s t r = List.range ρ.results.length ∧ heapIdx s t r = [] :=
  sim_complete_run A (posJob A) hA (posJob_sorted A hA2) cfg js hd ops s (run_pos A cfg js hm ops s h) t x r hx hc

/-- **nothing after the decision — partial (simulator).**  In every reachable state, for a
trial that was paused / stopped and not resumed since (`commanded`): no event of the trial is
left in the heap (nothing more can arrive, `C10.stop_removes`), and once a poll that does not
cover the trial has happened (`flushed`; the tuning loop polls running trials only) nothing is
queued for it either, so every further poll returns nothing for it — until `resume_trial`.

Without `flushed` the statement is false: see `sim_resume_fresh_counterexample` (results that
arrived between the deciding poll and the stop event are still queued; they are delivered if
the trial is resumed — or polled — before the next poll that does not cover it). -/
theorem sim_nothing_after_decision_partial (A : Arith) (hA : AddGe A) (cfg : SimCfg) (js : TabState)
    (hg : 0 ≤ cfg.guard) (ops : List SOp) (s : TB)
    (h : TB.run A (tabJob A) (TB.init cfg js) ops = .ok s)
    (t : Nat) (x : STrial) (hx : s.trials[t]? = some x) (hc : x.commanded = true) :
    (∀ e ∈ s.heap, e.trial ≠ t) ∧
    (x.flushed = true → alookup t s.next = none ∧
      ∀ ids s' sts res, s.fetch A (tabJob A) ids = .ok (s', sts, res) → ∀ p ∈ res, p.1 ≠ t) := by
  have hjs : JobStatusOK (tabJob A) := by
    intro js0 t0 js' st rs h0
    rw [(tabJob_spec A js0 js' t0 st rs h0).1]; simp
  have inv := CmdInv.run hA hjs ops (CmdInv.init cfg js hg) h
  refine ⟨inv.quiet t x hx hc, fun hf => ⟨inv.flushed t x hx hc hf, ?_⟩⟩
  intro ids s' sts res hfe
  exact fetch_nothing (inv.quiet t x hx hc) (inv.flushed t x hx hc hf) hfe

/-- **fresh after resume — partial (simulator).**  `since` collects the tags of the results
delivered for the trial since its last `start_trial` / `resume_trial`.  If nothing was queued
for the trial at that moment (`queuedAtResume = false`; guaranteed when a poll not covering the
trial happened between the pause and the resume) and none of its results has been dropped
since, the first result delivered afterwards is result 0 of a run started after the resume.

The full statement (without `queuedAtResume = false`) is FALSE of the code:
`sim_resume_fresh_counterexample`. -/
theorem sim_resume_fresh_partial (A : Arith) (hA : AddMono A) (hA2 : AddGe A) (cfg : SimCfg) (js : TabState)
    (hg : 0 ≤ cfg.guard) (hm : 0 ≤ js.minStep) (ops : List SOp) (s : TB)
    (h : TB.run A (tabJob A) (TB.init cfg js) ops = .ok s)
    (t : Nat) (x : STrial) (hx : s.trials[t]? = some x)
    (hq : x.queuedAtResume = false) (hd : x.droppedSince = false) (tag : Tag) (ht : x.since.head? = some tag) :
    tag.idx = 0 ∧ x.expectRun ≤ tag.run :=
  sim_resume_fresh_run A (posJob A) hA hA2 (posJob_sorted A hA2) (posJob_statusOK A) cfg js hg ops s
    (run_pos A cfg js hm ops s h) t x hx hq hd tag ht

/-- a real table for the counterexample: one configuration, one seed, levels 1, 2, 3 reached
after 1, 2, 3 time units -/
def staleTable : TabState :=
  { table := ⟨[1, 2, 3], 0, 1, [[[[1], [2], [3]]]]⟩, maxResAttr := false, seedFix := some 0,
    checkpointing := true, minStep := 1/100 }

def staleCfg : SimCfg :=
  { dResult := 0, dCompleteFinal := 0, dCompleteStop := 0, dStart := 0, dStop := 1/2, sleep := 0, guard := 1/1000 }

/-- the scheduler pauses the trial on its first result and resumes it right away (as a
promotion-type scheduler does when the trial is promotable): the second result of the old run
arrives before the stop takes effect (`delay_stop`) and is delivered after the resume -/
def simStaleHistory : List SOp :=
  [.start ⟨0, none⟩, .advance (7/4), .fetch [0],   -- delivers level 1 (time 1)
   .pause 0 (some 1),                              -- PAUSE at level 1; stop event at 9/4: level 2 (time 2) arrives
   .resume 0 none,                                 -- resumed before the next poll
   .advance (3/2), .fetch [0]]                     -- delivers level 2 of the OLD run, then level 2 of the new run

def simStaleView (r : Except BErr TB) : Option (List (Nat × Nat) × Nat × Bool × Bool) :=
  match r with
  | .error _ => none
  | .ok s => (s.trials[0]?).map fun x =>
      (x.since.map fun tg => (tg.run, tg.idx), x.expectRun, x.queuedAtResume, x.droppedSince)

theorem simStaleHistory_eval :
    simStaleView (TB.run Arith.exact (tabJob Arith.exact) (TB.init staleCfg staleTable) simStaleHistory) =
      some ([(0, 1), (1, 0)], 1, true, false) := by
  decide +kernel

/-- **fresh after resume — counterexample (simulator).**  On the current tree "after a resume
the first delivered result is the first report of the new run" (and with it "nothing reported
after the PAUSE decision is ever delivered") is false for the simulator backend as well: in
`simStaleHistory` the first result delivered after the resume is result 1 of run 0. -/
theorem sim_resume_fresh_counterexample :
    ¬ ∀ (ops : List SOp) (s : TB) (t : Nat) (x : STrial) (tag : Tag),
        TB.run Arith.exact (tabJob Arith.exact) (TB.init staleCfg staleTable) ops = .ok s →
        s.trials[t]? = some x → x.droppedSince = false → x.since.head? = some tag →
        tag.idx = 0 ∧ x.expectRun ≤ tag.run := by
  intro hall
  have hc := simStaleHistory_eval
  unfold simStaleView at hc
  cases hr : TB.run Arith.exact (tabJob Arith.exact) (TB.init staleCfg staleTable) simStaleHistory with
  | error e => rw [hr] at hc; cases hc
  | ok s =>
    rw [hr] at hc
    simp only at hc
    cases hx : s.trials[0]? with
    | none => rw [hx] at hc; cases hc
    | some x =>
      rw [hx] at hc
      simp only [Option.map_some, Option.some.injEq, Prod.mk.injEq] at hc
      cases hs : x.since with
      | nil => rw [hs] at hc; simp at hc
      | cons tg tl =>
        have := hall simStaleHistory s 0 x tg hr hx hc.2.2.2 (by rw [hs]; rfl)
        rw [hs] at hc
        simp only [List.map_cons, List.cons.injEq, Prod.mk.injEq] at hc
        omega

/-! ### the hypotheses are satisfiable -/

example : AddGe Arith.exact := addGe_exact
example : AddMono Arith.exact :=
  ⟨fun a b b' h => by show a + b ≤ a + b'; linarith, fun a a' b h => by show a + b ≤ a' + b; linarith⟩
/-- a concrete history of the generic model reaching a paused-and-resumed trial with a clean
resume (hypotheses of `poll_resume_fresh_partial`) -/
example : (((Poll.init false false).run
      [.start none, .emit 0 2, .loop [0] [⟨.continue, 0⟩, ⟨.pause, 0⟩], .resume 0, .emit 0 1, .fetch [0]]).trials[0]?).map
      (fun x => (x.staleAtResume, x.since.map (fun r => (r.run, r.idx)), x.afterDec.length)) =
    some (false, [(1, 0)], 0) := by decide

end SyneTune.C02
