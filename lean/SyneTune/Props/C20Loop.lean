import SyneTune.Lemmas.TunerCkpt
import SyneTune.Lemmas.TunerWitness
/-
C20 (loop side) — a checkpoint exists whenever a trial is resumed or warm-started from it.
Property theorems only; model `Model/Tuner.lean` (incl. the generic `TrialBackend.stop_trial`,
`stop_all` and `RemoveCheckpointsCallback.on_loop_end`), lemmas `Lemmas/TunerCkpt.lean`.
The ghost list `deleted` records every trial for which `delete_checkpoint` has returned.
Scheduler-side parts (which schedulers satisfy `K2Ok` / `SrcOk`) are separate.
-/
namespace SyneTune.C20Loop
open SyneTune SyneTune.Tuner

/-- **A checkpoint is deleted only** (a) by `stop_trial` right after the scheduler's STOP of that
trial was carried out (`backend.stop_trial(t)` has just returned and `delete_checkpoints` is
on), (b) because the scheduler named the trial in `trials_checkpoints_can_be_removed`, or
(c) inside `stop_all` at the end of tuning (for a trial it has just stopped, or in the final
sweep over all trials).  Stated on the machine: `delete_checkpoint(t)` can only be the pending
call at four control points, each reached in exactly one way. -/
theorem delete_only_when (s : LState) (a : Ans) (t : Nat) (h : pending (step s a) = .delete t) :
    ((step s a).pc = .stopDel ∧ s.pc = .stopCmd ∧ pending s = .stop t ∧ s.cfg.deleteCkpt = true) ∨
    ((step s a).pc = .delRem ∧ s.pc = .delNext ∧ t ∈ s.dels) ∨
    ((step s a).pc = .finStopDel ∧ s.pc = .finStop ∧ pending s = .stop t ∧ s.cfg.deleteCkpt = true) ∨
    ((step s a).pc = .finDel ∧ s.pc = .finDelNext ∧ t ∈ s.dels) := by
  have hpend : pending (step s a) = pending (next s a) := by
    rw [step_eq]; split
    · rfl
    · unfold pending; rfl
  rw [hpend] at h
  have hpc := step_pc s a
  rw [hpc]
  -- which control points have a pending `delete`
  have hwhich : (next s a).pc = .stopDel ∨ (next s a).pc = .delRem ∨ (next s a).pc = .finStopDel ∨ (next s a).pc = .finDel := by
    revert h; unfold pending; cases (next s a).pc <;> simp
  have hfl := next_flow s a
  rcases hwhich with hw | hw | hw | hw
  · left
    have hp : s.pc = .stopCmd := by rw [hw] at hfl; revert hfl; cases s.pc <;> simp [flow, succs]
    obtain ⟨hdc, hpd⟩ := stopDel_from s a hp hw
    rw [hpd] at h
    injection h with h
    exact ⟨hw, hp, by unfold pending; rw [hp, h], hdc⟩
  · right; left
    have hp : s.pc = .delNext := by rw [hw] at hfl; revert hfl; cases s.pc <;> simp [flow, succs]
    refine ⟨hw, hp, ?_⟩
    revert h hw; simp only [next, hp]
    cases hd : s.dels with
    | nil => simp
    | cons x xs => simp [pending]; intro h; rw [← h]; exact Or.inl rfl
  · right; right; left
    have hp : s.pc = .finStop := by rw [hw] at hfl; revert hfl; cases s.pc <;> simp [flow, succs]
    obtain ⟨hdc, hpd⟩ := finStopDel_from s a hp hw
    rw [hpd] at h
    injection h with h
    exact ⟨hw, hp, by unfold pending; rw [hp, h], hdc⟩
  · right; right; right
    have hp : s.pc = .finDelNext := by rw [hw] at hfl; revert hfl; cases s.pc <;> simp [flow, succs]
    refine ⟨hw, hp, ?_⟩
    revert h hw; simp only [next, hp]
    cases hd : s.dels with
    | nil => simp
    | cons x xs => simp [pending]; intro h; rw [← h]; exact Or.inl rfl

/-- every deleted checkpoint belongs to a trial the scheduler stopped (it is in
`trials_scheduler_stopped`, or its `on_trial_remove` after STOP is the pending call) or named
removable — at every point of every run inside the loop -/
theorem deleted_only_stopped_or_named (c : Cfg) (as : List Ans)
    (hK2 : Along K2Ok (init c) as) (hSrc : Along SrcOk (init c) as) (hf : finPc (run (init c) as).pc = false) :
    ∀ t ∈ (run (init c) as).deleted,
      t ∈ (run (init c) as).schedStopped ∨ t ∈ (run (init c) as).removableSaid ∨
      ((run (init c) as).pc = .removeS ∧ t = (run (init c) as).cur.tid) :=
  (YInv_run c as hK2 hSrc).y1 hf

/-- the trials removed by `RemoveCheckpointsCallback` are the ones the scheduler named -/
theorem removal_callback_deletes_named (c : Cfg) (as : List Ans)
    (hK2 : Along K2Ok (init c) as) (hSrc : Along SrcOk (init c) as) (hp : (run (init c) as).pc = .delRem) :
    pending (run (init c) as) = .delete (run (init c) as).t ∧ (run (init c) as).t ∈ (run (init c) as).removableSaid :=
  ⟨by unfold pending; rw [hp], (YInv_run c as hK2 hSrc).y2' hp⟩

/-- **A resumed trial still has its checkpoint** — given contract K (resume only for a trial
whose run this scheduler ended with PAUSE, `KOk`; never for one it named removable, `K2Ok`) and
contract B: when `backend.resume_trial(id)` is the pending call, `delete_checkpoint(id)` has
never been carried out. -/
theorem resume_has_ckpt (c : Cfg) (as : List Ans)
    (hB : Along BOk (init c) as) (hK : Along KOk (init c) as)
    (hK2 : Along K2Ok (init c) as) (hSrc : Along SrcOk (init c) as)
    (hp : (run (init c) as).pc = .resumeCmd) :
    pending (run (init c) as) = .resume (run (init c) as).sId (run (init c) as).sRCfg ∧
    (run (init c) as).sId ∉ (run (init c) as).deleted := by
  refine ⟨by unfold pending; rw [hp], fun hd => ?_⟩
  have hY := YInv_run c as hK2 hSrc
  obtain ⟨_, hI⟩ := SK_run c as hB hK
  have hb := hI (by rw [hp]; rfl)
  have hpz := hb.rg.regResume hp
  rcases hY.y1 (by rw [hp]; rfl) _ hd with h1 | h1 | h1
  · have := hb.dd.dead _ h1
    rw [hpz] at this; cases this
  · exact hY.y3 hp h1
  · rw [hp] at h1; exact nomatch h1.1

/-- **Warm start (population based training), partial.** If the scheduler never warm-starts from
a trial it has stopped or named removable (`SrcOk`; for PBT: the clone source is not stopped
between the clone decision and the next `suggest`), then whenever `copy_checkpoint(src, new)`
is the pending call the checkpoint of `src` has not been deleted.
The full statement (without `SrcOk`) is false for the loop: `pbt_counterexample`. -/
theorem pbt_partial (c : Cfg) (as : List Ans)
    (hK2 : Along K2Ok (init c) as) (hSrc : Along SrcOk (init c) as)
    (hp : (run (init c) as).pc = .copyCmd) (src : Nat) (hs : (run (init c) as).sCkpt = some src) :
    pending (run (init c) as) = .copy src (run (init c) as).sId ∧ src ∉ (run (init c) as).deleted := by
  refine ⟨by unfold pending; rw [hp, hs]; rfl, fun hd => ?_⟩
  have hY := YInv_run c as hK2 hSrc
  obtain ⟨h1, h2⟩ := hY.y4 (Or.inr hp) src hs
  rcases hY.y1 (by rw [hp]; rfl) _ hd with h3 | h3 | h3
  · exact h1 h3
  · exact h2 h3
  · rw [hp] at h3; exact nomatch h3.1

/-- **F5 — warm start from a deleted checkpoint.** `delete_checkpoints=True`, two workers.  One
poll delivers a result of trial 1, decided STOP (a PBT scheduler now queues "clone trial 0"), and
a result of trial 0, decided STOP as well (it reached `max_t`).  `stop_trial` deletes both
checkpoints; the next suggestion starts trial 2 from the checkpoint of trial 0.  The contracts
B, K and `K2Ok` hold along the run, yet `copy_checkpoint(0, 2)` is the pending call and the
checkpoint of trial 0 has been deleted.  (What fails is `SrcOk`: the scheduler names a source it
has itself stopped in between.) -/
theorem pbt_counterexample :
    Witness.pbtCfg.deleteCkpt = true ∧
    Along BOk (init Witness.pbtCfg) Witness.pbtPrefix ∧
    Along KOk (init Witness.pbtCfg) Witness.pbtPrefix ∧
    Along K2Ok (init Witness.pbtCfg) Witness.pbtPrefix ∧
    Along NCOk (init Witness.pbtCfg) Witness.pbtPrefix ∧
    pending (run (init Witness.pbtCfg) Witness.pbtPrefix) = .copy 0 2 ∧
    0 ∈ (run (init Witness.pbtCfg) Witness.pbtPrefix).deleted := by
  refine ⟨rfl, along_of bOk_of (by decide +kernel), along_of kOk_of (by decide +kernel),
    along_of k2Ok_of (by decide +kernel), along_of ncOk_of (by decide +kernel), ?_, ?_⟩ <;> decide +kernel

/-- the hypothesis that `pbt_partial` adds is exactly what the witness breaks -/
example : alongB srcOkB (init Witness.pbtCfg) Witness.pbtPrefix = false := by decide +kernel

/-! ### concrete instances -/

/-- the deletions of the witness run, in order: by `stop_trial` (1, then 0), then the final sweep of
`stop_all` over all trials -/
example : (run (init Witness.pbtCfg) (Witness.pbtPrefix ++ Witness.pbtRest)).deleted.reverse = [1, 0, 0, 1, 2] := by
  decide +kernel

/-- `delete_only_when` at the first deletion of the witness run (31 answers in): case (a) -/
example : pending (step (run (init Witness.pbtCfg) (Witness.pbtPrefix.take 30)) .ret) = .delete 1 ∧
    (run (init Witness.pbtCfg) (Witness.pbtPrefix.take 30)).pc = .stopCmd := by
  decide +kernel

end SyneTune.C20Loop
