import SyneTune.Lemmas.HBStopping
import SyneTune.Lemmas.RungLevels
/-
C03 — stopping-type asynchronous Hyperband decides by the documented quantile rule.
Property theorems only; helper lemmas are in `Lemmas/Rung.lean`, `Lemmas/HBStopping.lean`.
Model: `Model/Rung.lean`, `Model/HB.lean`.
-/
namespace SyneTune.C03
open SyneTune

/-- `Rung.quantile` (the code's index arithmetic) is numpy's linear-interpolation
quantile of the recorded metrics, with `q = prom_quant` (min) / `1 - prom_quant` (max). -/
theorem cutoff_eq_numpy_quantile (m : Mode) (r : Rung) (hq0 : 0 < r.q) (hq1 : r.q < 1) :
    r.cutoff m = quantileAsc (r.ascVals m) (r.npQ m) := by
  cases m
  · exact cutoff_min r hq0 hq1
  · exact cutoff_max r hq0 hq1

/-- the cutoff exists exactly when the rung holds at least two entries (the code's
`assert 1 <= index < len_data` is unreachable for `0 < q < 1`). -/
theorem cutoff_isSome (m : Mode) (r : Rung) (hq0 : 0 < r.q) (hq1 : r.q < 1) :
    (r.cutoff m).isSome = true ↔ 2 ≤ r.data.length := by
  rw [cutoff_eq_numpy_quantile m r hq0 hq1]
  have hlen : (r.ascVals m).length = r.data.length := by cases m <;> simp [Rung.ascVals]
  have hq : 0 < r.npQ m ∧ r.npQ m < 1 := by
    cases m <;> simp only [Rung.npQ] <;> constructor <;> linarith
  constructor
  · intro h
    by_contra hc
    have : (r.ascVals m).length < 2 := by omega
    simp [quantileAsc, this] at h
  · intro h
    rw [quantileAsc_eq _ _ (by omega)]
    generalize hk : (r.ascVals m).length - 1 = k
    have hk1 : 1 ≤ k := by omega
    have hkq : (0:ℚ) < k := by exact_mod_cast hk1
    have hv0 : (0:ℚ) ≤ (k:ℚ) * r.npQ m := by have := hq.1; positivity
    have hv1 : (k:ℚ) * r.npQ m < (k:ℚ) := by nlinarith [hq.2]
    have hi := floor_toNat_lt hv0 hv1
    unfold interpAt
    have h1 : ((k:ℚ) * r.npQ m).floor.toNat < (r.ascVals m).length := by omega
    have h2 : ((k:ℚ) * r.npQ m).floor.toNat + 1 < (r.ascVals m).length := by omega
    rw [List.getElem?_eq_getElem h1, List.getElem?_eq_getElem h2]
    rfl

/-- **Decision at an own rung level.**  A trial reporting resource `r ≠ max_t` where `r` is
the level of one of its own milestone rungs (`skip` = bracket offset) which does not yet
contain it: the value is inserted into exactly that rung (all other rungs untouched), and
the trial continues iff its metric is no worse than the numpy quantile of all metrics of
the rung *including its own* — for every comparison that is not within round-off
(`forced`); with fewer than two entries it continues. -/
theorem decision_at_own_rung (s : RungSys) (m : Mode) (tid r : Nat) (v : Rat) (skip : Nat)
    (hint : Bool) (hd : RungsDecr s.rungs) (hr : r ≠ s.maxT)
    (rg : Rung) (hmem : rg ∈ milestoneRungs s.rungs skip) (hl : rg.level = r)
    (hnc : rg.contains tid = false) (hq0 : 0 < rg.q) (hq1 : rg.q < 1) :
    let res := s.stopReport m tid r v skip hint
    let rg' := rg.add m { tid := tid, val := v }
    (∃ pre post, s.rungs = pre ++ rg :: post ∧ res.1.rungs = pre ++ rg' :: post) ∧
    res.2.reached = true ∧
    (rg'.data.length < 2 → res.2.continues = true) ∧
    (∀ c b, quantileAsc (rg'.ascVals m) (rg'.npQ m) = some c → cmpNoWorse m v c rg'.scale = .forced b →
        (res.2.continues = true ↔ m.noWorse v c)) := by
  intro res rg'
  obtain ⟨pre, post', hsplit⟩ := List.append_of_mem hmem
  have hdec : RungsDecr (pre ++ rg :: post') := by
    rw [← hsplit]; unfold RungsDecr milestoneRungs
    exact List.Pairwise.sublist (List.take_sublist _ _) hd
  have hscan := stopScan_at_rung m tid r v hint s.maxT pre post' rg hdec hl hnc
  have hres : res = ({ s with rungs := (stopScan m tid r v hint s.maxT (pre ++ rg :: post')).1
                                ++ s.rungs.drop (s.rungs.length - skip) },
                      (stopScan m tid r v hint s.maxT (pre ++ rg :: post')).2) := by
    show s.stopReport m tid r v skip hint = _
    unfold RungSys.stopReport
    simp only [hr, if_false, hsplit]
  have hq' : rg'.q = rg.q := rfl
  refine ⟨⟨pre, post' ++ s.rungs.drop (s.rungs.length - skip), ?_, ?_⟩, ?_, ?_, ?_⟩
  · have := List.take_append_drop (s.rungs.length - skip) s.rungs
    unfold milestoneRungs at hsplit
    rw [hsplit] at this
    simpa using this.symm
  · rw [hres]; simp only [hscan.1]; simp only [List.append_assoc, List.cons_append]; rfl
  · rw [hres]; exact hscan.2.1
  · intro hlen
    rw [hres]; simp only [hscan.2.2.1]
    apply taskContinues_none
    have := (cutoff_isSome m rg' (by rw [hq']; exact hq0) (by rw [hq']; exact hq1))
    cases hc : rg'.cutoff m with
    | none => rfl
    | some c => rw [hc] at this; simp at this; omega
  · intro c b hcq hf
    rw [hres]; simp only [hscan.2.2.1]
    have hcut : rg'.cutoff m = some c := by
      rw [cutoff_eq_numpy_quantile m rg' (by rw [hq']; exact hq0) (by rw [hq']; exact hq1)]; exact hcq
    rw [taskContinues_forced m v rg' hint c b hcut hf]
    exact cmpNoWorse_forced m v c _ b hf

/-- with fewer than two entries in the rung after insertion the trial continues
(restated at the level of `_task_continues`). -/
theorem fewer_than_two_continues (m : Mode) (v : Rat) (rg : Rung) (hint : Bool)
    (h : rg.data.length < 2) : (taskContinues m v rg hint).1 = true := by
  apply taskContinues_none
  unfold Rung.cutoff; simp [h]

/-- **Decisions only at own rung levels, each rung entered at most once.**  If no own
milestone rung of level `r` is still missing the trial (i.e. `r` is not an own rung level,
or the trial is already recorded there), the report changes no rung and the trial
continues. -/
theorem only_own_rungs (s : RungSys) (m : Mode) (tid r : Nat) (v : Rat) (skip : Nat) (hint : Bool)
    (hr : r ≠ s.maxT)
    (h : ∀ rg ∈ milestoneRungs s.rungs skip, rg.level = r → rg.contains tid = true) :
    (s.stopReport m tid r v skip hint).1 = s ∧
    (s.stopReport m tid r v skip hint).2.continues = true ∧
    (s.stopReport m tid r v skip hint).2.reached = false := by
  have hs := stopScan_off_rung m tid r v hint s.maxT (milestoneRungs s.rungs skip) h
  unfold RungSys.stopReport
  simp only [hr, if_false, hs.1, hs.2.1, hs.2.2, and_self, and_true]
  unfold milestoneRungs
  rw [List.take_append_drop]

/-- a sequence of reports to one rung system -/
structure Report where
  tid : Nat
  r : Nat
  v : Rat
  skip : Nat
  hint : Bool

def runReports (m : Mode) (s : RungSys) (rs : List Report) : RungSys :=
  rs.foldl (fun s e => (s.stopReport m e.tid e.r e.v e.skip e.hint).1) s

/-- **Each trial enters a rung at most once; rungs stay sorted** — for every reachable
state, i.e. after any sequence of reports of any number of trials in any order. -/
theorem once_per_rung (m : Mode) (s : RungSys) (h : ∀ rg ∈ s.rungs, RungOK m rg)
    (rs : List Report) : ∀ rg ∈ (runReports m s rs).rungs, RungOK m rg := by
  induction rs generalizing s with
  | nil => exact h
  | cons e es ih =>
    apply ih
    unfold RungSys.stopReport
    by_cases hr : e.r = s.maxT
    · simp only [hr, if_true]; exact h
    · simp only [hr, if_false]
      intro rg hrg
      rcases List.mem_append.mp hrg with h1 | h1
      · refine stopScan_preserves_ok m e.tid e.r e.v e.hint s.maxT _ ?_ rg h1
        intro x hx; exact h x (List.mem_of_mem_take hx)
      · exact h rg (List.mem_of_mem_drop h1)

/-- the freshly constructed rung system satisfies the invariant (non-vacuity of
`once_per_rung`). -/
theorem init_ok (m : Mode) (levels : List Nat) (qs : List Rat) (maxT : Nat) :
    ∀ rg ∈ (mkRungSys levels qs maxT).rungs, RungOK m rg := by
  intro rg hrg
  unfold mkRungSys at hrg
  simp only [List.mem_reverse] at hrg
  have : rg.data = [] := by
    clear m
    induction levels generalizing qs with
    | nil => simp at hrg
    | cons l ls ih =>
      cases qs with
      | nil => simp at hrg
      | cons q qs' =>
        simp only [List.zipWith_cons_cons, List.mem_cons] at hrg
        rcases hrg with rfl | hrg
        · rfl
        · exact ih qs' hrg
  simp [RungOK, this, SortedBy]

/-- **Stop at the maximum resource.**  The bracket manager answers "do not continue" for
every report with `resource ≥ max_t`, without touching any rung. -/
theorem stop_at_max (g g' : Manager) (tid r : Nat) (v : Rat) (hint : Bool) (cost eps : Rat) (o : RepOut)
    (h : g.taskReport tid r v hint cost eps = .ok (g', o)) (hr : g.maxT ≤ r) :
    o.continues = false ∧ g' = g := by
  have hlt : ¬ r < g.maxT := by omega
  unfold Manager.taskReport at h
  cases h1 : alookup tid g.taskInfo with
  | none => simp [h1] at h
  | some b =>
    simp only [h1] at h
    cases h2 : g.systems[(g.sysFor b).1]? with
    | none => simp [h2] at h
    | some sys =>
      simp only [h2, hlt, if_false] at h
      injection h with h
      injection h with ha hb
      subst ha; subst hb; simp

/-- scheduler level: a live trial (recorded decision CONTINUE) whose report is not ignored
gets STOP iff the rung system says "do not continue" (for non-pause/resume types; PAUSE
below `max_t` for pause/resume types), else CONTINUE. -/
theorem decision_follows_report (s s' : Sched) (tid r : Nat) (v : Rat) (hint : Bool) (cost eps : Rat)
    (o : ResOut) (rec : TrialInfo) (g : Manager) (ro : RepOut)
    (hrec : alookup tid s.active = some rec) (hlive : rec.decision = .continue)
    (hrep : s.mgr.taskReport tid r v hint (s.totalCost tid cost) eps = .ok (g, ro))
    (hig : ro.ignoreData = false)
    (h : s.onResult tid r v hint cost eps = .ok (s', o)) :
    o.decision = (if ro.continues then Decision.continue
                  else if ¬ s.mgr.type.pauseResume ∨ s.mgr.maxT ≤ r then Decision.stop
                  else Decision.pause) ∧
    (s.mgr.type.pauseResume = false → ¬ ro.continues → o.decision = .stop) := by
  unfold Sched.onResult at h
  simp only [hrec, hlive, ne_eq, not_true_eq_false, if_false, hrep] at h
  have hdec := afterReport_decision s s' tid r v rec g ro _ o hig h
  have hty := taskReport_type_maxT _ _ _ _ _ _ _ _ _ hrep
  rw [hdec]
  simp only [Sched.decisionFor, hty.1, hty.2]
  refine ⟨trivial, ?_⟩
  intro hst hnc
  simp [hst, hnc]

/-- **A report after the decision repeats the decision and touches nothing.** -/
theorem decided_repeats (s : Sched) (tid r : Nat) (v : Rat) (hint : Bool) (rec : TrialInfo)
    (cost eps : Rat)
    (hrec : alookup tid s.active = some rec) (hdec : rec.decision ≠ .continue) :
    ∃ o, s.onResult tid r v hint cost eps = .ok (s, o) ∧ o.decision = rec.decision := by
  unfold Sched.onResult
  simp only [hrec, hdec, ne_eq, not_false_eq_true, if_true]
  exact ⟨_, rfl, rfl⟩

/-- rung levels from `grace_period`, `rung_increment`: positive (for positive grace
period), strictly increasing and all `< max_t`. -/
theorem rung_levels_inc (minT inc maxT : Nat) (hinc : 0 < inc) (hmin : 0 < minT) :
    (∀ l ∈ rungLevelsInc minT inc maxT, 0 < l ∧ l < maxT) ∧
    (rungLevelsInc minT inc maxT).Pairwise (· < ·) := by
  unfold rungLevelsInc
  constructor
  · intro l hl
    simp only [List.mem_map, List.mem_range] at hl
    obtain ⟨j, hj, rfl⟩ := hl
    constructor
    · omega
    · have h1 : j * inc < (maxT - minT + inc - 1) / inc * inc := Nat.mul_lt_mul_of_pos_right hj hinc
      have h2 : (maxT - minT + inc - 1) / inc * inc ≤ maxT - minT + inc - 1 := Nat.div_mul_le_self _ _
      have h3 : j + 1 ≤ (maxT - minT + inc - 1) / inc := hj
      have h4 : (j + 1) * inc ≤ (maxT - minT + inc - 1) / inc * inc := Nat.mul_le_mul_right _ h3
      have h5 : (j + 1) * inc = j * inc + inc := by ring
      omega
  · rw [List.pairwise_map]
    refine List.Pairwise.imp ?_ (List.pairwise_lt_range)
    intro a b hab
    have : a * inc < b * inc := Nat.mul_lt_mul_of_pos_right hab hinc
    omega

/-- promotion quantiles `q_j = r_j / r_{j+1}` lie strictly between 0 and 1 for positive,
strictly increasing rung levels below `max_t`. -/
theorem promote_quantiles_in_unit_interval (levels : List Nat) (maxT : Nat)
    (hpos : ∀ l ∈ levels, 0 < l) (hinc : (levels ++ [maxT]).Pairwise (· < ·)) :
    ∀ q ∈ promoteQuantiles levels maxT, 0 < q ∧ q < 1 := by
  unfold promoteQuantiles
  induction levels with
  | nil => simp
  | cons l ls ih =>
    intro q hq
    have hl : 0 < l := hpos l (by simp)
    rw [List.cons_append, List.pairwise_cons] at hinc
    cases ls with
    | nil =>
      simp only [List.drop_succ_cons, List.drop_nil, List.nil_append, List.zipWith_cons_cons,
        List.zipWith_nil_right, List.mem_singleton] at hq
      have hlt : l < maxT := hinc.1 maxT (by simp)
      subst hq
      have h1 : (0:ℚ) < l := by exact_mod_cast hl
      have h2 : (l:ℚ) < maxT := by exact_mod_cast hlt
      constructor
      · exact div_pos h1 (by linarith)
      · rw [div_lt_one (by linarith)]; exact h2
    | cons l2 ls2 =>
      simp only [List.drop_succ_cons, List.drop_zero, List.cons_append, List.zipWith_cons_cons,
        List.mem_cons] at hq
      rcases hq with rfl | hq
      · have hlt : l < l2 := hinc.1 l2 (by simp)
        have h1 : (0:ℚ) < l := by exact_mod_cast hl
        have h2 : (l:ℚ) < l2 := by exact_mod_cast hlt
        constructor
        · exact div_pos h1 (by linarith)
        · rw [div_lt_one (by linarith)]; exact h2
      · apply ih (fun x hx => hpos x (List.mem_cons_of_mem _ hx)) hinc.2
        simpa using hq

/-- rung levels from `grace_period`, `reduction_factor ≥ 2` (`round(min_t · rf^k)` with Python's
round-half-even, any rational factor such as 5/2): positive, strictly increasing, all `< max_t`. -/
theorem rung_levels_rf (minT : Nat) (rf : Rat) (maxT : Nat) (hm : 1 ≤ minT) (hrf : 2 ≤ rf) :
    (rungLevelsRF minT rf maxT).Pairwise (· < ·) ∧ ∀ l ∈ rungLevelsRF minT rf maxT, 0 < l ∧ l < maxT :=
  rungLevelsRF_props minT rf maxT hm hrf

theorem zipWith_rung_levels (levels : List Nat) (qs : List Rat) (h : qs.length = levels.length) :
    (List.zipWith (fun l q => ({ level := l, q := q, data := [] } : Rung)) levels qs).map (·.level) = levels := by
  induction levels generalizing qs with
  | nil => simp
  | cons l ls ih =>
    cases qs with
    | nil => simp at h
    | cons q qs' => simp only [List.zipWith_cons_cons, List.map_cons]; rw [ih qs' (by simpa using h)]

theorem promoteQuantiles_length (levels : List Nat) (maxT : Nat) :
    (promoteQuantiles levels maxT).length = levels.length := by
  unfold promoteQuantiles; simp; omega

/-- **The hypotheses of the decision theorems hold for every constructed rung system**: for
positive, strictly increasing levels below `max_t` (what `rung_levels_rf`, `rung_levels_inc`
and the explicit-list assertions give), the system built by the bracket manager has strictly
decreasing rung levels, empty well-formed rungs and promotion quantiles in (0,1). -/
theorem constructed_system_wf (m : Mode) (levels : List Nat) (maxT : Nat)
    (hpos : ∀ l ∈ levels, 0 < l) (hinc : (levels ++ [maxT]).Pairwise (· < ·)) :
    RungsDecr (mkRungSys levels (promoteQuantiles levels maxT) maxT).rungs ∧
    (∀ rg ∈ (mkRungSys levels (promoteQuantiles levels maxT) maxT).rungs, RungOK m rg ∧ 0 < rg.q ∧ rg.q < 1) := by
  constructor
  · unfold RungsDecr mkRungSys
    simp only
    rw [List.pairwise_reverse]
    have hl := zipWith_rung_levels levels (promoteQuantiles levels maxT) (promoteQuantiles_length levels maxT)
    have hp : levels.Pairwise (· < ·) := by
      rw [List.pairwise_append] at hinc; exact hinc.1
    rw [← hl, List.pairwise_map] at hp
    exact hp
  · intro rg hrg
    refine ⟨init_ok m levels _ maxT rg hrg, ?_⟩
    have hq := promote_quantiles_in_unit_interval levels maxT hpos hinc
    unfold mkRungSys at hrg
    simp only [List.mem_reverse] at hrg
    have : rg.q ∈ promoteQuantiles levels maxT := by
      generalize promoteQuantiles levels maxT = qs at hrg
      clear hq hinc hpos
      induction levels generalizing qs with
      | nil => simp at hrg
      | cons l ls ih =>
        cases qs with
        | nil => simp at hrg
        | cons q qs' =>
          simp only [List.zipWith_cons_cons, List.mem_cons] at hrg
          rcases hrg with rfl | hrg
          · simp
          · exact List.mem_cons_of_mem _ (ih qs' hrg)
    exact hq _ this

/-! ### non-vacuity: concrete states meeting the hypotheses -/

/-- the rule on a concrete rung: metrics 1,2,3,4 at a rung with `q = 1/3`, min mode:
numpy's 1/3-quantile is 2, so a trial with value 2 continues and one with 3 stops. -/
example :
    let rg : Rung := { level := 1, q := 1/3, data := [⟨0, 1, false, 0⟩, ⟨1, 2, false, 0⟩, ⟨2, 3, false, 0⟩, ⟨3, 4, false, 0⟩] }
    rg.cutoff .min = some 2 ∧ quantileAsc (rg.ascVals .min) (rg.npQ .min) = some 2 ∧
    cmpNoWorse .min 1 2 rg.scale = .forced true ∧ cmpNoWorse .min 3 2 rg.scale = .forced false := by
  decide +kernel

example : RungsDecr (mkRungSys [1, 3] (promoteQuantiles [1, 3] 9) 9).rungs := by
  unfold RungsDecr; simp [mkRungSys, promoteQuantiles]

end SyneTune.C03
