import SyneTune.Base.Wire
import SyneTune.Model.HB
import SyneTune.Model.SearcherState
import SyneTune.Model.DyHPO
/-
Driver for stream `hb` (C03, C04, C13, C14, C15): run with
`lake env lean --run SyneTune/Drivers/Hb.lean`.
-/
open Lean SyneTune SyneTune.Wire

def errStr : Err → String
  | .assertion w => s!"assertion:{w}"
  | .keyError w => s!"key-error:{w}"
  | .indexError w => s!"index-error:{w}"

def jEntry (e : Entry) : Json := jArr [jNat e.tid, jRat e.val, Json.bool e.promoted]

def jRungs (g : Manager) : Json :=
  jArr (g.systems.map fun s => jArr (s.rungs.map fun r => jArr [jNat r.level, jRat r.q, jArr (r.data.map jEntry)]))

def jRunning (g : Manager) : Json :=
  jArr (g.systems.map fun s => jArr (s.running.map fun (t, (ms, rf)) => jArr [jNat t, jNat ms, jOptNat rf]))

def jCall : SCall → Json
  | .pending t r => jArr [Json.str "pending", jNat t, jNat r]
  | .update t r v u => jArr [Json.str "update", jNat t, jNat r, jRat v, Json.bool u]
  | .removeCase t r v => jArr [Json.str "remove_case", jNat t, jNat r, jRat v]
  | .cleanup t => jArr [Json.str "cleanup", jNat t]
  | .evalFailed t => jArr [Json.str "failed", jNat t]

def jThresholds (g : Manager) : Json :=
  jArr (g.systems.map fun s => jArr (s.thresholds.map fun (r, v) => jArr [jNat r, jRat v]))

def jPasha (g : Manager) : Json :=
  jArr (g.systems.map fun s => jArr [jNat s.curIdx, jNat s.curMaxT])

/-- the cost recorded with each rung entry (`CostPromotionRungEntry.cost_val`; compared for cost-aware systems only) -/
def jRungCosts (g : Manager) : Json :=
  jArr (g.systems.map fun s => jArr (s.rungs.map fun r => jArr (r.data.map fun e => jArr [jNat e.tid, jRat e.cost])))

def jState (s : Sched) : List (String × Json) :=
  [("rungs", jRungs s.mgr), ("rung_costs", jRungCosts s.mgr), ("running", jRunning s.mgr), ("thresholds", jThresholds s.mgr),
   ("pasha", jPasha s.mgr), ("cost_offset", jArr (s.costOffset.map fun (t, c) => jArr [jNat t, jRat c])),
   ("task_info", jArr (s.mgr.taskInfo.map fun (t, b) => jArr [jNat t, jNat b])),
   ("active", jArr (s.active.map fun (t, i) => jArr [jNat t, Json.str i.decision.toString, jNat i.bracket]))]

def jSearcher (st : SState) : List (String × Json) :=
  [("pending", jArr (st.pending.map fun (t, r) => jArr [jNat t, jNat r])),
   ("observed", jArr (st.observed.map fun (t, ms) => jArr [jNat t, jArr (ms.map fun (r, c) => jArr [jNat r, jRat c])])),
   ("failed", jArr (st.failed.map jNat))]

def hbInit0 (j : Json) : Except String (Sched × Json) := do
  let ty ← getStr j "type"
  let type ← (if ty == "stopping" then pure HBType.stopping
              else if ty == "promotion" then pure HBType.promotion
              else if ty == "pasha" then pure HBType.pasha
              else if ty == "cost_promotion" then pure HBType.costPromotion
              else if ty == "rush_stopping" then pure HBType.rushStopping
              else if ty == "rush_promotion" then pure HBType.rushPromotion
              -- `DyHPORungSystem` is a `PromotionRungSystem` (Model/DyHPO.lean); its `_suggest` is op `suggest_dy`
              else if ty == "dyhpo" then pure HBType.promotion
              else throw s!"unsupported type {ty}")
  let mode ← modeOf (← getStr j "mode")
  let maxT ← getNat j "max_t"
  let levels ←
    (if hasKey j "rung_levels" then do
      let ls ← getNatList j "rung_levels"
      pure (rungLevelsExplicit ls maxT)
    else if hasKey j "reduction_factor" then do
      let rf ← getRat j "reduction_factor"
      pure (rungLevelsRF (← getNat j "grace_period") rf maxT)
    else do
      pure (rungLevelsInc (← getNat j "grace_period") (← getNat j "rung_increment") maxT))
  let brackets := getNatD j "brackets" 1
  let perBracket := getBoolD j "rung_system_per_bracket" false
  let sd := getStrD j "searcher_data" "rungs"
  let sdata ← (if sd == "rungs" then pure SearcherData.rungs else if sd == "all" then pure SearcherData.all
               else if sd == "rungs_and_last" then pure SearcherData.rungsAndLast else throw "bad searcher_data")
  let mgr := Manager.init type mode maxT levels brackets perBracket (getNatD j "num_threshold_candidates" 0)
  let s : Sched := { mgr := mgr, searcherData := sdata, hasCost := getBoolD j "cost" false,
                     pendingMyopic := getBoolD j "register_pending_myopic" false,
                     maxResourceAttr := getBoolD j "max_resource_attr" false }
  let info := mgr.systems.head?.map (fun s0 => s0.rungs.map fun r => jArr [jNat r.level, jNat r.data.length, jRat r.q])
  return (s, jOut (jObj [("rung_levels", jArr (levels.map jNat)), ("num_brackets", jNat mgr.numBrackets),
                         ("info", jArr (info.getD []))]))

def hbStep0 (s : Sched) (j : Json) : Except String (Sched × Json × List SCall) := do
  let op ← getStr j "op"
  if op == "suggest" then
    let tid ← getNat j "trial_id"
    let bracket ← getNat j "bracket"
    let hint ← getOptNat j "hint"
    match s.suggest tid bracket hint with
    | .error e => throw (errStr e)
    | .ok (s', sg, calls, fr) =>
      let sj := match sg with
        | .start t b m => jObj [("kind", Json.str "start"), ("trial", jNat t), ("bracket", jNat b), ("milestone", jNat m)]
        | .resume t f m => jObj [("kind", Json.str "resume"), ("trial", jNat t), ("from", jNat f), ("milestone", jNat m)]
      return (s', jObj ([("suggestion", sj), ("free", Json.bool fr), ("calls", jArr (calls.map jCall))] ++ jState s'), calls)
  else if op == "suggest_dy" then
    -- `_suggest` of type "dyhpo" (Model/DyHPO.lean): `sh` = the coin came up "try the SH rule", `hint` = level the SH
    -- rule promoted from, `pick` = trial id the searcher's scoring returned (absent / null: new configuration)
    let tid ← getNat j "trial_id"
    let bracket ← getNat j "bracket"
    let sh := getBoolD j "sh" false
    let hint ← getOptNat j "hint"
    let pick ← getOptNat j "pick"
    -- the paused list handed to the searcher and the position of its pick in its rung (before the step; an SH
    -- scan which does not promote leaves the rungs as they are)
    let sys := s.mgr.systems[(s.mgr.sysFor bracket).1]?
    let paused := (sys.map (·.pausedTrials)).getD []
    let pickPos := match sys, pick with | some y, some t => y.pickPos t | _, _ => none
    match s.suggestDy tid bracket sh hint pick with
    | .error e => throw (errStr e)
    | .ok (s', sg, calls, fr) =>
      let sj := match sg with
        | .start t b m => jObj [("kind", Json.str "start"), ("trial", jNat t), ("bracket", jNat b), ("milestone", jNat m)]
        | .resume t f m => jObj [("kind", Json.str "resume"), ("trial", jNat t), ("from", jNat f), ("milestone", jNat m)]
      return (s', jObj ([("suggestion", sj), ("free", Json.bool fr), ("calls", jArr (calls.map jCall)),
                         ("paused", jArr (paused.map fun (t, p, r) => jArr [jNat t, jNat p, jNat r])),
                         ("pick_pos", jOptNat pickPos)] ++ jState s'), calls)
  else if op == "result" then
    let tid ← getNat j "trial"
    let r ← getNat j "resource"
    let v ← getRat j "metric"
    let hint := getBoolD j "hint" true
    let cost ← (if hasKey j "cost" then getRat j "cost" else pure 0)
    let eps ← (if hasKey j "eps" then getRat j "eps" else pure 0)
    match s.onResult tid r v hint cost eps with
    | .error e => throw (errStr e)
    | .ok (s', o) =>
      return (s', jObj ([("decision", Json.str o.decision.toString), ("free", Json.bool o.free),
                              ("calls", jArr (o.calls.map jCall))] ++ jState s'), o.calls)
  else if op == "remove" then
    let tid ← getNat j "trial"
    let s' := s.onRemove tid
    return (s', jObj (jState s'), [])
  else if op == "error" then
    let tid ← getNat j "trial"
    let (s', calls) := s.onError tid
    return (s', jObj ([("calls", jArr (calls.map jCall))] ++ jState s'), calls)
  else if op == "complete" then
    let tid ← getNat j "trial"
    let r ← getNat j "resource"
    let v ← getRat j "metric"
    match s.onComplete tid r v with
    | .error e => throw (errStr e)
    | .ok (s', calls) => return (s', jObj ([("calls", jArr (calls.map jCall))] ++ jState s'), calls)
  else throw s!"bad-op {op}"

def hbInit (j : Json) : Except String ((Sched × SState) × Json) := do
  let (s, o) ← hbInit0 j
  return ((s, { mode := s.mgr.mode }), o)

/-- the searcher-state model follows the scheduler's calls; a searcher-side assertion is
reported as the operation's error -/
def hbStep (ss : Sched × SState) (j : Json) : Except String ((Sched × SState) × Json) := do
  let (s', o, calls) ← hbStep0 ss.1 j
  match ss.2.applyAll calls with
  | .error e => throw ("searcher:" ++ errStr e)
  | .ok st' =>
    match o with
    | .obj _ => return ((s', st'), jOut (o.mergeObj (jObj (jSearcher st'))))
    | _ => return ((s', st'), jOut o)

def main : IO Unit := (Machine.mk hbInit hbStep).main
