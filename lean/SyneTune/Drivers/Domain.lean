import SyneTune.Base.Wire
import SyneTune.Model.Encoding
/-
Driver for stream `domain` (C07): run with
`lake env lean --run SyneTune/Drivers/Domain.lean`.

The models are exact over `Rat`; `exp`/`log` enter through `Env`, instantiated here with
`Float.log` / `Float.exp` (exact conversion Rat ↔ double on both sides).  IEEE rounding of the
implementation is outside the model (DESIGN §2.1): every float the driver prints carries an
absolute allowance `tol` derived from the conditioning of the expression, and every result that
depends on a rounding / nearest-neighbour decision whose argument is within that allowance of
the decision boundary lists the neighbouring outcomes as `alts` and is flagged `free`.
-/
open Lean SyneTune SyneTune.Wire SyneTune.Dom

/-! ### exact Rat ↔ double -/

def pow2 (e : Int) : Rat := if 0 ≤ e then ((2 ^ e.toNat : Nat) : Rat) else 1 / ((2 ^ (-e).toNat : Nat) : Rat)

/-- exact value of a finite double (0 for nan / inf) -/
def floatToRat (f : Float) : Rat :=
  let bits : Nat := f.toBits.toNat
  let neg : Bool := bits >>> 63 == 1
  let e : Nat := (bits >>> 52) % 2048
  let m : Nat := bits % (2 ^ 52)
  if e == 2047 then 0
  else
    let mag : Rat := if e == 0 then (m : Rat) * pow2 (-1074) else ((m + 2 ^ 52 : Nat) : Rat) * pow2 ((e : Int) - 1075)
    if neg then -mag else mag

/-- nearest double of a rational (up to a negligible double rounding) -/
def ratToFloat (r : Rat) : Float :=
  if r = 0 then 0.0
  else
    let n := r.num.natAbs
    let d := r.den
    let s : Int := 64 + (d.log2 : Int) - (n.log2 : Int)
    let q : Nat := if 0 ≤ s then (n <<< s.toNat) / d else n / (d <<< (-s).toNat)
    let f := (Float.ofNat q).scaleB (-s)
    if r.num < 0 then -f else f

def viaFloat (g : Float → Float) (x : Rat) : Rat := floatToRat (g (ratToFloat x))

def log1pK (x : Float) : Float :=
  let u := 1.0 + x
  if u == 1.0 then x else Float.log u * x / (u - 1.0)

def expm1K (x : Float) : Float :=
  let u := Float.exp x
  if u == 1.0 then x
  else
    let um1 := u - 1.0
    if um1 == -1.0 then -1.0 else um1 * x / Float.log u

def floatEnv : Env where
  log := ⟨viaFloat Float.log, viaFloat Float.exp⟩
  rlog := ⟨viaFloat (fun x => -(Float.log (1.0 - x))), viaFloat (fun t => 1.0 - Float.exp (-t))⟩
  rlogS := ⟨viaFloat (fun x => -(log1pK (-x))), viaFloat (fun t => -(expm1K (-t)))⟩

/-! ### allowances -/

def ulp1 : Rat := pow2 (-52)

def maxAbs (a b : Rat) : Rat := maxRat (absRat a) (absRat b)

/-- magnitude of the internal coordinates of a continuous range -/
def coreMag (r : ContCore) : Rat :=
  maxAbs r.lowInt r.upInt + (if r.scale == .lin then 0 else 1)

def encTol (r : ContCore) : Rat :=
  if r.upInt = r.lowInt then 0
  else
    let t := 16 * ulp1 * coreMag r / absRat (r.upInt - r.lowInt)
    if 1 < t then 1 else t

/-- allowance of a decoded continuous value `v = from_internal(t)` -/
def decTolS (scale : ScaleKind) (mag v : Rat) : Rat :=
  match scale with
  | .lin => 8 * ulp1 * mag
  | .log => 8 * ulp1 * (mag + 1) * absRat v
  | .rlog => 8 * ulp1 * (mag + 1)

def decTol (r : ContCore) (v : Rat) : Rat := decTolS r.scale (coreMag r) v

/-- margin of a rounding decision on a value with allowance `tol` -/
def margin (v tol : Rat) : Rat := tol + maxRat 1 (absRat v) / 1099511627776

/-! ### JSON -/

def errStr : Err → String
  | .assertion => "assertion"
  | .keyError => "key-error"
  | .typeError => "type-error"
  | .notImplemented => "not-implemented"
  | .valueError => "value-error"
  | .attributeError => "other:AttributeError"
  | .unsupported => "unsupported"

def parseVal (j : Json) : Except String Val := do
  let t ← getStr j "t"
  if t == "int" then return .int (← getInt j "v")
  else if t == "float" then return .flt (← getRat j "v")
  else if t == "str" then return .str (← getStr j "v")
  else throw s!"bad value type {t}"

def jVal (v : Val) (tol : Rat := 0) : Json :=
  match v with
  | .int i => jObj [("t", Json.str "int"), ("v", jInt i)]
  | .flt r => if tol = 0 then jObj [("t", Json.str "float"), ("v", jRat r)]
              else jObj [("t", Json.str "float"), ("v", jRat r), ("tol", jRat tol)]
  | .str s => jObj [("t", Json.str "str"), ("v", Json.str s)]

def parseScale (s : String) : Except String ScaleKind :=
  if s == "lin" then .ok .lin else if s == "log" then .ok .log else if s == "rlog" then .ok .rlog
  else .error s!"bad scale {s}"

def getOptRat (j : Json) (k : String) : Except String (Option Rat) :=
  match j.getObjVal? k with
  | .error _ => .ok none
  | .ok .null => .ok none
  | .ok v => do return some (← getRatOf v)

def getOptInt (j : Json) (k : String) : Except String (Option Int) :=
  match j.getObjVal? k with
  | .error _ => .ok none
  | .ok .null => .ok none
  | .ok v => do return some (← v.getInt?)

def parseDom (j : Json) : Except String Domain := do
  let k ← getStr j "k"
  if k == "float" then
    return .flt ⟨← getRat j "lower", ← getRat j "upper", ← parseScale (← getStr j "scale"), ← getOptRat j "q"⟩
  else if k == "int" then
    return .int ⟨← getInt j "lower", ← getInt j "upper", ← parseScale (← getStr j "scale"), ← getOptInt j "q"⟩
  else if k == "cat" then
    return .cat ⟨← (← getArr j "cats").mapM parseVal, ← getBool j "ordinal"⟩
  else if k == "nn" then
    return .nn ⟨← (← getArr j "cats").mapM parseVal, ← getBool j "log"⟩
  else if k == "fin" then
    return .fin ⟨← getRat j "lower", ← getRat j "upper", ← getNat j "size", ← getBool j "log", ← getBool j "cast_int"⟩
  else throw s!"bad domain kind {k}"

def scaleStr : ScaleKind → String
  | .lin => "lin" | .log => "log" | .rlog => "rlog"

def jOptRat : Option Rat → Json
  | none => Json.null
  | some r => jRat r

def jOptInt : Option Int → Json
  | none => Json.null
  | some r => jInt r

def jDom : Domain → Json
  | .flt d => jObj [("k", Json.str "float"), ("lower", jRat d.lower), ("upper", jRat d.upper),
                    ("scale", Json.str (scaleStr d.scale)), ("q", jOptRat d.q)]
  | .int d => jObj [("k", Json.str "int"), ("lower", jInt d.lower), ("upper", jInt d.upper),
                    ("scale", Json.str (scaleStr d.scale)), ("q", jOptInt d.q)]
  | .cat d => jObj [("k", Json.str "cat"), ("cats", jArr (d.cats.map (jVal ·))), ("ordinal", Json.bool d.ordinal)]
  | .nn d => jObj [("k", Json.str "nn"), ("cats", jArr (d.cats.map (jVal ·))), ("log", Json.bool d.log)]
  | .fin d => jObj [("k", Json.str "fin"), ("lower", jRat d.lower), ("upper", jRat d.upper), ("size", jNat d.size),
                    ("log", Json.bool d.log), ("cast_int", Json.bool d.castInt)]

def getOptStr (j : Json) (k : String) : Option String :=
  match j.getObjVal? k with
  | .ok (.str s) => some s
  | _ => none

def getOptObj (j : Json) (k : String) : Option Json :=
  match j.getObjVal? k with
  | .ok .null => none
  | .ok v => some v
  | .error _ => none

/-! ### state -/

structure St where
  c : Consts
  hps : List HP
  space : Option Space

def env : Env := floatEnv

/-- a result with the neighbouring outcomes of its rounding decisions -/
structure Res where
  val : Val
  tol : Rat := 0
  alts : List (Val × Rat) := []
  range : Option (Int × Int) := none     -- every integer of the interval is an admissible outcome

def Res.free (r : Res) : Bool :=
  r.alts.any (fun a => a.1 != r.val) || (match r.range with | some (a, b) => a != b | none => false)

def jAlts (r : Res) : Json :=
  jArr ((r.alts.filter (fun a => a.1 != r.val)).map (fun a => jVal a.1 a.2) ++
        (match r.range with
         | some (a, b) => if a != b then [jObj [("t", Json.str "int"), ("lo", jInt a), ("hi", jInt b)]] else []
         | none => []))

def okVals (l : List (Except Err Val)) (tol : Rat := 0) : List (Val × Rat) :=
  l.filterMap (fun e => match e with | .ok v => some (v, tol) | .error _ => none)

/-! ### domain-level operations -/

def finIntMag (d : FinDom) : Rat := maxAbs (d.lowInt env) (d.upInt env) + (if d.log then 1 else 0)

/-- value number `k` of a finite range, with the alternatives of the `cast_int` rounding -/
def finValueRes (d : FinDom) (k : Nat) : Res :=
  let pre := d.valuePre env k
  let tol := decTolS (if d.log then .log else .lin) (finIntMag d) pre
  if d.castInt then
    let m := margin pre tol
    { val := d.valueAt env k, alts := [(.int (roundHalfEven (pre - m)), 0), (.int (roundHalfEven (pre + m)), 0)] }
  else { val := d.valueAt env k, tol := tol }

/-- all integers of `[a, b]` (at most 64 of them, else the two ends) -/
def intsBetween (a b : Int) : List Int :=
  if b < a then [] else if b - a ≤ 64 then (List.range ((b - a).toNat + 1)).map (fun (i : Nat) => a + Int.ofNat i) else [a, b]

def finIndexAlts (d : FinDom) (x : Rat) : List Nat :=
  if d.step env = 0 then [0]
  else
    let pre := d.indexPre env x
    let m := margin pre (16 * ulp1 * finIntMag d / absRat (d.step env))
    let cl := fun (p : Rat) => clipI (roundHalfEven p) 0 ((d.size : Int) - 1)
    (cl pre :: intsBetween (cl (pre - m)) (cl (pre + m))).map Int.toNat

def resOfMany (rs : List Res) : Option Res :=
  match rs with
  | [] => none
  | r :: rest => some { r with alts := r.alts ++ (rest.map (fun x => (x.val, x.tol) :: x.alts)).flatten }

def nnMag (d : NNDom) : Rat :=
  let ci := d.catsInt env
  maxAbs (ci.headD 0) (ci.getLastD 0) + 1

def nnCastRes (d : NNDom) (w : Rat) : Except Err Res :=
  let m := margin w (32 * ulp1 * nnMag d)
  match d.castInt env w with
  | .ok v => .ok { val := v, alts := okVals [d.castInt env (w - m), d.castInt env (w + m)] }
  | .error e => .error e

def sampleRes (c : Consts) (d : Domain) (dr : Draw) : Except Err Res :=
  match d, dr with
  | .flt fd, .unit u =>
    match fd.sampleRaw env u with
    | .error e => .error e
    | .ok v =>
      let mag := match fd.scale with
        | .lin => maxAbs fd.lower fd.upper
        | .log => maxAbs (env.log.toInt fd.lower) (env.log.toInt fd.upper) + 1
        | .rlog => maxAbs (env.rlogS.toInt fd.lower) (env.rlogS.toInt fd.upper) + 1
      let tol := decTolS fd.scale mag v
      match fd.q with
      | none => .ok { val := .flt v, tol := tol }
      | some q =>
        let m := margin v tol
        .ok { val := .flt (quantizeR q v), alts := [(.flt (quantizeR q (v - m)), 0), (.flt (quantizeR q (v + m)), 0)] }
  | .int di, .unit u =>
    if di.scale == .log ∧ 0 < di.lower then
      let a := env.log.toInt di.lower
      let b := env.log.toInt di.upper
      let pre := env.log.fromInt (lerp a b u)
      let m := margin pre (decTolS .log (maxAbs a b + 1) pre)
      match d.sample env c dr with
      | .ok v =>
        if di.q.isNone then .ok { val := v, range := some (roundHalfEven (pre - m), roundHalfEven (pre + m)) }
        else .ok { val := v, alts := [(.int (di.applyQ (roundHalfEven (pre - m))), 0), (.int (di.applyQ (roundHalfEven (pre + m))), 0)] }
      | .error e => .error e
    else (d.sample env c dr).map (fun v => { val := v })
  | .nn nd, .unit u =>
    match nd.lowerInt env, nd.upperInt env with
    | some a, some b => nnCastRes nd (lerp a b u)
    | _, _ => (d.sample env c dr).map (fun v => { val := v })
  | .fin fd, .idx k =>
    if 0 ≤ k ∧ k.toNat < fd.size then .ok (finValueRes fd k.toNat) else .error .unsupported
  | _, _ => (d.sample env c dr).map (fun v => { val := v })

def castRes (c : Consts) (d : Domain) (v : Val) : Except Err Res :=
  match d, v.num? with
  | .nn nd, some x => nnCastRes nd (nd.toInternal env x)
  | .fin fd, some x =>
    match resOfMany ((finIndexAlts fd x).map (finValueRes fd)) with
    | some r => .ok r
    | none => .error .assertion
  | _, _ => (d.cast env c v).map (fun r => { val := r })

/-! ### encoder operations -/

def intDecodeRes (c : Consts) (r : IntRange) (x : Rat) : Except Err (List Int) :=
  match r.decodePre env c x with
  | .error e => .error e
  | .ok pre =>
    let m := margin pre (decTol r.cont.core pre)
    .ok [r.roundToInt pre, r.roundToInt (pre - m), r.roundToInt (pre + m)]

def finRangeValueRes (r : FinRange) (k : Int) : Res :=
  let pre := r.valuePre env k
  let tol := decTolS r.scale (maxAbs r.lowInt r.upInt + (if r.scale == .lin then 0 else 1)) pre
  if r.castInt then
    let m := margin pre tol
    { val := r.mapFromInt env k, alts := [(.int (roundHalfEven (pre - m)), 0), (.int (roundHalfEven (pre + m)), 0)] }
  else { val := r.mapFromInt env k, tol := tol }

def decodeRes (c : Consts) (r : Range) (xs : List Rat) : Except Err Res :=
  match r, xs with
  | .cont cr, [x] =>
    match cr.core.decode env c x with
    | .ok v => .ok { val := .flt v, tol := decTol cr.core v }
    | .error e => .error e
  | .int ir, [x] =>
    match intDecodeRes c ir x with
    | .ok [k, a, b] => .ok { val := .int k, range := some (a, b) }
    | .ok _ => .error .assertion
    | .error e => .error e
  | .fin fr, [x] =>
    match intDecodeRes c fr.rint x with
    | .ok ks =>
      match resOfMany (ks.map (finRangeValueRes fr)) with
      | some res => .ok res
      | none => .error .assertion
    | .error e => .error e
  | .binary br, [x] =>
    match intDecodeRes c br.rint x with
    | .ok (k :: ks) =>
      match choiceAt br.choices k with
      | .ok v => .ok { val := v, alts := okVals (ks.map (choiceAt br.choices)) }
      | .error e => .error e
    | .ok [] => .error .assertion
    | .error e => .error e
  | .ordeq o, [x] =>
    match intDecodeRes c o.rint x with
    | .ok (k :: ks) =>
      match choiceAt o.choices k with
      | .ok v => .ok { val := v, alts := okVals (ks.map (choiceAt o.choices)) }
      | .error e => .error e
    | .ok [] => .error .assertion
    | .error e => .error e
  | .ordnn o, [x] =>
    match o.decodePre env c x with
    | .ok w => nnCastRes o.dom w
    | .error e => .error e
  | .onehot o, _ => (o.decode xs).map (fun v => { val := v })
  | _, _ => .error .assertion

def decodeAllRes (c : Consts) : List (String × Range) → List Rat → Except Err (List (String × Res))
  | [], _ => .ok []
  | (k, r) :: rest, xs =>
    match decodeRes c r (xs.take r.size), decodeAllRes c rest (xs.drop r.size) with
    | .ok v, .ok cfg => .ok ((k, v) :: cfg)
    | .error e, _ => .error e
    | _, .error e => .error e

def rangeCore : Range → Option ContCore
  | .cont r => some r.core
  | .int r => some r.cont.core
  | .fin r => some r.rint.cont.core
  | .binary r => some r.rint.cont.core
  | .ordeq r => some r.rint.cont.core
  | .ordnn r => some r.rcont.core
  | .onehot _ => none

def rangeEncTol (r : Range) : Rat :=
  match rangeCore r with
  | some core => encTol core
  | none => 0

/-- encoded coordinates `[value, tol, alternatives…]` -/
def encodeRes (c : Consts) (r : Range) (v : Val) : Except Err (List (List Rat)) :=
  match r.encode env c v with
  | .error e => .error e
  | .ok xs =>
    let tol := match r with
      | .ordnn o => encTol o.rcont.core + 16 * ulp1 * nnMag o.dom / absRat (o.rcont.core.upInt - o.rcont.core.lowInt)
      | _ => rangeEncTol r
    let alts : List Rat := match r, v.num? with
      | .fin fr, some y =>
        if fr.step = 0 then []
        else match fr.indexPre env y with
          | .ok pre =>
            let m := margin pre (16 * ulp1 * (maxAbs fr.lowInt fr.upInt + 1) / absRat fr.step)
            let cl := fun (p : Rat) => clipI (roundHalfEven p) 0 ((fr.size : Int) - 1)
            ((intsBetween (cl (pre - m)) (cl (pre + m))).map (fun (k : Int) => fr.rint.encode env c (k : Rat))).filterMap
              (fun e => match e with | .ok t => some t | .error _ => none)
          | .error _ => []
      | _, _ => []
    .ok (xs.map (fun x => [x, tol] ++ alts))

def encodeAllRes (c : Consts) : List (String × Range) → Config → Except Err (List (List Rat))
  | [], _ => .ok []
  | (k, r) :: rest, cfg =>
    match lookupS k cfg with
    | none => .error .keyError
    | some v =>
      match encodeRes c r v, encodeAllRes c rest cfg with
      | .ok xs, .ok ys => .ok (xs ++ ys)
      | .error e, _ => .error e
      | _, .error e => .error e

def boundsTol (entries : List (String × Range)) : List Rat :=
  (entries.map (fun e => List.replicate e.2.size (match e.2 with
    | .ordnn o => encTol o.rcont.core + 32 * ulp1 * nnMag o.dom / absRat (o.rcont.core.upInt - o.rcont.core.lowInt)
    | r => rangeEncTol r))).flatten

/-! ### the machine -/

def parseHP (j : Json) : Except String HP := do
  let name ← getStr j "name"
  let dom ← parseDom (← j.getObjVal? "dom")
  let act ← match getOptObj j "active" with
    | some a => do pure (some (← parseDom a))
    | none => pure none
  return ⟨name, dom, act⟩

def domInit (j : Json) : Except String (St × Json) := do
  let c : Consts := ⟨← getRat j "eps", ← getRat j "c499", ← getRat j "c001"⟩
  let hps ← (← getArr j "hps").mapM parseHP
  let st0 : St := ⟨c, hps, none⟩
  if getBoolD j "domains_only" false then return (st0, jOut (jObj []))
  let pk : Option (List String) ← match getOptObj j "prefix_keys" with
    | some a => do pure (some (← (← a.getArr?).toList.mapM (fun x => x.getStr?)))
    | none => pure none
  let nl := getOptStr j "name_last_pos"
  let vl ← match getOptObj j "value_for_last_pos" with
    | some a => do pure (some (← parseVal a))
    | none => pure none
  if !(hps.all (fun h => h.dom.ok && (h.active.map Domain.ok).getD true)) then
    return (st0, jErr "assertion")
  match mkSpace env c hps pk nl vl with
  | .error e => return (st0, jErr (errStr e))
  | .ok sp =>
    match sp.bounds env c with
    | .error e => return (st0, jErr (errStr e))
    | .ok bs =>
      let tols := boundsTol sp.entries
      -- fixed last position: the encoder of the last hyperparameter may take a free index decision
      let lastAlts : List (List Rat) := match vl, sp.entries.getLast? with
        | some v, some (_, r) => match encodeRes c r v with
          | .ok cols => cols.map (fun col => col.drop 2)
          | .error _ => []
        | _, _ => []
      let alts : List (List Rat) := List.replicate (bs.length - lastAlts.length) [] ++ lastAlts
      let jb := ((bs.zip tols).zip alts).map (fun ((b, t), a) => jArr ([jRat b.1, jRat b.2, jRat t] ++ a.map jRat))
      return ({ st0 with space := some sp },
        jOut (jObj [("keys", jArr (sp.entries.map (fun e => Json.str e.1))),
                    ("ndarray_size", jNat sp.ndarraySize), ("bounds", jArr jb)]))

def findDom (st : St) (j : Json) : Except String Domain := do
  let name ← getStr j "hp"
  let which := getStrD j "which" "base"
  match st.hps.find? (fun h => h.name == name) with
  | none => throw s!"unknown hp {name}"
  | some h =>
    if which == "active" then
      match h.active with
      | some a => pure a
      | none => throw "no active domain"
    else pure h.dom

def parseDraw (j : Json) : Except String Draw :=
  match j with
  | .str s => do return .unit (← parseRat s)
  | _ => do return .idx (← j.getInt?)

def domStep (st : St) (j : Json) : Except String (St × Json) := do
  let op ← getStr j "op"
  let c := st.c
  if op == "sample" then
    let d ← findDom st j
    let drs ← (← getArr j "draws").mapM parseDraw
    let size ← getNat j "size"
    if size == 1 then
      match drs with
      | [dr] =>
        match sampleRes c d dr with
        | .ok r => return (st, jOut (jObj [("vals", jArr [jVal r.val r.tol]), ("alts", jArr [jAlts r]), ("free", Json.bool r.free)]))
        | .error e => throw (errStr e)
      | _ => throw "bad draws"
    else
      -- list-valued sample: the model decides the types, the values follow the single draws
      match d.sampleN env c drs with
      | .error e => throw (errStr e)
      | .ok vs =>
        let rs := drs.map (sampleRes c d)
        let pairs := vs.zip rs
        let conv (v : Val) (x : Val) : Val := match v, x with   -- element type of the list result
          | .flt _, .int i => .flt (i : Rat)
          | _, y => y
        let outs := pairs.map (fun (v, r) => match r with
          | .ok res =>
            let res' : Res := { res with val := conv v res.val, alts := res.alts.map (fun (a : Val × Rat) => (conv v a.1, a.2)) }
            (jVal v res.tol, jAlts res', res.free)
          | .error _ => (jVal v, jArr [], false))
        return (st, jOut (jObj [("vals", jArr (outs.map (·.1))), ("alts", jArr (outs.map (·.2.1))),
                                ("free", Json.bool (outs.any (·.2.2)))]))
  else if op == "cast" then
    let d ← findDom st j
    let v ← parseVal (← j.getObjVal? "value")
    match castRes c d v with
    | .ok r => return (st, jOut (jObj [("val", jVal r.val r.tol), ("alts", jAlts r), ("free", Json.bool r.free)]))
    | .error e => throw (errStr e)
  else if op == "valid" then
    let d ← findDom st j
    let v ← parseVal (← j.getObjVal? "value")
    match d.isValid v with
    | .ok b => return (st, jOut (jObj [("valid", Json.bool b)]))
    | .error e => throw (errStr e)
  else if op == "encode" then
    match st.space with
    | none => throw "no-space"
    | some sp =>
      let cfgJ ← j.getObjVal? "config"
      let cfg ← sp.entries.filterMapM (fun (e : String × Range) =>
        match cfgJ.getObjVal? e.1 with
        | .ok vj => do pure (some (e.1, ← parseVal vj))
        | .error _ => pure none)
      match encodeAllRes c sp.entries cfg with
      | .ok xs => return (st, jOut (jObj [("vec", jArr (xs.map (fun l => jArr (l.map jRat))))]))
      | .error e => throw (errStr e)
  else if op == "decode" then
    match st.space with
    | none => throw "no-space"
    | some sp =>
      let xs ← getRatList j "x"
      if xs.length ≠ sp.ndarraySize then throw "assertion"
      match decodeAllRes c sp.entries xs with
      | .ok cfg =>
        return (st, jOut (jObj [("config", jObj (cfg.map (fun (k, r) => (k, jVal r.val r.tol)))),
                                ("alts", jObj (cfg.map (fun (k, r) => (k, jAlts r)))),
                                ("free", Json.bool (cfg.any (fun (_, r) => r.free)))]))
      | .error e => throw (errStr e)
  else if op == "json" then
    match st.hps.mapM (fun h => (jsonRoundTrip h.dom).map (fun d => (h.name, jDom d))) with
    | .ok l => return (st, jOut (jObj [("restored", jObj l)]))
    | .error e => throw (errStr e)
  else throw s!"bad-op {op}"

def main : IO Unit := (Machine.mk domInit domStep).main
