import SyneTune.Base.Wire
import SyneTune.Model.PBT
/-
Driver for stream `pbt` (C20 population-based training, C15): run with
`lake env lean --run SyneTune/Drivers/Pbt.lean`.

constructor line: `{"stream":"pbt","max_t":"n/d","interval":"n/d","frac":"n/d","mode":"min"|"max"}`
  → `{"out":{"accepted":true, …state…}}`, or `{"err":"assertion"}` when the constructor of the
  real class rejects `quantile_fraction` (`> 0.5`).
ops:
  `{"op":"add","trial":t}`
  `{"op":"result","trial":t,"cost":"n/d","metric":"n/d","pick":null|src,"khint":null|k}`
      → `decision`, `quantiles_called`, `lower`, `upper`, `pushed`, `source`, `free`
  `{"op":"suggest"}` → `suggestion`: `"fresh"` | `"clone"`, `source`
  `{"op":"error"|"remove"|"complete","trial":t}`
every answer carries the state: `stopped` (sorted ids), `stack` (oldest entry first, as the
deque prints), `n_trials`, `alive` (`[id, score|null, last_perturbation_time]` of every trial not
marked stopped, in insertion order) and, for `add` / `result`, `touched` — the full record
`[id, score|null, last_perturbation_time, stopped]` of the trial the operation names (so that
records of stopped trials, which late results still change, are compared too).
-/
open Lean SyneTune SyneTune.PBT SyneTune.Wire

def jOptRat : Option Rat → Json
  | none => Json.null
  | some r => jRat r

def jState (s : State) : List (String × Json) :=
  [("stopped", jArr (((s.trials.filter (·.2.stopped)).map (·.1)).toArray.qsort (· < ·) |>.toList.map jNat)),
   ("stack", jArr (s.stack.reverse.map jNat)),
   ("n_trials", jNat s.trials.length),
   ("alive", jArr ((s.trials.filter (fun e => !e.2.stopped)).map fun e =>
      jArr [jNat e.1, jOptRat e.2.lastScore, jRat e.2.lastPert]))]

def jTouched (s : State) : Op → List (String × Json)
  | .add tid | .result tid _ _ _ _ =>
    match alookup tid s.trials with
    | none => [("touched", Json.null)]
    | some st => [("touched", jArr [jNat tid, jOptRat st.lastScore, jRat st.lastPert, Json.bool st.stopped])]
  | _ => []

def errStr : Err → String
  | .keyError => "key-error"
  | .pickMissing => "model:pick-missing"
  | .pickNotUpper => "model:pick-not-in-upper-quantile"
  | .selfPick => "assertion"

def getOptInt (j : Json) (k : String) : Except String (Option Int) :=
  match j.getObjVal? k with
  | .error _ => .ok none
  | .ok .null => .ok none
  | .ok v => do return some (← v.getInt?)

/-- was the ceiling inside this `result` a FREE decision (DESIGN §2.1)?  Recomputed from the state
before the call: the number of non-stopped scored trials once the new score is saved. -/
def resultFree (p : Params) (s : State) : Op → Bool
  | .result tid cost metric _ _ =>
    match alookup tid s.trials with
    | none => false
    | some st =>
      if p.maxT ≤ cost ∨ cost - st.lastPert < p.interval then false
      else
        let n := (sortedIds (saved p s tid st cost metric)).length
        decide (1 < n) && ceilFree ((n : Rat) * p.frac)
  | _ => false

def jOut' (s0 s : State) (o : Out) (free : Bool) (op : Op) : Json :=
  match o with
  | .done => jOut (jObj (jTouched s op ++ jState s))
  | .fresh => jOut (jObj ([("suggestion", Json.str "fresh"), ("source", Json.null)] ++ jState s))
  | .clone src => jOut (jObj ([("suggestion", Json.str "clone"), ("source", jNat src)] ++ jState s))
  | .decision d q =>
    let pushed := s.stack.length > s0.stack.length
    let qs : List (String × Json) := match q with
      | none => [("quantiles_called", Json.bool false), ("lower", Json.null), ("upper", Json.null)]
      | some (lo, up) => [("quantiles_called", Json.bool true), ("lower", jArr (lo.map jNat)),
                          ("upper", jArr (up.map jNat))]
    jOut (jObj ([("decision", Json.str d.toString), ("pushed", Json.bool pushed), ("free", Json.bool free),
                 ("source", if pushed then jOptNat s.stack.head? else Json.null)] ++ qs ++ jTouched s op ++ jState s))
  | .err e => jObj ([("err", Json.str (errStr e))] ++ jTouched s op ++ jState s)

structure DState where
  p : Params
  s : State

def pbtInit (j : Json) : Except String (DState × Json) := do
  let p : Params := { maxT := ← getRat j "max_t", interval := ← getRat j "interval",
                      frac := ← getRat j "frac", mode := ← modeOf (← getStr j "mode") }
  if p.accepted then
    return ({ p := p, s := State.init },
            jOut (jObj ([("accepted", Json.bool true), ("documented", Json.bool (decide p.documented))]
                        ++ jState State.init)))
  else throw "assertion"

def pbtStep (d : DState) (j : Json) : Except String (DState × Json) := do
  let opName ← getStr j "op"
  let op : Op ←
    if opName == "add" then pure (Op.add (← getNat j "trial"))
    else if opName == "result" then
      pure (Op.result (← getNat j "trial") (← getRat j "cost") (← getRat j "metric")
        (← getOptNat j "pick") (← getOptInt j "khint"))
    else if opName == "suggest" then pure Op.suggest
    else if opName == "error" then pure (Op.error (← getNat j "trial"))
    else if opName == "remove" then pure (Op.remove (← getNat j "trial"))
    else if opName == "complete" then pure (Op.complete (← getNat j "trial"))
    else throw s!"bad-op {opName}"
  let r := step d.p d.s op
  return ({ d with s := r.1 }, jOut' d.s r.1 r.2 (resultFree d.p d.s op) op)

def main : IO Unit := (Machine.mk pbtInit pbtStep).main
