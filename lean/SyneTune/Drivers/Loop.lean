import SyneTune.Base.Wire
import SyneTune.Model.Tuner
import SyneTune.Lemmas.TunerWitnessData
import SyneTune.Lemmas.TunerC12bWitness
/-
Driver for stream `loop` (C01, C12, C13-loop, C17, C20-loop): run with
`lake env lean --run SyneTune/Drivers/Loop.lean`.
First line: constructor (`"stream":"loop"`), answered by the loop's first call.  Every further
line is the environment's answer to the pending call, answered by the loop's next call; the
call `exit` carries the final counters, statistics, best trials and log rows.
-/
open Lean SyneTune SyneTune.Wire SyneTune.Tuner

def stOf (s : String) : Except String St :=
  if s == "InProgress" then pure .inProgress else if s == "Paused" then pure .paused
  else if s == "Stopped" then pure .stopped else if s == "Stopping" then pure .stopping
  else if s == "Completed" then pure .completed else if s == "Failed" then pure .failed
  else throw s!"bad status {s}"

def decOf (s : String) : Except String Decision :=
  if s == "CONTINUE" then pure .continue else if s == "PAUSE" then pure .pause
  else if s == "STOP" then pure .stop else throw s!"bad decision {s}"

def xratOf (s : String) : Except String XRat :=
  if s == "nan" then pure .nan else if s == "inf" then pure .pinf else if s == "-inf" then pure .ninf
  else do return .fin (← parseRat s)

def valOf (j : Json) : Except String Val :=
  match j with
  | .str s => do return .num (← xratOf s)
  | _ => match j.getInt? with
    | .ok i => pure (.num (.fin (i : Rat)))
    | .error _ => pure .other

def jX : XRat → Json
  | .nan => Json.str "nan"
  | .pinf => Json.str "inf"
  | .ninf => Json.str "-inf"
  | .fin q => jRat q

def optNatOf (j : Json) : Except String (Option Nat) :=
  match j with
  | .null => pure none
  | _ => do return some (← j.getNat?)

def pairsOf {α} (j : Json) (f : Json → Except String α) : Except String (List (Nat × α)) := do
  let arr ← j.getArr?
  arr.toList.mapM fun e => do
    let a ← e.getArr?
    match a.toList with
    | [k, v] => return (← k.getNat?, ← f v)
    | _ => throw "expected pair"

def statusListOf (j : Json) : Except String (List (Nat × St)) :=
  pairsOf j (fun v => do stOf (← v.getStr?))

def resOf (j : Json) : Except String Res := do
  let a ← j.getArr?
  match a.toList with
  | [t, r, m] => return { tid := ← t.getNat?, rid := ← r.getNat?, m := ← pairsOf m valOf }
  | _ => throw "bad result"

def ansOf (j : Json) : Except String Ans := do
  if hasKey j "raise" then return .raise
  if hasKey j "ret" then return .ret
  if hasKey j "results" then
    let sd ← statusListOf (← j.getObjVal? "status")
    let res ← (← getArr j "results").mapM resOf
    return .poll sd res
  if hasKey j "st" then return .status (← stOf (← getStr j "st"))
  if hasKey j "d" then
    let m ← (if hasKey j "m" then do pure (some (← pairsOf (← j.getObjVal? "m") valOf)) else pure none)
    return .decision (← decOf (← getStr j "d")) m
  if hasKey j "ids" then return .ids (← getNatList j "ids")
  if hasKey j "t" then return .clock (← getRat j "t")
  if hasKey j "kind" then
    let k ← getStr j "kind"
    if k == "none" then return .sugg .none
    if k == "start" then return .sugg (.start (← getNat j "cfg") (← optNatOf (← j.getObjVal? "ckpt")))
    if k == "resume" then return .sugg (.resume (← getNat j "id") (← optNatOf (← j.getObjVal? "cfg")))
    throw s!"bad suggestion kind {k}"
  throw "bad answer"

/-- which answers a control point accepts besides `raise` -/
def expects (pc : Pc) (a : Ans) : Bool :=
  match a with
  | .raise => true
  | .ret => !(pc == .clock || pc == .fetch || pc == .decision || pc == .busy || pc == .suggest
              || pc == .removable || pc == .finAll || pc == .finStatus || pc == .done || pc.silent)
  | .poll _ _ => pc == .fetch
  | .decision _ _ => pc == .decision
  | .ids _ => pc == .busy || pc == .removable || pc == .finAll
  | .sugg _ => pc == .suggest
  | .clock _ => pc == .clock
  | .status _ => pc == .finStatus

def insertNat (x : Nat) : List Nat → List Nat
  | [] => [x]
  | y :: ys => if x ≤ y then x :: y :: ys else y :: insertNat x ys
def sortNat (l : List Nat) : List Nat := l.foldr insertNat []

def insertKey {β} (x : Nat × β) : List (Nat × β) → List (Nat × β)
  | [] => [x]
  | y :: ys => if x.1 ≤ y.1 then x :: y :: ys else y :: insertKey x ys
def sortKey {β} (l : List (Nat × β)) : List (Nat × β) := l.foldr insertKey []

def jS (s : String) : Json := Json.str s
def jOptN : Option Nat → Json := jOptNat

def jCall : Call → Json
  | .tau => jArr [jS "tau"]
  | .cb .tuningStart => jArr [jS "cb", jS "tuning_start"]
  | .cb .tuningEnd => jArr [jS "cb", jS "tuning_end"]
  | .cb .loopStart => jArr [jS "cb", jS "loop_start"]
  | .cb .loopEnd => jArr [jS "cb", jS "loop_end"]
  | .cb .fetch => jArr [jS "cb", jS "fetch"]
  | .cb .sleep => jArr [jS "cb", jS "sleep"]
  | .cb (.result t r d st) => jArr [jS "cb", jS "result", jNat t, jNat r, jS d.toString, jS st.toString]
  | .cb (.complete t r) => jArr [jS "cb", jS "complete", jNat t, jNat r]
  | .cb (.start t) => jArr [jS "cb", jS "start", jNat t]
  | .cb (.resume t) => jArr [jS "cb", jS "resume", jNat t]
  | .clock => jArr [jS "clock"]
  | .fetch ids => jArr [jS "be", jS "fetch", jArr ((sortNat ids).map jNat)]
  | .schedResult t r => jArr [jS "sched", jS "result", jNat t, jNat r]
  | .stop t => jArr [jS "be", jS "stop", jNat t]
  | .pause t => jArr [jS "be", jS "pause", jNat t]
  | .delete t => jArr [jS "be", jS "delete", jNat t]
  | .schedRemove t => jArr [jS "sched", jS "remove", jNat t]
  | .schedComplete t r => jArr [jS "sched", jS "complete", jNat t, jNat r]
  | .schedError t => jArr [jS "sched", jS "error", jNat t]
  | .stdout t => jArr [jS "be", jS "stdout", jNat t]
  | .stderr t => jArr [jS "be", jS "stderr", jNat t]
  | .busy => jArr [jS "be", jS "busy"]
  | .suggest i => jArr [jS "sched", jS "suggest", jNat i]
  | .start i c k => jArr [jS "be", jS "start", jNat i, jNat c, jOptN k]
  | .copy a b => jArr [jS "be", jS "copy", jNat a, jNat b]
  | .schedAdd t => jArr [jS "sched", jS "add", jNat t]
  | .resume t c => jArr [jS "be", jS "resume", jNat t, jOptN c]
  | .removable => jArr [jS "sched", jS "removable"]
  | .allResults => jArr [jS "be", jS "all_results"]
  | .status t => jArr [jS "be", jS "status", jNat t]
  | .exit => jArr [jS "exit"]

/-- run the silent steps that follow (they take no answer) -/
partial def settle (s : LState) : LState :=
  if s.pc.silent then settle (step s .ret) else s

def jStat (m : MStat) : Json :=
  jObj [("count", jNat m.count),
        ("min", jArr ((sortKey m.mins).map fun kv => jArr [jNat kv.1, jX kv.2])),
        ("max", jArr ((sortKey m.maxs).map fun kv => jArr [jNat kv.1, jX kv.2])),
        ("is_num", jArr ((sortKey m.isNum).map fun kv => jArr [jNat kv.1, Json.bool kv.2])),
        ("sum", jArr ((sortKey m.sums).map fun kv => jArr [jNat kv.1, jX kv.2]))]

def jRow (r : Row) : Json :=
  jArr [jNat r.tid, jNat r.rid, jOptN r.cfg, jS r.decision.toString, jS r.status.toString]

def jRaised : Option Raised → Json
  | none => Json.null
  | some .env => jS "env"
  | some .envFin => jS "env"
  | some (.noMetrics t) => jS s!"no-metrics:{t}"
  | some .assertion => jS "assertion"
  | some .keyError => jS "key-error"
  | some (.failed t) => jS s!"failed:{t}"

structure DState where
  s : LState
  names : List Nat
  modes : ModeSpec
  /-- `results_update_interval = -1`: the store callback writes the table after every result, so the table on disk
  is `rows` at every exit (also when `run()` leaves before the callback's `on_tuning_end`) -/
  storeEvery : Bool := false

def jFinal (d : DState) : Json :=
  let ts := d.s.status
  -- `print_best_metric_found(status, metric_names, mode)` of the finaliser: a list of modes is not "min"
  let useMin0 := match d.modes with | .one .min => true | _ => false
  let best0 := match d.names with
    | [] => Json.null
    | n :: _ => match ts.best n useMin0 with
      | none => Json.null
      | some (t, v) => jArr [jNat t, jX v]
  -- `Tuner.best_config(metric=i)`
  let bests := (List.range d.names.length).map fun i =>
    match metricNameMode d.names d.modes (.byIndex (i : Nat)) with
    | .ok (n, m) => (match ts.best n (m == .min) with
      | some (t, _) => jArr [jNat t]
      | none => Json.null)
    | .error _ => jS "error"
  -- `ExperimentResult.best_config(metric=i)`: row of the stored table
  let bestRows := (List.range d.names.length).map fun i =>
    match metricNameMode d.names d.modes (.byIndex (i : Nat)),
          (if d.storeEvery && d.s.cfg.store && !d.s.rows.isEmpty then some d.s.rows else d.s.stored) with
    | .ok (n, m), some rows =>
      if rows.any (fun (r : Row) => alookup n r.m == some Val.other) then jS "error" else
      (match argBest (m == .min) (rows.map fun (r : Row) => match alookup n r.m with | some (Val.num x) => x | _ => XRat.nan) 0 with
       | some (i, _) => jNat i
       | none => jS "error")
    | _, _ => jS "error"
  jObj [("raised", jRaised d.s.err), ("best_rows", jArr bestRows),
        ("started", jNat ts.numStarted), ("completed", jNat ts.numCompleted), ("failed", jNat ts.numFailed),
        ("finished", jNat ts.numFinished), ("running", jNat ts.numRunning),
        ("last", jArr (ts.last.map fun kv => jArr [jNat kv.1, jS kv.2.toString])),
        ("overall", jStat ts.overall),
        ("per_trial", jArr (ts.perTrial.map fun kv => jArr [jNat kv.1, jStat kv.2])),
        ("best0", best0), ("best", jArr bests),
        ("cost", jX (ts.cost d.s.cfg.keyCost)),
        ("rows", jArr (d.s.rows.map jRow)),
        ("stored", match d.s.stored with | none => Json.null | some rs => jArr (rs.map jRow)),
        ("deleted", jArr (d.s.deleted.reverse.map jNat))]

def critOf (j : Json) : Except String Criterion := do
  let optN (k : String) : Except String (Option Nat) := getOptNat j k
  let optR (k : String) : Except String (Option Rat) :=
    if hasKey j k then do return some (← getRat j k) else pure none
  let optM (k : String) : Except String (Option (List (Nat × Rat))) :=
    if hasKey j k then do return some (← pairsOf (← j.getObjVal? k) getRatOf) else pure none
  return { maxWallclock := ← optR "max_wallclock_time", maxEvals := ← optN "max_num_evaluations",
           maxStarted := ← optN "max_num_trials_started", maxCompleted := ← optN "max_num_trials_completed",
           maxCost := ← optR "max_cost", maxFinished := ← optN "max_num_trials_finished",
           minMetric := ← optM "min_metric_value", maxMetric := ← optM "max_metric_value" }

def loopInit (j : Json) : Except String (DState × Json) := do
  let crit ← critOf (← j.getObjVal? "criterion")
  let ktt ← getNat j "key_tuner_time"
  let crit := if getBoolD j "sim_callback" false then crit.simRewrite ktt else crit
  let cfg : Cfg := {
    nWorkers := ← getNat j "n_workers", maxFailures := ← getNat j "max_failures",
    async := getBoolD j "async" true, wait := getBoolD j "wait" false, swd := getBoolD j "swd" true,
    deleteCkpt := getBoolD j "delete_checkpoints" false, ckptCb := getBoolD j "ckpt_cb" false,
    store := getBoolD j "store" true, crit := crit, keyCost := ← getNat j "key_cost" }
  let names ← getNatList j "metric_keys"
  let ms ← (← getArr j "modes").mapM fun m => do modeOf (← m.getStr?)
  let modes := if getBoolD j "mode_is_list" false then ModeSpec.many ms
               else match ms with | m :: _ => ModeSpec.one m | [] => ModeSpec.one .min
  let s := settle (init cfg)
  return ({ s := s, names := names, modes := modes, storeEvery := getBoolD j "store_every" false },
          jOut (jObj [("call", jCall (pending s))]))

/-- reference-style op for `metric_name_mode` (C17 `mode_lookup`) -/
def modeLookup (j : Json) : Except String Json := do
  let names ← getNatList j "names"
  let ms ← (← getArr j "modes").mapM fun m => do modeOf (← m.getStr?)
  let modes := if getBoolD j "mode_is_list" false then ModeSpec.many ms
               else match ms with | m :: _ => ModeSpec.one m | [] => ModeSpec.one .min
  let sel ← (if hasKey j "name" then do pure (MetricSel.byName (← getNat j "name"))
             else do pure (MetricSel.byIndex (← getInt j "index")))
  match metricNameMode names modes sel with
  | .ok (n, m) => return jOut (jObj [("name", jNat n), ("mode", Json.str (if m == .min then "min" else "max"))])
  | .error .assertion => return jErr "assertion"
  | .error .indexError => return jErr "index-error"

/-- an answer on the wire (inverse of `ansOf`; used to hand out the witnesses) -/
def jAns : Ans → Json
  | .ret => jObj [("ret", Json.bool true)]
  | .raise => jObj [("raise", jS "witness")]
  | .poll sd res =>
    jObj [("status", jArr (sd.map fun kv => jArr [jNat kv.1, jS kv.2.toString])),
          ("results", jArr (res.map fun r => jArr [jNat r.tid, jNat r.rid,
             jArr (r.m.map fun kv => jArr [jNat kv.1, match kv.2 with | .num x => jX x | .other => jObj [("s", jS "?")]])]))]
  | .decision d none => jObj [("d", jS d.toString)]
  | .decision d (some m) =>
    jObj [("d", jS d.toString),
          ("m", jArr (m.map fun kv => jArr [jNat kv.1, match kv.2 with | .num x => jX x | .other => jObj [("s", jS "?")]]))]
  | .ids l => jObj [("ids", jArr (l.map jNat))]
  | .sugg .none => jObj [("kind", jS "none")]
  | .sugg (.start c k) => jObj [("kind", jS "start"), ("cfg", jNat c), ("ckpt", jOptN k)]
  | .sugg (.resume i c) => jObj [("kind", jS "resume"), ("id", jNat i), ("cfg", jOptN c)]
  | .clock t => jObj [("t", jRat t)]
  | .status st => jObj [("st", jS st.toString)]

/-- op `witness`: the configuration and the dialogue (calls and answers at the calling control
points, in order) of a named witness of `Lemmas/TunerWitnessData.lean` / `Lemmas/TunerC12bWitness.lean`, the
count-based part of its stopping criterion and the counters the model ends with (`expect`) -/
def witnessOp (j : Json) : Except String Json := do
  let name ← getStr j "name"
  match (Witness.byName name <|> Witness.byName12b name) with
  | none => return jErr s!"unknown witness {name}"
  | some (c, as) =>
    let rec go (s : LState) (as : List Ans) (acc : List Json) : List Json :=
      match as with
      | [] => acc.reverse
      | a :: rest =>
        let acc' := if s.pc.silent || s.pc == .done then acc
                    else jObj [("call", jCall (pending s)), ("ans", jAns a)] :: acc
        go (step s a) rest acc'
    let dlg := go (init c) as []
    let fin := run (init c) as
    return jOut (jObj [
      ("n_workers", jNat c.nWorkers), ("max_failures", jNat c.maxFailures), ("async", Json.bool c.async),
      ("wait", Json.bool c.wait), ("swd", Json.bool c.swd), ("delete_checkpoints", Json.bool c.deleteCkpt),
      ("ckpt_cb", Json.bool c.ckptCb), ("store", Json.bool c.store),
      ("max_num_trials_started", jOptN c.crit.maxStarted),
      ("max_num_trials_completed", jOptN c.crit.maxCompleted), ("max_num_trials_finished", jOptN c.crit.maxFinished),
      ("max_num_evaluations", jOptN c.crit.maxEvals),
      ("expect", jObj [("started", jNat fin.status.numStarted), ("completed", jNat fin.status.numCompleted),
        ("failed", jNat fin.status.numFailed), ("finished", jNat fin.status.numFinished),
        ("running", jNat fin.status.numRunning), ("evaluations", jNat fin.status.overall.count),
        ("backend_trials", jNat fin.nStarted), ("raised", Json.bool fin.err.isSome)]),
      ("dialogue", jArr dlg), ("ends", jCall (pending fin))])

def loopStep (d : DState) (j : Json) : Except String (DState × Json) := do
  if getStrD j "op" "ans" == "mode_lookup" then return (d, ← modeLookup j)
  if getStrD j "op" "ans" == "witness" then return (d, ← witnessOp j)
  let a ← ansOf (← j.getObjVal? "ans")
  if !expects d.s.pc a then throw s!"protocol: answer does not fit control point {repr d.s.pc}"
  let s' := settle (step d.s a)
  let c := pending s'
  let d' := { d with s := s' }
  let out := if c == .exit then jObj [("call", jCall c), ("final", jFinal d')] else jObj [("call", jCall c)]
  return (d', jOut out)

def main : IO Unit := (Machine.mk loopInit loopStep).main
