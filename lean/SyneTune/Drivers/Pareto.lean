import SyneTune.Base.Wire
import SyneTune.Model.Moasha
/-
Driver for the streams `pareto` (pareto_efficient / nondominated_sort / priorities) and
`moasha` (the MOASHA scheduler) of C19: run with
`lake env lean --run SyneTune/Drivers/Pareto.lean`.
-/
open Lean SyneTune SyneTune.Wire

def getRow (v : Json) : Except String (List Rat) := do
  (← v.getArr?).toList.mapM getRatOf

def getMatrix (j : Json) (k : String) : Except String (List (List Rat)) := do
  (← getArr j k).mapM getRow

def getNatRow (v : Json) : Except String (List Nat) := do
  (← v.getArr?).toList.mapM (fun x => x.getNat?)

def getTape (j : Json) (k : String) : Except String (List (List Nat)) :=
  if hasKey j k then do (← getArr j k).mapM getNatRow else pure []

def sortErrStr : SortErr → String
  | .indexError w => s!"index-error:{w}"
  | .fuel => "fuel"

def mErrStr : MErr → String
  | .keyError w => s!"key-error:{w}"
  | .indexError w => s!"index-error:{w}"

def jNats (l : List Nat) : Json := jArr (l.map jNat)

inductive PrioKind
  | nds (maxNum : Option Nat)
  | fixed (dim : Nat)
  | recorded
deriving Repr

inductive St
  | pareto
  | moasha (kind : PrioKind) (m : Moasha)

def jBracket (b : List MRung) : Json :=
  jArr (b.map fun rg =>
      jArr [jRat rg.milestone, jArr (rg.recorded.map fun (t, p) => jArr [jNat t, jArr (p.map jRat)])])

def jMoasha (m : Moasha) : List (String × Json) :=
  [("rungs", jArr (m.brackets.map jBracket)),
   ("trial_info", jArr (m.trialInfo.map fun (t, b) => jArr [jNat t, jNat b])),
   ("num_stopped", jNat m.numStopped)]

/-- rungs are append-only: milestone, number of entries and the last entry per rung -/
def jBracketDigest (b : List MRung) : Json :=
  jArr (b.map fun rg =>
      jArr [jRat rg.milestone, jNat rg.recorded.length,
            match rg.recorded.getLast? with
            | some (t, p) => jArr [jNat t, jArr (p.map jRat)]
            | none => Json.null])

def jMoashaLight (m : Moasha) : List (String × Json) :=
  [("trial_info", jArr (m.trialInfo.map fun (t, b) => jArr [jNat t, jNat b])),
   ("num_stopped", jNat m.numStopped)]

/-- state after a report of trial `tid` (bracket looked up in the state BEFORE the call):
the digest of the rungs of that trial's bracket -/
def jMoashaOf (before m : Moasha) (tid : Nat) : List (String × Json) :=
  [("bracket_rungs", match alookup tid before.trialInfo with
      | some b => (match m.brackets[b]? with | some rs => jBracketDigest rs | none => Json.null)
      | none => Json.null),
   ("trial_info", jArr (m.trialInfo.map fun (t, b) => jArr [jNat t, jNat b])),
   ("num_stopped", jNat m.numStopped)]

def initSt (j : Json) : Except String (St × Json) := do
  let s ← getStr j "stream"
  if s == "pareto" then return (.pareto, jOut (jObj []))
  else if s == "moasha" then
    let maxT ← getNat j "max_t"
    let rf ← getRat j "rf"
    let ops ← getRatList j "ops"
    let bs ← getMatrix j "brackets"
    let pj ← j.getObjVal? "priority"
    let kind ← getStr pj "kind"
    let pk ← (if kind == "nds" then do pure (PrioKind.nds (← getOptNat pj "max_num_samples"))
              else if kind == "fixed" then do pure (PrioKind.fixed (← getNat pj "dim"))
              else if kind == "recorded" then pure PrioKind.recorded
              else throw s!"bad priority kind {kind}")
    let m : Moasha := { maxT := maxT, rf := rf, ops := ops,
                        brackets := bs.map (fun ms => ms.map (fun x => ({ milestone := x, recorded := [] } : MRung))) }
    return (.moasha pk m, jOut (jObj (jMoasha m)))
  else throw s!"unknown stream {s}"

/-- the points handed to the priority by `_Bracket.on_result`, if it is called at all -/
def prioArg (tid cur : Nat) (metrics : Point) : List MRung → Option (List Point)
  | [] => none
  | rg :: rest =>
    if (cur : Rat) < rg.milestone ∨ rg.has tid then prioArg tid cur metrics rest
    else if rg.recorded.isEmpty then none else some (rg.recorded.map (·.2) ++ [metrics])

def moashaContract (pk : PrioKind) (m : Moasha) (tid cur : Nat) (raw : Point) (tape : List (List Nat)) : Bool :=
  match pk with
  | .nds maxNum =>
    let arg := match alookup tid m.trialInfo with
      | none => none
      | some b => match m.brackets[b]? with
        | none => none
        | some rungs => prioArg tid cur (m.signed raw) rungs
    match arg with
    | none => tape.isEmpty
    | some pts =>
      match sortLayersRaw pts (tapeOracle tape) maxNum with
      | .ok L => tapeUsedOK tape L
      | .error _ => false
  | _ => tape.isEmpty

def stepSt (st : St) (j : Json) : Except String (St × Json) := do
  let op ← getStr j "op"
  match st with
  | .pareto =>
    let X ← getMatrix j "X"
    if op == "pareto" then
      return (st, jOut (jObj [("mask", jArr ((paretoEfficient X).map Json.bool))]))
    else if op == "nds" then
      let mx ← getOptNat j "max_items"
      let tape ← getTape j "eps"
      let flat := getBoolD j "flatten" true
      let contract := match sortLayersRaw X (tapeOracle tape) mx with
        | .ok L => tapeUsedOK tape L
        | .error _ => false
      if flat then
        match nondominatedSort X (tapeOracle tape) mx with
        | .error e => throw (sortErrStr e)
        | .ok r => return (st, jOut (jObj [("result", jNats r), ("contract", Json.bool contract)]))
      else
        match nondominatedSortLayers X (tapeOracle tape) mx with
        | .error e => throw (sortErrStr e)
        | .ok r => return (st, jOut (jObj [("result", jArr (r.map jNats)), ("contract", Json.bool contract)]))
    else if op == "priority" then
      let mx ← getOptNat j "max_num_samples"
      let tape ← getTape j "eps"
      let contract := match sortLayersRaw X (tapeOracle tape) mx with
        | .ok L => tapeUsedOK tape L
        | .error _ => false
      match ndPriority X (tapeOracle tape) mx with
      | .error e => throw (sortErrStr e)
      | .ok r => return (st, jOut (jObj [("priorities", jNats r), ("contract", Json.bool contract)]))
    else if op == "fixed" then
      let dim ← getNat j "dim"
      match fixedPriority dim X with
      | none => throw "index-error:objectives[:, dim]"
      | some r => return (st, jOut (jObj [("priorities", jArr (r.map jRat))]))
    else throw s!"bad-op {op}"
  | .moasha pk m =>
    let tid ← getNat j "trial"
    if op == "add" then
      match m.onAdd tid (← getNat j "bracket") with
      | .error e => throw (mErrStr e)
      | .ok m' => return (.moasha pk m', jOut (jObj (jMoashaLight m')))
    else if op == "remove" then
      match m.onRemove tid with
      | .error e => throw (mErrStr e)
      | .ok m' => return (.moasha pk m', jOut (jObj (jMoashaLight m')))
    else if op == "result" ∨ op == "complete" then
      let cur ← getNat j "iter"
      let raw ← getRatList j "metrics"
      let hint := getBoolD j "hint" true
      let tape ← getTape j "eps"
      let prio ← (match pk with
        | .nds mx => pure (prioNDS (tapeOracle tape) mx)
        | .fixed d => pure (prioFixed d)
        | .recorded => do
          let p ← (if hasKey j "prio" then getRatList j "prio" else pure [])
          pure (prioRecorded p))
      let contract := moashaContract pk m tid cur raw tape
      if op == "result" then
        match m.onResult prio tid cur raw hint with
        | .error e => throw (mErrStr e)
        | .ok (m', d, fr) =>
          -- at `max_t` the priority is not consulted
          let contract := if m.maxT ≤ cur then tape.isEmpty else contract
          return (.moasha pk m', jOut (jObj ([("decision", Json.str d.toString), ("free", Json.bool fr),
                                              ("contract", Json.bool contract)] ++ jMoashaOf m m' tid)))
      else
        match m.onComplete prio tid cur raw hint with
        | .error e => throw (mErrStr e)
        | .ok (m', fr) =>
          return (.moasha pk m', jOut (jObj ([("free", Json.bool fr), ("contract", Json.bool contract)] ++ jMoashaOf m m' tid)))
    else throw s!"bad-op {op}"

def main : IO Unit := (Machine.mk initSt stepSt).main
