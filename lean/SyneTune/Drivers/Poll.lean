import SyneTune.Base.Wire
import SyneTune.Model.PollBackend
/-
Driver for stream `poll` (C02): run with
`lake env lean --run SyneTune/Drivers/Poll.lean`.
-/
open Lean SyneTune SyneTune.Backend SyneTune.Wire

def procStr : Proc → String
  | .running => "running"
  | .exited true => "exited-ok"
  | .exited false => "exited-fail"
  | .killed => "killed"

def jSt (s : St) : Json := Json.str s.toString

def jPollState (b : Poll) : List (String × Json) :=
  [("trials", jArr (b.trials.map fun x =>
      jArr [jSt x.status, jSt x.dictSt, jNat x.cursor, jNat x.out.length, jNat x.run, Json.str (procStr x.proc)])),
   ("ckpt", jArr ((b.ckpt.toArray.qsort (· < ·)).toList.map jNat)),
   ("cand", jArr ((b.busyCand.toArray.qsort (· < ·)).toList.map jNat))]

def jStatuses (l : List (Nat × St)) : Json := jArr (l.map fun (t, s) => jArr [jNat t, jSt s])

def jBatch (l : List (Nat × Rep)) : Json := jArr (l.map fun (t, r) => jArr [jNat t, jNat r.run, jNat r.idx])

def decisionOf (s : String) : Except String Decision :=
  if s == "CONTINUE" then .ok .continue else if s == "PAUSE" then .ok .pause
  else if s == "STOP" then .ok .stop else .error s!"bad decision {s}"

def pollInit (j : Json) : Except String (Poll × Json) :=
  let b := Poll.init (getBoolD j "delete_checkpoints" false) (getBoolD j "delayed_stop" false)
  .ok (b, jOut (jObj (jPollState b)))

def pollStep (b : Poll) (j : Json) : Except String (Poll × Json) := do
  let op ← getStr j "op"
  let fin (r : Except BErr Poll) : Except String (Poll × Json) :=
    match r with
    | .error e => throw e.toString
    | .ok b' => return (b', jOut (jObj (jPollState b')))
  if op == "start" then
    match b.start (← getOptNat j "ckpt") with
    | .error e => throw e.toString
    | .ok (b', tid) => return (b', jOut (jObj ([("trial", jNat tid)] ++ jPollState b')))
  else if op == "emit" then fin (.ok (b.emit (← getNat j "trial") (← getNat j "n")))
  else if op == "exit" then fin (.ok (b.exit (← getNat j "trial") (← getBool j "ok")))
  else if op == "wckpt" then fin (.ok (b.wckpt (← getNat j "trial")))
  else if op == "fetch" then
    match b.fetch (← getNatList j "ids") with
    | .error e => throw e.toString
    | .ok (b', sts, batch) =>
      return (b', jOut (jObj ([("status", jStatuses sts), ("delivered", jBatch batch)] ++ jPollState b')))
  else if op == "pause" then fin (b.pause (← getNat j "trial"))
  else if op == "stop" then fin (b.stop (← getNat j "trial"))
  else if op == "resume" then fin (b.resume (← getNat j "trial"))
  else if op == "stop_all" then fin b.stopAll
  else if op == "busy" then
    let (b', l) := b.busy
    return (b', jOut (jObj ([("busy", jStatuses ((l.toArray.qsort (fun a c => a.1 < c.1)).toList))] ++ jPollState b')))
  else if op == "loop" then
    let ids ← getNatList j "ids"
    let script ← (← getArr j "script").mapM fun e => do
      let a ← e.getArr?
      match a.toList with
      | [d, n] => pure (ScriptEntry.mk (← decisionOf (← d.getStr?)) (← n.getNat?))
      | _ => throw "bad script entry"
    match b.loopStep ids script with
    | .error e => throw e.toString
    | .ok (b', o) =>
      let handed := jArr (o.handed.map fun h =>
        jArr [jNat h.trial, jNat h.rep.run, jNat h.rep.idx, Json.str h.decision.toString])
      let common := [("handed", handed), ("status", jStatuses o.statuses), ("delivered", jBatch o.batch)] ++ jPollState b'
      match o.done with
      | .error e => return (b', jOut (jObj ([("loop_err", Json.str e.toString)] ++ common)))
      | .ok d =>
        let done := (d.toArray.qsort (fun a c => a.1 < c.1)).toList
        return (b', jOut (jObj ([("done", jStatuses done)] ++ common)))
  else throw s!"bad-op {op}"

def main : IO Unit := (Machine.mk pollInit pollStep).main
