import SyneTune.Base.Wire
import SyneTune.Model.EarlyRemoval
/-
Driver for stream `early` (C20, bookkeeping of speculative early checkpoint removal): run with
`lake env lean --run SyneTune/Drivers/Early.lean`.

constructor line: `{"stream":"early","max_num_checkpoints":n,"variant":"estimator"|"random"|"by_level"}`
ops:
  `{"op":"start"|"resume"|"complete","trial":t}`
  `{"op":"result","trial":t,"decision":"CONTINUE"|"PAUSE"|"STOP"}`
  `{"op":"loop_end","paused":[[t,level],…],"picks":[[t,level],…]}` — `paused`: what
      `terminator.paused_trials()` returned inside `on_loop_end` (`[]` when it was not called);
      `picks`: what `_trials_to_be_removed` returned (`[]` when it was not called, `null` when it raised)
every answer is `{"out":{…}}` with
  `result`: `"ok"` | `"raised:ValueError"` (forced: estimator variant, empty filtered list) |
      `"raised:oracle"` (the oracle failed on a non-empty list: an input) |
      `"rejected:<why>"` (oracle answer not admissible),
  `deleted`: ids handed to `delete_checkpoint`, in order,
  `consulted`: was `_trials_to_be_removed` called (loop end only; else `false`),
  `filtered`: the filtered list the oracle was given (loop end with `consulted`; else `[]`),
  `num_to_remove`: the second argument of the oracle (after the `min`; 0 when not consulted),
  and the state after the operation: `status` (`[t, name]` in insertion order of `_trial_status`),
  `removed` (`[t, level]` in insertion order), `num_removed`, `num_resumed`, `resumed_no_cp`,
  `count` (`_count_trials_with_checkpoints()`), and two judgements about the INPUT (not compared,
  counted by the harness): `op_ok` — the operation meets the contract `OpOK` of the theorems in
  the state it is applied to — and `natural_ok` (`NaturalOK`); for a loop end that consults
  the scheduler's list `list_complete` (`Complete`: every PAUSED-WITH-CP trial is in `paused`).
-/
open Lean SyneTune SyneTune.Early SyneTune.Wire

def jPairs (l : List (Nat × Nat)) : Json := jArr (l.map fun e => jArr [jNat e.1, jNat e.2])

def jState (s : State) : List (String × Json) :=
  [("status", jArr (s.status.map fun e => jArr [jNat e.1, Json.str e.2.toString])),
   ("removed", jPairs s.removed),
   ("num_removed", jNat s.numRemoved),
   ("num_resumed", jNat s.numResumed),
   ("resumed_no_cp", jPairs s.resumedNoCp),
   ("count", jNat (countCp s))]

def oracleErrStr : OracleErr → String
  | .wrongNumber => "wrong-number"
  | .notMember => "not-a-member-of-the-filtered-list"
  | .duplicate => "trial-chosen-twice"

def jAnswer (p : Params) (s0 s : State) (op : Op) (o : Out) : Json :=
  let (res, del) : String × List Nat := match o with
    | .done => ("ok", [])
    | .deleted ids => ("ok", ids)
    | .raised => ("raised:ValueError", [])
    | .oracleRaised => ("raised:oracle", [])
    | .rejected e => ("rejected:" ++ oracleErrStr e, [])
  let le : List (String × Json) := match op with
    | .loopEnd paused _ =>
      let c := consulted p s0
      let filt := if c then filterPaused s0 paused else []
      [("consulted", Json.bool c), ("filtered", jPairs filt),
       ("num_to_remove", jNat (if c then min (excess p s0).toNat filt.length else 0))]
    | _ => [("consulted", Json.bool false), ("filtered", jPairs []), ("num_to_remove", jNat 0)]
  let complete : Bool := match op with
    | .loopEnd paused _ =>
      !(consulted p s0) || s0.status.all fun e => !(decide (s0.statusOf e.1 = some Status.pausedCp)) || paused.any (fun q => q.1 == e.1)
    | _ => true
  jOut (jObj ([("result", Json.str res), ("deleted", jArr (del.map jNat)),
               ("op_ok", Json.bool (decide (OpOK s0 op))), ("natural_ok", Json.bool (decide (NaturalOK s0 op))),
               ("list_complete", Json.bool complete)] ++ le ++ jState s))

structure DState where
  p : Params
  s : State

def variantOf (s : String) : Except String Variant :=
  if s == "estimator" then .ok .estimator
  else if s == "random" then .ok .random
  else if s == "by_level" then .ok .byLevel
  else .error s!"bad variant {s}"

def decisionOf (s : String) : Except String Decision :=
  if s == "CONTINUE" then .ok .continue
  else if s == "PAUSE" then .ok .pause
  else if s == "STOP" then .ok .stop
  else .error s!"bad decision {s}"

def getPairs (j : Json) (k : String) : Except String (List (Nat × Nat)) := do
  (← getArr j k).mapM fun e => do
    match (← e.getArr?).toList with
    | [a, b] => return (← a.getNat?, ← b.getNat?)
    | _ => throw s!"field {k}: expected pairs"

def earlyInit (j : Json) : Except String (DState × Json) := do
  let p : Params := { maxCp := ← getInt j "max_num_checkpoints", variant := ← variantOf (← getStr j "variant") }
  return ({ p := p, s := State.init }, jAnswer p State.init State.init (.start 0) .done)

def earlyStep (d : DState) (j : Json) : Except String (DState × Json) := do
  let opName ← getStr j "op"
  let op : Op ←
    if opName == "start" then pure (Op.start (← getNat j "trial"))
    else if opName == "resume" then pure (Op.resume (← getNat j "trial"))
    else if opName == "complete" then pure (Op.complete (← getNat j "trial"))
    else if opName == "result" then pure (Op.result (← getNat j "trial") (← decisionOf (← getStr j "decision")))
    else if opName == "loop_end" then
      let picks ← match j.getObjVal? "picks" with
        | .ok .null => pure none
        | _ => do pure (some (← getPairs j "picks"))
      pure (Op.loopEnd (← getPairs j "paused") picks)
    else throw s!"bad-op {opName}"
  let r := step d.p d.s op
  return ({ d with s := r.1 }, jAnswer d.p d.s r.1 op r.2)

def main : IO Unit := (Machine.mk earlyInit earlyStep).main
