import SyneTune.Base.Wire
import SyneTune.Model.ReportChannel
/-
Driver for stream `report` (C18): run with
`lake env lean --run SyneTune/Drivers/Report.lean`.

Strings travel as arrays of Unicode code points (no JSON string escapes involved).
The JSON text of a report (`enc`, i.e. what the real `dump_json_with_numpy` returned) is an
input tape of the `report` operation; the driver checks J1/J2 (`payloadOKB`) on it.
-/
open Lean SyneTune SyneTune.Wire SyneTune.Report

def getCps (j : Json) : Except String (List Nat) := do
  (← j.getArr?).toList.mapM (fun x => x.getNat?)

def cpsToChars (l : List Nat) : List Char := l.map Char.ofNat

def getChars (j : Json) (k : String) : Except String (List Char) := do
  return cpsToChars (← getCps (← j.getObjVal? k))

def jCps (l : List Nat) : Json := jArr (l.map jNat)
def jChars (l : List Char) : Json := jArr (l.map fun c => jNat c.toNat)

def parseFlt (s : String) : Except String Flt :=
  if s == "nan" then .ok .nan else if s == "inf" then .ok .pinf else if s == "-inf" then .ok .ninf
  else if s == "-0" then .ok .negZero else do return .fin (← parseRat s)

def fltStr : Flt → String
  | .fin q => ratStr q
  | .negZero => "-0"
  | .nan => "nan"
  | .pinf => "inf"
  | .ninf => "-inf"

def parseInt (j : Json) : Except String Int :=
  match j with
  | .str s => match s.toInt? with
    | some i => .ok i
    | none => .error s!"bad int {s}"
  | _ => j.getInt?

def parseDKey (j : Json) : Except String DKey := do
  let k ← getStr j "k"
  if k == "str" then return .str (← getCps (← j.getObjVal? "v"))
  else if k == "int" then return .int (← parseInt (← j.getObjVal? "v"))
  else if k == "float" then return .float (← getCps (← j.getObjVal? "r"))
  else if k == "bool" then return .bool (← getBool j "v")
  else if k == "null" then return .null
  else if k == "bad" then return .bad
  else throw s!"bad key kind {k}"

partial def parseVal (j : Json) : Except String Val := do
  let k ← getStr j "k"
  if k == "null" then return .leaf .null
  else if k == "bool" then return .leaf (.bool (← getBool j "v"))
  else if k == "int" then return .leaf (.int (← parseInt (← j.getObjVal? "v")))
  else if k == "float" then return .leaf (.float (← parseFlt (← getStr j "v")))
  else if k == "str" then return .leaf (.str (← getCps (← j.getObjVal? "v")))
  else if k == "np" then return .np (← parseVal (← j.getObjVal? "v"))
  else if k == "other" then return .other
  else if k == "list" then return .list (← (← getArr j "v").mapM parseVal)
  else if k == "dict" then
    let items ← getArr j "v"
    let kvs ← items.mapM fun it => do
      let a ← it.getArr?
      match a.toList with
      | [kj, vj] => do return (← parseDKey kj, ← parseVal vj)
      | _ => throw "bad dict item"
    return .dict kvs
  else throw s!"bad value kind {k}"

def jLeaf : Leaf → Json
  | .null => jObj [("k", "null")]
  | .bool b => jObj [("k", "bool"), ("v", Json.bool b)]
  | .int i => jObj [("k", "int"), ("v", Json.str (toString i))]
  | .float f => jObj [("k", "float"), ("v", Json.str (fltStr f))]
  | .str s => jObj [("k", "str"), ("v", jCps s)]

partial def jPlain : Plain → Json
  | .leaf l => jLeaf l
  | .list xs => jObj [("k", "list"), ("v", jArr (xs.map jPlain))]
  | .dict kvs => jObj [("k", "dict"), ("v", jArr (kvs.map fun kv => jArr [jCps kv.1, jPlain kv.2]))]

def jDict (d : PDict) : Json := jPlain (.dict d)

def errStr : Err → String
  | .noneValue => "assertion:none-value"
  | .reserved => "assertion:reserved"
  | .typeError => "type-error"
  | .tooLarge => "assertion:size"

structure DState where
  cfg : Cfg
  st : St
  payloads : List (List Char)    -- JSON texts of the accepted reports (parallel to `st.segs`)

def DState.text (s : DState) : List Char :=
  streamText s.cfg.tag ((s.st.segs.zip s.payloads).map fun sp => (sp.1.1, sp.2)) s.st.cur

def cfgOKB (c : Cfg) : Bool :=
  reservedPrefix.isPrefixOf c.kTimestamp && reservedPrefix.isPrefixOf c.kTime &&
  reservedPrefix.isPrefixOf c.kIter && reservedPrefix.isPrefixOf c.kCost &&
  c.kIter != c.kTimestamp && c.kIter != c.kTime && c.kIter != c.kCost && c.kTime != c.kTimestamp

def rInit (j : Json) : Except String (DState × Json) := do
  let tag ← getChars j "tag"
  let dc ← (match j.getObjVal? "dollar_cost" with
    | .ok .null => pure none
    | .ok v => do return some (← getRatOf v)
    | .error _ => pure none)
  let c : Cfg := { tag := tag, kTimestamp := ← getCps (← j.getObjVal? "k_timestamp"),
                   kTime := ← getCps (← j.getObjVal? "k_time"), kCost := ← getCps (← j.getObjVal? "k_cost"),
                   kIter := ← getCps (← j.getObjVal? "k_iter"), overhead := ← getNat j "overhead",
                   addTime := ← getBool j "add_time", dollarCost := dc }
  let perf0 ← getRat j "perf0"
  let s : DState := { cfg := c, st := St.init c perf0, payloads := [] }
  return (s, jOut (jObj [("marker_ok", Json.bool (markerOKB tag)), ("diag_ok", Json.bool (diagOKB tag)),
                         ("tag_is_proved", Json.bool (tag == tuneMetricTag)),
                         ("cfg_ok", Json.bool (cfgOKB c)), ("size_limit", jNat sizeLimit),
                         ("reserved_prefix", jCps reservedPrefix), ("iter", jNat s.st.iter)]))

def rStep (s : DState) (j : Json) : Except String (DState × Json) := do
  let op ← getStr j "op"
  if op == "noise" then
    let n ← getChars j "text"
    let st' := s.st.noise n
    return ({ s with st := st' },
      jOut (jObj [("clean", Json.bool (decide (¬ marker s.cfg.tag <:+: st'.cur)))]))
  else if op == "report" then
    let items ← getArr j "kw"
    let kw ← items.mapM fun it => do
      let a ← it.getArr?
      match a.toList with
      | [kj, vj] => do return (← getCps kj, ← parseVal vj)
      | _ => throw "bad kw item"
    let now ← getRat j "now"
    let perf ← getRat j "perf"
    let payload ← (match j.getObjVal? "payload" with
      | .ok .null => pure none
      | .ok v => do return some (cpsToChars (← getCps v))
      | .error _ => pure none)
    let enc : PDict → List Char := fun _ => payload.getD []
    let before := s.text
    let (st', err) := s.st.call s.cfg enc kw now perf
    let accepted := err.isNone
    let s' : DState := { s with st := st', payloads := if accepted then s.payloads ++ [payload.getD []] else s.payloads }
    let written := s'.text.drop before.length
    let dict := if accepted then (match st'.segs.getLast? with | some sg => jDict sg.2 | none => Json.null) else Json.null
    let status := match err with | none => "ok" | some e => errStr e
    -- J1/J2 are checked on every payload the real encoder produced, accepted or not
    let pok := match payload with | some p => payloadOKB p | none => true
    return (s', jOut (jObj [("status", Json.str status), ("iter", jNat st'.iter), ("written", jChars written),
                            ("dict", dict), ("payload_ok", Json.bool pok),
                            ("prefix_ok", Json.bool (before.isPrefixOf s'.text))]))
  else if op == "retrieve" then
    let how ← getStr j "how"
    let text := s.text
    let lines := if how == "local" then localRead text
                 else if how == "keepends" then readlines text
                 else [text]
    let found := retrieve s.cfg.tag lines
    let dicts := s.st.segs.map fun sg => jDict sg.2
    return (s, jOut (jObj [("found", jArr (found.map jChars)), ("sent", jArr (s.payloads.map jChars)),
                           ("equal", Json.bool (found == s.payloads)), ("dicts", jArr dicts),
                           ("lines", jNat lines.length)]))
  else if op == "scan" then
    -- the regex of `retrieve` on arbitrary lines (forged markers, noise behind a report, …)
    let ls ← (← getArr j "lines").mapM fun l => do return cpsToChars (← getCps l)
    let ls' := if getBoolD j "local" false then localRead (joinNl ls) else ls
    return (s, jOut (jObj [("found", jArr ((retrieve s.cfg.tag ls').map jChars))]))
  else throw s!"bad-op {op}"

def main : IO Unit := (Machine.mk rInit rStep).main
