import SyneTune.Base.Wire
import SyneTune.Model.SyncScheduler
/-
Driver for stream `sync` (C05, C13-sync, C20-sync): run with
`lake env lean --run SyneTune/Drivers/Sync.lean`.
Header line: `{"stream":"sync","level":"scheduler"|"manager","kind":"hyperband"|"dehb",…}`.
-/
open Lean SyneTune SyneTune.Wire SyneTune.Sync

def errStr : SErr → String
  | .assertion w => s!"assertion:{w}"
  | .keyError w => s!"key-error:{w}"
  | .other w => s!"other:{w}"

def jMetric : Metric → Json
  | .nan => Json.str "nan"
  | .val v => jRat v

def jOptMetric : Option Metric → Json
  | none => Json.null
  | some m => jMetric m

def jSlot (s : Slot) : Json := jArr [jOptNat s.tid, jOptMetric s.metric]

def jBracket (b : Bracket) : Json :=
  jObj [("current", jNat b.current), ("first_free", jNat b.firstFree),
        ("rungs", jArr (b.rungs.map (fun r => jArr [jNat r.level, jArr (r.slots.map jSlot)])
                        ++ b.todo.map (fun r => jArr [jNat r.2, jNat r.1])))]

/-- the manager's state; only the brackets from index `from_` on are printed (the ones below
the primary bracket at the start of the operation are complete and never change) -/
def jMgr (g : Manager) (from_ : Nat := 0) : List (String × Json) :=
  [("primary", jNat g.primary), ("offsets", jArr (g.idToOffset.map jNat)),
   ("num_brackets", jNat g.brackets.length), ("first_shown", jNat (min from_ g.brackets.length)),
   ("brackets", jArr ((g.brackets.drop from_).map jBracket))]

def jOptList : Option (List (Option Nat)) → Json
  | none => Json.null
  | some l => jArr (l.map jOptNat)

def insertSorted (x : Nat) : List Nat → List Nat
  | [] => [x]
  | y :: ys => if x ≤ y then x :: y :: ys else y :: insertSorted x ys

def jSched (s : Sched) (from_ : Nat := 0) : List (String × Json) :=
  jMgr s.mgr from_ ++
  [("pending", jArr (s.pending.map fun (t, (b, sl)) =>
      jArr [jNat t, jNat b, jNat sl.rungIndex, jNat sl.level, jNat sl.slotIndex, jOptNat sl.tid])),
   ("removable", jArr (s.removable.map jOptNat)),
   ("configs", jArr ((s.configs.foldr insertSorted []).map jNat))]

def jCall : SCall → Json
  | .pending t l => jArr [Json.str "pending", jNat t, jNat l]
  | .update t r v u => jArr [Json.str "update", jNat t, jNat r, jMetric v, Json.bool u]
  | .evalFailed t => jArr [Json.str "failed", jNat t]

def jSuggestion : Suggestion → Json
  | .start t b ri si lv c =>
    jObj [("kind", Json.str "start"), ("trial", jNat t), ("bracket", jNat b), ("rung_index", jNat ri),
          ("slot_index", jNat si), ("level", jNat lv), ("cfg_level", jOptNat c)]
  | .resume t lv c => jObj [("kind", Json.str "resume"), ("trial", jNat t), ("level", jNat lv), ("cfg_level", jOptNat c)]
  | .none => jObj [("kind", Json.str "none")]

def getMetric (j : Json) (k : String) : Except String Metric := do
  let v ← j.getObjVal? k
  match v with
  | .str "nan" => pure Metric.nan
  | _ => return Metric.val (← getRat j k)

def getOptNat' (j : Json) (k : String) : Except String (Option Nat) := getOptNat j k

def getRungs (v : Json) : Except String (List (Nat × Nat)) := do
  (← v.getArr?).toList.mapM fun p => do
    let a ← p.getArr?
    match a.toList with
    | [s, l] => return (← s.getNat?, ← l.getNat?)
    | _ => throw "rung must be [size, level]"

def getSystems (j : Json) (k : String) : Except String (List (List (Nat × Nat))) := do
  (← getArr j k).mapM getRungs

def jSystems (l : List (List (Nat × Nat))) : Json :=
  jArr (l.map fun rs => jArr (rs.map fun r => jArr [jNat r.1, jNat r.2]))

inductive St
  | mgr (g : Manager)
  | sched (s : Sched)

def liftE {α} (e : Except SErr α) : Except String α :=
  match e with
  | .ok a => .ok a
  | .error x => .error (errStr x)

def syncInit (j : Json) : Except String (St × Json) := do
  let level := getStrD j "level" "scheduler"
  let kind := getStrD j "kind" "hyperband"
  let mode ← modeOf (← getStr j "mode")
  if kind == "dehb" then
    let first ← getRungs (← j.getObjVal? "rungs_first")
    let nb ← getOptNat j "num_brackets"
    let g ← liftE (Manager.initDehb mode first nb)
    return (.mgr g, jOut (jObj ([("bracket_rungs", jSystems g.bracketRungs), ("free", Json.bool false)] ++ jMgr g)))
  else
    let (systems, free) ←
      (if hasKey j "geometric" then do
        let gj ← j.getObjVal? "geometric"
        let hints ← (if hasKey j "hint_rungs" then getSystems j "hint_rungs" else pure [])
        match geometric (← getNat gj "min") (← getNat gj "max") (← getRat gj "rf") (← getOptNat gj "brackets") hints with
        | none => throw "assertion:geometric arguments"
        | some r => pure r
      else do
        pure ((← getSystems j "bracket_rungs"), false))
    if level == "manager" then
      let g ← liftE (Manager.init .hyperband mode systems)
      return (.mgr g, jOut (jObj ([("bracket_rungs", jSystems systems), ("free", Json.bool free)] ++ jMgr g)))
    else
      let sd := getStrD j "searcher_data" "rungs"
      let s ← liftE (Sched.init mode systems (getBoolD j "max_resource_attr" false) (sd == "all"))
      return (.sched s, jOut (jObj ([("bracket_rungs", jSystems systems), ("free", Json.bool free)] ++ jSched s)))

def mgrStep (g : Manager) (j : Json) : Except String (Manager × Json) := do
  let op ← getStr j "op"
  if op == "next_job" then
    let (g', id, sl) ← liftE g.nextJob
    return (g', jOut (jObj ([("bracket", jNat id),
      ("slot", jArr [jNat sl.rungIndex, jNat sl.level, jNat sl.slotIndex, jOptNat sl.tid])] ++ jMgr g' g.primary)))
  else if op == "on_result" then
    let res : SlotInRung := { rungIndex := ← getNat j "rung_index", level := ← getNat j "level",
                              slotIndex := ← getNat j "slot_index", tid := ← getOptNat j "trial_id",
                              metric := (if hasKey j "metric" then (match getMetric j "metric" with | .ok m => some m | .error _ => none) else none) }
    let (g', np) ← liftE (g.onResult (← getNat j "bracket") res)
    return (g', jOut (jObj ([("not_promoted", jOptList np)] ++ jMgr g' g.primary)))
  else if op == "level_to_prev_level" then
    let p ← liftE (g.levelToPrevLevel (← getNat j "bracket") (← getNat j "level"))
    return (g, jOut (jObj [("prev", jNat p)]))
  else if op == "top_of_previous_rung" then
    let (g', t) ← liftE (g.topOfPreviousRung (← getNat j "bracket") (← getNat j "pos"))
    return (g', jOut (jObj [("trial", jOptNat t)]))
  else if op == "parent_slot" then
    let t ← liftE (g.trialIdFromParentSlot (← getNat j "bracket") (← getNat j "level") (← getNat j "slot_index"))
    return (g, jOut (jObj [("trial", jOptNat t)]))
  else if op == "size_of_current_rung" then
    match g.brackets[← getNat j "bracket"]? with
    | none => throw "other:IndexError"
    | some br =>
      let n ← liftE br.sizeOfCurrentRung
      return (g, jOut (jObj [("size", jNat n)]))
  else throw s!"bad-op {op}"

def schedStep (s : Sched) (j : Json) : Except String (Sched × Json) := do
  let op ← getStr j "op"
  if op == "suggest" then
    let (s', sg, calls) ← liftE (s.suggest (← getNat j "trial_id") (getBoolD j "has_config" true))
    return (s', jOut (jObj ([("suggestion", jSuggestion sg), ("calls", jArr (calls.map jCall))] ++ jSched s' s.mgr.primary)))
  else if op == "result" then
    let (s', d, calls) ← liftE (s.onResult (← getNat j "trial") (← getNat j "resource") (← getMetric j "metric"))
    return (s', jOut (jObj ([("decision", Json.str d.toString), ("calls", jArr (calls.map jCall))] ++ jSched s' s.mgr.primary)))
  else if op == "error" then
    let (s', calls) ← liftE (s.onError (← getNat j "trial"))
    return (s', jOut (jObj ([("calls", jArr (calls.map jCall))] ++ jSched s' s.mgr.primary)))
  else if op == "complete" then
    let (s', calls) := s.onComplete (← getNat j "trial") (← getNat j "resource") (← getMetric j "metric")
    return (s', jOut (jObj ([("calls", jArr (calls.map jCall))] ++ jSched s' s.mgr.primary)))
  else if op == "remove" then
    let s' := s.onRemove (← getNat j "trial")
    return (s', jOut (jObj (jSched s' s.mgr.primary)))
  else if op == "take_removable" then
    let (s', l) := s.takeRemovable
    return (s', jOut (jObj ([("removed", jArr (l.map jOptNat))] ++ jSched s' s.mgr.primary)))
  else throw s!"bad-op {op}"

def syncStep (st : St) (j : Json) : Except String (St × Json) :=
  match st with
  | .mgr g => do let (g', o) ← mgrStep g j; return (.mgr g', o)
  | .sched s => do let (s', o) ← schedStep s j; return (.sched s', o)

def main : IO Unit := (Machine.mk syncInit syncStep).main
