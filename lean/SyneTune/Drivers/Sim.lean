import SyneTune.Base.Wire
import SyneTune.Model.TabularBackend
/-
Driver for stream `sim` (C02, C10): run with
`lake env lean --run SyneTune/Drivers/Sim.lean`.
-/
open Lean SyneTune SyneTune.Backend SyneTune.Wire

structure DState where
  A : Arith
  s : TB

def jSt (s : St) : Json := Json.str s.toString

def sortNat (l : List Nat) : List Nat := (l.toArray.qsort (· < ·)).toList

def kindStr : EvKind → Json
  | .start => jArr [Json.str "start"]
  | .complete st _ => jArr [Json.str "complete", jSt st]
  | .stop => jArr [Json.str "stop"]
  | .result r _ => jArr [Json.str "result", jNat r.level]

def outRow (tcol : Nat) (r : Res) : List Rat := r.row.set tcol r.elapsed

def jSimState (s : TB) : List (String × Json) :=
  [("now", jRat s.now),
   ("heap", jArr (s.heap.map fun e => jArr [jRat e.time, jNat e.cnt, jNat e.trial, kindStr e.kind])),
   ("added", jNat s.added),
   ("next", jArr ((s.next.toArray.qsort (fun a b => a.1 < b.1)).toList.map fun (t, l) => jArr [jNat t, jNat l.length])),
   ("seen", jArr ((s.seen.toArray.qsort (fun a b => a.1 < b.1)).toList.map fun (t, n) => jArr [jNat t, jNat n])),
   ("busy", jArr ((sortNat s.busy).map jNat)),
   ("trials", jArr (s.trials.map fun x => jArr [Json.bool x.isResult, jSt x.status])),
   ("seed_for", jArr ((s.js.seedFor.toArray.qsort (fun a b => a.1 < b.1)).toList.map fun (t, n) => jArr [jNat t, jNat n])),
   ("paused", jArr ((s.js.paused.toArray.qsort (fun a b => a.1 < b.1)).toList.map fun (t, n) => jArr [jNat t, jNat n]))]

def getRatRows (v : Json) : Except String (List (List Rat)) := do
  (← v.getArr?).toList.mapM fun row => do (← row.getArr?).toList.mapM getRatOf

def cfgOf (v : Json) : Except String Cfg := do
  return { idx := ← getNat v "idx", maxRes := ← getOptNat v "max_res" }

def optCfg (j : Json) (k : String) : Except String (Option Cfg) :=
  match j.getObjVal? k with
  | .error _ => .ok none
  | .ok .null => .ok none
  | .ok v => do return some (← cfgOf v)

def pairsOf (j : Json) (k : String) : Except String (List (Nat × Nat)) :=
  match getArr j k with
  | .error _ => .ok []
  | .ok l => l.mapM fun e => do
    match (← e.getArr?).toList with
    | [a, b] => pure (← a.getNat?, ← b.getNat?)
    | _ => throw "bad pair"

def simInit (j : Json) : Except String (DState × Json) := do
  let d ← j.getObjVal? "delays"
  let cfg : SimCfg := {
    dResult := ← getRat d "delay_on_trial_result",
    dCompleteFinal := ← getRat d "delay_complete_after_final_report",
    dCompleteStop := ← getRat d "delay_complete_after_stop",
    dStart := ← getRat d "delay_start",
    dStop := ← getRat d "delay_stop",
    sleep := ← getRat j "sleep",
    guard := ← getRat j "guard" }
  let tb ← j.getObjVal? "table"
  let data ← (← getArr tb "data").mapM fun c => do (← c.getArr?).toList.mapM getRatRows
  let table : Table := { fids := ← getNatList tb "fids", tcol := ← getNat tb "tcol",
                         numSeeds := ← getNat tb "num_seeds", data := data }
  let js : TabState := { table := table, maxResAttr := getBoolD j "max_resource_attr" false,
                         seedFix := ← getOptNat j "seed", checkpointing := getBoolD j "checkpointing" true,
                         minStep := ← getRat j "min_step" }
  let ar := getStrD j "arith" "ieee"
  let A := if ar == "exact" then Arith.exact else Arith.ieee
  let s := TB.init cfg js
  return (⟨A, s⟩, jOut (jObj (jSimState s)))

def simStep (st : DState) (j : Json) : Except String (DState × Json) := do
  let op ← getStr j "op"
  let A := st.A
  let job := tabJob A
  -- recorded draws of this operation
  let s := { st.s with js := { st.s.js with seedTape := ← pairsOf j "seeds" } }
  let fin (r : Except BErr TB) (extra : List (String × Json) := []) : Except String (DState × Json) :=
    match r with
    | .error e => throw e.toString
    | .ok s' => return (⟨A, s'⟩, jOut (jObj (extra ++ jSimState s')))
  if op == "start" then
    let cfg ← cfgOf (← j.getObjVal? "cfg")
    match s.startTrial A job fun tid js => { js with cfgs := aset tid cfg js.cfgs } with
    | .error e => throw e.toString
    | .ok (s', tid) => fin (.ok s') [("trial", jNat tid)]
  else if op == "resume" then
    fin (TB.step A job s (.resume (← getNat j "trial") (← optCfg j "cfg")))
  else if op == "pause" then
    fin (TB.step A job s (.pause (← getNat j "trial") (← getOptNat j "level")))
  else if op == "stop" then fin (TB.step A job s (.stop (← getNat j "trial")))
  else if op == "fetch" then
    match s.fetch A job (← getNatList j "ids") with
    | .error e => throw e.toString
    | .ok (s', sts, res) =>
      let tcol := s'.js.table.tcol
      fin (.ok s') [("status", jArr (sts.map fun (t, x) => jArr [jNat t, jSt x])),
                    ("delivered", jArr (res.map fun (t, a) =>
                        jArr [jNat t, jNat a.res.level, jArr ((outRow tcol a.res).map jRat), jRat a.time]))]
  else if op == "busy" then
    match s.busyIds A job with
    | .error e => throw e.toString
    | .ok (s', l) => fin (.ok s') [("busy_ids", jArr ((sortNat l).map jNat))]
  else if op == "sleep" then fin (TB.step A job s .sleep)
  else if op == "advance" then fin (TB.step A job s (.advance (← getRat j "dt")))
  else if op == "tick" then fin (TB.step A job s (.tick (← getRat j "dt")))
  else if op == "stop_all" then fin (TB.step A job s .stopAll)
  else throw s!"bad-op {op}"

def main : IO Unit := (Machine.mk simInit simStep).main
