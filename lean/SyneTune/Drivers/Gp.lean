import SyneTune.Base.Wire
import SyneTune.Model.GPExec
/-
Driver for stream `gp` (C08, C09): the `Rat` twin of the GP numerics.  Run with
`lake env lean --run SyneTune/Drivers/Gp.lean`.  Every line is independent; the header
line (`"stream":"gp"`) carries the literal constants of the code as exact rationals.
-/
open Lean SyneTune SyneTune.Wire SyneTune.GP

structure Consts where
  minVar : Rat      -- MIN_POSTERIOR_VARIANCE
  minDiag : Rat     -- MIN_CHOLESKY_DIAGONAL_VALUE
  jointJit : Rat    -- the literal 1e-5 of sample_posterior_joint
  stdClamp : Rat    -- the literal 1e-10 of get_quantiles
  jitInit : Rat     -- NOISE_VARIANCE_LOWER_BOUND, the initial_jitter_factor both call sites pass
  jitGrowth : Rat   -- JITTER_GROWTH
  jitUb : Rat       -- JITTER_UPPERBOUND_FACTOR

def getRows (j : Json) (k : String) : Except String (Array (Array Rat)) := do
  let rows ← getArr j k
  let rs ← rows.mapM fun r => do
    let xs ← r.getArr?
    xs.toList.mapM getRatOf
  return (rs.map List.toArray).toArray

def getList (j : Json) (k : String) : Except String (Array Rat) := do
  return (← getRatList j k).toArray

def mkMat (a : Array (Array Rat)) (n m : Nat) (what : String) : Except String (Mat Rat n m) :=
  if a.size = n ∧ a.all (fun r => r.size = m) then
    .ok (Mat.of fun i j => (a[i.val]!)[j.val]!)
  else .error s!"shape:{what}"

def mkVec (a : Array Rat) (n : Nat) (what : String) : Except String (Vec Rat n) :=
  if a.size = n then .ok (Vec.of fun i => a[i.val]!) else .error s!"shape:{what}"

def jVec {n : Nat} (v : Vec Rat n) : Json := jArr (v.toList.map jRat)
def jMat {n m : Nat} (M : Mat Rat n m) : Json := jArr (M.toList.map jVec)
def jFn {n : Nat} (f : Fin n → Rat) : Json := jVec (Vec.of f)

/-- scipy's `solve_triangular` raises `LinAlgError` on a zero diagonal entry -/
def singular {n : Nat} (L : Mat Rat n n) : Bool := (List.finRange n).any fun i => L[i][i] == 0

def natSqrtExact (n : Nat) : Option Nat :=
  let r := Nat.sqrt n
  if r * r = n then some r else none

def ratSqrtExact (x : Rat) : Option Rat :=
  if x < 0 then none else
  match natSqrtExact x.num.toNat, natSqrtExact x.den with
  | some a, some b => some (mkRat a b)
  | _, _ => none

/-- square-root oracle: exact when the argument is a perfect square, otherwise the
implementation's value (the hint whose square is closest to the argument) provided it squares
to the argument within `tolAbs`; `-1` flags that no hint does. -/
def sqrtOracle (hints : List Rat) (tolAbs : Rat) (x : Rat) : Rat :=
  match ratSqrtExact x with
  | some r => r
  | none =>
    let best := hints.foldl (fun (acc : Option Rat) h =>
      if 0 ≤ h ∧ absRat (h * h - x) ≤ tolAbs then
        match acc with
        | none => some h
        | some b => if absRat (h * h - x) < absRat (b * b - x) then some h else some b
      else acc) none
    match best with
    | some h => h
    | none => -1

def pow2 (k : Nat) : Rat := ((2 ^ k : Nat) : Rat)

def jJitter {n : Nat} : Option (JitterOut Rat n) → Json
  | none => jObj [("assert", Json.bool true)]
  | some r => jObj [("assert", Json.bool false), ("sys", jMat r.sys), ("jitter", jRat r.jitter), ("steps", jNat r.steps)]

/-- the outcome of `AddJitterOp` (first entry: exact arithmetic), followed by the other outcomes
that arise when a free decision goes the other way: the loop bound `jitter <= jitter_upperbound`
within 2^-30 relative (the code compares two floating-point products that are equal in exact
arithmetic up to the rounding of `1e-9`), and the success of `potrf` on a matrix whose pivots are
within `2^-40 * scale` of zero. -/
def jitterOutcomes {n : Nat} (c : Consts) (x : Mat Rat n n) (sigsq : Rat) : Json × Bool :=
  let diagMax := (List.finRange n).foldl (fun m i => maxRat m (absRat x[i][i])) (1 + absRat sigsq)
  let tau := diagMax / pow2 40
  let run := fun (eps ubf : Rat) => addJitter eps x sigsq c.jitInit c.jitGrowth ubf
  let p := run 0 c.jitUb
  let ubs := [c.jitUb, c.jitUb * (1 + 1 / pow2 30), c.jitUb * (1 - 1 / pow2 30)]
  let all := ubs.flatMap fun u => [run 0 u, run tau u, run (-tau) u]
  let key := fun (o : Option (JitterOut Rat n)) => o.map (·.steps)
  let alts := all.foldl (fun (acc : List (Option (JitterOut Rat n))) o =>
    if (acc.any fun a => key a == key o) then acc else acc ++ [o]) [p]
  (jArr (alts.map jJitter), decide (1 < alts.length))

def gpInit (j : Json) : Except String (Consts × Json) := do
  let c : Consts := { minVar := ← getRat j "min_var", minDiag := ← getRat j "min_chol_diag",
                      jointJit := ← getRat j "joint_jitter", stdClamp := ← getRat j "std_clamp",
                      jitInit := ← getRat j "jitter_init_factor", jitGrowth := ← getRat j "jitter_growth",
                      jitUb := ← getRat j "jitter_ub_factor" }
  return (c, jOut (jObj []))

def stateOf (j : Json) : Except String ((n : Nat) × (m : Nat) × Mat Rat n n × Mat Rat n m) := do
  let Ls ← getRows j "L"
  let Ps ← getRows j "P"
  let n := Ls.size
  let m := if h : 0 < Ps.size then Ps[0].size else getNatD j "m" 0
  let L ← mkMat Ls n n "L"
  let P ← mkMat Ps n m "P"
  return ⟨n, m, L, P⟩

def jUpdate {n m : Nat} (U : Update Rat n m) : List (String × Json) :=
  [("lvec", jVec U.lvec), ("lsq", jRat U.lsq), ("lscal", jRat U.lscal), ("L", jMat U.L), ("P", jMat U.P),
   ("sqrt_hint", Json.bool (ratSqrtExact U.lsq).isNone)]

def gpStep (c : Consts) (j : Json) : Except String (Consts × Json) := do
  let op ← getStr j "op"
  if op == "predict" then
    let ⟨n, m, L, P⟩ ← stateOf j
    let Kss ← getRows j "Ks"
    let kds ← getList j "kd"
    let t := kds.size
    let Ks ← mkMat Kss n t "Ks"
    let kd ← mkVec kds t "kd"
    let ms ← mkVec (← getList j "ms") t "ms"
    if singular L then throw "singular"
    let r := predictMarginals L P Ks (← getRat j "scale") kd ms c.minVar
    return (c, jOut (jObj [("means", jMat r.means), ("vars", jVec r.vars)]))
  else if op == "nll" then
    let ⟨n, m, L, P⟩ ← stateOf j
    if m ≠ 1 then throw "assertion:multiple-targets"
    return (c, jOut (jObj [("sqnorm", jRat (sqNorm P)), ("diag_abs_prod", jRat (diagAbsProd L)), ("size", jNat (n * m))]))
  else if op == "joint" then
    let ⟨n, m, L, P⟩ ← stateOf j
    let mss ← getList j "ms"
    let t := mss.size
    let Ks ← mkMat (← getRows j "Ks") n t "Ks"
    let Kss ← mkMat (← getRows j "Kss") t t "Kss"
    let ms ← mkVec mss t "ms"
    if singular L then throw "singular"
    let r := posteriorJoint L P Ks Kss (← getRat j "scale") ms c.jointJit
    let (oc, fr) := jitterOutcomes c r.cov c.jointJit
    return (c, jOut (jObj [("mean", jMat r.mean), ("cov", jMat r.cov), ("sys", jMat r.sys),
                           ("outcomes", oc), ("free", Json.bool fr)]))
  else if op == "add_jitter" then
    let xs ← getRows j "x"
    let n := xs.size
    let x ← mkMat xs n n "x"
    let (oc, fr) := jitterOutcomes c x (← getRat j "sigsq")
    return (c, jOut (jObj [("outcomes", oc), ("free", Json.bool fr)]))
  else if op == "update" || op == "sample_update" then
    let ⟨n, m, L, P⟩ ← stateOf j
    let kvec ← mkVec (← getList j "kvec") n "kvec"
    let scale ← getRat j "scale"
    let kdiag ← getRat j "kdiag"
    let noise ← getRat j "noise"
    let mscal ← getRat j "mscal"
    let hints ← getRatList j "sqrt_hints"
    if singular L then throw "singular"
    let lvec := computeLvec L kvec scale
    let mag := absRat (kdiag * scale) + absRat noise + sumFin (fun k : Fin n => lvec[k] * lvec[k])
    let orc := sqrtOracle hints (maxRat 1 mag / pow2 40)
    if op == "update" then
      let target ← mkVec (← getList j "target") m "target"
      let U := cholUpdate orc c.minDiag L P kvec scale kdiag noise mscal target
      if U.lscal < 0 then throw "sqrt-hint-mismatch"
      return (c, jOut (jObj (jUpdate U)))
    else
      let n01 ← mkVec (← getList j "n01") m "n01"
      let S := sampleAndUpdate orc c.minDiag c.minVar L P kvec scale kdiag noise mscal n01
      if S.upd.lscal < 0 then throw "sqrt-hint-mismatch"
      let pv := maxOf (kdiag * scale - sumFin (fun k : Fin n => lvec[k] * lvec[k])) c.minVar
      if orc pv < 0 then throw "sqrt-hint-mismatch"
      return (c, jOut (jObj ([("target", jVec S.target), ("pred_var", jRat pv)] ++ jUpdate S.upd)))
  else if op == "chol_bwd" then
    let Ls ← getRows j "L"
    let n := Ls.size
    let L ← mkMat Ls n n "L"
    let Lbar ← mkMat (← getRows j "Lbar") n n "Lbar"
    if singular L then throw "singular"
    return (c, jOut (jObj [("abar", jMat (cholBackward L Lbar))]))
  else if op == "jitter_vjp" then
    let gs ← getRows j "g"
    let n := gs.size
    let g ← mkMat gs n n "g"
    let r := jitterVjp g
    return (c, jOut (jObj [("vec", jArr ((r.1.toList.flatMap fun row => row.toList.map jRat) ++ [jRat r.2]))]))
  else if op == "ei" then
    let mus ← getList j "mean"
    let nf := mus.size
    let mu ← mkVec mus nf "mean"
    let best ← mkVec (← getList j "best") nf "best"
    let Phi ← mkVec (← getList j "Phi") nf "Phi"
    let phi ← mkVec (← getList j "phi") nf "phi"
    let jit ← getRat j "jitter"
    let sd := clampStd (← getRat j "std") c.stdClamp
    let u : Fin nf → Rat := fun k => eiU best[k] mu[k] jit sd
    let H := eiHeadGrad sd u (fun k => Phi[k]) (fun k => phi[k])
    return (c, jOut (jObj [("u", jFn u), ("hval", jRat H.hval), ("dmean", jFn H.dmean), ("dstd", jRat H.dstd),
                           ("hval_alone", jRat (eiHead sd u (fun k => Phi[k]) (fun k => phi[k])))]))
  else if op == "lcb" then
    let mus ← getList j "mean"
    let nf := mus.size
    let mu ← mkVec mus nf "mean"
    let kappa ← getRat j "kappa"
    let sd ← getRat j "std"
    let H := lcbHeadGrad kappa sd (fun k : Fin nf => mu[k])
    return (c, jOut (jObj [("hval", jRat H.hval), ("dmean", jFn H.dmean), ("dstd", jRat H.dstd),
                           ("hval_alone", jRat (lcbHead kappa sd (fun k : Fin nf => mu[k])))]))
  else throw s!"bad-op {op}"

def main : IO Unit := (Machine.mk gpInit gpStep).main
