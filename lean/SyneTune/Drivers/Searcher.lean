import SyneTune.Base.Wire
import SyneTune.Model.RandomSearcher
import SyneTune.Model.Grid
import SyneTune.Model.RandomRestrict
/-
Driver for stream `searcher` (C06, C16): run with
`lake env lean --run SyneTune/Drivers/Searcher.lean`.  Not part of any proof.
-/
open Lean SyneTune SyneTune.Wire SyneTune.Srch

def errS : Err → String
  | .assertion w => s!"assertion:{w}"
  | .keyError w => s!"key-error:{w}"
  | .valueError w => s!"value-error:{w}"
  | .tape => "tape"
  | .unsupported w => s!"unsupported:{w}"
  | .fuel => "fuel"

def liftE {α} (x : Except Err α) : Except String α :=
  match x with
  | .ok a => .ok a
  | .error e => .error (errS e)

/-! JSON <-> model values -/

def jVal : Val → Json
  | .int i => jInt i
  | .rat q => jRat q
  | .str s => jObj [("s", Json.str s)]
  | .nzero => Json.str "-0"

def pVal (j : Json) : Except String Val :=
  match j with
  | .str s => if s == "-0" then pure .nzero else do return .rat (← parseRat s)
  | .num _ => do return .int (← j.getInt?)
  | _ => do
    let s ← (← j.getObjVal? "s").getStr?
    return .str s

def jConfig (c : Config) : Json := jArr (c.map fun (k, v) => jArr [Json.str k, jVal v])

def pConfig (j : Json) : Except String Config := do
  let xs ← j.getArr?
  xs.toList.mapM fun kv => do
    let a ← kv.getArr?
    match a.toList with
    | [k, v] => return (← k.getStr?, ← pVal v)
    | _ => throw "config entry"

def jOptConfig : Option Config → Json
  | none => Json.null
  | some c => jConfig c

def pValList (j : Json) (k : String) : Except String (List Val) := do (← getArr j k).mapM pVal

def pDom (j : Json) : Except String Dom := do
  let k ← getStr j "k"
  let log := getBoolD j "log" false
  let geo ← (if hasKey j "geo" then getRat j "geo" else pure 0)
  if k == "cat" then return .cat (← pValList j "vals") false
  else if k == "ordinal" then return .cat (← pValList j "vals") true
  else if k == "nn" then return .nn (← pValList j "vals") log geo
  else if k == "int" then return .int (← getInt j "lo") (← getInt j "hi") log geo
  else if k == "float" then return .float (← getRat j "lo") (← getRat j "hi") log geo
  else if k == "fin" then
    let raw ← (if hasKey j "raw" then getRatList j "raw" else pure [])
    return .fin (← pValList j "vals") (← getRat j "lo") (← getRat j "hi") log geo raw
  else throw s!"bad domain kind {k}"

def pSpace (j : Json) : Except String Space := do
  let xs ← j.getArr?
  xs.toList.mapM fun kv => do
    let a ← kv.getArr?
    match a.toList with
    | [k, e] =>
      if hasKey e "const" then return (← k.getStr?, Entry.const (← pVal (← e.getObjVal? "const")))
      else return (← k.getStr?, Entry.dom (← pDom (← e.getObjVal? "dom")))
    | _ => throw "space entry"

def pHints (j : Json) (k : String) : Except String (List (String × Nat)) := do
  if !hasKey j k then return []
  (← getArr j k).mapM fun kv => do
    let a ← kv.getArr?
    match a.toList with
    | [key, i] => return (← key.getStr?, ← i.getNat?)
    | _ => throw "hint entry"

def pConfigs (j : Json) (k : String) : Except String (List Config) := do (← getArr j k).mapM pConfig

def sortStrings (xs : List String) : List String := sortKeys xs

def insertNat (x : Nat) : List Nat → List Nat
  | [] => [x]
  | y :: ys => if x ≤ y then x :: y :: ys else y :: insertNat x ys

def sortNats (xs : List Nat) : List Nat := xs.foldr insertNat []

/-! tagged tree for the encoded tuning-job state -/

partial def pJ (j : Json) : Except String J := do
  let t ← getStr j "t"
  if t == "null" then return .null
  else if t == "int" then return .int (← getInt j "v")
  else if t == "num" then return .num (← getRat j "v")
  else if t == "str" then return .str (← getStr j "v")
  else if t == "nzero" then return .nzero
  else if t == "arr" then return .arr (← (← getArr j "v").mapM pJ)
  else if t == "obj" then
    let kv ← (← getArr j "v").mapM fun e => do
      let a ← e.getArr?
      match a.toList with
      | [k, v] => return (← k.getStr?, ← pJ v)
      | _ => throw "obj entry"
    return .obj kv
  else throw s!"bad tag {t}"

partial def jJ : J → Json
  | .null => jObj [("t", Json.str "null")]
  | .int i => jObj [("t", Json.str "int"), ("v", jInt i)]
  | .num x => jObj [("t", Json.str "num"), ("v", jRat x)]
  | .str s => jObj [("t", Json.str "str"), ("v", Json.str s)]
  | .nzero => jObj [("t", Json.str "nzero")]
  | .arr xs => jObj [("t", Json.str "arr"), ("v", jArr (xs.map jJ))]
  | .obj kv => jObj [("t", Json.str "obj"), ("v", jArr (kv.map fun (k, v) => jArr [Json.str k, jJ v]))]

/-! driver state -/

inductive Kind | random | grid | pbt | stateless | restricted

structure DState where
  kind : Kind
  sched : Bool
  space : Space
  rimm : RImm
  rst : RState
  gimm : GImm
  gst : GState
  pbt : PbtConst
  xw : World        -- random searcher with `restrict_configurations` (kind `restricted`)

def mkOf (sp : Space) : MK := matchStr sp

def jRState (s : RState) : List (String × Json) :=
  [("n_p2e", jNat s.p2e.length), ("excl", jArr ((sortStrings s.excl).map Json.str)),
   ("cfg_for", jArr (s.cfgFor.map fun (t, c) => jArr [jNat t, jConfig c]))]

/-- restricted random searcher: base state, remaining list (`rc_kind` tells `None` from a
list), `_rc_returned_pos`, and the content of the caller's list object -/
def jXWorld (w : World) : List (String × Json) :=
  jRState w.s.base ++
  [("rc_kind", Json.str (match w.s.rc with | none => "none" | some _ => "list")),
   ("rc", jArr ((w.s.rc.getD []).map jConfig)),
   ("rc_pos", jArr ((sortNats w.s.pos).map jNat)),
   ("caller", jArr (w.caller.map jConfig))]

def jGState (s : GState) : List (String × Json) :=
  [("n_p2e", jNat s.p2e.length), ("next_index", jNat s.next),
   ("all_init", jArr ((sortStrings s.allInit).map Json.str))]

def sInit (j : Json) : Except String (DState × Json) := do
  let kind ← getStr j "kind"
  let space ← pSpace (← j.getObjVal? "space")
  let hints ← pHints j "hints"
  let p2e ← (match j.getObjVal? "p2e" with
    | .ok .null => pure none
    | .error _ => pure none
    | .ok _ => do return some (← pConfigs j "p2e"))
  let allowDup := getBoolD j "allow_duplicates" false
  let size := spaceSize space
  let rimm : RImm := { mkf := mkOf space, allowDup := allowDup, maxRetries := getNatD j "max_retries" 100,
                       size := size, debugLog := getBoolD j "debug_log" false }
  let gimm0 : GImm := { mkf := mkOf space, hpKeys := [], allowDup := allowDup }
  let g0 : GState := { p2e := [], next := 0, allInit := [], combos := [], rng := 0 }
  let pbt : PbtConst := { up := (← if hasKey j "up" then getRat j "up" else pure 0),
                          down := (← if hasKey j "down" then getRat j "down" else pure 0),
                          resample := (← if hasKey j "resample" then getRat j "resample" else pure 0) }
  let base : DState := { kind := .stateless, sched := getBoolD j "sched" false, space := space, rimm := rimm,
                         rst := RState.init [], gimm := gimm0, gst := g0, pbt := pbt,
                         xw := { s := { base := RState.init [], rc := none, pos := [] }, caller := [], shared := false } }
  let sizeJ := match size with | some n => jNat n | none => Json.null
  let wfJ := Json.bool (Space.wfb space)
  if kind == "stateless" || kind == "pbt" then
    let k := if kind == "pbt" then Kind.pbt else Kind.stateless
    return ({ base with kind := k }, jOut (jObj [("size", sizeJ), ("wf", wfJ), ("hp_keys", jArr ((sortedHpKeys space).map Json.str))]))
  let init ← liftE (imputePoints space hints p2e)
  let restrict ← (match j.getObjVal? "restrict" with
    | .ok .null => pure none
    | .error _ => pure none
    | .ok _ => do return some (← pConfigs j "restrict"))
  if kind == "random" && restrict.isSome then
    let w ← liftE (construct rimm init restrict)
    return ({ base with kind := .restricted, xw := w },
            jOut (jObj ([("init", jArr (w.s.base.p2e.map jConfig)), ("size", sizeJ), ("wf", wfJ)] ++ jXWorld w)))
  else if kind == "random" then
    return ({ base with kind := .random, rst := RState.init init },
            jOut (jObj [("init", jArr (init.map jConfig)), ("size", sizeJ), ("wf", wfJ)]))
  else if kind == "grid" then
    let numPts ← (if hasKey j "num_pts" then do
      (← getArr j "num_pts").mapM fun kv => do
        let a ← kv.getArr?
        match a.toList with
        | [k, vs] => do
          let vl ← (← vs.getArr?).toList.mapM pVal
          return (← k.getStr?, vl)
        | _ => throw "num_pts entry"
      else pure [])
    let perm ← (match j.getObjVal? "perm" with
      | .ok .null => pure none
      | .error _ => pure none
      | .ok _ => do return some (← getNatList j "perm"))
    let (keys, gs) ← liftE (GState.create space numPts perm init)
    return ({ base with kind := .grid, gimm := { gimm0 with hpKeys := keys }, gst := gs },
            jOut (jObj [("init", jArr (init.map jConfig)), ("size", sizeJ), ("wf", wfJ), ("hp_keys", jArr (keys.map Json.str)),
                        ("combos", jArr (gs.combos.map fun c => jArr (c.map jVal)))]))
  else throw s!"bad kind {kind}"

def drawFn (draws : List Config) : Nat → Config := fun i => draws.getD i []

/-- searcher-level `get_config` for the current kind; returns new state, result, draws consumed
(`idraws`: recorded values of `random_state.randint(low=0, high=len(list))`, restricted path) -/
def dGet (s : DState) (draws : List Config) (idraws : List Nat := []) : Except String (DState × Option Config × Nat) :=
  match s.kind with
  | .restricted => do
    -- a missing draw reads as an out-of-range position: the model answers `tape`
    let (x, o) ← liftE (s.xw.s.getConfig s.rimm (drawFn draws) (fun i => idraws.getD i (s.xw.s.rc.getD []).length))
    let n := x.base.rng - s.xw.s.base.rng
    if n > draws.length + idraws.length then throw "tape"
    return ({ s with xw := s.xw.sync x }, o, n)
  | .random => do
    let (r, o) ← liftE (s.rst.getConfig s.rimm (drawFn draws))
    let n := r.rng - s.rst.rng
    if n > draws.length then throw "tape"
    return ({ s with rst := r }, o, n)
  | .grid => do
    let (g, o) ← liftE (s.gst.getConfig s.gimm)
    return ({ s with gst := g }, o, 0)
  | _ => throw "bad-op get_config"

def jStateOf (s : DState) : List (String × Json) :=
  match s.kind with
  | .random => jRState s.rst
  | .grid => jGState s.gst
  | .restricted => jXWorld s.xw
  | _ => []

def pOptConfig (j : Json) (k : String) : Except String (Option Config) :=
  match j.getObjVal? k with
  | .ok .null => pure none
  | .error _ => pure none
  | .ok v => do return some (← pConfig v)

def pDraw (j : Json) : Except String Draw := do
  let a ← j.getArr?
  match a.toList with
  | [t, v] =>
    let ts ← t.getStr?
    if ts == "u" then return .u (← getRatOf v) else return .v (← pVal v)
  | _ => throw "draw entry"

def sStep (s : DState) (j : Json) : Except String (DState × Json) := do
  let op ← getStr j "op"
  if op == "get_config" then
    let draws ← pConfigs j "draws"
    let idraws ← (if hasKey j "idraws" then getNatList j "idraws" else pure [])
    let (s', o, n) ← dGet s draws idraws
    return (s', jOut (jObj ([("config", jOptConfig o), ("consumed", jNat n)] ++ jStateOf s')))
  else if op == "suggest" then
    let draws ← pConfigs j "draws"
    let tid ← getNat j "trial_id"
    let idraws ← (if hasKey j "idraws" then getNatList j "idraws" else pure [])
    let (s1, o, n) ← dGet s draws idraws
    match o with
    | none => return (s1, jOut (jObj ([("config", Json.null), ("consumed", jNat n)] ++ jStateOf s1)))
    | some c =>
      let cc ← liftE (castConfigValues c s.space)
      let cc2 ← (match j.getObjVal? "override" with
        | .ok ov => do
          let a ← ov.getArr?
          match a.toList with
          | [k, v] => do return cset (← k.getStr?) (← pVal v) cc
          | _ => throw "override"
        | .error _ => pure cc)
      -- `_on_config_suggest`: register_pending(trial_id, config); the dict object stored by the
      -- searcher is the one the scheduler then extends with `max_resource_attr` (aliasing)
      let s2 := match s1.kind with
        | .random => { s1 with rst := s1.rst.registerPending s1.rimm tid (some cc2) }
        | .restricted => { s1 with xw := s1.xw.sync (s1.xw.s.registerPending s1.rimm tid (some cc2)) }
        | _ => s1
      let full ← liftE (postprocess s.space cc2)
      return (s2, jOut (jObj ([("config", jConfig full), ("consumed", jNat n)] ++ jStateOf s2)))
  else if op == "register_pending" then
    let tid ← getNat j "trial"
    let c ← pOptConfig j "config"
    match s.kind with
    | .random =>
      let s' := { s with rst := s.rst.registerPending s.rimm tid c }
      return (s', jOut (jObj (jStateOf s')))
    | .restricted =>
      let s' := { s with xw := s.xw.sync (s.xw.s.registerPending s.rimm tid c) }
      return (s', jOut (jObj (jStateOf s')))
    | _ => return (s, jOut (jObj (jStateOf s)))
  else if op == "evaluation_failed" then
    let tid ← getNat j "trial"
    match s.kind with
    | .random =>
      let r ← liftE (s.rst.evaluationFailed s.rimm tid)
      let s' := { s with rst := r }
      return (s', jOut (jObj (jStateOf s')))
    | .restricted =>
      let r ← liftE (s.xw.s.evaluationFailed s.rimm tid)
      let s' := { s with xw := s.xw.sync r }
      return (s', jOut (jObj (jStateOf s')))
    | _ => return (s, jOut (jObj (jStateOf s)))
  else if op == "clone" then
    let keys := sortedHpKeys s.space
    match s.kind with
    | .random =>
      let order ← (if hasKey j "order" then do (← getArr j "order").mapM (·.getStr?) else pure s.rst.excl)
      let snap := s.rst.getState s.rimm keys order
      let r ← liftE (RState.clone s.rimm snap)
      let s' := { s with rst := r }
      return (s', jOut (jObj ([("p2e", jArr (r.p2e.map jConfig))] ++ jStateOf s')))
    | .restricted =>
      let order ← (if hasKey j "order" then do (← getArr j "order").mapM (·.getStr?) else pure s.xw.s.base.excl)
      let snap := s.xw.s.getState s.rimm keys order
      let r ← liftE (XState.clone s.rimm snap)
      -- the restored searcher holds the (unpickled) list of the snapshot: a new object
      let s' := { s with xw := { s := r, caller := s.xw.caller, shared := false } }
      return (s', jOut (jObj ([("p2e", jArr (r.base.p2e.map jConfig))] ++ jStateOf s')))
    | .grid =>
      let order ← (if hasKey j "order" then do (← getArr j "order").mapM (·.getStr?) else pure s.gst.allInit)
      let snap := s.gst.getState keys order
      -- the fresh object's own grid (default-seed shuffle) is irrelevant after the fix
      let fresh : GState := { s.gst with combos := s.gst.combos.reverse }
      let g := GState.clone fresh snap
      let s' := { s with gst := g }
      return (s', jOut (jObj ([("p2e", jArr (g.p2e.map jConfig)),
                               ("combos", jArr (g.combos.map fun c => jArr (c.map jVal)))] ++ jStateOf s')))
    | _ => throw "bad-op clone"
  else if op == "explore" then
    let cfg ← pConfig (← j.getObjVal? "config")
    let hints ← pHints j "hints"
    let tape ← (← getArr j "tape").mapM pDraw
    let r ← liftE (explore s.pbt s.space cfg hints tape)
    let full ← liftE (schedulerConfig s.space r)
    return (s, jOut (jObj [("explored", jConfig r), ("config", jConfig full)]))
  else if op == "bo_pick" then
    let excl ← (← getArr j "excl").mapM (·.getStr?)
    let num ← getNat j "num"
    let pairs ← (← getArr j "pairs").mapM fun p => do
      let a ← p.getArr?
      match a.toList with
      | [o, q] => return (← pConfig o, ← pConfig q)
      | _ => throw "pair"
    let r ← liftE (pickFromLocallyOptimized (mkOf s.space) excl num pairs)
    return (s, jOut (jObj [("result", jArr (r.map jConfig))]))
  else if op == "match" then
    let cfg ← pConfig (← j.getObjVal? "config")
    let m ← liftE (matchStr s.space cfg)
    return (s, jOut (jObj [("ms", Json.str m)]))
  else if op == "postprocess" then
    let cfg ← pConfig (← j.getObjVal? "config")
    let full ← liftE (schedulerConfig s.space cfg)
    return (s, jOut (jObj [("config", jConfig full)]))
  else if op == "codec" then
    let enc ← pJ (← j.getObjVal? "enc")
    let st ← liftE (decodeState enc)
    let ms ← liftE (st.allConfigs.mapM (mkOf s.space))
    return (s, jOut (jObj [("reenc", jJ (encodeState st)),
                           ("pending", jArr (st.pending.map fun p => jArr [Json.str p.tid, jOptNat p.resource])),
                           ("failed", jArr (st.failed.map Json.str)),
                           ("observed", jArr (st.evals.map fun e => Json.str e.tid)),
                           ("all_ms", jArr ((sortStrings ms.eraseDups).map Json.str))]))
  else throw s!"bad-op {op}"

def main : IO Unit := (Machine.mk sInit sStep).main
