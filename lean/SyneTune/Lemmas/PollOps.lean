import SyneTune.Lemmas.PollInv
/-
Every operation of the generic poll model preserves the invariant `PInv`.
-/
namespace SyneTune.PollL
open SyneTune SyneTune.Backend

/-- all trials satisfy the per-trial invariant -/
def PInv (b : Poll) : Prop := ∀ x ∈ b.trials, TInv b.clock x

theorem PInv.get {b : Poll} (h : PInv b) {t : Nat} {x : PTrial} (hx : b.trials[t]? = some x) : TInv b.clock x :=
  h x (List.mem_of_getElem? hx)

theorem PInv.upd {b : Poll} (h : PInv b) (t : Nat) (f : PTrial → PTrial)
    (hf : ∀ x, b.trials[t]? = some x → TInv b.clock (f x)) : PInv (b.upd t f) := by
  intro y hy
  rcases mem_modifyAt f t b.trials y hy with hy | ⟨x, hx, rfl⟩
  · exact h y hy
  · exact hf x hx

theorem upd_get (b : Poll) (t u : Nat) (f : PTrial → PTrial) :
    (b.upd t f).trials[u]? = if u = t then (b.trials[u]?).map f else b.trials[u]? :=
  getElem?_modifyAt f t u b.trials

/-! ### fetch -/

theorem status_fetchOne (x : PTrial) : x.fetchOne.1.status = x.status := by
  by_cases hc : x.out.length > 0 ∧ ¬ x.status.hidden = true
  · rw [fetchOne_pos x hc]; simp [PTrial.status]
  · rw [fetchOne_neg x hc]; simp [PTrial.status]

theorem fetchOne_idem (x : PTrial) : x.fetchOne.1.fetchOne = (x.fetchOne.1, []) := by
  have hst := status_fetchOne x
  by_cases hc : x.out.length > 0 ∧ ¬ x.status.hidden = true
  · have hc' : x.fetchOne.1.out.length > 0 ∧ ¬ x.fetchOne.1.status.hidden = true := by
      rw [hst]; rw [fetchOne_pos x hc]; exact hc
    rw [fetchOne_pos _ hc']
    rw [hst]
    rw [fetchOne_pos x hc]
    have h0 : List.drop (x.cursor + (List.drop x.cursor x.out).length) x.out = [] := by
      rw [List.drop_eq_nil_iff, List.length_drop]; omega
    simp only [h0, List.length_nil, Nat.add_zero]
  · have hc' : ¬ (x.fetchOne.1.out.length > 0 ∧ ¬ x.fetchOne.1.status.hidden = true) := by
      rw [hst]; rw [fetchOne_neg x hc]; exact hc
    rw [fetchOne_neg _ hc', hst]
    rw [fetchOne_neg x hc]

theorem fetchGo_spec (ids : List Nat) : ∀ (b b' : Poll) (raw : List (Nat × Rep)),
    fetchGo b ids = .ok (b', raw) →
    (∀ u, b'.trials[u]? = (b.trials[u]?).map (fun x => if u ∈ ids then x.fetchOne.1 else x)) ∧
    (∀ u, raw.filter (fun e => e.1 == u) =
        match b.trials[u]? with
        | some x => if u ∈ ids then x.fetchOne.2.map (fun r => (u, r)) else []
        | none => []) ∧
    b'.clock = b.clock ∧ b'.loop = b.loop ∧ b'.ckpt = b.ckpt ∧ b'.deleteCkpt = b.deleteCkpt ∧
    b'.delayedStop = b.delayedStop ∧ b'.busyCand = b.busyCand := by
  induction ids with
  | nil =>
    intro b b' raw h
    simp only [fetchGo, Except.ok.injEq, Prod.mk.injEq] at h
    obtain ⟨rfl, rfl⟩ := h
    refine ⟨fun u => by simp, fun u => by cases b.trials[u]? <;> simp, rfl, rfl, rfl, rfl, rfl, rfl⟩
  | cons t rest ih =>
    intro b b' raw h
    unfold fetchGo at h
    cases hx : b.trials[t]? with
    | none => simp [hx] at h
    | some x =>
      simp only [hx] at h
      cases hgo : fetchGo (b.upd t fun y => y.fetchOne.1) rest with
      | error e => simp [hgo] at h
      | ok res =>
        obtain ⟨b1, more⟩ := res
        simp only [hgo, Except.ok.injEq, Prod.mk.injEq] at h
        obtain ⟨rfl, rfl⟩ := h
        obtain ⟨h1, h2, h3⟩ := ih _ _ _ hgo
        refine ⟨?_, ?_, ?_⟩
        · intro u
          rw [h1 u, upd_get]
          by_cases hu : u = t
          · subst hu
            simp only [if_true, hx, Option.map_some, List.mem_cons, true_or]
            by_cases hr : u ∈ rest
            · simp [hr, fetchOne_idem]
            · simp [hr]
          · simp only [hu, if_false, List.mem_cons, false_or]
        · intro u
          rw [List.filter_append, h2 u, upd_get]
          by_cases hu : u = t
          · subst hu
            simp only [if_true, hx, Option.map_some, List.mem_cons, true_or]
            have hf : (x.fetchOne.2.map fun r => (u, r)).filter (fun e => e.1 == u) = x.fetchOne.2.map fun r => (u, r) := by
              rw [List.filter_eq_self]; intro a ha; simp at ha; obtain ⟨_, _, rfl⟩ := ha; simp
            rw [hf]
            by_cases hr : u ∈ rest
            · simp [hr, fetchOne_idem]
            · simp [hr]
          · simp only [hu, if_false, List.mem_cons, false_or]
            have hf : (x.fetchOne.2.map fun r => (t, r)).filter (fun e => e.1 == u) = [] := by
              rw [List.filter_eq_nil_iff]; intro a ha; simp at ha; obtain ⟨_, _, rfl⟩ := ha
              simp; exact fun h => hu h.symm
            rw [hf]; simp
        · simpa [Poll.upd] using h3

theorem recordFrom_get (batch : List (Nat × Rep)) (l : List PTrial) (k i : Nat) :
    (recordFrom batch k l)[i]? = (l[i]?).map (fun x => x.record (batchOf batch (k + i))) := by
  induction l generalizing k i with
  | nil => simp [recordFrom]
  | cons x xs ih =>
    cases i with
    | zero => simp [recordFrom]
    | succ i => simp only [recordFrom, List.getElem?_cons_succ, ih]; congr 2; funext y; congr 2; omega

theorem recordFrom_length (batch : List (Nat × Rep)) (l : List PTrial) (k : Nat) :
    (recordFrom batch k l).length = l.length := by
  induction l generalizing k with
  | nil => rfl
  | cons x xs ih => simp [recordFrom, ih]

/-- the sorted batch, restricted to one trial, is what `fetchOne` returned for it -/
theorem batchOf_sorted (raw : List (Nat × Rep)) (u : Nat) (new : List Rep)
    (hraw : raw.filter (fun e => e.1 == u) = new.map (fun r => (u, r)))
    (hs : new.Pairwise (fun a b => a.stamp < b.stamp)) :
    batchOf (sortByStamp raw) u = new := by
  unfold batchOf
  rw [filter_sortByStamp, hraw, sortByStamp_of_sorted]
  · simp [List.map_map, Function.comp_def]
  · rw [List.pairwise_map]; exact hs

theorem fetchOne_snd_sorted {c : Nat} {x : PTrial} (h : TInv c x) :
    x.fetchOne.2.Pairwise (fun a b => a.stamp < b.stamp) := by
  by_cases hc : x.out.length > 0 ∧ ¬ x.status.hidden = true
  · rw [fetchOne_pos x hc]; exact List.Pairwise.sublist (List.drop_sublist _ _) h.stamps
  · rw [fetchOne_neg x hc]; simp

/-- what `fetch_status_results` does to each trial -/
theorem fetch_spec {b b' : Poll} {ids : List Nat} {sts : List (Nat × St)} {batch : List (Nat × Rep)}
    (hinv : PInv b) (h : b.fetch ids = .ok (b', sts, batch)) :
    (∀ u x, b.trials[u]? = some x →
        b'.trials[u]? = some (if u ∈ ids then x.fetchOne.1.record x.fetchOne.2 else x) ∧
        batchOf batch u = if u ∈ ids then x.fetchOne.2 else []) ∧
    (∀ u : Nat, b.trials[u]? = none → b'.trials[u]? = none) ∧
    b'.clock = b.clock ∧ b'.loop = b.loop ∧ b'.ckpt = b.ckpt ∧ b'.deleteCkpt = b.deleteCkpt ∧
    b'.delayedStop = b.delayedStop ∧ b'.busyCand = b.busyCand ∧
    sts = ids.map (fun t => (t, (b'.trials[t]?.map (·.dictSt)).getD .inProgress)) := by
  unfold Poll.fetch at h
  cases hgo : fetchGo b ids with
  | error e => simp [hgo] at h
  | ok res =>
    obtain ⟨b1, raw⟩ := res
    simp only [hgo, Except.ok.injEq, Prod.mk.injEq] at h
    obtain ⟨rfl, rfl, rfl⟩ := h
    obtain ⟨h1, h2, h3⟩ := fetchGo_spec ids b b1 raw hgo
    have hb : ∀ u x, b.trials[u]? = some x → batchOf (sortByStamp raw) u = if u ∈ ids then x.fetchOne.2 else [] := by
      intro u x hx
      have hr := h2 u
      rw [hx] at hr
      by_cases hu : u ∈ ids
      · simp only [hu, if_true] at hr ⊢
        exact batchOf_sorted raw u _ hr (fetchOne_snd_sorted (hinv.get hx))
      · simp only [hu, if_false] at hr ⊢
        exact batchOf_sorted raw u [] (by simpa using hr) (by simp)
    refine ⟨?_, ?_, h3.1, h3.2.1, h3.2.2.1, h3.2.2.2.1, h3.2.2.2.2.1, h3.2.2.2.2.2, rfl⟩
    · intro u x hx
      refine ⟨?_, hb u x hx⟩
      simp only [recordBatch, recordFrom_get, Nat.zero_add, h1 u, hx, Option.map_some]
      rw [hb u x hx]
      by_cases hu : u ∈ ids
      · simp [hu]
      · simp [hu, record_nil]
    · intro u hx
      simp [recordBatch, recordFrom_get, h1 u, hx]

theorem PInv.fetch {b b' : Poll} {ids : List Nat} {sts : List (Nat × St)} {batch : List (Nat × Rep)}
    (hinv : PInv b) (h : b.fetch ids = .ok (b', sts, batch)) : PInv b' := by
  obtain ⟨h1, h2, hc, _⟩ := fetch_spec hinv h
  intro y hy
  obtain ⟨u, hu⟩ := List.getElem?_of_mem hy
  cases hx : b.trials[u]? with
  | none => rw [h2 u hx] at hu; cases hu
  | some x =>
    rw [(h1 u x hx).1] at hu
    cases hu
    rw [hc]
    split
    · exact (hinv.get hx).fetchOne
    · exact hinv.get hx


/-! ### the other operations -/

theorem PInv.emit {b : Poll} (h : PInv b) (t n : Nat) : PInv (b.emit t n) := by
  intro y hy
  simp only [Poll.emit, Poll.upd] at hy ⊢
  rcases mem_modifyAt _ t b.trials y hy with hy | ⟨x, hx, rfl⟩
  · exact (h y hy).mono (by omega)
  · exact (h.get hx).emit n

theorem PInv.exit {b : Poll} (h : PInv b) (t : Nat) (ok : Bool) : PInv (b.exit t ok) :=
  h.upd t _ (fun _ hx => (h.get hx).exit ok)

theorem PInv.wckpt {b : Poll} (h : PInv b) (t : Nat) : PInv (b.wckpt t) := by
  unfold Poll.wckpt; split <;> exact h

theorem PInv.start {b b' : Poll} {c : Option Nat} {tid : Nat} (h : PInv b) (hs : b.start c = .ok (b', tid)) : PInv b' := by
  have key : ∀ ck, PInv { b with trials := b.trials ++ [{}], ckpt := ck, busyCand := insertNat b.trials.length b.busyCand } := by
    intro ck y hy
    simp only [List.mem_append, List.mem_singleton] at hy
    rcases hy with hy | rfl
    · exact h y hy
    · exact TInv.init _
  unfold Poll.start at hs
  cases c with
  | none =>
    simp only [Except.ok.injEq, Prod.mk.injEq] at hs
    obtain ⟨rfl, _⟩ := hs
    exact key _
  | some src =>
    simp only at hs
    by_cases hm : src ∈ b.ckpt
    · simp only [hm, if_true, Except.ok.injEq, Prod.mk.injEq] at hs
      obtain ⟨rfl, _⟩ := hs
      exact key _
    · simp [hm] at hs

theorem PInv.resume {b b' : Poll} {t : Nat} (h : PInv b) (hs : b.resume t = .ok b') : PInv b' := by
  unfold Poll.resume at hs
  split at hs
  · cases hs
  · split at hs
    · cases hs
    · cases hs
      exact h.upd t _ (fun _ hx => (h.get hx).resume)

theorem PInv.pause {b b' : Poll} {t : Nat} (h : PInv b) (hs : b.pause t = .ok b') : PInv b' := by
  unfold Poll.pause at hs
  split at hs
  · cases hs; exact h.upd t _ (fun _ hx => (h.get hx).pause)
  · cases hs

theorem PInv.stop {b b' : Poll} {t : Nat} (h : PInv b) (hs : b.stop t = .ok b') : PInv b' := by
  unfold Poll.stop at hs
  split at hs
  · cases hs
  · cases hs; exact h.upd t _ (fun _ hx => (h.get hx).stop _)

theorem PInv.stopAllGo {l : List (Nat × St)} : ∀ {b b' : Poll}, PInv b → stopAllGo b l = .ok b' → PInv b' := by
  induction l with
  | nil => intro b b' h hs; cases hs; exact h
  | cons p rest ih =>
    intro b b' h hs
    obtain ⟨t, st⟩ := p
    unfold Backend.stopAllGo at hs
    split at hs
    · cases hst : b.stop t with
      | error e => simp [hst] at hs
      | ok b1 => simp only [hst] at hs; exact ih (h.stop hst) hs
    · exact ih h hs

theorem PInv.stopAll {b b' : Poll} (h : PInv b) (hs : b.stopAll = .ok b') : PInv b' := by
  unfold Poll.stopAll at hs
  cases hg : Backend.stopAllGo b b.statuses with
  | error e => simp [hg] at hs
  | ok b1 =>
    simp only [hg, Except.ok.injEq] at hs
    have := PInv.stopAllGo h hg
    subst hs
    split <;> exact this

theorem PInv.busy {b : Poll} (h : PInv b) : PInv b.busy.1 := h

/-! ### the batch filter of the tuning loop -/

theorem alookup_aset_self {β} (k : Nat) (v : β) (l : List (Nat × β)) : alookup k (aset k v l) = some v := by
  induction l with
  | nil => simp [aset, alookup]
  | cons p ps ih =>
    obtain ⟨k', v'⟩ := p
    by_cases hk : k = k'
    · simp [aset, alookup, hk]
    · simp [aset, alookup, hk, ih]

theorem alookup_aset_ne {β} (k u : Nat) (v : β) (l : List (Nat × β)) (h : u ≠ k) :
    alookup u (aset k v l) = alookup u l := by
  induction l with
  | nil => simp [aset, alookup, h]
  | cons p ps ih =>
    obtain ⟨k', v'⟩ := p
    by_cases hk : k = k'
    · subst hk; simp [aset, alookup, h]
    · by_cases hu : u = k'
      · simp [aset, alookup, hk, hu]
      · simp [aset, alookup, hk, hu, ih]

/-- loop invariant of `loopGo` -/
structure LoopOK (b : Poll) (statusOf : Nat → St) (done : List (Nat × St)) (rest : List (Nat × Rep)) : Prop where
  inv : PInv b
  skip : ∀ t x, b.trials[t]? = some x → x.decided = true → ∀ r, (t, r) ∈ rest → (alookup t done).isSome = true
  compl : ∀ t x, b.trials[t]? = some x → statusOf t = .completed → x.proc ≠ .running ∧ x.cursor = x.out.length

/-- the state change of one trial caused by a decision: the command, then the ghost mark -/
def cmdT (delayed : Bool) (polled : St) (d : Decision) (x : PTrial) : PTrial :=
  match d with
  | .continue => x
  | .stop => if polled ≠ .completed then PTrial.stop delayed x else x
  | .pause => x.pause

theorem command_spec {b b' : Poll} {t : Nat} {polled : St} {d : Decision}
    (h : b.command t polled d = .ok b') :
    (∀ u, b'.trials[u]? = if u = t then (b.trials[u]?).map (fun x => cmdT b.delayedStop polled d x) else b.trials[u]?) ∧
    b'.clock = b.clock ∧ b'.loop = b.loop ∧ b'.delayedStop = b.delayedStop := by
  unfold Poll.command at h
  cases d with
  | «continue» =>
    cases h
    refine ⟨fun u => ?_, rfl, rfl, rfl⟩
    split <;> simp [cmdT]
  | stop =>
    simp only at h
    by_cases hp : polled ≠ .completed
    · rw [if_pos hp] at h
      unfold Poll.stop at h
      split at h
      · cases h
      · cases h
        refine ⟨fun u => ?_, rfl, rfl, rfl⟩
        simp only [upd_get, cmdT, if_pos hp]
    · rw [if_neg hp] at h
      cases h
      refine ⟨fun u => ?_, rfl, rfl, rfl⟩
      split <;> simp [cmdT, hp]
  | pause =>
    simp only at h
    unfold Poll.pause at h
    split at h
    · cases h
      refine ⟨fun u => ?_, rfl, rfl, rfl⟩
      simp only [upd_get, cmdT]
    · cases h

theorem TInv.cmdT {c : Nat} {x : PTrial} (h : TInv c x) (delayed : Bool) (polled : St) (d : Decision) :
    TInv c (cmdT delayed polled d x) := by
  unfold PollL.cmdT
  cases d with
  | «continue» => exact h
  | stop => simp only; split; exact h.stop _; exact h
  | pause => exact h.pause

/-- after the command of a STOP / PAUSE decision the trial is hidden, or it had completed
and everything it wrote has been seen -/
theorem cmdT_quiet (delayed : Bool) (polled : St) (d : Decision) (x : PTrial) (hd : d ≠ .continue)
    (hc : polled = .completed → x.proc ≠ .running ∧ x.cursor = x.out.length) :
    (cmdT delayed polled d x).status.hidden = true ∨
      ((cmdT delayed polled d x).proc ≠ .running ∧ (cmdT delayed polled d x).cursor = (cmdT delayed polled d x).out.length) := by
  unfold cmdT
  cases d with
  | «continue» => exact absurd rfl hd
  | stop =>
    simp only
    by_cases hp : polled ≠ .completed
    · rw [if_pos hp]; left; exact hidden_stop _ _
    · rw [if_neg hp]; right; exact hc (by simpa using hp)
  | pause => left; exact hidden_of_pauseFile _ rfl

theorem cmdT_keeps (delayed : Bool) (polled : St) (d : Decision) (x : PTrial) :
    (cmdT delayed polled d x).cursor = x.cursor ∧ (cmdT delayed polled d x).out = x.out ∧
    (cmdT delayed polled d x).decided = x.decided ∧
    (x.proc ≠ .running → (cmdT delayed polled d x).proc ≠ .running) := by
  unfold cmdT
  cases d with
  | «continue» => simp
  | stop =>
    simp only
    split
    · unfold PTrial.stop
      cases delayed with
      | false =>
        simp only [Bool.false_eq_true, if_false, PTrial.kill]
        split <;> simp_all
      | true => simp only [if_true]; split <;> simp_all
    · simp
  | pause =>
    simp only [PTrial.pause, PTrial.kill]
    split <;> simp_all

theorem emit_keeps (x : PTrial) (c n : Nat) :
    (x.emit c n).decided = x.decided ∧ (x.emit c n).cursor = x.cursor ∧
    (x.proc ≠ .running → x.emit c n = x) := by
  unfold PTrial.emit
  split <;> simp_all

/-- the loop body up to the command: bookkeeping, hand-over, worker output in the window -/
def stepB2 (b : Poll) (t : Nat) (r : Rep) (n : Nat) : Poll :=
  (Poll.upd { b with loop := { b.loop with lastSeen := insertNat t b.loop.lastSeen } } t (fun x => x.hand r)).emit t n

def stepDone (done : List (Nat × St)) (t : Nat) (polled : St) (d : Decision) : List (Nat × St) :=
  match d with
  | .continue => done
  | .stop => aset t (if polled = .completed then polled else St.stopped) done
  | .pause => aset t St.paused done

def stepB4 (b3 : Poll) (t : Nat) (d : Decision) : Poll :=
  if d = .stop then
    { (b3.upd t (PTrial.markDecided d)) with
      loop := { (b3.upd t (PTrial.markDecided d)).loop with
                schedStopped := insertNat t (b3.upd t (PTrial.markDecided d)).loop.schedStopped } }
  else b3.upd t (PTrial.markDecided d)

theorem loopGo_cons (b : Poll) (statusOf : Nat → St) (done : List (Nat × St)) (t : Nat) (r : Rep)
    (rest : List (Nat × Rep)) (script : List ScriptEntry) :
    loopGo b statusOf done ((t, r) :: rest) script =
      if (alookup t done).isSome then loopGo b statusOf done rest script else
      match (stepB2 b t r (script.headD ⟨.continue, 0⟩).emit).command t (statusOf t) (script.headD ⟨.continue, 0⟩).decision with
      | .error err => .error err
      | .ok b3 =>
        match loopGo (stepB4 b3 t (script.headD ⟨.continue, 0⟩).decision) statusOf
            (stepDone done t (statusOf t) (script.headD ⟨.continue, 0⟩).decision) rest script.tail with
        | .error err => .error err
        | .ok (b', d', hs) => .ok (b', d', ⟨t, r, (script.headD ⟨.continue, 0⟩).decision⟩ :: hs) := by
  rw [loopGo]
  rfl

theorem stepB4_trials (b3 : Poll) (t : Nat) (d : Decision) :
    (stepB4 b3 t d).trials = (b3.upd t (PTrial.markDecided d)).trials ∧
    (stepB4 b3 t d).clock = b3.clock ∧ (stepB4 b3 t d).delayedStop = b3.delayedStop := by
  unfold stepB4; split <;> exact ⟨rfl, rfl, rfl⟩

/-- effect of one loop body on the trials: only trial `t` changes -/
def bodyT (b : Poll) (_t : Nat) (r : Rep) (polled : St) (e : ScriptEntry) (x : PTrial) : PTrial :=
  PTrial.markDecided e.decision (cmdT b.delayedStop polled e.decision ((x.hand r).emit b.clock e.emit))

theorem stepB2_spec (b : Poll) (t : Nat) (r : Rep) (n : Nat) :
    (∀ u, (stepB2 b t r n).trials[u]? =
        if u = t then (b.trials[u]?).map (fun x => (x.hand r).emit b.clock n) else b.trials[u]?) ∧
    (stepB2 b t r n).clock = b.clock + n ∧ (stepB2 b t r n).delayedStop = b.delayedStop := by
  refine ⟨fun u => ?_, rfl, rfl⟩
  simp only [stepB2, Poll.emit, upd_get]
  by_cases hu : u = t
  · subst hu
    simp only [if_true, Option.map_map]
    cases b.trials[u]? <;> rfl
  · simp [hu]

theorem body_spec {b b3 : Poll} {t : Nat} {r : Rep} {polled : St} {e : ScriptEntry}
    (hcmd : (stepB2 b t r e.emit).command t polled e.decision = .ok b3) :
    (∀ u, (stepB4 b3 t e.decision).trials[u]? =
        if u = t then (b.trials[u]?).map (bodyT b t r polled e) else b.trials[u]?) ∧
    (stepB4 b3 t e.decision).clock = b.clock + e.emit ∧
    (stepB4 b3 t e.decision).delayedStop = b.delayedStop := by
  obtain ⟨hc1, hc2, _, hc4⟩ := command_spec hcmd
  obtain ⟨h21, h22, h23⟩ := stepB2_spec b t r e.emit
  obtain ⟨h41, h42, h43⟩ := stepB4_trials b3 t e.decision
  refine ⟨fun u => ?_, by rw [h42, hc2, h22], by rw [h43, hc4, h23]⟩
  rw [h41, upd_get, hc1 u, h21 u, h23]
  by_cases hu : u = t
  · subst hu
    simp only [if_true, Option.map_map]
    cases b.trials[u]? <;> rfl
  · simp only [hu, if_false]

theorem PInv.stepB2 {b : Poll} (h : PInv b) (t : Nat) (r : Rep) (n : Nat)
    (hnd : ∀ x, b.trials[t]? = some x → x.decided = false) : PInv (stepB2 b t r n) := by
  unfold PollL.stepB2
  apply PInv.emit
  exact PInv.upd (b := { b with loop := _ }) h t _ (fun x hx => (h.get hx).hand r (hnd x hx))

theorem loopGo_inv (rest : List (Nat × Rep)) : ∀ (b : Poll) (statusOf : Nat → St) (done : List (Nat × St))
    (script : List ScriptEntry) (b' : Poll) (done' : List (Nat × St)) (hs : List Handed),
    LoopOK b statusOf done rest → loopGo b statusOf done rest script = .ok (b', done', hs) → PInv b' := by
  induction rest with
  | nil =>
    intro b statusOf done script b' done' hs hok h
    simp only [loopGo, Except.ok.injEq, Prod.mk.injEq] at h
    obtain ⟨rfl, _, _⟩ := h
    exact hok.inv
  | cons p rest ih =>
    intro b statusOf done script b' done' hs hok h
    obtain ⟨t, r⟩ := p
    rw [loopGo_cons] at h
    by_cases hdone : (alookup t done).isSome = true
    · rw [if_pos hdone] at h
      refine ih b statusOf done script b' done' hs ?_ h
      exact ⟨hok.inv, fun u x hx hd r' hr' => hok.skip u x hx hd r' (List.mem_cons_of_mem _ hr'), hok.compl⟩
    · rw [if_neg hdone] at h
      generalize script.headD ⟨.continue, 0⟩ = e at h
      cases hcmd : (stepB2 b t r e.emit).command t (statusOf t) e.decision with
      | error err => rw [hcmd] at h; cases h
      | ok b3 =>
        rw [hcmd] at h
        simp only at h
        cases hgo : loopGo (stepB4 b3 t e.decision) statusOf (stepDone done t (statusOf t) e.decision) rest script.tail with
        | error err => rw [hgo] at h; cases h
        | ok res =>
          obtain ⟨bb, dd, hh⟩ := res
          rw [hgo] at h
          simp only [Except.ok.injEq, Prod.mk.injEq] at h
          obtain ⟨rfl, _, _⟩ := h
          refine ih _ statusOf _ script.tail bb dd hh ?_ hgo
          obtain ⟨hb1, hb2, hb3⟩ := body_spec hcmd
          -- trial `t` is not decided yet
          have hnd : ∀ x, b.trials[t]? = some x → x.decided = false := by
            intro x hx
            cases hdx : x.decided with
            | false => rfl
            | true => exact absurd (hok.skip t x hx hdx r (by simp)) hdone
          have hinv2 : PInv (stepB2 b t r e.emit) := hok.inv.stepB2 t r e.emit hnd
          have hquietT : ∀ x, b.trials[t]? = some x → e.decision ≠ .continue →
              let y := cmdT b.delayedStop (statusOf t) e.decision ((x.hand r).emit b.clock e.emit)
              y.status.hidden = true ∨ (y.proc ≠ .running ∧ y.cursor = y.out.length) := by
            intro x hx hd
            apply cmdT_quiet _ _ _ _ hd
            intro hpc
            have := hok.compl t x hx hpc
            have hk := (emit_keeps (x.hand r) b.clock e.emit).2.2 (by simpa [PTrial.hand] using this.1)
            rw [hk]; simpa [PTrial.hand] using this
          refine ⟨?_, ?_, ?_⟩
          · -- the invariant
            intro y hy
            obtain ⟨u, hu⟩ := List.getElem?_of_mem hy
            rw [hb1 u] at hu
            rw [hb2]
            by_cases hut : u = t
            · subst hut
              simp only [if_true] at hu
              cases hx : b.trials[u]? with
              | none => simp [hx] at hu
              | some x =>
                simp only [hx, Option.map_some, Option.some.injEq] at hu
                subst hu
                unfold bodyT
                apply TInv.markDecided
                · apply TInv.cmdT
                  exact ((hok.inv.get hx).hand r (hnd x hx)).emit e.emit
                · exact hquietT x hx
            · simp only [hut, if_false] at hu
              exact (hok.inv.get hu).mono (by omega)
          · intro u y hy hdy r' hr'
            rw [hb1 u] at hy
            by_cases hut : u = t
            · subst hut
              simp only [if_true] at hy
              cases hx : b.trials[u]? with
              | none => simp [hx] at hy
              | some x =>
                simp only [hx, Option.map_some, Option.some.injEq] at hy
                have hdx := hnd x hx
                have : e.decision ≠ .continue := by
                  intro hcnt
                  rw [← hy] at hdy
                  simp only [bodyT, PTrial.markDecided, hcnt, (cmdT_keeps _ _ _ _).2.2.1,
                    (emit_keeps _ _ _).1, PTrial.hand, hdx] at hdy
                  simp at hdy
                unfold stepDone
                cases hde : e.decision with
                | «continue» => exact absurd hde this
                | stop => simp [alookup_aset_self]
                | pause => simp [alookup_aset_self]
            · simp only [hut, if_false] at hy
              have := hok.skip u y hy hdy r' (List.mem_cons_of_mem _ hr')
              unfold stepDone
              cases e.decision with
              | «continue» => exact this
              | stop => simp only; rw [alookup_aset_ne _ _ _ _ hut]; exact this
              | pause => simp only; rw [alookup_aset_ne _ _ _ _ hut]; exact this
          · intro u y hy hcu
            rw [hb1 u] at hy
            by_cases hut : u = t
            · subst hut
              simp only [if_true] at hy
              cases hx : b.trials[u]? with
              | none => simp [hx] at hy
              | some x =>
                simp only [hx, Option.map_some, Option.some.injEq] at hy
                have hx0 := hok.compl u x hx hcu
                have hk := (emit_keeps (x.hand r) b.clock e.emit).2.2 (by simpa [PTrial.hand] using hx0.1)
                rw [← hy]
                simp only [bodyT, hk, PTrial.markDecided]
                have hkk := cmdT_keeps b.delayedStop (statusOf u) e.decision (x.hand r)
                refine ⟨hkk.2.2.2 (by simpa [PTrial.hand] using hx0.1), ?_⟩
                rw [hkk.1, hkk.2.1]; simpa [PTrial.hand] using hx0.2
            · simp only [hut, if_false] at hy
              exact hok.compl u y hy hcu


theorem alookup_map_key {β} (f : Nat → β) (ids : List Nat) (t : Nat) :
    alookup t (ids.map fun u => (u, f u)) = if t ∈ ids then some (f t) else none := by
  induction ids with
  | nil => simp [alookup]
  | cons u us ih =>
    simp only [List.map_cons, alookup, ih, List.mem_cons]
    by_cases h : t = u
    · subst h; simp
    · simp [h]

theorem record_keeps (x : PTrial) (l : List Rep) :
    (x.record l).decided = x.decided ∧ (x.record l).proc = x.proc ∧ (x.record l).cursor = x.cursor ∧
    (x.record l).out = x.out ∧ (x.record l).dictSt = x.dictSt := by
  simp [PTrial.record]

theorem status_record (x : PTrial) (l : List Rep) : (x.record l).status = x.status := rfl

theorem fetchOne_keeps (x : PTrial) :
    x.fetchOne.1.decided = x.decided ∧ x.fetchOne.1.proc = x.proc ∧ x.fetchOne.1.out = x.out ∧
    x.fetchOne.1.dictSt = x.status := by
  by_cases hc : x.out.length > 0 ∧ ¬ x.status.hidden = true
  · rw [fetchOne_pos x hc]; simp
  · rw [fetchOne_neg x hc]; simp

/-- a decided trial yields nothing at a poll -/
theorem fetchOne_decided {c : Nat} {x : PTrial} (h : TInv c x) (hd : x.decided = true) : x.fetchOne.2 = [] := by
  by_cases hc : x.out.length > 0 ∧ ¬ x.status.hidden = true
  · rw [fetchOne_pos x hc]
    rcases h.quiet hd with hq | hq
    · exact absurd hq hc.2
    · simp [hq.2]
  · rw [fetchOne_neg x hc]

/-- a poll that shows `Completed` has seen everything the trial wrote -/
theorem fetchOne_completed {c : Nat} {x : PTrial} (h : TInv c x) (hs : x.status = .completed) :
    x.proc ≠ .running ∧ x.fetchOne.1.cursor = x.out.length := by
  have hp : x.proc ≠ .running := by
    intro hp
    unfold PTrial.status at hs
    simp only [hp] at hs
    cases h1 : x.stopFile <;> cases h2 : x.pauseFile <;> cases h3 : x.stopReq <;> simp [h1, h2, h3] at hs
  refine ⟨hp, ?_⟩
  have hnh : ¬ x.status.hidden = true := by rw [hs]; simp [St.hidden]
  by_cases hl : x.out.length > 0
  · rw [fetchOne_pos x ⟨hl, hnh⟩]
    simp only [List.length_drop]
    have := h.cursor_le; omega
  · rw [fetchOne_neg x (fun hc => hl hc.1)]
    have := h.cursor_le
    simp only; omega

theorem mem_batchOf {batch : List (Nat × Rep)} {t : Nat} {r : Rep} (h : (t, r) ∈ batch) : r ∈ batchOf batch t := by
  unfold batchOf
  simp only [List.mem_map, List.mem_filter]
  exact ⟨(t, r), ⟨h, by simp⟩, rfl⟩

theorem LoopOK.of_fetch {b b' : Poll} {ids : List Nat} {sts : List (Nat × St)} {batch : List (Nat × Rep)}
    (hinv : PInv b) (h : b.fetch ids = .ok (b', sts, batch)) : LoopOK b' (statusIn sts) [] batch := by
  obtain ⟨h1, h2, _, _, _, _, _, _, hsts⟩ := fetch_spec hinv h
  refine ⟨hinv.fetch h, ?_, ?_⟩
  · intro t y hy hd r hr
    exfalso
    cases hx : b.trials[t]? with
    | none => rw [h2 t hx] at hy; cases hy
    | some x =>
      obtain ⟨h1a, h1b⟩ := h1 t x hx
      rw [h1a] at hy
      have hmem := mem_batchOf hr
      rw [h1b] at hmem
      by_cases hu : t ∈ ids
      · simp only [hu, if_true, Option.some.injEq] at hy hmem
        have hdx : x.decided = true := by
          rw [← hy] at hd
          rw [(record_keeps _ _).1, (fetchOne_keeps x).1] at hd; exact hd
        rw [fetchOne_decided (hinv.get hx) hdx] at hmem
        cases hmem
      · simp [hu] at hmem
  · intro t y hy hc
    cases hx : b.trials[t]? with
    | none => rw [h2 t hx] at hy; cases hy
    | some x =>
      obtain ⟨h1a, _⟩ := h1 t x hx
      rw [h1a] at hy
      unfold statusIn at hc
      rw [hsts, alookup_map_key (fun t => (b'.trials[t]?.map (·.dictSt)).getD St.inProgress)] at hc
      by_cases hu : t ∈ ids
      · simp only [hu, if_true, Option.some.injEq] at hy
        simp only [hu, if_true, Option.getD_some, h1a, Option.map_some] at hc
        rw [(record_keeps _ _).2.2.2.2, (fetchOne_keeps x).2.2.2] at hc
        have := fetchOne_completed (hinv.get hx) hc
        rw [← hy, (record_keeps _ _).2.1, (record_keeps _ _).2.2.1, (record_keeps _ _).2.2.2.1,
          (fetchOne_keeps x).2.1, (fetchOne_keeps x).2.2.1]
        exact this
      · simp [hu] at hc

theorem PInv.loopStep {b b' : Poll} {ids : List Nat} {script : List ScriptEntry} {o : LoopOut}
    (hinv : PInv b) (h : b.loopStep ids script = .ok (b', o)) : PInv b' := by
  unfold Poll.loopStep at h
  cases hf : b.fetch ids with
  | error e => rw [hf] at h; cases h
  | ok res =>
    obtain ⟨b1, sts, batch⟩ := res
    rw [hf] at h
    simp only at h
    cases hg : loopGo b1 (statusIn sts) [] batch script with
    | error e => rw [hg] at h; cases h
    | ok res2 =>
      obtain ⟨b2, done, hs⟩ := res2
      rw [hg] at h
      simp only [Except.ok.injEq, Prod.mk.injEq] at h
      obtain ⟨rfl, _⟩ := h
      exact loopGo_inv batch b1 _ [] script _ done hs (LoopOK.of_fetch hinv hf) hg

theorem PInv.step {b b' : Poll} {op : POp} (hinv : PInv b) (h : b.step op = .ok b') : PInv b' := by
  cases op with
  | start c =>
    simp only [Poll.step] at h
    cases hs : b.start c with
    | error e => rw [hs] at h; cases h
    | ok r => obtain ⟨b1, tid⟩ := r; rw [hs] at h; cases h; exact hinv.start hs
  | emit t n => cases h; exact hinv.emit t n
  | exit t ok => cases h; exact hinv.exit t ok
  | wckpt t => cases h; exact hinv.wckpt t
  | fetch ids =>
    simp only [Poll.step] at h
    cases hs : b.fetch ids with
    | error e => rw [hs] at h; cases h
    | ok r => obtain ⟨b1, sts, batch⟩ := r; rw [hs] at h; cases h; exact hinv.fetch hs
  | pause t => exact hinv.pause h
  | stop t => exact hinv.stop h
  | resume t => exact hinv.resume h
  | stopAll => exact hinv.stopAll h
  | busy => cases h; exact hinv.busy
  | loop ids script =>
    simp only [Poll.step] at h
    cases hs : b.loopStep ids script with
    | error e => rw [hs] at h; cases h
    | ok r => obtain ⟨b1, o⟩ := r; rw [hs] at h; cases h; exact hinv.loopStep hs

theorem PInv.run (ops : List POp) : ∀ {b : Poll}, PInv b → PInv (b.run ops) := by
  induction ops with
  | nil => intro b h; exact h
  | cons op ops ih =>
    intro b h
    unfold Poll.run
    cases hs : b.step op with
    | error e => exact ih h
    | ok b1 => exact ih (h.step hs)

theorem PInv.init (dc ds : Bool) : PInv (Poll.init dc ds) := by
  intro y hy; simp [Poll.init] at hy

end SyneTune.PollL
