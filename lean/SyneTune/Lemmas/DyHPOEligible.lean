import SyneTune.Lemmas.DyHPORung
import SyneTune.Props.C04
/-
DyHPO promotes only eligible trials: the promoted trial sits, not yet promoted, in the first
rung of level `resume_from`, and its new milestone is the rung level right above (`nextAbove`);
over every history of rung-system operations a trial is promoted from a rung at most once.
-/
namespace SyneTune.DyHPO
open SyneTune SyneTune.C04

/-! ### the milestone is the next level above `resume_from` -/

theorem rungPos_cons (rg : Rung) (rest : List Rung) (l : Nat) :
    rungPos (rg :: rest) l = if rg.level = l then some 0 else (rungPos rest l).map (· + 1) := by
  unfold rungPos
  rw [List.findIdx?_cons]
  by_cases h : rg.level = l <;> simp [h]

theorem nextAbove_cons_succ (rg : Rung) (rest : List Rung) (j next : Nat) (hj : j < rest.length) :
    nextAbove (rg :: rest) (j + 1) next = nextAbove rest j rg.level := by
  unfold nextAbove
  cases j with
  | zero => simp
  | succ k =>
    have hk : k < rest.length := by omega
    simp [List.getElem?_eq_getElem hk]

/-- `_previous_rung_level[milestone] = resume_from` and the first rung of level `resume_from`
is at position `i`: the milestone is the level right above position `i` (or `max_t`) -/
theorem prevLevelPairs_nextAbove (next : Nat) (rs : List Rung) (ms rf i : Nat)
    (hd : RungsDecr rs) (h1 : alookup ms (prevLevelPairs next rs) = some rf) (h2 : rungPos rs rf = some i) :
    ms = nextAbove rs i next := by
  induction rs generalizing next i with
  | nil => simp [prevLevelPairs, alookup] at h1
  | cons rg rest ih =>
    unfold RungsDecr at hd
    rw [List.pairwise_cons] at hd
    unfold prevLevelPairs alookup at h1
    rw [rungPos_cons] at h2
    by_cases hk : ms = next
    · simp only [hk, if_true, Option.some.injEq] at h1
      simp only [h1, if_true, Option.some.injEq] at h2
      subst h2
      rw [hk]; simp [nextAbove]
    · simp only [hk, if_false] at h1
      obtain ⟨_, rg2, hrg2, hl2⟩ := prevLevelPairs_key rg.level rest ms rf h1
      have hne : rg.level ≠ rf := by have := hd.1 rg2 hrg2; omega
      simp only [hne, if_false] at h2
      cases hj : rungPos rest rf with
      | none => simp [hj] at h2
      | some j =>
        simp only [hj, Option.map_some, Option.some.injEq] at h2
        subst h2
        obtain ⟨rgj, hget, _, _⟩ := rungPos_some rest rf j hj
        have hjl : j < rest.length := (List.getElem?_eq_some_iff.mp hget).1
        rw [nextAbove_cons_succ rg rest j next hjl]
        exact ih rg.level j hd.2 h1 hj

theorem set_append_cons {α} (pre post : List α) (a b : α) :
    (pre ++ a :: post).set pre.length b = pre ++ b :: post := by
  induction pre with
  | nil => rfl
  | cons p ps ih => simp [ih]

/-- the same for a rung given by its decomposition (what `promoScan_some` returns) -/
theorem decomp_nextAbove (next : Nat) (pre post : List Rung) (rg : Rung) (hd : RungsDecr (pre ++ rg :: post)) :
    rungPos (pre ++ rg :: post) rg.level = some pre.length ∧
    nextAbove (pre ++ rg :: post) pre.length next = (match pre.getLast? with | some p => p.level | none => next) := by
  constructor
  · induction pre with
    | nil => simp [rungPos_cons]
    | cons p ps ih =>
      unfold RungsDecr at hd
      rw [List.cons_append, List.pairwise_cons] at hd
      have hne : p.level ≠ rg.level := by have := hd.1 rg (by simp); omega
      rw [List.cons_append, rungPos_cons]
      simp only [hne, if_false, ih hd.2, Option.map_some, List.length_cons]
  · unfold nextAbove
    by_cases hp : pre = []
    · subst hp; simp
    · have hlen : 0 < pre.length := List.length_pos_of_ne_nil hp
      have hlt : pre.length - 1 < pre.length := by omega
      simp only [gt_iff_lt, hlen, if_true]
      rw [List.getElem?_append_left hlt, ← List.getLast?_eq_getElem?]
      cases pre.getLast? <;> rfl

/-- the two ways `dyhpoSchedule` promotes a trial -/
theorem dyhpoSchedule_some (s s' : RungSys) (m : Mode) (sh : Bool) (hint pick : Option Nat) (o : SchedOut)
    (fr : Bool) (h : s.dyhpoSchedule m sh hint pick = .ok (s', some o, fr)) :
    (sh = true ∧ (s.promoSchedule .promotion m hint).2.1 = some o ∧ s' = (s.promoSchedule .promotion m hint).1) ∨
    (∃ (s1 : RungSys) (t : Nat), s1.rungs = s.rungs ∧ s1.maxT = s.maxT ∧ pick = some t ∧
      s1.dyhpoPromote m t = .ok (s', o)) := by
  unfold RungSys.dyhpoSchedule at h
  cases sh with
  | true =>
    simp only [if_true] at h
    cases ho : (s.promoSchedule .promotion m hint).2.1 with
    | some o1 =>
      simp only [ho] at h
      injection h with h
      simp only [Prod.mk.injEq, Option.some.injEq] at h
      obtain ⟨e1, e2, _⟩ := h
      subst e2
      exact Or.inl ⟨rfl, rfl, e1.symm⟩
    | none =>
      simp only [ho] at h
      have hrs : (s.promoSchedule .promotion m hint).1.rungs = s.rungs :=
        (promoScan_unpromoted_any .promotion m s.numThr (s.cap .promotion) hint s.maxT s.thresholds s.rungs).2 ho
      cases pick with
      | none => simp at h
      | some t =>
        simp only at h
        cases hp : (s.promoSchedule .promotion m hint).1.dyhpoPromote m t with
        | error e => simp [hp] at h
        | ok res =>
          obtain ⟨s2, o2⟩ := res
          simp only [hp] at h
          injection h with h
          simp only [Prod.mk.injEq, Option.some.injEq] at h
          obtain ⟨e1, e2, _⟩ := h
          subst e1; subst e2
          exact Or.inr ⟨_, t, hrs, rfl, rfl, hp⟩
  | false =>
    simp only [Bool.false_eq_true, if_false] at h
    cases pick with
    | none => simp at h
    | some t =>
      simp only at h
      cases hp : s.dyhpoPromote m t with
      | error e => simp [hp] at h
      | ok res =>
        obtain ⟨s2, o2⟩ := res
        simp only [hp] at h
        injection h with h
        simp only [Prod.mk.injEq, Option.some.injEq] at h
        obtain ⟨e1, e2, _⟩ := h
        subst e1; subst e2
        exact Or.inr ⟨s, t, rfl, rfl, rfl, hp⟩

/-- **A trial promoted by `DyHPORungSystem.on_task_schedule` is eligible** (rung levels strictly
decreasing, as the constructor builds them): it sits at position `pos` of the first rung `rg` of
level `resume_from`, not yet promoted; exactly that entry is marked; and the milestone is the
level of the rung right above, or `max_t` for the top rung. -/
theorem dyhpoSchedule_eligible (s s' : RungSys) (m : Mode) (sh : Bool) (hint pick : Option Nat) (o : SchedOut)
    (fr : Bool) (hd : RungsDecr s.rungs) (h : s.dyhpoSchedule m sh hint pick = .ok (s', some o, fr)) :
    ∃ i rg pos e, rungPos s.rungs o.resumeFrom = some i ∧ s.rungs[i]? = some rg ∧ rg.level = o.resumeFrom ∧
      rg.data[pos]? = some e ∧ e.tid = o.trial ∧ e.promoted = false ∧
      s'.rungs = s.rungs.set i (markPromoted m rg pos) ∧ o.milestone = nextAbove s.rungs i s.maxT := by
  rcases dyhpoSchedule_some s s' m sh hint pick o fr h with ⟨_, ho, rfl⟩ | ⟨s1, t, hrs, hmx, _, hp⟩
  · unfold RungSys.promoSchedule at ho ⊢
    obtain ⟨pre, rg, post, thr', pos, h1, h2, _, h4, h5, h6⟩ :=
      promoScan_some .promotion m s.numThr (s.cap .promotion) hint s.maxT s.thresholds s.rungs o ho
    obtain ⟨e, g1, g2, g3⟩ := findPromotable_pick_spec .promotion m s.numThr thr' rg hint o.trial pos h4
    rw [h1] at hd
    obtain ⟨k1, k2⟩ := decomp_nextAbove s.maxT pre post rg hd
    refine ⟨pre.length, rg, pos, e, by rw [h1, ← h2]; exact k1, by rw [h1]; simp, h2, g1, g2, g3, ?_, ?_⟩
    · simp only; rw [h5, h1, set_append_cons]
    · rw [h6, h1, k2]; cases pre.getLast? <;> rfl
  · obtain ⟨p, i, rg, e, _, h2, h3, h4, h5, h6, h7, h8, _, h10⟩ := dyhpoPromote_spec s1 s' m t o hp
    rw [hrs, hmx] at h2
    rw [hrs] at h3 h4
    obtain ⟨rg0, g1, g2, _⟩ := rungPos_some s.rungs o.resumeFrom i h3
    rw [h4] at g1; injection g1 with g1; subst g1
    refine ⟨i, rg, p.2.1, e, h3, h4, g2, h5, by rw [h7, h8], h6, ?_, ?_⟩
    · rw [h10, hrs]
    · exact prevLevelPairs_nextAbove s.maxT s.rungs o.milestone o.resumeFrom i hd h2 h3

/-! ### promoted at most once — over every history -/

/-- operations on one DyHPO rung system: those of `C04.POp` (the inherited
`PromotionRungSystem` methods) and DyHPO's `on_task_schedule` -/
inductive DPOp
  | old (op : POp)
  | scheduleDy (sh : Bool) (hint pick : Option Nat)

def stepDP (m : Mode) (s : RungSys) : DPOp → RungSys
  | .old op => stepP .promotion m s op
  | .scheduleDy sh hint pick => match s.dyhpoSchedule m sh hint pick with | .ok res => res.1 | .error _ => s

def runDP (m : Mode) (s : RungSys) (ops : List DPOp) : RungSys := ops.foldl (stepDP m) s

theorem stepDP_steps (m : Mode) (s : RungSys) (op : DPOp) :
    List.Forall₂ (RungStep m) s.rungs (stepDP m s op).rungs := by
  cases op with
  | old op => exact stepP_steps .promotion m s op
  | scheduleDy sh hint pick =>
    simp only [stepDP]
    cases h : s.dyhpoSchedule m sh hint pick with
    | error e => exact forall₂_refl_step m _
    | ok res =>
      obtain ⟨s', so, fr⟩ := res
      obtain ⟨_, _, d3, d4⟩ := dyhpoSchedule_effect s s' m sh hint pick so fr h
      cases so with
      | none => simp only; rw [d3 rfl]; exact forall₂_refl_step m _
      | some o => exact (d4 o rfl).1.steps

theorem history_invariant_dy' (m : Mode) (s : RungSys) (ops : List DPOp) :
    (AllNodup s.rungs → AllNodup (runDP m s ops).rungs) ∧
    (∀ level t, PromotedAt s.rungs level t → PromotedAt (runDP m s ops).rungs level t) ∧
    (runDP m s ops).rungs.map (·.level) = s.rungs.map (·.level) := by
  induction ops generalizing s with
  | nil => exact ⟨fun h => h, fun _ _ h => h, rfl⟩
  | cons op ops ih =>
    obtain ⟨a1, a2, a3⟩ := steps_preserve (stepDP_steps m s op)
    obtain ⟨b1, b2, b3⟩ := ih (stepDP m s op)
    exact ⟨fun h => b1 (a1 h), fun l t h => b2 l t (a2 l t h),
      by rw [show runDP m s (op :: ops) = runDP m (stepDP m s op) ops from rfl, b3, a3]⟩

/-- a trial recorded as promoted from the rung of level `level` (each trial at most once per
rung, distinct levels) is not promoted from it by `dyhpoSchedule` -/
theorem dyhpoSchedule_not_again (s s' : RungSys) (m : Mode) (sh : Bool) (hint pick : Option Nat) (o : SchedOut)
    (fr : Bool) (hnd : AllNodup s.rungs) (hdec : RungsDecr s.rungs) (level : Nat)
    (hp : PromotedAt s.rungs level o.trial) (h : s.dyhpoSchedule m sh hint pick = .ok (s', some o, fr)) :
    o.resumeFrom ≠ level := by
  intro heq
  obtain ⟨_, _, _, d4⟩ := dyhpoSchedule_effect s s' m sh hint pick (some o) fr h
  obtain ⟨⟨rg, hrg, hl, e, he, het, hep⟩, _⟩ := (d4 o rfl).1.eligible
  obtain ⟨rgP, hrgP, hlv, e2, he2, het2, hep2⟩ := hp
  have hsame : rgP = rg := decr_level_inj s.rungs hdec rgP rg hrgP hrg (by rw [hlv, hl, heq])
  subst hsame
  have := List.inj_on_of_nodup_map (hnd rgP hrgP) he he2 (by rw [het, het2])
  subst this
  rw [hep] at hep2; cases hep2

end SyneTune.DyHPO
