import SyneTune.Lemmas.C14SyncEnds
/- C14 synchronous composition: the post-state of every operation within the contract
(`stepCS_*_shape`), acceptance of all calls by scheduler and searcher, one step of the
invariant, stability of observations. -/
namespace SyneTune.Sync.C14S
open SyneTune.C14 SyneTune.C14Comp

/-- neither the scheduler nor the searcher raises -/
def Accepted (y : SysS) (op : Op) : Prop :=
  ∃ s' o st', y.sched.step op = .ok (s', o) ∧ applyActs y.st (o.calls.map trCall) = .ok st'

theorem sysS_eta (y : SysS) : ({ sched := y.sched, st := y.st, last := y.last } : SysS) = y := rfl

/-! ### `on_trial_result` -/

/-- the outcomes of `on_trial_result` within the contract -/
theorem stepCS_result_shape {y : SysS} (h : CInvS y) (t r : Nat) (v : Metric) (hok : OpOKS y (.result t r v)) :
    Accepted y (.result t r v) ∧
    ((alookup t y.sched.pending = none ∧ y.sched.onResult t r v = .ok (y.sched, .stop, []) ∧
        stepCS y (.result t r v) = y) ∨
     (∃ id sl, alookup t y.sched.pending = some (id, sl) ∧ y.lastOf t < r ∧ r < sl.level ∧
        ¬ (y.sched.prevLvl id sl.rungIndex < r ∧ y.sched.searcherAll = true ∧ v.isNan = false) ∧
        (∃ calls, y.sched.onResult t r v = .ok (y.sched, .continue, calls)) ∧
        (∃ st2, st2.pending = y.st.pending ∧ st2.observed = y.st.observed ∧ st2.mode = y.st.mode ∧
          stepCS y (.result t r v) = { sched := y.sched, st := st2, last := aset t r y.last })) ∨
     (∃ id sl x, alookup t y.sched.pending = some (id, sl) ∧ y.lastOf t < r ∧ r < sl.level ∧
        y.sched.prevLvl id sl.rungIndex < r ∧ y.sched.searcherAll = true ∧ v = .val x ∧
        (∃ calls, y.sched.onResult t r v = .ok (y.sched, .continue, calls)) ∧
        stepCS y (.result t r v) =
          { sched := y.sched, st := y.st.label t r (y.st.crit x), last := aset t r y.last }) ∨
     (∃ id sl s' x, alookup t y.sched.pending = some (id, sl) ∧ r = sl.level ∧ v = .val x ∧
        y.sched.onResult t r v = .ok (s', .pause, [SCall.update t r v true]) ∧ Inv s' ∧
        s'.pending = adel t y.sched.pending ∧ s'.searcherAll = y.sched.searcherAll ∧
        s'.mgr.bracketRungs = y.sched.mgr.bracketRungs ∧
        Frame y.sched.mgr s'.mgr (some (id, sl.rungIndex, sl.slotIndex)) ∧
        s'.mgr.SlotAt id sl.rungIndex sl.slotIndex ⟨some t, some (.val x)⟩ ∧
        stepCS y (.result t r v) =
          { sched := s', st := y.st.label t sl.level (y.st.crit x), last := aset t sl.level y.last }) ∨
     (∃ id sl s', alookup t y.sched.pending = some (id, sl) ∧ r = sl.level ∧ v = .nan ∧
        y.sched.onResult t r v = .ok (s', .pause, [SCall.update t r v true]) ∧ Inv s' ∧
        s'.pending = adel t y.sched.pending ∧ s'.searcherAll = y.sched.searcherAll ∧
        s'.mgr.bracketRungs = y.sched.mgr.bracketRungs ∧
        Frame y.sched.mgr s'.mgr (some (id, sl.rungIndex, sl.slotIndex)) ∧
        s'.mgr.SlotAt id sl.rungIndex sl.slotIndex ⟨some t, some .nan⟩ ∧
        (∃ st2, st2.pending = dropPending t sl.level y.st.pending ∧ st2.observed = y.st.observed ∧
          st2.mode = y.st.mode ∧
          stepCS y (.result t r v) = { sched := s', st := st2, last := aset t sl.level y.last }))) := by
  have hres : ResultOK (alookup t y.sched.pending) (y.lastOf t) r := hok
  rcases result_sum h.inv t r v with ⟨hnone, hs⟩ | ⟨id, sl, hlook, hlt, hs⟩ |
      ⟨id, sl, s', hlook, heq, hs, hI', hp', hsa, hsys, hfr, hans⟩ | ⟨id, sl, e, hlook, hlt, _⟩
  · have h1 := step_result hs
    have h2 : applyActs y.st (([] : List SCall).map trCall) = .ok y.st := rfl
    refine ⟨⟨_, _, _, h1, h2⟩, Or.inl ⟨hnone, hs, ?_⟩⟩
    rw [stepCS_ok h1 h2]
    simp only [ghostNext, hnone, Option.isSome_none, Bool.false_eq_true, if_false]
  · rw [hlook] at hres
    obtain ⟨hl1, _⟩ : y.lastOf t < r ∧ r ≤ sl.level := hres
    have h1 := step_result hs
    have hg : ∀ o : Out, ghostNext y.sched y.last (.result t r v) o = aset t r y.last := by
      intro o
      simp only [ghostNext, hlook, Option.isSome_some, if_true]
    by_cases hc : y.sched.prevLvl id sl.rungIndex < r ∧ y.sched.searcherAll = true ∧ v.isNan = false
    · obtain ⟨hc1, hc2, hc3⟩ := hc
      cases v with
      | nan => cases hc3
      | val x =>
        have h2 : applyActs y.st ((if y.sched.prevLvl id sl.rungIndex < r
            then [SCall.update t r (.val x) y.sched.searcherAll] else []).map trCall) =
            .ok (y.st.label t r (y.st.crit x)) := by
          simp only [hc1, if_true, hc2, List.map_cons, List.map_nil, trCall, applyActs_single, applyAct, apply_update_true]
        refine ⟨⟨_, _, _, h1, h2⟩, Or.inr (Or.inr (Or.inl ⟨id, sl, x, hlook, hl1, hlt, hc1, hc2, rfl, ⟨_, hs⟩, ?_⟩))⟩
        rw [stepCS_ok h1 h2, hg]
    · have h2 : ∃ st2, st2.pending = y.st.pending ∧ st2.observed = y.st.observed ∧ st2.mode = y.st.mode ∧
          applyActs y.st ((if y.sched.prevLvl id sl.rungIndex < r
            then [SCall.update t r v y.sched.searcherAll] else []).map trCall) = .ok st2 := by
        by_cases hp : y.sched.prevLvl id sl.rungIndex < r
        · cases v with
          | nan =>
            have hnp : (t, r) ∉ y.st.pending := by
              intro hpp
              obtain ⟨id', sl', hl', hpl, _⟩ := h.pend _ hpp
              rw [hlook] at hl'
              simp only [Option.some.injEq, Prod.mk.injEq] at hl'
              obtain ⟨_, rfl⟩ := hl'
              simp only at hpl
              omega
            cases hsa : y.sched.searcherAll with
            | false =>
              refine ⟨y.st, rfl, rfl, rfl, ?_⟩
              simp only [hp, if_true, List.map_cons, List.map_nil, trCall, applyActs_single, applyAct, apply_update_false]
            | true =>
              refine ⟨markFailed { y.st with pending := dropPending t r y.st.pending } t, ?_,
                markFailed_observed _ _, markFailed_mode _ _, ?_⟩
              · rw [markFailed_pending]; exact dropPending_not_mem t r _ hnp
              · simp only [hp, if_true, List.map_cons, List.map_nil, trCall, applyActs_single, applyAct]
          | val x =>
            have hsa : y.sched.searcherAll = false := by
              cases hx : y.sched.searcherAll with
              | false => rfl
              | true => exact absurd ⟨hp, hx, rfl⟩ hc
            refine ⟨y.st, rfl, rfl, rfl, ?_⟩
            simp only [hp, if_true, hsa, List.map_cons, List.map_nil, trCall, applyActs_single, applyAct, apply_update_false]
        · refine ⟨y.st, rfl, rfl, rfl, ?_⟩
          simp only [hp, if_false, List.map_nil]; rfl
      obtain ⟨st2, e1, e2, e3, h2⟩ := h2
      refine ⟨⟨_, _, _, h1, h2⟩, Or.inr (Or.inl ⟨id, sl, hlook, hl1, hlt, hc, ⟨_, hs⟩, st2, e1, e2, e3, ?_⟩)⟩
      rw [stepCS_ok h1 h2, hg]
  · subst heq
    have h1 := step_result hs
    cases v with
    | nan =>
      have h2 : applyActs y.st (([SCall.update t sl.level .nan true]).map trCall) =
          .ok (markFailed { y.st with pending := dropPending t sl.level y.st.pending } t) := by
        simp only [List.map_cons, List.map_nil, trCall, applyActs_single, applyAct]
      refine ⟨⟨_, _, _, h1, h2⟩, Or.inr (Or.inr (Or.inr (Or.inr
        ⟨id, sl, s', hlook, rfl, rfl, hs, hI', hp', hsa, hsys, hfr, hans,
          markFailed { y.st with pending := dropPending t sl.level y.st.pending } t,
          markFailed_pending _ _, markFailed_observed _ _, markFailed_mode _ _, ?_⟩)))⟩
      rw [stepCS_ok h1 h2]
      simp only [ghostNext, hlook, Option.isSome_some, if_true]
    | val x =>
      have h2 : applyActs y.st (([SCall.update t sl.level (.val x) true]).map trCall) =
          .ok (y.st.label t sl.level (y.st.crit x)) := by
        simp only [List.map_cons, List.map_nil, trCall, applyActs_single, applyAct, apply_update_true]
      refine ⟨⟨_, _, _, h1, h2⟩, Or.inr (Or.inr (Or.inr (Or.inl
        ⟨id, sl, s', x, hlook, rfl, rfl, hs, hI', hp', hsa, hsys, hfr, hans, ?_⟩)))⟩
      rw [stepCS_ok h1 h2]
      simp only [ghostNext, hlook, Option.isSome_some, if_true]
  · exfalso
    rw [hlook] at hres
    obtain ⟨_, hl2⟩ : y.lastOf t < r ∧ r ≤ sl.level := hres
    omega

/-- the milestone report with a NaN value: the slot is marked failed, the searcher stores
nothing but drops the pending evaluation at the milestone (if there is one) -/
theorem cinvS_milestone_nan {y : SysS} (h : CInvS y) {t id : Nat} {sl : SlotInRung}
    (hlook : alookup t y.sched.pending = some (id, sl))
    {s' : Sched} (hI' : Inv s')
    (hp' : s'.pending = adel t y.sched.pending) (hsa : s'.searcherAll = y.sched.searcherAll)
    (hsys : s'.mgr.bracketRungs = y.sched.mgr.bracketRungs)
    (hfr : Frame y.sched.mgr s'.mgr (some (id, sl.rungIndex, sl.slotIndex)))
    (hans : s'.mgr.SlotAt id sl.rungIndex sl.slotIndex ⟨some t, some .nan⟩)
    {st2 : SState} (hp2 : st2.pending = dropPending t sl.level y.st.pending)
    (ho2 : st2.observed = y.st.observed) (hm2 : st2.mode = y.st.mode) :
    CInvS { sched := s', st := st2, last := aset t sl.level y.last } := by
  apply cinvS_failed (st' := st2)
    h hlook hI' hp' hsa hsys hfr hans (by rw [hp2]; exact nodup_dropPending _ _ _ h.pnd) ?_ ho2 hm2
  · intro t' hne
    unfold SysS.lastOf
    rw [alookup_aset]
    simp only [hne, if_false]
  · intro p
    rw [hp2]
    constructor
    · intro hp
      have hp0 := mem_of_mem_dropPending _ _ _ _ hp
      refine ⟨hp0, ?_⟩
      intro he
      obtain ⟨id', sl', hl', hpl, _⟩ := h.pend p hp0
      rw [he, hlook] at hl'
      simp only [Option.some.injEq, Prod.mk.injEq] at hl'
      obtain ⟨rfl, rfl⟩ := hl'
      apply not_mem_dropPending t sl.level _ h.pnd
      have : p = (t, sl.level) := by obtain ⟨a, b⟩ := p; simp only at he hpl; rw [he, hpl]
      rw [← this]; exact hp
    · rintro ⟨hp0, hne⟩
      apply mem_dropPending_of_ne _ _ _ _ hp0
      intro he; apply hne; rw [he]

theorem cinvS_result {y : SysS} (h : CInvS y) (t r : Nat) (v : Metric) (hok : OpOKS y (.result t r v)) :
    CInvS (stepCS y (.result t r v)) := by
  rcases (stepCS_result_shape h t r v hok).2 with ⟨_, _, he⟩ | ⟨id, sl, hlook, hl, hr, _, _, st2, e1, e2, e3, he⟩ |
      ⟨id, sl, x, hlook, hl, hr, hp, ha, _, _, he⟩ |
      ⟨id, sl, s', x, hlook, _, _, _, hI', hp', hsa, hsys, hfr, hans, he⟩ |
      ⟨id, sl, s', hlook, _, _, _, hI', hp', hsa, hsys, hfr, hans, st2, e1, e2, e3, he⟩
  · rw [he]; exact h
  · rw [he]; exact cinvS_st_congr (st := y.st) (cinvS_relast h hlook hl hr) e1 e2 e3
  · rw [he]; exact cinvS_label_run h hlook hl hr hp ha _
  · rw [he]; exact cinvS_milestone h hlook hI' hp' hsa hsys hfr x hans
  · rw [he]; exact cinvS_milestone_nan h hlook hI' hp' hsa hsys hfr hans e1 e2 e3

/-! ### `on_trial_error` -/

theorem stepCS_error_shape {y : SysS} (h : CInvS y) (t : Nat) :
    Accepted y (.error t) ∧
    ∃ st', st'.pending = y.st.pending.filter (fun p => p.1 != t) ∧ st'.observed = y.st.observed ∧
      st'.mode = y.st.mode ∧
      ((alookup t y.sched.pending = none ∧ stepCS y (.error t) = { sched := y.sched, st := st', last := y.last }) ∨
       (∃ id sl s', alookup t y.sched.pending = some (id, sl) ∧ Inv s' ∧
          s'.pending = adel t y.sched.pending ∧ s'.searcherAll = y.sched.searcherAll ∧
          s'.mgr.bracketRungs = y.sched.mgr.bracketRungs ∧
          Frame y.sched.mgr s'.mgr (some (id, sl.rungIndex, sl.slotIndex)) ∧
          s'.mgr.SlotAt id sl.rungIndex sl.slotIndex ⟨some t, some .nan⟩ ∧
          stepCS y (.error t) = { sched := s', st := st', last := y.last })) := by
  obtain ⟨st', hap, hpend, hobs, hmode⟩ := apply_evalFailed y.st t
  have h2 : applyActs y.st (([SCall.evalFailed t]).map trCall) = .ok st' := by
    simp only [List.map_cons, List.map_nil, trCall, applyActs_single, applyAct, hap]
  rcases error_sum h.inv t with ⟨hnone, hs⟩ | ⟨id, sl, s', hlook, hs, hI', hp', hsa, hsys, hfr, hans⟩
  · have h1 := step_error hs
    refine ⟨⟨_, _, _, h1, h2⟩, st', hpend, hobs, hmode, Or.inl ⟨hnone, ?_⟩⟩
    rw [stepCS_ok h1 h2]; rfl
  · have h1 := step_error hs
    refine ⟨⟨_, _, _, h1, h2⟩, st', hpend, hobs, hmode, Or.inr ⟨id, sl, s', hlook, hI', hp', hsa, hsys, hfr, hans, ?_⟩⟩
    rw [stepCS_ok h1 h2]; rfl

theorem cinvS_error {y : SysS} (h : CInvS y) (t : Nat) : CInvS (stepCS y (.error t)) := by
  obtain ⟨_, st', hpend, hobs, hmode, hc⟩ := stepCS_error_shape h t
  rcases hc with ⟨hnone, he⟩ | ⟨id, sl, s', hlook, hI', hp', hsa, hsys, hfr, hans, he⟩
  · rw [he]; exact cinvS_failed_idle h hnone hpend hobs hmode
  · rw [he]
    refine cinvS_failed h hlook hI' hp' hsa hsys hfr hans ?_ ?_ hobs hmode (fun _ _ => rfl)
    · rw [hpend]; exact h.pnd.filter _
    · intro p; rw [hpend, List.mem_filter]; simp

/-! ### `_suggest` -/

theorem stepCS_suggest_shape {y : SysS} (h : CInvS y) (tid : Nat) (c : Bool) (hok : OpOKS y (.suggest tid c)) :
    Accepted y (.suggest tid c) ∧ CInvS (stepCS y (.suggest tid c)) ∧
    (stepCS y (.suggest tid c)).st.observed = y.st.observed ∧
    (stepCS y (.suggest tid c)).st.mode = y.st.mode ∧
    (∀ t' id' sl', alookup t' (stepCS y (.suggest tid c)).sched.pending = some (id', sl') →
      (alookup t' y.sched.pending = some (id', sl') ∧ (stepCS y (.suggest tid c)).lastOf t' = y.lastOf t') ∨
      (stepCS y (.suggest tid c)).lastOf t' = 0) ∧
    (∀ j k p t' x, (stepCS y (.suggest tid c)).sched.mgr.SlotAt j k p ⟨some t', some (.val x)⟩ →
      y.sched.mgr.SlotAt j k p ⟨some t', some (.val x)⟩) := by
  have hfresh : tid ∉ y.sched.configs := hok
  obtain ⟨s', sg, calls, id, sl, hs, hI', hsa, hsys, hc⟩ := suggest_sum h.inv tid c hfresh
  have h1 := step_suggest hs
  have hreg : ∀ (t : Nat) (v : Nat × SlotInRung) (st' : SState), s'.pending = aset t v y.sched.pending →
      ∀ t' id' sl', alookup t' s'.pending = some (id', sl') →
      (alookup t' y.sched.pending = some (id', sl') ∧
        ({ sched := s', st := st', last := aset t 0 y.last } : SysS).lastOf t' = y.lastOf t') ∨
      ({ sched := s', st := st', last := aset t 0 y.last } : SysS).lastOf t' = 0 := by
    intro t v st' hp' t' id' sl' hl'
    rw [lastOf_aset]
    by_cases he : t' = t
    · right; simp [he]
    · left
      rw [hp', alookup_aset_ne _ _ _ _ he] at hl'
      exact ⟨hl', by simp only [he, if_false]; rfl⟩
  have hbwd : Frame y.sched.mgr s'.mgr none → ∀ j k p t' x, s'.mgr.SlotAt j k p ⟨some t', some (.val x)⟩ →
      y.sched.mgr.SlotAt j k p ⟨some t', some (.val x)⟩ := by
    intro hfr j k p t' x hs
    rcases hfr.bwd j k p t' (.val x) hs with hold | hnew
    · exact hold
    · cases hnew
  rcases hc with ⟨t, cl, rfl, rfl, hp', hnp, hfr, hans⟩ | ⟨cl, rfl, rfl, hp', hnp, hfr, hans⟩ |
      ⟨rfl, rfl, hp', hfr, hans, hne, hempty⟩
  · have h2 : applyActs y.st (([] : List SCall).map trCall) = .ok y.st := rfl
    have he : stepCS y (.suggest tid c) = { sched := s', st := y.st, last := aset t 0 y.last } := by
      rw [stepCS_ok h1 h2]; rfl
    refine ⟨⟨_, _, _, h1, h2⟩, ?_, by rw [he], by rw [he], ?_, ?_⟩
    · rw [he]; exact cinvS_resume h hI' hp' hnp hsa hsys hfr hans
    · rw [he]; exact hreg t _ _ hp'
    · rw [he]; exact hbwd hfr
  · obtain ⟨hap, hinv⟩ := cinvS_start h hI' hfresh hp' hnp hsa hsys hfr hans
    have h2 : applyActs y.st (([SCall.pending tid sl.level]).map trCall) =
        .ok { y.st with pending := y.st.pending ++ [(tid, sl.level)] } := by
      simp only [List.map_cons, List.map_nil, trCall, applyActs_single, applyAct, hap]
    have he : stepCS y (.suggest tid c) =
        { sched := s', st := { y.st with pending := y.st.pending ++ [(tid, sl.level)] }, last := aset tid 0 y.last } := by
      rw [stepCS_ok h1 h2]; rfl
    refine ⟨⟨_, _, _, h1, h2⟩, ?_, by rw [he], by rw [he], ?_, ?_⟩
    · rw [he]; exact hinv
    · rw [he]; exact hreg tid _ _ hp'
    · rw [he]; exact hbwd hfr
  · have h2 : applyActs y.st (([] : List SCall).map trCall) = .ok y.st := rfl
    have he : stepCS y (.suggest tid c) = { sched := s', st := y.st, last := y.last } := by
      rw [stepCS_ok h1 h2]; rfl
    refine ⟨⟨_, _, _, h1, h2⟩, ?_, by rw [he], by rw [he], ?_, ?_⟩
    · rw [he]; exact cinvS_noconfig h hI' hp' hsa hsys hfr hans hne hempty
    · rw [he]
      intro t' id' sl' hl'
      change alookup t' s'.pending = _ at hl'
      rw [hp'] at hl'
      exact Or.inl ⟨hl', rfl⟩
    · rw [he]
      intro j k p t' x hs
      rcases hfr.bwd j k p t' (.val x) hs with hold | hnew
      · exact hold
      · simp only [Option.some.injEq, Prod.mk.injEq] at hnew
        obtain ⟨rfl, rfl, rfl⟩ := hnew
        have := slotAt_functional hs hans
        simp at this

/-! ### every operation -/

theorem accepted_step {y : SysS} (h : CInvS y) (op : Op) (hok : OpOKS y op) : Accepted y op := by
  cases op with
  | suggest tid c => exact (stepCS_suggest_shape h tid c hok).1
  | result t r v => exact (stepCS_result_shape h t r v hok).1
  | error t => exact (stepCS_error_shape h t).1
  | complete t r v =>
    have h1 : y.sched.step (.complete t r v) = .ok (y.sched, { calls := [SCall.update t r v true] }) := rfl
    cases v with
    | nan =>
      refine ⟨_, _, markFailed { y.st with pending := dropPending t r y.st.pending } t, h1, ?_⟩
      simp only [List.map_cons, List.map_nil, trCall, applyActs_single, applyAct]
    | val x =>
      have hobs : obsAt y.st t r = some (y.st.crit x) := hok
      have hlab : y.st.isLabeled t r = true := by rw [lab_iff, hobs]; rfl
      have hnp : (t, r) ∉ y.st.pending := by
        intro hp
        have := pending_not_labeled h hp
        simp only at this
        rw [hlab] at this; cases this
      refine ⟨_, _, y.st, h1, ?_⟩
      simp only [List.map_cons, List.map_nil, trCall, applyActs_single, applyAct, apply_update_true]
      rw [label_noop _ _ _ _ hobs hnp]
  | remove t => exact ⟨_, _, y.st, rfl, rfl⟩
  | takeRemovable => exact ⟨_, _, y.st, rfl, rfl⟩

theorem cinvS_step' {y : SysS} (h : CInvS y) (op : Op) (hok : OpOKS y op) : CInvS (stepCS y op) := by
  cases op with
  | suggest tid c => exact (stepCS_suggest_shape h tid c hok).2.1
  | result t r v => exact cinvS_result h t r v hok
  | error t => exact cinvS_error h t
  | complete t r v => exact cinvS_complete h t r v hok
  | remove t => exact h
  | takeRemovable => exact cinvS_takeRemovable h

/-- one operation: the mode of the searcher is constant, the data set stays well formed, and
an observation, once there, is neither changed nor removed -/
theorem step_stable {y : SysS} (h : CInvS y) (op : Op) (hok : OpOKS y op) :
    (stepCS y op).st.mode = y.st.mode ∧
    ∀ t r c, obsAt y.st t r = some c → obsAt (stepCS y op).st t r = some c := by
  have key : ∀ (t0 r0 : Nat) (c0 : Rat), y.st.isLabeled t0 r0 = false →
      ∀ t r c, obsAt y.st t r = some c → obsAt (y.st.label t0 r0 c0) t r = some c := by
    intro t0 r0 c0 hf t r c hc
    rw [obsAt_label]
    by_cases he : t = t0 ∧ r = r0
    · obtain ⟨rfl, rfl⟩ := he
      rw [(lab_false_iff _ _ _).mp hf] at hc; cases hc
    · simp only [he, if_false]; exact hc
  cases op with
  | suggest tid c =>
    obtain ⟨_, _, ho, hm, _⟩ := stepCS_suggest_shape h tid c hok
    exact ⟨hm, fun t r c hc => by rw [obsAt_congr ho]; exact hc⟩
  | result t0 r0 v =>
    rcases (stepCS_result_shape h t0 r0 v hok).2 with ⟨_, _, he⟩ | ⟨id, sl, hlook, hl, hr, _, _, he⟩ |
        ⟨id, sl, x, hlook, hl, hr, hp, ha, _, _, he⟩ |
        ⟨id, sl, s', x, hlook, _, _, _, hI', hp', hsa, hsys, hfr, hans, he⟩ |
        ⟨_, _, _, _, _, _, _, _, _, _, _, _, _, he⟩
    · rw [he]; exact ⟨rfl, fun _ _ _ hc => hc⟩
    · obtain ⟨st2, _, e2, e3, he⟩ := he
      rw [he]; exact ⟨e3, fun t r c hc => by change obsAt st2 t r = some c; rw [obsAt_congr e2]; exact hc⟩
    · rw [he]; exact ⟨rfl, key _ _ _ (fresh_level h hlook hp hl)⟩
    · rw [he]
      obtain ⟨hlv, hplt, _⟩ := pend_level h.inv hlook
      exact ⟨rfl, key _ _ _ (fresh_level h hlook (by rw [hlv]; exact hplt) (h.lastOk _ _ _ hlook))⟩
    · obtain ⟨st2, _, e2, e3, he⟩ := he
      rw [he]; exact ⟨e3, fun t r c hc => by change obsAt st2 t r = some c; rw [obsAt_congr e2]; exact hc⟩
  | error t0 =>
    obtain ⟨_, st', _, hobs, hmode, hc⟩ := stepCS_error_shape h t0
    rcases hc with ⟨_, he⟩ | ⟨_, _, _, _, _, _, _, _, _, _, he⟩
    · rw [he]; exact ⟨hmode, fun t r c hc => by change obsAt st' t r = some c; rw [obsAt_congr hobs]; exact hc⟩
    · rw [he]; exact ⟨hmode, fun t r c hc => by change obsAt st' t r = some c; rw [obsAt_congr hobs]; exact hc⟩
  | complete t0 r0 v =>
    obtain ⟨st2, _, e2, e3, _, he⟩ := stepCS_complete h t0 r0 v hok
    rw [he]; exact ⟨e3, fun t r c hc => by change obsAt st2 t r = some c; rw [obsAt_congr e2]; exact hc⟩
  | remove t0 => exact ⟨rfl, fun _ _ _ hc => hc⟩
  | takeRemovable => exact ⟨rfl, fun _ _ _ hc => hc⟩

/-! ### runs -/

theorem runCS_cons (y : SysS) (op : Op) (ops : List Op) : runCS y (op :: ops) = runCS (stepCS y op) ops := rfl

theorem runCS_append (y : SysS) (a b : List Op) : runCS y (a ++ b) = runCS (runCS y a) b := by
  simp [runCS, List.foldl_append]

theorem opsOKS_append (y : SysS) (a b : List Op) : OpsOKS y (a ++ b) ↔ OpsOKS y a ∧ OpsOKS (runCS y a) b := by
  induction a generalizing y with
  | nil => simp [OpsOKS, runCS]
  | cons op ops ih =>
    simp only [List.cons_append, OpsOKS, runCS_cons, ih, and_assoc]

theorem cinvS_run {y : SysS} (h : CInvS y) (ops : List Op) (hok : OpsOKS y ops) : CInvS (runCS y ops) := by
  induction ops generalizing y with
  | nil => exact h
  | cons op ops ih => exact ih (cinvS_step' h op hok.1) hok.2

theorem run_stable {y : SysS} (h : CInvS y) (ops : List Op) (hok : OpsOKS y ops) :
    (runCS y ops).st.mode = y.st.mode ∧
    ∀ t r c, obsAt y.st t r = some c → obsAt (runCS y ops).st t r = some c := by
  induction ops generalizing y with
  | nil => exact ⟨rfl, fun _ _ _ hc => hc⟩
  | cons op ops ih =>
    obtain ⟨m1, s1⟩ := step_stable h op hok.1
    obtain ⟨m2, s2⟩ := ih (cinvS_step' h op hok.1) hok.2
    exact ⟨m2.trans m1, fun t r c hc => s2 t r c (s1 t r c hc)⟩

end SyneTune.Sync.C14S
