import SyneTune.Lemmas.TunerKInv
/-
The statuses the loop records for a trial (`tuning_status.last_trial_status_seen`) only move
along the edges of the life cycle  started → {paused, stopped, stopping, completed, failed},
paused → started; final statuses stay (C01 `lifecycle`), under the contracts B and K.
-/
namespace SyneTune.Tuner
open SyneTune AL

/-- legal moves of a recorded status -/
def legal : St → St → Bool
  | .inProgress, _ => true
  | .stopping, _ => true
  | .paused, b => b == .paused || b == .inProgress
  | .stopped, b => b == .stopped
  | .completed, b => b == .completed
  | .failed, b => b == .failed

/-- legal moves of the entry of a trial in `last_trial_status_seen` -/
def Edge : Option St → Option St → Prop
  | none, none => True
  | none, some b => b = .inProgress
  | some a, some b => legal a b = true
  | some _, none => False

theorem legal_refl (a : St) : legal a a = true := by cases a <;> rfl

theorem Edge.refl (o : Option St) : Edge o o := by
  cases o with
  | none => trivial
  | some a => exact legal_refl a

theorem Edge.of_active {o : Option St} (h : Active o) (b : St) : Edge o (some b) := by
  rcases h with h | h <;> subst h <;> rfl

theorem edge_markStopped (ts : TStatus) (t : Nat) :
    Edge (alookup t ts.last) (alookup t ts.markStopped.last) := by
  unfold TStatus.markStopped
  simp only []
  rw [alookup_map_val (fun v => if v = St.inProgress then St.stopped else v)]
  cases h : alookup t ts.last with
  | none => trivial
  | some v =>
    simp only [Option.map_some]
    by_cases hv : v = .inProgress
    · subst hv; rfl
    · simp only [hv, if_false]; exact legal_refl v

theorem edge_afterUpdate {s : LState} (hS : SInv s) (h : KBody s) (hp : s.pc = .afterUpd) (t : Nat) :
    Edge (alookup t s.status.last) (alookup t (afterUpdate s).status.last) := by
  have hu : updPc s.pc = true := by rw [hp]; rfl
  have hdn := (hS.doneOK hu).1
  have hds := (hS.doneOK hu).2
  have hsdn := hS.sdNodup hu
  have hk' : keys (aupdate s.sd s.done) = keys s.sd := keys_aupdate_of_subset _ _ hds
  have hlast : (afterUpdate s).status.last = aupdate s.status.last (aupdate s.sd s.done) := update_last _ _ _
  rw [hlast, alookup_aupdate _ _ _ (by rw [hk']; exact hsdn)]
  cases hsd' : alookup t (aupdate s.sd s.done) with
  | none => exact Edge.refl _
  | some v =>
    simp only []
    have hmem : t ∈ keys s.sd := by
      rw [← hk']; exact (hasKey_iff_mem_keys _ _).mp (by unfold hasKey; rw [hsd']; rfl)
    obtain ⟨kv, hkv, hkk⟩ := List.mem_map.mp hmem
    have hr := (hS.sdRun hu kv hkv).1
    rw [hkk] at hr
    exact Edge.of_active (h.ls.act t hr) v

theorem edge_scheduled {s : LState} (u : Nat) (h : alookup u s.status.last = none ∨ alookup u s.status.last = some .paused)
    (t : Nat) : Edge (alookup t s.status.last) (alookup t (scheduled s u).status.last) := by
  have hlast : (scheduled s u).status.last = aset u .inProgress s.status.last := by
    unfold scheduled addRunning
    split <;> exact update_last _ _ _
  rw [hlast, alookup_aset]
  by_cases hc : t = u
  · simp only [hc, if_true]
    rcases h with h | h <;> rw [h] <;> rfl
  · simp only [hc, if_false]; exact Edge.refl _

/-- **every step moves the recorded statuses along legal edges** -/
theorem edge_next (s : LState) (a : Ans) (hS : SInv s) (hI : KInv s) (t : Nat) :
    Edge (alookup t s.status.last) (alookup t (next s a).status.last) := by
  unfold next
  split
  all_goals (rename_i hpc)
  all_goals (try simp only [])
  all_goals (repeat' split)
  all_goals first
    | exact Edge.refl _
    | (show Edge (alookup t s.status.last) (alookup t (addRow s).status.last)
       unfold addRow; split <;> exact Edge.refl _)
    | exact edge_afterUpdate hS (hI (by rw [hpc]; rfl)) hpc t
    | exact edge_markStopped _ t
    | exact edge_scheduled _ (Or.inl ((alookup_eq_none_iff _ _).mpr ((hI (by rw [hpc]; rfl)).rg.regAdd (Or.inr hpc)).2)) t
    | exact edge_scheduled _ (Or.inr ((hI (by rw [hpc]; rfl)).rg.regResumeCb hpc).1) t
    | (unfold secondItem; repeat' split
       all_goals exact Edge.refl _)

end SyneTune.Tuner
