import SyneTune.Lemmas.SyncReport
/- The scheduler's operations keep the invariant: `next_job` + registration of the job,
removal of a pending entry. -/
namespace SyneTune.Sync
open SyneTune

/-- the slot handed out by `next_job`, seen in the manager after the call -/
structure Handed (g1 : Manager) (id : Nat) (sl : SlotInRung) (br1 : Bracket) (rg : Rung) (x : Slot) : Prop where
  hbr : g1.brackets[id]? = some br1
  hrg : br1.rungs[br1.current]? = some rg
  hsl : rg.slots[sl.slotIndex]? = some x
  ri : sl.rungIndex = br1.current
  lvl : sl.level = rg.level
  lt : sl.slotIndex < br1.firstFree
  tid : sl.tid = x.tid
  met : sl.metric = none
  empty : x.metric = none

/-- common shape of the two outcomes of `next_job`: bracket `id` (an old one, or the new
one appended at the end) becomes `bump br`, everything else is untouched -/
structure JobStruct (g g1 : Manager) (id : Nat) (sl : SlotInRung) (br : Bracket) (rg : Rung) (x : Slot) : Prop where
  after : ∀ j b, g1.brackets[j]? = some b → (j = id ∧ b = bump br) ∨ (j ≠ id ∧ g.brackets[j]? = some b)
  atId : g1.brackets[id]? = some (bump br)
  keep : ∀ j b, j ≠ id → g.brackets[j]? = some b → g1.brackets[j]? = some b
  old : g.brackets[id]? = some br ∨ (g.brackets[id]? = none ∧ (∀ t, ¬ br.HasId t) ∧ br.firstFree = 0)
  slot : sl = slotOf br rg x
  hrg : br.rungs[br.current]? = some rg
  hsl : rg.slots[br.firstFree]? = some x
  ok : BrOK g id br

theorem jobCase_struct {g g1 : Manager} {id : Nat} {sl : SlotInRung} (hw : MWF g) (h : JobCase g g1 id sl) :
    ∃ br rg x, JobStruct g g1 id sl br rg x := by
  cases h with
  | existing id br rg x hge hbr hbefore hf hrg hsl =>
    have hidlt := getElem?_lt hbr
    refine ⟨br, rg, x, ?_, ?_, ?_, Or.inl hbr, rfl, hrg, hsl, hw.wf id br hbr⟩
    · intro j b hb
      change (g.brackets.set id (bump br))[j]? = some b at hb
      by_cases hj : id = j
      · subst hj
        rw [List.getElem?_set_self hidlt] at hb
        exact Or.inl ⟨rfl, (Option.some.inj hb).symm⟩
      · rw [List.getElem?_set_ne hj] at hb
        exact Or.inr ⟨Ne.symm hj, hb⟩
    · change (g.brackets.set id (bump br))[id]? = some _
      exact List.getElem?_set_self hidlt
    · intro j b hj hb
      change (g.brackets.set id (bump br))[j]? = some b
      rw [List.getElem?_set_ne (Ne.symm hj)]; exact hb
  | fresh br rg x hnone hok hcur hff hid hf hrg hsl =>
    have hset : (g.brackets ++ [br]).set g.brackets.length (bump br) = g.brackets ++ [bump br] := by
      rw [List.set_append_right _ _ (Nat.le_refl _)]; simp
    refine ⟨br, rg, x, ?_, ?_, ?_, Or.inr ⟨List.getElem?_eq_none (Nat.le_refl _), hid, hff⟩, rfl, hrg, hsl, hok⟩
    · intro j b hb
      change ((g.brackets ++ [br]).set g.brackets.length (bump br))[j]? = some b at hb
      rw [hset] at hb
      by_cases hj : j < g.brackets.length
      · rw [List.getElem?_append_left hj] at hb
        exact Or.inr ⟨by omega, hb⟩
      · rw [List.getElem?_append_right (by omega)] at hb
        by_cases h0 : j - g.brackets.length = 0
        · rw [h0] at hb
          simp only [List.getElem?_cons_zero, Option.some.injEq] at hb
          exact Or.inl ⟨by omega, hb.symm⟩
        · have : j - g.brackets.length = (j - g.brackets.length - 1) + 1 := by omega
          rw [this] at hb; simp at hb
    · change ((g.brackets ++ [br]).set g.brackets.length (bump br))[g.brackets.length]? = some _
      rw [hset, List.getElem?_append_right (Nat.le_refl _)]; simp
    · intro j b hj hb
      change ((g.brackets ++ [br]).set g.brackets.length (bump br))[j]? = some b
      rw [hset, List.getElem?_append_left (getElem?_lt hb)]; exact hb

theorem bump_hasId (br : Bracket) (t : Nat) : (bump br).HasId t ↔ br.HasId t := Iff.rfl

theorem jobStruct_hasId {g g1 : Manager} {id sl br rg x} (h : JobStruct g g1 id sl br rg x) (t : Nat) :
    g1.HasId t ↔ g.HasId t := by
  constructor
  · rintro ⟨b, hbm, ht⟩
    obtain ⟨j, hj⟩ := List.mem_iff_getElem?.mp hbm
    rcases h.after j b hj with ⟨rfl, rfl⟩ | ⟨_, hold⟩
    · rcases h.old with ho | ⟨_, hno, _⟩
      · exact ⟨br, List.mem_of_getElem? ho, ht⟩
      · exact absurd ht (hno t)
    · exact ⟨b, List.mem_of_getElem? hold, ht⟩
  · rintro ⟨b, hbm, ht⟩
    obtain ⟨j, hj⟩ := List.mem_iff_getElem?.mp hbm
    by_cases hji : j = id
    · subst hji
      rcases h.old with ho | ⟨hn, _, _⟩
      · rw [ho] at hj
        have : b = br := (Option.some.inj hj).symm
        subst this
        exact ⟨bump b, List.mem_of_getElem? h.atId, ht⟩
      · rw [hn] at hj; cases hj
    · exact ⟨b, List.mem_of_getElem? (h.keep j b hji hj), ht⟩

/-- **`next_job` under the invariant**: a job is returned; afterwards the invariant holds
except that the handed-out slot is not yet registered. -/
theorem nextJob_inv {g : Manager} {P : List (Nat × (Nat × SlotInRung))} {C : List Nat}
    (hI : InvExc g P C none) :
    ∃ g1 id sl br1 rg x, g.nextJob = .ok (g1, id, sl) ∧ JobCase g g1 id sl ∧
      Handed g1 id sl br1 rg x ∧ InvExc g1 P C (some (id, sl.slotIndex)) ∧
      (∀ t, g1.HasId t ↔ g.HasId t) ∧ g1.bracketRungs = g.bracketRungs := by
  obtain ⟨g1, id, sl, hjob, hcase, hmwf1⟩ := nextJob_spec hI.mwf
  obtain ⟨br, rg, x, hs⟩ := jobCase_struct hI.mwf hcase
  obtain ⟨spec, hspec, hb, hmode⟩ := hs.ok
  have hids := jobStruct_hasId hs
  have hsys : g1.bracketRungs = g.bracketRungs := by cases hcase <;> rfl
  have hslot := hs.slot
  have hfree := (hb.free rg hs.hrg)
  have hidx : sl.slotIndex = br.firstFree := by rw [hslot]; rfl
  refine ⟨g1, id, sl, bump br, rg, x, hjob, hcase, ?_, ?_, hids, hsys⟩
  · refine ⟨hs.atId, hs.hrg, by rw [hidx]; exact hs.hsl, by rw [hslot]; rfl, by rw [hslot]; rfl, ?_,
      by rw [hslot]; rfl, by rw [hslot]; rfl, ?_⟩
    · rw [hidx]; exact Nat.lt_succ_self _
    · exact hfree.2 br.firstFree x hs.hsl (Nat.le_refl _)
  · refine ⟨hmwf1, ?_, hI.keys, hI.distinct, ?_, ?_, hI.pkeys, ?_⟩
    · intro t' id' sl' hlook
      obtain ⟨b', rg', x', hb', hps, _⟩ := hI.pend t' id' sl' hlook
      have hfresh' : x'.tid = none → ¬ g1.HasId t' := fun hx hc => hps.fresh hx ((hids t').mp hc)
      by_cases hid' : id' = id
      · subst hid'
        rcases hs.old with ho | ⟨hn, _, _⟩
        · rw [ho] at hb'
          have : b' = br := (Option.some.inj hb').symm
          subst this
          refine ⟨bump b', rg', x', hs.atId, ?_, ?_⟩
          · exact ⟨hps.hrg, hps.ri, Nat.lt_succ_of_lt hps.lt, hps.lvl, hps.hsl, hps.tid, hps.stid, hps.empty, hfresh'⟩
          · intro h
            simp only [Option.some.injEq, Prod.mk.injEq] at h
            have := hps.lt
            omega
        · rw [hn] at hb'; cases hb'
      · refine ⟨b', rg', x', hs.keep id' b' hid' hb', ?_, ?_⟩
        · exact ⟨hps.hrg, hps.ri, hps.lt, hps.lvl, hps.hsl, hps.tid, hps.stid, hps.empty, hfresh'⟩
        · intro h
          simp only [Option.some.injEq, Prod.mk.injEq] at h
          exact hid' h.1.symm
    · intro j b rgj q xq hbj hrgj hxq hqlt hxm hexc
      rcases hs.after j b hbj with ⟨rfl, rfl⟩ | ⟨hji, hbold⟩
      · have hqne : q ≠ br.firstFree := by
          intro h; apply hexc; rw [hidx, h]
        have hq' : q < br.firstFree := by
          change q < br.firstFree + 1 at hqlt; omega
        rcases hs.old with ho | ⟨_, _, hff⟩
        · exact hI.owed j br rgj q xq ho hrgj hxq hq' hxm (by simp)
        · omega
      · exact hI.owed j b rgj q xq hbold hrgj hxq hqlt hxm (by simp)
    · intro t ht; exact hI.ids t ((hids t).mp ht)
    · intro i j bi bj t hbi hbj hti htj
      -- ids of the brackets are unchanged
      have conv : ∀ (k : Nat) (bk : Bracket), g1.brackets[k]? = some bk → bk.HasId t →
          ∃ bk', g.brackets[k]? = some bk' ∧ bk'.HasId t := by
        intro k bk hk htk
        rcases hs.after k bk hk with ⟨rfl, rfl⟩ | ⟨_, hold⟩
        · rcases hs.old with ho | ⟨_, hno, _⟩
          · exact ⟨br, ho, htk⟩
          · exact absurd htk (hno t)
        · exact ⟨bk, hold, htk⟩
      obtain ⟨bi', hbi', hti'⟩ := conv i bi hbi hti
      obtain ⟨bj', hbj', htj'⟩ := conv j bj hbj htj
      exact hI.disjoint i j bi' bj' t hbi' hbj' hti' htj'

/-- registering the handed-out job for trial `t` completes the invariant -/
theorem register_inv {g1 : Manager} {P : List (Nat × (Nat × SlotInRung))} {C C' : List Nat} {id : Nat}
    {sl : SlotInRung} {br1 : Bracket} {rg : Rung} {x : Slot} (t : Nat)
    (hI : InvExc g1 P C (some (id, sl.slotIndex))) (hh : Handed g1 id sl br1 rg x)
    (hnot : alookup t P = none) (hsub : ∀ c ∈ C, c ∈ C') (htC : t ∈ C')
    (hx : x.tid = some t ∨ (x.tid = none ∧ ¬ g1.HasId t)) :
    InvExc g1 (aset t (id, { sl with tid := some t }) P) C' none := by
  refine ⟨hI.mwf, ?_, keys_aset_nodup _ _ _ hI.keys, ?_, ?_, ?_, ?_, hI.disjoint⟩
  · intro t' id' sl' hlook
    by_cases ht : t' = t
    · subst ht
      rw [alookup_aset_self] at hlook
      simp only [Option.some.injEq, Prod.mk.injEq] at hlook
      obtain ⟨rfl, rfl⟩ := hlook
      refine ⟨br1, rg, x, hh.hbr, ?_, by simp⟩
      refine ⟨hh.hrg, hh.ri, hh.lt, hh.lvl, hh.hsl, rfl, ?_, hh.empty, ?_⟩
      · rcases hx with h | h
        · exact Or.inr h
        · exact Or.inl h.1
      · intro hxn
        rcases hx with h | h
        · rw [h] at hxn; cases hxn
        · exact h.2
    · rw [alookup_aset_ne _ _ _ _ ht] at hlook
      obtain ⟨b', rg', x', hb', hps, _⟩ := hI.pend t' id' sl' hlook
      exact ⟨b', rg', x', hb', hps, by simp⟩
  · intro t1 t2 id' sl1 sl2 h1 h2 heq
    by_cases ht1 : t1 = t
    · by_cases ht2 : t2 = t
      · rw [ht1, ht2]
      · subst ht1
        rw [alookup_aset_self] at h1
        rw [alookup_aset_ne _ _ _ _ ht2] at h2
        simp only [Option.some.injEq, Prod.mk.injEq] at h1
        obtain ⟨rfl, rfl⟩ := h1
        obtain ⟨_, _, _, _, _, hexc⟩ := hI.pend t2 id sl2 h2
        exact absurd (by rw [← heq]) hexc
    · by_cases ht2 : t2 = t
      · subst ht2
        rw [alookup_aset_self] at h2
        rw [alookup_aset_ne _ _ _ _ ht1] at h1
        simp only [Option.some.injEq, Prod.mk.injEq] at h2
        obtain ⟨rfl, rfl⟩ := h2
        obtain ⟨_, _, _, _, _, hexc⟩ := hI.pend t1 id sl1 h1
        exact absurd (by rw [heq]) hexc
      · rw [alookup_aset_ne _ _ _ _ ht1] at h1
        rw [alookup_aset_ne _ _ _ _ ht2] at h2
        exact hI.distinct t1 t2 id' sl1 sl2 h1 h2 heq
  · intro j b rgj q xq hbj hrgj hxq hqlt hxm _
    by_cases hjq : (j, q) = (id, sl.slotIndex)
    · simp only [Prod.mk.injEq] at hjq
      obtain ⟨rfl, rfl⟩ := hjq
      exact ⟨t, _, alookup_aset_self _ _ _, rfl⟩
    · obtain ⟨t', sl', hl', hq'⟩ := hI.owed j b rgj q xq hbj hrgj hxq hqlt hxm (by
        intro h; apply hjq; exact (Option.some.inj h).symm)
      have hne : t' ≠ t := by
        intro h; subst h; rw [hnot] at hl'; cases hl'
      exact ⟨t', sl', by rw [alookup_aset_ne _ _ _ _ hne]; exact hl', hq'⟩
  · intro c hc; exact hsub c (hI.ids c hc)
  · intro t' v hlook
    by_cases ht : t' = t
    · subst ht; exact htC
    · rw [alookup_aset_ne _ _ _ _ ht] at hlook
      exact hsub t' (hI.pkeys t' v hlook)

/-- taking trial `t`'s entry out of `P` leaves its slot as the exception -/
theorem inv_adel {g : Manager} {P : List (Nat × (Nat × SlotInRung))} {C : List Nat}
    (hI : InvExc g P C none) (t id : Nat) (sl : SlotInRung) (hlook : alookup t P = some (id, sl)) :
    InvExc g (adel t P) C (some (id, sl.slotIndex)) := by
  refine ⟨hI.mwf, ?_, hI.keys.sublist (keys_adel_sublist t P), ?_, ?_, hI.ids, ?_, hI.disjoint⟩
  · intro t' id' sl' h'
    have hne : t' ≠ t := by
      intro h; subst h; rw [alookup_adel_self _ _ hI.keys] at h'; cases h'
    rw [alookup_adel_ne _ _ _ hne] at h'
    obtain ⟨b', rg', x', hb', hps, _⟩ := hI.pend t' id' sl' h'
    refine ⟨b', rg', x', hb', hps, ?_⟩
    intro h
    simp only [Option.some.injEq, Prod.mk.injEq] at h
    obtain ⟨rfl, hq⟩ := h
    exact hne (hI.distinct t' t id sl' sl h' hlook hq.symm)
  · intro t1 t2 id' sl1 sl2 h1 h2 heq
    have hne1 : t1 ≠ t := by
      intro h; subst h; rw [alookup_adel_self _ _ hI.keys] at h1; cases h1
    have hne2 : t2 ≠ t := by
      intro h; subst h; rw [alookup_adel_self _ _ hI.keys] at h2; cases h2
    rw [alookup_adel_ne _ _ _ hne1] at h1
    rw [alookup_adel_ne _ _ _ hne2] at h2
    exact hI.distinct t1 t2 id' sl1 sl2 h1 h2 heq
  · intro j b rgj q xq hbj hrgj hxq hqlt hxm hexc
    obtain ⟨t', sl', hl', hq'⟩ := hI.owed j b rgj q xq hbj hrgj hxq hqlt hxm (by simp)
    have hne : t' ≠ t := by
      intro h; subst h
      rw [hlook] at hl'
      simp only [Option.some.injEq, Prod.mk.injEq] at hl'
      obtain ⟨rfl, rfl⟩ := hl'
      exact hexc (by rw [hq'])
    exact ⟨t', sl', by rw [alookup_adel_ne _ _ _ hne]; exact hl', hq'⟩
  · intro t' v h'
    have hne : t' ≠ t := by
      intro h; subst h; rw [alookup_adel_self _ _ hI.keys] at h'; cases h'
    rw [alookup_adel_ne _ _ _ hne] at h'
    exact hI.pkeys t' v h'

end SyneTune.Sync
