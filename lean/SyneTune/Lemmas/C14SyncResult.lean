import SyneTune.Lemmas.C14SyncState
/- C14 synchronous composition: `on_trial_result` of a running trial keeps the invariant —
below the milestone without / with an update of the searcher, and at the milestone. -/
namespace SyneTune.Sync.C14S
open SyneTune.C14 SyneTune.C14Comp

/-- a report below the milestone which is not passed on (or passed with `update=False`) -/
theorem cinvS_relast {y : SysS} (h : CInvS y) {t id : Nat} {sl : SlotInRung}
    (hlook : alookup t y.sched.pending = some (id, sl)) {r : Nat} (hlast : y.lastOf t < r)
    (hr : r < sl.level) :
    CInvS { sched := y.sched, st := y.st, last := aset t r y.last } := by
  refine ⟨h.inv, h.pnd, h.owf, h.pend, h.conv, ?_, ?_, h.fin⟩
  · intro t' id' sl' hl'
    rw [lastOf_aset]
    by_cases he : t' = t
    · subst he
      change alookup t' y.sched.pending = some (id', sl') at hl'
      rw [hlook] at hl'
      simp only [Option.some.injEq, Prod.mk.injEq] at hl'
      obtain ⟨_, rfl⟩ := hl'
      simpa using hr
    · simp only [he, if_false]
      exact h.lastOk t' id' sl' hl'
  · intro t' r' hl'
    rcases h.obs t' r' hl' with h1 | ⟨id', sl', hl2, h1, h2, h3⟩
    · exact Or.inl h1
    · refine Or.inr ⟨id', sl', hl2, h1, ?_, h3⟩
      rw [lastOf_aset]
      by_cases he : t' = t
      · subst he
        simp only [if_true]
        omega
      · simp only [he, if_false]
        exact h2

/-- a report below the milestone, in the window of the run, `searcher_data = "all"`: one new
observation -/
theorem cinvS_label_run {y : SysS} (h : CInvS y) {t id : Nat} {sl : SlotInRung}
    (hlook : alookup t y.sched.pending = some (id, sl)) {r : Nat} (hlast : y.lastOf t < r)
    (hr : r < sl.level) (hprev : y.sched.prevLvl id sl.rungIndex < r) (hall : y.sched.searcherAll = true)
    (c : Rat) :
    CInvS { sched := y.sched, st := y.st.label t r c, last := aset t r y.last } := by
  have hfresh := fresh_level h hlook hprev hlast
  have hnone := (lab_false_iff _ _ _).mp hfresh
  have hobs' : ∀ t' r', obsAt y.st t' r' ≠ none → obsAt (y.st.label t r c) t' r' = obsAt y.st t' r' := by
    intro t' r' hne
    rw [obsAt_label]
    by_cases he : t' = t ∧ r' = r
    · obtain ⟨rfl, rfl⟩ := he; exact absurd hnone hne
    · simp only [he, if_false]
  refine ⟨h.inv, nodup_dropPending _ _ _ h.pnd, label_wf _ _ _ _ h.owf, ?_, ?_, ?_, ?_, ?_⟩
  · intro p hp
    exact h.pend p (mem_of_mem_dropPending _ _ _ _ hp)
  · intro t' id' sl' hl' hs
    have := h.conv t' id' sl' hl' hs
    apply mem_dropPending_of_ne _ _ _ _ this
    intro he
    simp only [Prod.mk.injEq] at he
    obtain ⟨rfl, he2⟩ := he
    change alookup t' y.sched.pending = some (id', sl') at hl'
    rw [hlook] at hl'
    simp only [Option.some.injEq, Prod.mk.injEq] at hl'
    obtain ⟨_, rfl⟩ := hl'
    omega
  · intro t' id' sl' hl'
    rw [lastOf_aset]
    by_cases he : t' = t
    · subst he
      change alookup t' y.sched.pending = some (id', sl') at hl'
      rw [hlook] at hl'
      simp only [Option.some.injEq, Prod.mk.injEq] at hl'
      obtain ⟨_, rfl⟩ := hl'
      simpa using hr
    · simp only [he, if_false]
      exact h.lastOk t' id' sl' hl'
  · intro t' r' hl'
    change (y.st.label t r c).isLabeled t' r' = true at hl'
    rw [isLabeled_label] at hl'
    simp only [Bool.or_eq_true, decide_eq_true_eq] at hl'
    by_cases he : t' = t ∧ r' = r
    · obtain ⟨rfl, rfl⟩ := he
      refine Or.inr ⟨id, sl, hlook, hprev, ?_, hall⟩
      rw [lastOf_aset]; simp
    · have hold : y.st.isLabeled t' r' = true := by
        rcases hl' with hl' | hl'
        · exact absurd hl' he
        · exact hl'
      have hsome : obsAt y.st t' r' ≠ none := by
        intro hc; rw [(lab_false_iff _ _ _).mpr hc] at hold; cases hold
      rcases h.obs t' r' hold with ⟨j, k, p, m, hs, a1, a2, a3, a4⟩ | ⟨id', sl', hl2, h1, h2, h3⟩
      · refine Or.inl ⟨j, k, p, m, hs, a1, a2, ?_, a4⟩
        intro hrl
        obtain ⟨x, hx, ho⟩ := a3 hrl
        refine ⟨x, hx, ?_⟩
        change obsAt (y.st.label t r c) t' r' = some (y.st.crit x)
        rw [hobs' t' r' hsome]; exact ho
      · refine Or.inr ⟨id', sl', hl2, h1, ?_, h3⟩
        rw [lastOf_aset]
        by_cases he' : t' = t
        · subst he'
          simp only [if_true]
          omega
        · simp only [he', if_false]
          exact h2
  · intro t' j k p x hs
    have := h.fin t' j k p x hs
    change obsAt (y.st.label t r c) t' (y.sched.lvl j k) = some (y.st.crit x)
    rw [hobs' _ _ (by rw [this]; simp)]; exact this

/-- the milestone report: the slot is answered, the trial leaves `_trial_to_pending_slot`, the
observation at the milestone is written and its pending evaluation (if any) removed -/
theorem cinvS_milestone {y : SysS} (h : CInvS y) {t id : Nat} {sl : SlotInRung}
    (hlook : alookup t y.sched.pending = some (id, sl)) {s' : Sched} (hI' : Inv s')
    (hp' : s'.pending = adel t y.sched.pending) (hsa : s'.searcherAll = y.sched.searcherAll)
    (hsys : s'.mgr.bracketRungs = y.sched.mgr.bracketRungs)
    (hfr : Frame y.sched.mgr s'.mgr (some (id, sl.rungIndex, sl.slotIndex))) (x : Rat)
    (hans : s'.mgr.SlotAt id sl.rungIndex sl.slotIndex ⟨some t, some (.val x)⟩) :
    CInvS { sched := s', st := y.st.label t sl.level (y.st.crit x), last := aset t sl.level y.last } := by
  obtain ⟨hlv, hplt, _⟩ := pend_level h.inv hlook
  have hlastlt := h.lastOk t id sl hlook
  have hfresh := fresh_level h hlook (by rw [hlv]; exact hplt) hlastlt
  have hnone := (lab_false_iff _ _ _).mp hfresh
  have hobs' : ∀ t' r', obsAt y.st t' r' ≠ none →
      obsAt (y.st.label t sl.level (y.st.crit x)) t' r' = obsAt y.st t' r' := by
    intro t' r' hne
    rw [obsAt_label]
    by_cases he : t' = t ∧ r' = sl.level
    · obtain ⟨rfl, rfl⟩ := he; exact absurd hnone hne
    · simp only [he, if_false]
  have hlvl' : ∀ j k, s'.lvl j k = y.sched.lvl j k := by intro j k; simp only [Sched.lvl, hsys]
  have hprev' : ∀ j k, s'.prevLvl j k = y.sched.prevLvl j k := by intro j k; simp only [Sched.prevLvl, hsys]
  have hlk : ∀ t', t' ≠ t → alookup t' s'.pending = alookup t' y.sched.pending := by
    intro t' hne; rw [hp']; exact alookup_adel_ne _ _ _ hne
  have hlkt : alookup t s'.pending = none := by rw [hp']; exact alookup_adel_self _ _ h.inv.keys
  have hansne : ∀ t' id' sl', t' ≠ t → alookup t' y.sched.pending = some (id', sl') →
      (some (id, sl.rungIndex, sl.slotIndex) : Option (Nat × Nat × Nat)) ≠ some (id', sl'.rungIndex, sl'.slotIndex) := by
    intro t' id' sl' hne hl' he
    exact hne (slot_owner_unique h.inv hlook hl' (Option.some.inj he).symm)
  refine ⟨hI', nodup_dropPending _ _ _ h.pnd, label_wf _ _ _ _ h.owf, ?_, ?_, ?_, ?_, ?_⟩
  · -- pending evaluations
    intro p hp
    change p ∈ dropPending t sl.level y.st.pending at hp
    have hp0 := mem_of_mem_dropPending _ _ _ _ hp
    obtain ⟨id', sl', hl', hpl, hs⟩ := h.pend p hp0
    have hne : p.1 ≠ t := by
      intro he
      rw [he, hlook] at hl'
      simp only [Option.some.injEq, Prod.mk.injEq] at hl'
      obtain ⟨rfl, rfl⟩ := hl'
      apply not_mem_dropPending t sl.level _ h.pnd
      have : p = (t, sl.level) := by obtain ⟨a, b⟩ := p; simp only at he hpl; rw [he, hpl]
      rw [← this]; exact hp
    refine ⟨id', sl', by change alookup p.1 s'.pending = _; rw [hlk _ hne]; exact hl', hpl, ?_⟩
    exact hfr.fwd _ _ _ _ hs (hansne p.1 id' sl' hne hl')
  · -- started trials have their milestone pending
    intro t' id' sl' hl' hs
    change alookup t' s'.pending = some (id', sl') at hl'
    have hne : t' ≠ t := by intro he; rw [he, hlkt] at hl'; cases hl'
    rw [hlk _ hne] at hl'
    have hs0 := (started_iff h.inv hfr hl' (hansne t' id' sl' hne hl')).mp hs
    have := h.conv t' id' sl' hl' hs0
    apply mem_dropPending_of_ne _ _ _ _ this
    intro he
    simp only [Prod.mk.injEq] at he
    exact hne he.1
  · intro t' id' sl' hl'
    change alookup t' s'.pending = some (id', sl') at hl'
    have hne : t' ≠ t := by intro he; rw [he, hlkt] at hl'; cases hl'
    rw [hlk _ hne] at hl'
    rw [lastOf_aset]
    simp only [hne, if_false]
    exact h.lastOk t' id' sl' hl'
  · -- observations
    intro t' r' hl'
    change (y.st.label t sl.level (y.st.crit x)).isLabeled t' r' = true at hl'
    rw [isLabeled_label] at hl'
    simp only [Bool.or_eq_true, decide_eq_true_eq] at hl'
    by_cases he : t' = t ∧ r' = sl.level
    · obtain ⟨rfl, rfl⟩ := he
      refine Or.inl ⟨id, sl.rungIndex, sl.slotIndex, .val x, hans, ?_, ?_, ?_, ?_⟩
      · rw [hprev', hlv]; exact hplt
      · rw [hlvl', hlv]
      · intro _
        refine ⟨x, rfl, ?_⟩
        change obsAt (y.st.label t' sl.level (y.st.crit x)) t' sl.level = some (y.st.crit x)
        rw [obsAt_label]; simp
      · intro _; rw [hlvl', hlv]
    · have hold : y.st.isLabeled t' r' = true := by
        rcases hl' with hl' | hl'
        · exact absurd hl' he
        · exact hl'
      have hsome : obsAt y.st t' r' ≠ none := by
        intro hc; rw [(lab_false_iff _ _ _).mpr hc] at hold; cases hold
      rcases h.obs t' r' hold with ⟨j, k, p, m, hs, a1, a2, a3, a4⟩ | ⟨id', sl', hl2, h1, h2, h3⟩
      · refine Or.inl ⟨j, k, p, m, fwd_occupied h.inv hlook hfr hs rfl, ?_, ?_, ?_, ?_⟩
        · rw [hprev']; exact a1
        · rw [hlvl']; exact a2
        · intro hrl
          rw [hlvl'] at hrl
          obtain ⟨x', hx, ho⟩ := a3 hrl
          refine ⟨x', hx, ?_⟩
          change obsAt (y.st.label t sl.level (y.st.crit x)) t' r' = some (y.st.crit x')
          rw [hobs' t' r' hsome]; exact ho
        · intro hsa'
          rw [hlvl']
          exact a4 (by rw [← hsa]; exact hsa')
      · by_cases het : t' = t
        · subst het
          rw [hlook] at hl2
          simp only [Option.some.injEq, Prod.mk.injEq] at hl2
          obtain ⟨rfl, rfl⟩ := hl2
          refine Or.inl ⟨id, sl.rungIndex, sl.slotIndex, .val x, hans, ?_, ?_, ?_, ?_⟩
          · rw [hprev']; exact h1
          · rw [hlvl', ← hlv]; omega
          · intro hrl
            rw [hlvl', ← hlv] at hrl
            omega
          · intro hsa'
            rw [hsa, h3] at hsa'; cases hsa'
        · refine Or.inr ⟨id', sl', by change alookup t' s'.pending = _; rw [hlk _ het]; exact hl2, ?_, ?_, ?_⟩
          · rw [hprev']; exact h1
          · rw [lastOf_aset]; simp only [het, if_false]; exact h2
          · rw [hsa]; exact h3
  · -- finite rung entries
    intro t' j k p x' hs
    change obsAt (y.st.label t sl.level (y.st.crit x)) t' (s'.lvl j k) = some (y.st.crit x')
    rw [hlvl']
    rcases hfr.bwd j k p t' (.val x') hs with hold | hnew
    · have := h.fin t' j k p x' hold
      rw [hobs' _ _ (by rw [this]; simp)]; exact this
    · simp only [Option.some.injEq, Prod.mk.injEq] at hnew
      obtain ⟨rfl, rfl, rfl⟩ := hnew
      have := slotAt_functional hs hans
      simp only [Slot.mk.injEq, Option.some.injEq, Metric.val.injEq] at this
      obtain ⟨rfl, rfl⟩ := this
      rw [← hlv, obsAt_label]; simp

end SyneTune.Sync.C14S
