import SyneTune.Model.EarlyRemoval
/-
Lemmas about `Model/EarlyRemoval.lean`, part 1: association lists, the removal loop
(`picks.foldl removeCp`), case analysis of `on_loop_end`, histories as snoc lists.
-/
namespace SyneTune.Early
open SyneTune

/-! ### association lists -/

theorem alookup_aset {β} (k u : Nat) (v : β) (l : List (Nat × β)) :
    alookup u (aset k v l) = if u = k then some v else alookup u l := by
  induction l with
  | nil => simp [aset, alookup]
  | cons hd tl ih =>
    obtain ⟨k', v'⟩ := hd
    by_cases hk : k = k'
    · subst hk
      by_cases hu : u = k <;> simp [aset, alookup, hu]
    · by_cases hu : u = k'
      · subst hu
        have : ¬ u = k := fun h => hk h.symm
        simp [aset, alookup, hk, this]
      · simp [aset, alookup, hk, hu, ih]

theorem alookup_aset_self {β} (k : Nat) (v : β) (l : List (Nat × β)) : alookup k (aset k v l) = some v := by
  rw [alookup_aset]; simp

theorem alookup_aset_ne {β} {k u : Nat} (v : β) (l : List (Nat × β)) (h : u ≠ k) :
    alookup u (aset k v l) = alookup u l := by
  rw [alookup_aset]; simp [h]

theorem aerase_cons {β} (k k' : Nat) (v' : β) (tl : List (Nat × β)) :
    aerase k ((k', v') :: tl) = if k' = k then aerase k tl else (k', v') :: aerase k tl := by
  unfold aerase
  by_cases h : k' = k <;> simp [h]

theorem alookup_aerase {β} (k u : Nat) (l : List (Nat × β)) :
    alookup u (aerase k l) = if u = k then none else alookup u l := by
  induction l with
  | nil => simp [aerase, alookup]
  | cons hd tl ih =>
    obtain ⟨k', v'⟩ := hd
    rw [aerase_cons]
    by_cases hk : k' = k
    · subst hk
      rw [if_pos rfl, ih]
      by_cases hu : u = k' <;> simp [alookup, hu]
    · rw [if_neg hk]
      by_cases hu : u = k'
      · subst hu; simp [alookup, hk]
      · simp [alookup, hu, ih]

theorem alookup_aerase_self {β} (k : Nat) (l : List (Nat × β)) : alookup k (aerase k l) = none := by
  rw [alookup_aerase]; simp

theorem alookup_aerase_ne {β} {k u : Nat} (l : List (Nat × β)) (h : u ≠ k) :
    alookup u (aerase k l) = alookup u l := by
  rw [alookup_aerase]; simp [h]

theorem aerase_eq_self {β} (k : Nat) (l : List (Nat × β)) (h : alookup k l = none) : aerase k l = l := by
  induction l with
  | nil => rfl
  | cons hd tl ih =>
    obtain ⟨k', v'⟩ := hd
    by_cases hk : k = k'
    · simp [alookup, hk] at h
    · simp only [alookup, hk, if_false] at h
      have hk' : ¬ k' = k := fun e => hk e.symm
      rw [aerase_cons, if_neg hk', ih h]

theorem alookup_some_mem {β} {k : Nat} {v : β} {l : List (Nat × β)} (h : alookup k l = some v) : (k, v) ∈ l := by
  induction l with
  | nil => simp [alookup] at h
  | cons hd tl ih =>
    obtain ⟨k', v'⟩ := hd
    by_cases hk : k = k'
    · subst hk; simp [alookup] at h; simp [h]
    · simp [alookup, hk] at h; exact List.mem_cons_of_mem _ (ih h)

theorem alookup_none_of_not_mem_keys {β} {k : Nat} {l : List (Nat × β)} (h : k ∉ l.map (·.1)) : alookup k l = none := by
  induction l with
  | nil => rfl
  | cons hd tl ih =>
    obtain ⟨k', v'⟩ := hd
    simp only [List.map_cons, List.mem_cons, not_or] at h
    simp [alookup, h.1, ih h.2]

theorem alookup_of_mem_nodup {β} {k : Nat} {v : β} {l : List (Nat × β)} (hn : (l.map (·.1)).Nodup) (h : (k, v) ∈ l) :
    alookup k l = some v := by
  induction l with
  | nil => simp at h
  | cons hd tl ih =>
    obtain ⟨k', v'⟩ := hd
    simp only [List.map_cons, List.nodup_cons] at hn
    rcases List.mem_cons.1 h with h1 | h2
    · cases h1; simp [alookup]
    · have hne : k ≠ k' := by
        intro he; subst he
        exact hn.1 (List.mem_map.2 ⟨(k, v), h2, rfl⟩)
      simp [alookup, hne, ih hn.2 h2]

theorem keys_aset {β} (k : Nat) (v : β) (l : List (Nat × β)) :
    (aset k v l).map (·.1) = if k ∈ l.map (·.1) then l.map (·.1) else l.map (·.1) ++ [k] := by
  induction l with
  | nil => simp [aset]
  | cons hd tl ih =>
    obtain ⟨k', v'⟩ := hd
    by_cases hk : k = k'
    · subst hk; simp [aset]
    · simp only [aset, hk, if_false, List.map_cons, ih, List.mem_cons, false_or]
      split <;> simp

theorem keys_nodup_aset {β} (k : Nat) (v : β) (l : List (Nat × β)) (h : (l.map (·.1)).Nodup) :
    ((aset k v l).map (·.1)).Nodup := by
  rw [keys_aset]
  split
  · exact h
  · rename_i hk
    rw [List.nodup_append]
    refine ⟨h, by simp, ?_⟩
    intro a ha b hb
    simp only [List.mem_singleton] at hb
    subst hb
    intro he; subst he; exact hk ha

/-- replacing the status of a trial that has a checkpoint by one that has none: one fewer -/
theorem countP_aset_drop {β} (f : β → Bool) (k : Nat) (v v' : β) (l : List (Nat × β))
    (h : alookup k l = some v) (hv : f v = true) (hv' : f v' = false) :
    (aset k v' l).countP (fun e => f e.2) + 1 = l.countP (fun e => f e.2) := by
  induction l with
  | nil => simp [alookup] at h
  | cons hd tl ih =>
    obtain ⟨k', w⟩ := hd
    by_cases hk : k = k'
    · subst hk
      simp [alookup] at h
      subst h
      simp [aset, hv, hv']
    · simp [alookup, hk] at h
      simp only [aset, hk, if_false, List.countP_cons]
      have := ih h
      omega

/-- replacing a status by another one that `f` judges the same: same count -/
theorem countP_aset_same {β} (f : β → Bool) (k : Nat) (v v' : β) (l : List (Nat × β))
    (h : alookup k l = some v) (hv : f v = f v') :
    (aset k v' l).countP (fun e => f e.2) = l.countP (fun e => f e.2) := by
  induction l with
  | nil => simp [alookup] at h
  | cons hd tl ih =>
    obtain ⟨k', w⟩ := hd
    by_cases hk : k = k'
    · subst hk
      simp [alookup] at h
      subst h
      simp [aset, List.countP_cons, hv]
    · simp [alookup, hk] at h
      simp only [aset, hk, if_false, List.countP_cons]
      rw [ih h]

/-- a duplicate-free list all of whose members lie in another list is no longer than that list -/
theorem length_le_of_nodup_subset {α} [DecidableEq α] :
    ∀ (l₁ l₂ : List α), l₁.Nodup → (∀ x ∈ l₁, x ∈ l₂) → l₁.length ≤ l₂.length
  | [], _, _, _ => Nat.zero_le _
  | a :: l, l₂, hn, hs => by
    have hn' := List.nodup_cons.1 hn
    have ha : a ∈ l₂ := hs a (List.mem_cons_self ..)
    have hsub : ∀ x ∈ l, x ∈ l₂.erase a := by
      intro x hx
      have hne : x ≠ a := fun he => hn'.1 (he ▸ hx)
      exact (List.mem_erase_of_ne hne).2 (hs x (List.mem_cons_of_mem _ hx))
    have ih := length_le_of_nodup_subset l (l₂.erase a) hn'.2 hsub
    rw [List.length_erase_of_mem ha] at ih
    have : 0 < l₂.length := List.length_pos_of_mem ha
    simp only [List.length_cons]
    omega

/-! ### histories as snoc lists -/

theorem snoc_induction {α} {P : List α → Prop} (h0 : P []) (hs : ∀ l a, P l → P (l ++ [a])) : ∀ l, P l := by
  intro l
  have : ∀ r : List α, P r.reverse := by
    intro r
    induction r with
    | nil => exact h0
    | cons a r ih => rw [List.reverse_cons]; exact hs _ _ ih
  have h := this l.reverse
  rwa [List.reverse_reverse] at h

theorem runFrom_snoc (p : Params) (s : State) (h : List Op) (op : Op) :
    runFrom p s (h ++ [op]) = (step p (runFrom p s h) op).1 := by
  simp [runFrom, List.foldl_append]

theorem run_snoc (p : Params) (h : List Op) (op : Op) : run p (h ++ [op]) = (step p (run p h) op).1 :=
  runFrom_snoc p _ h op

theorem run_nil (p : Params) : run p [] = State.init := rfl

theorem traceFrom_snoc (p : Params) (s : State) (h : List Op) (op : Op) :
    traceFrom p s (h ++ [op]) = traceFrom p s h ++ [(op, (step p (runFrom p s h) op).2)] := by
  induction h generalizing s with
  | nil => simp [traceFrom, runFrom]
  | cons a h ih =>
    simp only [List.cons_append, traceFrom, ih]
    simp [runFrom]

theorem trace_snoc (p : Params) (h : List Op) (op : Op) :
    trace p (h ++ [op]) = trace p h ++ [(op, (step p (run p h) op).2)] :=
  traceFrom_snoc p _ h op

theorem trace_nil (p : Params) : trace p [] = [] := rfl

theorem trace_length (p : Params) (h : List Op) : (trace p h).length = h.length := by
  unfold trace
  generalize State.init = s
  induction h generalizing s with
  | nil => rfl
  | cons a h ih => simp [traceFrom, ih]

theorem legalFrom_snoc (p : Params) (s : State) (h : List Op) (op : Op) :
    LegalFrom p s (h ++ [op]) ↔ LegalFrom p s h ∧ OpOK (runFrom p s h) op := by
  induction h generalizing s with
  | nil => simp [LegalFrom, runFrom]
  | cons a h ih =>
    simp only [List.cons_append, LegalFrom, ih]
    simp [runFrom, and_assoc]

theorem legal_snoc (p : Params) (h : List Op) (op : Op) :
    Legal p (h ++ [op]) ↔ Legal p h ∧ OpOK (run p h) op :=
  legalFrom_snoc p _ h op

theorem legal_nil (p : Params) : Legal p [] := trivial

/-! ### the admissibility test -/

theorem checkPicks_none_iff (filt picks : List (Nat × Nat)) (k : Nat) :
    checkPicks filt picks k = none ↔
      picks.length = k ∧ (∀ e ∈ picks, e ∈ filt) ∧ (picks.map (·.1)).Nodup := by
  unfold checkPicks
  by_cases h1 : picks.length = k
  · rw [if_neg (fun hn => hn h1)]
    by_cases h2 : ∀ e ∈ picks, e ∈ filt
    · rw [if_neg (fun hn => hn h2)]
      by_cases h3 : (picks.map (·.1)).Nodup
      · rw [if_neg (fun hn => hn h3)]; exact ⟨fun _ => ⟨h1, h2, h3⟩, fun _ => rfl⟩
      · rw [if_pos h3]; exact ⟨(fun h => by cases h), fun h => absurd h.2.2 h3⟩
    · rw [if_pos h2]; exact ⟨(fun h => by cases h), fun h => absurd h.2.1 h2⟩
  · rw [if_pos h1]; exact ⟨(fun h => by cases h), fun h => absurd h.1 h1⟩

theorem mem_filterPaused {s : State} {paused : List (Nat × Nat)} {e : Nat × Nat} :
    e ∈ filterPaused s paused ↔ e ∈ paused ∧ alookup e.1 s.removed = none := by
  simp [filterPaused, List.mem_filter, Option.isNone_iff_eq_none]

/-! ### case analysis of `on_loop_end` -/

/-- the outcomes of `on_loop_end`, one by one -/
inductive LoopEndCase (p : Params) (s : State) (paused : List (Nat × Nat)) (picks : Option (List (Nat × Nat))) :
    State × Out → Prop
  | within (h : excess p s ≤ 0) : LoopEndCase p s paused picks (s, .deleted [])
  | raised (h : 0 < excess p s) (he : filterPaused s paused = []) (hv : p.variant = .estimator) :
      LoopEndCase p s paused picks (s, .raised)
  | oracleRaised (h : 0 < excess p s) (hne : ¬ (filterPaused s paused = [] ∧ p.variant = .estimator))
      (hp : picks = none) : LoopEndCase p s paused picks (s, .oracleRaised)
  | rejected (h : 0 < excess p s) (hne : ¬ (filterPaused s paused = [] ∧ p.variant = .estimator))
      (pk : List (Nat × Nat)) (hp : picks = some pk) (e : OracleErr) : LoopEndCase p s paused picks (s, .rejected e)
  | removed (h : 0 < excess p s) (hne : ¬ (filterPaused s paused = [] ∧ p.variant = .estimator))
      (pk : List (Nat × Nat)) (hp : picks = some pk)
      (hlen : pk.length = min (excess p s).toNat (filterPaused s paused).length)
      (hmem : ∀ e ∈ pk, e ∈ filterPaused s paused) (hnd : (pk.map (·.1)).Nodup) :
      LoopEndCase p s paused picks (pk.foldl removeCp s, .deleted (pk.map (·.1)))

theorem loopEnd_cases (p : Params) (s : State) (paused : List (Nat × Nat)) (picks : Option (List (Nat × Nat))) :
    LoopEndCase p s paused picks (loopEnd p s paused picks) := by
  unfold loopEnd
  by_cases h : excess p s ≤ 0
  · rw [if_pos h]; exact .within h
  · rw [if_neg h]
    have h' : 0 < excess p s := by omega
    by_cases hr : filterPaused s paused = [] ∧ p.variant = .estimator
    · rw [if_pos hr]; exact .raised h' hr.1 hr.2
    · rw [if_neg hr]
      cases picks with
      | none => exact .oracleRaised h' hr rfl
      | some pk =>
        simp only
        cases hc : checkPicks (filterPaused s paused) pk (min (excess p s).toNat (filterPaused s paused).length) with
        | some e => exact .rejected h' hr pk rfl e
        | none =>
          obtain ⟨h1, h2, h3⟩ := (checkPicks_none_iff _ _ _).1 hc
          exact .removed h' hr pk rfl h1 h2 h3

/-! ### the removal loop -/

theorem foldl_removeCp_status (picks : List (Nat × Nat)) (s : State) (t : Nat) :
    (picks.foldl removeCp s).statusOf t =
      if t ∈ picks.map (·.1) then some .pausedNoCp else s.statusOf t := by
  induction picks generalizing s with
  | nil => simp
  | cons e rest ih =>
    simp only [List.foldl_cons, ih, List.map_cons, List.mem_cons]
    by_cases h1 : t ∈ rest.map (·.1)
    · simp [h1]
    · by_cases h2 : t = e.1
      · subst h2; simp [h1, removeCp, State.statusOf, alookup_aset_self]
      · simp [h1, h2, removeCp, State.statusOf, alookup_aset_ne _ _ h2]

theorem foldl_removeCp_removed (picks : List (Nat × Nat)) (s : State) (t : Nat) (hnd : (picks.map (·.1)).Nodup) :
    alookup t (picks.foldl removeCp s).removed =
      if t ∈ picks.map (·.1) then alookup t picks else alookup t s.removed := by
  induction picks generalizing s with
  | nil => simp
  | cons e rest ih =>
    obtain ⟨k, l⟩ := e
    simp only [List.map_cons, List.nodup_cons] at hnd
    simp only [List.foldl_cons, ih _ hnd.2, List.map_cons, List.mem_cons]
    by_cases h2 : t = k
    · subst h2
      simp [hnd.1, removeCp, alookup, alookup_aset_self]
    · by_cases h1 : t ∈ rest.map (·.1)
      · simp [h1, h2, alookup]
      · simp [h1, h2, removeCp, alookup_aset_ne _ _ h2]

theorem foldl_removeCp_numRemoved (picks : List (Nat × Nat)) (s : State) :
    (picks.foldl removeCp s).numRemoved = s.numRemoved + picks.length := by
  induction picks generalizing s with
  | nil => simp
  | cons e rest ih => simp only [List.foldl_cons, ih, List.length_cons]; simp [removeCp]; omega

theorem foldl_removeCp_numResumed (picks : List (Nat × Nat)) (s : State) :
    (picks.foldl removeCp s).numResumed = s.numResumed := by
  induction picks generalizing s with
  | nil => simp
  | cons e rest ih => simp only [List.foldl_cons, ih]; simp [removeCp]

theorem foldl_removeCp_resumedNoCp (picks : List (Nat × Nat)) (s : State) :
    (picks.foldl removeCp s).resumedNoCp = s.resumedNoCp := by
  induction picks generalizing s with
  | nil => simp
  | cons e rest ih => simp only [List.foldl_cons, ih]; simp [removeCp]

theorem foldl_removeCp_keys_nodup (picks : List (Nat × Nat)) (s : State) (h : (s.status.map (·.1)).Nodup) :
    ((picks.foldl removeCp s).status.map (·.1)).Nodup := by
  induction picks generalizing s with
  | nil => simpa
  | cons e rest ih => simp only [List.foldl_cons]; exact ih _ (keys_nodup_aset _ _ _ h)

/-- removing the checkpoints of distinct trials each of which is PAUSED_WITH_CHECKPOINT lowers the
number of checkpoints by their number and leaves the number of running trials alone -/
theorem foldl_removeCp_count (picks : List (Nat × Nat)) (s : State) (hnd : (picks.map (·.1)).Nodup)
    (hst : ∀ e ∈ picks, s.statusOf e.1 = some .pausedCp) :
    countCp (picks.foldl removeCp s) + picks.length = countCp s ∧
    numRunning (picks.foldl removeCp s) = numRunning s := by
  induction picks generalizing s with
  | nil => simp
  | cons e rest ih =>
    simp only [List.map_cons, List.nodup_cons] at hnd
    have he : s.statusOf e.1 = some .pausedCp := hst e (List.mem_cons_self ..)
    have hrest : ∀ e' ∈ rest, (removeCp s e).statusOf e'.1 = some .pausedCp := by
      intro e' he'
      have hne : e'.1 ≠ e.1 := fun h => hnd.1 (h ▸ List.mem_map.2 ⟨e', he', rfl⟩)
      simp only [removeCp, State.statusOf, alookup_aset_ne _ _ hne]
      exact hst e' (List.mem_cons_of_mem _ he')
    obtain ⟨i1, i2⟩ := ih (removeCp s e) hnd.2 hrest
    have c1 : countCp (removeCp s e) + 1 = countCp s :=
      countP_aset_drop hasCp e.1 .pausedCp .pausedNoCp s.status he rfl rfl
    have c2 : numRunning (removeCp s e) = numRunning s :=
      countP_aset_same isRunning e.1 .pausedCp .pausedNoCp s.status he rfl
    simp only [List.foldl_cons, List.length_cons]
    exact ⟨by omega, by omega⟩

end SyneTune.Early
