import SyneTune.Model.GPExec
import Mathlib.LinearAlgebra.Matrix.NonsingularInverse
import Mathlib.LinearAlgebra.Matrix.Block
import Mathlib.Algebra.BigOperators.Fin
import Mathlib.Analysis.SpecialFunctions.Log.Basic
import Mathlib.Analysis.SpecialFunctions.Trigonometric.Basic
/-
Helper lemmas for C08/C09: the executable model `Model/GPExec.lean` read as Mathlib
matrices, the specification of the triangular solves, and the matrix identities behind
the GP posterior formulas.  Everything is over an arbitrary field `𝕜`
(so it holds for the `Rat` twin and for `ℝ`).
-/
set_option linter.unusedSectionVars false
set_option linter.unusedSimpArgs false
namespace SyneTune.GP
open Matrix

variable {𝕜 : Type} [Field 𝕜] {n m t k : ℕ}

/-- a model matrix read as a Mathlib matrix -/
def toM (A : Mat 𝕜 n m) : Matrix (Fin n) (Fin m) 𝕜 := Matrix.of fun i j => A[i][j]

/-- a model vector read as a function -/
def toV (x : Vec 𝕜 n) : Fin n → 𝕜 := fun i => x[i]

@[simp] theorem toM_apply (A : Mat 𝕜 n m) (i : Fin n) (j : Fin m) : toM A i j = A[i][j] := rfl
@[simp] theorem toV_apply (x : Vec 𝕜 n) (i : Fin n) : toV x i = x[i] := rfl

@[simp] theorem toM_of (f : Fin n → Fin m → 𝕜) : toM (Mat.of f) = Matrix.of f := by
  ext i j; simp

@[simp] theorem toV_of (f : Fin n → 𝕜) : toV (Vec.of f) = f := by
  ext i; simp

theorem Mat.ext' {A B : Mat 𝕜 n m} (h : ∀ (i : Fin n) (j : Fin m), A[i][j] = B[i][j]) : A = B := by
  apply Vector.ext; intro i hi
  apply Vector.ext; intro j hj
  exact h ⟨i, hi⟩ ⟨j, hj⟩

theorem toM_injective : Function.Injective (toM : Mat 𝕜 n m → _) := by
  intro A B h
  apply Mat.ext'
  intro i j
  have := congrFun (congrFun h i) j
  simpa using this

@[simp] theorem sumFin_eq (f : Fin n → 𝕜) : sumFin f = ∑ i, f i := by
  unfold sumFin; exact List.sum_ofFn

@[simp] theorem dot_eq (u v : Fin n → 𝕜) : dot u v = ∑ i, u i * v i := by
  unfold dot; simp

@[simp] theorem prodFin_eq (f : Fin n → 𝕜) : prodFin f = ∏ i, f i := by
  unfold prodFin
  rw [← List.prod_ofFn]
  rfl

@[simp] theorem toM_matMul (A : Mat 𝕜 n k) (B : Mat 𝕜 k m) : toM (matMul A B) = toM A * toM B := by
  ext i j; simp [matMul, Matrix.mul_apply]

@[simp] theorem toM_transpose (A : Mat 𝕜 n m) : toM (transpose A) = (toM A)ᵀ := by
  ext i j; simp [transpose]

@[simp] theorem toV_col (A : Mat 𝕜 n m) (j : Fin m) : toV (col A j) = fun i => toM A i j := by
  ext i; simp [col]

@[simp] theorem toM_ofCols (C : Fin m → Vec 𝕜 n) : toM (ofCols C) = Matrix.of fun i j => toV (C j) i := by
  ext i j; simp [ofCols]

@[simp] theorem toM_scaleM (K : Mat 𝕜 n m) (s : 𝕜) : toM (scaleM K s) = s • toM K := by
  ext i j; simp [scaleM, mul_comm]

/-! ### borders -/

/-- `[[A, c], [r, d]]` as a Mathlib matrix -/
def borderM (A : Matrix (Fin n) (Fin n) 𝕜) (c r : Fin n → 𝕜) (d : 𝕜) :
    Matrix (Fin (n + 1)) (Fin (n + 1)) 𝕜 :=
  Matrix.of fun i j =>
    Fin.lastCases (Fin.lastCases d (fun j' => r j') j) (fun i' => Fin.lastCases (c i') (fun j' => A i' j') j) i

/-- a matrix with one more row -/
def snocRowM (A : Matrix (Fin n) (Fin m) 𝕜) (r : Fin m → 𝕜) : Matrix (Fin (n + 1)) (Fin m) 𝕜 :=
  Matrix.of fun i j => Fin.lastCases (r j) (fun i' => A i' j) i

@[simp] theorem borderM_cc (A : Matrix (Fin n) (Fin n) 𝕜) (c r d) (i j : Fin n) :
    borderM A c r d i.castSucc j.castSucc = A i j := by simp [borderM]
@[simp] theorem borderM_cl (A : Matrix (Fin n) (Fin n) 𝕜) (c r d) (i : Fin n) :
    borderM A c r d i.castSucc (Fin.last n) = c i := by simp [borderM]
@[simp] theorem borderM_lc (A : Matrix (Fin n) (Fin n) 𝕜) (c r d) (j : Fin n) :
    borderM A c r d (Fin.last n) j.castSucc = r j := by simp [borderM]
@[simp] theorem borderM_ll (A : Matrix (Fin n) (Fin n) 𝕜) (c r d) :
    borderM A c r d (Fin.last n) (Fin.last n) = d := by simp [borderM]
@[simp] theorem snocRowM_c (A : Matrix (Fin n) (Fin m) 𝕜) (r) (i : Fin n) (j : Fin m) :
    snocRowM A r i.castSucc j = A i j := by simp [snocRowM]
@[simp] theorem snocRowM_l (A : Matrix (Fin n) (Fin m) 𝕜) (r) (j : Fin m) :
    snocRowM A r (Fin.last n) j = r j := by simp [snocRowM]

theorem push_get_castSucc {α : Type} (x : Vector α n) (a : α) (i : Fin n) :
    (x.push a)[i.castSucc] = x[i] := by
  simp [Vector.getElem_push]

theorem push_get_last {α : Type} (x : Vector α n) (a : α) :
    (x.push a)[Fin.last n] = a := by
  simp [Vector.getElem_push]

theorem toM_border (A : Mat 𝕜 n n) (c r : Vec 𝕜 n) (d : 𝕜) :
    toM (border A c r d) = borderM (toM A) (toV c) (toV r) d := by
  ext i j
  refine Fin.lastCases ?_ (fun i' => ?_) i <;> refine Fin.lastCases ?_ (fun j' => ?_) j <;>
    simp [border, Vector.getElem_push]

theorem toM_push (P : Mat 𝕜 n m) (p : Vec 𝕜 m) :
    toM (P.push p : Mat 𝕜 (n + 1) m) = snocRowM (toM P) (toV p) := by
  ext i j
  refine Fin.lastCases ?_ (fun i' => ?_) i <;> simp [Vector.getElem_push]

theorem toM_lead (A : Mat 𝕜 (n + 1) (n + 1)) : toM (lead A) = Matrix.of fun i j => toM A i.castSucc j.castSucc := by
  ext i j; simp [lead]

/-! ### triangular matrices and the substitutions -/

/-- entries above the diagonal vanish -/
def LowerTri (L : Mat 𝕜 n n) : Prop := ∀ i j : Fin n, i < j → L[i][j] = 0

/-- no zero on the diagonal -/
def DiagNZ (L : Mat 𝕜 n n) : Prop := ∀ i : Fin n, L[i][i] ≠ 0

theorem LowerTri.isLowerTriangular {L : Mat 𝕜 n n} (h : LowerTri L) : (toM L).IsLowerTriangular := by
  intro i j hij
  exact h i j hij

theorem det_toM {L : Mat 𝕜 n n} (h : LowerTri L) : (toM L).det = ∏ i : Fin n, L[i][i] := by
  rw [Matrix.det_of_isLowerTriangular _ h.isLowerTriangular]; rfl

theorem isUnit_det_toM {L : Mat 𝕜 n n} (h : LowerTri L) (hd : DiagNZ L) : IsUnit (toM L).det := by
  rw [det_toM h, isUnit_iff_ne_zero]
  exact Finset.prod_ne_zero_iff.mpr fun i _ => hd i

theorem LowerTri.lead {L : Mat 𝕜 (n + 1) (n + 1)} (h : LowerTri L) : LowerTri (lead L) := by
  intro i j hij
  simp only [GP.lead, Mat.of_get]
  exact h _ _ (by simpa using hij)

theorem DiagNZ.lead {L : Mat 𝕜 (n + 1) (n + 1)} (h : DiagNZ L) : DiagNZ (lead L) := by
  intro i
  simp only [GP.lead, Mat.of_get]
  exact h _

/-- **forward substitution solves the system**: `L · solveLower L b = b`. -/
theorem solveLower_spec : ∀ (n : ℕ) (L : Mat 𝕜 n n) (b : Vec 𝕜 n), LowerTri L → DiagNZ L →
    ∀ i : Fin n, ∑ j : Fin n, L[i][j] * (solveLower n L b)[j] = b[i]
  | 0, _, _, _, _ => fun i => i.elim0
  | n + 1, L, b, hL, hd => by
    intro i
    have ih := solveLower_spec n (lead L) (initV b) hL.lead hd.lead
    rw [Fin.sum_univ_castSucc]
    simp only [solveLower, push_get_castSucc, push_get_last]
    refine Fin.lastCases ?_ (fun i' => ?_) i
    · have hne := hd (Fin.last n)
      simp only [dot_eq]
      field_simp
      ring
    · have h0 : L[i'.castSucc][Fin.last n] = 0 := hL _ _ (Fin.castSucc_lt_last i')
      have := ih i'
      simp only [lead, initV, Mat.of_get, Vec.of_get] at this
      rw [h0, zero_mul, add_zero]
      exact this

/-- **back substitution with the transpose solves the system**: `Lᵀ · solveLowerT L b = b`. -/
theorem solveLowerT_spec : ∀ (n : ℕ) (L : Mat 𝕜 n n) (b : Vec 𝕜 n), LowerTri L → DiagNZ L →
    ∀ i : Fin n, ∑ j : Fin n, L[j][i] * (solveLowerT n L b)[j] = b[i]
  | 0, _, _, _, _ => fun i => i.elim0
  | n + 1, L, b, hL, hd => by
    intro i
    have ih := solveLowerT_spec n (lead L)
      (Vec.of fun i => b[i.castSucc] - L[Fin.last n][i.castSucc] * (b[Fin.last n] / L[Fin.last n][Fin.last n]))
      hL.lead hd.lead
    rw [Fin.sum_univ_castSucc]
    simp only [solveLowerT, push_get_castSucc, push_get_last]
    refine Fin.lastCases ?_ (fun i' => ?_) i
    · have hne := hd (Fin.last n)
      have h0 : ∀ j : Fin n, L[j.castSucc][Fin.last n] = 0 := fun j => hL _ _ (Fin.castSucc_lt_last j)
      simp only [h0, zero_mul, Finset.sum_const_zero, zero_add]
      field_simp
    · have e : ∀ i j : Fin n, (lead L)[i][j] = L[i.castSucc][j.castSucc] := fun i j => by simp [lead]
      have := ih i'
      simp only [e, Vec.of_get] at this
      rw [this]
      ring

theorem solveLowerM_get (L : Mat 𝕜 n n) (B : Mat 𝕜 n m) (i : Fin n) (j : Fin m) :
    (solveLowerM L B)[i][j] = (solveLower n L (GP.col B j))[i] := by
  simp [solveLowerM, ofCols]

theorem solveLowerM_spec (L : Mat 𝕜 n n) (B : Mat 𝕜 n m) (hL : LowerTri L) (hd : DiagNZ L) :
    toM L * toM (solveLowerM L B) = toM B := by
  ext i j
  simp only [solveLowerM, toM_ofCols, Matrix.mul_apply, toM_apply, Matrix.of_apply, toV_apply]
  have := solveLower_spec n L (col B j) hL hd i
  simpa [col] using this

theorem solveLowerTM_spec (L : Mat 𝕜 n n) (B : Mat 𝕜 n m) (hL : LowerTri L) (hd : DiagNZ L) :
    (toM L)ᵀ * toM (solveLowerTM L B) = toM B := by
  ext i j
  simp only [solveLowerTM, toM_ofCols, Matrix.mul_apply, toM_apply, Matrix.of_apply, toV_apply,
    Matrix.transpose_apply]
  have := solveLowerT_spec n L (col B j) hL hd i
  simpa [col] using this

/-! ### the model's posterior formulas as matrix expressions -/

theorem toM_predMean (V : Mat 𝕜 n t) (P : Mat 𝕜 n m) (ms : Vec 𝕜 t) :
    toM (predMean V P ms) = (toM V)ᵀ * toM P + Matrix.of fun i _ => ms[i] := by
  ext i j; simp [predMean, Matrix.mul_apply]

theorem predVarRaw_get (V : Mat 𝕜 n t) (kd : Vec 𝕜 t) (i : Fin t) :
    (predVarRaw V kd)[i] = kd[i] - ((toM V)ᵀ * toM V) i i := by
  simp [predVarRaw, Matrix.mul_apply]

theorem toM_jointCov (V : Mat 𝕜 n t) (Kss : Mat 𝕜 t t) :
    toM (jointCov V Kss) = toM Kss - (toM V)ᵀ * toM V := by
  ext i j; simp [jointCov, Matrix.mul_apply]

/-! ### matrix identities -/

section identities
variable {L : Matrix (Fin n) (Fin n) 𝕜}

theorem core_id (hL : IsUnit L.det) : Lᵀ * (L * Lᵀ)⁻¹ * L = 1 := by
  have hLt : IsUnit Lᵀ.det := by rwa [Matrix.det_transpose]
  rw [Matrix.mul_inv_rev, ← Matrix.mul_assoc, Matrix.mul_nonsing_inv _ hLt, Matrix.one_mul,
    Matrix.nonsing_inv_mul _ hL]

/-- with `L V = K*` and `L P = R`:  `Vᵀ P = K*ᵀ (L Lᵀ)⁻¹ R`. -/
theorem quad_form (hL : IsUnit L.det) {V : Matrix (Fin n) (Fin t) 𝕜} {P : Matrix (Fin n) (Fin m) 𝕜}
    {Ks : Matrix (Fin n) (Fin t) 𝕜} {R : Matrix (Fin n) (Fin m) 𝕜}
    (hV : L * V = Ks) (hP : L * P = R) : Vᵀ * P = Ksᵀ * (L * Lᵀ)⁻¹ * R := by
  subst hV hP
  rw [Matrix.transpose_mul]
  calc Vᵀ * P = Vᵀ * (Lᵀ * (L * Lᵀ)⁻¹ * L) * P := by rw [core_id hL, Matrix.mul_one]
    _ = Vᵀ * Lᵀ * (L * Lᵀ)⁻¹ * (L * P) := by simp only [Matrix.mul_assoc]

/-- a solution of `L X = B` is unique for invertible `L` -/
theorem solve_unique (hL : IsUnit L.det) {X X' : Matrix (Fin n) (Fin m) 𝕜} {B : Matrix (Fin n) (Fin m) 𝕜}
    (h : L * X = B) (h' : L * X' = B) : X = X' := by
  have : L⁻¹ * (L * X) = L⁻¹ * (L * X') := by rw [h, h']
  simpa [← Matrix.mul_assoc, Matrix.nonsing_inv_mul _ hL] using this

theorem det_mul_transpose_self (hL : L.IsLowerTriangular) : (L * Lᵀ).det = (∏ i, L i i) ^ 2 := by
  rw [Matrix.det_mul, Matrix.det_transpose, Matrix.det_of_isLowerTriangular _ hL, sq]

end identities

/-! ### the rank-one border update -/

section update

theorem border_factor (L : Matrix (Fin n) (Fin n) 𝕜) (l : Fin n → 𝕜) (lam : 𝕜) :
    borderM L 0 l lam * (borderM L 0 l lam)ᵀ =
      borderM (L * Lᵀ) (L *ᵥ l) (L *ᵥ l) (∑ k, l k * l k + lam * lam) := by
  ext i j
  refine Fin.lastCases ?_ (fun i' => ?_) i <;> refine Fin.lastCases ?_ (fun j' => ?_) j <;>
    simp [Matrix.mul_apply, Fin.sum_univ_castSucc, Matrix.mulVec, dotProduct, mul_comm]

theorem border_solve (L : Matrix (Fin n) (Fin n) 𝕜) (l : Fin n → 𝕜) (lam : 𝕜)
    (P : Matrix (Fin n) (Fin m) 𝕜) (p : Fin m → 𝕜) :
    borderM L 0 l lam * snocRowM P p =
      snocRowM (L * P) (fun j => ∑ k, l k * P k j + lam * p j) := by
  ext i j
  refine Fin.lastCases ?_ (fun i' => ?_) i <;>
    simp [Matrix.mul_apply, Fin.sum_univ_castSucc]

theorem LowerTri.border {L : Mat 𝕜 n n} (h : LowerTri L) (l : Vec 𝕜 n) (lam : 𝕜) :
    LowerTri (border L (Vec.of fun _ => 0) l lam) := by
  intro i j
  have e := congrFun (congrFun (toM_border L (Vec.of fun _ => 0) l lam) i) j
  simp only [toM_apply] at e
  rw [e]
  refine Fin.lastCases ?_ (fun i' => ?_) i <;> refine Fin.lastCases ?_ (fun j' => ?_) j
  · simp
  · intro hlt; exact absurd hlt (by simp [Fin.le_last])
  · simp
  · intro hlt
    simp only [borderM_cc, toM_apply]
    exact h _ _ (by simpa using hlt)

theorem DiagNZ.border {L : Mat 𝕜 n n} (h : DiagNZ L) (c l : Vec 𝕜 n) {lam : 𝕜} (hl : lam ≠ 0) :
    DiagNZ (border L c l lam) := by
  intro i
  have e := congrFun (congrFun (toM_border L c l lam) i) i
  simp only [toM_apply] at e
  rw [e]
  refine Fin.lastCases ?_ (fun i' => ?_) i
  · simpa using hl
  · simpa using h i'

theorem toM_updL (sqrt : 𝕜 → 𝕜) [LT 𝕜] [DecidableLT 𝕜] (minDiag : 𝕜) (L : Mat 𝕜 n n) (P : Mat 𝕜 n m)
    (scale kdiag noise mscal : 𝕜) (target : Vec 𝕜 m) (lvec : Vec 𝕜 n) :
    let U := cholUpdateWith sqrt minDiag L P scale kdiag noise mscal target lvec
    toM U.L = borderM (toM L) 0 (toV lvec) U.lscal := by
  intro U
  show toM (border L (Vec.of fun _ => 0) lvec _) = _
  rw [toM_border]
  congr 1
  ext i; simp

theorem computeLvec_spec (L : Mat 𝕜 n n) (kvec : Vec 𝕜 n) (scale : 𝕜) (hL : LowerTri L) (hd : DiagNZ L) :
    toM L *ᵥ toV (computeLvec L kvec scale) = fun i => kvec[i] * scale := by
  ext i
  have := solveLower_spec n L (Vec.of fun i => kvec[i] * scale) hL hd i
  simpa [Matrix.mulVec, dotProduct, computeLvec] using this

end update

/-! ### order: `maxOf`, `absOf` -/

section order
variable {𝕂 : Type} [Field 𝕂] [LinearOrder 𝕂] [IsStrictOrderedRing 𝕂]

theorem maxOf_eq_max (a b : 𝕂) : maxOf a b = max a b := by
  unfold maxOf
  split_ifs with h
  · exact (max_eq_right (le_of_lt h)).symm
  · exact (max_eq_left (not_lt.mp h)).symm

theorem absOf_eq_abs (a : 𝕂) : absOf a = |a| := by
  unfold absOf
  split_ifs with h
  · exact (abs_of_neg h).symm
  · exact (abs_of_nonneg (not_lt.mp h)).symm

end order

/-! ### the negative log marginal likelihood (needs `Real.log`, hence not in the executable model) -/

/-- `negative_log_marginal_likelihood(chol_fact, pred_mat)`:
```
sqnorm_predmat = anp.sum(anp.square(pred_mat))
logdet_cholfact = 2.0 * anp.sum(anp.log(anp.abs(anp.diag(chol_fact))))
n_samples = getval(pred_mat.size)
part1 = 0.5 * (n_samples * anp.log(2 * anp.pi) + logdet_cholfact)
part2 = 0.5 * sqnorm_predmat
return part1 + part2
```
(the `assert pred_mat.shape[1] == 1` is the hypothesis `m = 1` of the theorem about it). -/
noncomputable def nll {n m : ℕ} (L : Mat ℝ n n) (P : Mat ℝ n m) : ℝ :=
  let sqnorm_predmat := sqNorm P
  let logdet_cholfact := 2 * ∑ i : Fin n, Real.log (absOf L[i][i])
  let n_samples : ℝ := ((n * m : ℕ) : ℝ)
  let part1 := (1 / 2) * (n_samples * Real.log (2 * Real.pi) + logdet_cholfact)
  let part2 := (1 / 2) * sqnorm_predmat
  part1 + part2

theorem sqNorm_one_col {n : ℕ} (P : Mat 𝕜 n 1) : sqNorm P = ((toM P)ᵀ * toM P) 0 0 := by
  simp [sqNorm, Matrix.mul_apply]

theorem logdet_eq {n : ℕ} (L : Mat ℝ n n) (hL : LowerTri L) (hd : DiagNZ L) :
    2 * ∑ i : Fin n, Real.log (absOf L[i][i]) = Real.log (toM L * (toM L)ᵀ).det := by
  rw [det_mul_transpose_self hL.isLowerTriangular, Real.log_pow]
  have : (∏ i, toM L i i) = ∏ i : Fin n, L[i][i] := rfl
  rw [this, Real.log_prod (fun i _ => hd i)]
  simp [absOf_eq_abs]

/-! ### `AddJitterOp` only changes the diagonal -/

section jitter
variable {𝕂 : Type} [Field 𝕂] [LinearOrder 𝕂] [IsStrictOrderedRing 𝕂]

theorem toM_addDiag (x : Mat 𝕂 n n) (c : 𝕂) : toM (addDiag x c) = toM x + c • (1 : Matrix (Fin n) (Fin n) 𝕂) := by
  ext i j
  by_cases h : i = j
  · subst h; simp [addDiag]
  · simp [addDiag, h, Matrix.one_apply_ne h]

theorem jitterLoop_spec (eps : 𝕂) (x : Mat 𝕂 n n) (s init g ub : 𝕂) (hi : 0 ≤ init) (hg : 0 ≤ g) :
    ∀ (fuel k : ℕ) (jit : 𝕂) (r : JitterOut 𝕂 n), 0 ≤ jit →
      jitterLoop eps x s init g ub fuel k jit = some r →
      r.sys = addDiag x (s + r.jitter) ∧ isPD eps n r.sys = true ∧ 0 ≤ r.jitter ∧ r.jitter ≤ ub := by
  intro fuel
  induction fuel with
  | zero => intro k jit r _ h; simp [jitterLoop] at h
  | succ fuel ih =>
    intro k jit r hj h
    unfold jitterLoop at h
    by_cases h1 : ub < jit
    · simp [h1] at h
    · simp only [h1, if_false] at h
      by_cases h2 : isPD eps n (addDiag x (s + jit)) = true
      · simp only [h2, if_true, Option.some.injEq] at h
        subst h
        exact ⟨rfl, h2, hj, not_lt.mp h1⟩
      · simp only [h2] at h
        refine ih (k + 1) _ r ?_ h
        split_ifs
        · exact hi
        · exact mul_nonneg hj hg

end jitter

end SyneTune.GP
