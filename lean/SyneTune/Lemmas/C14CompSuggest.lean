import SyneTune.Lemmas.C14CompFrame
import SyneTune.Lemmas.C14CompSchedule
/- C14 composed system: the invariant under `_suggest` (new trial started / paused trial
promoted), and acceptance of the `register_pending` calls it issues. -/
namespace SyneTune.C14Comp
open SyneTune SyneTune.C04K SyneTune.C14 SyneTune.C13Hb

theorem mem_rangeIncl {a b x : Nat} (h : x ∈ rangeIncl a b) : a ≤ x ∧ x ≤ b := by
  simp only [rangeIncl, List.mem_map, List.mem_range] at h
  obtain ⟨i, hi, rfl⟩ := h
  omega

theorem suggest_cases (s s' : Sched) (newTid bracket : Nat) (hint : Option Nat) (sg : Suggestion)
    (calls : List SCall) (fr : Bool) (h : s.suggest newTid bracket hint = .ok (s', sg, calls, fr)) :
    ∃ g1 so ms fr0, s.mgr.taskSchedule bracket hint = .ok (g1, so, ms, fr0) ∧
      ((so = none ∧ alookup newTid s.active = none ∧ ∃ g2 first, g1.taskAdd newTid bracket none = .ok (g2, first) ∧
          s' = { s with mgr := g2, active := aset newTid { bracket := bracket } s.active } ∧
          calls = (s.pendingNew first).map (SCall.pending newTid)) ∨
       (∃ o rec g2 first, so = some o ∧
          g1.taskAdd o.trial bracket (some (o.milestone, o.resumeFrom)) = .ok (g2, first) ∧
          alookup o.trial s.active = some rec ∧ rec.decision ≠ .continue ∧
          s' = { s with mgr := g2, active := aset o.trial { rec with decision := .continue } s.active } ∧
          calls = (s.pendingResume o).map (SCall.pending o.trial))) := by
  unfold Sched.suggest at h
  cases hts : s.mgr.taskSchedule bracket hint with
  | error e => simp [hts] at h
  | ok res =>
    obtain ⟨g1, so, ms, fr0⟩ := res
    simp only [hts] at h
    refine ⟨g1, so, ms, fr0, rfl, ?_⟩
    cases so with
    | none =>
      left
      simp only at h
      unfold Sched.suggestStart at h
      by_cases hex : (alookup newTid s.active).isSome = true
      · simp [hex] at h
      · simp only [hex, Bool.false_eq_true, if_false] at h
        have hnone : alookup newTid s.active = none := by
          cases hl : alookup newTid s.active with
          | none => rfl
          | some x => simp [hl] at hex
        cases hta : g1.taskAdd newTid bracket none with
        | error e => simp [hta] at h
        | ok r2 =>
          obtain ⟨g2, first⟩ := r2
          simp only [hta] at h
          injection h with h
          simp only [Prod.mk.injEq] at h
          obtain ⟨e1, _, e3, _⟩ := h
          exact ⟨rfl, hnone, g2, first, rfl, e1.symm, e3.symm⟩
    | some o =>
      right
      simp only at h
      unfold Sched.suggestResume at h
      cases hta : g1.taskAdd o.trial bracket (some (o.milestone, o.resumeFrom)) with
      | error e => simp [hta] at h
      | ok r2 =>
        obtain ⟨g2, first⟩ := r2
        simp only [hta] at h
        cases hl : alookup o.trial s.active with
        | none => simp [hl] at h
        | some rec =>
          simp only [hl] at h
          by_cases hd : rec.decision = .continue
          · simp [hd] at h
          · simp only [hd, if_false] at h
            injection h with h
            simp only [Prod.mk.injEq] at h
            obtain ⟨e1, _, e3, _⟩ := h
            exact ⟨o, rec, g2, first, rfl, hta, hl, hd, e1.symm, e3.symm⟩

theorem opStep_suggest (s : Sched) (n b : Nat) (hint : Option Nat) :
    opStep s (.suggest n b hint) =
      match s.suggest n b hint with | .ok res => (res.1, res.2.2.1) | .error _ => (s, []) := rfl

/-- `_suggest`: the invariant is preserved and the searcher accepts all `register_pending`
calls (none of them is for a level which already has an observation) -/
theorem cinv_suggest (y : Sys) (n b : Nat) (hint : Option Nat) (h : CInv y) :
    CInv (stepC y (.suggest n b hint)) ∧ ∃ st', y.st.applyAll (opStep y.sched (.suggest n b hint)).2 = .ok st' := by
  unfold stepC
  rw [opStep_suggest]
  cases hs : y.sched.suggest n b hint with
  | error e => exact ⟨by simpa [SState.applyAll] using h, ⟨y.st, rfl⟩⟩
  | ok res =>
    obtain ⟨s', sg, calls, fr⟩ := res
    simp only
    obtain ⟨g1, so, ms, fr0, hts, hc⟩ := suggest_cases y.sched s' n b hint sg calls fr hs
    obtain ⟨t1, t2, t3, t4⟩ := taskSchedule_effect y.sched.mgr g1 b hint so ms fr0 hts h.wf
    have hw1 : MgrWF g1 := MgrWF_of_shape t1 h.wf
    have hkinv : s'.mgr.type.pauseResume = true → y.sched.mgr.type.pauseResume = true → KInv s' :=
      fun _ hpr => (suggest_KInv y.sched s' n b hint sg calls fr (h.kinv hpr) hs).1
    rcases hc with ⟨rfl, hnone, g2, first, hta, rfl, rfl⟩ | ⟨o, rec, g2, first, rfl, hta, hrec, hdec, rfl, rfl⟩
    · -- a new trial is started
      obtain ⟨a1, a2, a3, a4, _⟩ := taskAdd_effect g1 g2 n b none first hta hw1
      obtain ⟨m1, m2, m3⟩ := a4 rfl
      have hsh : shape g2 = shape y.sched.mgr := a1.trans t1
      obtain ⟨_, _, x3, x4, _, _⟩ := shape_fields hsh
      have u : Upd1 y.sched { y.sched with mgr := g2, active := aset n { bracket := b } y.sched.active } n
          (some { bracket := b }) :=
        ⟨fun t => alookup_aset _ _ _ _, hsh, rfl, fun t ht => (a2 t ht).trans (t2 t)⟩
      have hunl : ∀ r ∈ y.sched.pendingNew first, y.st.isLabeled n r = false := by
        intro r _
        cases hl : y.st.isLabeled n r with
        | false => rfl
        | true =>
          obtain ⟨rec, g1', _⟩ := h.obs n r hl
          rw [hnone] at g1'; cases g1'
      rw [applyAll_pending y.st n _ hunl]
      refine ⟨?_, _, rfl⟩
      simp only
      have hents : ∀ L e, EntIn g2.systems L e →
          ∃ e0, EntIn y.sched.mgr.systems L e0 ∧ e0.tid = e.tid ∧ (e.promoted = false → e0.promoted = false) :=
        fun L e he => t3 L e (a3 L e he)
      refine ⟨MgrWF_of_shape hsh h.wf, ?_, ?_, ?_, ?_, nodup_addPend _ _ _ h.pnd, ?_, h.owf, ?_, ?_⟩
      · intro hpr
        have hpr' : y.sched.mgr.type.pauseResume = true := by rw [← u.type]; exact hpr
        exact hkinv hpr hpr'
      · apply EntOK_upd1 u h.ent
        · intro rec hr; rw [hnone] at hr; cases hr
        · intro L e he; exact Or.inl (hents L e he)
        · intro _ L e0 he0 ht _ _ _
          obtain ⟨rec, g1', _⟩ := h.ent L e0 he0
          rw [ht, hnone] at g1'; cases g1'
      · apply RunningOK_upd1 u h.run
        intro rec hr _
        injection hr with hr; subst hr
        show 0 < milestoneOf g2 n 0 ∧ (milestoneOf g2 n 0 = g2.maxT ∨ milestoneOf g2 n 0 ∈ g2.rungLevels)
        rw [m1, x3, x4, ← (shape_fields t1).2.2.1, ← (shape_fields t1).2.2.2.1]
        exact ⟨m2, m3⟩
      · apply UpdOK_upd1 u h.upd
        intro rec hr l hl
        injection hr with hr; subst hr; cases hl
      · apply PendOK_upd1 (y := y) (y' := ⟨_, _⟩) u h.pend
        · intro p hp hne
          rcases (mem_addPend n _ _ p).mp hp with hp | ⟨hp, _⟩
          · exact hp
          · exact absurd hp hne
        · intro p hp he
          rcases (mem_addPend n _ _ p).mp hp with hp | ⟨_, hp⟩
          · obtain ⟨rec, g1', _⟩ := h.pend p hp
            rw [he, hnone] at g1'; cases g1'
          · refine ⟨{ bracket := b }, rfl, rfl, ?_⟩
            show 0 < p.2 ∧ p.2 ≤ milestoneOf g2 n 0 ∧ (y.sched.searcherData = .rungs → p.2 = milestoneOf g2 n 0)
            rw [m1]
            unfold Sched.pendingNew at hp
            cases hsd : y.sched.searcherData with
            | rungs =>
              simp only [hsd, List.mem_singleton] at hp
              rw [hp]; exact ⟨m2, Nat.le_refl _, fun _ => rfl⟩
            | all =>
              simp only [hsd] at hp
              split at hp
              · simp only [List.mem_singleton] at hp
                rw [hp]; exact ⟨by omega, m2, fun hx => by cases hx⟩
              · have := mem_rangeIncl hp
                exact ⟨by omega, this.2, fun hx => by cases hx⟩
            | rungsAndLast =>
              simp only [hsd] at hp
              split at hp
              · simp only [List.mem_singleton] at hp
                rw [hp]; exact ⟨by omega, m2, fun hx => by cases hx⟩
              · have := mem_rangeIncl hp
                exact ⟨by omega, this.2, fun hx => by cases hx⟩
      · apply ObsOK_upd1 (y := y) (y' := ⟨_, _⟩) u h.obs
        · intro rec hr; rw [hnone] at hr; cases hr
        · intro t r hl; exact Or.inl hl
      · apply LastOK_upd1 (y := y) (y' := ⟨_, _⟩) u h.last
        · intro t r _ hl; exact hl
        · intro _ rec hr p hp _
          injection hr with hr; subst hr; cases hp
    · -- a paused trial is promoted
      obtain ⟨hpr, ⟨e, he, het, hep⟩, hmile⟩ := t4 o rfl
      have hpr1 : g1.type.pauseResume = true := by rw [(shape_fields t1).1]; exact hpr
      obtain ⟨a1, a2, a3, _, a5⟩ := taskAdd_effect g1 g2 o.trial b _ first hta hw1
      obtain ⟨m1, m2⟩ := a5 _ rfl hpr1
      simp only at m1 m2
      have hsh : shape g2 = shape y.sched.mgr := a1.trans t1
      obtain ⟨_, _, x3, x4, _, _⟩ := shape_fields hsh
      -- the promoted trial last reported at the level it is promoted from
      have hlast : lastRep rec ≤ o.resumeFrom := by
        obtain ⟨rec0, k1, _, k3⟩ := h.ent o.resumeFrom e he
        rw [het, hrec] at k1; injection k1 with k1; subst k1
        exact k3 hpr hep
      have u : Upd1 y.sched { y.sched with mgr := g2, active := aset o.trial { rec with decision := .continue } y.sched.active }
          o.trial (some { rec with decision := .continue }) :=
        ⟨fun t => alookup_aset _ _ _ _, hsh, rfl, fun t ht => (a2 t ht).trans (t2 t)⟩
      have hlevels : ∀ r ∈ y.sched.pendingResume o, lastRep rec < r ∧ r ≤ o.milestone ∧
          (y.sched.searcherData = .rungs → r = o.milestone) := by
        intro r hr
        unfold Sched.pendingResume at hr
        cases hsd : y.sched.searcherData with
        | rungs =>
          simp only [hsd, List.mem_singleton] at hr
          rw [hr]; exact ⟨by omega, Nat.le_refl _, fun _ => rfl⟩
        | all =>
          simp only [hsd] at hr
          split at hr
          · simp only [List.mem_singleton] at hr
            rw [hr]; exact ⟨by omega, by omega, fun hx => by cases hx⟩
          · have := mem_rangeIncl hr
            exact ⟨by omega, this.2, fun hx => by cases hx⟩
        | rungsAndLast =>
          simp only [hsd] at hr
          split at hr
          · simp only [List.mem_singleton] at hr
            rw [hr]; exact ⟨by omega, by omega, fun hx => by cases hx⟩
          · have := mem_rangeIncl hr
            exact ⟨by omega, this.2, fun hx => by cases hx⟩
      have hunl : ∀ r ∈ y.sched.pendingResume o, y.st.isLabeled o.trial r = false := by
        intro r hr
        cases hl : y.st.isLabeled o.trial r with
        | false => rfl
        | true =>
          obtain ⟨rec0, k1, k2⟩ := h.obs o.trial r hl
          rw [hrec] at k1; injection k1 with k1; subst k1
          have := (hlevels r hr).1
          omega
      rw [applyAll_pending y.st o.trial _ hunl]
      refine ⟨?_, _, rfl⟩
      simp only
      have hents : ∀ L e, EntIn g2.systems L e →
          ∃ e0, EntIn y.sched.mgr.systems L e0 ∧ e0.tid = e.tid ∧ (e.promoted = false → e0.promoted = false) :=
        fun L e he => t3 L e (a3 L e he)
      have hmono : ∀ rec0, alookup o.trial y.sched.active = some rec0 →
          ∃ rec', some ({ rec with decision := .continue } : TrialInfo) = some rec' ∧ lastRep rec0 ≤ lastRep rec' := by
        intro rec0 hr0
        rw [hrec] at hr0; injection hr0 with hr0; subst hr0
        exact ⟨_, rfl, Nat.le_refl _⟩
      refine ⟨MgrWF_of_shape hsh h.wf, ?_, ?_, ?_, ?_, nodup_addPend _ _ _ h.pnd, ?_, h.owf, ?_, ?_⟩
      · intro hpr'
        exact hkinv hpr' hpr
      · apply EntOK_upd1 u h.ent hmono
        · intro L e he; exact Or.inl (hents L e he)
        · intro hp L e0 he0 ht hpe rec' hr'
          injection hr' with hr'; subst hr'
          obtain ⟨rec0, k1, _, k3⟩ := h.ent L e0 he0
          rw [ht, hrec] at k1; injection k1 with k1; subst k1
          exact k3 hp hpe
      · apply RunningOK_upd1 u h.run
        intro rec' hr' _
        injection hr' with hr'; subst hr'
        show lastRep rec < milestoneOf g2 o.trial (lastRep rec) ∧
          (milestoneOf g2 o.trial (lastRep rec) = g2.maxT ∨ milestoneOf g2 o.trial (lastRep rec) ∈ g2.rungLevels)
        rw [m2, x3, x4]
        exact ⟨by omega, hmile⟩
      · apply UpdOK_upd1 u h.upd
        intro rec' hr' l hl
        injection hr' with hr'; subst hr'
        exact h.upd o.trial rec hrec l hl
      · apply PendOK_upd1 (y := y) (y' := ⟨_, _⟩) u h.pend
        · intro p hp hne
          rcases (mem_addPend o.trial _ _ p).mp hp with hp | ⟨hp, _⟩
          · exact hp
          · exact absurd hp hne
        · intro p hp he
          rcases (mem_addPend o.trial _ _ p).mp hp with hp | ⟨_, hp⟩
          · obtain ⟨rec0, k1, k2, _⟩ := h.pend p hp
            rw [he, hrec] at k1; injection k1 with k1; subst k1
            exact absurd k2 hdec
          · refine ⟨_, rfl, rfl, ?_⟩
            show lastRep rec < p.2 ∧ p.2 ≤ milestoneOf g2 o.trial (lastRep rec) ∧
              (y.sched.searcherData = .rungs → p.2 = milestoneOf g2 o.trial (lastRep rec))
            rw [m2]
            exact hlevels p.2 hp
      · apply ObsOK_upd1 (y := y) (y' := ⟨_, _⟩) u h.obs hmono
        intro t r hl; exact Or.inl hl
      · apply LastOK_upd1 (y := y) (y' := ⟨_, _⟩) u h.last
        · intro t r _ hl; exact hl
        · intro hsd rec' hr' p hp hk
          injection hr' with hr'; subst hr'
          exact h.last hsd o.trial rec hrec p hp hk

end SyneTune.C14Comp
