import SyneTune.Lemmas.TunerIds
/-
Behind C17 `rows`: the rows of the `StoreResultsCallback` are the results delivered to the
callbacks, in delivery order.
-/
namespace SyneTune.Tuner
open SyneTune

/-- what identifies a delivered result in a row / in a callback event -/
abbrev RowKey := Nat × Nat × Decision × St

def Row.key (r : Row) : RowKey := (r.tid, r.rid, r.decision, r.status)

/-- the `on_trial_result` callback events of a log, in order -/
def cbResults (l : List Call) : List RowKey :=
  l.filterMap (fun c => match c with | .cb (.result t r d st) => some (t, r, d, st) | _ => none)

theorem cbResults_append (l : List Call) (c : Call) :
    cbResults (l ++ [c]) = cbResults l ++ (match c with | .cb (.result t r d st) => [(t, r, d, st)] | _ => []) := by
  unfold cbResults
  rw [List.filterMap_append]
  cases c with
  | cb e => cases e <;> simp
  | _ => simp

theorem pending_cbResult (s : LState) :
    (match pending s with | .cb (.result t r d st) => [(t, r, d, st)] | _ => ([] : List RowKey)) =
      if s.pc = .cbResult then [(s.cur.tid, s.cur.rid, s.curD, s.curSt)] else [] := by
  unfold pending
  cases h : s.pc <;> simp

/-- rows and callback events: every `on_trial_result` event has its row, except the one that is
pending (or, inside the `finally` block, the last one if it was the call that raised) -/
structure RowsInv (s : LState) : Prop where
  noStore : s.cfg.store = false → s.rows = []
  rows : s.cfg.store = true → ∃ tail, cbResults s.log = s.rows.map Row.key ++ tail ∧ tail.length ≤ 1 ∧
      (s.pc = .cbResult → tail = [(s.cur.tid, s.cur.rid, s.curD, s.curSt)]) ∧
      (finPc s.pc = false → s.pc ≠ .cbResult → tail = [])

/-- how a step affects the rows -/
inductive RowsCase (s s' : LState) : Prop
  | toCb (h1 : s.pc = .decision) (h2 : s'.pc = .cbResult) (h3 : s'.rows = s.rows)
      (h4 : s'.cur.tid = s.cur.tid ∧ s'.cur.rid = s.cur.rid ∧ s'.curSt = s.curSt)
  | fromCb (h1 : s.pc = .cbResult) (h2 : s'.pc ≠ .cbResult) (h3 : s'.rows = (addRow s).rows) (h4 : finPc s'.pc = false)
  | other (h2 : s'.pc ≠ .cbResult) (h3 : s'.rows = s.rows) (h1 : s.pc = .cbResult → finPc s'.pc = true)

theorem secondItem_rows (s : LState) (t : Nat) (st : St) (rest : List (Nat × St)) :
    (secondItem s t st rest).rows = s.rows := by
  unfold secondItem; repeat' split
  all_goals rfl
theorem scheduled_rows (s : LState) (t : Nat) : (scheduled s t).rows = s.rows := by
  unfold scheduled addRunning; split <;> rfl

theorem secondItem_rowsCase (s : LState) (t : Nat) (st : St) (rest : List (Nat × St)) (hp : s.pc = .second) :
    RowsCase s (secondItem s t st rest) := by
  refine .other ?_ (secondItem_rows _ _ _ _) (fun hc => by rw [hp] at hc; cases hc)
  rcases secondItem_pc s t st rest with h | h
  · intro hc; rw [hc] at h; revert h; simp [flow, succs]
  · rw [h, hp]; exact pcne rfl

theorem afterUpdate_rowsCase (s : LState) (hp : s.pc = .afterUpd) : RowsCase s (afterUpdate s) := by
  refine .other ?_ rfl (fun hc => by rw [hp] at hc; cases hc)
  rcases afterUpdate_pc s with h | h | h <;> rw [h] <;> exact pcne rfl

theorem next_rows (s : LState) (a : Ans) : RowsCase s (next s a) := by
  unfold next
  split
  all_goals (rename_i hpc)
  all_goals (try simp only [])
  all_goals (repeat' split)
  all_goals first
    | exact .toCb hpc rfl rfl ⟨rfl, rfl, rfl⟩
    | exact .fromCb hpc (pcne rfl) rfl rfl
    | exact secondItem_rowsCase s _ _ _ hpc
    | exact afterUpdate_rowsCase s hpc
    | exact .other (by show s.pc ≠ _; rw [hpc]; exact pcne rfl) rfl (fun hc => by rw [hpc] at hc; cases hc)
    | exact .other (pcne rfl) rfl (fun _ => rfl)
    | exact .other (pcne rfl) rfl (fun hc => by rw [hpc] at hc; cases hc)
    | exact .other (pcne rfl) (scheduled_rows _ _) (fun hc => by rw [hpc] at hc; cases hc)

theorem addRow_rows_key (s : LState) (hs : s.cfg.store = true) :
    (addRow s).rows.map Row.key = s.rows.map Row.key ++ [(s.cur.tid, s.cur.rid, s.curD, s.curSt)] := by
  unfold addRow; simp [hs, Row.key]

theorem addRow_rows_nostore (s : LState) (hs : s.cfg.store = false) : (addRow s).rows = s.rows := by
  unfold addRow; simp [hs]

theorem RowsInv_step (s : LState) (a : Ans) (h : RowsInv s) : RowsInv (step s a) := by
  have hc := next_rows s a
  have hlog := next_log s a
  have hcfg := next_cfg s a
  have hfin : finPc (next s a).pc = false → finPc s.pc = false := by
    intro hf
    cases hh : finPc s.pc
    · rfl
    · have := fin_closed s a hh; rw [step_pc] at this; rw [this] at hf; cases hf
  have key : ∀ (l' : List Call), (l' = s.log ∧ (next s a).pc ≠ .cbResult) ∨ l' = s.log ++ [pending (next s a)] →
      ((next s a).cfg.store = false → (next s a).rows = []) ∧
      ((next s a).cfg.store = true → ∃ tail, cbResults l' = (next s a).rows.map Row.key ++ tail ∧ tail.length ≤ 1 ∧
        ((next s a).pc = .cbResult → tail = [((next s a).cur.tid, (next s a).cur.rid, (next s a).curD, (next s a).curSt)]) ∧
        (finPc (next s a).pc = false → (next s a).pc ≠ .cbResult → tail = [])) := by
    intro l' hl'
    have hl : cbResults l' = cbResults s.log ++
        (if (next s a).pc = .cbResult then [((next s a).cur.tid, (next s a).cur.rid, (next s a).curD, (next s a).curSt)] else []) := by
      rcases hl' with ⟨h1, h2⟩ | h1
      · rw [h1, if_neg h2, List.append_nil]
      · rw [h1, cbResults_append, pending_cbResult]
    rw [hcfg]
    cases hc with
    | toCb h1 h2 h3 h4 =>
      refine ⟨fun hs => by rw [h3]; exact h.noStore hs, fun hs => ?_⟩
      obtain ⟨tail, ht1, _, _, ht4⟩ := h.rows hs
      have htl : tail = [] := ht4 (by rw [h1]; rfl) (by rw [h1]; exact pcne rfl)
      rw [htl, List.append_nil] at ht1
      refine ⟨[((next s a).cur.tid, (next s a).cur.rid, (next s a).curD, (next s a).curSt)], ?_, by simp, fun _ => rfl,
        fun _ hne => absurd h2 hne⟩
      rw [hl, if_pos h2, ht1, h3]
    | fromCb h1 h2 h3 h4 =>
      refine ⟨fun hs => by rw [h3, addRow_rows_nostore s hs]; exact h.noStore hs, fun hs => ?_⟩
      obtain ⟨tail, ht1, _, ht3, _⟩ := h.rows hs
      have htl := ht3 h1
      refine ⟨[], ?_, by simp, fun hcc => absurd hcc h2, fun _ _ => rfl⟩
      rw [hl, if_neg h2, List.append_nil, List.append_nil, ht1, htl, h3, addRow_rows_key s hs]
    | other h2 h3 h1 =>
      refine ⟨fun hs => by rw [h3]; exact h.noStore hs, fun hs => ?_⟩
      obtain ⟨tail, ht1, ht2, _, ht4⟩ := h.rows hs
      refine ⟨tail, ?_, ht2, fun hcc => absurd hcc h2, fun hf _ => ?_⟩
      · rw [hl, if_neg h2, List.append_nil, ht1, h3]
      · apply ht4 (hfin hf)
        intro hcc
        rw [h1 hcc] at hf; cases hf
  rw [step_eq]
  by_cases hsil : ((next s a).pc.silent || decide (s.pc = .done)) = true
  · rw [if_pos hsil]
    have hne : (next s a).pc ≠ .cbResult := by
      intro hc'
      cases hc with
      | toCb h1 _ _ _ => rw [hc', h1] at hsil; cases hsil
      | fromCb _ h2 _ _ => exact h2 hc'
      | other h2 _ _ => exact h2 hc'
    obtain ⟨k1, k2⟩ := key (next s a).log (Or.inl ⟨hlog, hne⟩)
    exact ⟨k1, k2⟩
  · rw [if_neg hsil]
    obtain ⟨k1, k2⟩ := key ((next s a).log ++ [pending (next s a)]) (Or.inr (by rw [hlog]))
    exact ⟨k1, k2⟩

theorem RowsInv_init (c : Cfg) : RowsInv (init c) :=
  ⟨fun _ => rfl, fun _ => ⟨[], by simp [init, cbResults], by simp, (fun hc => nomatch hc), fun _ _ => rfl⟩⟩

theorem RowsInv_run (c : Cfg) (as : List Ans) : RowsInv (run (init c) as) :=
  run_inv (Inv := RowsInv) RowsInv_step as (init c) (RowsInv_init c)

end SyneTune.Tuner
