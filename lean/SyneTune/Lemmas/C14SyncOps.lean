import SyneTune.Lemmas.C14SyncBasic
/- C14 synchronous composition: what each scheduler operation does — new state, the searcher
calls emitted, the slots of the brackets before/after (`Frame`). -/
namespace SyneTune.Sync.C14S
open SyneTune.C14 SyneTune.C14Comp

/-! ### fields no operation touches; the calls emitted -/

theorem report_fields {s s1 : Sched} {id : Nat} {res : SlotInRung} (h : s.report id res = .ok s1) :
    s1.searcherAll = s.searcherAll ∧ s1.pending = s.pending ∧ s1.configs = s.configs := by
  unfold Sched.report at h
  split at h
  · cases h
  · injection h with h; subst h; exact ⟨rfl, rfl, rfl⟩

theorem register_fields {s s' : Sched} {t id : Nat} {sl : SlotInRung} (h : s.register t id sl = .ok s') :
    s'.searcherAll = s.searcherAll := by
  unfold Sched.register at h
  split at h
  · cases h
  · injection h with h; subst h; rfl

/-- `_suggest`: `register_pending` is called for a new trial only, with the milestone of its slot -/
theorem suggest_out {s s' : Sched} {tid : Nat} {c : Bool} {sg : Suggestion} {calls : List SCall}
    (h : s.suggest tid c = .ok (s', sg, calls)) :
    s'.searcherAll = s.searcherAll ∧
    calls = (match sg with | .start t _ _ _ l _ => [SCall.pending t l] | _ => []) := by
  unfold Sched.suggest at h
  split at h
  · cases h
  · simp only at h
    split at h
    · split at h
      · cases h
      · split at h
        · cases h
        · rename_i s2 hr
          injection h with h
          simp only [Prod.mk.injEq] at h
          obtain ⟨rfl, rfl, rfl⟩ := h
          exact ⟨by have := register_fields hr; exact this, rfl⟩
    · split at h
      · split at h
        · cases h
        · rename_i s3 hr
          injection h with h
          simp only [Prod.mk.injEq] at h
          obtain ⟨rfl, rfl, rfl⟩ := h
          exact ⟨by have := register_fields hr; exact this, rfl⟩
      · split at h
        · cases h
        · rename_i s2 hr
          injection h with h
          simp only [Prod.mk.injEq] at h
          obtain ⟨rfl, rfl, rfl⟩ := h
          unfold Sched.reportAsFailed at hr
          exact ⟨(report_fields hr).1, rfl⟩

theorem atMilestone_fields {s s1 : Sched} {t id r : Nat} {sl : SlotInRung} {v : Metric} {d : Decision}
    (h : s.atMilestone t id sl r v = .ok (s1, d)) : s1.searcherAll = s.searcherAll := by
  unfold Sched.atMilestone at h
  split at h
  · split at h
    · cases h
    · split at h
      · cases h
      · rename_i s2 hr
        injection h with h
        simp only [Prod.mk.injEq] at h
        obtain ⟨rfl, _⟩ := h
        exact (report_fields hr).1
  · injection h with h
    simp only [Prod.mk.injEq] at h
    obtain ⟨rfl, _⟩ := h
    rfl

/-- `on_trial_result` of a registered trial: one `searcher.on_trial_result` call iff
`resource > prev_level`, with `update = searcher_data == "all" or resource == milestone` -/
theorem onResult_out {s s' : Sched} {t r : Nat} {v : Metric} {d : Decision} {calls : List SCall}
    {id : Nat} {sl : SlotInRung} (hlook : alookup t s.pending = some (id, sl))
    (h : s.onResult t r v = .ok (s', d, calls)) :
    s'.searcherAll = s.searcherAll ∧ ∃ pv, s'.mgr.levelToPrevLevel id sl.level = .ok pv ∧
      calls = if pv < r then [SCall.update t r v (s.searcherAll || r == sl.level)] else [] := by
  unfold Sched.onResult at h
  rw [hlook] at h
  simp only at h
  split at h
  · cases h
  · split at h
    · cases h
    · rename_i s1 d1 hm
      split at h
      · cases h
      · rename_i prev hp
        split at h
        · rename_i hlt
          split at h
          · cases h
          · injection h with h
            simp only [Prod.mk.injEq] at h
            obtain ⟨rfl, rfl, rfl⟩ := h
            exact ⟨atMilestone_fields hm, prev, hp, by simp [hlt]⟩
        · rename_i hlt
          injection h with h
          simp only [Prod.mk.injEq] at h
          obtain ⟨rfl, rfl, rfl⟩ := h
          exact ⟨atMilestone_fields hm, prev, hp, by simp [hlt]⟩

theorem onError_out {s s' : Sched} {t : Nat} {calls : List SCall} (h : s.onError t = .ok (s', calls)) :
    s'.searcherAll = s.searcherAll ∧ calls = [SCall.evalFailed t] := by
  unfold Sched.onError at h
  split at h
  · injection h with h
    simp only [Prod.mk.injEq] at h
    obtain ⟨rfl, rfl⟩ := h
    exact ⟨rfl, rfl⟩
  · split at h
    · cases h
    · rename_i s1 hr
      injection h with h
      simp only [Prod.mk.injEq] at h
      obtain ⟨rfl, rfl⟩ := h
      unfold Sched.reportAsFailed at hr
      exact ⟨(report_fields hr).1, rfl⟩

/-! ### `suggest` -/

theorem slot_eta (x : Slot) (a : Option Nat) (b : Option Metric) (h1 : x.tid = a) (h2 : x.metric = b) :
    x = ⟨a, b⟩ := by
  cases x; simp_all

theorem handed_slotAt {g1 : Manager} {id : Nat} {sl : SlotInRung} {br1 : Bracket} {rg : Rung} {x : Slot}
    (hh : Handed g1 id sl br1 rg x) : g1.SlotAt id sl.rungIndex sl.slotIndex x :=
  ⟨br1, rg, hh.hbr, by rw [hh.ri]; exact hh.hrg, hh.hsl⟩

/-- summary of `_suggest` on a state satisfying the scheduler invariant, for a new trial id -/
theorem suggest_sum {s : Sched} (hI : Inv s) (tid : Nat) (c : Bool) (hfresh : tid ∉ s.configs) :
    ∃ s' sg calls id sl, s.suggest tid c = .ok (s', sg, calls) ∧ Inv s' ∧ s'.searcherAll = s.searcherAll ∧
      s'.mgr.bracketRungs = s.mgr.bracketRungs ∧
      ((∃ t cl, sg = .resume t sl.level cl ∧ calls = [] ∧ s'.pending = aset t (id, sl) s.pending ∧
          alookup t s.pending = none ∧ Frame s.mgr s'.mgr none ∧
          s'.mgr.SlotAt id sl.rungIndex sl.slotIndex ⟨some t, none⟩) ∨
       (∃ cl, sg = .start tid id sl.rungIndex sl.slotIndex sl.level cl ∧ calls = [SCall.pending tid sl.level] ∧
          s'.pending = aset tid (id, { sl with tid := some tid }) s.pending ∧
          alookup tid s.pending = none ∧ Frame s.mgr s'.mgr none ∧
          s'.mgr.SlotAt id sl.rungIndex sl.slotIndex ⟨none, none⟩) ∨
       (sg = .none ∧ calls = [] ∧ s'.pending = s.pending ∧
          Frame s.mgr s'.mgr (some (id, sl.rungIndex, sl.slotIndex)) ∧
          s'.mgr.SlotAt id sl.rungIndex sl.slotIndex ⟨none, some .nan⟩ ∧
          (∀ t' id' sl', alookup t' s.pending = some (id', sl') →
            (id', sl'.rungIndex, sl'.slotIndex) ≠ (id, sl.rungIndex, sl.slotIndex)) ∧
          (∀ y, s.mgr.SlotAt id sl.rungIndex sl.slotIndex y → y.metric = none))) := by
  obtain ⟨s', sg, calls, hs, hI', hf⟩ := suggest_spec hI tid c hfresh
  obtain ⟨hsa, hcalls⟩ := suggest_out hs
  obtain ⟨g1, id, sl, br1, rg, x, hjob, hcase, hh, hids, hc⟩ := hf.job
  obtain ⟨g1', id', sl', br1', rg', x', hjob', _, _, hI1, _, _⟩ := nextJob_inv hI
  rw [hjob] at hjob'
  simp only [Except.ok.injEq, Prod.mk.injEq] at hjob'
  obtain ⟨rfl, rfl, rfl⟩ := hjob'
  obtain ⟨br0, rg0, x0, hjs⟩ := jobCase_struct hI.mwf hcase
  have hfj : Frame s.mgr g1 none := frame_job hjs
  have hsys1 := (jobCase_sys hcase).1
  have hslot := handed_slotAt hh
  refine ⟨s', sg, calls, id, sl, hs, hI', hsa, ?_, ?_⟩
  · rcases hc with ⟨_, _, _, hm, _⟩ | ⟨_, _, _, hm, _⟩ | ⟨_, _, _, _, br', np, _, hmr, _⟩
    · rw [hm]; exact hsys1
    · rw [hm]; exact hsys1
    · exact hmr.sys.trans hsys1
  · rcases hc with ⟨t, hx, hsg, hm, hp, _⟩ | ⟨hx, _, hsg, hm, hp, _⟩ | ⟨hx, _, hsg, hp, br', np, hrc, hmr, _⟩
    · left
      subst hsg
      refine ⟨t, _, rfl, hcalls, hp, handed_not_pending hI1 hh t hx, by rw [hm]; exact hfj, ?_⟩
      rw [hm, ← slot_eta x (some t) none hx hh.empty]; exact hslot
    · right; left
      subst hsg
      have hnp : alookup tid s.pending = none := by
        cases hl : alookup tid s.pending with
        | none => rfl
        | some v => exact absurd (hI.pkeys tid v hl) hfresh
      refine ⟨_, rfl, hcalls, hp, hnp, by rw [hm]; exact hfj, ?_⟩
      rw [hm, ← slot_eta x none none hx hh.empty]; exact hslot
    · right; right
      subst hsg
      have hslt : sl.tid = none := by rw [hh.tid, hx]
      have hleg : LegalRes br1 { sl with metric := some Metric.nan } rg x :=
        ⟨hh.hrg, hh.ri, hh.lt, hh.lvl, hh.hsl, Or.inl hx, hh.empty, rfl, by
          intro _ t ht; change sl.tid = some t at ht; rw [hslt] at ht; cases ht⟩
      have hfr := frame_report hh.hbr hleg hrc hmr
      have hans := (slotAt_after_report hh.hbr hleg hrc hmr).2
      refine ⟨rfl, hcalls, hp, ?_, ?_, ?_, ?_⟩
      · have := Frame.trans hfj hfr
        rw [hh.ri]; exact this
      · rw [hh.ri]
        have e : (⟨({ sl with metric := some Metric.nan } : SlotInRung).tid,
            ({ sl with metric := some Metric.nan } : SlotInRung).metric⟩ : Slot) = ⟨none, some .nan⟩ := by
          simp only [hslt]
        rw [← e]; exact hans
      · intro t' id' sl' hl' he
        obtain ⟨_, _, _, _, _, hexc⟩ := hI1.pend t' id' sl' hl'
        apply hexc
        simp only [Prod.mk.injEq] at he
        rw [he.1, he.2.2]
      · intro y hy
        have hy1 := hfj.fwd _ _ _ y hy (by simp)
        rw [slotAt_functional hy1 hslot]; exact hh.empty

/-! ### `on_trial_result` -/

/-- a report for the slot of a running trial: frame and the answered slot -/
theorem reportFacts_frame {s s1 : Sched} (_hI : Inv s) {t : Nat} {mv : Metric} (hf : ReportFacts s t mv s1)
    {id : Nat} {sl : SlotInRung} (hlook : alookup t s.pending = some (id, sl)) :
    Frame s.mgr s1.mgr (some (id, sl.rungIndex, sl.slotIndex)) ∧
    s1.mgr.SlotAt id sl.rungIndex sl.slotIndex ⟨some t, some mv⟩ ∧
    s1.mgr.bracketRungs = s.mgr.bracketRungs := by
  obtain ⟨id', sl', br, rg, x, br', np, hlook', hbr, hps, hrc, hmr, _⟩ := hf.ex
  rw [hlook] at hlook'
  simp only [Option.some.injEq, Prod.mk.injEq] at hlook'
  obtain ⟨rfl, rfl⟩ := hlook'
  have hl := pend_legal (List.mem_of_getElem? hbr) hps mv
  have hfr := frame_report hbr hl hrc hmr
  have hans := (slotAt_after_report hbr hl hrc hmr).2
  refine ⟨by rw [hps.ri]; exact hfr, ?_, hmr.sys⟩
  rw [hps.ri]
  have e : (⟨({ sl with metric := some mv } : SlotInRung).tid,
      ({ sl with metric := some mv } : SlotInRung).metric⟩ : Slot) = ⟨some t, some mv⟩ := by
    simp only [hps.tid]
  rw [← e]; exact hans

/-- summary of `on_trial_result` on a state satisfying the scheduler invariant -/
theorem result_sum {s : Sched} (hI : Inv s) (t r : Nat) (v : Metric) :
    (alookup t s.pending = none ∧ s.onResult t r v = .ok (s, .stop, [])) ∨
    (∃ id sl, alookup t s.pending = some (id, sl) ∧ r < sl.level ∧
       s.onResult t r v = .ok (s, .continue,
         if s.prevLvl id sl.rungIndex < r then [SCall.update t r v s.searcherAll] else [])) ∨
    (∃ id sl s', alookup t s.pending = some (id, sl) ∧ r = sl.level ∧
       s.onResult t r v = .ok (s', .pause, [SCall.update t r v true]) ∧ Inv s' ∧
       s'.pending = adel t s.pending ∧ s'.searcherAll = s.searcherAll ∧
       s'.mgr.bracketRungs = s.mgr.bracketRungs ∧
       Frame s.mgr s'.mgr (some (id, sl.rungIndex, sl.slotIndex)) ∧
       s'.mgr.SlotAt id sl.rungIndex sl.slotIndex ⟨some t, some v⟩) ∨
    (∃ id sl e, alookup t s.pending = some (id, sl) ∧ sl.level < r ∧ s.onResult t r v = .error e) := by
  rcases onResult_spec hI t r v with ⟨s', d, calls, hs, hI', hc⟩ | ⟨id, sl, e, hlook, hlt, he⟩
  · rcases hc with ⟨hnone, rfl, rfl⟩ | ⟨id, sl, hlook, hlt, rfl, rfl⟩ | ⟨id, sl, s1, hlook, heq, hf, rfl, rfl⟩
    · left
      refine ⟨hnone, ?_⟩
      unfold Sched.onResult
      rw [hnone]
    · right; left
      refine ⟨id, sl, hlook, hlt, ?_⟩
      obtain ⟨_, pv, hpv, hcalls⟩ := onResult_out hlook hs
      obtain ⟨_, _, hprev⟩ := pend_level hI hlook
      rw [hprev] at hpv
      have : pv = s'.prevLvl id sl.rungIndex := (Except.ok.inj hpv).symm
      subst this
      have hne : (r == sl.level) = false := by
        simp only [beq_eq_false_iff_ne, ne_eq]; omega
      rw [hs, hcalls, hne, Bool.or_false]
    · right; right; left
      obtain ⟨hfr, hans, hsys⟩ := reportFacts_frame hI hf hlook
      obtain ⟨hsa, pv, hpv, hcalls⟩ := onResult_out hlook hs
      obtain ⟨hlv, hplt, _⟩ := pend_level hI hlook
      -- the previous level, computed on the manager after the report
      obtain ⟨b, rgk, hb, hk, _⟩ := hans
      have hlp := levelToPrevLevel_eq hI'.mwf hb hk
      have hsys' : ({ s1 with pending := adel t s.pending } : Sched).mgr.bracketRungs = s.mgr.bracketRungs := hsys
      rw [hsys'] at hlp
      have hlv' : lvl s.mgr.bracketRungs id sl.rungIndex = sl.level := hlv.symm
      rw [hlv'] at hlp
      rw [hlp] at hpv
      have : pv = s.prevLvl id sl.rungIndex := (Except.ok.inj hpv).symm
      subst this
      have hlt : s.prevLvl id sl.rungIndex < r := by rw [heq, hlv]; exact hplt
      have heq' : (r == sl.level) = true := by simp [heq]
      refine ⟨id, sl, _, hlook, heq, ?_, hI', rfl, hsa, hsys, hfr, ⟨b, rgk, hb, hk, by assumption⟩⟩
      rw [hs, hcalls, heq', Bool.or_true, if_pos hlt]
  · exact Or.inr (Or.inr (Or.inr ⟨id, sl, e, hlook, hlt, he⟩))

/-! ### `on_trial_error` -/

/-- summary of `on_trial_error` on a state satisfying the scheduler invariant -/
theorem error_sum {s : Sched} (hI : Inv s) (t : Nat) :
    (alookup t s.pending = none ∧ s.onError t = .ok (s, [SCall.evalFailed t])) ∨
    (∃ id sl s', alookup t s.pending = some (id, sl) ∧ s.onError t = .ok (s', [SCall.evalFailed t]) ∧
       Inv s' ∧ s'.pending = adel t s.pending ∧ s'.searcherAll = s.searcherAll ∧
       s'.mgr.bracketRungs = s.mgr.bracketRungs ∧
       Frame s.mgr s'.mgr (some (id, sl.rungIndex, sl.slotIndex)) ∧
       s'.mgr.SlotAt id sl.rungIndex sl.slotIndex ⟨some t, some .nan⟩) := by
  obtain ⟨s', calls, hs, hI', hc⟩ := onError_spec hI t
  obtain ⟨hsa, hcalls⟩ := onError_out hs
  subst hcalls
  rcases hc with ⟨hnone, rfl⟩ | ⟨s1, hf, rfl⟩
  · exact Or.inl ⟨hnone, hs⟩
  · right
    obtain ⟨id, sl, _, _, _, _, _, hlook, _⟩ := hf.ex
    obtain ⟨hfr, hans, hsys⟩ := reportFacts_frame hI hf hlook
    exact ⟨id, sl, _, hlook, hs, hI', rfl, hsa, hsys, hfr, hans⟩

end SyneTune.Sync.C14S
