import SyneTune.Lemmas.TunerBasic
import Mathlib.Tactic.Linarith
/-
Helper lemmas for C17 (`Model/TuningStatus.lean`): order facts about `XRat.lt`, the per-key
view (`KStat`) of `MetricsStatistics.add`, `TuningStatus.update`, `firstMin`, `argBest`.
-/
namespace SyneTune.Tuner
open SyneTune

/-! ### `XRat.lt`: a strict total order on the non-NaN values -/

theorem XRat.lt_irrefl (a : XRat) : a.lt a = false := by
  cases a <;> simp [XRat.lt]

theorem XRat.lt_ne_nan {a b : XRat} (h : a.lt b = true) : a ≠ .nan ∧ b ≠ .nan := by
  cases a <;> cases b <;> simp_all [XRat.lt]

theorem XRat.lt_asymm {a b : XRat} (h : a.lt b = true) : b.lt a = false := by
  cases a <;> cases b <;> simp_all [XRat.lt]
  exact le_of_lt h

theorem XRat.lt_trans {a b c : XRat} (h1 : a.lt b = true) (h2 : b.lt c = true) : a.lt c = true := by
  cases a <;> cases b <;> cases c <;> simp_all [XRat.lt]
  exact _root_.lt_trans h1 h2

/-- trichotomy on the non-NaN values. -/
theorem XRat.lt_total {a b : XRat} (ha : a ≠ .nan) (hb : b ≠ .nan) :
    a.lt b = true ∨ a = b ∨ b.lt a = true := by
  cases a <;> cases b <;> simp_all [XRat.lt]
  exact lt_trichotomy _ _

/-- negative transitivity: `a ≥ b`, `b ≥ c` ⟹ `a ≥ c` on the non-NaN values. -/
theorem XRat.lt_negtrans {a b c : XRat} (hb : b ≠ .nan)
    (h1 : a.lt b = false) (h2 : b.lt c = false) : a.lt c = false := by
  cases a <;> cases b <;> cases c <;> simp_all [XRat.lt]
  exact le_trans h2 h1

theorem XRat.lt_pinf (x : XRat) : x.lt .pinf = true ↔ x ≠ .nan ∧ x ≠ .pinf := by
  cases x <;> simp [XRat.lt]

theorem XRat.ninf_lt (x : XRat) : XRat.ninf.lt x = true ↔ x ≠ .nan ∧ x ≠ .ninf := by
  cases x <;> simp [XRat.lt]

theorem XRat.pinf_lt (x : XRat) : XRat.pinf.lt x = false := by
  cases x <;> simp [XRat.lt]

theorem XRat.lt_ninf (x : XRat) : x.lt .ninf = false := by
  cases x <;> simp [XRat.lt]

theorem XRat.neg_neg (x : XRat) : x.neg.neg = x := by
  cases x <;> simp [XRat.neg]

theorem XRat.neg_ne_nan {x : XRat} : x.neg ≠ .nan ↔ x ≠ .nan := by
  cases x <;> simp [XRat.neg]

theorem XRat.neg_lt_neg (a b : XRat) : a.neg.lt b.neg = b.lt a := by
  cases a <;> cases b <;> simp [XRat.neg, XRat.lt]

theorem pyMin_ne_nan {a : XRat} (b : XRat) (ha : a ≠ .nan) : pyMin a b ≠ .nan := by
  unfold pyMin
  split
  · next h => exact (XRat.lt_ne_nan h).1
  · exact ha

theorem pyMax_ne_nan {a : XRat} (b : XRat) (ha : a ≠ .nan) : pyMax a b ≠ .nan := by
  unfold pyMax
  split
  · next h => exact (XRat.lt_ne_nan h).2
  · exact ha

/-- `min(a, b) ≤ a`. -/
theorem pyMin_le_left (a b : XRat) : a.lt (pyMin a b) = false := by
  unfold pyMin
  split
  · next h => exact XRat.lt_asymm h
  · exact XRat.lt_irrefl a

/-- `min(a, b) ≤ b` (vacuous when `b` is NaN: every comparison is false). -/
theorem pyMin_le_right (a b : XRat) : b.lt (pyMin a b) = false := by
  unfold pyMin
  split
  · exact XRat.lt_irrefl b
  · next h => simpa using h

theorem pyMin_eq (a b : XRat) : pyMin a b = a ∨ pyMin a b = b := by
  unfold pyMin; split <;> simp

theorem pyMax_ge_left (a b : XRat) : (pyMax a b).lt a = false := by
  unfold pyMax
  split
  · next h => exact XRat.lt_asymm h
  · exact XRat.lt_irrefl a

theorem pyMax_ge_right (a b : XRat) : (pyMax a b).lt b = false := by
  unfold pyMax
  split
  · exact XRat.lt_irrefl b
  · next h => simpa using h

theorem pyMax_eq (a b : XRat) : pyMax a b = a ∨ pyMax a b = b := by
  unfold pyMax; split <;> simp

/-- running minimum: never NaN (for a non-NaN start), below the start, a lower bound of all
non-NaN elements, and attained. -/
theorem foldl_pyMin_spec (xs : List XRat) (a : XRat) (ha : a ≠ .nan) :
    xs.foldl pyMin a ≠ .nan ∧ a.lt (xs.foldl pyMin a) = false ∧
    (∀ v ∈ xs, v ≠ .nan → v.lt (xs.foldl pyMin a) = false) ∧
    (xs.foldl pyMin a = a ∨ xs.foldl pyMin a ∈ xs) := by
  induction xs generalizing a with
  | nil => simp [XRat.lt_irrefl, ha]
  | cons x xs ih =>
    have ha' := pyMin_ne_nan x ha
    obtain ⟨h1, h2, h3, h4⟩ := ih (pyMin a x) ha'
    simp only [List.foldl_cons]
    refine ⟨h1, XRat.lt_negtrans ha' (pyMin_le_left a x) h2, ?_, ?_⟩
    · intro v hv hvn
      rcases List.mem_cons.mp hv with rfl | hv
      · exact XRat.lt_negtrans ha' (pyMin_le_right a v) h2
      · exact h3 v hv hvn
    · rcases h4 with h4 | h4
      · rcases pyMin_eq a x with e | e
        · left; rw [h4, e]
        · right; rw [h4, e]; simp
      · right; exact List.mem_cons_of_mem _ h4

theorem foldl_pyMax_spec (xs : List XRat) (a : XRat) (ha : a ≠ .nan) :
    xs.foldl pyMax a ≠ .nan ∧ (xs.foldl pyMax a).lt a = false ∧
    (∀ v ∈ xs, v ≠ .nan → (xs.foldl pyMax a).lt v = false) ∧
    (xs.foldl pyMax a = a ∨ xs.foldl pyMax a ∈ xs) := by
  induction xs generalizing a with
  | nil => simp [XRat.lt_irrefl, ha]
  | cons x xs ih =>
    have ha' := pyMax_ne_nan x ha
    obtain ⟨h1, h2, h3, h4⟩ := ih (pyMax a x) ha'
    simp only [List.foldl_cons]
    refine ⟨h1, XRat.lt_negtrans ha' h2 (pyMax_ge_left a x), ?_, ?_⟩
    · intro v hv hvn
      rcases List.mem_cons.mp hv with rfl | hv
      · exact XRat.lt_negtrans ha' h2 (pyMax_ge_right a v)
      · exact h3 v hv hvn
    · rcases h4 with h4 | h4
      · rcases pyMax_eq a x with e | e
        · left; rw [h4, e]
        · right; rw [h4, e]; simp
      · right; exact List.mem_cons_of_mem _ h4

/-! ### vocabulary of the C17 statements -/

/-- the numeric values reported for key `k` in a sequence of result dicts, in order -/
def valsOf (k : Nat) (rs : List Metrics) : List XRat :=
  rs.filterMap (fun m => match alookup k m with | some (Val.num x) => some x | _ => none)

/-- every value reported for `k` is a number -/
def AllNum (k : Nat) (rs : List Metrics) : Prop :=
  ∀ m ∈ rs, ∀ v, alookup k m = some v → v.isNum = true

/-- dict keys are unique -/
def KeysUnique (m : Metrics) : Prop := (m.map (·.1)).Nodup

/-- `for r in rs: stats.add(r)` -/
def foldAdd (s : MStat) (rs : List Metrics) : MStat := rs.foldl MStat.add s

theorem foldAdd_nil (s : MStat) : foldAdd s [] = s := rfl
theorem foldAdd_cons (s : MStat) (m : Metrics) (rs : List Metrics) :
    foldAdd s (m :: rs) = foldAdd (s.add m) rs := rfl

/-! ### count -/

theorem addOne_count (s : MStat) (kv : Nat × Val) : (s.addOne kv).count = s.count := by
  unfold MStat.addOne
  split
  · cases kv.2 <;> rfl
  · rfl

theorem foldl_addOne_count (m : Metrics) (s : MStat) : (m.foldl MStat.addOne s).count = s.count := by
  induction m generalizing s with
  | nil => rfl
  | cons kv m ih => simp only [List.foldl_cons]; rw [ih, addOne_count]

theorem add_count (s : MStat) (m : Metrics) : (s.add m).count = s.count + 1 := by
  unfold MStat.add
  simp only [foldl_addOne_count]

theorem foldAdd_count (rs : List Metrics) (s : MStat) : (foldAdd s rs).count = s.count + rs.length := by
  induction rs generalizing s with
  | nil => rfl
  | cons m rs ih => rw [foldAdd_cons, ih, add_count, List.length_cons]; omega

/-! ### NaN never becomes a running minimum / maximum -/

/-- no value stored in the association list is NaN -/
def NoNan (l : List (Nat × XRat)) : Prop := ∀ k x, alookup k l = some x → x ≠ .nan

theorem NoNan_nil : NoNan [] := by intro k x h; simp [alookup] at h

theorem NoNan_aset {l : List (Nat × XRat)} (h : NoNan l) (k : Nat) {v : XRat} (hv : v ≠ .nan) :
    NoNan (aset k v l) := by
  intro k' x hx
  rw [alookup_aset] at hx
  split at hx
  · injection hx with hx; rw [← hx]; exact hv
  · exact h k' x hx

theorem NoNan_getD {l : List (Nat × XRat)} (h : NoNan l) (k : Nat) {d : XRat} (hd : d ≠ .nan) :
    (alookup k l).getD d ≠ .nan := by
  cases hk : alookup k l with
  | none => simpa using hd
  | some x => simpa using h k x hk

theorem addOne_noNan (s : MStat) (kv : Nat × Val) (h : NoNan s.mins ∧ NoNan s.maxs) :
    NoNan (s.addOne kv).mins ∧ NoNan (s.addOne kv).maxs := by
  unfold MStat.addOne
  split
  · cases kv.2 with
    | num x =>
      exact ⟨NoNan_aset h.1 _ (pyMin_ne_nan _ (NoNan_getD h.1 _ (by simp))),
             NoNan_aset h.2 _ (pyMax_ne_nan _ (NoNan_getD h.2 _ (by simp)))⟩
    | other => exact h
  · exact h

theorem foldl_addOne_noNan (m : Metrics) (s : MStat) (h : NoNan s.mins ∧ NoNan s.maxs) :
    NoNan (m.foldl MStat.addOne s).mins ∧ NoNan (m.foldl MStat.addOne s).maxs := by
  induction m generalizing s with
  | nil => exact h
  | cons kv m ih => exact ih _ (addOne_noNan s kv h)

theorem add_noNan (s : MStat) (m : Metrics) (h : NoNan s.mins ∧ NoNan s.maxs) :
    NoNan (s.add m).mins ∧ NoNan (s.add m).maxs := foldl_addOne_noNan m s h

theorem foldAdd_noNan (rs : List Metrics) (s : MStat) (h : NoNan s.mins ∧ NoNan s.maxs) :
    NoNan (foldAdd s rs).mins ∧ NoNan (foldAdd s rs).maxs := by
  induction rs generalizing s with
  | nil => exact h
  | cons m rs ih => exact ih _ (add_noNan s m h)

/-! ### the per-key view of `MetricsStatistics` -/

/-- the statistics of one metric key: `is_numeric.get(k)`, `min_metrics.get(k)`, … -/
structure KStat where
  isNum : Option Bool := none
  mins : Option XRat := none
  maxs : Option XRat := none
  sums : Option XRat := none
deriving DecidableEq, Repr

def MStat.proj (s : MStat) (k : Nat) : KStat :=
  ⟨alookup k s.isNum, alookup k s.mins, alookup k s.maxs, alookup k s.sums⟩

/-- the loop body of `MetricsStatistics.add` seen from the key it touches. -/
def KStat.step (p : KStat) (v : Val) : KStat :=
  if p.isNum.getD true then
    match v with
    | .num x => ⟨some true, some (pyMin (p.mins.getD .pinf) x), some (pyMax (p.maxs.getD .ninf) x),
                  some ((p.sums.getD (.fin 0)).add x)⟩
    | .other => { p with isNum := some false }
  else p

theorem proj_empty (k : Nat) : ({} : MStat).proj k = {} := by
  simp [MStat.proj, alookup]

theorem proj_addOne (s : MStat) (kv : Nat × Val) (k : Nat) :
    (s.addOne kv).proj k = if kv.1 = k then (s.proj k).step kv.2 else s.proj k := by
  obtain ⟨k', v⟩ := kv
  by_cases h : k' = k
  · subst h
    simp only [if_true]
    unfold MStat.addOne KStat.step MStat.proj
    cases hn : (alookup k' s.isNum).getD true
    · simp
    · cases v <;> simp [MStat.addNum, alookup_aset_self]
  · have h' : k ≠ k' := fun e => h e.symm
    simp only [h, if_false]
    unfold MStat.addOne MStat.proj
    split
    · cases v <;> simp [MStat.addNum, alookup_aset_ne _ _ _ _ h']
    · rfl

theorem step_latched {p : KStat} (h : p.isNum = some false) (v : Val) : p.step v = p := by
  unfold KStat.step; simp [h]

/-- **latch**: once `is_numeric[k]` is `False`, nothing stored for `k` changes. -/
theorem proj_foldl_addOne_latched (m : Metrics) (s : MStat) (k : Nat)
    (h : (s.proj k).isNum = some false) : (m.foldl MStat.addOne s).proj k = s.proj k := by
  induction m generalizing s with
  | nil => rfl
  | cons kv m ih =>
    have e : (s.addOne kv).proj k = s.proj k := by
      rw [proj_addOne]; split
      · exact step_latched h _
      · rfl
    simp only [List.foldl_cons]
    rw [ih _ (by rw [e]; exact h), e]

theorem proj_add (s : MStat) (m : Metrics) (k : Nat) :
    (s.add m).proj k = (m.foldl MStat.addOne s).proj k := rfl

theorem alookup_eq_none_of_not_mem {β} (k : Nat) (l : List (Nat × β)) (h : k ∉ l.map (·.1)) :
    alookup k l = none := by
  induction l with
  | nil => rfl
  | cons x xs ih =>
    obtain ⟨k', v⟩ := x
    simp only [List.map_cons, List.mem_cons, not_or] at h
    simp [alookup, h.1, ih h.2]

theorem proj_foldl_addOne_not_mem (m : Metrics) (s : MStat) (k : Nat) (h : k ∉ m.map (·.1)) :
    (m.foldl MStat.addOne s).proj k = s.proj k := by
  induction m generalizing s with
  | nil => rfl
  | cons kv m ih =>
    simp only [List.map_cons, List.mem_cons, not_or] at h
    simp only [List.foldl_cons]
    rw [ih _ h.2, proj_addOne]
    have : kv.1 ≠ k := fun e => h.1 e.symm
    simp [this]

def KStat.stepOpt (p : KStat) : Option Val → KStat
  | none => p
  | some v => p.step v

/-- with unique keys the dict loop is one `step` with the value stored under the key. -/
theorem proj_foldl_addOne (m : Metrics) (hm : KeysUnique m) (s : MStat) (k : Nat) :
    (m.foldl MStat.addOne s).proj k = (s.proj k).stepOpt (alookup k m) := by
  induction m generalizing s with
  | nil => rfl
  | cons kv m ih =>
    obtain ⟨k', v⟩ := kv
    unfold KeysUnique at hm
    simp only [List.map_cons, List.nodup_cons] at hm
    simp only [List.foldl_cons]
    by_cases h : k = k'
    · subst h
      rw [proj_foldl_addOne_not_mem _ _ _ hm.1, proj_addOne]
      simp [alookup, KStat.stepOpt]
    · rw [ih hm.2, proj_addOne]
      have : k' ≠ k := fun e => h e.symm
      simp [alookup, h, this]

theorem proj_foldAdd (rs : List Metrics) (h : ∀ m ∈ rs, KeysUnique m) (s : MStat) (k : Nat) :
    (foldAdd s rs).proj k = (rs.filterMap (fun m => alookup k m)).foldl KStat.step (s.proj k) := by
  induction rs generalizing s with
  | nil => rfl
  | cons m rs ih =>
    rw [foldAdd_cons, ih (fun m' hm' => h m' (List.mem_cons_of_mem _ hm')), proj_add,
      proj_foldl_addOne m (h m (by simp))]
    cases hk : alookup k m <;> simp [hk, KStat.stepOpt]

theorem filterMap_allNum (k : Nat) (rs : List Metrics) (h : AllNum k rs) :
    rs.filterMap (fun m => alookup k m) = (valsOf k rs).map Val.num := by
  induction rs with
  | nil => rfl
  | cons m rs ih =>
    have ih' := ih (fun m' hm' => h m' (List.mem_cons_of_mem _ hm'))
    have hm := h m (by simp)
    unfold valsOf at ih' ⊢
    cases hk : alookup k m with
    | none => simp [hk, ih']
    | some v =>
      cases v with
      | num x => simp [hk, ih']
      | other => have := hm _ hk; simp [Val.isNum] at this

/-- folding numbers into a key that is not latched. -/
theorem foldl_step_nums (xs : List XRat) (x : XRat) (p : KStat) (hp : p.isNum ≠ some false) :
    ((x :: xs).map Val.num).foldl KStat.step p =
      ⟨some true, some ((x :: xs).foldl pyMin (p.mins.getD .pinf)),
        some ((x :: xs).foldl pyMax (p.maxs.getD .ninf)),
        some ((x :: xs).foldl XRat.add (p.sums.getD (.fin 0)))⟩ := by
  have hstep : ∀ (p : KStat), p.isNum ≠ some false → ∀ y, p.step (.num y) =
      ⟨some true, some (pyMin (p.mins.getD .pinf) y), some (pyMax (p.maxs.getD .ninf) y),
        some ((p.sums.getD (.fin 0)).add y)⟩ := by
    intro p hp y
    have : p.isNum.getD true = true := by
      cases hi : p.isNum with
      | none => rfl
      | some b => cases b
                  · exact absurd hi hp
                  · rfl
    unfold KStat.step; simp [this]
  induction xs generalizing x p with
  | nil => simp [hstep p hp]
  | cons y ys ih =>
    have := ih y (p.step (.num x)) (by rw [hstep p hp]; simp)
    simp only [List.map_cons, List.foldl_cons] at this ⊢
    rw [this, hstep p hp]
    simp

/-- the statistics of key `k` after numeric reports only. -/
theorem proj_foldAdd_allNum (rs : List Metrics) (k : Nat) (hu : ∀ m ∈ rs, KeysUnique m)
    (hn : AllNum k rs) :
    (foldAdd {} rs).proj k =
      if valsOf k rs = [] then {} else
        ⟨some true, some ((valsOf k rs).foldl pyMin .pinf), some ((valsOf k rs).foldl pyMax .ninf),
          some ((valsOf k rs).foldl XRat.add (.fin 0))⟩ := by
  rw [proj_foldAdd rs hu, filterMap_allNum k rs hn, proj_empty]
  cases hv : valsOf k rs with
  | nil => simp
  | cons x xs => rw [foldl_step_nums xs x {} (by simp)]; simp

/-! ### `TuningStatus.update` -/

theorem alookup_append {β} (t : Nat) (p q : List (Nat × β)) :
    alookup t (p ++ q) = (alookup t p).or (alookup t q) := by
  induction p with
  | nil => simp [alookup]
  | cons x xs ih =>
    obtain ⟨k, v⟩ := x
    by_cases h : t = k <;> simp [alookup, h, ih]

/-- reading a `defaultdict` entry is not changed by creating (empty) entries. -/
theorem getD_alookup_touch (t t' : Nat) (p : List (Nat × MStat)) :
    (alookup t (touch t' p)).getD {} = (alookup t p).getD {} := by
  unfold touch
  cases h : alookup t' p with
  | some _ => rfl
  | none =>
    simp only [alookup_append]
    by_cases e : t = t'
    · subst e; simp [h, alookup]
    · simp [alookup, e]

theorem getD_alookup_foldl_touch (t : Nat) (sd : List (Nat × St)) (p : List (Nat × MStat)) :
    (alookup t (sd.foldl (fun p kv => touch kv.1 p) p)).getD {} = (alookup t p).getD {} := by
  induction sd generalizing p with
  | nil => rfl
  | cons kv sd ih => simp only [List.foldl_cons]; rw [ih, getD_alookup_touch]

theorem addResult_overall (ts : TStatus) (r : Nat × Metrics) :
    (ts.addResult r).overall = ts.overall.add r.2 := rfl

theorem foldl_addResult_overall (res : List (Nat × Metrics)) (ts : TStatus) :
    (res.foldl TStatus.addResult ts).overall = (res.map (·.2)).foldl MStat.add ts.overall := by
  induction res generalizing ts with
  | nil => rfl
  | cons r res ih => simp only [List.foldl_cons, List.map_cons]; rw [ih, addResult_overall]

theorem addResult_perTrial (ts : TStatus) (r : Nat × Metrics) (t : Nat) :
    (alookup t (ts.addResult r).perTrial).getD {} =
      if r.1 = t then ((alookup t ts.perTrial).getD {}).add r.2 else (alookup t ts.perTrial).getD {} := by
  unfold TStatus.addResult
  simp only [alookup_aset]
  by_cases h : t = r.1
  · subst h; simp [getD_alookup_touch]
  · have h' : ¬ r.1 = t := fun e => h e.symm
    simp [h, h', getD_alookup_touch]

theorem foldl_addResult_perTrial (res : List (Nat × Metrics)) (ts : TStatus) (t : Nat) :
    (alookup t (res.foldl TStatus.addResult ts).perTrial).getD {} =
      ((res.filter (fun r => decide (r.1 = t))).map (·.2)).foldl MStat.add
        ((alookup t ts.perTrial).getD {}) := by
  induction res generalizing ts with
  | nil => rfl
  | cons r res ih =>
    simp only [List.foldl_cons]
    rw [ih, addResult_perTrial]
    by_cases h : r.1 = t <;> simp [h]

/-! ### keys of `trial_metric_statistics` stay unique -/

theorem keys_aset {β} (k : Nat) (v : β) (l : List (Nat × β)) :
    (aset k v l).map (·.1) = if k ∈ l.map (·.1) then l.map (·.1) else l.map (·.1) ++ [k] := by
  induction l with
  | nil => simp [aset]
  | cons x xs ih =>
    obtain ⟨k', v'⟩ := x
    by_cases h : k = k'
    · subst h; simp [aset]
    · have h' : ¬ k' = k := fun e => h e.symm
      simp only [aset, h, if_false, List.map_cons, ih, List.mem_cons, false_or]
      split <;> simp

theorem nodup_keys_aset {β} (k : Nat) (v : β) (l : List (Nat × β)) (h : (l.map (·.1)).Nodup) :
    ((aset k v l).map (·.1)).Nodup := by
  rw [keys_aset]
  split
  · exact h
  · next hk =>
    rw [List.nodup_append]
    refine ⟨h, by simp, ?_⟩
    intro a ha b hb
    simp only [List.mem_singleton] at hb
    subst hb
    intro e; subst e; exact hk ha

theorem alookup_isSome_of_mem_keys {β} (k : Nat) (l : List (Nat × β)) (h : k ∈ l.map (·.1)) :
    ∃ v, alookup k l = some v := by
  induction l with
  | nil => simp at h
  | cons x xs ih =>
    obtain ⟨k', v⟩ := x
    by_cases e : k = k'
    · exact ⟨v, by simp [alookup, e]⟩
    · simp only [List.map_cons, List.mem_cons, e, false_or] at h
      obtain ⟨w, hw⟩ := ih h
      exact ⟨w, by simp [alookup, e, hw]⟩

theorem nodup_keys_touch (t : Nat) (p : List (Nat × MStat)) (h : (p.map (·.1)).Nodup) :
    ((touch t p).map (·.1)).Nodup := by
  unfold touch
  cases hk : alookup t p with
  | some _ => exact h
  | none =>
    simp only [List.map_append, List.map_cons, List.map_nil]
    rw [List.nodup_append]
    refine ⟨h, by simp, ?_⟩
    intro a ha b hb
    simp only [List.mem_singleton] at hb
    subst hb
    intro e; subst e
    obtain ⟨v, hv⟩ := alookup_isSome_of_mem_keys _ _ ha
    rw [hv] at hk; cases hk

theorem nodup_keys_addResult (ts : TStatus) (r : Nat × Metrics) (h : (ts.perTrial.map (·.1)).Nodup) :
    ((ts.addResult r).perTrial.map (·.1)).Nodup := by
  unfold TStatus.addResult
  exact nodup_keys_aset _ _ _ (nodup_keys_touch _ _ h)

theorem nodup_keys_update (ts : TStatus) (sd : List (Nat × St)) (res : List (Nat × Metrics))
    (h : (ts.perTrial.map (·.1)).Nodup) : ((ts.update sd res).perTrial.map (·.1)).Nodup := by
  unfold TStatus.update
  simp only
  have h2 : ∀ (res : List (Nat × Metrics)) (ts : TStatus), (ts.perTrial.map (·.1)).Nodup →
      ((res.foldl TStatus.addResult ts).perTrial.map (·.1)).Nodup := by
    intro res
    induction res with
    | nil => intro ts h; exact h
    | cons r res ih => intro ts h; exact ih _ (nodup_keys_addResult ts r h)
  have h3 : ∀ (sd : List (Nat × St)) (p : List (Nat × MStat)), (p.map (·.1)).Nodup →
      ((sd.foldl (fun p kv => touch kv.1 p) p).map (·.1)).Nodup := by
    intro sd
    induction sd with
    | nil => intro p h; exact h
    | cons kv sd ih => intro p h; exact ih _ (nodup_keys_touch _ _ h)
  exact h3 _ _ (h2 _ _ h)

theorem alookup_of_mem_nodup {β} (k : Nat) (v : β) (l : List (Nat × β)) (h : (l.map (·.1)).Nodup)
    (hm : (k, v) ∈ l) : alookup k l = some v := by
  induction l with
  | nil => simp at hm
  | cons x xs ih =>
    obtain ⟨k', v'⟩ := x
    simp only [List.map_cons, List.nodup_cons] at h
    rcases List.mem_cons.mp hm with e | hm'
    · injection e with e1 e2; subst e1; subst e2; simp [alookup]
    · have : k ≠ k' := by
        intro e; subst e
        exact h.1 (List.mem_map.mpr ⟨(k, v), hm', rfl⟩)
      simp [alookup, this, ih h.2 hm']

/-! ### `firstMin`: the head of a stable sort -/

theorem firstMin_eq_none (l : List (Nat × XRat)) : firstMin l = none ↔ l = [] := by
  cases l with
  | nil => simp [firstMin]
  | cons x xs =>
    simp only [firstMin]
    cases firstMin xs with
    | none => simp
    | some y => simp only; split <;> simp

/-- with no NaN key, `firstMin` is the first element of minimal key. -/
theorem firstMin_spec (l : List (Nat × XRat)) (hn : ∀ x ∈ l, x.2 ≠ .nan) (y : Nat × XRat)
    (h : firstMin l = some y) :
    y ∈ l ∧ (∀ x ∈ l, x.2.lt y.2 = false) ∧
    ∃ pre post, l = pre ++ y :: post ∧ ∀ x ∈ pre, y.2.lt x.2 = true := by
  induction l generalizing y with
  | nil => simp [firstMin] at h
  | cons x xs ih =>
    have hn' : ∀ z ∈ xs, z.2 ≠ .nan := fun z hz => hn z (List.mem_cons_of_mem _ hz)
    simp only [firstMin] at h
    cases hf : firstMin xs with
    | none =>
      rw [hf] at h
      simp only [Option.some.injEq] at h
      subst h
      have : xs = [] := (firstMin_eq_none xs).mp hf
      subst this
      exact ⟨by simp, by simp [XRat.lt_irrefl], [], [], rfl, by simp⟩
    | some y0 =>
      rw [hf] at h
      obtain ⟨h1, h2, pre, post, h3, h4⟩ := ih hn' y0 hf
      simp only at h
      by_cases hc : y0.2.lt x.2 = true
      · simp only [hc, if_true, Option.some.injEq] at h
        subst h
        refine ⟨List.mem_cons_of_mem _ h1, ?_, x :: pre, post, by rw [h3]; rfl, ?_⟩
        · intro z hz
          rcases List.mem_cons.mp hz with rfl | hz
          · exact XRat.lt_asymm hc
          · exact h2 z hz
        · intro z hz
          rcases List.mem_cons.mp hz with rfl | hz
          · exact hc
          · exact h4 z hz
      · have hc' : y0.2.lt x.2 = false := by simpa using hc
        simp only [hc', Bool.false_eq_true, if_false, Option.some.injEq] at h
        subst h
        refine ⟨by simp, ?_, [], xs, rfl, by simp⟩
        intro z hz
        rcases List.mem_cons.mp hz with rfl | hz
        · exact XRat.lt_irrefl _
        · exact XRat.lt_negtrans (hn' y0 h1) (h2 z hz) hc'

/-- `firstMin` over `[(trial_id, g(stats)) for trial_id, stats in l]`. -/
theorem firstMin_map_spec {β} (l : List (Nat × β)) (g : β → XRat) (hn : ∀ kv ∈ l, g kv.2 ≠ .nan)
    (t : Nat) (v : XRat) (h : firstMin (l.map (fun kv => (kv.1, g kv.2))) = some (t, v)) :
    (∃ pre b post, l = pre ++ (t, b) :: post ∧ g b = v ∧ ∀ kv ∈ pre, v.lt (g kv.2) = true) ∧
    ∀ kv ∈ l, (g kv.2).lt v = false := by
  have hn' : ∀ x ∈ l.map (fun kv => (kv.1, g kv.2)), x.2 ≠ .nan := by
    intro x hx
    obtain ⟨kv, hkv, rfl⟩ := List.mem_map.mp hx
    exact hn kv hkv
  obtain ⟨_, h2, pre, post, h3, h4⟩ := firstMin_spec _ hn' _ h
  constructor
  · obtain ⟨l1, l2, rfl, e1, e2⟩ := List.map_eq_append_iff.mp h3
    obtain ⟨a, l3, rfl, e3, _⟩ := List.map_eq_cons_iff.mp e2
    obtain ⟨ak, ab⟩ := a
    simp only [Prod.mk.injEq] at e3
    obtain ⟨rfl, rfl⟩ := e3
    refine ⟨l1, ab, l3, rfl, rfl, ?_⟩
    intro kv hkv
    exact h4 (kv.1, g kv.2) (by rw [← e1]; exact List.mem_map.mpr ⟨kv, hkv, rfl⟩)
  · intro kv hkv
    exact h2 (kv.1, g kv.2) (List.mem_map.mpr ⟨kv, hkv, rfl⟩)

/-! ### per-trial statistics never hold NaN minima / maxima -/

def TSNoNan (ts : TStatus) : Prop := ∀ kv ∈ ts.perTrial, NoNan kv.2.mins ∧ NoNan kv.2.maxs

theorem mem_aset {β} (k : Nat) (v : β) (l : List (Nat × β)) (x : Nat × β) (h : x ∈ aset k v l) :
    x = (k, v) ∨ x ∈ l := by
  induction l with
  | nil => simp [aset] at h; exact Or.inl h
  | cons y ys ih =>
    obtain ⟨k', v'⟩ := y
    by_cases e : k = k'
    · simp only [aset, e, if_true, List.mem_cons] at h
      rcases h with h | h
      · left; rw [h, e]
      · right; exact List.mem_cons_of_mem _ h
    · simp only [aset, e, if_false, List.mem_cons] at h
      rcases h with h | h
      · right; rw [h]; exact List.mem_cons_self ..
      · rcases ih h with h | h
        · exact Or.inl h
        · exact Or.inr (List.mem_cons_of_mem _ h)

theorem mem_touch (t : Nat) (p : List (Nat × MStat)) (x : Nat × MStat) (h : x ∈ touch t p) :
    x = (t, {}) ∨ x ∈ p := by
  unfold touch at h
  cases hk : alookup t p with
  | some _ => rw [hk] at h; exact Or.inr h
  | none =>
    rw [hk] at h
    simp only [List.mem_append, List.mem_singleton] at h
    rcases h with h | h
    · exact Or.inr h
    · exact Or.inl h

theorem mem_of_alookup {β} (k : Nat) (v : β) (l : List (Nat × β)) (h : alookup k l = some v) :
    (k, v) ∈ l := by
  induction l with
  | nil => simp [alookup] at h
  | cons y ys ih =>
    obtain ⟨k', v'⟩ := y
    by_cases e : k = k'
    · simp only [alookup, e, if_true, Option.some.injEq] at h
      rw [e, h]; exact List.mem_cons_self ..
    · simp only [alookup, e, if_false] at h
      exact List.mem_cons_of_mem _ (ih h)

theorem TSNoNan_empty : TSNoNan {} := by intro kv h; simp at h

theorem TSNoNan_touch (p : List (Nat × MStat)) (t : Nat)
    (h : ∀ kv ∈ p, NoNan kv.2.mins ∧ NoNan kv.2.maxs) :
    ∀ kv ∈ touch t p, NoNan kv.2.mins ∧ NoNan kv.2.maxs := by
  intro kv hkv
  rcases mem_touch t p kv hkv with rfl | hkv
  · exact ⟨NoNan_nil, NoNan_nil⟩
  · exact h kv hkv

theorem TSNoNan_addResult (ts : TStatus) (r : Nat × Metrics) (h : TSNoNan ts) :
    TSNoNan (ts.addResult r) := by
  have ht := TSNoNan_touch ts.perTrial r.1 h
  intro kv hkv
  unfold TStatus.addResult at hkv
  rcases mem_aset _ _ _ _ hkv with rfl | hkv
  · apply add_noNan
    cases hl : alookup r.1 (touch r.1 ts.perTrial) with
    | none => exact ⟨NoNan_nil, NoNan_nil⟩
    | some s => exact ht _ (mem_of_alookup _ _ _ hl)
  · exact ht kv hkv

theorem TSNoNan_update (ts : TStatus) (sd : List (Nat × St)) (res : List (Nat × Metrics))
    (h : TSNoNan ts) : TSNoNan (ts.update sd res) := by
  unfold TStatus.update
  simp only
  have h2 : ∀ (res : List (Nat × Metrics)) (ts : TStatus), TSNoNan ts →
      TSNoNan (res.foldl TStatus.addResult ts) := by
    intro res
    induction res with
    | nil => intro ts h; exact h
    | cons r res ih => intro ts h; exact ih _ (TSNoNan_addResult ts r h)
  have h3 : ∀ (sd : List (Nat × St)) (p : List (Nat × MStat)),
      (∀ kv ∈ p, NoNan kv.2.mins ∧ NoNan kv.2.maxs) →
      ∀ kv ∈ sd.foldl (fun p kv => touch kv.1 p) p, NoNan kv.2.mins ∧ NoNan kv.2.maxs := by
    intro sd
    induction sd with
    | nil => intro p h; exact h
    | cons kv sd ih => intro p h; exact ih _ (TSNoNan_touch p kv.1 h)
  exact h3 sd _ (h2 res _ h)

/-! ### `argBest`: pandas `argmin` / `argmax` with `skipna` -/

/-- `a` strictly better than `b` under the mode. -/
def better (useMin : Bool) (a b : XRat) : Bool := if useMin then a.lt b else b.lt a

theorem better_irrefl (u : Bool) (a : XRat) : better u a a = false := by
  cases u <;> simp [better, XRat.lt_irrefl]

theorem better_asymm {u : Bool} {a b : XRat} (h : better u a b = true) : better u b a = false := by
  cases u <;> simp only [better, if_true, Bool.false_eq_true, if_false] at h ⊢ <;> exact XRat.lt_asymm h

theorem better_negtrans {u : Bool} {a b c : XRat} (hb : b ≠ .nan)
    (h1 : better u a b = false) (h2 : better u b c = false) : better u a c = false := by
  cases u <;> simp only [better, if_true, Bool.false_eq_true, if_false] at h1 h2 ⊢
  · exact XRat.lt_negtrans hb h2 h1
  · exact XRat.lt_negtrans hb h1 h2

theorem argBest_cons (useMin : Bool) (x : XRat) (xs : List XRat) (i : Nat) :
    argBest useMin (x :: xs) i =
      match argBest useMin xs (i + 1) with
      | none => if x = .nan then none else some (i, x)
      | some y => if x = .nan then some y else if better useMin y.2 x then some y else some (i, x) := rfl

theorem argBest_eq_none (useMin : Bool) (col : List XRat) (i0 : Nat) :
    argBest useMin col i0 = none ↔ ∀ x ∈ col, x = .nan := by
  induction col generalizing i0 with
  | nil => simp [argBest]
  | cons x xs ih =>
    rw [argBest_cons]
    cases hr : argBest useMin xs (i0 + 1) with
    | none =>
      have := (ih (i0 + 1)).mp hr
      by_cases hx : x = .nan
      · simpa [hx] using this
      · simp [hx]
    | some y =>
      have hne : ¬ ∀ z ∈ xs, z = XRat.nan := by
        intro hall; rw [(ih (i0 + 1)).mpr hall] at hr; cases hr
      have : ¬ ∀ z ∈ x :: xs, z = XRat.nan := by
        intro hall; exact hne (fun z hz => hall z (List.mem_cons_of_mem _ hz))
      simp only [this, iff_false]
      split
      · simp
      · split <;> simp

theorem argBest_spec (useMin : Bool) (col : List XRat) (i0 i : Nat) (v : XRat)
    (h : argBest useMin col i0 = some (i, v)) :
    i0 ≤ i ∧ col[i - i0]? = some v ∧ v ≠ .nan ∧
    (∀ (j : Nat) x, col[j]? = some x → x ≠ .nan → better useMin x v = false) ∧
    (∀ (j : Nat) x, j < i - i0 → col[j]? = some x → x ≠ .nan → better useMin v x = true) := by
  induction col generalizing i0 i v with
  | nil => simp [argBest] at h
  | cons x xs ih =>
    rw [argBest_cons] at h
    cases hr : argBest useMin xs (i0 + 1) with
    | none =>
      rw [hr] at h
      have hall := (argBest_eq_none useMin xs (i0 + 1)).mp hr
      by_cases hx : x = .nan
      · simp [hx] at h
      · simp only [hx, if_false, Option.some.injEq, Prod.mk.injEq] at h
        obtain ⟨rfl, rfl⟩ := h
        refine ⟨Nat.le_refl _, by simp, hx, ?_, ?_⟩
        · intro j z hz hzn
          cases j with
          | zero => simp at hz; subst hz; exact better_irrefl _ _
          | succ j =>
            simp only [List.getElem?_cons_succ] at hz
            exact absurd (hall z (List.mem_of_getElem? hz)) hzn
        · intro j z hj; omega
    | some y =>
      rw [hr] at h
      obtain ⟨yi, yv⟩ := y
      obtain ⟨h1, h2, h3, h4, h5⟩ := ih (i0 + 1) yi yv hr
      have hidx : yi - i0 = (yi - (i0 + 1)) + 1 := by omega
      -- the facts when the tail's answer is kept
      have keep : better useMin yv x = true ∨ x = .nan →
          i0 ≤ yi ∧ (x :: xs)[yi - i0]? = some yv ∧ yv ≠ .nan ∧
          (∀ (j : Nat) z, (x :: xs)[j]? = some z → z ≠ .nan → better useMin z yv = false) ∧
          (∀ (j : Nat) z, j < yi - i0 → (x :: xs)[j]? = some z → z ≠ .nan → better useMin yv z = true) := by
        intro hk
        refine ⟨by omega, by rw [hidx, List.getElem?_cons_succ]; exact h2, h3, ?_, ?_⟩
        · intro j z hz hzn
          cases j with
          | zero =>
            simp at hz; subst hz
            rcases hk with hk | hk
            · exact better_asymm hk
            · exact absurd hk hzn
          | succ j => simp only [List.getElem?_cons_succ] at hz; exact h4 j z hz hzn
        · intro j z hj hz hzn
          cases j with
          | zero =>
            simp at hz; subst hz
            rcases hk with hk | hk
            · exact hk
            · exact absurd hk hzn
          | succ j =>
            simp only [List.getElem?_cons_succ] at hz
            exact h5 j z (by omega) hz hzn
      by_cases hx : x = .nan
      · simp only [hx, if_true, Option.some.injEq, Prod.mk.injEq] at h
        obtain ⟨rfl, rfl⟩ := h
        exact keep (Or.inr hx)
      · simp only [hx, if_false] at h
        by_cases hb : better useMin yv x = true
        · simp only [hb, if_true, Option.some.injEq, Prod.mk.injEq] at h
          obtain ⟨rfl, rfl⟩ := h
          exact keep (Or.inl hb)
        · have hb' : better useMin yv x = false := by simpa using hb
          simp only [hb', Bool.false_eq_true, if_false, Option.some.injEq, Prod.mk.injEq] at h
          obtain ⟨rfl, rfl⟩ := h
          refine ⟨Nat.le_refl _, by simp, hx, ?_, ?_⟩
          · intro j z hz hzn
            cases j with
            | zero => simp at hz; subst hz; exact better_irrefl _ _
            | succ j =>
              simp only [List.getElem?_cons_succ] at hz
              exact better_negtrans h3 (h4 j z hz hzn) hb'
          · intro j z hj; omega

/-! ### `list.index` -/

theorem indexOf?_spec (names : List Nat) (k i : Nat) (h : indexOf? names k = some i) :
    names[i]? = some k ∧ ∀ j < i, names[j]? ≠ some k := by
  unfold indexOf? at h
  rw [List.findIdx?_eq_some_iff_getElem] at h
  obtain ⟨hi, hk, hj⟩ := h
  simp only [beq_iff_eq] at hk hj
  refine ⟨by rw [List.getElem?_eq_getElem hi, hk], ?_⟩
  intro j hji hc
  have hjl : j < names.length := by omega
  rw [List.getElem?_eq_getElem hjl] at hc
  injection hc with hc
  exact hj j hji hc

theorem indexOf?_isSome_of_mem (names : List Nat) (k : Nat) (h : k ∈ names) :
    ∃ i, indexOf? names k = some i := by
  unfold indexOf?
  cases hf : names.findIdx? (· == k) with
  | some i => exact ⟨i, rfl⟩
  | none =>
    rw [List.findIdx?_eq_none_iff] at hf
    have := hf k h
    simp at this

theorem mem_of_indexOf? (names : List Nat) (k i : Nat) (h : indexOf? names k = some i) : k ∈ names :=
  List.mem_of_getElem? (indexOf?_spec names k i h).1

end SyneTune.Tuner
