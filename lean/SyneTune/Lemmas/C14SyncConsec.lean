import SyneTune.Lemmas.C14SyncRun
/- C14 synchronous composition, `searcher_data = "all"`: if the training scripts report EVERY
resource level of a run (an assumption on top of the contract `OpOKS`, which only asks for
increasing levels), every level of the window `(prev_level, milestone]` of every run is in the
data. -/
namespace SyneTune.Sync.C14S
open SyneTune.C14 SyneTune.C14Comp

/-- the report of a running trial carries a finite value and is the level following its last one;
the first report of a run is level 1 (training from scratch) or `prev_level + 1` (training resumed
from the checkpoint) -/
def ConsecRes (s : Sched) (o : Option (Nat × SlotInRung)) (last r : Nat) (v : Metric) : Prop :=
  match o with
  | some (id, sl) => v.isNan = false ∧ (r = last + 1 ∨ (last = 0 ∧ r = s.prevLvl id sl.rungIndex + 1))
  | none => True

instance (s : Sched) (o : Option (Nat × SlotInRung)) (last r : Nat) (v : Metric) :
    Decidable (ConsecRes s o last r v) :=
  match o with
  | some (id, sl) =>
    inferInstanceAs (Decidable (v.isNan = false ∧ (r = last + 1 ∨ (last = 0 ∧ r = s.prevLvl id sl.rungIndex + 1))))
  | none => isTrue trivial

/-- extra assumption on the training scripts: no resource level is left out (and no NaN reported) -/
def ConsecOK (y : SysS) : Op → Prop
  | .result t r v => ConsecRes y.sched (alookup t y.sched.pending) (y.lastOf t) r v
  | _ => True

instance (y : SysS) (op : Op) : Decidable (ConsecOK y op) :=
  match op with
  | .result t r v => inferInstanceAs (Decidable (ConsecRes y.sched (alookup t y.sched.pending) (y.lastOf t) r v))
  | .suggest _ _ => isTrue trivial
  | .error _ => isTrue trivial
  | .complete _ _ _ => isTrue trivial
  | .remove _ => isTrue trivial
  | .takeRemovable => isTrue trivial

def ConsecRun : SysS → List Op → Prop
  | _, [] => True
  | y, op :: ops => ConsecOK y op ∧ ConsecRun (stepCS y op) ops

instance instDecidableConsecRun : (y : SysS) → (ops : List Op) → Decidable (ConsecRun y ops)
  | _, [] => isTrue trivial
  | y, op :: ops =>
    have := instDecidableConsecRun (stepCS y op) ops
    (inferInstance : Decidable (ConsecOK y op ∧ ConsecRun (stepCS y op) ops))

/-- `searcher_data = "all"`: every level of the window of a running trial up to its last report,
and every level of the window of a finished run with a finite milestone report, is in the data -/
def AllInv (y : SysS) : Prop :=
  y.sched.searcherAll = true →
    (∀ t id sl, alookup t y.sched.pending = some (id, sl) →
      ∀ r, y.sched.prevLvl id sl.rungIndex < r → r ≤ y.lastOf t → y.st.isLabeled t r = true) ∧
    (∀ t id k p x, y.sched.mgr.SlotAt id k p ⟨some t, some (.val x)⟩ →
      ∀ r, y.sched.prevLvl id k < r → r ≤ y.sched.lvl id k → y.st.isLabeled t r = true)

theorem allInv_step {y : SysS} (h : CInvS y) (op : Op) (hok : OpOKS y op) (hcon : ConsecOK y op)
    (hall : AllInv y) : AllInv (stepCS y op) := by
  obtain ⟨hsys, hsa⟩ := step_consts h op hok
  intro hsa'
  rw [hsa] at hsa'
  obtain ⟨A1, A2⟩ := hall hsa'
  have hprev : ∀ j k, (stepCS y op).sched.prevLvl j k = y.sched.prevLvl j k := by
    intro j k; simp only [Sched.prevLvl, hsys]
  have hlvl : ∀ j k, (stepCS y op).sched.lvl j k = y.sched.lvl j k := by
    intro j k; simp only [Sched.lvl, hsys]
  cases op with
  | suggest tid c =>
    obtain ⟨_, _, ho, _, T1, T2⟩ := stepCS_suggest_shape h tid c hok
    refine ⟨?_, ?_⟩
    · intro t id sl hl r h1 h2
      rw [isLabeled_congr ho]
      rcases T1 t id sl hl with ⟨hl0, hlast⟩ | hz
      · rw [hprev] at h1; rw [hlast] at h2
        exact A1 t id sl hl0 r h1 h2
      · omega
    · intro t id k p x hs r h1 h2
      rw [isLabeled_congr ho]
      rw [hprev] at h1; rw [hlvl] at h2
      exact A2 t id k p x (T2 _ _ _ _ _ hs) r h1 h2
  | result t0 r0 v =>
    have hc : ConsecRes y.sched (alookup t0 y.sched.pending) (y.lastOf t0) r0 v := hcon
    rcases (stepCS_result_shape h t0 r0 v hok).2 with ⟨_, _, he⟩ | ⟨id0, sl0, hlook, hl, hr, hno, _, he⟩ |
        ⟨id0, sl0, x0, hlook, hl, hr, hp, ha, _, _, he⟩ |
        ⟨id0, sl0, s', x0, hlook, hr0, _, _, hI', hp', _, _, hfr, hans, he⟩ |
        ⟨id0, sl0, s', hlook, _, hv, _⟩
    · rw [he]; exact ⟨A1, A2⟩
    · obtain ⟨st2, _, e2, _, he⟩ := he
      rw [he] at hprev hlvl ⊢
      rw [hlook] at hc
      have hfin : v.isNan = false := hc.1
      refine ⟨?_, fun t id k p x hs r h1 h2 => by
        change st2.isLabeled t r = true; rw [isLabeled_congr e2]; exact A2 t id k p x hs r h1 h2⟩
      intro t id sl hlk r h1 h2
      change st2.isLabeled t r = true
      rw [isLabeled_congr e2]
      change alookup t y.sched.pending = some (id, sl) at hlk
      rw [lastOf_aset] at h2
      by_cases het : t = t0
      · subst het
        rw [hlook] at hlk
        simp only [Option.some.injEq, Prod.mk.injEq] at hlk
        obtain ⟨rfl, rfl⟩ := hlk
        simp only [if_true] at h2
        exfalso
        apply hno
        exact ⟨by change y.sched.prevLvl id0 sl0.rungIndex < r at h1; omega, hsa', hfin⟩
      · simp only [het, if_false] at h2
        exact A1 t id sl hlk r h1 h2
    · rw [he] at hprev hlvl ⊢
      rw [hlook] at hc
      have hc' : r0 = y.lastOf t0 + 1 ∨ (y.lastOf t0 = 0 ∧ r0 = y.sched.prevLvl id0 sl0.rungIndex + 1) := hc.2
      refine ⟨?_, ?_⟩
      · intro t id sl hlk r h1 h2
        change alookup t y.sched.pending = some (id, sl) at hlk
        change y.sched.prevLvl id sl.rungIndex < r at h1
        change (y.st.label t0 r0 _).isLabeled t r = true
        rw [isLabeled_label, Bool.or_eq_true, decide_eq_true_eq]
        rw [lastOf_aset] at h2
        by_cases het : t = t0
        · subst het
          rw [hlook] at hlk
          simp only [Option.some.injEq, Prod.mk.injEq] at hlk
          obtain ⟨rfl, rfl⟩ := hlk
          simp only [if_true] at h2
          by_cases her : r = r0
          · exact Or.inl ⟨rfl, her⟩
          · right
            apply A1 t id0 sl0 hlook r h1
            rcases hc' with hc' | ⟨hc1, hc2⟩
            · omega
            · omega
        · simp only [het, if_false] at h2
          exact Or.inr (A1 t id sl hlk r h1 h2)
      · intro t id k p x hs r h1 h2
        change (y.st.label t0 r0 _).isLabeled t r = true
        rw [isLabeled_label, Bool.or_eq_true]
        exact Or.inr (A2 t id k p x hs r h1 h2)
    · rw [he] at hprev hlvl ⊢
      rw [hlook] at hc
      have hc' : r0 = y.lastOf t0 + 1 ∨ (y.lastOf t0 = 0 ∧ r0 = y.sched.prevLvl id0 sl0.rungIndex + 1) := hc.2
      obtain ⟨hlv, _, _⟩ := pend_level h.inv hlook
      refine ⟨?_, ?_⟩
      · intro t id sl hlk r h1 h2
        change alookup t s'.pending = some (id, sl) at hlk
        have hne : t ≠ t0 := by
          intro het; rw [het, hp', alookup_adel_self _ _ h.inv.keys] at hlk; cases hlk
        rw [hp', alookup_adel_ne _ _ _ hne] at hlk
        rw [hprev] at h1
        rw [lastOf_aset] at h2
        simp only [hne, if_false] at h2
        change (y.st.label t0 sl0.level _).isLabeled t r = true
        rw [isLabeled_label, Bool.or_eq_true]
        exact Or.inr (A1 t id sl hlk r h1 h2)
      · intro t id k p x hs r h1 h2
        change s'.mgr.SlotAt id k p _ at hs
        rw [hprev] at h1; rw [hlvl] at h2
        change (y.st.label t0 sl0.level _).isLabeled t r = true
        rw [isLabeled_label, Bool.or_eq_true, decide_eq_true_eq]
        rcases hfr.bwd id k p t (.val x) hs with hold | hnew
        · exact Or.inr (A2 t id k p x hold r h1 h2)
        · simp only [Option.some.injEq, Prod.mk.injEq] at hnew
          obtain ⟨rfl, rfl, rfl⟩ := hnew
          have hf := slotAt_functional hs hans
          simp only [Slot.mk.injEq, Option.some.injEq, Metric.val.injEq] at hf
          obtain ⟨rfl, rfl⟩ := hf
          rw [← hlv] at h2
          by_cases her : r = sl0.level
          · exact Or.inl ⟨rfl, her⟩
          · right
            apply A1 t id0 sl0 hlook r h1
            rcases hc' with hc' | ⟨hc1, hc2⟩
            · omega
            · omega
    · exfalso
      rw [hlook] at hc
      have hfin : v.isNan = false := hc.1
      rw [hv] at hfin; cases hfin
  | error t0 =>
    obtain ⟨_, st', _, hobs, _, hcs⟩ := stepCS_error_shape h t0
    rcases hcs with ⟨_, he⟩ | ⟨id0, sl0, s', hlook, _, hp', _, _, hfr, hans, he⟩
    · rw [he]
      refine ⟨?_, ?_⟩
      · intro t id sl hlk r h1 h2
        change st'.isLabeled t r = true
        rw [isLabeled_congr hobs]
        exact A1 t id sl hlk r h1 h2
      · intro t id k p x hs r h1 h2
        change st'.isLabeled t r = true
        rw [isLabeled_congr hobs]
        exact A2 t id k p x hs r h1 h2
    · rw [he] at hprev hlvl ⊢
      refine ⟨?_, ?_⟩
      · intro t id sl hlk r h1 h2
        change alookup t s'.pending = some (id, sl) at hlk
        have hne : t ≠ t0 := by
          intro het; rw [het, hp', alookup_adel_self _ _ h.inv.keys] at hlk; cases hlk
        rw [hp', alookup_adel_ne _ _ _ hne] at hlk
        rw [hprev] at h1
        change st'.isLabeled t r = true
        rw [isLabeled_congr hobs]
        exact A1 t id sl hlk r h1 h2
      · intro t id k p x hs r h1 h2
        change s'.mgr.SlotAt id k p _ at hs
        rw [hprev] at h1; rw [hlvl] at h2
        change st'.isLabeled t r = true
        rw [isLabeled_congr hobs]
        rcases hfr.bwd id k p t (.val x) hs with hold | hnew
        · exact A2 t id k p x hold r h1 h2
        · simp only [Option.some.injEq, Prod.mk.injEq] at hnew
          obtain ⟨rfl, rfl, rfl⟩ := hnew
          have hf := slotAt_functional hs hans
          simp at hf
  | complete t0 r0 v =>
    obtain ⟨st2, _, e2, _, _, he⟩ := stepCS_complete h t0 r0 v hok
    rw [he]
    exact ⟨fun t id sl hlk r h1 h2 => by
        change st2.isLabeled t r = true; rw [isLabeled_congr e2]; exact A1 t id sl hlk r h1 h2,
      fun t id k p x hs r h1 h2 => by
        change st2.isLabeled t r = true; rw [isLabeled_congr e2]; exact A2 t id k p x hs r h1 h2⟩
  | remove t0 => exact ⟨A1, A2⟩
  | takeRemovable => exact ⟨A1, A2⟩

theorem allInv_run {y : SysS} (h : CInvS y) (ops : List Op) (hok : OpsOKS y ops) (hcon : ConsecRun y ops)
    (hall : AllInv y) : AllInv (runCS y ops) := by
  induction ops generalizing y with
  | nil => exact hall
  | cons op ops ih =>
    exact ih (cinvS_step' h op hok.1) hok.2 hcon.2 (allInv_step h op hok.1 hcon.1 hall)

theorem allInv_init (mode : Mode) (systems : List (List (Nat × Nat))) (a b : Bool) (s : Sched)
    (h : Sched.init mode systems a b = .ok s) (m : Mode) :
    AllInv { sched := s, st := { mode := m }, last := [] } := by
  obtain ⟨hI, _, _⟩ := init_inv mode systems a b s h
  obtain ⟨hp, hc, _⟩ := init_fields h
  intro _
  refine ⟨?_, ?_⟩
  · intro t id sl hl
    change alookup t s.pending = _ at hl
    rw [hp] at hl; cases hl
  · intro t id k p x hs
    have := hI.ids t (slotAt_hasId hs rfl)
    change t ∈ s.configs at this
    rw [hc] at this; cases this

end SyneTune.Sync.C14S
