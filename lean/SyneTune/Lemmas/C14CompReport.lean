import SyneTune.Lemmas.C14CompMgr
/- C14 composed system: what a report does to one rung system (stopping and promotion
families). -/
namespace SyneTune.C14Comp
open SyneTune SyneTune.C04K SyneTune.C14 SyneTune.C13Hb

/-- effect of `rung_sys.on_task_report` on the rung system itself -/
structure SysRep (sys sys' : RungSys) (tid r : Nat) (o : RepOut) : Prop where
  running : sys'.running = sys.running
  sig : sig sys' = sig sys
  ents : ∀ rg' ∈ sys'.rungs, ∀ e ∈ rg'.data, (∃ rg ∈ sys.rungs, rg.level = rg'.level ∧ e ∈ rg.data) ∨
          (o.reached = true ∧ rg'.level = r ∧ e.tid = tid ∧ e.promoted = false)

/-! ### stopping family -/

theorem stopScan_basic (m : Mode) (tid r : Nat) (v : Rat) (hint : Bool) (next : Nat) (rs : List Rung) :
    ((stopScan m tid r v hint next rs).2.continues = false → (stopScan m tid r v hint next rs).2.reached = true) ∧
    (stopScan m tid r v hint next rs).2.ignoreData = false ∧
    (∀ rg' ∈ (stopScan m tid r v hint next rs).1, ∀ e ∈ rg'.data,
      (∃ rg ∈ rs, rg.level = rg'.level ∧ e ∈ rg.data) ∨
      ((stopScan m tid r v hint next rs).2.reached = true ∧ rg'.level = r ∧ e.tid = tid ∧ e.promoted = false)) := by
  induction rs generalizing next with
  | nil => simp [stopScan]
  | cons rg rest ih =>
    unfold stopScan
    by_cases h1 : r < rg.level ∨ rg.contains tid = true
    · simp only [h1, if_true]
      obtain ⟨i1, i2, i3⟩ := ih rg.level
      refine ⟨i1, i2, ?_⟩
      intro rg' hrg' e he
      rcases List.mem_cons.mp hrg' with rfl | hrg'
      · exact Or.inl ⟨rg', by simp, rfl, he⟩
      · rcases i3 rg' hrg' e he with ⟨x, hx, hl, hm⟩ | h
        · exact Or.inl ⟨x, List.mem_cons_of_mem _ hx, hl, hm⟩
        · exact Or.inr h
    · simp only [h1, if_false]
      by_cases h2 : rg.level < r
      · simp only [h2, if_true]
        refine ⟨by simp, trivial, ?_⟩
        intro rg' hrg' e he
        exact Or.inl ⟨rg', hrg', rfl, he⟩
      · simp only [h2, if_false]
        have hl : rg.level = r := by omega
        refine ⟨fun _ => trivial, trivial, ?_⟩
        intro rg' hrg' e he
        rcases List.mem_cons.mp hrg' with rfl | hrg'
        · simp only [Rung.add] at he
          rcases (insertEntry_mem m _ e rg.data).mp he with rfl | he
          · exact Or.inr ⟨trivial, hl, rfl, rfl⟩
          · exact Or.inl ⟨rg, by simp, rfl, he⟩
        · exact Or.inl ⟨rg', List.mem_cons_of_mem _ hrg', rfl, he⟩

theorem stopScan_reach (m : Mode) (tid r : Nat) (v : Rat) (hint : Bool) (next : Nat) (rs : List Rung)
    (hd : RungsDecr rs) (hc : ∀ rg ∈ rs, rg.contains tid = true → rg.level < r) :
    (r ∈ rs.map (·.level) → (stopScan m tid r v hint next rs).2.reached = true ∧
        (stopScan m tid r v hint next rs).2.next = some (nextLevel r next (rs.map (·.level)))) ∧
    (r ∉ rs.map (·.level) → (stopScan m tid r v hint next rs).2.reached = false) := by
  induction rs generalizing next with
  | nil => simp [stopScan]
  | cons rg rest ih =>
    unfold RungsDecr at hd
    rw [List.pairwise_cons] at hd
    have hrest : ∀ x ∈ rest, x.contains tid = true → x.level < r := fun x hx => hc x (List.mem_cons_of_mem _ hx)
    unfold stopScan
    by_cases hA : r < rg.level
    · have h1 : r < rg.level ∨ rg.contains tid = true := Or.inl hA
      simp only [h1, if_true, List.map_cons, List.mem_cons]
      obtain ⟨i1, i2⟩ := ih rg.level hd.2 hrest
      have hne : r ≠ rg.level := by omega
      refine ⟨?_, ?_⟩
      · rintro (h | h)
        · exact absurd h hne
        · obtain ⟨j1, j2⟩ := i1 h
          refine ⟨j1, ?_⟩
          rw [j2]; simp [nextLevel, hA]
      · intro h
        exact i2 (fun hm => h (Or.inr hm))
    · -- all remaining levels are ≤ rg.level ≤ r
      have hlow : ∀ x ∈ rest, x.level < r := fun x hx => by have := hd.1 x hx; omega
      have hnotin : r ∉ rest.map (·.level) := by
        intro hm
        simp only [List.mem_map] at hm
        obtain ⟨x, hx, hxl⟩ := hm
        have := hlow x hx; omega
      by_cases hB : rg.contains tid = true
      · have hlt := hc rg (by simp) hB
        have h1 : r < rg.level ∨ rg.contains tid = true := Or.inr hB
        simp only [h1, if_true, List.map_cons, List.mem_cons]
        have hoff := stopScan_off_rung m tid r v hint rg.level rest
          (fun x hx hxl => by have := hlow x hx; omega)
        refine ⟨?_, fun _ => hoff.2.1⟩
        rintro (h | h)
        · omega
        · exact absurd h hnotin
      · have h1 : ¬ (r < rg.level ∨ rg.contains tid = true) := by
          intro h; rcases h with h | h
          · exact hA h
          · exact hB h
        simp only [h1, if_false, List.map_cons, List.mem_cons]
        by_cases hC : rg.level < r
        · simp only [hC, if_true]
          refine ⟨?_, fun _ => trivial⟩
          rintro (h | h)
          · omega
          · exact absurd h hnotin
        · simp only [hC, if_false]
          have hl : rg.level = r := by omega
          refine ⟨fun _ => ⟨trivial, ?_⟩, fun h => absurd (Or.inl hl.symm) h⟩
          simp [nextLevel, hl]

theorem take_append_drop_map {α β} (f : α → β) (l : List α) (n : Nat) (l1 : List α)
    (h : l1.map f = (l.take n).map f) : (l1 ++ l.drop n).map f = l.map f := by
  rw [List.map_append, h, ← List.map_append, List.take_append_drop]

theorem stopReport_basic (s : RungSys) (m : Mode) (tid r : Nat) (v : Rat) (skip : Nat) (hint : Bool) :
    SysRep s (s.stopReport m tid r v skip hint).1 tid r (s.stopReport m tid r v skip hint).2 ∧
    ((s.stopReport m tid r v skip hint).2.continues = false → (s.stopReport m tid r v skip hint).2.reached = true) ∧
    (s.stopReport m tid r v skip hint).2.ignoreData = false ∧ (s.stopReport m tid r v skip hint).1.thresholds = s.thresholds ∧
    (s.stopReport m tid r v skip hint).1.numThr = s.numThr := by
  unfold RungSys.stopReport
  by_cases hr : r = s.maxT
  · simp only [hr, if_true]
    exact ⟨⟨rfl, rfl, fun rg' hrg' e he => Or.inl ⟨rg', hrg', rfl, he⟩⟩, fun _ => trivial, trivial, trivial, trivial⟩
  · simp only [hr, if_false]
    obtain ⟨b1, b2, b3⟩ := stopScan_basic m tid r v hint s.maxT (milestoneRungs s.rungs skip)
    refine ⟨⟨rfl, ?_, ?_⟩, b1, b2, trivial, trivial⟩
    · simp only [sig, Prod.mk.injEq, true_and]
      exact take_append_drop_map _ s.rungs _ _ (stopScan_levels m tid r v hint s.maxT _)
    · intro rg' hrg' e he
      simp only [List.mem_append] at hrg'
      rcases hrg' with hrg' | hrg'
      · rcases b3 rg' hrg' e he with ⟨x, hx, hl, hm⟩ | h
        · exact Or.inl ⟨x, List.mem_of_mem_take hx, hl, hm⟩
        · exact Or.inr h
      · exact Or.inl ⟨rg', List.mem_of_mem_drop hrg', rfl, he⟩

theorem stopReport_reach (s : RungSys) (m : Mode) (tid r : Nat) (v : Rat) (skip : Nat) (hint : Bool)
    (hd : RungsDecr s.rungs) (hc : ∀ rg ∈ s.rungs, rg.contains tid = true → rg.level < r) (hr : r ≠ s.maxT) :
    (r ∈ s.milestones skip → (s.stopReport m tid r v skip hint).2.reached = true ∧
        (s.stopReport m tid r v skip hint).2.next = some (nextLevel r s.maxT (s.milestones skip))) ∧
    (r ∉ s.milestones skip → (s.stopReport m tid r v skip hint).2.reached = false) := by
  unfold RungSys.stopReport
  simp only [hr, if_false]
  have hd' : RungsDecr (milestoneRungs s.rungs skip) := hd.sublist (List.take_sublist _ _)
  have hc' : ∀ rg ∈ milestoneRungs s.rungs skip, rg.contains tid = true → rg.level < r :=
    fun rg hrg => hc rg (List.mem_of_mem_take hrg)
  exact stopScan_reach m tid r v hint s.maxT _ hd' hc'

theorem rushStopReport_basic (s : RungSys) (m : Mode) (tid r : Nat) (v : Rat) (skip : Nat) (hint : Bool) :
    SysRep s (s.rushStopReport m tid r v skip hint).1 tid r (s.rushStopReport m tid r v skip hint).2 ∧
    ((s.rushStopReport m tid r v skip hint).2.continues = false → (s.rushStopReport m tid r v skip hint).2.reached = true) ∧
    (s.rushStopReport m tid r v skip hint).2.ignoreData = false ∧
    (s.rushStopReport m tid r v skip hint).2.reached = (s.stopReport m tid r v skip hint).2.reached ∧
    (s.rushStopReport m tid r v skip hint).2.next = (s.stopReport m tid r v skip hint).2.next := by
  obtain ⟨⟨b1, b2, b3⟩, c1, c2, _, _⟩ := stopReport_basic s m tid r v skip hint
  unfold RungSys.rushStopReport
  simp only
  split
  · rename_i hcond
    exact ⟨⟨b1, b2, b3⟩, fun _ => hcond.1, c2, rfl, rfl⟩
  · exact ⟨⟨b1, b2, b3⟩, c1, c2, rfl, rfl⟩

/-! ### promotion family -/

theorem promoReport_facts (s s' : RungSys) (m : Mode) (tid r : Nat) (v cost : Rat) (o : RepOut)
    (h : s.promoReport m tid r v cost = .ok (s', o)) :
    ∃ mr, alookup tid s.running = some mr ∧ r ≤ mr.1 ∧ o.ignoreData = ignoreOf mr.2 r ∧
      (r < mr.1 → o.continues = true ∧ o.reached = false) ∧
      (r = mr.1 → o.continues = false ∧ o.reached = true) ∧ SysRep s s' tid r o ∧
      s'.maxT = s.maxT ∧ s'.rungs.length = s.rungs.length := by
  unfold RungSys.promoReport at h
  cases hr : alookup tid s.running with
  | none => simp [hr] at h
  | some mr =>
    simp only [hr] at h
    refine ⟨mr, rfl, ?_⟩
    split at h
    · rename_i hle
      split at h
      · cases h
      · rename_i heq
        have heq' : r = mr.1 := by simpa using heq
        obtain ⟨⟨h1, h2⟩, h3, hs⟩ := promoReached_spec s s' m tid v cost mr.1 _ o h
        refine ⟨by omega, h3, fun hlt => by omega, fun _ => ⟨h1, h2⟩, ?_⟩
        rcases hs with rfl | ⟨pos, rg, g1, g2, _, rfl, _⟩
        · exact ⟨⟨rfl, rfl, fun rg' hrg' e he => Or.inl ⟨rg', hrg', rfl, he⟩⟩, rfl, rfl⟩
        · refine ⟨⟨rfl, ?_, ?_⟩, rfl, by simp⟩
          · simp only [sig, Prod.mk.injEq, true_and]
            exact map_set_same (·.level) s.rungs pos rg (rg.add m { tid := tid, val := v, cost := cost }) g1 rfl
          · intro rg' hrg' e he
            rcases mem_set_cases _ _ _ _ hrg' with rfl | hm
            · simp only [Rung.add] at he
              rcases (insertEntry_mem m _ e rg.data).mp he with rfl | he
              · exact Or.inr ⟨h2, by rw [heq']; exact g2, rfl, rfl⟩
              · exact Or.inl ⟨rg, List.mem_of_getElem? g1, rfl, he⟩
            · exact Or.inl ⟨rg', hm, rfl, he⟩
    · rename_i hlt
      injection h with h; injection h with h1 h2; subst h1; subst h2
      exact ⟨by omega, rfl, fun _ => ⟨rfl, rfl⟩, fun he => by omega,
        ⟨rfl, rfl, fun rg' hrg' e he => Or.inl ⟨rg', hrg', rfl, he⟩⟩, rfl, rfl⟩

theorem pashaReport_facts (s s' : RungSys) (m : Mode) (tid r : Nat) (v eps : Rat) (o : RepOut)
    (h : s.pashaReport m tid r v eps = .ok (s', o)) :
    ∃ mr, alookup tid s.running = some mr ∧ r ≤ mr.1 ∧ o.ignoreData = ignoreOf mr.2 r ∧
      (r < mr.1 → o.continues = true ∧ o.reached = false) ∧
      (r = mr.1 → o.continues = false ∧ o.reached = true) ∧ SysRep s s' tid r o := by
  unfold RungSys.pashaReport at h
  cases hp : s.promoReport m tid r v with
  | error e => simp [hp] at h
  | ok res =>
    obtain ⟨s1, o1⟩ := res
    obtain ⟨mr, f1, f2, f3, f4, f5, ⟨g1, g2, g3⟩, _, _⟩ := promoReport_facts s s1 m tid r v 0 o1 hp
    simp only [hp] at h
    have key : ∀ s2 : RungSys, s2.running = s1.running → s2.rungs = s1.rungs → s2.maxT = s1.maxT →
        SysRep s s2 tid r o1 := by
      intro s2 k1 k2 k3
      refine ⟨by rw [k1, g1], ?_, ?_⟩
      · have : sig s2 = sig s1 := by simp [sig, k2, k3]
        rw [this, g2]
      · rw [k2]; exact g3
    cases hinc : ({ s1 with epsilon := eps } : RungSys).pashaIncrease m with
    | error e => simp [hinc] at h
    | ok inc =>
      simp only [hinc] at h
      split at h
      · split at h
        · split at h
          · cases h
          · injection h with h; injection h with h1 h2; subst h1; subst h2
            exact ⟨mr, f1, f2, f3, f4, f5, key _ rfl rfl rfl⟩
        · injection h with h; injection h with h1 h2; subst h1; subst h2
          exact ⟨mr, f1, f2, f3, f4, f5, key _ rfl rfl rfl⟩
      · injection h with h; injection h with h1 h2; subst h1; subst h2
        exact ⟨mr, f1, f2, f3, f4, f5, key _ rfl rfl rfl⟩

end SyneTune.C14Comp
