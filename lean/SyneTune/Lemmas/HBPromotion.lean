import SyneTune.Model.HB
import SyneTune.Lemmas.HBStopping
/- Helper lemmas for the promotion rung systems (C04). -/
namespace SyneTune

/-- characterisation of `firstUnpromoted`: the entry found sits at position `pos - start`,
is unpromoted, and everything before it is promoted. -/
theorem firstUnpromoted_spec (l : List Entry) (start : Nat) (e : Entry) (pos : Nat)
    (h : firstUnpromoted l start = some (e, pos)) :
    start ≤ pos ∧ l[pos - start]? = some e ∧ e.promoted = false ∧
    ∀ i, i < pos - start → ∀ x, l[i]? = some x → x.promoted = true := by
  induction l generalizing start with
  | nil => simp [firstUnpromoted] at h
  | cons x xs ih =>
    unfold firstUnpromoted at h
    by_cases hp : x.promoted = true
    · simp only [hp, Bool.not_true, Bool.false_eq_true, if_false] at h
      obtain ⟨h1, h2, h3, h4⟩ := ih (start + 1) h
      refine ⟨by omega, ?_, h3, ?_⟩
      · have : pos - start = (pos - (start + 1)) + 1 := by omega
        rw [this, List.getElem?_cons_succ]; exact h2
      · intro i hi y hy
        cases i with
        | zero => simp at hy; rw [← hy]; exact hp
        | succ j =>
          rw [List.getElem?_cons_succ] at hy
          exact h4 j (by omega) y hy
    · simp only [Bool.not_eq_true] at hp
      simp only [hp, Bool.not_false, if_true, Option.some.injEq, Prod.mk.injEq] at h
      obtain ⟨rfl, rfl⟩ := h
      simp [hp]

theorem firstUnpromoted_none (l : List Entry) (start : Nat) (h : firstUnpromoted l start = none) :
    ∀ x ∈ l, x.promoted = true := by
  induction l generalizing start with
  | nil => simp
  | cons x xs ih =>
    unfold firstUnpromoted at h
    by_cases hp : x.promoted = true
    · simp only [hp, Bool.not_true, Bool.false_eq_true, if_false] at h
      intro y hy
      rcases List.mem_cons.mp hy with rfl | hy
      · exact hp
      · exact ih (start + 1) h y hy
    · simp only [Bool.not_eq_true] at hp
      simp [hp] at h

/-- what the milestone-reached branch does: never continues; either nothing changes
(milestone is `max_t`, not a rung) or exactly the milestone's rung gains the entry. -/
theorem promoReached_spec (s s' : RungSys) (m : Mode) (tid : Nat) (v cost : Rat) (ms : Nat)
    (ig : Bool) (o : RepOut) (h : s.promoReached m tid v cost ms ig = .ok (s', o)) :
    (o.continues = false ∧ o.reached = true) ∧ o.ignoreData = ig ∧
    (s' = s ∨ ∃ pos rg, s.rungs[pos]? = some rg ∧ rg.level = ms ∧ rg.contains tid = false ∧
        s' = { s with rungs := s.rungs.set pos (rg.add m { tid := tid, val := v, cost := cost }) } ∧
        o.next = some (nextAbove s.rungs pos s.maxT)) := by
  unfold RungSys.promoReached at h
  cases hp : rungPos s.rungs ms with
  | none =>
    simp only [hp] at h
    injection h with h; injection h with h1 h2; subst h1; subst h2
    exact ⟨⟨rfl, rfl⟩, rfl, Or.inl rfl⟩
  | some pos =>
    simp only [hp] at h
    cases hr : s.rungs[pos]? with
    | none => simp [hr] at h
    | some rg =>
      simp only [hr] at h
      by_cases hc : rg.contains tid = true
      · simp [hc] at h
      · simp only [hc, Bool.false_eq_true, if_false] at h
        injection h with h; injection h with h1 h2; subst h1; subst h2
        refine ⟨⟨rfl, rfl⟩, rfl, Or.inr ⟨pos, rg, hr, ?_, by simpa using hc, rfl, rfl⟩⟩
        unfold rungPos at hp
        have := List.findIdx?_eq_some_iff_getElem.mp hp
        obtain ⟨hlt, hprop, _⟩ := this
        have hget : s.rungs[pos] = rg := by
          have := List.getElem?_eq_some_iff.mp hr; exact this.2
        rw [hget] at hprop
        simpa using hprop

/-- result of the promotion scan, decomposed: which rung was chosen and why. -/
theorem promoScan_some (ty : HBType) (m : Mode) (numThr cap : Nat) (hint : Option Nat) (next : Nat)
    (thr : List (Nat × Rat)) (rs : List Rung) (o : SchedOut)
    (h : (promoScan ty m numThr cap hint next thr rs).out = some o) :
    ∃ pre rg post thr' pos,
      rs = pre ++ rg :: post ∧ rg.level = o.resumeFrom ∧ rg.level < cap ∧
      (findPromotable ty m numThr thr' rg hint).pick = some (o.trial, pos) ∧
      (promoScan ty m numThr cap hint next thr rs).rungs = pre ++ markPromoted m rg pos :: post ∧
      o.milestone = (match pre.getLast? with | some p => p.level | none => next) := by
  induction rs generalizing next thr with
  | nil => simp [promoScan] at h
  | cons rg rest ih =>
    unfold promoScan at h ⊢
    by_cases hc : rg.level < cap
    · simp only [hc, if_true] at h ⊢
      cases hp : (findPromotable ty m numThr thr rg hint).pick with
      | some tp =>
        obtain ⟨tid, pos⟩ := tp
        simp only [hp, Option.some.injEq] at h ⊢
        subst h
        exact ⟨[], rg, rest, thr, pos, rfl, rfl, hc, hp, rfl, rfl⟩
      | none =>
        simp only [hp] at h ⊢
        obtain ⟨pre, rg', post, thr', pos, h1, h2, h3, h4, h5, h6⟩ := ih rg.level _ h
        refine ⟨rg :: pre, rg', post, thr', pos, by rw [h1]; rfl, h2, h3, h4, by rw [h5]; rfl, ?_⟩
        rw [h6]
        cases pre with
        | nil => simp
        | cons q qs =>
          have : (q :: qs).getLast? = some ((q :: qs).getLast (by simp)) := List.getLast?_eq_some_getLast (by simp)
          have h2 : (rg :: q :: qs).getLast? = some ((q :: qs).getLast (by simp)) := by
            rw [List.getLast?_cons_cons]; exact this
          simp [this, h2]
    · simp only [hc, if_false] at h ⊢
      obtain ⟨pre, rg', post, thr', pos, h1, h2, h3, h4, h5, h6⟩ := ih rg.level _ h
      refine ⟨rg :: pre, rg', post, thr', pos, by rw [h1]; rfl, h2, h3, h4, by rw [h5]; rfl, ?_⟩
      rw [h6]
      cases pre with
      | nil => simp
      | cons q qs =>
        have : (q :: qs).getLast? = some ((q :: qs).getLast (by simp)) := List.getLast?_eq_some_getLast (by simp)
        have h2 : (rg :: q :: qs).getLast? = some ((q :: qs).getLast (by simp)) := by
          rw [List.getLast?_cons_cons]; exact this
        simp [this, h2]


/-! ### plain promotion (ASHA, PASHA): the pick does not involve thresholds -/

/-- `_find_promotable_trial` of `PromotionRungSystem`. -/
def plainPick (m : Mode) (rg : Rung) (hint : Option Nat) : Option (Nat × Nat) :=
  match rg.cutoff m with
  | none => none
  | some c =>
    match firstUnpromoted rg.data 0 with
    | none => none
    | some (e, pos) =>
      if (cmpNoWorse m e.val c rg.scale).resolve (hint == some rg.level) then some (e.tid, pos) else none

def HBType.plain (ty : HBType) : Prop := ty = .promotion ∨ ty = .pasha

theorem findPromotable_plain (ty : HBType) (hty : ty.plain) (m : Mode) (numThr : Nat)
    (thr : List (Nat × Rat)) (rg : Rung) (hint : Option Nat) :
    (findPromotable ty m numThr thr rg hint).pick = plainPick m rg hint ∧
    (findPromotable ty m numThr thr rg hint).thr = thr := by
  have key : (findPromotableQ false m numThr thr rg hint).pick = plainPick m rg hint ∧
      (findPromotableQ false m numThr thr rg hint).thr = thr := by
    unfold findPromotableQ plainPick
    cases rg.cutoff m with
    | none => simp
    | some c =>
      simp only [Bool.false_eq_true, if_false]
      unfold quantileTest
      cases firstUnpromoted rg.data 0 with
      | none => simp
      | some ep =>
        obtain ⟨e, pos⟩ := ep
        simp only
        split <;> simp
  rcases hty with rfl | rfl <;> exact key

/-- what a plain pick means -/
theorem plainPick_some (m : Mode) (rg : Rung) (hint : Option Nat) (tid pos : Nat)
    (h : plainPick m rg hint = some (tid, pos)) :
    ∃ c e, rg.cutoff m = some c ∧ rg.data[pos]? = some e ∧ e.tid = tid ∧ e.promoted = false ∧
      (∀ i, i < pos → ∀ x, rg.data[i]? = some x → x.promoted = true) ∧
      (∀ b, cmpNoWorse m e.val c rg.scale = .forced b → b = true) := by
  unfold plainPick at h
  cases hc : rg.cutoff m with
  | none => simp [hc] at h
  | some c =>
    simp only [hc] at h
    cases hf : firstUnpromoted rg.data 0 with
    | none => simp [hf] at h
    | some ep =>
      obtain ⟨e, p⟩ := ep
      simp only [hf] at h
      split at h
      · rename_i hres
        simp only [Option.some.injEq, Prod.mk.injEq] at h
        obtain ⟨h1, h2⟩ := h
        subst h2
        obtain ⟨_, g2, g3, g4⟩ := firstUnpromoted_spec rg.data 0 e p hf
        refine ⟨c, e, rfl, by simpa using g2, h1, g3, by simpa using g4, ?_⟩
        intro b hb
        rw [hb] at hres
        simpa [Cmp.resolve] using hres
      · cases h

/-- what "no plain pick" means: fewer than two entries, or every entry already promoted, or
the best unpromoted entry is (forced) worse than the quantile / within round-off and the
implementation did not promote it. -/
theorem plainPick_none (m : Mode) (rg : Rung) (hint : Option Nat) (h : plainPick m rg hint = none) :
    rg.cutoff m = none ∨ (∀ x ∈ rg.data, x.promoted = true) ∨
    ∃ c e pos, rg.cutoff m = some c ∧ firstUnpromoted rg.data 0 = some (e, pos) ∧
      (∀ b, cmpNoWorse m e.val c rg.scale = .forced b → b = false) := by
  unfold plainPick at h
  cases hc : rg.cutoff m with
  | none => exact Or.inl rfl
  | some c =>
    simp only [hc] at h
    cases hf : firstUnpromoted rg.data 0 with
    | none => exact Or.inr (Or.inl (firstUnpromoted_none _ _ hf))
    | some ep =>
      obtain ⟨e, p⟩ := ep
      simp only [hf] at h
      split at h
      · cases h
      · rename_i hres
        refine Or.inr (Or.inr ⟨c, e, p, rfl, rfl, ?_⟩)
        intro b hb
        rw [hb] at hres
        simpa [Cmp.resolve] using hres

theorem promoScan_plain_pre_none (ty : HBType) (hty : ty.plain) (m : Mode) (numThr cap : Nat)
    (hint : Option Nat) (next : Nat) (thr : List (Nat × Rat)) (rs : List Rung) (o : SchedOut)
    (h : (promoScan ty m numThr cap hint next thr rs).out = some o) :
    ∃ pre rg post pos,
      rs = pre ++ rg :: post ∧ rg.level = o.resumeFrom ∧ rg.level < cap ∧
      (∀ p ∈ pre, p.level < cap → plainPick m p hint = none) ∧
      plainPick m rg hint = some (o.trial, pos) ∧
      (promoScan ty m numThr cap hint next thr rs).rungs = pre ++ markPromoted m rg pos :: post ∧
      o.milestone = (match pre.getLast? with | some p => p.level | none => next) := by
  induction rs generalizing next thr with
  | nil => simp [promoScan] at h
  | cons rg rest ih =>
    unfold promoScan at h ⊢
    have hfp := findPromotable_plain ty hty m numThr thr rg hint
    by_cases hc : rg.level < cap
    · simp only [hc, if_true] at h ⊢
      cases hp : (findPromotable ty m numThr thr rg hint).pick with
      | some tp =>
        obtain ⟨tid, pos⟩ := tp
        simp only [hp, Option.some.injEq] at h ⊢
        subst h
        refine ⟨[], rg, rest, pos, rfl, rfl, hc, by simp, ?_, rfl, rfl⟩
        rw [← hfp.1]; exact hp
      | none =>
        simp only [hp] at h ⊢
        obtain ⟨pre, rg', post, pos, h1, h2, h3, h4, h5, h6, h7⟩ := ih rg.level _ h
        refine ⟨rg :: pre, rg', post, pos, by rw [h1]; rfl, h2, h3, ?_, h5, by rw [h6]; rfl, ?_⟩
        · intro p hp' hlt
          rcases List.mem_cons.mp hp' with rfl | hp'
          · rw [← hfp.1]; exact hp
          · exact h4 p hp' hlt
        · rw [h7]
          cases pre with
          | nil => simp
          | cons q qs =>
            have : (q :: qs).getLast? = some ((q :: qs).getLast (by simp)) := List.getLast?_eq_some_getLast (by simp)
            have h2 : (rg :: q :: qs).getLast? = some ((q :: qs).getLast (by simp)) := by
              rw [List.getLast?_cons_cons]; exact this
            simp [this, h2]
    · simp only [hc, if_false] at h ⊢
      obtain ⟨pre, rg', post, pos, h1, h2, h3, h4, h5, h6, h7⟩ := ih rg.level _ h
      refine ⟨rg :: pre, rg', post, pos, by rw [h1]; rfl, h2, h3, ?_, h5, by rw [h6]; rfl, ?_⟩
      · intro p hp' hlt
        rcases List.mem_cons.mp hp' with rfl | hp'
        · exact absurd hlt hc
        · exact h4 p hp' hlt
      · rw [h7]
        cases pre with
        | nil => simp
        | cons q qs =>
          have : (q :: qs).getLast? = some ((q :: qs).getLast (by simp)) := List.getLast?_eq_some_getLast (by simp)
          have h2 : (rg :: q :: qs).getLast? = some ((q :: qs).getLast (by simp)) := by
            rw [List.getLast?_cons_cons]; exact this
          simp [this, h2]

theorem promoScan_plain_none (ty : HBType) (hty : ty.plain) (m : Mode) (numThr cap : Nat)
    (hint : Option Nat) (next : Nat) (thr : List (Nat × Rat)) (rs : List Rung)
    (h : (promoScan ty m numThr cap hint next thr rs).out = none) :
    (∀ p ∈ rs, p.level < cap → plainPick m p hint = none) ∧
    (promoScan ty m numThr cap hint next thr rs).rungs = rs := by
  induction rs generalizing next thr with
  | nil => simp [promoScan]
  | cons rg rest ih =>
    unfold promoScan at h ⊢
    have hfp := findPromotable_plain ty hty m numThr thr rg hint
    by_cases hc : rg.level < cap
    · simp only [hc, if_true] at h ⊢
      cases hp : (findPromotable ty m numThr thr rg hint).pick with
      | some tp => obtain ⟨tid, pos⟩ := tp; simp [hp] at h
      | none =>
        simp only [hp] at h ⊢
        obtain ⟨g1, g2⟩ := ih rg.level _ h
        refine ⟨?_, by rw [g2]⟩
        intro p hp' hlt
        rcases List.mem_cons.mp hp' with rfl | hp'
        · rw [← hfp.1]; exact hp
        · exact g1 p hp' hlt
    · simp only [hc, if_false] at h ⊢
      obtain ⟨g1, g2⟩ := ih rg.level _ h
      refine ⟨?_, by rw [g2]⟩
      intro p hp' hlt
      rcases List.mem_cons.mp hp' with rfl | hp'
      · exact absurd hlt hc
      · exact g1 p hp' hlt

end SyneTune
