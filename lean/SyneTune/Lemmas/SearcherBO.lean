import SyneTune.Model.Exclusion
/-
Lemmas about the final exclusion filter of the BO loop (`pickFromLocallyOptimized`) and
the GP searchers' state codec (`Model/Searcher.lean`), for C06 (`no_repeat_bo`) and C16
(`state_codec`).
-/
namespace SyneTune.Srch

theorem mem_exclAdd (m x : String) (l : List String) : m ∈ exclAdd x l ↔ m = x ∨ m ∈ l := by
  unfold exclAdd
  split
  · constructor
    · intro h; exact Or.inr h
    · rintro (h | h)
      · subst h; assumption
      · exact h
  · simp

/-- loop invariant of `pickLoop` -/
structure PInv (mk : MK) (excl0 : List String) (all : List (Config × Config))
    (excl : List String) (acc : List Config) : Prop where
  sub : ∀ m ∈ excl0, m ∈ excl
  ok : ∀ c ∈ acc, ∃ m, mk c = .ok m ∧ m ∉ excl0 ∧ m ∈ excl
  pw : acc.Pairwise (fun a b => mk a ≠ mk b)
  src : ∀ c ∈ acc, ∃ p ∈ all, c = p.1 ∨ c = p.2

theorem PInv.step {mk : MK} {excl0 : List String} {all : List (Config × Config)}
    {excl : List String} {acc : List Config} (hI : PInv mk excl0 all excl acc)
    {c : Config} {m : String} (hm : mk c = .ok m) (hne : m ∉ excl)
    (hsrc : ∃ p ∈ all, c = p.1 ∨ c = p.2) :
    PInv mk excl0 all (exclAdd m excl) (acc ++ [c]) := by
  refine ⟨?_, ?_, ?_, ?_⟩
  · intro x hx
    exact (mem_exclAdd _ _ _).2 (Or.inr (hI.sub x hx))
  · intro d hd
    rcases List.mem_append.1 hd with hd | hd
    · obtain ⟨md, h1, h2, h3⟩ := hI.ok d hd
      exact ⟨md, h1, h2, (mem_exclAdd _ _ _).2 (Or.inr h3)⟩
    · have : d = c := by simpa using hd
      subst this
      refine ⟨m, hm, ?_, (mem_exclAdd _ _ _).2 (Or.inl rfl)⟩
      intro h0
      exact hne (hI.sub m h0)
  · rw [List.pairwise_append]
    refine ⟨hI.pw, List.pairwise_singleton _ _, ?_⟩
    intro a ha b hb
    have : b = c := by simpa using hb
    subst this
    obtain ⟨ma, h1, _, h3⟩ := hI.ok a ha
    rw [h1, hm]
    intro heq
    injection heq with heq
    subst heq
    exact hne h3
  · intro d hd
    rcases List.mem_append.1 hd with hd | hd
    · exact hI.src d hd
    · have : d = c := by simpa using hd
      subst this
      exact hsrc

theorem pickLoop_spec (mk : MK) (excl0 : List String) (num : Nat) (all : List (Config × Config)) :
    ∀ (pairs : List (Config × Config)) (excl : List String) (acc res : List Config),
      (∀ p ∈ pairs, p ∈ all) → PInv mk excl0 all excl acc → (1 ≤ num → acc.length < num) →
      pickLoop mk num pairs excl acc = .ok res →
      (∃ excl', PInv mk excl0 all excl' res) ∧ (1 ≤ num → res.length ≤ num) := by
  intro pairs
  induction pairs with
  | nil =>
    intro excl acc res _ hI hlen h
    simp only [pickLoop] at h
    injection h with h
    subst h
    exact ⟨⟨excl, hI⟩, fun h1 => Nat.le_of_lt (hlen h1)⟩
  | cons p rest ih =>
    intro excl acc res hsub hI hlen h
    obtain ⟨orig, opt⟩ := p
    have hrest : ∀ p ∈ rest, p ∈ all := fun p hp => hsub p (List.mem_cons_of_mem _ hp)
    have hin : (orig, opt) ∈ all := hsub _ (List.mem_cons_self ..)
    simp only [pickLoop] at h
    cases hmo : mk opt with
    | error e => simp [hmo] at h
    | ok mo =>
      simp only [hmo] at h
      by_cases hc : mo ∈ excl
      · simp only [hc, if_true] at h
        cases hmg : mk orig with
        | error e => simp [hmg] at h
        | ok mg =>
          simp only [hmg] at h
          by_cases hg : mg ∈ excl
          · simp only [hg, if_true] at h
            by_cases hl : acc.length = num
            · simp only [hl, if_true] at h
              injection h with h
              subst h
              exact ⟨⟨excl, hI⟩, fun _ => Nat.le_of_eq hl⟩
            · simp only [hl, if_false] at h
              exact ih excl acc res hrest hI hlen h
          · simp only [hg, if_false] at h
            have hI' := hI.step hmg hg ⟨_, hin, Or.inl rfl⟩
            by_cases hl : (acc ++ [orig]).length = num
            · simp only [hl, if_true] at h
              injection h with h
              subst h
              exact ⟨⟨_, hI'⟩, fun _ => Nat.le_of_eq hl⟩
            · simp only [hl, if_false] at h
              refine ih _ _ res hrest hI' ?_ h
              intro h1
              have := hlen h1
              simp at hl ⊢
              omega
      · simp only [hc, if_false] at h
        have hI' := hI.step hmo hc ⟨_, hin, Or.inr rfl⟩
        by_cases hl : (acc ++ [opt]).length = num
        · simp only [hl, if_true] at h
          injection h with h
          subst h
          exact ⟨⟨_, hI'⟩, fun _ => Nat.le_of_eq hl⟩
        · simp only [hl, if_false] at h
          refine ih _ _ res hrest hI' ?_ h
          intro h1
          have := hlen h1
          simp at hl ⊢
          omega

/-- **BO filter**: whatever the optimiser proposes (`pairs` arbitrary), every returned
configuration has a match string outside the exclusion set, no two returned
configurations share a match string, each is one of the proposals (original or locally
optimised candidate), and at most `num` are returned (for `num ≥ 1`). -/
theorem pick_spec (mk : MK) (excl : List String) (num : Nat) (pairs : List (Config × Config))
    (res : List Config) (h : pickFromLocallyOptimized mk excl num pairs = .ok res) :
    (∀ c ∈ res, ∃ m, mk c = .ok m ∧ m ∉ excl) ∧
    res.Pairwise (fun a b => mk a ≠ mk b) ∧
    (∀ c ∈ res, ∃ p ∈ pairs, c = p.1 ∨ c = p.2) ∧
    (1 ≤ num → res.length ≤ num) := by
  unfold pickFromLocallyOptimized at h
  have h0 : PInv mk excl pairs excl [] :=
    ⟨fun _ hm => hm, fun _ hc => (by cases hc), List.Pairwise.nil, fun _ hc => (by cases hc)⟩
  obtain ⟨⟨excl', hI⟩, hlen⟩ :=
    pickLoop_spec mk excl num pairs pairs excl [] res (fun _ hp => hp) h0
      (fun h1 => by simp; omega) h
  refine ⟨?_, hI.pw, hI.src, hlen⟩
  intro c hc
  obtain ⟨m, h1, h2, _⟩ := hI.ok c hc
  exact ⟨m, h1, h2⟩

theorem decVal_encVal (v : Val) : decVal (encVal v) = .ok v := by
  cases v <;> rfl

theorem decKVs_map {α} (f : J → Except Err α) (g : α → J) (hfg : ∀ x, f (g x) = .ok x)
    (l : List (String × α)) : decKVs f (l.map fun kv => (kv.1, g kv.2)) = .ok l := by
  induction l with
  | nil => rfl
  | cons a l ih =>
    obtain ⟨k, v⟩ := a
    simp only [List.map_cons, decKVs, hfg, ih]

theorem decList_map {α} (f : J → Except Err α) (g : α → J) (hfg : ∀ x, f (g x) = .ok x)
    (l : List α) : decList f (l.map g) = .ok l := by
  induction l with
  | nil => rfl
  | cons a l ih =>
    simp only [List.map_cons, decList, hfg, ih]

theorem decConfig_encConfig (c : Config) : decConfig (encConfig c) = .ok c := by
  simp only [encConfig, decConfig]
  exact decKVs_map decVal encVal decVal_encVal c

theorem decNum_num (x : Rat) : decNum (J.num x) = .ok x := rfl

theorem decMetric_encMetric (m : MetricVal) : decMetric (encMetric m) = .ok m := by
  cases m with
  | scalar x => rfl
  | byRes m =>
    simp only [encMetric, decMetric, decKVs_map decNum J.num decNum_num m]

theorem decEval_encEval (e : TrialEval) : decEval (encEval e) = .ok e := by
  cases e with
  | mk tid metrics =>
    simp [encEval, decEval, J.get, decKVs_map decMetric encMetric decMetric_encMetric metrics]

theorem decPending_encPending (p : Pending) : decPending (encPending p) = .ok p := by
  cases p with
  | mk tid resource =>
    cases resource with
    | none => simp [encPending, decPending, J.get]
    | some r =>
      have h0 : (0 : Int) ≤ (r : Int) := Int.natCast_nonneg r
      simp only [encPending, decPending, J.get]
      simp [h0]

theorem decStr_str (s : String) : decStr (J.str s) = .ok s := rfl

/-- the codec is the identity on every bookkeeping state whose trial ids are registered
(the invariant `TuningJobState.__init__` asserts) -/
theorem decode_encode (s : TJState) (h : s.idsRegistered = true) :
    decodeState (encodeState s) = .ok s := by
  cases s with
  | mk cf ev fl pe =>
    unfold encodeState decodeState
    simp only []
    generalize hA : J.obj (List.map (fun kv => (kv.fst, encConfig kv.snd)) cf) = A
    generalize hB : J.arr (List.map encEval ev) = B
    generalize hC : J.arr (List.map J.str fl) = C
    generalize hD : J.arr (List.map encPending pe) = D
    have g1 : J.get "config_for_trial" [("config_for_trial", A), ("trials_evaluations", B),
        ("failed_trials", C), ("pending_evaluations", D)] = some A := by simp [J.get]
    have g2 : J.get "trials_evaluations" [("config_for_trial", A), ("trials_evaluations", B),
        ("failed_trials", C), ("pending_evaluations", D)] = some B := by simp [J.get]
    have g3 : J.get "failed_trials" [("config_for_trial", A), ("trials_evaluations", B),
        ("failed_trials", C), ("pending_evaluations", D)] = some C := by simp [J.get]
    have g4 : J.get "pending_evaluations" [("config_for_trial", A), ("trials_evaluations", B),
        ("failed_trials", C), ("pending_evaluations", D)] = some D := by simp [J.get]
    rw [g1, g2, g3, g4]
    subst hA hB hC hD
    simp only []
    rw [decKVs_map decConfig encConfig decConfig_encConfig cf,
      decList_map decEval encEval decEval_encEval ev,
      decList_map decStr J.str decStr_str fl,
      decList_map decPending encPending decPending_encPending pe]
    simp only [h, if_true]

end SyneTune.Srch
