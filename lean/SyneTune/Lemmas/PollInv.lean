import SyneTune.Lemmas.PollBasic
/-
The per-trial invariant of the generic poll model and its preservation by every
primitive state change.
-/
namespace SyneTune.PollL
open SyneTune SyneTune.Backend

/-- reports of run `k` in a trial's output, as written -/
def runReps (k : Nat) (out : List Rep) : List Rep := out.filter (fun r => r.run == k)

/-- invariant of one trial; `c` is the global emission counter -/
structure TInv (c : Nat) (x : PTrial) : Prop where
  cursor_le : x.cursor ≤ x.out.length
  deliv_eq : x.deliv = x.out.take x.cursor
  stamps : x.out.Pairwise (fun a b => a.stamp < b.stamp)
  stamps_lt : ∀ r ∈ x.out, r.stamp < c
  run_le : ∀ r ∈ x.out, r.run ≤ x.run
  cur_idx : (runReps x.run x.out).map (·.idx) = List.range x.nrep
  all_idx : ∀ k, ∃ n, (runReps k x.out).map (·.idx) = List.range n
  fresh : x.staleAtResume = false → x.since ++ x.out.drop x.cursor = runReps x.run x.out
  quiet : x.decided = true → x.status.hidden = true ∨ (x.proc ≠ .running ∧ x.cursor = x.out.length)
  after : x.afterDec = []

theorem TInv.mono {c c' : Nat} {x : PTrial} (h : TInv c x) (hc : c ≤ c') : TInv c' x :=
  { h with stamps_lt := fun r hr => Nat.lt_of_lt_of_le (h.stamps_lt r hr) hc }

theorem TInv.init (c : Nat) : TInv c {} := by
  constructor <;> simp [runReps, PTrial.status, St.hidden]

theorem runReps_append (k : Nat) (a b : List Rep) : runReps k (a ++ b) = runReps k a ++ runReps k b := by
  simp [runReps]

theorem runReps_newReps_same (run k c n : Nat) : runReps run (newReps run k c n) = newReps run k c n := by
  unfold runReps
  rw [List.filter_eq_self]
  intro r hr
  simp [newReps_run run k c n r hr]

theorem runReps_newReps_other (run run' k c n : Nat) (h : run ≠ run') : runReps run' (newReps run k c n) = [] := by
  unfold runReps
  rw [List.filter_eq_nil_iff]
  intro r hr
  have := newReps_run run k c n r hr
  simp [this, h]

theorem status_emit (x : PTrial) (c n : Nat) : (x.emit c n).status = x.status := by
  unfold PTrial.emit
  split <;> simp [PTrial.status, *]

theorem TInv.emit {c : Nat} {x : PTrial} (h : TInv c x) (n : Nat) : TInv (c + n) (x.emit c n) := by
  by_cases hp : x.proc = .running
  · have he : x.emit c n = { x with out := x.out ++ newReps x.run x.nrep c n, nrep := x.nrep + n } := by
      simp [PTrial.emit, hp]
    have hst := status_emit x c n
    rw [he] at hst ⊢
    constructor
    · simp; have := h.cursor_le; omega
    · simp only; rw [List.take_append_of_le_length h.cursor_le]; exact h.deliv_eq
    · simp only
      rw [List.pairwise_append]
      refine ⟨h.stamps, newReps_stamp_sorted _ _ _ _, ?_⟩
      intro a ha b hb
      have := h.stamps_lt a ha
      have := (newReps_stamp_bounds x.run x.nrep c n b hb).1
      omega
    · intro r hr
      simp only [List.mem_append] at hr
      rcases hr with hr | hr
      · have := h.stamps_lt r hr; omega
      · exact (newReps_stamp_bounds x.run x.nrep c n r hr).2
    · intro r hr
      simp only [List.mem_append] at hr
      rcases hr with hr | hr
      · exact h.run_le r hr
      · simp [newReps_run _ _ _ _ r hr]
    · simp only
      rw [runReps_append, runReps_newReps_same, List.map_append, h.cur_idx, newReps_idx]
      rw [List.range_eq_range', List.range_eq_range']
      rw [← List.range'_append_1]; simp
    · intro k
      simp only
      by_cases hk : x.run = k
      · subst hk
        refine ⟨x.nrep + n, ?_⟩
        rw [runReps_append, runReps_newReps_same, List.map_append, h.cur_idx, newReps_idx]
        rw [List.range_eq_range', List.range_eq_range']
        rw [← List.range'_append_1]; simp
      · obtain ⟨m, hm⟩ := h.all_idx k
        refine ⟨m, ?_⟩
        rw [runReps_append, runReps_newReps_other _ _ _ _ _ hk]; simpa using hm
    · intro hs
      simp only at hs ⊢
      rw [List.drop_append_of_le_length h.cursor_le, ← List.append_assoc, h.fresh hs,
        runReps_append, runReps_newReps_same]
    · intro hd
      rcases h.quiet hd with hq | hq
      · left; rw [hst]; exact hq
      · exact absurd hp hq.1
    · exact h.after
  · have he : x.emit c n = x := by
      unfold PTrial.emit
      split
      · rename_i hh; exact absurd hh hp
      · rfl
    rw [he]; exact h.mono (by omega)


/-- a change that leaves output, cursor and the histories alone and keeps the trial quiet -/
theorem TInv.of_same {c : Nat} {x y : PTrial} (h : TInv c x)
    (hout : y.out = x.out) (hcur : y.cursor = x.cursor) (hrun : y.run = x.run) (hnrep : y.nrep = x.nrep)
    (hdel : y.deliv = x.deliv) (hsince : y.since = x.since) (hstale : y.staleAtResume = x.staleAtResume)
    (hafter : y.afterDec = x.afterDec)
    (hq : y.decided = true → y.status.hidden = true ∨ (y.proc ≠ .running ∧ y.cursor = y.out.length)) :
    TInv c y := by
  constructor
  · rw [hout, hcur]; exact h.cursor_le
  · rw [hout, hcur, hdel]; exact h.deliv_eq
  · rw [hout]; exact h.stamps
  · rw [hout]; exact h.stamps_lt
  · rw [hout, hrun]; exact h.run_le
  · rw [hout, hrun, hnrep]; exact h.cur_idx
  · rw [hout]; exact h.all_idx
  · rw [hout, hcur, hrun, hsince, hstale]; exact h.fresh
  · exact hq
  · rw [hafter]; exact h.after

/-- `hidden` only depends on the three markers -/
theorem hidden_iff (x : PTrial) :
    x.status.hidden = true ↔ (x.stopFile = true ∨ x.pauseFile = true ∨ x.stopReq = true) := by
  unfold PTrial.status
  cases h1 : x.stopFile <;> cases h2 : x.pauseFile <;> cases h3 : x.stopReq <;> simp [St.hidden]
  cases x.proc with
  | running => simp
  | exited ok => cases ok <;> simp
  | killed => simp

theorem hidden_of_stopFile (x : PTrial) (h : x.stopFile = true) : x.status.hidden = true :=
  (hidden_iff x).mpr (Or.inl h)

theorem hidden_of_pauseFile (x : PTrial) (h : x.pauseFile = true) : x.status.hidden = true :=
  (hidden_iff x).mpr (Or.inr (Or.inl h))

theorem hidden_of_stopReq (x : PTrial) (h : x.stopReq = true) : x.status.hidden = true :=
  (hidden_iff x).mpr (Or.inr (Or.inr h))

theorem TInv.exit {c : Nat} {x : PTrial} (h : TInv c x) (ok : Bool) : TInv c (x.exit ok) := by
  unfold PTrial.exit
  split
  · split
    · refine h.of_same rfl rfl rfl rfl rfl rfl rfl rfl ?_
      intro _; left; exact hidden_of_stopFile _ rfl
    · rename_i hp hs
      refine h.of_same rfl rfl rfl rfl rfl rfl rfl rfl ?_
      intro hd
      rcases h.quiet hd with hq | hq
      · left; rw [hidden_iff] at hq ⊢; simpa using hq
      · exact absurd hp hq.1
  · exact h

theorem TInv.kill {c : Nat} {x : PTrial} (h : TInv c x) : TInv c x.kill := by
  unfold PTrial.kill
  split
  · rename_i hp
    refine h.of_same rfl rfl rfl rfl rfl rfl rfl rfl ?_
    intro hd
    rcases h.quiet hd with hq | hq
    · left; rw [hidden_iff] at hq ⊢; simpa using hq
    · exact absurd hp hq.1
  · exact h

theorem TInv.pause {c : Nat} {x : PTrial} (h : TInv c x) : TInv c x.pause := by
  unfold PTrial.pause
  refine h.kill.of_same rfl rfl rfl rfl rfl rfl rfl rfl ?_
  intro _; left; exact hidden_of_pauseFile _ rfl

theorem TInv.stop {c : Nat} {x : PTrial} (h : TInv c x) (d : Bool) : TInv c (PTrial.stop d x) := by
  unfold PTrial.stop
  cases d with
  | false =>
    simp only [Bool.false_eq_true, if_false]
    exact h.kill.of_same rfl rfl rfl rfl rfl rfl rfl rfl (fun _ => Or.inl (hidden_of_stopFile _ rfl))
  | true =>
    simp only [if_true]
    split
    · exact h.of_same rfl rfl rfl rfl rfl rfl rfl rfl (fun _ => Or.inl (hidden_of_stopReq _ rfl))
    · exact h.of_same rfl rfl rfl rfl rfl rfl rfl rfl (fun _ => Or.inl (hidden_of_stopFile _ rfl))

theorem hidden_stop (d : Bool) (x : PTrial) : (PTrial.stop d x).status.hidden = true := by
  unfold PTrial.stop
  cases d with
  | false => simp only [Bool.false_eq_true, if_false]; exact hidden_of_stopFile _ rfl
  | true =>
    simp only [if_true]
    split
    · exact hidden_of_stopReq _ rfl
    · exact hidden_of_stopFile _ rfl

theorem runReps_eq_nil_of_lt (k : Nat) (out : List Rep) (h : ∀ r ∈ out, r.run < k) : runReps k out = [] := by
  unfold runReps
  rw [List.filter_eq_nil_iff]
  intro r hr
  have := h r hr
  simp; omega

theorem TInv.resume {c : Nat} {x : PTrial} (h : TInv c x) : TInv c x.resume := by
  unfold PTrial.resume
  have hnil : runReps (x.run + 1) x.out = [] :=
    runReps_eq_nil_of_lt _ _ (fun r hr => by have := h.run_le r hr; omega)
  constructor
  · exact h.cursor_le
  · exact h.deliv_eq
  · exact h.stamps
  · exact h.stamps_lt
  · intro r hr; have := h.run_le r hr; simp; omega
  · simp only; rw [hnil]; rfl
  · exact h.all_idx
  · intro hs
    simp only [decide_eq_false_iff_not, Nat.not_lt] at hs
    simp only [List.nil_append]
    rw [hnil, List.drop_eq_nil_iff]; exact hs
  · intro hd; simp at hd
  · exact h.after

theorem fetchOne_pos (x : PTrial) (h : x.out.length > 0 ∧ ¬ x.status.hidden = true) :
    x.fetchOne = ({ x with dictSt := x.status, cursor := x.cursor + (x.out.drop x.cursor).length },
                  x.out.drop x.cursor) := by
  simp only [PTrial.fetchOne]; rw [if_pos h]

theorem fetchOne_neg (x : PTrial) (h : ¬ (x.out.length > 0 ∧ ¬ x.status.hidden = true)) :
    x.fetchOne = ({ x with dictSt := x.status }, []) := by
  simp only [PTrial.fetchOne]; rw [if_neg h]

/-- `fetchOne` followed by the bookkeeping of what it returned -/
theorem TInv.fetchOne {c : Nat} {x : PTrial} (h : TInv c x) :
    TInv c (x.fetchOne.1.record x.fetchOne.2) := by
  by_cases hcond : x.out.length > 0 ∧ ¬ x.status.hidden = true
  · rw [fetchOne_pos x hcond]
    simp only [PTrial.record]
    have hlen : (x.out.drop x.cursor).length = x.out.length - x.cursor := List.length_drop
    have hcur : x.cursor + (x.out.drop x.cursor).length = x.out.length := by
      have := h.cursor_le; omega
    constructor
    · simp only; omega
    · simp only; rw [hcur, List.take_length, h.deliv_eq, List.take_append_drop]
    · exact h.stamps
    · exact h.stamps_lt
    · exact h.run_le
    · exact h.cur_idx
    · exact h.all_idx
    · intro hs
      simp only at hs ⊢
      rw [hcur, List.drop_length, List.append_nil]
      exact h.fresh hs
    · intro hd
      right
      simp only at hd
      constructor
      · rcases h.quiet hd with hq | hq
        · exfalso; exact hcond.2 hq
        · exact hq.1
      · exact hcur
    · simp only
      split
      · rename_i hd
        rcases h.quiet hd with hq | hq
        · exfalso; exact hcond.2 hq
        · rw [h.after, hq.2, List.drop_length]; rfl
      · exact h.after
  · rw [fetchOne_neg x hcond]
    simp only [PTrial.record, List.append_nil]
    refine h.of_same rfl rfl rfl rfl rfl rfl rfl ?_ ?_
    · simp only; split <;> rfl
    · intro hd
      have := h.quiet hd
      simpa [PTrial.status] using this

theorem record_nil (x : PTrial) : x.record [] = x := by
  simp [PTrial.record]

theorem TInv.hand {c : Nat} {x : PTrial} (h : TInv c x) (r : Rep) (hd : x.decided = false) :
    TInv c (x.hand r) := by
  unfold PTrial.hand
  refine h.of_same rfl rfl rfl rfl rfl rfl rfl ?_ ?_
  · simp [hd]
  · intro hd'; simp [hd] at hd'

theorem TInv.markDecided {c : Nat} {x : PTrial} (h : TInv c x) (d : Decision)
    (hq : d ≠ .continue → x.status.hidden = true ∨ (x.proc ≠ .running ∧ x.cursor = x.out.length)) :
    TInv c (x.markDecided d) := by
  unfold PTrial.markDecided
  refine h.of_same rfl rfl rfl rfl rfl rfl rfl rfl ?_
  intro hd
  simp only [Bool.or_eq_true, decide_eq_true_eq] at hd
  rcases hd with hd | hd
  · exact h.quiet hd
  · exact hq hd

end SyneTune.PollL
