import SyneTune.Lemmas.C14SyncResult
/- C14 synchronous composition: `on_trial_error`, the three outcomes of `_suggest`, and the
operations which do not change the searcher (`on_trial_complete` within the contract,
`on_trial_remove`, `trials_checkpoints_can_be_removed`) keep the invariant. -/
namespace SyneTune.Sync.C14S
open SyneTune.C14 SyneTune.C14Comp

theorem isLabeled_congr {st st' : SState} (h : st'.observed = st.observed) (t r : Nat) :
    st'.isLabeled t r = st.isLabeled t r := by
  unfold SState.isLabeled; rw [h]

/-! ### `on_trial_error` -/

/-- failure of a trial which is not registered: only `evaluation_failed` -/
theorem cinvS_failed_idle {y : SysS} (h : CInvS y) {t : Nat} (hn : alookup t y.sched.pending = none)
    {st' : SState} (hpend : st'.pending = y.st.pending.filter (fun p => p.1 != t))
    (hobs : st'.observed = y.st.observed) (hmode : st'.mode = y.st.mode) :
    CInvS { sched := y.sched, st := st', last := y.last } := by
  have hmem : ∀ p, p ∈ st'.pending ↔ p ∈ y.st.pending := by
    intro p
    rw [hpend, List.mem_filter]
    constructor
    · exact fun h => h.1
    · intro hp
      exact ⟨hp, by simpa using no_pending_of_not_running h hn p hp⟩
  refine ⟨h.inv, by change st'.pending.Nodup; rw [hpend]; exact h.pnd.filter _, obsWF_congr hobs h.owf, ?_, ?_, h.lastOk, ?_, ?_⟩
  · intro p hp
    exact h.pend p ((hmem p).mp hp)
  · intro t' id' sl' hl' hs
    exact (hmem _).mpr (h.conv t' id' sl' hl' hs)
  · intro t' r' hl'
    change st'.isLabeled t' r' = true at hl'
    rw [isLabeled_congr hobs] at hl'
    rcases h.obs t' r' hl' with ⟨j, k, p, m, hs, a1, a2, a3, a4⟩ | h2
    · refine Or.inl ⟨j, k, p, m, hs, a1, a2, ?_, a4⟩
      intro hrl
      obtain ⟨x, hx, ho⟩ := a3 hrl
      refine ⟨x, hx, ?_⟩
      change obsAt st' t' r' = some (st'.crit x)
      rw [obsAt_congr hobs, crit_of_mode hmode]; exact ho
    · exact Or.inr h2
  · intro t' j k p x hs
    change obsAt st' t' (y.sched.lvl j k) = some (st'.crit x)
    rw [obsAt_congr hobs, crit_of_mode hmode]
    exact h.fin t' j k p x hs

/-- failure of a running trial: its slot is answered with NaN, it leaves
`_trial_to_pending_slot`, `evaluation_failed` drops its pending evaluations -/
theorem cinvS_failed {y : SysS} (h : CInvS y) {t id : Nat} {sl : SlotInRung}
    (hlook : alookup t y.sched.pending = some (id, sl)) {s' : Sched} (hI' : Inv s')
    (hp' : s'.pending = adel t y.sched.pending) (hsa : s'.searcherAll = y.sched.searcherAll)
    (hsys : s'.mgr.bracketRungs = y.sched.mgr.bracketRungs)
    (hfr : Frame y.sched.mgr s'.mgr (some (id, sl.rungIndex, sl.slotIndex)))
    (hans : s'.mgr.SlotAt id sl.rungIndex sl.slotIndex ⟨some t, some .nan⟩)
    {st' : SState} (hnd : st'.pending.Nodup) (hmem : ∀ p, p ∈ st'.pending ↔ p ∈ y.st.pending ∧ p.1 ≠ t)
    (hobs : st'.observed = y.st.observed) (hmode : st'.mode = y.st.mode)
    {last' : List (Nat × Nat)} (hlast' : ∀ t', t' ≠ t → (alookup t' last').getD 0 = y.lastOf t') :
    CInvS { sched := s', st := st', last := last' } := by
  obtain ⟨hlv, hplt, _⟩ := pend_level h.inv hlook
  have hlastlt := h.lastOk t id sl hlook
  have hlvl' : ∀ j k, s'.lvl j k = y.sched.lvl j k := by intro j k; simp only [Sched.lvl, hsys]
  have hprev' : ∀ j k, s'.prevLvl j k = y.sched.prevLvl j k := by intro j k; simp only [Sched.prevLvl, hsys]
  have hlk : ∀ t', t' ≠ t → alookup t' s'.pending = alookup t' y.sched.pending := by
    intro t' hne; rw [hp']; exact alookup_adel_ne _ _ _ hne
  have hlkt : alookup t s'.pending = none := by rw [hp']; exact alookup_adel_self _ _ h.inv.keys
  have hansne : ∀ t' id' sl', t' ≠ t → alookup t' y.sched.pending = some (id', sl') →
      (some (id, sl.rungIndex, sl.slotIndex) : Option (Nat × Nat × Nat)) ≠ some (id', sl'.rungIndex, sl'.slotIndex) := by
    intro t' id' sl' hne hl' he
    exact hne (slot_owner_unique h.inv hlook hl' (Option.some.inj he).symm)
  refine ⟨hI', hnd, obsWF_congr hobs h.owf, ?_, ?_, ?_, ?_, ?_⟩
  · intro p hp
    obtain ⟨hp0, hne⟩ := (hmem p).mp hp
    obtain ⟨id', sl', hl', hpl, hs⟩ := h.pend p hp0
    refine ⟨id', sl', by change alookup p.1 s'.pending = _; rw [hlk _ hne]; exact hl', hpl, ?_⟩
    exact hfr.fwd _ _ _ _ hs (hansne p.1 id' sl' hne hl')
  · intro t' id' sl' hl' hs
    change alookup t' s'.pending = some (id', sl') at hl'
    have hne : t' ≠ t := by intro he; rw [he, hlkt] at hl'; cases hl'
    rw [hlk _ hne] at hl'
    have hs0 := (started_iff h.inv hfr hl' (hansne t' id' sl' hne hl')).mp hs
    exact (hmem _).mpr ⟨h.conv t' id' sl' hl' hs0, hne⟩
  · intro t' id' sl' hl'
    change alookup t' s'.pending = some (id', sl') at hl'
    have hne : t' ≠ t := by intro he; rw [he, hlkt] at hl'; cases hl'
    rw [hlk _ hne] at hl'
    change (alookup t' last').getD 0 < sl'.level
    rw [hlast' t' hne]
    exact h.lastOk t' id' sl' hl'
  · intro t' r' hl'
    change st'.isLabeled t' r' = true at hl'
    rw [isLabeled_congr hobs] at hl'
    rcases h.obs t' r' hl' with ⟨j, k, p, m, hs, a1, a2, a3, a4⟩ | ⟨id', sl', hl2, h1, h2, h3⟩
    · refine Or.inl ⟨j, k, p, m, fwd_occupied h.inv hlook hfr hs rfl, ?_, ?_, ?_, ?_⟩
      · rw [hprev']; exact a1
      · rw [hlvl']; exact a2
      · intro hrl
        rw [hlvl'] at hrl
        obtain ⟨x', hx, ho⟩ := a3 hrl
        refine ⟨x', hx, ?_⟩
        change obsAt st' t' r' = some (st'.crit x')
        rw [obsAt_congr hobs, crit_of_mode hmode]; exact ho
      · intro hsa'
        rw [hlvl']
        exact a4 (by rw [← hsa]; exact hsa')
    · by_cases het : t' = t
      · subst het
        rw [hlook] at hl2
        simp only [Option.some.injEq, Prod.mk.injEq] at hl2
        obtain ⟨rfl, rfl⟩ := hl2
        refine Or.inl ⟨id, sl.rungIndex, sl.slotIndex, .nan, hans, ?_, ?_, ?_, ?_⟩
        · rw [hprev']; exact h1
        · rw [hlvl', ← hlv]; omega
        · intro hrl
          rw [hlvl', ← hlv] at hrl
          omega
        · intro hsa'
          rw [hsa, h3] at hsa'; cases hsa'
      · refine Or.inr ⟨id', sl', by change alookup t' s'.pending = _; rw [hlk _ het]; exact hl2, ?_, ?_, ?_⟩
        · rw [hprev']; exact h1
        · change r' ≤ (alookup t' last').getD 0
          rw [hlast' t' het]; exact h2
        · rw [hsa]; exact h3
  · intro t' j k p x' hs
    change obsAt st' t' (s'.lvl j k) = some (st'.crit x')
    rw [hlvl', obsAt_congr hobs, crit_of_mode hmode]
    rcases hfr.bwd j k p t' (.val x') hs with hold | hnew
    · exact h.fin t' j k p x' hold
    · simp only [Option.some.injEq, Prod.mk.injEq] at hnew
      obtain ⟨rfl, rfl, rfl⟩ := hnew
      have := slotAt_functional hs hans
      simp at this

/-! ### `_suggest` -/

/-- a paused trial is resumed for the next rung: no call on the searcher -/
theorem cinvS_resume {y : SysS} (h : CInvS y) {s' : Sched} (hI' : Inv s') {t id : Nat} {sl : SlotInRung}
    (hp' : s'.pending = aset t (id, sl) y.sched.pending) (hnp : alookup t y.sched.pending = none)
    (hsa : s'.searcherAll = y.sched.searcherAll)
    (hsys : s'.mgr.bracketRungs = y.sched.mgr.bracketRungs)
    (hfr : Frame y.sched.mgr s'.mgr none)
    (hans : s'.mgr.SlotAt id sl.rungIndex sl.slotIndex ⟨some t, none⟩) :
    CInvS { sched := s', st := y.st, last := aset t 0 y.last } := by
  have hlvl' : ∀ j k, s'.lvl j k = y.sched.lvl j k := by intro j k; simp only [Sched.lvl, hsys]
  have hprev' : ∀ j k, s'.prevLvl j k = y.sched.prevLvl j k := by intro j k; simp only [Sched.prevLvl, hsys]
  have hlk : ∀ t', t' ≠ t → alookup t' s'.pending = alookup t' y.sched.pending := by
    intro t' hne; rw [hp']; exact alookup_aset_ne _ _ _ _ hne
  have hlkt : alookup t s'.pending = some (id, sl) := by rw [hp']; exact alookup_aset_self _ _ _
  have hnone : ∀ a : Nat × Nat × Nat, (none : Option (Nat × Nat × Nat)) ≠ some a := by intro a; simp
  have hold_ne : ∀ t' v, alookup t' y.sched.pending = some v → t' ≠ t := by
    intro t' v hl he; rw [he, hnp] at hl; cases hl
  refine ⟨hI', h.pnd, h.owf, ?_, ?_, ?_, ?_, ?_⟩
  · intro p hp
    obtain ⟨id', sl', hl', hpl, hs⟩ := h.pend p hp
    refine ⟨id', sl', by change alookup p.1 s'.pending = _; rw [hlk _ (hold_ne _ _ hl')]; exact hl', hpl, ?_⟩
    exact hfr.fwd _ _ _ _ hs (hnone _)
  · intro t' id' sl' hl' hs
    change alookup t' s'.pending = some (id', sl') at hl'
    by_cases he : t' = t
    · subst he
      rw [hlkt] at hl'
      simp only [Option.some.injEq, Prod.mk.injEq] at hl'
      obtain ⟨rfl, rfl⟩ := hl'
      have := slotAt_functional hs hans
      simp at this
    · rw [hlk _ he] at hl'
      exact h.conv t' id' sl' hl' ((started_iff h.inv hfr hl' (hnone _)).mp hs)
  · intro t' id' sl' hl'
    change alookup t' s'.pending = some (id', sl') at hl'
    rw [lastOf_aset]
    by_cases he : t' = t
    · subst he
      rw [hlkt] at hl'
      simp only [Option.some.injEq, Prod.mk.injEq] at hl'
      obtain ⟨rfl, rfl⟩ := hl'
      obtain ⟨h1, h2, _⟩ := pend_level hI' hlkt
      simp only [if_true]
      omega
    · rw [hlk _ he] at hl'
      simp only [he, if_false]
      exact h.lastOk t' id' sl' hl'
  · intro t' r' hl'
    rcases h.obs t' r' hl' with ⟨j, k, p, m, hs, a1, a2, a3, a4⟩ | ⟨id', sl', hl2, h1, h2, h3⟩
    · refine Or.inl ⟨j, k, p, m, hfr.fwd _ _ _ _ hs (hnone _), ?_, ?_, ?_, ?_⟩
      · rw [hprev']; exact a1
      · rw [hlvl']; exact a2
      · intro hrl; rw [hlvl'] at hrl; exact a3 hrl
      · intro hsa'; rw [hlvl']; exact a4 (by rw [← hsa]; exact hsa')
    · have hne := hold_ne _ _ hl2
      refine Or.inr ⟨id', sl', by change alookup t' s'.pending = _; rw [hlk _ hne]; exact hl2, ?_, ?_, ?_⟩
      · rw [hprev']; exact h1
      · rw [lastOf_aset]; simp only [hne, if_false]; exact h2
      · rw [hsa]; exact h3
  · intro t' j k p x' hs
    change obsAt y.st t' (s'.lvl j k) = some (y.st.crit x')
    rw [hlvl']
    rcases hfr.bwd j k p t' (.val x') hs with hold | hnew
    · exact h.fin t' j k p x' hold
    · cases hnew

/-- a new trial is started: `register_pending(trial, milestone)` -/
theorem cinvS_start {y : SysS} (h : CInvS y) {s' : Sched} (hI' : Inv s') {t id : Nat} {sl : SlotInRung}
    (hfresh : t ∉ y.sched.configs)
    (hp' : s'.pending = aset t (id, { sl with tid := some t }) y.sched.pending)
    (hnp : alookup t y.sched.pending = none)
    (hsa : s'.searcherAll = y.sched.searcherAll)
    (hsys : s'.mgr.bracketRungs = y.sched.mgr.bracketRungs)
    (hfr : Frame y.sched.mgr s'.mgr none)
    (hans : s'.mgr.SlotAt id sl.rungIndex sl.slotIndex ⟨none, none⟩) :
    y.st.apply (.pending t sl.level) = .ok { y.st with pending := y.st.pending ++ [(t, sl.level)] } ∧
    CInvS { sched := s', st := { y.st with pending := y.st.pending ++ [(t, sl.level)] }, last := aset t 0 y.last } := by
  have hlvl' : ∀ j k, s'.lvl j k = y.sched.lvl j k := by intro j k; simp only [Sched.lvl, hsys]
  have hprev' : ∀ j k, s'.prevLvl j k = y.sched.prevLvl j k := by intro j k; simp only [Sched.prevLvl, hsys]
  have hlk : ∀ t', t' ≠ t → alookup t' s'.pending = alookup t' y.sched.pending := by
    intro t' hne; rw [hp']; exact alookup_aset_ne _ _ _ _ hne
  have hlkt : alookup t s'.pending = some (id, { sl with tid := some t }) := by
    rw [hp']; exact alookup_aset_self _ _ _
  have hnone : ∀ a : Nat × Nat × Nat, (none : Option (Nat × Nat × Nat)) ≠ some a := by intro a; simp
  have hold_ne : ∀ t' v, alookup t' y.sched.pending = some v → t' ≠ t := by
    intro t' v hl he; rw [he, hnp] at hl; cases hl
  have hnopend := no_pending_of_not_running h hnp
  have hnolab : ∀ r, y.st.isLabeled t r = false := by
    intro r
    cases hl : y.st.isLabeled t r with
    | false => rfl
    | true => exact absurd (labeled_known h hl) hfresh
  refine ⟨apply_pending_new _ _ _ (isPending_false _ _ _ hnopend) (hnolab _), hI', ?_, h.owf, ?_, ?_, ?_, ?_, ?_⟩
  · change (y.st.pending ++ [(t, sl.level)]).Nodup
    rw [List.nodup_append]
    refine ⟨h.pnd, by simp, ?_⟩
    intro a ha b hb hab
    simp only [List.mem_singleton] at hb
    subst hb; subst hab
    exact hnopend _ ha rfl
  · intro p hp
    change p ∈ y.st.pending ++ [(t, sl.level)] at hp
    rcases List.mem_append.mp hp with hp | hp
    · obtain ⟨id', sl', hl', hpl, hs⟩ := h.pend p hp
      refine ⟨id', sl', by change alookup p.1 s'.pending = _; rw [hlk _ (hold_ne _ _ hl')]; exact hl', hpl, ?_⟩
      exact hfr.fwd _ _ _ _ hs (hnone _)
    · simp only [List.mem_singleton] at hp
      subst hp
      exact ⟨id, _, hlkt, rfl, hans⟩
  · intro t' id' sl' hl' hs
    change alookup t' s'.pending = some (id', sl') at hl'
    change (t', sl'.level) ∈ y.st.pending ++ [(t, sl.level)]
    by_cases he : t' = t
    · subst he
      rw [hlkt] at hl'
      simp only [Option.some.injEq, Prod.mk.injEq] at hl'
      obtain ⟨rfl, rfl⟩ := hl'
      simp
    · rw [hlk _ he] at hl'
      exact List.mem_append_left _ (h.conv t' id' sl' hl' ((started_iff h.inv hfr hl' (hnone _)).mp hs))
  · intro t' id' sl' hl'
    change alookup t' s'.pending = some (id', sl') at hl'
    rw [lastOf_aset]
    by_cases he : t' = t
    · subst he
      obtain ⟨h1, h2, _⟩ := pend_level hI' hl'
      simp only [if_true]
      omega
    · rw [hlk _ he] at hl'
      simp only [he, if_false]
      exact h.lastOk t' id' sl' hl'
  · intro t' r' hl'
    change y.st.isLabeled t' r' = true at hl'
    rcases h.obs t' r' hl' with ⟨j, k, p, m, hs, a1, a2, a3, a4⟩ | ⟨id', sl', hl2, h1, h2, h3⟩
    · refine Or.inl ⟨j, k, p, m, hfr.fwd _ _ _ _ hs (hnone _), ?_, ?_, ?_, ?_⟩
      · rw [hprev']; exact a1
      · rw [hlvl']; exact a2
      · intro hrl; rw [hlvl'] at hrl; exact a3 hrl
      · intro hsa'; rw [hlvl']; exact a4 (by rw [← hsa]; exact hsa')
    · have hne := hold_ne _ _ hl2
      refine Or.inr ⟨id', sl', by change alookup t' s'.pending = _; rw [hlk _ hne]; exact hl2, ?_, ?_, ?_⟩
      · rw [hprev']; exact h1
      · rw [lastOf_aset]; simp only [hne, if_false]; exact h2
      · rw [hsa]; exact h3
  · intro t' j k p x' hs
    change obsAt y.st t' (s'.lvl j k) = some (y.st.crit x')
    rw [hlvl']
    rcases hfr.bwd j k p t' (.val x') hs with hold | hnew
    · exact h.fin t' j k p x' hold
    · cases hnew

/-- the searcher has no configuration: the slot handed out is reported as failed -/
theorem cinvS_noconfig {y : SysS} (h : CInvS y) {s' : Sched} (hI' : Inv s') {id : Nat} {sl : SlotInRung}
    (hp' : s'.pending = y.sched.pending) (hsa : s'.searcherAll = y.sched.searcherAll)
    (hsys : s'.mgr.bracketRungs = y.sched.mgr.bracketRungs)
    (hfr : Frame y.sched.mgr s'.mgr (some (id, sl.rungIndex, sl.slotIndex)))
    (hans : s'.mgr.SlotAt id sl.rungIndex sl.slotIndex ⟨none, some .nan⟩)
    (hne : ∀ t' id' sl', alookup t' y.sched.pending = some (id', sl') →
      (id', sl'.rungIndex, sl'.slotIndex) ≠ (id, sl.rungIndex, sl.slotIndex))
    (hempty : ∀ x, y.sched.mgr.SlotAt id sl.rungIndex sl.slotIndex x → x.metric = none) :
    CInvS { sched := s', st := y.st, last := y.last } := by
  have hlvl' : ∀ j k, s'.lvl j k = y.sched.lvl j k := by intro j k; simp only [Sched.lvl, hsys]
  have hprev' : ∀ j k, s'.prevLvl j k = y.sched.prevLvl j k := by intro j k; simp only [Sched.prevLvl, hsys]
  have hansne : ∀ t' id' sl', alookup t' y.sched.pending = some (id', sl') →
      (some (id, sl.rungIndex, sl.slotIndex) : Option (Nat × Nat × Nat)) ≠ some (id', sl'.rungIndex, sl'.slotIndex) := by
    intro t' id' sl' hl' he
    exact hne t' id' sl' hl' (Option.some.inj he).symm
  have hocc : ∀ j k p (x : Slot), y.sched.mgr.SlotAt j k p x → x.metric.isSome = true → s'.mgr.SlotAt j k p x := by
    intro j k p x hs hx
    apply hfr.fwd _ _ _ _ hs
    intro he
    simp only [Option.some.injEq, Prod.mk.injEq] at he
    obtain ⟨rfl, rfl, rfl⟩ := he
    rw [hempty x hs] at hx; cases hx
  refine ⟨hI', h.pnd, h.owf, ?_, ?_, ?_, ?_, ?_⟩
  · intro p hp
    obtain ⟨id', sl', hl', hpl, hs⟩ := h.pend p hp
    refine ⟨id', sl', by change alookup p.1 s'.pending = _; rw [hp']; exact hl', hpl, ?_⟩
    exact hfr.fwd _ _ _ _ hs (hansne _ _ _ hl')
  · intro t' id' sl' hl' hs
    change alookup t' s'.pending = some (id', sl') at hl'
    rw [hp'] at hl'
    exact h.conv t' id' sl' hl' ((started_iff h.inv hfr hl' (hansne _ _ _ hl')).mp hs)
  · intro t' id' sl' hl'
    change alookup t' s'.pending = some (id', sl') at hl'
    rw [hp'] at hl'
    exact h.lastOk t' id' sl' hl'
  · intro t' r' hl'
    rcases h.obs t' r' hl' with ⟨j, k, p, m, hs, a1, a2, a3, a4⟩ | ⟨id', sl', hl2, h1, h2, h3⟩
    · refine Or.inl ⟨j, k, p, m, hocc _ _ _ _ hs rfl, ?_, ?_, ?_, ?_⟩
      · rw [hprev']; exact a1
      · rw [hlvl']; exact a2
      · intro hrl; rw [hlvl'] at hrl; exact a3 hrl
      · intro hsa'; rw [hlvl']; exact a4 (by rw [← hsa]; exact hsa')
    · refine Or.inr ⟨id', sl', by change alookup t' s'.pending = _; rw [hp']; exact hl2, ?_, h2, ?_⟩
      · rw [hprev']; exact h1
      · rw [hsa]; exact h3
  · intro t' j k p x' hs
    change obsAt y.st t' (s'.lvl j k) = some (y.st.crit x')
    rw [hlvl']
    rcases hfr.bwd j k p t' (.val x') hs with hold | hnew
    · exact h.fin t' j k p x' hold
    · simp only [Option.some.injEq, Prod.mk.injEq] at hnew
      obtain ⟨rfl, rfl, rfl⟩ := hnew
      have := slotAt_functional hs hans
      simp at this

/-! ### operations which leave the searcher alone -/

/-- within the contract `on_trial_complete` changes neither the scheduler nor the data: a finite
result is already there (the state stays the same), a NaN result finds nothing to drop and only
marks the trial as failed -/
theorem stepCS_complete {y : SysS} (h : CInvS y) (t r : Nat) (v : Metric) (hok : OpOKS y (.complete t r v)) :
    ∃ st', st'.pending = y.st.pending ∧ st'.observed = y.st.observed ∧ st'.mode = y.st.mode ∧
      (∀ x, v = .val x → st' = y.st) ∧
      stepCS y (.complete t r v) = { sched := y.sched, st := st', last := y.last } := by
  have h1 : y.sched.step (.complete t r v) = .ok (y.sched, { calls := [SCall.update t r v true] }) := rfl
  cases v with
  | nan =>
    have hnp : (t, r) ∉ y.st.pending := hok
    have h2 : applyActs y.st (([SCall.update t r .nan true]).map trCall) = .ok (markFailed y.st t) := by
      simp only [List.map_cons, List.map_nil, trCall, applyActs_single, applyAct, dropPending_not_mem t r _ hnp]
    refine ⟨markFailed y.st t, markFailed_pending _ _, markFailed_observed _ _, markFailed_mode _ _,
      (fun x hx => by cases hx), ?_⟩
    rw [stepCS_ok h1 h2]
    rfl
  | val x =>
    have hobs : obsAt y.st t r = some (y.st.crit x) := hok
    have hlab : y.st.isLabeled t r = true := by rw [lab_iff, hobs]; rfl
    have hnp : (t, r) ∉ y.st.pending := by
      intro hp
      have := pending_not_labeled h hp
      simp only at this
      rw [hlab] at this; cases this
    have h2 : applyActs y.st (([SCall.update t r (.val x) true]).map trCall) = .ok y.st := by
      simp only [List.map_cons, List.map_nil, trCall, applyActs_single, applyAct, apply_update_true]
      rw [label_noop _ _ _ _ hobs hnp]
    refine ⟨y.st, rfl, rfl, rfl, fun _ _ => rfl, ?_⟩
    rw [stepCS_ok h1 h2]
    rfl

theorem cinvS_complete {y : SysS} (h : CInvS y) (t r : Nat) (v : Metric) (hok : OpOKS y (.complete t r v)) :
    CInvS (stepCS y (.complete t r v)) := by
  obtain ⟨st', hp, ho, hm, _, he⟩ := stepCS_complete h t r v hok
  rw [he]
  exact cinvS_st_congr (st := y.st) h hp ho hm

theorem stepCS_remove (y : SysS) (t : Nat) : stepCS y (.remove t) = y := rfl

/-- changing only the list of removable checkpoints does not touch the invariant -/
theorem cinvS_takeRemovable {y : SysS} (h : CInvS y) : CInvS (stepCS y .takeRemovable) :=
  ⟨h.inv, h.pnd, h.owf, h.pend, h.conv, h.lastOk, h.obs, h.fin⟩

end SyneTune.Sync.C14S
