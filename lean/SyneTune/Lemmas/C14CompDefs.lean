import SyneTune.Props.C04K
/-
C14, composed system: the `HyperbandScheduler` model (`Sched`) and the model of the
searcher's data bookkeeping (`SState`) run together.  Every `SCall` the scheduler emits is
fed, in order, into `SState.apply`.

Definitions only (system, step, the operation contract `OpOK`, the invariant `CInv`);
the proofs are in `Lemmas/C14Comp*.lean`, the property theorems in `Props/C14Comp.lean`.
-/
namespace SyneTune.C14Comp
open SyneTune SyneTune.C04K SyneTune.C14

/-- scheduler + searcher bookkeeping -/
structure Sys where
  sched : Sched
  st : SState

/-- one scheduler operation: new scheduler state and the searcher calls it issued, in order;
an operation the scheduler model rejects (Python exception) leaves the scheduler unchanged
and issues no call (same convention as `C04K.stepS`). -/
def opStep (s : Sched) : SOp → Sched × List SCall
  | .suggest n b h => match s.suggest n b h with | .ok res => (res.1, res.2.2.1) | .error _ => (s, [])
  | .result t r v h c e => match s.onResult t r v h c e with | .ok res => (res.1, res.2.calls) | .error _ => (s, [])
  | .remove t => (s.onRemove t, [])
  | .error t => s.onError t
  | .complete t r v => match s.onComplete t r v with | .ok res => res | .error _ => (s, [])

/-- one step of the composed system.  The calls are applied in the order the scheduler
issues them.  If the searcher raised on one of them (`SState.apply` has two assertions:
"already has observation, cannot be pending" and the key checks of `remove_case`), the
exception would propagate out of the scheduler method: the operation is rejected as a whole
and, by the model's convention, leaves the state unchanged.  `calls_accepted` proves that this
branch is unreachable from every reachable state. -/
def stepC (y : Sys) (op : SOp) : Sys :=
  match y.st.applyAll (opStep y.sched op).2 with
  | .ok st' => { sched := (opStep y.sched op).1, st := st' }
  | .error _ => y

def runC (y : Sys) (ops : List SOp) : Sys := ops.foldl stepC y

/-! ### what the scheduler knows about a trial -/

/-- resource of the last result of the trial the scheduler took into account
(`reported_result`), 0 before the first one -/
def lastRep (rec : TrialInfo) : Nat := match rec.reported with | some p => p.2 | none => 0

/-- smallest level above `l` in a decreasing list of levels, `d` if there is none
(the `next_milestone` variable of `StoppingRungSystem.on_task_report`) -/
def nextLevel (l : Nat) : Nat → List Nat → Nat
  | d, [] => d
  | d, x :: xs => if l < x then nextLevel l x xs else d

/-- the bracket manager's view of trial `t`: its `_running` record (promotion types) and the
milestone levels of its bracket (decreasing) -/
def trialView (g : Manager) (t : Nat) : Option (Option (Nat × Option Nat) × List Nat) :=
  match alookup t g.taskInfo with
  | none => none
  | some b =>
    match g.systems[(g.sysFor b).1]? with
    | none => none
    | some sys => some (alookup t sys.running, sys.milestones (g.sysFor b).2)

/-- the milestone trial `t` is currently running to, `l` being the last level it reported:
promotion types: `_running[t]["milestone"]`; stopping types: the next rung level of its
bracket above `l`, or `max_t`.  0 for a trial the manager does not know. -/
def milestoneOf (g : Manager) (t l : Nat) : Nat :=
  match trialView g t with
  | none => 0
  | some vw =>
    if g.type.pauseResume then (match vw.1 with | some mr => mr.1 | none => 0)
    else nextLevel l g.maxT vw.2

/-- the report is one of a resumed trial re-reporting a level `≤ resume_from` (training
restarted from scratch, no checkpointing): exactly the condition under which the scheduler
ignores it (`ignore_data`; the rung system is consulted only for `r < max_t`) -/
def resumedBelow (g : Manager) (t r : Nat) : Bool :=
  g.type.pauseResume && decide (r < g.maxT) &&
    (match trialView g t with
     | some vw => (match vw.1 with | some mr => ignoreOf mr.2 r | none => false)
     | none => false)

/-! ### contract of the operation stream -/

/-- What the caller of the scheduler (the `Tuner` loop and the training scripts) guarantees
for one operation; nothing is asked of `suggest` and `error`.

* `result t r`: for a trial the scheduler considers running, `r` is the level following the
  last one it took into account — the training script reports every resource level
  `1, 2, 3, …` in order (requirement of `HyperbandScheduler`: `resource_attr` values are
  positive integers reported consecutively; a promotion-type trial must hit its milestone
  exactly, the rung system asserts it) — or the run was resumed without checkpointing and
  re-reports a level `≤ resume_from`.  Reports for trials which are not running are
  unconstrained (the scheduler passes them on with `update=False`).
* `remove t`: `t` is not running.  `TrialScheduler.on_trial_remove` "is called when the trial
  is in PAUSED or PENDING state"; the `Tuner` calls it only right after a STOP / PAUSE
  decision of `on_trial_result` (tuner.py `_update_running_trials`); trials stopped
  independently of the scheduler are signalled by `on_trial_error`.
* `complete t r v`: `r` is not above the last level reported — the `Tuner` passes the last
  result seen, for which "`on_trial_result` is called with the same result before". -/
def OpOK (y : Sys) : SOp → Prop
  | .result t r _ _ _ _ =>
    ∀ rec, alookup t y.sched.active = some rec → rec.decision = .continue →
      (r = lastRep rec + 1 ∨ resumedBelow y.sched.mgr t r = true)
  | .remove t => ∀ rec, alookup t y.sched.active = some rec → rec.decision ≠ .continue
  | .complete t r _ => ∀ rec, alookup t y.sched.active = some rec → r ≤ lastRep rec
  | _ => True

/-- a statement about the value of an `Option`, decided by looking at it -/
instance decOptAll {α} (o : Option α) (P : α → Prop) [∀ a, Decidable (P a)] :
    Decidable (∀ a, o = some a → P a) :=
  match o with
  | none => isTrue (fun _ h => by cases h)
  | some a =>
    if h : P a then isTrue (fun b hb => by cases hb; exact h)
    else isFalse (fun hf => h (hf a rfl))

instance (y : Sys) (op : SOp) : Decidable (OpOK y op) :=
  match op with
  | .result t r _ _ _ _ =>
    decOptAll (alookup t y.sched.active)
      (fun rec => rec.decision = .continue → (r = lastRep rec + 1 ∨ resumedBelow y.sched.mgr t r = true))
  | .remove t => decOptAll (alookup t y.sched.active) (fun rec => rec.decision ≠ .continue)
  | .complete t r _ => decOptAll (alookup t y.sched.active) (fun rec => r ≤ lastRep rec)
  | .suggest _ _ _ => isTrue trivial
  | .error _ => isTrue trivial

/-- the contract evaluated along a run -/
def OpsOK : Sys → List SOp → Prop
  | _, [] => True
  | y, op :: ops => OpOK y op ∧ OpsOK (stepC y op) ops

instance instDecidableOpsOK : (y : Sys) → (ops : List SOp) → Decidable (OpsOK y ops)
  | _, [] => isTrue trivial
  | y, op :: ops =>
    have := instDecidableOpsOK (stepC y op) ops
    (inferInstance : Decidable (OpOK y op ∧ OpsOK (stepC y op) ops))

/-! ### the invariant -/

/-- signature of a rung system: `max_t` and the rung levels (never change) -/
def sig (sys : RungSys) : Nat × List Nat := (sys.maxT, sys.rungs.map (·.level))

/-- the manager is well formed: positive `max_t`, `rung_levels` below `max_t`, every rung
system has the manager's `max_t` and strictly decreasing rung levels, all of them positive,
below `max_t` and among the manager's `rung_levels` -/
def MgrWF (g : Manager) : Prop :=
  1 ≤ g.maxT ∧ (∀ l ∈ g.rungLevels, l < g.maxT) ∧
  ∀ x ∈ g.systems.map sig, x.1 = g.maxT ∧ x.2.Pairwise (fun a b => b < a) ∧
    ∀ l ∈ x.2, 1 ≤ l ∧ l < g.maxT ∧ l ∈ g.rungLevels

/-- `e` is an entry of the rung of level `L` of one of the rung systems -/
def EntIn (ss : List RungSys) (L : Nat) (e : Entry) : Prop :=
  ∃ sys ∈ ss, ∃ rg ∈ sys.rungs, rg.level = L ∧ e ∈ rg.data

/-- every rung entry belongs to a known trial which has reported the rung's level; in
promotion types a not-yet-promoted entry sits at the last level its trial reported -/
def EntOK (s : Sched) : Prop :=
  ∀ L e, EntIn s.mgr.systems L e →
    ∃ rec, alookup e.tid s.active = some rec ∧ L ≤ lastRep rec ∧
      (s.mgr.type.pauseResume = true → e.promoted = false → lastRep rec ≤ L)

/-- a running trial is heading for a milestone above its last report, which is a rung level
or `max_t` -/
def RunningOK (s : Sched) : Prop :=
  ∀ t rec, alookup t s.active = some rec → rec.decision = .continue →
    lastRep rec < milestoneOf s.mgr t (lastRep rec) ∧
    (milestoneOf s.mgr t (lastRep rec) = s.mgr.maxT ∨ milestoneOf s.mgr t (lastRep rec) ∈ s.mgr.rungLevels)

/-- a pending evaluation belongs to a running trial, at a level above its last report and
not above its current milestone (for `searcher_data = "rungs"`: exactly the milestone) -/
def PendOK (y : Sys) : Prop :=
  ∀ p ∈ y.st.pending, ∃ rec, alookup p.1 y.sched.active = some rec ∧ rec.decision = .continue ∧
    lastRep rec < p.2 ∧ p.2 ≤ milestoneOf y.sched.mgr p.1 (lastRep rec) ∧
    (y.sched.searcherData = .rungs → p.2 = milestoneOf y.sched.mgr p.1 (lastRep rec))

/-- observations exist only for known trials at levels they have reported -/
def ObsOK (y : Sys) : Prop :=
  ∀ t r, y.st.isLabeled t r = true → ∃ rec, alookup t y.sched.active = some rec ∧ r ≤ lastRep rec

/-- `rungs_and_last`: the case `remove_case` will be called for is in the data -/
def LastOK (y : Sys) : Prop :=
  y.sched.searcherData = .rungsAndLast →
    ∀ t rec, alookup t y.sched.active = some rec → ∀ p, rec.reported = some p → rec.keepCase = false →
      y.st.isLabeled t p.2 = true

/-- `largest_update_resource` is a level the trial has reported -/
def UpdOK (s : Sched) : Prop :=
  ∀ t rec, alookup t s.active = some rec → ∀ l, rec.largestUpdate = some l → l ≤ lastRep rec

/-- **The invariant of the composed system.** -/
structure CInv (y : Sys) : Prop where
  wf : MgrWF y.sched.mgr
  kinv : y.sched.mgr.type.pauseResume = true → KInv y.sched
  ent : EntOK y.sched
  run : RunningOK y.sched
  upd : UpdOK y.sched
  pnd : y.st.pending.Nodup
  pend : PendOK y
  owf : ObsWF y.st
  obs : ObsOK y
  last : LastOK y

end SyneTune.C14Comp
