import SyneTune.Lemmas.TunerC12bInProgress
import SyneTune.Lemmas.TunerKInv
import SyneTune.Lemmas.TunerIds
/-
Behind C01b: the counters of the tuning status against the loop's own bookkeeping.
* `NInv`: under the contracts B and K the keys of `last_trial_status_seen` are `0, 1, …, num_trials_started − 1`
  in this order, and `num_trials_started` is the backend's `new_trial_id()` except between the return of
  `start_trial` and the `tuning_status.update` that records the new trial (one less there; if
  `on_trial_add` / `on_start_trial` raises, one less for good).
* `running_count`: `num_trials_running` against the size of the running set.
* `FIds`: a run that ends without an exception has issued exactly `new_trial_id()` `start_trial` commands.
-/
namespace SyneTune.Tuner.Cnt
open SyneTune SyneTune.Tuner AL

/-! ### the six status classes partition the recorded trials -/

theorem partition_all (l : List (Nat × St)) :
    l.length = l.countP (fun kv => kv.2 == .completed) + l.countP (fun kv => kv.2 == .failed)
      + l.countP (fun kv => kv.2 == .stopped) + l.countP (fun kv => kv.2 == .stopping)
      + l.countP (fun kv => kv.2 == .paused) + l.countP (fun kv => kv.2 == .inProgress) := by
  induction l with
  | nil => rfl
  | cons kv l ih =>
    obtain ⟨k, v⟩ := kv
    simp only [List.countP_cons, List.length_cons]
    cases v <;> simp <;> omega

/-! ### started trials -/

/-- `start_trial` has returned, the new trial is not yet in the tuning status -/
def addPend (p : Pc) : Nat := if p = .addS ∨ p = .startCb then 1 else 0

structure NInv (s : LState) : Prop where
  rng : keys s.status.last = List.range s.status.numStarted
  cntL : finPc s.pc = false → s.status.numStarted + addPend s.pc = s.nStarted
  cntF : finPc s.pc = true → s.status.numStarted ≤ s.nStarted ∧ s.nStarted ≤ s.status.numStarted + 1 ∧
    (s.err = none → s.nStarted = s.status.numStarted)

theorem addPend_le (p : Pc) : addPend p ≤ 1 := by unfold addPend; split <;> omega

theorem addPend_flow (p q : Pc) (hf : flow p q = true) (hq : finPc q = false) (h1 : p ≠ .startCb)
    (h2 : q ≠ .addS) : addPend q = addPend p := by
  have key : ∀ p q, (!(flow p q && !finPc q && p != .startCb && q != .addS) || addPend q == addPend p) = true :=
    Pc.forall2_of_all (P := fun p q => !(flow p q && !finPc q && p != .startCb && q != .addS) || addPend q == addPend p)
      (by decide)
  have := key p q
  have e1 : (p != Pc.startCb) = true := by simp [h1]
  have e2 : (q != Pc.addS) = true := by simp [h2]
  simpa [hf, hq, e1, e2] using this

theorem addPend_zero_of (p : Pc) (h : p = .loopHead ∨ p = .afterUpd) : addPend p = 0 := by
  rcases h with h | h <;> subst h <;> rfl

/-- an exception in flight is never cleared -/
theorem next_err_mono (s : LState) (a : Ans) (h : (next s a).err = none) : s.err = none := by
  revert h
  unfold next
  split
  all_goals (try simp only [])
  all_goals (repeat' split)
  all_goals first
    | exact id
    | (intro hc; cases hc; done)
    | (rw [addRow_err]; exact id)
    | (rw [scheduled_err]; exact id)
    | (rw [secondItem_err]; exact id)

/-- a frame step (status unchanged) -/
theorem NInv.frame {s : LState} (h : NInv s) (a : Ans) (hf : (next s a).status = s.status)
    (hne : s.pc ≠ .startCb) : NInv (next s a) := by
  have hfl := next_flow s a
  have hids := next_ids s a
  refine ⟨by rw [hf]; exact h.rng, fun hq => ?_, fun hq => ?_⟩
  · have hp : finPc s.pc = false := fin_back _ _ hfl hq
    have hc := h.cntL hp
    rw [hf]
    cases hids with
    | sugg h1 h2 _ h4 => rw [h4, h1, ← hc, h2]; rfl
    | copy h1 h2 _ h4 => rw [h4, h1, ← hc, h2]; rfl
    | started h1 h2 h4 =>
      rw [h4, h1, ← hc]
      rcases h2 with h2 | h2 <;> rw [h2] <;> rfl
    | other h1 h2 h4 h5 =>
      rw [h4, ← hc]
      have hq2 : (next s a).pc ≠ .addS := by
        intro hc'
        rw [hc'] at hfl
        have : s.pc = .startCmd ∨ s.pc = .copyCmd := by
          revert hfl; cases s.pc <;> simp [flow, succs]
        rw [h5 this] at hq; cases hq
      rw [addPend_flow _ _ hfl hq hne hq2]
  · rw [hf]
    have hn : (next s a).nStarted = s.nStarted := by
      cases hids with
      | sugg h1 _ _ _ => rw [h1] at hq; cases hq
      | copy h1 _ _ _ => rw [h1] at hq; cases hq
      | started h1 _ _ => rw [h1] at hq; cases hq
      | other _ _ h4 _ => exact h4
    rw [hn]
    cases hp : finPc s.pc
    · have hc := h.cntL hp
      have hle := addPend_le s.pc
      refine ⟨by omega, by omega, fun he => ?_⟩
      rcases next_into_fin s a hp hq with h1 | h1 | h1
      · have := addPend_zero_of _ (Or.inl h1.1); omega
      · have := addPend_zero_of _ (Or.inr h1.1); omega
      · rw [he] at h1; cases h1
    · obtain ⟨c1, c2, c3⟩ := h.cntF hp
      exact ⟨c1, c2, fun he => c3 (next_err_mono s a he)⟩

/-- the end of `_process_new_results`: keys and their order are kept -/
theorem NInv.afterUpdate {s : LState} (h : NInv s) (hS : SInv s) (hp : s.pc = .afterUpd) : NInv (Tuner.afterUpdate s) := by
  have hn := afterUpdate_numStarted hS hp
  have hk : keys (Tuner.afterUpdate s).status.last = keys s.status.last := by
    rw [afterUpdate_last]
    exact keys_aupdate_of_subset _ _ (fun k hk => (upd_keys hS hp k hk).2)
  have hc := h.cntL (by rw [hp]; rfl)
  rw [hp] at hc
  have hc' : s.status.numStarted = s.nStarted := hc
  refine ⟨by rw [hk, hn]; exact h.rng, fun hq => ?_, fun hq => ?_⟩
  · rw [hn]
    show _ = s.nStarted
    rcases afterUpdate_pc s with hh | hh | hh
    · rw [hh]; exact hc'
    · rw [hh] at hq; cases hq
    · rw [hh]; exact hc'
  · rw [hn]
    show _ ≤ s.nStarted ∧ s.nStarted ≤ _ ∧ (_ → s.nStarted = _)
    exact ⟨by omega, by omega, fun _ => hc'.symm⟩

/-- the new trial is recorded: its id is the next natural number -/
theorem NInv.started {s : LState} (h : NInv s) (hK : KBody s) (hp : s.pc = .startCb) : NInv (scheduled s s.sId) := by
  obtain ⟨h1, h2⟩ := hK.rg.regAdd (Or.inr hp)
  have hc := h.cntL (by rw [hp]; rfl)
  rw [hp] at hc
  have hc' : s.status.numStarted + 1 = s.nStarted := hc
  have hsid : s.sId = s.status.numStarted := by omega
  have hlen : (scheduled s s.sId).status.numStarted = s.status.numStarted + 1 := by
    unfold TStatus.numStarted
    rw [scheduled_last, length_aset, if_neg h2]
  refine ⟨?_, fun _ => ?_, (fun hq => nomatch hq)⟩
  · rw [hlen, scheduled_last, keys_aset, if_neg h2, h.rng, hsid, List.range_succ]
  · rw [hlen, scheduled_nStarted]; exact hc'

/-- a paused trial is resumed: it is recorded already -/
theorem NInv.resumed {s : LState} (h : NInv s) (hK : KBody s) (hp : s.pc = .resumeCb) : NInv (scheduled s s.sId) := by
  have h1 := (hK.rg.regResumeCb hp).1
  have hmem : s.sId ∈ keys s.status.last := (hasKey_iff_mem_keys _ _).mp (by unfold hasKey; rw [h1]; rfl)
  have hc := h.cntL (by rw [hp]; rfl)
  rw [hp] at hc
  have hc' : s.status.numStarted = s.nStarted := hc
  have hlen : (scheduled s s.sId).status.numStarted = s.status.numStarted := by
    unfold TStatus.numStarted
    rw [scheduled_last, length_aset, if_pos hmem]
  refine ⟨?_, fun _ => ?_, (fun hq => nomatch hq)⟩
  · rw [hlen, scheduled_last, keys_aset, if_pos hmem]; exact h.rng
  · rw [hlen, scheduled_nStarted]; exact hc'

theorem NInv_next (s : LState) (a : Ans) (h : NInv s) (hS : SInv s) (hK : KInv s) : NInv (next s a) := by
  by_cases hsp : specialPc s.pc = false
  · exact h.frame a (next_frame s a hsp).status (by intro hc; rw [hc] at hsp; cases hsp)
  · cases hpc : s.pc
    all_goals first
      | (exfalso; apply hsp; rw [hpc]; rfl; done)
      | skip
    · -- clock
      refine h.frame a ?_ (by rw [hpc]; exact pcne rfl)
      rcases next_clock s a hpc with ⟨t, ht⟩ | ht <;> rw [ht] <;> rfl
    · -- startCb
      rcases next_startCb s a hpc with ht | ht
      · rw [ht]; exact h.started (hK (by rw [hpc]; rfl)) hpc
      · have hc := h.cntL (by rw [hpc]; rfl)
        rw [hpc] at hc
        have hc' : s.status.numStarted + 1 = s.nStarted := hc
        rw [ht]
        refine ⟨h.rng, (fun hq => nomatch hq), fun _ => ?_⟩
        show s.status.numStarted ≤ s.nStarted ∧ s.nStarted ≤ s.status.numStarted + 1 ∧ (some Raised.env = none → _)
        exact ⟨by omega, by omega, fun he => nomatch he⟩
    · -- resumeCb
      rcases next_resumeCb s a hpc with ht | ht
      · rw [ht]; exact h.resumed (hK (by rw [hpc]; rfl)) hpc
      · refine h.frame a ?_ (by rw [hpc]; exact pcne rfl)
        rw [ht]; rfl
    · -- evalStop
      refine h.frame a ?_ (by rw [hpc]; exact pcne rfl)
      rcases next_evalStop s a hpc with ht | ht <;> rw [ht]
    · -- afterUpd
      rw [next_afterUpd s a hpc]; exact h.afterUpdate hS hpc
    · -- finMark
      obtain ⟨h1, _, _, h4, h5, h6⟩ := next_finMark s a hpc
      have hfin : finPc (next s a).pc = true := by rcases h6 with hh | hh <;> rw [hh] <;> rfl
      have hns : (next s a).status.numStarted = s.status.numStarted := by
        rw [h1]; unfold TStatus.numStarted TStatus.markStopped; simp
      obtain ⟨c1, c2, c3⟩ := h.cntF (by rw [hpc]; rfl)
      refine ⟨by rw [hns, h1, markStopped_keys]; exact h.rng, (fun hq => by rw [hfin] at hq; cases hq), fun _ => ?_⟩
      rw [hns, h4, h5]
      exact ⟨c1, c2, c3⟩

theorem NInv_step (s : LState) (a : Ans) (h : NInv s) (hS : SInv s) (hK : KInv s) : NInv (step s a) :=
  step_of_next (P := NInv) (fun _ _ h => ⟨h.rng, h.cntL, h.cntF⟩) s a (NInv_next s a h hS hK)

theorem NInv_init (c : Cfg) : NInv (init c) :=
  ⟨by simp [init, keys, TStatus.numStarted], fun _ => by simp [init, TStatus.numStarted, addPend],
   (fun hq => nomatch hq)⟩

theorem NInv_run (c : Cfg) (as : List Ans) (hB : Along BOk (init c) as) (hK : Along KOk (init c) as) :
    NInv (run (init c) as) := by
  have key := run_inv_along (Inv := fun s => SInv s ∧ KInv s ∧ NInv s) (P := fun s a => BOk s a ∧ KOk s a)
    (fun s a h hp => ⟨SInv_step s a h.1 hp.1, KInv_step s a h.2.1 h.1 hp.1 hp.2, NInv_step s a h.2.2 h.1 h.2.1⟩)
    as (init c) ⟨SInv_init c, KInv_init c, NInv_init c⟩ (Along.and hB hK)
  exact key.2.2

/-! ### running trials -/

/-- `num_trials_running` plus the running trials recorded as `stopping` is the size of the running set, when the
running trials are recorded as in progress / stopping and every trial recorded as in progress is running -/
theorem running_count (l : List (Nat × St)) (R : List Nat) (hl : (keys l).Nodup) (hR : R.Nodup)
    (hact : ∀ t ∈ R, Active (alookup t l)) (hip : ∀ t, alookup t l = some .inProgress → t ∈ R) :
    (l.filter (fun kv => kv.2 == .inProgress)).length + (R.filter (fun t => alookup t l == some .stopping)).length
      = R.length := by
  have h1 : (l.filter (fun kv => kv.2 == .inProgress)).length = (R.filter (fun t => alookup t l == some .inProgress)).length := by
    have e : ((l.filter (fun kv => kv.2 == St.inProgress)).map (·.1)).length = (l.filter (fun kv => kv.2 == .inProgress)).length := by
      simp
    rw [← e]
    apply List.Perm.length_eq
    rw [List.perm_ext_iff_of_nodup (List.Nodup.sublist (List.Sublist.map _ List.filter_sublist) hl)
      (List.Nodup.sublist List.filter_sublist hR)]
    intro t
    constructor
    · intro ht
      obtain ⟨kv, hkv, rfl⟩ := List.mem_map.mp ht
      obtain ⟨hm, hv⟩ := List.mem_filter.mp hkv
      have hv' : kv.2 = .inProgress := by simpa using hv
      have hlk : alookup kv.1 l = some .inProgress := by rw [← hv']; exact alookup_of_mem hl hm
      exact List.mem_filter.mpr ⟨hip _ hlk, by rw [hlk]; rfl⟩
    · intro ht
      obtain ⟨_, hv⟩ := List.mem_filter.mp ht
      have hlk : alookup t l = some .inProgress := by simpa using hv
      exact List.mem_map.mpr ⟨(t, .inProgress), List.mem_filter.mpr ⟨mem_of_alookup hlk, rfl⟩, rfl⟩
  rw [h1]
  have h2 := List.length_eq_countP_add_countP (fun t => alookup t l == some St.inProgress) (l := R)
  rw [List.countP_eq_length_filter, List.countP_eq_length_filter] at h2
  have h3 : R.filter (fun a => decide ¬(alookup a l == some St.inProgress) = true) =
      R.filter (fun t => alookup t l == some .stopping) := by
    apply List.filter_congr
    intro t ht
    rcases hact t ht with h | h <;> rw [h] <;> rfl
  rw [h3] at h2
  exact h2.symm

/-! ### the `start_trial` commands of a run that ends without an exception -/

def FIds (s : LState) : Prop := finPc s.pc = true → s.err = none → (startIds s.log).length = s.nStarted

theorem step_err (s : LState) (a : Ans) : (step s a).err = (next s a).err := by rw [step_eq]; split <;> rfl
theorem step_nStarted (s : LState) (a : Ans) : (step s a).nStarted = (next s a).nStarted := by rw [step_eq]; split <;> rfl

/-- the `start_trial` commands in the log after a step that does not reach `startCmd` -/
theorem step_startIds (s : LState) (a : Ans) (h : (next s a).pc ≠ .startCmd) : startIds (step s a).log = startIds s.log := by
  rw [step_eq]
  split
  · rw [next_log]
  · show startIds ((next s a).log ++ [pending (next s a)]) = _
    rw [startIds_append, pending_start_iff, if_neg h, List.append_nil, next_log]

theorem FIds_step (s : LState) (a : Ans) (h : FIds s) (hI : IdsInv s) : FIds (step s a) := by
  intro hq he
  rw [step_pc] at hq
  rw [step_err] at he
  have hne : (next s a).pc ≠ .startCmd := by intro hc; rw [hc] at hq; cases hq
  have hn : (next s a).nStarted = s.nStarted := by
    cases next_ids s a with
    | sugg h1 _ _ _ => rw [h1] at hq; cases hq
    | copy h1 _ _ _ => rw [h1] at hq; cases hq
    | started h1 _ _ => rw [h1] at hq; cases hq
    | other _ _ h4 _ => exact h4
  rw [step_startIds s a hne, step_nStarted, hn]
  cases hp : finPc s.pc
  · have hc := hI.cnt hp
    rcases next_into_fin s a hp hq with h1 | h1 | h1
    · rw [hc, h1.1]; rfl
    · rw [hc, h1.1]; rfl
    · rw [he] at h1; cases h1
  · exact h hp (next_err_mono s a he)

theorem FIds_run (c : Cfg) (as : List Ans) : FIds (run (init c) as) := by
  have key := run_inv (Inv := fun s => IdsInv s ∧ FIds s)
    (fun s a h => ⟨IdsInv_step s a h.1, FIds_step s a h.2 h.1⟩) as (init c)
    ⟨IdsInv_init c, (fun hq => nomatch hq)⟩
  exact key.2

end SyneTune.Tuner.Cnt
