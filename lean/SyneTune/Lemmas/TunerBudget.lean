import SyneTune.Lemmas.TunerBasic
/-
Invariant behind C01 `budget`: the running set is duplicate free, never larger than
`n_workers`, the `assert` of `_process_new_results` never fires.
-/
namespace SyneTune.Tuner
open SyneTune

/-- control points inside the `for` loop of `_schedule_new_tasks` -/
def schedPc : Pc → Bool
  | .suggestNext | .suggest | .startCmd | .copyCmd | .addS | .startCb | .resumeCmd | .resumeCb => true
  | _ => false

/-- the part of the invariant that does not depend on the control point -/
structure BudgetBase (s : LState) : Prop where
  nodup : s.running.Nodup
  le : s.running.length ≤ s.cfg.nWorkers
  noAssert : s.err ≠ some .assertion

/-- inside the scheduling loop there is room for the `k` trials still to be started -/
def BudgetSched (s : LState) : Prop :=
  schedPc s.pc = true →
    (s.pc ≠ .suggestNext → 1 ≤ s.k) ∧ (s.loc = none → s.running.length + s.k ≤ s.cfg.nWorkers)

def BudgetInv (s : LState) : Prop := BudgetBase s ∧ BudgetSched s

/-- a state outside the scheduling loop with the same running set -/
theorem BudgetBase.out {s s' : LState} (h : BudgetBase s) (hr : s'.running = s.running) (hc : s'.cfg = s.cfg)
    (he : s'.err ≠ some .assertion) (hp : schedPc s'.pc = false) : BudgetInv s' :=
  ⟨⟨by rw [hr]; exact h.nodup, by rw [hr, hc]; exact h.le, he⟩, by intro hs; rw [hp] at hs; cases hs⟩

/-- a step inside the scheduling loop that leaves `running`, `k`, `loc` alone -/
theorem BudgetInv.stay {s s' : LState} (h : BudgetInv s) (hp : schedPc s.pc = true) (hq : s.pc ≠ .suggestNext)
    (hr : s'.running = s.running)
    (hc : s'.cfg = s.cfg) (he : s'.err = s.err) (hk : s'.k = s.k) (hl : s'.loc = s.loc) : BudgetInv s' :=
  ⟨⟨by rw [hr]; exact h.1.nodup, by rw [hr, hc]; exact h.1.le, by rw [he]; exact h.1.noAssert⟩,
   fun _ => by rw [hr, hc, hk, hl]; exact ⟨fun _ => (h.2 hp).1 hq, (h.2 hp).2⟩⟩

/-- entering the scheduling loop with `k` trials to start -/
theorem BudgetBase.enter {s s' : LState} (h : BudgetBase s) (hr : s'.running = s.running) (hc : s'.cfg = s.cfg)
    (he : s'.err = s.err) (hp : s'.pc = .suggestNext)
    (hk : s'.loc = none → s.running.length + s'.k ≤ s.cfg.nWorkers) : BudgetInv s' :=
  ⟨⟨by rw [hr]; exact h.nodup, by rw [hr, hc]; exact h.le, by rw [he]; exact h.noAssert⟩,
   fun _ => ⟨fun hne => absurd hp hne, fun hl => by rw [hr, hc]; exact hk hl⟩⟩

theorem budget_scheduled {s : LState} (h : BudgetInv s) (hp : schedPc s.pc = true) (hq : s.pc ≠ .suggestNext) (t : Nat) :
    BudgetInv (scheduled s t) := by
  have hk : 1 ≤ s.k := (h.2 hp).1 hq
  unfold scheduled addRunning
  cases hl : s.loc with
  | some l =>
    simp only []
    exact ⟨⟨h.1.nodup, h.1.le, h.1.noAssert⟩, fun _ => ⟨fun hne => absurd rfl hne, fun hc => by simp at hc⟩⟩
  | none =>
    simp only []
    have hk' := (h.2 hp).2 hl
    have hlen := length_sadd_le t s.running
    refine ⟨⟨nodup_sadd _ _ h.1.nodup, ?_, h.1.noAssert⟩, fun _ => ⟨fun hne => absurd rfl hne, fun _ => ?_⟩⟩
    · show (sadd t s.running).length ≤ s.cfg.nWorkers
      omega
    · show (sadd t s.running).length + (s.k - 1) ≤ s.cfg.nWorkers
      omega

theorem budget_afterUpdate {s : LState} (h : BudgetBase s) : BudgetInv (afterUpdate s) := by
  unfold afterUpdate
  refine ⟨⟨h.nodup.filter _, Nat.le_trans (List.length_filter_le _ _) h.le, h.noAssert⟩, ?_⟩
  intro hs
  exfalso
  simp only [] at hs
  revert hs
  split
  · split <;> simp [schedPc]
  · simp [schedPc]

theorem budget_secondItem {s : LState} (h : BudgetBase s) (t : Nat) (st : St) (rest : List (Nat × St))
    (hp : schedPc s.pc = false) : BudgetInv (secondItem s t st rest) := by
  unfold secondItem
  repeat' split
  all_goals first
    | exact h.out rfl rfl (h.noAssert :) rfl
    | exact h.out rfl rfl (h.noAssert :) hp

theorem budget_addRow {s : LState} (h : BudgetBase s) : BudgetBase (addRow s) := by
  unfold addRow; split
  · exact ⟨h.nodup, h.le, h.noAssert⟩
  · exact h

theorem budget_raise {s : LState} (h : BudgetBase s) (e : Raised) (he : e ≠ .assertion) : BudgetInv (raiseFin s e) :=
  h.out rfl rfl (by simp [raiseFin, he]) rfl

theorem budget_raise_nm {s : LState} (h : BudgetBase s) (t : Nat) : BudgetInv (raiseFin s (.noMetrics t)) :=
  budget_raise h _ (by simp)

theorem budget_raise_key {s : LState} (h : BudgetBase s) (l : List Res) :
    BudgetInv (raiseFin { s with rest := l } .keyError) :=
  h.out rfl rfl (by simp [raiseFin]) rfl

theorem budget_failed {s : LState} (h : BudgetBase s) (t : Nat) :
    BudgetInv { s with err := some (.failed t), pc := .done } :=
  h.out rfl rfl (by simp) rfl

theorem budget_toSuggest {s : LState} (hI : BudgetInv s) (hp : s.pc = .suggestNext) (n : Nat) (hk : s.k = n + 1) :
    BudgetInv { s with pc := .suggest } :=
  ⟨⟨hI.1.nodup, hI.1.le, hI.1.noAssert⟩,
   fun _ => ⟨fun _ => by show 1 ≤ s.k; omega, (hI.2 (by rw [hp]; rfl)).2⟩⟩

theorem budget_exitRaise {s : LState} (h : BudgetBase s) : BudgetInv (exitRaise s) :=
  h.out rfl rfl (by simp [exitRaise]) rfl

theorem budget_enter_swd {s : LState} (h : BudgetBase s) :
    BudgetInv { s with k := s.cfg.nWorkers - s.running.length, loc := none, pc := .suggestNext } :=
  h.enter rfl rfl rfl rfl (fun _ => by
    show s.running.length + (s.cfg.nWorkers - s.running.length) ≤ s.cfg.nWorkers
    have := h.le; omega)

theorem budget_enter_some {s : LState} (h : BudgetBase s) (k : Nat) (l : List Nat) :
    BudgetInv { s with k := k, loc := some l, pc := .suggestNext } :=
  h.enter rfl rfl rfl rfl (fun hl => by cases hl)

theorem budget_enter_none {s : LState} (h : BudgetBase s) (l : List Nat) (hl : ¬ l.length < s.running.length) :
    BudgetInv { s with k := s.cfg.nWorkers - l.length, loc := none, pc := .suggestNext } :=
  h.enter rfl rfl rfl rfl (fun _ => by
    show s.running.length + (s.cfg.nWorkers - l.length) ≤ s.cfg.nWorkers
    have := h.le; omega)

theorem budget_next (s : LState) (a : Ans) (hI : BudgetInv s) : BudgetInv (next s a) := by
  have h := hI.1
  have ha := budget_addRow h
  unfold next
  split
  all_goals (try simp only [])
  all_goals (repeat' split)
  all_goals first
    | exact h.out rfl rfl (h.noAssert :) rfl
    | exact h.out rfl rfl (h.noAssert :) (by show schedPc s.pc = false; rw [‹s.pc = _›]; rfl)
    | exact ha.out rfl rfl (ha.noAssert :) rfl
    | exact budget_raise h _ (by decide)
    | exact budget_raise_nm h _
    | exact budget_failed h _
    | exact budget_toSuggest hI (by assumption) _ (by assumption)
    | exact budget_raise_key h _
    | exact budget_exitRaise h
    | exact hI
    | exact budget_afterUpdate h
    | exact budget_secondItem h _ _ _ (by rw [‹s.pc = _›]; rfl)
    | exact hI.stay (by rw [‹s.pc = _›]; rfl) (by rw [‹s.pc = _›]; decide) rfl rfl rfl rfl rfl
    | exact budget_scheduled hI (by rw [‹s.pc = _›]; rfl) (by rw [‹s.pc = _›]; decide) _
    | exact absurd h.le (by assumption)
    | exact budget_enter_swd h
    | exact budget_enter_some h _ _
    | exact budget_enter_none h _ (by assumption)

theorem budget_step (s : LState) (a : Ans) (hI : BudgetInv s) : BudgetInv (step s a) :=
  step_of_next (P := BudgetInv) (fun _ _ h => ⟨⟨h.1.nodup, h.1.le, h.1.noAssert⟩, h.2⟩) s a (budget_next s a hI)

theorem budget_init (c : Cfg) : BudgetInv (init c) :=
  ⟨⟨by simp [init], by simp [init], by simp [init]⟩, by intro h; simp [init, schedPc] at h⟩

end SyneTune.Tuner
