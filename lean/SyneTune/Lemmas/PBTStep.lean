import SyneTune.Lemmas.PBTQuantiles
import Mathlib.Data.List.Induction
/-
One operation of the PBT model: well-formedness, frame lemmas (an operation on trial `tid` leaves
the record of every other trial alone), what a push is, what STOP does, the stack along a history.
-/
namespace SyneTune.PBT
open SyneTune

/-! ### predicates on states -/

/-- the scheduler has marked trial `t` stopped -/
def IsStopped (s : State) (t : Nat) : Prop := ∃ st, alookup t s.trials = some st ∧ st.stopped = true

/-- trial `t` is known and not marked stopped -/
def NotStopped (s : State) (t : Nat) : Prop := ∃ st, alookup t s.trials = some st ∧ st.stopped = false

theorem not_both {s : State} {t : Nat} (h1 : IsStopped s t) (h2 : NotStopped s t) : False := by
  obtain ⟨st, ha, hb⟩ := h1
  obtain ⟨st', ha', hb'⟩ := h2
  rw [ha] at ha'; cases ha'
  rw [hb] at hb'; exact nomatch hb'

theorem Scored.notStopped {s : State} {t : Nat} {v : Rat} (h : Scored s t v) : NotStopped s t := by
  obtain ⟨st, h1, h2, _⟩ := h
  exact ⟨st, h1, h2⟩

/-- operation `op` pushes the decision "clone from `src`" -/
def Pushes (p : Params) (s : State) (op : Op) (src : Nat) : Prop := (step p s op).1.stack = src :: s.stack

/-! ### `saved`, `markStopped` -/

@[simp] theorem saved_stack (p : Params) (s : State) (tid : Nat) (st : TState) (c m : Rat) :
    (saved p s tid st c m).stack = s.stack := rfl

theorem saved_lookup_self (p : Params) (s : State) (tid : Nat) (st : TState) (c m : Rat) :
    alookup tid (saved p s tid st c m).trials =
      some { st with lastScore := some (signed p.mode m), lastPert := c } := alookup_aset_self _ _ _

theorem saved_lookup_ne (p : Params) (s : State) {tid t : Nat} (h : t ≠ tid) (st : TState) (c m : Rat) :
    alookup t (saved p s tid st c m).trials = alookup t s.trials := alookup_aset_ne h _ _

theorem saved_wf {p : Params} {s : State} (hw : WF s) (tid : Nat) (st : TState) (c m : Rat) :
    WF (saved p s tid st c m) := nodup_keys_aset _ _ _ hw

theorem markStopped_stack (s : State) (tid : Nat) : (markStopped s tid).stack = s.stack := by
  unfold markStopped
  cases alookup tid s.trials <;> rfl

theorem markStopped_lookup_self {s : State} {tid : Nat} {st : TState} (h : alookup tid s.trials = some st) :
    alookup tid (markStopped s tid).trials = some { st with stopped := true } := by
  unfold markStopped
  rw [h]
  exact alookup_aset_self _ _ _

theorem markStopped_lookup_ne (s : State) {tid t : Nat} (h : t ≠ tid) :
    alookup t (markStopped s tid).trials = alookup t s.trials := by
  unfold markStopped
  cases alookup tid s.trials with
  | none => rfl
  | some st => exact alookup_aset_ne h _ _

theorem markStopped_wf {s : State} (hw : WF s) (tid : Nat) : WF (markStopped s tid) := by
  unfold markStopped
  cases alookup tid s.trials with
  | none => exact hw
  | some st => exact nodup_keys_aset _ _ _ hw

/-! ### `on_trial_result`, case by case -/

/-- the five ways `on_trial_result` can end -/
inductive ResultCase (p : Params) (s : State) (tid : Nat) (cost metric : Rat) (pick : Option Nat)
    (kh : Option ℤ) : State × Out → Prop
  | unknown (h : alookup tid s.trials = none) : ResultCase p s tid cost metric pick kh (s, .err .keyError)
  | maxT (st : TState) (h : alookup tid s.trials = some st) (hc : p.maxT ≤ cost) :
      ResultCase p s tid cost metric pick kh (markStopped s tid, .decision .stop none)
  | inside (st : TState) (h : alookup tid s.trials = some st) (hc : ¬ p.maxT ≤ cost)
      (hi : cost - st.lastPert < p.interval) : ResultCase p s tid cost metric pick kh (s, .decision .continue none)
  | keep (st : TState) (h : alookup tid s.trials = some st) (hc : ¬ p.maxT ≤ cost)
      (hi : ¬ cost - st.lastPert < p.interval)
      (hl : tid ∉ (quantiles p (saved p s tid st cost metric) kh).1) :
      ResultCase p s tid cost metric pick kh
        (saved p s tid st cost metric, .decision .continue (some (quantiles p (saved p s tid st cost metric) kh)))
  | bad (st : TState) (e : Err) (h : alookup tid s.trials = some st) (hc : ¬ p.maxT ≤ cost)
      (hi : ¬ cost - st.lastPert < p.interval)
      (hl : tid ∈ (quantiles p (saved p s tid st cost metric) kh).1)
      (hp : pick = none ∨ (∃ src, pick = some src ∧ (src ∉ (quantiles p (saved p s tid st cost metric) kh).2 ∨ src = tid))) :
      ResultCase p s tid cost metric pick kh (saved p s tid st cost metric, .err e)
  | push (st : TState) (src : Nat) (h : alookup tid s.trials = some st) (hc : ¬ p.maxT ≤ cost)
      (hi : ¬ cost - st.lastPert < p.interval)
      (hl : tid ∈ (quantiles p (saved p s tid st cost metric) kh).1)
      (hp : pick = some src) (hu : src ∈ (quantiles p (saved p s tid st cost metric) kh).2) (hne : src ≠ tid) :
      ResultCase p s tid cost metric pick kh
        ({ markStopped (saved p s tid st cost metric) tid with stack := src :: s.stack },
         .decision .stop (some (quantiles p (saved p s tid st cost metric) kh)))

theorem onResult_cases (p : Params) (s : State) (tid : Nat) (cost metric : Rat) (pick : Option Nat) (kh : Option ℤ) :
    ResultCase p s tid cost metric pick kh (onResult p s tid cost metric pick kh) := by
  unfold onResult
  rcases h : alookup tid s.trials with _ | st
  · exact .unknown h
  · simp only
    by_cases hc : p.maxT ≤ cost
    · simp only [hc, if_true]; exact .maxT st h hc
    · simp only [hc, if_false]
      by_cases hi : cost - st.lastPert < p.interval
      · simp only [hi, if_true]; exact .inside st h hc hi
      · simp only [hi, if_false]
        by_cases hl : tid ∈ (quantiles p (saved p s tid st cost metric) kh).1
        · simp only [hl, if_true]
          rcases pick with _ | src
          · exact .bad st _ h hc hi hl (Or.inl rfl)
          · simp only
            by_cases hu : src ∉ (quantiles p (saved p s tid st cost metric) kh).2
            · rw [if_pos hu]
              exact .bad st _ h hc hi hl (Or.inr ⟨src, rfl, Or.inl hu⟩)
            · rw [if_neg hu]
              by_cases hne : src = tid
              · rw [if_pos hne]
                exact .bad st _ h hc hi hl (Or.inr ⟨src, rfl, Or.inr hne⟩)
              · rw [if_neg hne]
                exact .push st src h hc hi hl rfl (not_not.mp hu) hne
        · simp only [hl, if_false]; exact .keep st h hc hi hl

/-- an operation on trial `tid` leaves the record of every other trial alone -/
theorem onResult_frame (p : Params) (s : State) {tid t : Nat} (h : t ≠ tid) (cost metric : Rat) (pick : Option Nat)
    (kh : Option ℤ) : alookup t (onResult p s tid cost metric pick kh).1.trials = alookup t s.trials := by
  have hc := onResult_cases p s tid cost metric pick kh
  generalize onResult p s tid cost metric pick kh = r at hc ⊢
  cases hc with
  | unknown _ => rfl
  | maxT st _ _ => exact markStopped_lookup_ne s h
  | inside st _ _ _ => rfl
  | keep st _ _ _ _ => exact saved_lookup_ne p s h st cost metric
  | bad st e _ _ _ _ _ => exact saved_lookup_ne p s h st cost metric
  | push st src _ _ _ _ _ _ _ =>
    show alookup t (markStopped (saved p s tid st cost metric) tid).trials = _
    rw [markStopped_lookup_ne _ h]; exact saved_lookup_ne p s h st cost metric

/-- the record of the reporting trial: it stays known, and a stopped trial stays stopped -/
theorem onResult_self (p : Params) (s : State) {tid : Nat} {st : TState} (h : alookup tid s.trials = some st)
    (cost metric : Rat) (pick : Option Nat) (kh : Option ℤ) :
    ∃ st', alookup tid (onResult p s tid cost metric pick kh).1.trials = some st' ∧
      (st.stopped = true → st'.stopped = true) := by
  have hc := onResult_cases p s tid cost metric pick kh
  generalize onResult p s tid cost metric pick kh = r at hc ⊢
  cases hc with
  | unknown h' => rw [h] at h'; exact nomatch h'
  | maxT st₂ h' _ => exact ⟨_, markStopped_lookup_self h', fun _ => rfl⟩
  | inside st₂ _ _ _ => exact ⟨st, h, id⟩
  | keep st₂ h' _ _ _ =>
    rw [h] at h'; cases h'
    exact ⟨_, saved_lookup_self p s tid st cost metric, id⟩
  | bad st₂ e h' _ _ _ _ =>
    rw [h] at h'; cases h'
    exact ⟨_, saved_lookup_self p s tid st cost metric, id⟩
  | push st₂ src h' _ _ _ _ _ _ =>
    exact ⟨_, markStopped_lookup_self (saved_lookup_self p s tid st₂ cost metric), fun _ => rfl⟩

theorem onResult_wf {p : Params} {s : State} (hw : WF s) (tid : Nat) (cost metric : Rat) (pick : Option Nat)
    (kh : Option ℤ) : WF (onResult p s tid cost metric pick kh).1 := by
  have hc := onResult_cases p s tid cost metric pick kh
  generalize onResult p s tid cost metric pick kh = r at hc ⊢
  cases hc with
  | unknown _ => exact hw
  | maxT st _ _ => exact markStopped_wf hw tid
  | inside st _ _ _ => exact hw
  | keep st _ _ _ _ => exact saved_wf hw tid st cost metric
  | bad st e _ _ _ _ _ => exact saved_wf hw tid st cost metric
  | push st src _ _ _ _ _ _ _ => exact markStopped_wf (saved_wf hw tid st cost metric) tid

/-! ### steps and histories -/

theorem onSuggest_cases (s : State) :
    (s.stack = [] ∧ onSuggest s = (s, .fresh)) ∨
    (∃ x rest, s.stack = x :: rest ∧ onSuggest s = ({ s with stack := rest }, .clone x)) := by
  unfold onSuggest
  rcases h : s.stack with _ | ⟨x, rest⟩
  · exact Or.inl ⟨rfl, rfl⟩
  · exact Or.inr ⟨x, rest, rfl, rfl⟩

theorem step_wf {p : Params} {s : State} (hw : WF s) (op : Op) : WF (step p s op).1 := by
  cases op with
  | add tid => exact nodup_keys_aset _ _ _ hw
  | result tid c m pk kh => exact onResult_wf hw tid c m pk kh
  | suggest =>
    show WF (onSuggest s).1
    rcases onSuggest_cases s with ⟨_, h2⟩ | ⟨x, rest, _, h2⟩ <;> rw [h2] <;> exact hw
  | error _ => exact hw
  | remove _ => exact hw
  | complete _ => exact hw

theorem init_wf : WF State.init := List.nodup_nil

theorem run_nil (p : Params) (s : State) : run p s [] = s := rfl

theorem run_cons (p : Params) (s : State) (op : Op) (ops : List Op) :
    run p s (op :: ops) = run p (step p s op).1 ops := rfl

theorem run_append (p : Params) (s : State) (a b : List Op) : run p s (a ++ b) = run p (run p s a) b := by
  unfold run; exact List.foldl_append ..

theorem run_snoc (p : Params) (s : State) (a : List Op) (op : Op) :
    run p s (a ++ [op]) = (step p (run p s a) op).1 := by
  rw [run_append]; rfl

theorem run_wf' {p : Params} {s : State} (hw : WF s) (ops : List Op) : WF (run p s ops) := by
  induction ops generalizing s with
  | nil => exact hw
  | cons op ops ih => exact ih (step_wf hw op)

/-- how one operation changes the stack: not at all, a pop, or a push -/
theorem step_stack (p : Params) (s : State) (op : Op) :
    (step p s op).1.stack = s.stack ∨ (∃ x, s.stack = x :: (step p s op).1.stack) ∨
      (∃ src, (step p s op).1.stack = src :: s.stack) := by
  cases op with
  | add tid => exact Or.inl rfl
  | result tid c m pk kh =>
    show (onResult p s tid c m pk kh).1.stack = _ ∨ (∃ x, _ = x :: (onResult p s tid c m pk kh).1.stack) ∨
      (∃ src, (onResult p s tid c m pk kh).1.stack = _)
    have hc := onResult_cases p s tid c m pk kh
    generalize onResult p s tid c m pk kh = r at hc ⊢
    cases hc with
    | unknown _ => exact Or.inl rfl
    | maxT st _ _ => exact Or.inl (markStopped_stack s tid)
    | inside st _ _ _ => exact Or.inl rfl
    | keep st _ _ _ _ => exact Or.inl rfl
    | bad st e _ _ _ _ _ => exact Or.inl rfl
    | push st src _ _ _ _ _ _ _ => exact Or.inr (Or.inr ⟨src, rfl⟩)
  | suggest =>
    show (onSuggest s).1.stack = _ ∨ (∃ x, _ = x :: (onSuggest s).1.stack) ∨ (∃ src, (onSuggest s).1.stack = _)
    rcases onSuggest_cases s with ⟨_, h2⟩ | ⟨x, rest, h1, h2⟩
    · rw [h2]; exact Or.inl rfl
    · rw [h2]; exact Or.inr (Or.inl ⟨x, h1⟩)
  | error _ => exact Or.inl rfl
  | remove _ => exact Or.inl rfl
  | complete _ => exact Or.inl rfl

theorem cons_ne_self' {α} (a : α) (l : List α) : l ≠ a :: l := by
  intro h
  have := congrArg List.length h
  simp at this

/-- what a push is: a `result` of a trial in the lower quantile with an admissible pick -/
theorem pushes_spec {p : Params} {s : State} {op : Op} {src : Nat} (h : Pushes p s op src) :
    ∃ tid cost metric kh st, op = .result tid cost metric (some src) kh ∧ alookup tid s.trials = some st ∧
      ¬ p.maxT ≤ cost ∧ ¬ cost - st.lastPert < p.interval ∧
      tid ∈ (quantiles p (saved p s tid st cost metric) kh).1 ∧
      src ∈ (quantiles p (saved p s tid st cost metric) kh).2 ∧ src ≠ tid ∧
      step p s op = ({ markStopped (saved p s tid st cost metric) tid with stack := src :: s.stack },
                     .decision .stop (some (quantiles p (saved p s tid st cost metric) kh))) := by
  unfold Pushes at h
  cases op with
  | add tid => exact absurd h (cons_ne_self' _ _)
  | result tid c m pk kh =>
    have hc := onResult_cases p s tid c m pk kh
    change (onResult p s tid c m pk kh).1.stack = src :: s.stack at h
    show ∃ tid' cost metric kh' st, Op.result tid c m pk kh = _ ∧ _ ∧ _ ∧ _ ∧ _ ∧ _ ∧ _ ∧ onResult p s tid c m pk kh = _
    generalize onResult p s tid c m pk kh = r at h hc
    cases hc with
    | unknown _ => exact absurd h (cons_ne_self' _ _)
    | maxT st _ _ => rw [markStopped_stack] at h; exact absurd h (cons_ne_self' _ _)
    | inside st _ _ _ => exact absurd h (cons_ne_self' _ _)
    | keep st _ _ _ _ => exact absurd h (cons_ne_self' _ _)
    | bad st e _ _ _ _ _ => exact absurd h (cons_ne_self' _ _)
    | push st src' h1 h2 h3 h4 h5 h6 h7 =>
      simp only [List.cons.injEq, and_true] at h
      subst h; subst h5
      exact ⟨tid, c, m, kh, st, rfl, h1, h2, h3, h4, h6, h7, rfl⟩
  | suggest =>
    change (onSuggest s).1.stack = src :: s.stack at h
    rcases onSuggest_cases s with ⟨h1, h2⟩ | ⟨x, rest, h1, h2⟩
    · rw [h2] at h; exact absurd h (cons_ne_self' _ _)
    · rw [h2, h1] at h
      have := congrArg List.length h
      simp only [List.length_cons] at this
      omega
  | error _ => exact absurd h (cons_ne_self' _ _)
  | remove _ => exact absurd h (cons_ne_self' _ _)
  | complete _ => exact absurd h (cons_ne_self' _ _)

/-- every entry of the stack was pushed by an earlier operation of the history -/
theorem stack_origin' (p : Params) (s₀ : State) (hs₀ : s₀.stack = []) (ops : List Op) (src : Nat)
    (h : src ∈ (run p s₀ ops).stack) :
    ∃ pre op post, ops = pre ++ op :: post ∧ Pushes p (run p s₀ pre) op src := by
  induction ops using List.reverseRecOn with
  | nil => rw [run_nil, hs₀] at h; exact absurd h List.not_mem_nil
  | append_singleton ops op ih =>
    rw [run_snoc] at h
    have lift : (∃ pre op' post, ops = pre ++ op' :: post ∧ Pushes p (run p s₀ pre) op' src) →
        ∃ pre op' post, ops ++ [op] = pre ++ op' :: post ∧ Pushes p (run p s₀ pre) op' src := by
      rintro ⟨pre, op', post, he, hp⟩
      exact ⟨pre, op', post ++ [op], by rw [he]; simp, hp⟩
    rcases step_stack p (run p s₀ ops) op with h1 | ⟨x, h1⟩ | ⟨src', h1⟩
    · rw [h1] at h; exact lift (ih h)
    · exact lift (ih (by rw [h1]; exact List.mem_cons_of_mem _ h))
    · rw [h1] at h
      rcases List.mem_cons.mp h with rfl | h
      · exact ⟨ops, op, [], rfl, h1⟩
      · exact lift (ih h)

/-! ### stopped trials -/

/-- a stopped trial stays stopped under every operation except `add` of the same id -/
theorem step_stopped {p : Params} {s : State} {t : Nat} (h : IsStopped s t) {op : Op} (hop : op ≠ .add t) :
    IsStopped (step p s op).1 t := by
  obtain ⟨st, h1, h2⟩ := h
  cases op with
  | add tid =>
    have hne : t ≠ tid := by rintro rfl; exact hop rfl
    exact ⟨st, by show alookup t (aset tid _ s.trials) = _; rw [alookup_aset_ne hne]; exact h1, h2⟩
  | result tid c m pk kh =>
    by_cases hne : t = tid
    · subst hne
      obtain ⟨st', h3, h4⟩ := onResult_self p s h1 c m pk kh
      exact ⟨st', h3, h4 h2⟩
    · exact ⟨st, by show alookup t (onResult p s tid c m pk kh).1.trials = _; rw [onResult_frame p s hne]; exact h1, h2⟩
  | suggest =>
    refine ⟨st, ?_, h2⟩
    show alookup t (onSuggest s).1.trials = _
    rcases onSuggest_cases s with ⟨_, h3⟩ | ⟨x, rest, _, h3⟩ <;> rw [h3] <;> exact h1
  | error _ => exact ⟨st, h1, h2⟩
  | remove _ => exact ⟨st, h1, h2⟩
  | complete _ => exact ⟨st, h1, h2⟩

theorem run_stopped {p : Params} {s : State} {t : Nat} (h : IsStopped s t) (ops : List Op)
    (hops : ∀ op ∈ ops, op ≠ .add t) : IsStopped (run p s ops) t := by
  induction ops generalizing s with
  | nil => exact h
  | cons op ops ih =>
    rw [run_cons]
    exact ih (step_stopped h (hops op List.mem_cons_self)) (fun o ho => hops o (List.mem_cons_of_mem _ ho))

/-- is `op` a result reported by trial `t`? -/
def isResultOf (t : Nat) : Op → Bool
  | .result tid _ _ _ _ => tid == t
  | _ => false

/-- a trial that is not stopped stays so under every operation except its own results -/
theorem step_notStopped {p : Params} {s : State} {t : Nat} (h : NotStopped s t) {op : Op}
    (hop : isResultOf t op = false) : NotStopped (step p s op).1 t := by
  obtain ⟨st, h1, h2⟩ := h
  cases op with
  | add tid =>
    by_cases hne : t = tid
    · subst hne
      exact ⟨{}, alookup_aset_self _ _ _, rfl⟩
    · exact ⟨st, by show alookup t (aset tid _ s.trials) = _; rw [alookup_aset_ne hne]; exact h1, h2⟩
  | result tid c m pk kh =>
    have hne : t ≠ tid := by
      rintro rfl
      simp [isResultOf] at hop
    exact ⟨st, by show alookup t (onResult p s tid c m pk kh).1.trials = _; rw [onResult_frame p s hne]; exact h1, h2⟩
  | suggest =>
    refine ⟨st, ?_, h2⟩
    show alookup t (onSuggest s).1.trials = _
    rcases onSuggest_cases s with ⟨_, h3⟩ | ⟨x, rest, _, h3⟩ <;> rw [h3] <;> exact h1
  | error _ => exact ⟨st, h1, h2⟩
  | remove _ => exact ⟨st, h1, h2⟩
  | complete _ => exact ⟨st, h1, h2⟩

theorem run_notStopped {p : Params} {s : State} {t : Nat} (h : NotStopped s t) (ops : List Op)
    (hops : ∀ op ∈ ops, isResultOf t op = false) : NotStopped (run p s ops) t := by
  induction ops generalizing s with
  | nil => exact h
  | cons op ops ih =>
    rw [run_cons]
    exact ih (step_notStopped h (hops op List.mem_cons_self)) (fun o ho => hops o (List.mem_cons_of_mem _ ho))

/-! ### min/max symmetry -/

/-- the mirrored experiment: mode flipped -/
def negParams (p : Params) : Params := { p with mode := p.mode.flip }

/-- the mirrored operation: metric negated, everything else (cost, pick, hint) the same -/
def negOp : Op → Op
  | .result tid c m pk kh => .result tid c (-m) pk kh
  | op => op

theorem signed_flip (m : Mode) (v : Rat) : signed m.flip (-v) = signed m v := by
  cases m <;> simp [signed, Mode.flip]

theorem saved_symm (p : Params) (s : State) (tid : Nat) (st : TState) (c m : Rat) :
    saved (negParams p) s tid st c (-m) = saved p s tid st c m := by
  unfold saved
  show _ = _
  simp only [negParams, signed_flip]

theorem quantiles_symm (p : Params) (s : State) (kh : Option ℤ) : quantiles (negParams p) s kh = quantiles p s kh := rfl

theorem onResult_symm (p : Params) (s : State) (tid : Nat) (c m : Rat) (pk : Option Nat) (kh : Option ℤ) :
    onResult (negParams p) s tid c (-m) pk kh = onResult p s tid c m pk kh := by
  unfold onResult
  simp only [saved_symm, quantiles_symm]
  rfl

theorem step_symm' (p : Params) (s : State) (op : Op) : step (negParams p) s (negOp op) = step p s op := by
  cases op with
  | result tid c m pk kh => exact onResult_symm p s tid c m pk kh
  | add _ => rfl
  | suggest => rfl
  | error _ => rfl
  | remove _ => rfl
  | complete _ => rfl

end SyneTune.PBT
