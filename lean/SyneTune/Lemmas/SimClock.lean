import SyneTune.Lemmas.SimCmd
/-
The simulated clock: never runs backwards; `on_tuning_sleep` adds exactly
`tuner_sleep_time`; a stop / pause command charges `delay_stop`, `delay_complete_after_stop`
and the two guards exactly once.
-/
namespace SyneTune.SimL
open SyneTune SyneTune.Backend SyneTune.PollL

variable {J : Type}

theorem advanceOutside_now_le {A : Arith} (hA : AddGe A) {s s' : Sim J} (h : s.advanceOutside A = .ok s') :
    s.now ≤ s'.now := by
  obtain ⟨h0, rfl⟩ := advance_inv h
  exact hA _ _ h0

theorem schedule_now_le {A : Arith} {job : JobFn J} (hA : AddGe A) {s s' : Sim J} {t : Nat}
    (h : s.schedule A job t = .ok s') : s.now ≤ s'.now := by
  obtain ⟨s1, s2, h1, h2, rfl⟩ := schedule_inv h
  have := advanceOutside_now_le hA h1
  have h2n := (processUntil_fields h2).1
  simp only [Sim.markExit, push_now]
  rw [h2n]; exact this

/-- the clock after `_stop_or_pause_trial` -/
def stopClock (A : Arith) (s : Sim J) : Rat :=
  let n1 := A.add s.now (A.sub s.realNow s.lastExit)
  let n2 := maxRat n1 (A.add (A.add n1 s.cfg.dStop) s.cfg.guard)
  maxRat n2 (A.add (A.add n2 s.cfg.dCompleteStop) s.cfg.guard)

theorem stopOrPause_now {A : Arith} {job : JobFn J} {s s' : Sim J} {t : Nat} {st : St}
    (h : s.stopOrPause A job t st = .ok s') : s'.now = stopClock A s := by
  obtain ⟨s1, s3, s5, h1, h3, h5, rfl⟩ := stopOrPause_inv h
  obtain ⟨_, rfl⟩ := advance_inv h1
  have f3 := processUntil_fields h3
  have f5 := processUntil_fields h5
  simp only [Sim.markExit]
  rw [f5.1]
  simp only [Sim.advanceTo, push_now]
  rw [f3.2.1, f3.1]
  simp only [Sim.advanceTo, push_now, push_cfg, stopClock]

theorem stopOrPause_now_le {A : Arith} {job : JobFn J} (hA : AddGe A) {s s' : Sim J} {t : Nat} {st : St}
    (h : s.stopOrPause A job t st = .ok s') : s.now ≤ s'.now := by
  have hn := stopOrPause_now h
  obtain ⟨s1, _, _, h1, _, _, _⟩ := stopOrPause_inv h
  obtain ⟨h0, _⟩ := advance_inv h1
  rw [hn]
  unfold stopClock
  exact le_trans (le_trans (hA _ _ h0) (le_maxRat_left' _ _)) (le_maxRat_left' _ _)

theorem fetch_now_le {A : Arith} {job : JobFn J} (hA : AddGe A) {s s' : Sim J} {ids : List Nat}
    {sts : List (Nat × St)} {res : List (Nat × Arrived)} (h : s.fetch A job ids = .ok (s', sts, res)) :
    s.now ≤ s'.now := by
  obtain ⟨s1, s2, h1, h2, _, rfl⟩ := fetch_inv h
  have := advanceOutside_now_le hA h1
  have h2n := (processUntil_fields h2).1
  have hc := (fetchCovered_fields ids s2).2.2.1
  have hd := (dropRest_fields (fetchCovered s2 ids).1.next (fetchCovered s2 ids).1).2.2.1
  simp only [Sim.markExit]
  rw [hd, hc, h2n]; exact this

theorem stopAllGo_now_le {A : Arith} {job : JobFn J} (hA : AddGe A) (l : List Nat) :
    ∀ {s s' : Sim J}, simStopAllGo A job s l = .ok s' → s.now ≤ s'.now := by
  induction l with
  | nil => intro s s' hs; cases hs; exact le_refl _
  | cons t rest ih =>
    intro s s' hs
    unfold simStopAllGo at hs
    split at hs
    · exact ih hs
    · split at hs
      · cases h1 : s.stopTrial A job t with
        | error e => rw [h1] at hs; cases hs
        | ok s1 =>
          rw [h1] at hs
          unfold Sim.stopTrial at h1
          have h2 := stopOrPause_now_le hA h1
          exact le_trans h2 (ih hs)
      · exact ih hs

/-- **the simulated clock never runs backwards** (one operation) -/
theorem now_le_step {A : Arith} {job : JobFn TabState} (hA : AddGe A) {s s' : TB} {op : SOp}
    (hs : TB.step A job s op = .ok s') : s.now ≤ s'.now := by
  cases op with
  | start cfg =>
    simp only [TB.step, Sim.startTrial] at hs
    cases h1 : s.schedule A job s.trials.length with
    | error e => rw [h1] at hs; cases hs
    | ok s1 => rw [h1] at hs; cases hs; have h2 := schedule_now_le hA h1; exact h2
  | resume t nc =>
    simp only [TB.step, Sim.resumeTrial] at hs
    split at hs
    · cases hs
    · split at hs
      · cases hs
      · split at hs
        · cases hs
        · cases h1 : Sim.schedule A job ({ s with js := _ } : TB) t with
          | error e => rw [h1] at hs; cases hs
          | ok s1 => rw [h1] at hs; cases hs; have h2 := schedule_now_le hA h1; exact h2
  | pause t lv =>
    simp only [TB.step, Sim.pauseTrial] at hs
    split at hs
    · cases h1 : Sim.stopOrPause A job (s.updT t _) t .paused with
      | error e => rw [h1] at hs; cases hs
      | ok s1 => rw [h1] at hs; cases hs; have h2 := stopOrPause_now_le hA h1; exact h2
    · cases hs
  | stop t => simp only [TB.step, Sim.stopTrial] at hs; have h2 := stopOrPause_now_le hA hs; exact h2
  | fetch ids =>
    simp only [TB.step] at hs
    cases h1 : s.fetch A job ids with
    | error e => rw [h1] at hs; cases hs
    | ok r => obtain ⟨s1, sts, res⟩ := r; rw [h1] at hs; cases hs; exact fetch_now_le hA h1
  | busy =>
    simp only [TB.step, Sim.busyIds] at hs
    cases h1 : Sim.processUntil A job simFuel s with
    | error e => rw [h1] at hs; cases hs
    | ok s1 => rw [h1] at hs; cases hs; exact le_of_eq (processUntil_fields h1).1.symm
  | sleep => obtain ⟨h0, rfl⟩ := advance_inv hs; exact hA _ _ h0
  | advance dt => obtain ⟨h0, rfl⟩ := advance_inv hs; exact hA _ _ h0
  | tick dt => cases hs; exact le_refl _
  | tape d => cases hs; exact le_refl _
  | stopAll => exact stopAllGo_now_le hA _ hs

theorem now_le_run {A : Arith} {job : JobFn TabState} (hA : AddGe A) (ops : List SOp) :
    ∀ {s s' : TB}, TB.run A job s ops = .ok s' → s.now ≤ s'.now := by
  induction ops with
  | nil => intro s s' hs; cases hs; exact le_refl _
  | cons op ops ih =>
    intro s s' hs
    unfold TB.run at hs
    cases h1 : TB.step A job s op with
    | error e => rw [h1] at hs; cases hs
    | ok s1 => rw [h1] at hs; exact le_trans (now_le_step hA h1) (ih hs)

/-- exact arithmetic satisfies the monotonicity assumptions -/
theorem addGe_exact : AddGe Arith.exact := by
  intro a b hb; show a ≤ a + b; linarith

/-- with exact arithmetic, no real time spent outside and non-negative delays, a stop / pause
command advances the clock by `delay_stop + 1e-3 + delay_complete_after_stop + 1e-3` -/
theorem stopClock_exact (s : Sim J) (hreal : s.realNow = s.lastExit) (h1 : 0 ≤ s.cfg.dStop)
    (h2 : 0 ≤ s.cfg.dCompleteStop) (hg : 0 ≤ s.cfg.guard) :
    stopClock Arith.exact s = s.now + s.cfg.dStop + s.cfg.guard + s.cfg.dCompleteStop + s.cfg.guard := by
  unfold stopClock
  simp only [Arith.exact, hreal, sub_self, add_zero]
  have e1 : maxRat s.now (s.now + s.cfg.dStop + s.cfg.guard) = s.now + s.cfg.dStop + s.cfg.guard := by
    unfold maxRat; split
    · rfl
    · linarith
  rw [e1]
  unfold maxRat; split
  · rfl
  · linarith


/-- a history followed by one more operation -/
theorem run_snoc {A : Arith} {job : JobFn TabState} (ops : List SOp) : ∀ (a b c : TB) (op : SOp),
    TB.run A job a ops = .ok b → TB.step A job b op = .ok c → TB.run A job a (ops ++ [op]) = .ok c := by
  induction ops with
  | nil =>
    intro a b c op h hs
    cases h
    simp only [List.nil_append, TB.run, hs]
  | cons op0 l ih =>
    intro a b c op h hs
    simp only [List.cons_append, TB.run] at h ⊢
    cases h1 : TB.step A job a op0 with
    | error e => rw [h1] at h; cases h
    | ok a1 =>
      rw [h1] at h
      simp only at h ⊢
      exact ih a1 b c op h hs

theorem step_fetch {A : Arith} {job : JobFn TabState} {s s' : TB} {ids : List Nat} {sts : List (Nat × St)}
    {res : List (Nat × Arrived)} (hf : s.fetch A job ids = .ok (s', sts, res)) :
    TB.step A job s (.fetch ids) = .ok s' := by
  simp only [TB.step, hf]; rfl

end SyneTune.SimL
