import SyneTune.Model.RandomSearcher
import SyneTune.Lemmas.SearcherBO
/-
Lemmas about the random searcher model (`Model/RandomSearcher.lean`) for C06
(`initial_first_in_order`, `no_repeat`, `none_random_partial`) and C16 (`random`).
-/
namespace SyneTune.Srch

theorem exclAdd_nodup (x : String) (l : List String) (h : l.Nodup) : (exclAdd x l).Nodup := by
  unfold exclAdd
  by_cases hx : x ∈ l
  · simp [hx, h]
  · simp [hx, h]

theorem exclAdd_perm (x : String) (l l' : List String) (h : l.Perm l') : (exclAdd x l).Perm (exclAdd x l') := by
  unfold exclAdd
  by_cases hx : x ∈ l
  · have hx' : x ∈ l' := h.mem_iff.mp hx
    simp [hx, hx', h]
  · have hx' : x ∉ l' := fun c => hx (h.mem_iff.mpr c)
    simp [hx, hx', h]

/-! ### the retry loop -/

/-- result of the retry loop: a returned configuration is the draw at the last consumed
position, its match string is not excluded, all earlier draws were excluded; `none` means
all `fuel` draws were excluded. -/
theorem sampleLoop_spec (mk : MK) (excl : List String) (draw : Nat → Config) :
    ∀ (fuel i : Nat) (r : Option Config) (n : Nat), sampleLoop mk excl draw fuel i = .ok (r, n) →
      i ≤ n ∧ n ≤ i + fuel ∧
      (∀ j, i ≤ j → j + 1 < n + (if r.isSome then 0 else 1) → ∃ m, mk (draw j) = .ok m ∧ m ∈ excl) ∧
      (∀ c, r = some c → n = (n - 1) + 1 ∧ i < n ∧ c = draw (n - 1) ∧ ∃ m, mk c = .ok m ∧ m ∉ excl) ∧
      (r = none → n = i + fuel) := by
  intro fuel
  induction fuel with
  | zero =>
    intro i r n h
    simp only [sampleLoop] at h
    injection h with h; injection h with h1 h2
    subst h1; subst h2
    refine ⟨Nat.le_refl _, Nat.le_refl _, ?_, ?_, ?_⟩
    · intro j h1 h2; simp at h2; omega
    · intro c hc; cases hc
    · intro _; rfl
  | succ fuel ih =>
    intro i r n h
    simp only [sampleLoop] at h
    cases hm : mk (draw i) with
    | error e => rw [hm] at h; cases h
    | ok m =>
      rw [hm] at h
      simp only at h
      by_cases hin : m ∈ excl
      · simp only [hin, if_true] at h
        obtain ⟨h1, h2, h3, h4, h5⟩ := ih (i + 1) r n h
        refine ⟨by omega, by omega, ?_, ?_, ?_⟩
        · intro j hj1 hj2
          by_cases hji : j = i
          · subst hji; exact ⟨m, hm, hin⟩
          · exact h3 j (by omega) hj2
        · intro c hc
          obtain ⟨a, b, c', d⟩ := h4 c hc
          exact ⟨a, by omega, c', d⟩
        · intro hr; have := h5 hr; omega
      · simp only [hin, if_false] at h
        injection h with h; injection h with h1 h2
        subst h1; subst h2
        refine ⟨by omega, by omega, ?_, ?_, ?_⟩
        · intro j hj1 hj2; simp at hj2; omega
        · intro c hc
          injection hc with hc
          subst hc
          refine ⟨by omega, by omega, by simp, m, hm, hin⟩
        · intro hr; cases hr

/-! ### `get_config` -/

theorem finish_spec (imm : RImm) (s s' : RState) (r o : Option Config)
    (h : RState.finish imm s r = .ok (s', o)) :
    o = r ∧ s'.p2e = s.p2e ∧ s'.rng = s.rng ∧ s'.cfgFor = s.cfgFor ∧
    (∀ c, r = some c →
      (imm.allowDup = true → s'.excl = s.excl) ∧
      (imm.allowDup = false → ∃ m, imm.mkf c = .ok m ∧ s'.excl = exclAdd m s.excl)) ∧
    (r = none → s'.excl = s.excl) := by
  unfold RState.finish at h
  cases r with
  | none =>
    simp only at h
    injection h with h; injection h with h1 h2
    subst h1; subst h2
    simp
  | some c =>
    simp only at h
    cases hd : imm.allowDup with
    | true =>
      simp only [hd, if_true] at h
      injection h with h; injection h with h1 h2
      subst h1; subst h2
      simp
    | false =>
      simp only [hd] at h
      unfold exclAddConfig at h
      cases hm : imm.mkf c with
      | error e => simp [hm] at h
      | ok m =>
        simp only [hm] at h
        injection h with h; injection h with h1 h2
        subst h1; subst h2
        simp [hm]

/-- case analysis of one `get_config` -/
theorem getConfig_cases (imm : RImm) (s s' : RState) (draw : Nat → Config) (o : Option Config)
    (h : s.getConfig imm draw = .ok (s', o)) :
    (∃ c rest, s.p2e = c :: rest ∧ o = some c ∧ s'.p2e = rest ∧ s'.rng = s.rng ∧ s'.cfgFor = s.cfgFor ∧
        (imm.allowDup = true → s'.excl = s.excl) ∧
        (imm.allowDup = false → ∃ m, imm.mkf c = .ok m ∧ s'.excl = exclAdd m s.excl)) ∨
    (s.p2e = [] ∧ s'.p2e = [] ∧ s'.cfgFor = s.cfgFor ∧
      ((o = none ∧ s'.excl = s.excl ∧
          (exhausted imm.size s.excl = true ∨
            ∀ i, i < imm.maxRetries → ∃ m, imm.mkf (draw i) = .ok m ∧ m ∈ s.excl)) ∨
       (∃ c m, o = some c ∧ imm.mkf c = .ok m ∧ m ∉ s.excl ∧ (∃ j, c = draw j) ∧
          exhausted imm.size s.excl = false ∧
          (imm.allowDup = true → s'.excl = s.excl) ∧
          (imm.allowDup = false → s'.excl = exclAdd m s.excl)))) := by
  unfold RState.getConfig at h
  cases hp : s.p2e with
  | cons c rest =>
    left
    simp only [hp] at h
    obtain ⟨h1, h2, h3, h4, h5, _⟩ := finish_spec imm _ s' _ o h
    exact ⟨c, rest, rfl, h1, h2, h3, h4, (h5 c rfl).1, (h5 c rfl).2⟩
  | nil =>
    right
    simp only [hp] at h
    unfold RState.randomConfig at h
    by_cases hex : exhausted imm.size s.excl = true
    · simp only [hex, if_true] at h
      obtain ⟨h1, h2, h3, h4, h5, h6⟩ := finish_spec imm _ s' _ o h
      refine ⟨rfl, by simpa [hp] using h2, h4, Or.inl ⟨h1, h6 rfl, Or.inl hex⟩⟩
    · simp only [hex] at h
      cases hl : sampleLoop imm.mkf s.excl draw imm.maxRetries 0 with
      | error e => simp [hl] at h
      | ok rn =>
        obtain ⟨r, n⟩ := rn
        simp only [hl] at h
        obtain ⟨h1, h2, h3, h4, h5, h6⟩ := finish_spec imm _ s' _ o h
        obtain ⟨l1, l2, l3, l4, l5⟩ := sampleLoop_spec imm.mkf s.excl draw imm.maxRetries 0 r n hl
        refine ⟨rfl, by simpa [hp] using h2, h4, ?_⟩
        cases r with
        | none =>
          left
          refine ⟨h1, h6 rfl, Or.inr ?_⟩
          intro i hi
          have hn := l5 rfl
          exact l3 i (Nat.zero_le _) (by simp; omega)
        | some c =>
          right
          obtain ⟨_, _, hc, m, hm, hnin⟩ := l4 c rfl
          have hex' : exhausted imm.size s.excl = false := by
            cases hh : exhausted imm.size s.excl
            · rfl
            · exact absurd hh hex
          refine ⟨c, m, h1, hm, hnin, ⟨n - 1, hc⟩, hex', (h5 c rfl).1, ?_⟩
          intro hd
          obtain ⟨m', hm', he⟩ := (h5 c rfl).2 hd
          rw [hm] at hm'
          injection hm' with hm'
          subst hm'
          exact he

/-! ### the other operations, histories -/

theorem registerPending_fields (imm : RImm) (s : RState) (tid : Nat) (c : Option Config) :
    (s.registerPending imm tid c).p2e = s.p2e ∧ (s.registerPending imm tid c).excl = s.excl ∧
    (s.registerPending imm tid c).rng = s.rng ∧
    (imm.allowDup = false → (s.registerPending imm tid c).cfgFor = s.cfgFor) := by
  unfold RState.registerPending
  split
  · rename_i h
    cases c with
    | none => simp
    | some cfg =>
      refine ⟨rfl, rfl, rfl, ?_⟩
      intro hd; rw [hd] at h; simp at h
  · simp

theorem evaluationFailed_spec (imm : RImm) (s s' : RState) (tid : Nat)
    (h : s.evaluationFailed imm tid = .ok s') :
    s'.p2e = s.p2e ∧ s'.rng = s.rng ∧ s'.cfgFor = s.cfgFor ∧
    (s'.excl = s.excl ∨
      ∃ cfg m, imm.allowDup = true ∧ alookup tid s.cfgFor = some cfg ∧ imm.mkf cfg = .ok m ∧
        s'.excl = exclAdd m s.excl) := by
  unfold RState.evaluationFailed at h
  cases hd : imm.allowDup with
  | false =>
    simp only [hd] at h
    injection h with h; subst h; simp
  | true =>
    simp only [hd, if_true] at h
    cases hl : alookup tid s.cfgFor with
    | none =>
      simp only [hl] at h
      injection h with h; subst h; simp
    | some cfg =>
      simp only [hl] at h
      unfold exclAddConfig at h
      cases hm : imm.mkf cfg with
      | error e => simp [hm] at h
      | ok m =>
        simp only [hm] at h
        injection h with h; subst h
        exact ⟨rfl, rfl, rfl, Or.inr ⟨cfg, m, rfl, rfl, hm, rfl⟩⟩

/-- unfolding of one step of a history -/
theorem run_cons (imm : RImm) (tape : Nat → Config) (s s' : RState) (op : ROp) (ops : List ROp)
    (outs : List (Option Config)) (h : RState.run imm tape s (op :: ops) = .ok (s', outs)) :
    ∃ s1 o os, RState.step imm tape s op = .ok (s1, o) ∧ RState.run imm tape s1 ops = .ok (s', os) ∧
      outs = o.toList ++ os := by
  simp only [RState.run] at h
  cases h1 : RState.step imm tape s op with
  | error e => simp [h1] at h
  | ok r =>
    obtain ⟨s1, o⟩ := r
    simp only [h1] at h
    cases h2 : RState.run imm tape s1 ops with
    | error e => simp [h2] at h
    | ok r2 =>
      obtain ⟨s2, os⟩ := r2
      simp only [h2] at h
      injection h with h; injection h with ha hb
      subst ha; subst hb
      exact ⟨s1, o, os, rfl, h2, rfl⟩

/-- a non-`get` step: no output; initial points, generator untouched; the exclusion set only
grows, and does not change at all unless duplicates are allowed -/
theorem step_other (imm : RImm) (tape : Nat → Config) (s s1 : RState) (op : ROp)
    (o : Option (Option Config)) (hop : op ≠ .get) (h : RState.step imm tape s op = .ok (s1, o)) :
    o = none ∧ s1.p2e = s.p2e ∧ s1.rng = s.rng ∧ (∀ m, m ∈ s.excl → m ∈ s1.excl) ∧
    (imm.allowDup = false → s1.excl = s.excl ∧ s1.cfgFor = s.cfgFor) := by
  cases op with
  | get => exact absurd rfl hop
  | pending tid c =>
    simp only [RState.step] at h
    injection h with h; injection h with h1 h2
    subst h1; subst h2
    obtain ⟨a, b, c', d⟩ := registerPending_fields imm s tid c
    exact ⟨rfl, a, c', fun m hm => by rw [b]; exact hm, fun hd => ⟨b, d hd⟩⟩
  | failed tid =>
    simp only [RState.step] at h
    cases hf : s.evaluationFailed imm tid with
    | error e => simp [hf] at h
    | ok s2 =>
      simp only [hf] at h
      injection h with h; injection h with h1 h2
      subst h1; subst h2
      obtain ⟨a, b, c, d⟩ := evaluationFailed_spec imm s s2 tid hf
      refine ⟨rfl, a, b, ?_, ?_⟩
      · intro m hm
        rcases d with d | ⟨cfg, m', _, _, _, d⟩
        · rw [d]; exact hm
        · rw [d]; exact (mem_exclAdd _ _ _).mpr (Or.inr hm)
      · intro hd
        rcases d with d | ⟨cfg, m', hd', _⟩
        · exact ⟨d, c⟩
        · rw [hd] at hd'; cases hd'
  | result tid =>
    simp only [RState.step] at h
    injection h with h; injection h with h1 h2
    subst h1; subst h2
    exact ⟨rfl, rfl, rfl, fun m hm => hm, fun _ => ⟨rfl, rfl⟩⟩

theorem step_get (imm : RImm) (tape : Nat → Config) (s s1 : RState) (o : Option (Option Config))
    (h : RState.step imm tape s .get = .ok (s1, o)) :
    ∃ o1, o = some o1 ∧ s.getConfig imm (fun i => tape (s.rng + i)) = .ok (s1, o1) := by
  simp only [RState.step] at h
  cases hg : s.getConfig imm (fun i => tape (s.rng + i)) with
  | error e => simp [hg] at h
  | ok r =>
    obtain ⟨s2, o1⟩ := r
    simp only [hg] at h
    injection h with h; injection h with h1 h2
    subst h1; subst h2
    exact ⟨o1, rfl, rfl⟩

/-- **Initial configurations first, in order** (from any state): the first
`|_points_to_evaluate|` answers are exactly the remaining initial configurations. -/
theorem run_initial_first (imm : RImm) (tape : Nat → Config) :
    ∀ (ops : List ROp) (s s' : RState) (outs : List (Option Config)),
      RState.run imm tape s ops = .ok (s', outs) →
      outs.take s.p2e.length = (s.p2e.map some).take outs.length := by
  intro ops
  induction ops with
  | nil =>
    intro s s' outs h
    simp only [RState.run] at h
    injection h with h; injection h with _ h2
    subst h2; simp
  | cons op ops ih =>
    intro s s' outs h
    obtain ⟨s1, o, os, hstep, hrun, hout⟩ := run_cons imm tape s s' op ops outs h
    subst hout
    by_cases hop : op = .get
    · subst hop
      obtain ⟨o1, ho, hg⟩ := step_get imm tape s s1 o hstep
      subst ho
      have ih' := ih s1 s' os hrun
      rcases getConfig_cases imm s s1 _ o1 hg with ⟨c, rest, hp, ho1, hp1, _⟩ | ⟨hp, _⟩
      · subst ho1
        rw [hp1] at ih'
        simp only [hp, Option.toList, List.singleton_append, List.length_cons, List.take_succ_cons,
          List.map_cons, ih']
      · simp [hp]
    · obtain ⟨ho, hp, _⟩ := step_other imm tape s s1 op o hop hstep
      subst ho
      have ih' := ih s1 s' os hrun
      rw [hp] at ih'
      simpa using ih'

/-- **No repeats** (`allow_duplicates = False`), as an invariant over arbitrary histories of
suggest / pending / failed / result events, from any state: `R` are the configurations
returned so far. -/
theorem run_norepeat (imm : RImm) (hnd : imm.allowDup = false) (tape : Nat → Config) :
    ∀ (ops : List ROp) (s s' : RState) (R : List Config) (outs : List (Option Config)),
      RState.run imm tape s ops = .ok (s', outs) →
      (∀ c ∈ R, ∃ m, imm.mkf c = .ok m ∧ m ∈ s.excl) → (∀ c ∈ s.p2e, c ∉ R) → s.p2e.Nodup → R.Nodup →
      (∀ c ∈ R ++ outs.filterMap id, ∃ m, imm.mkf c = .ok m ∧ m ∈ s'.excl) ∧
      (R ++ outs.filterMap id).Nodup ∧
      (∀ j c, R.length + s.p2e.length ≤ j → (R ++ outs.filterMap id)[j]? = some c →
        ∀ i c', i < j → (R ++ outs.filterMap id)[i]? = some c' → imm.mkf c' ≠ imm.mkf c) := by
  intro ops
  induction ops with
  | nil =>
    intro s s' R outs h h1 h2 h3 h4
    simp only [RState.run] at h
    injection h with h; injection h with ha hb
    subst ha; subst hb
    simp only [List.filterMap_nil, List.append_nil]
    refine ⟨h1, h4, ?_⟩
    intro j c hj hc
    have : R.length ≤ j := by omega
    rw [List.getElem?_eq_none this] at hc
    cases hc
  | cons op ops ih =>
    intro s s' R outs h h1 h2 h3 h4
    obtain ⟨s1, o, os, hstep, hrun, hout⟩ := run_cons imm tape s s' op ops outs h
    subst hout
    by_cases hop : op = .get
    · subst hop
      obtain ⟨o1, ho, hg⟩ := step_get imm tape s s1 o hstep
      subst ho
      rcases getConfig_cases imm s s1 _ o1 hg with
        ⟨c0, rest, hp, ho1, hp1, _, _, _, hex⟩ | ⟨hp, hp1, _, hcase⟩
      · -- an initial configuration
        subst ho1
        obtain ⟨m0, hm0, hexA⟩ := hex hnd
        clear hex
        rw [hp] at h2 h3
        have hc0R : c0 ∉ R := h2 c0 (by simp)
        have hnd' := List.nodup_cons.mp h3
        have := ih s1 s' (R ++ [c0]) os hrun
          (by
            intro c hc
            rcases List.mem_append.mp hc with hc | hc
            · obtain ⟨m, hm, hme⟩ := h1 c hc
              exact ⟨m, hm, by rw [hexA]; exact (mem_exclAdd _ _ _).mpr (Or.inr hme)⟩
            · simp only [List.mem_singleton] at hc
              subst hc
              exact ⟨m0, hm0, by rw [hexA]; exact (mem_exclAdd _ _ _).mpr (Or.inl rfl)⟩)
          (by
            rw [hp1]
            intro c hc hcr
            rcases List.mem_append.mp hcr with hcr | hcr
            · exact h2 c (List.mem_cons_of_mem _ hc) hcr
            · simp only [List.mem_singleton] at hcr
              subst hcr
              exact hnd'.1 hc)
          (by rw [hp1]; exact hnd'.2)
          (by
            rw [List.nodup_append]
            refine ⟨h4, by simp, ?_⟩
            intro a ha b hb
            simp only [List.mem_singleton] at hb
            subst hb
            intro hab; subst hab; exact hc0R ha)
        simp only [Option.toList, List.singleton_append, List.filterMap_cons, id_eq]
        have hassoc : R ++ c0 :: List.filterMap id os = (R ++ [c0]) ++ List.filterMap id os := by simp
        rw [hassoc]
        refine ⟨this.1, this.2.1, ?_⟩
        intro j c hj
        apply this.2.2 j c
        rw [hp1]; simp only [List.length_append, List.length_cons, List.length_nil, hp] at hj ⊢
        omega
      · rcases hcase with ⟨ho1, hex, _⟩ | ⟨c0, m0, ho1, hm0, hnin, _, _, _, hex⟩
        · -- `none`
          subst ho1
          have := ih s1 s' R os hrun (by rw [hex]; exact h1) (by rw [hp1]; simp) (by rw [hp1]; simp) h4
          simp only [Option.toList, List.singleton_append, List.filterMap_cons, id_eq]
          refine ⟨this.1, this.2.1, ?_⟩
          intro j c hj
          apply this.2.2 j c
          rw [hp1]; rw [hp] at hj; exact hj
        · -- a drawn configuration
          subst ho1
          have hexC := hex hnd
          clear hex
          have hc0R : c0 ∉ R := by
            intro hc
            obtain ⟨m, hm, hme⟩ := h1 c0 hc
            rw [hm0] at hm; injection hm with hm; subst hm
            exact hnin hme
          have := ih s1 s' (R ++ [c0]) os hrun
            (by
              intro c hc
              rcases List.mem_append.mp hc with hc | hc
              · obtain ⟨m, hm, hme⟩ := h1 c hc
                exact ⟨m, hm, by rw [hexC]; exact (mem_exclAdd _ _ _).mpr (Or.inr hme)⟩
              · simp only [List.mem_singleton] at hc
                subst hc
                exact ⟨m0, hm0, by rw [hexC]; exact (mem_exclAdd _ _ _).mpr (Or.inl rfl)⟩)
            (by rw [hp1]; simp) (by rw [hp1]; simp)
            (by
              rw [List.nodup_append]
              refine ⟨h4, by simp, ?_⟩
              intro a ha b hb
              simp only [List.mem_singleton] at hb
              subst hb
              intro hab; subst hab; exact hc0R ha)
          simp only [Option.toList, List.singleton_append, List.filterMap_cons, id_eq]
          have hassoc : R ++ c0 :: List.filterMap id os = (R ++ [c0]) ++ List.filterMap id os := by simp
          rw [hassoc]
          refine ⟨this.1, this.2.1, ?_⟩
          intro j c hj hc i c' hij hc'
          rw [hp] at hj
          by_cases hjR : j = R.length
          · -- the drawn configuration itself: fresh w.r.t. everything returned before
            subst hjR
            have hcc : c = c0 := by
              rw [List.getElem?_append_left (by simp)] at hc
              rw [List.getElem?_append_right (Nat.le_refl _)] at hc
              simpa using hc.symm
            subst hcc
            rw [List.getElem?_append_left (by simp; omega), List.getElem?_append_left hij] at hc'
            obtain ⟨m', hm', hme'⟩ := h1 c' (List.mem_of_getElem? hc')
            rw [hm', hm0]
            intro heq; injection heq with heq; subst heq
            exact hnin hme'
          · apply this.2.2 j c _ hc i c' hij hc'
            rw [hp1]; simp only [List.length_append, List.length_cons, List.length_nil] at hj ⊢
            omega
    · obtain ⟨ho, hp, _, _, hex⟩ := step_other imm tape s s1 op o hop hstep
      subst ho
      have hexD := (hex hnd).1
      have := ih s1 s' R os hrun (by rw [hexD]; exact h1) (by rw [hp]; exact h2) (by rw [hp]; exact h3) h4
      simp only [Option.toList, List.nil_append]
      refine ⟨this.1, this.2.1, ?_⟩
      intro j c hj
      apply this.2.2 j c
      rw [hp]; exact hj

/-- a match string that is in the exclusion set is never returned by a later random draw
(both for `allow_duplicates = False` — everything returned before — and `True` — the
configurations of failed trials), over arbitrary histories -/
theorem run_excluded_never_drawn (imm : RImm) (tape : Nat → Config) :
    ∀ (ops : List ROp) (s s' : RState) (outs : List (Option Config)) (m : String),
      RState.run imm tape s ops = .ok (s', outs) → s.p2e = [] → m ∈ s.excl →
      m ∈ s'.excl ∧ ∀ c ∈ outs.filterMap id, imm.mkf c ≠ .ok m := by
  intro ops
  induction ops with
  | nil =>
    intro s s' outs m h _ hm
    simp only [RState.run] at h
    injection h with h; injection h with ha hb
    subst ha; subst hb
    exact ⟨hm, by simp⟩
  | cons op ops ih =>
    intro s s' outs m h hp hm
    obtain ⟨s1, o, os, hstep, hrun, hout⟩ := run_cons imm tape s s' op ops outs h
    subst hout
    by_cases hop : op = .get
    · subst hop
      obtain ⟨o1, ho, hg⟩ := step_get imm tape s s1 o hstep
      subst ho
      rcases getConfig_cases imm s s1 _ o1 hg with ⟨c0, rest, hp', _⟩ | ⟨_, hp1, _, hcase⟩
      · rw [hp] at hp'; cases hp'
      · rcases hcase with ⟨ho1, hex, _⟩ | ⟨c0, m0, ho1, hm0, hnin, _, _, hexT, hexF⟩
        · subst ho1
          have := ih s1 s' os m hrun hp1 (by rw [hex]; exact hm)
          simpa using this
        · subst ho1
          have hm1 : m ∈ s1.excl := by
            cases hd : imm.allowDup with
            | true => rw [hexT hd]; exact hm
            | false => rw [hexF hd]; exact (mem_exclAdd _ _ _).mpr (Or.inr hm)
          have := ih s1 s' os m hrun hp1 hm1
          refine ⟨this.1, ?_⟩
          intro c hc
          simp only [Option.toList, List.singleton_append, List.filterMap_cons, id_eq, List.mem_cons] at hc
          rcases hc with rfl | hc
          · rw [hm0]; intro heq; injection heq with heq; subst heq; exact hnin hm
          · exact this.2 c hc
    · obtain ⟨ho, hp1, _, hsub, _⟩ := step_other imm tape s s1 op o hop hstep
      subst ho
      have := ih s1 s' os m hrun (by rw [hp1]; exact hp) (hsub m hm)
      simpa using this

/-- the exclusion set never holds a match string twice -/
theorem run_excl_nodup (imm : RImm) (tape : Nat → Config) :
    ∀ (ops : List ROp) (s s' : RState) (outs : List (Option Config)),
      RState.run imm tape s ops = .ok (s', outs) → s.excl.Nodup → s'.excl.Nodup := by
  intro ops
  induction ops with
  | nil =>
    intro s s' outs h hn
    simp only [RState.run] at h
    injection h with h; injection h with ha hb
    subst ha; exact hn
  | cons op ops ih =>
    intro s s' outs h hn
    obtain ⟨s1, o, os, hstep, hrun, _⟩ := run_cons imm tape s s' op ops outs h
    apply ih s1 s' os hrun
    cases op with
    | get =>
      obtain ⟨o1, _, hg⟩ := step_get imm tape s s1 o hstep
      rcases getConfig_cases imm s s1 _ o1 hg with ⟨c0, rest, _, _, _, _, _, hT, hF⟩ | ⟨_, _, _, hcase⟩
      · cases hd : imm.allowDup with
        | true => rw [hT hd]; exact hn
        | false => obtain ⟨m, _, he⟩ := hF hd; rw [he]; exact exclAdd_nodup _ _ hn
      · rcases hcase with ⟨_, hex, _⟩ | ⟨c0, m0, _, _, _, _, _, hT, hF⟩
        · rw [hex]; exact hn
        · cases hd : imm.allowDup with
          | true => rw [hT hd]; exact hn
          | false => rw [hF hd]; exact exclAdd_nodup _ _ hn
    | pending tid c =>
      simp only [RState.step] at hstep
      injection hstep with hstep; injection hstep with h1 _
      subst h1
      rw [(registerPending_fields imm s tid c).2.1]; exact hn
    | failed tid =>
      simp only [RState.step] at hstep
      cases hf : s.evaluationFailed imm tid with
      | error e => simp [hf] at hstep
      | ok s2 =>
        simp only [hf] at hstep
        injection hstep with hstep; injection hstep with h1 _
        subst h1
        rcases (evaluationFailed_spec imm s s2 tid hf).2.2.2 with d | ⟨_, m', _, _, _, d⟩
        · rw [d]; exact hn
        · rw [d]; exact exclAdd_nodup _ _ hn
    | result tid =>
      simp only [RState.step] at hstep
      injection hstep with hstep; injection hstep with h1 _
      subst h1; exact hn

/-! ### C16: states that differ only in the representation of the exclusion set -/

structure RState.Equiv (imm : RImm) (s t : RState) : Prop where
  p2e : s.p2e = t.p2e
  rng : s.rng = t.rng
  excl : s.excl.Perm t.excl
  cfgFor : imm.allowDup = true → s.cfgFor = t.cfgFor

theorem sampleLoop_congr (mk : MK) (excl excl' : List String) (draw : Nat → Config)
    (h : ∀ m, m ∈ excl ↔ m ∈ excl') :
    ∀ fuel i, sampleLoop mk excl draw fuel i = sampleLoop mk excl' draw fuel i := by
  intro fuel
  induction fuel with
  | zero => intro i; rfl
  | succ fuel ih =>
    intro i
    simp only [sampleLoop]
    cases hm : mk (draw i) with
    | error e => rfl
    | ok m =>
      simp only
      by_cases hin : m ∈ excl
      · have hin' := (h m).mp hin
        simp only [hin, hin', if_true]; exact ih (i + 1)
      · have hin' : m ∉ excl' := fun c => hin ((h m).mpr c)
        simp only [hin, hin', if_false]

theorem exhausted_congr (size : Option Nat) (excl excl' : List String) (h : excl.Perm excl') :
    exhausted size excl = exhausted size excl' := by
  unfold exhausted; rw [h.length_eq]

/-- result of a step on equivalent states: equal outputs and equivalent states, or equal errors -/
def RelE {β} (imm : RImm) (a b : Except Err (RState × β)) : Prop :=
  match a, b with
  | .ok (s1, o1), .ok (t1, o2) => o1 = o2 ∧ RState.Equiv imm s1 t1
  | .error e1, .error e2 => e1 = e2
  | _, _ => False

theorem finish_equiv (imm : RImm) (s t : RState) (he : RState.Equiv imm s t) (r : Option Config) :
    RelE imm (RState.finish imm s r) (RState.finish imm t r) := by
  unfold RState.finish
  cases r with
  | none => exact ⟨rfl, he⟩
  | some c =>
    simp only
    cases hd : imm.allowDup with
    | true => simp only [if_true]; exact ⟨rfl, he⟩
    | false =>
      simp only [Bool.false_eq_true, if_false]
      unfold exclAddConfig
      cases hm : imm.mkf c with
      | error e => exact rfl
      | ok m =>
        exact ⟨rfl, ⟨he.p2e, he.rng, exclAdd_perm m _ _ he.excl, he.cfgFor⟩⟩

theorem getConfig_equiv (imm : RImm) (s t : RState) (he : RState.Equiv imm s t) (draw : Nat → Config) :
    RelE imm (s.getConfig imm draw) (t.getConfig imm draw) := by
  unfold RState.getConfig
  rw [← he.p2e]
  cases hp : s.p2e with
  | cons c rest =>
    simp only
    refine finish_equiv imm _ _ ?_ (some c)
    exact ⟨rfl, he.rng, he.excl, he.cfgFor⟩
  | nil =>
    simp only
    unfold RState.randomConfig
    rw [← exhausted_congr imm.size _ _ he.excl,
        ← sampleLoop_congr imm.mkf _ _ draw (fun m => he.excl.mem_iff) imm.maxRetries 0]
    cases hex : exhausted imm.size s.excl with
    | true =>
      simp only [if_true]
      refine finish_equiv imm _ _ ?_ none
      exact ⟨rfl, by simp [he.rng], he.excl, he.cfgFor⟩
    | false =>
      simp only [Bool.false_eq_true, if_false]
      cases hl : sampleLoop imm.mkf s.excl draw imm.maxRetries 0 with
      | error e => exact rfl
      | ok rn =>
        obtain ⟨r, n⟩ := rn
        simp only
        refine finish_equiv imm _ _ ?_ r
        exact ⟨rfl, by simp [he.rng], he.excl, he.cfgFor⟩

theorem step_equiv (imm : RImm) (tape : Nat → Config) (s t : RState) (he : RState.Equiv imm s t)
    (op : ROp) : RelE imm (RState.step imm tape s op) (RState.step imm tape t op) := by
  cases op with
  | get =>
    simp only [RState.step]
    have := getConfig_equiv imm s t he (fun i => tape (s.rng + i))
    rw [← he.rng]
    revert this
    cases hs : s.getConfig imm (fun i => tape (s.rng + i)) with
    | error e =>
      cases ht : t.getConfig imm (fun i => tape (s.rng + i)) with
      | error e' => intro h; exact h
      | ok r => intro h; exact h.elim
    | ok r =>
      obtain ⟨s1, o1⟩ := r
      cases ht : t.getConfig imm (fun i => tape (s.rng + i)) with
      | error e' => intro h; exact h.elim
      | ok r' =>
        obtain ⟨t1, o2⟩ := r'
        intro h
        exact ⟨by rw [h.1], h.2⟩
  | pending tid c =>
    simp only [RState.step]
    refine ⟨rfl, ?_⟩
    unfold RState.registerPending
    cases hd : imm.allowDup with
    | false => simp only [Bool.false_eq_true, false_and, if_false]; exact he
    | true =>
      have hc := he.cfgFor hd
      simp only [true_and, hc]
      split
      · cases c with
        | none => exact he
        | some cfg => exact ⟨he.p2e, he.rng, he.excl, fun _ => rfl⟩
      · exact he
  | failed tid =>
    simp only [RState.step]
    unfold RState.evaluationFailed
    cases hd : imm.allowDup with
    | false => simp only [Bool.false_eq_true, if_false]; exact ⟨rfl, he⟩
    | true =>
      have hc := he.cfgFor hd
      simp only [if_true, hc]
      cases hl : alookup tid t.cfgFor with
      | none => exact ⟨rfl, he⟩
      | some cfg =>
        simp only
        unfold exclAddConfig
        cases hm : imm.mkf cfg with
        | error e => exact rfl
        | ok m => exact ⟨rfl, ⟨he.p2e, he.rng, exclAdd_perm m _ _ he.excl, fun _ => rfl⟩⟩
  | result tid =>
    simp only [RState.step]
    exact ⟨rfl, he⟩

/-- equivalent states produce equal outputs (and equal errors) for EVERY continuation -/
theorem run_equiv (imm : RImm) (tape : Nat → Config) :
    ∀ (ops : List ROp) (s t : RState), RState.Equiv imm s t →
      RelE imm (RState.run imm tape s ops) (RState.run imm tape t ops) := by
  intro ops
  induction ops with
  | nil => intro s t he; exact ⟨rfl, he⟩
  | cons op ops ih =>
    intro s t he
    have hs := step_equiv imm tape s t he op
    simp only [RState.run]
    revert hs
    cases h1 : RState.step imm tape s op with
    | error e =>
      cases h2 : RState.step imm tape t op with
      | error e' => intro h; exact h
      | ok r => intro h; exact h.elim
    | ok r =>
      obtain ⟨s1, o1⟩ := r
      cases h2 : RState.step imm tape t op with
      | error e' => intro h; exact h.elim
      | ok r' =>
        obtain ⟨t1, o2⟩ := r'
        intro h
        obtain ⟨ho, he1⟩ := h
        subst ho
        have := ih s1 t1 he1
        simp only
        revert this
        cases h3 : RState.run imm tape s1 ops with
        | error e =>
          cases h4 : RState.run imm tape t1 ops with
          | error e' => intro h; exact h
          | ok r => intro h; exact h.elim
        | ok r =>
          obtain ⟨s2, os⟩ := r
          cases h4 : RState.run imm tape t1 ops with
          | error e' => intro h; exact h.elim
          | ok r' =>
            obtain ⟨t2, os'⟩ := r'
            intro h
            exact ⟨by rw [h.1], h.2⟩

theorem eraseDups_of_nodup (l : List String) (h : l.Nodup) : l.eraseDups = l := by
  induction l with
  | nil => simp
  | cons a l ih =>
    rw [List.eraseDups_cons]
    have hn := List.nodup_cons.mp h
    have : List.filter (fun b => !b == a) l = l := by
      rw [List.filter_eq_self]
      intro b hb
      have : b ≠ a := fun e => hn.1 (e ▸ hb)
      simp [this]
    rw [this, ih hn.2]

/-- `clone_from_state(get_state())`: the clone exists and is equivalent to the original, for
every order in which the set of match strings is listed in the snapshot -/
theorem clone_equiv (imm : RImm) (s : RState) (keys order : List String)
    (hn : s.excl.Nodup) (hp : order.Perm s.excl) :
    ∃ t, RState.clone imm (s.getState imm keys order) = .ok t ∧ RState.Equiv imm s t := by
  have hno : order.Nodup := hp.symm.nodup hn
  unfold RState.clone RState.getState
  simp only [eraseDups_of_nodup order hno]
  cases hd : imm.allowDup with
  | true =>
    simp only [if_true]
    exact ⟨_, rfl, ⟨rfl, rfl, hp.symm, fun _ => rfl⟩⟩
  | false =>
    simp only [Bool.false_eq_true, if_false]
    exact ⟨_, rfl, ⟨rfl, rfl, hp.symm, fun h => by rw [hd] at h; cases h⟩⟩

end SyneTune.Srch
