import SyneTune.Lemmas.DomainsSample
/- C07 helper lemmas: composition over the hyperparameters of a space (`HyperparameterRangesImpl`). -/
namespace SyneTune.Dom
open SyneTune

theorem lookupS_mem {β} {k : String} {l : List (String × β)} {v : β} (h : lookupS k l = some v) :
    (k, v) ∈ l := by
  induction l with
  | nil => simp [lookupS] at h
  | cons a as ih =>
    obtain ⟨k', v'⟩ := a
    unfold lookupS at h
    by_cases hk : k = k'
    · simp only [hk, if_true, Option.some.injEq] at h
      subst h; subst hk; simp
    · simp only [hk, if_false] at h
      exact List.mem_cons_of_mem _ (ih h)

/-- every entry of a constructed space is the encoder of one hyperparameter of that name -/
theorem mkEntries_spec {env : Env} {c : Consts} {hps : List HP} {keys : List String}
    {es : List (String × Range)} (h : mkEntries env c hps keys = .ok es) :
    List.Forall₂ (fun k e => e.1 = k ∧ ∃ hp ∈ hps, hp.name = k ∧ mkRange env c hp = .ok e.2) keys es := by
  induction keys generalizing es with
  | nil =>
    simp only [mkEntries] at h
    injection h with h; subst h; exact List.Forall₂.nil
  | cons k ks ih =>
    unfold mkEntries at h
    split at h
    · cases h
    · rename_i hp hlk
      split at h
      · rename_i r rest hr hrest
        injection h with h; subst h
        refine List.Forall₂.cons ⟨rfl, hp, ?_, ?_, hr⟩ (ih hrest)
        · have := lookupS_mem hlk
          simp only [List.mem_map] at this
          obtain ⟨hp', hm, he⟩ := this
          injection he with _ he2
          subst he2; exact hm
        · have := lookupS_mem hlk
          simp only [List.mem_map] at this
          obtain ⟨hp', hm, he⟩ := this
          injection he with he1 he2
          subst he2; exact he1
      · cases h
      · cases h

theorem mkSpace_spec {env : Env} {c : Consts} {hps : List HP} {pk : Option (List String)}
    {nl : Option String} {vl : Option Val} {sp : Space} (h : mkSpace env c hps pk nl vl = .ok sp) :
    ∀ e ∈ sp.entries, ∃ hp ∈ hps, hp.name = e.1 ∧ mkRange env c hp = .ok e.2 := by
  unfold mkSpace at h
  split at h
  · cases h
  · rename_i keys hkeys
    split at h
    · rename_i es hes
      injection h with h; subst h
      have := mkEntries_spec hes
      intro e he
      simp only at he
      clear hkeys hes
      induction this with
      | nil => simp at he
      | cons hd _ ih =>
        rcases List.mem_cons.mp he with rfl | he
        · obtain ⟨h1, hp, hm, hn, hr⟩ := hd
          exact ⟨hp, hm, by rw [hn, h1], hr⟩
        · exact ih he
    · cases h

/-- decoding a whole vector: if every encoder maps every admissible slice into a value satisfying
`P`, the decoded configuration lists the hyperparameters in internal order with values
satisfying `P`. `Q` is the admissibility of a coordinate. -/
theorem decodeAll_spec {env : Env} {c : Consts} {Q : ℚ → Prop} {P : String → Range → Val → Prop}
    (entries : List (String × Range))
    (hP : ∀ e ∈ entries, ∀ xs : List ℚ, xs.length = e.2.size → (∀ x ∈ xs, Q x) →
      ∃ v, e.2.decode env c xs = .ok v ∧ P e.1 e.2 v)
    (xs : List ℚ) (hlen : xs.length = (entries.map (fun e => e.2.size)).sum) (hx : ∀ x ∈ xs, Q x) :
    ∃ cfg, decodeAll env c entries xs = .ok cfg ∧
      List.Forall₂ (fun e kv => kv.1 = e.1 ∧ P e.1 e.2 kv.2) entries cfg := by
  induction entries generalizing xs with
  | nil => exact ⟨[], rfl, List.Forall₂.nil⟩
  | cons e es ih =>
    obtain ⟨k, r⟩ := e
    simp only [List.map_cons, List.sum_cons] at hlen
    have h1 : (xs.take r.size).length = r.size := by rw [List.length_take]; omega
    obtain ⟨v, hv, hpv⟩ := hP (k, r) (by simp) (xs.take r.size) h1
      (fun x hx' => hx x (List.mem_of_mem_take hx'))
    obtain ⟨cfg, hcfg, hall⟩ := ih (fun e he => hP e (List.mem_cons_of_mem _ he)) (xs.drop r.size)
      (by rw [List.length_drop]; omega) (fun x hx' => hx x (List.mem_of_mem_drop hx'))
    refine ⟨(k, v) :: cfg, ?_, List.Forall₂.cons ⟨rfl, hpv⟩ hall⟩
    simp only [decodeAll]
    simp only at hv
    rw [hv, hcfg]

/-- encoding a configuration: length and cube membership from the per-encoder facts -/
theorem encodeAll_spec {env : Env} {c : Consts} (entries : List (String × Range))
    (hE : ∀ e ∈ entries, ∀ v xs, e.2.encode env c v = .ok xs → xs.length = e.2.size ∧ ∀ x ∈ xs, 0 ≤ x ∧ x ≤ 1)
    {cfg : Config} {xs : List ℚ} (h : encodeAll env c entries cfg = .ok xs) :
    xs.length = (entries.map (fun e => e.2.size)).sum ∧ ∀ x ∈ xs, 0 ≤ x ∧ x ≤ 1 := by
  induction entries generalizing xs with
  | nil =>
    simp only [encodeAll] at h
    injection h with h; subst h; simp
  | cons e es ih =>
    obtain ⟨k, r⟩ := e
    unfold encodeAll at h
    split at h
    · cases h
    · rename_i v hv
      split at h
      · rename_i ys zs hy hz
        injection h with h; subst h
        obtain ⟨l1, c1⟩ := hE (k, r) (by simp) v ys hy
        obtain ⟨l2, c2⟩ := ih (fun e he => hE e (List.mem_cons_of_mem _ he)) hz
        refine ⟨by simp [l1, l2], ?_⟩
        intro x hx
        rcases List.mem_append.mp hx with hx | hx
        · exact c1 x hx
        · exact c2 x hx
      · cases h
      · cases h

/-- round trip of a whole configuration from the per-encoder round trips: `M k r v` says that `v`
is a value the encoder `r` of hyperparameter `k` round-trips -/
theorem roundtripAll_spec {env : Env} {c : Consts} {M : String → Range → Val → Prop}
    (entries : List (String × Range))
    (hR : ∀ e ∈ entries, ∀ v, M e.1 e.2 v →
      ∃ xs, e.2.encode env c v = .ok xs ∧ xs.length = e.2.size ∧ e.2.decode env c xs = .ok v)
    (cfg : Config) (hcfg : ∀ e ∈ entries, ∃ v, lookupS e.1 cfg = some v ∧ M e.1 e.2 v) :
    ∃ xs, encodeAll env c entries cfg = .ok xs ∧
      xs.length = (entries.map (fun e => e.2.size)).sum ∧
      ∃ out, decodeAll env c entries xs = .ok out ∧
        List.Forall₂ (fun e kv => kv.1 = e.1 ∧ lookupS e.1 cfg = some kv.2) entries out := by
  induction entries with
  | nil => exact ⟨[], rfl, rfl, [], rfl, List.Forall₂.nil⟩
  | cons e es ih =>
    obtain ⟨k, r⟩ := e
    obtain ⟨v, hv, hm⟩ := hcfg (k, r) (by simp)
    obtain ⟨ys, hy, hyl, hyd⟩ := hR (k, r) (by simp) v hm
    obtain ⟨zs, hz, hzl, out, hout, hall⟩ := ih (fun e he => hR e (List.mem_cons_of_mem _ he))
      (fun e he => hcfg e (List.mem_cons_of_mem _ he))
    refine ⟨ys ++ zs, ?_, by simp [hyl, hzl], (k, v) :: out, ?_, List.Forall₂.cons ⟨rfl, hv⟩ hall⟩
    · simp only [encodeAll]
      simp only at hv hy
      rw [hv]
      simp only [hy, hz]
    · simp only [decodeAll]
      simp only at hyl hyd
      rw [← hyl, List.take_left, List.drop_left, hyd, hout]

end SyneTune.Dom
