import SyneTune.Model.DyHPO
import SyneTune.Lemmas.C14CompDefs
/-
DyHPO on top of the Hyperband scheduler model: the operation type `DOp` (the operations of
`C04K.SOp` plus `suggestDy`), the scheduler alone (`stepD`, `runD`), and composed with the
searcher's data bookkeeping (`stepCD`, `runCD`), with the operation contract `OpOKD`.
Definitions only; the old operations delegate to `C04K.stepS` / `C14Comp.stepC`.
(Not under `Model/` because `SOp`, `stepS`, `Sys`, `stepC` live in files which import Mathlib.)
-/
namespace SyneTune.DyHPO
open SyneTune SyneTune.C04K SyneTune.C14 SyneTune.C14Comp

/-- the public operations of a `HyperbandScheduler(type="dyhpo")`: those of `SOp`, and
`_suggest` going through `DyHPORungSystem.on_task_schedule` -/
inductive DOp
  | old (op : SOp)
  | suggestDy (newTid bracket : Nat) (sh : Bool) (hint : Option Nat) (pick : Option Nat)

/-- scheduler state after an operation; an operation the model rejects leaves it unchanged -/
def stepD (s : Sched) : DOp → Sched
  | .old op => stepS s op
  | .suggestDy n b sh h p => match s.suggestDy n b sh h p with | .ok res => res.1 | .error _ => s

def runD (s : Sched) (ops : List DOp) : Sched := ops.foldl stepD s

/-- new scheduler state and the searcher calls issued, in order (`C14Comp.opStep`) -/
def opStepD (s : Sched) : DOp → Sched × List SCall
  | .old op => opStep s op
  | .suggestDy n b sh h p =>
    match s.suggestDy n b sh h p with | .ok res => (res.1, res.2.2.1) | .error _ => (s, [])

/-- one step of the composed system (`C14Comp.stepC`): the calls are applied to the searcher
state in order; an operation rejected by either side leaves the state unchanged -/
def stepCD (y : Sys) : DOp → Sys
  | .old op => stepC y op
  | .suggestDy n b sh h p =>
    match y.st.applyAll (opStepD y.sched (.suggestDy n b sh h p)).2 with
    | .ok st' => { sched := (opStepD y.sched (.suggestDy n b sh h p)).1, st := st' }
    | .error _ => y

def runCD (y : Sys) (ops : List DOp) : Sys := ops.foldl stepCD y

/-- the contract of the operation stream: `C14Comp.OpOK` for the old operations; like
`suggest`, `suggestDy` needs nothing -/
def OpOKD (y : Sys) : DOp → Prop
  | .old op => OpOK y op
  | .suggestDy _ _ _ _ _ => True

instance (y : Sys) (op : DOp) : Decidable (OpOKD y op) :=
  match op with
  | .old op => (inferInstance : Decidable (OpOK y op))
  | .suggestDy _ _ _ _ _ => isTrue trivial

/-- the contract evaluated along a run -/
def OpsOKD : Sys → List DOp → Prop
  | _, [] => True
  | y, op :: ops => OpOKD y op ∧ OpsOKD (stepCD y op) ops

instance instDecidableOpsOKD : (y : Sys) → (ops : List DOp) → Decidable (OpsOKD y ops)
  | _, [] => isTrue trivial
  | y, op :: ops =>
    have := instDecidableOpsOKD (stepCD y op) ops
    (inferInstance : Decidable (OpOKD y op ∧ OpsOKD (stepCD y op) ops))

end SyneTune.DyHPO
