import SyneTune.Lemmas.TunerKInv
/-
Checkpoints (C20, loop side): a checkpoint is only deleted after the scheduler's STOP of the
trial, when the scheduler named the trial as removable, or in the final sweep of `stop_all`;
hence a trial that is resumed, or the source of a warm start, still has its checkpoint —
provided the scheduler does not name / stop what it later needs.
-/
namespace SyneTune.Tuner
open SyneTune AL

/-- **contract K (removable part)**: the scheduler never resumes a trial it has named in
`trials_checkpoints_can_be_removed`. -/
def K2Ok (s : LState) (a : Ans) : Prop :=
  s.pc = .suggest → ∀ id cfg, a = .sugg (.resume id cfg) → id ∉ s.removableSaid

/-- the scheduler does not warm-start from a trial it has stopped or named removable
(for PBT: the clone source is not stopped between the decision and the next `suggest`). -/
def SrcOk (s : LState) (a : Ans) : Prop :=
  s.pc = .suggest → ∀ cfg src, a = .sugg (.start cfg (some src)) → src ∉ s.schedStopped ∧ src ∉ s.removableSaid

structure YInv (s : LState) : Prop where
  y1 : finPc s.pc = false → ∀ t ∈ s.deleted, t ∈ s.schedStopped ∨ t ∈ s.removableSaid ∨ (s.pc = .removeS ∧ t = s.cur.tid)
  y2 : (s.pc = .delNext ∨ s.pc = .delRem) → ∀ t ∈ s.dels, t ∈ s.removableSaid
  y2' : s.pc = .delRem → s.t ∈ s.removableSaid
  y3 : s.pc = .resumeCmd → s.sId ∉ s.removableSaid
  y4 : (s.pc = .startCmd ∨ s.pc = .copyCmd) → ∀ src, s.sCkpt = some src → src ∉ s.schedStopped ∧ src ∉ s.removableSaid

/-- control points with a register clause of `YInv` -/
def yPc : Pc → Bool
  | .delNext | .delRem | .resumeCmd | .startCmd | .copyCmd | .removeS => true
  | _ => false

/-- a step that leaves `deleted`, `schedStopped`, `removableSaid` alone and reaches a control
point without register clause -/
theorem YInv.move {s s' : LState} (h : YInv s) (hd : s'.deleted = s.deleted) (hss : s'.schedStopped = s.schedStopped)
    (hrs : s'.removableSaid = s.removableSaid) (hy : yPc s'.pc = false) (hf : finPc s.pc = false)
    (hnr : s.pc ≠ .removeS) : YInv s' := by
  have hne : ∀ {p : Pc}, yPc p = true → s'.pc ≠ p := fun hpp hc => by rw [hc, hpp] at hy; cases hy
  refine ⟨fun _ t ht => ?_, fun hc => ?_, fun hc => absurd hc (hne rfl), fun hc => absurd hc (hne rfl), fun hc => ?_⟩
  · rw [hd] at ht; rw [hss, hrs]
    rcases h.y1 hf t ht with h1 | h1 | h1
    · exact Or.inl h1
    · exact Or.inr (Or.inl h1)
    · exact absurd h1.1 hnr
  · rcases hc with hc | hc <;> exact absurd hc (hne rfl)
  · rcases hc with hc | hc <;> exact absurd hc (hne rfl)

/-- a state of the `finally` block -/
theorem YInv.fin {s' : LState} (hf : finPc s'.pc = true) : YInv s' := by
  have hne : ∀ {p : Pc}, finPc p = false → s'.pc ≠ p := fun hpp hc => by rw [hc, hpp] at hf; cases hf
  refine ⟨(fun hc => by rw [hf] at hc; cases hc), fun hc => ?_, fun hc => absurd hc (hne rfl),
    fun hc => absurd hc (hne rfl), fun hc => ?_⟩
  · rcases hc with hc | hc <;> exact absurd hc (hne rfl)
  · rcases hc with hc | hc <;> exact absurd hc (hne rfl)

/-- towards `on_trial_remove` after a STOP (possibly with the checkpoint just deleted) -/
theorem YInv.toRemoveS {s s' : LState} (h : YInv s) (hp : s.pc = .stopCmd ∨ s.pc = .stopDel ∨ s.pc = .cbResult)
    (hp' : s'.pc = .removeS) (hc : s'.cur.tid = s.cur.tid)
    (hd : s'.deleted = s.deleted ∨ s'.deleted = s.cur.tid :: s.deleted) (hss : s'.schedStopped = s.schedStopped)
    (hrs : s'.removableSaid = s.removableSaid) : YInv s' := by
  have hf : finPc s.pc = false := by rcases hp with hp | hp | hp <;> rw [hp] <;> rfl
  have hnr : s.pc ≠ .removeS := by rcases hp with hp | hp | hp <;> rw [hp] <;> exact pcne rfl
  refine ⟨fun _ t ht => ?_, fun hcc => ?_, (fun hcc => by rw [hp'] at hcc; cases hcc),
    (fun hcc => by rw [hp'] at hcc; cases hcc), fun hcc => ?_⟩
  · rw [hss, hrs]
    have old : t ∈ s.deleted → t ∈ s.schedStopped ∨ t ∈ s.removableSaid ∨ s'.pc = Pc.removeS ∧ t = s'.cur.tid := by
      intro ht'
      rcases h.y1 hf t ht' with h1 | h1 | h1
      · exact Or.inl h1
      · exact Or.inr (Or.inl h1)
      · exact absurd h1.1 hnr
    rcases hd with hd | hd
    · rw [hd] at ht; exact old ht
    · rw [hd] at ht
      rcases List.mem_cons.mp ht with h1 | h1
      · exact Or.inr (Or.inr ⟨hp', by rw [hc]; exact h1⟩)
      · exact old h1
  · rcases hcc with hcc | hcc <;> (rw [hp'] at hcc; cases hcc)
  · rcases hcc with hcc | hcc <;> (rw [hp'] at hcc; cases hcc)

/-- `on_trial_remove` after a STOP returned: the trial is in `trials_scheduler_stopped` -/
theorem YInv.removedS {s s' : LState} (h : YInv s) (hp : s.pc = .removeS) (hy : yPc s'.pc = false)
    (hd : s'.deleted = s.deleted) (hss : s'.schedStopped = sadd s.cur.tid s.schedStopped)
    (hrs : s'.removableSaid = s.removableSaid) : YInv s' := by
  have hne : ∀ {p : Pc}, yPc p = true → s'.pc ≠ p := fun hpp hc => by rw [hc, hpp] at hy; cases hy
  refine ⟨fun _ t ht => ?_, fun hc => ?_, fun hc => absurd hc (hne rfl), fun hc => absurd hc (hne rfl), fun hc => ?_⟩
  · rw [hd] at ht; rw [hss, hrs]
    rcases h.y1 (by rw [hp]; rfl) t ht with h1 | h1 | h1
    · exact Or.inl ((mem_sadd _ _ _).mpr (Or.inr h1))
    · exact Or.inr (Or.inl h1)
    · exact Or.inl ((mem_sadd _ _ _).mpr (Or.inl h1.2))
  · rcases hc with hc | hc <;> exact absurd hc (hne rfl)
  · rcases hc with hc | hc <;> exact absurd hc (hne rfl)

/-- the scheduler has named the removable checkpoints -/
theorem YInv.named {s : LState} (h : YInv s) (hp : s.pc = .removable) (l : List Nat) :
    YInv { s with dels := l, removableSaid := l ++ s.removableSaid, pc := .delNext } := by
  refine ⟨fun _ t ht => ?_, fun _ t ht => List.mem_append_left _ ht, (fun hc => nomatch hc), (fun hc => nomatch hc),
    fun hc => ?_⟩
  · rcases h.y1 (by rw [hp]; rfl) t ht with h1 | h1 | h1
    · exact Or.inl h1
    · exact Or.inr (Or.inl (List.mem_append_right _ h1))
    · rw [hp] at h1; exact nomatch h1.1
  · rcases hc with hc | hc <;> cases hc

theorem YInv.nextDel {s : LState} (h : YInv s) (hp : s.pc = .delNext) (t : Nat) (rest : List Nat)
    (hd : s.dels = t :: rest) : YInv { s with pc := .delRem, t := t, dels := rest } := by
  have h2 := h.y2 (Or.inl hp)
  rw [hd] at h2
  refine ⟨fun _ u hu => ?_, fun _ u hu => h2 u (List.mem_cons_of_mem _ hu), fun _ => h2 t List.mem_cons_self,
    (fun hc => nomatch hc), fun hc => ?_⟩
  · rcases h.y1 (by rw [hp]; rfl) u hu with h1 | h1 | h1
    · exact Or.inl h1
    · exact Or.inr (Or.inl h1)
    · rw [hp] at h1; exact nomatch h1.1
  · rcases hc with hc | hc <;> cases hc

theorem YInv.delDone {s : LState} (h : YInv s) (hp : s.pc = .delRem) :
    YInv { s with pc := .delNext, deleted := s.t :: s.deleted } := by
  refine ⟨fun _ u hu => ?_, fun _ => h.y2 (Or.inr hp), (fun hc => nomatch hc), (fun hc => nomatch hc), fun hc => ?_⟩
  · rcases List.mem_cons.mp hu with h1 | h1
    · rw [h1]; exact Or.inr (Or.inl (h.y2' hp))
    · rcases h.y1 (by rw [hp]; rfl) u h1 with h2 | h2 | h2
      · exact Or.inl h2
      · exact Or.inr (Or.inl h2)
      · rw [hp] at h2; exact nomatch h2.1
  · rcases hc with hc | hc <;> cases hc

/-- a suggestion to start (maybe from a checkpoint) or to resume -/
theorem YInv.suggested {s s' : LState} (h : YInv s) (hp : s.pc = .suggest) (hd : s'.deleted = s.deleted)
    (hss : s'.schedStopped = s.schedStopped) (hrs : s'.removableSaid = s.removableSaid)
    (hp' : s'.pc = .startCmd ∨ s'.pc = .resumeCmd)
    (h3 : s'.pc = .resumeCmd → s'.sId ∉ s.removableSaid)
    (h4 : s'.pc = .startCmd → ∀ src, s'.sCkpt = some src → src ∉ s.schedStopped ∧ src ∉ s.removableSaid) : YInv s' := by
  refine ⟨fun _ t ht => ?_, fun hc => ?_, fun hc => ?_, fun hc => by rw [hrs]; exact h3 hc, fun hc => ?_⟩
  · rw [hd] at ht; rw [hss, hrs]
    rcases h.y1 (by rw [hp]; rfl) t ht with h1 | h1 | h1
    · exact Or.inl h1
    · exact Or.inr (Or.inl h1)
    · rw [hp] at h1; exact nomatch h1.1
  · rcases hc with hc | hc <;> rcases hp' with hp' | hp' <;> (rw [hp'] at hc; cases hc)
  · rcases hp' with hp' | hp' <;> (rw [hp'] at hc; cases hc)
  · rcases hc with hc | hc
    · rw [hss, hrs]; exact h4 hc
    · rcases hp' with hp' | hp' <;> (rw [hp'] at hc; cases hc)

theorem YInv.toCopy {s : LState} (h : YInv s) (hp : s.pc = .startCmd) : YInv { s with pc := .copyCmd } := by
  refine ⟨fun _ t ht => ?_, fun hc => ?_, (fun hc => nomatch hc), (fun hc => nomatch hc), fun _ => h.y4 (Or.inl hp)⟩
  · rcases h.y1 (by rw [hp]; rfl) t ht with h1 | h1 | h1
    · exact Or.inl h1
    · exact Or.inr (Or.inl h1)
    · rw [hp] at h1; exact nomatch h1.1
  · rcases hc with hc | hc <;> cases hc


theorem addRow_deleted (s : LState) : (addRow s).deleted = s.deleted := by unfold addRow; split <;> rfl
theorem addRow_rs (s : LState) : (addRow s).removableSaid = s.removableSaid := by unfold addRow; split <;> rfl
theorem addRow_ss' (s : LState) : (addRow s).schedStopped = s.schedStopped := by unfold addRow; split <;> rfl
theorem addRow_cur' (s : LState) : (addRow s).cur = s.cur := by unfold addRow; split <;> rfl
theorem scheduled_deleted (s : LState) (t : Nat) : (scheduled s t).deleted = s.deleted := by
  unfold scheduled addRunning; split <;> rfl
theorem scheduled_rs (s : LState) (t : Nat) : (scheduled s t).removableSaid = s.removableSaid := by
  unfold scheduled addRunning; split <;> rfl
theorem scheduled_ss (s : LState) (t : Nat) : (scheduled s t).schedStopped = s.schedStopped := by
  unfold scheduled addRunning; split <;> rfl

theorem YInv.secondItem {s : LState} (h : YInv s) (hp : s.pc = .second) (t : Nat) (st : St) (rest : List (Nat × St)) :
    YInv (secondItem s t st rest) := by
  unfold Tuner.secondItem
  repeat' split
  all_goals first
    | exact h.move rfl rfl rfl (by show yPc s.pc = false; rw [hp]; rfl) (by rw [hp]; rfl) (by rw [hp]; exact pcne rfl)
    | exact h.move rfl rfl rfl rfl (by rw [hp]; rfl) (by rw [hp]; exact pcne rfl)

theorem YInv.afterUpdate {s : LState} (h : YInv s) (hp : s.pc = .afterUpd) : YInv (afterUpdate s) := by
  refine h.move rfl rfl rfl ?_ (by rw [hp]; rfl) (by rw [hp]; exact pcne rfl)
  rcases afterUpdate_pc s with hh | hh | hh <;> rw [hh] <;> rfl

theorem YInv_next (s : LState) (a : Ans) (h : YInv s) (hK2 : K2Ok s a) (hSrc : SrcOk s a) : YInv (next s a) := by
  unfold next
  split
  all_goals (rename_i hpc)
  all_goals (try simp only [])
  all_goals (repeat' split)
  all_goals first
    | exact YInv.fin rfl
    | exact h
    | exact h.secondItem hpc _ _ _
    | exact h.afterUpdate hpc
    | exact h.toRemoveS (Or.inl hpc) rfl rfl (Or.inl rfl) rfl rfl
    | exact h.toRemoveS (Or.inr (Or.inl hpc)) rfl rfl (Or.inr rfl) rfl rfl
    | exact h.toRemoveS (Or.inr (Or.inr hpc)) rfl (by show (addRow s).cur.tid = _; rw [addRow_cur']) (Or.inl (addRow_deleted s))
        (addRow_ss' s) (addRow_rs s)
    | exact h.removedS hpc rfl rfl rfl rfl
    | exact h.named hpc _
    | exact h.nextDel hpc _ _ (by assumption)
    | exact h.delDone hpc
    | exact h.suggested hpc rfl rfl rfl (Or.inl rfl) (fun hc => nomatch hc) (fun _ src hs => hSrc hpc _ src (by rw [← hs]))
    | exact h.suggested hpc rfl rfl rfl (Or.inr rfl) (fun _ => hK2 hpc _ _ rfl) (fun hc => nomatch hc)
    | exact h.toCopy hpc
    | exact h.move rfl rfl rfl rfl (by rw [hpc]; rfl) (by rw [hpc]; exact pcne rfl)
    | exact h.move (addRow_deleted s) (addRow_ss' s) (addRow_rs s) rfl (by rw [hpc]; rfl) (by rw [hpc]; exact pcne rfl)
    | exact h.move (scheduled_deleted _ _) (scheduled_ss _ _) (scheduled_rs _ _) rfl (by rw [hpc]; rfl) (by rw [hpc]; exact pcne rfl)
    | exact h.move rfl rfl rfl (by show yPc s.pc = false; rw [hpc]; rfl) (by rw [hpc]; rfl) (by rw [hpc]; exact pcne rfl)

theorem YInv_step (s : LState) (a : Ans) (h : YInv s) (hK2 : K2Ok s a) (hSrc : SrcOk s a) : YInv (step s a) :=
  step_of_next (P := YInv) (fun _ _ h => ⟨h.y1, h.y2, h.y2', h.y3, h.y4⟩) s a (YInv_next s a h hK2 hSrc)

theorem YInv_init (c : Cfg) : YInv (init c) :=
  ⟨(fun _ t ht => by simp [init] at ht), (fun hc => by rcases hc with hc | hc <;> cases hc), (fun hc => nomatch hc),
   (fun hc => nomatch hc), (fun hc => by rcases hc with hc | hc <;> cases hc)⟩

theorem YInv_run (c : Cfg) (as : List Ans) (hK2 : Along K2Ok (init c) as) (hSrc : Along SrcOk (init c) as) :
    YInv (run (init c) as) :=
  run_inv_along (Inv := YInv) (P := fun s a => K2Ok s a ∧ SrcOk s a) (fun s a h hp => YInv_step s a h hp.1 hp.2)
    as (init c) (YInv_init c) (Along.and hK2 hSrc)

/-! how the two `delete_checkpoint` calls of `stop_trial` are reached -/

theorem stopDel_from (s : LState) (a : Ans) (hp : s.pc = .stopCmd) (hw : (next s a).pc = .stopDel) :
    s.cfg.deleteCkpt = true ∧ pending (next s a) = .delete s.cur.tid := by
  cases a with
  | ret =>
    simp only [next, hp] at hw ⊢
    by_cases hdc : s.cfg.deleteCkpt = true
    · simp only [hdc, if_true]
      exact ⟨trivial, rfl⟩
    · simp [hdc] at hw
  | _ => simp [next, hp, raiseFin] at hw

theorem finStopDel_from (s : LState) (a : Ans) (hp : s.pc = .finStop) (hw : (next s a).pc = .finStopDel) :
    s.cfg.deleteCkpt = true ∧ pending (next s a) = .delete s.t := by
  cases a with
  | ret =>
    simp only [next, hp] at hw ⊢
    by_cases hdc : s.cfg.deleteCkpt = true
    · simp only [hdc, if_true]
      exact ⟨trivial, rfl⟩
    · simp [hdc] at hw
  | _ => simp [next, hp, exitRaise] at hw

end SyneTune.Tuner
