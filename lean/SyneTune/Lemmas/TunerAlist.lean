import SyneTune.Lemmas.TunerBasic
/-
Association lists as Python dicts: keys, `dict.update`, lookups after updates.
-/
namespace SyneTune.Tuner.AL
open SyneTune SyneTune.Tuner

variable {β : Type}

/-- the keys of a dict, in order -/
def keys (l : List (Nat × β)) : List Nat := l.map (·.1)

theorem hasKey_iff_mem_keys (k : Nat) (l : List (Nat × β)) : hasKey k l = true ↔ k ∈ keys l := by
  unfold hasKey keys
  induction l with
  | nil => simp [alookup]
  | cons x xs ih =>
    obtain ⟨k', v⟩ := x
    by_cases h : k = k'
    · simp [alookup, h]
    · simp only [alookup, h, if_false, List.map_cons, List.mem_cons, false_or]
      exact ih

theorem hasKey_false_iff (k : Nat) (l : List (Nat × β)) : hasKey k l = false ↔ k ∉ keys l := by
  rw [← hasKey_iff_mem_keys]; cases hasKey k l <;> simp

theorem alookup_isSome_of_mem {k : Nat} {v : β} {l : List (Nat × β)} (h : (k, v) ∈ l) : hasKey k l = true := by
  rw [hasKey_iff_mem_keys]; exact List.mem_map.mpr ⟨(k, v), h, rfl⟩

theorem alookup_eq_none_iff (k : Nat) (l : List (Nat × β)) : alookup k l = none ↔ k ∉ keys l := by
  rw [← hasKey_false_iff]; unfold hasKey; cases alookup k l <;> simp

theorem mem_of_alookup {k : Nat} {v : β} {l : List (Nat × β)} (h : alookup k l = some v) : (k, v) ∈ l := by
  induction l with
  | nil => simp [alookup] at h
  | cons x xs ih =>
    obtain ⟨k', v'⟩ := x
    by_cases hk : k = k'
    · simp only [alookup, hk, if_true, Option.some.injEq] at h
      subst h; subst hk; exact List.mem_cons_self
    · simp only [alookup, hk, if_false] at h
      exact List.mem_cons_of_mem _ (ih h)

/-- with unique keys a member is what lookup returns -/
theorem alookup_of_mem {k : Nat} {v : β} {l : List (Nat × β)} (hn : (keys l).Nodup) (h : (k, v) ∈ l) :
    alookup k l = some v := by
  induction l with
  | nil => cases h
  | cons x xs ih =>
    obtain ⟨k', v'⟩ := x
    simp only [keys, List.map_cons, List.nodup_cons] at hn
    rcases List.mem_cons.mp h with heq | hmem
    · injection heq with h1 h2; subst h1; subst h2; simp [alookup]
    · have hne : k ≠ k' := by
        intro hc; subst hc
        exact hn.1 (List.mem_map.mpr ⟨(k, v), hmem, rfl⟩)
      simp only [alookup, hne, if_false]
      exact ih hn.2 hmem

theorem keys_aset (k : Nat) (v : β) (l : List (Nat × β)) :
    keys (aset k v l) = if k ∈ keys l then keys l else keys l ++ [k] := by
  unfold keys
  induction l with
  | nil => simp [aset]
  | cons x xs ih =>
    obtain ⟨k', v'⟩ := x
    by_cases h : k = k'
    · subst h; simp [aset]
    · simp only [aset, h, if_false, List.map_cons, List.mem_cons, false_or, ih]
      split <;> simp

theorem mem_keys_aset (k k' : Nat) (v : β) (l : List (Nat × β)) : k' ∈ keys (aset k v l) ↔ k' = k ∨ k' ∈ keys l := by
  rw [keys_aset]
  split
  · constructor
    · intro h; exact Or.inr h
    · rintro (rfl | h)
      · assumption
      · exact h
  · simp only [List.mem_append, List.mem_singleton]
    constructor
    · rintro (h | h); exact Or.inr h; exact Or.inl h
    · rintro (h | h); exact Or.inr h; exact Or.inl h

theorem nodup_keys_aset (k : Nat) (v : β) (l : List (Nat × β)) (h : (keys l).Nodup) : (keys (aset k v l)).Nodup := by
  rw [keys_aset]
  split
  · exact h
  · rename_i hk
    rw [List.nodup_append]
    refine ⟨h, by simp, ?_⟩
    intro a ha b hb
    simp only [List.mem_singleton] at hb
    subst hb; intro hab; subst hab; exact hk ha

theorem length_aset (k : Nat) (v : β) (l : List (Nat × β)) :
    (aset k v l).length = if k ∈ keys l then l.length else l.length + 1 := by
  have h1 : (keys (aset k v l)).length = (aset k v l).length := by simp [keys]
  have h2 : (keys l).length = l.length := by simp [keys]
  rw [← h1, keys_aset]
  split
  · exact h2
  · simp [h2]

theorem hasKey_aset (k k' : Nat) (v : β) (l : List (Nat × β)) :
    hasKey k' (aset k v l) = (decide (k' = k) || hasKey k' l) := by
  unfold hasKey
  rw [alookup_aset]
  by_cases h : k' = k <;> simp [h]

theorem mem_aset {kv : Nat × β} {k : Nat} {v : β} {l : List (Nat × β)} (h : kv ∈ aset k v l) :
    kv = (k, v) ∨ kv ∈ l := by
  induction l with
  | nil => simp only [aset, List.mem_singleton] at h; exact Or.inl h
  | cons x xs ih =>
    obtain ⟨k', v'⟩ := x
    by_cases hk : k = k'
    · simp only [aset, hk, if_true, List.mem_cons] at h
      rcases h with h | h
      · left; rw [h, hk]
      · right; exact List.mem_cons_of_mem _ h
    · simp only [aset, hk, if_false, List.mem_cons] at h
      rcases h with h | h
      · right; rw [h]; exact List.mem_cons_self
      · rcases ih h with h | h
        · exact Or.inl h
        · exact Or.inr (List.mem_cons_of_mem _ h)

/-! `dict.update` -/

theorem aupdate_nil (l : List (Nat × β)) : aupdate l [] = l := rfl

theorem aupdate_cons (l : List (Nat × β)) (kv : Nat × β) (items : List (Nat × β)) :
    aupdate l (kv :: items) = aupdate (aset kv.1 kv.2 l) items := rfl

theorem mem_keys_aupdate (k : Nat) (l items : List (Nat × β)) :
    k ∈ keys (aupdate l items) ↔ k ∈ keys l ∨ k ∈ keys items := by
  induction items generalizing l with
  | nil => simp [aupdate_nil, keys]
  | cons x xs ih =>
    rw [aupdate_cons, ih, mem_keys_aset]
    simp only [keys, List.map_cons, List.mem_cons]
    constructor
    · rintro ((h | h) | h)
      · exact Or.inr (Or.inl h)
      · exact Or.inl h
      · exact Or.inr (Or.inr h)
    · rintro (h | h | h)
      · exact Or.inl (Or.inr h)
      · exact Or.inl (Or.inl h)
      · exact Or.inr h

theorem nodup_keys_aupdate (l items : List (Nat × β)) (h : (keys l).Nodup) : (keys (aupdate l items)).Nodup := by
  induction items generalizing l with
  | nil => exact h
  | cons x xs ih => rw [aupdate_cons]; exact ih _ (nodup_keys_aset _ _ _ h)

/-- updating with keys that are all present keeps the keys (and their order) -/
theorem keys_aupdate_of_subset (l items : List (Nat × β)) (h : ∀ k ∈ keys items, k ∈ keys l) :
    keys (aupdate l items) = keys l := by
  induction items generalizing l with
  | nil => rfl
  | cons x xs ih =>
    rw [aupdate_cons]
    have hx : x.1 ∈ keys l := h x.1 (by simp [keys])
    have hk : keys (aset x.1 x.2 l) = keys l := by rw [keys_aset]; simp [hx]
    rw [ih]
    · exact hk
    · intro k hk'
      rw [hk]
      exact h k (by simp only [keys, List.map_cons, List.mem_cons] at hk' ⊢; exact Or.inr hk')

theorem length_aupdate_of_subset (l items : List (Nat × β)) (h : ∀ k ∈ keys items, k ∈ keys l) :
    (aupdate l items).length = l.length := by
  have := congrArg List.length (keys_aupdate_of_subset l items h)
  simpa [keys] using this

/-- lookup after `dict.update` when the key is not updated -/
theorem alookup_aupdate_of_not_mem (k : Nat) (l items : List (Nat × β)) (h : k ∉ keys items) :
    alookup k (aupdate l items) = alookup k l := by
  induction items generalizing l with
  | nil => rfl
  | cons x xs ih =>
    rw [aupdate_cons]
    simp only [keys, List.map_cons, List.mem_cons, not_or] at h
    rw [ih _ (by simpa [keys] using h.2), alookup_aset_ne _ _ _ _ h.1]

/-- lookup after `dict.update` with duplicate-free items: the item's value -/
theorem alookup_aupdate_of_mem (k : Nat) (v : β) (l items : List (Nat × β)) (hn : (keys items).Nodup)
    (h : (k, v) ∈ items) : alookup k (aupdate l items) = some v := by
  induction items generalizing l with
  | nil => cases h
  | cons x xs ih =>
    rw [aupdate_cons]
    simp only [keys, List.map_cons, List.nodup_cons] at hn
    rcases List.mem_cons.mp h with heq | hmem
    · subst heq
      rw [alookup_aupdate_of_not_mem _ _ _ (by simpa [keys] using hn.1)]
      exact alookup_aset_self _ _ _
    · exact ih _ hn.2 hmem

/-- lookup after `dict.update` in general (duplicate-free items) -/
theorem alookup_aupdate (k : Nat) (l items : List (Nat × β)) (hn : (keys items).Nodup) :
    alookup k (aupdate l items) = match alookup k items with | some v => some v | none => alookup k l := by
  cases h : alookup k items with
  | some v => exact alookup_aupdate_of_mem k v l items hn (mem_of_alookup h)
  | none => exact alookup_aupdate_of_not_mem k l items ((alookup_eq_none_iff k items).mp h)

theorem mem_aupdate {kv : Nat × β} {l items : List (Nat × β)} (h : kv ∈ aupdate l items) : kv ∈ items ∨ kv ∈ l := by
  induction items generalizing l with
  | nil => exact Or.inr h
  | cons x xs ih =>
    rw [aupdate_cons] at h
    rcases ih h with h | h
    · exact Or.inl (List.mem_cons_of_mem _ h)
    · rcases mem_aset h with h | h
      · left; rw [h]; exact List.mem_cons_self
      · exact Or.inr h

end SyneTune.Tuner.AL
