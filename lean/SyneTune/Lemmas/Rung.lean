import SyneTune.Model.Rung
import Mathlib.Tactic.Linarith
import Mathlib.Tactic.Ring
import Mathlib.Data.Rat.Floor
import Mathlib.Algebra.Order.Floor.Ring
/- Helper lemmas about rungs. -/
namespace SyneTune

theorem rat_floor_eq (x : ℚ) : x.floor = ⌊x⌋ := rfl

theorem floor_toNat_lt {v : ℚ} {k : ℕ} (h0 : 0 ≤ v) (h1 : v < (k : ℚ)) :
    v.floor.toNat < k := by
  have hf0 : (0 : ℤ) ≤ ⌊v⌋ := Int.floor_nonneg.mpr h0
  have hlt : ⌊v⌋ < (k : ℤ) := Int.floor_lt.mpr (by exact_mod_cast h1)
  change ⌊v⌋.toNat < k
  omega

theorem quantileAsc_eq (xs : List ℚ) (q : ℚ) (h : 2 ≤ xs.length) :
    quantileAsc xs q =
      interpAt xs (((xs.length - 1 : ℕ) : ℚ) * q).floor.toNat
        (((xs.length - 1 : ℕ) : ℚ) * q - ((((xs.length - 1 : ℕ) : ℚ) * q).floor : ℚ)) := by
  unfold quantileAsc
  have : ¬ xs.length < 2 := by omega
  simp only [this, if_false]



theorem cutoff_min (r : Rung) (hq0 : 0 < r.q) (hq1 : r.q < 1) :
    r.cutoff .min = quantileAsc (r.ascVals .min) (r.npQ .min) := by
  unfold Rung.cutoff Rung.ascVals Rung.npQ
  by_cases hn : r.data.length < 2
  · simp [hn, quantileAsc]
  · have hn2 : 2 ≤ r.data.length := by omega
    rw [quantileAsc_eq _ _ (by simpa using hn2)]
    simp only [hn, if_false, List.length_map]
    generalize hk : r.data.length - 1 = k
    have hk1 : 1 ≤ k := by omega
    have hkq : (0:ℚ) < k := by exact_mod_cast hk1
    have hv0 : (0:ℚ) ≤ (k:ℚ) * r.q := by positivity
    have hv1 : (k:ℚ) * r.q < (k:ℚ) := by nlinarith
    have hfl : ((k:ℚ) * r.q + 1).floor = ((k:ℚ) * r.q).floor + 1 := by
      simp only [rat_floor_eq]; exact Int.floor_add_one _
    have hi := floor_toNat_lt hv0 hv1
    have hf0 : (0 : ℤ) ≤ ((k:ℚ) * r.q).floor := by rw [rat_floor_eq]; exact Int.floor_nonneg.mpr hv0
    have hidx : ((k:ℚ) * r.q + 1).floor.toNat = ((k:ℚ) * r.q).floor.toNat + 1 := by
      rw [hfl]; omega
    simp only [hidx]
    have hcond : 1 ≤ ((k:ℚ) * r.q).floor.toNat + 1 ∧ ((k:ℚ) * r.q).floor.toNat + 1 < r.data.length := by omega
    simp only [hcond, not_true_eq_false, if_false, and_self, Nat.add_sub_cancel]
    unfold interpAt
    simp only [List.getElem?_map]
    rcases h1 : r.data[((k:ℚ) * r.q).floor.toNat]? with _ | a <;> rcases h2 : r.data[((k:ℚ) * r.q).floor.toNat + 1]? with _ | b <;> simp
    rw [hfl]; push_cast; ring


theorem cutoff_max (r : Rung) (hq0 : 0 < r.q) (hq1 : r.q < 1) :
    r.cutoff .max = quantileAsc (r.ascVals .max) (r.npQ .max) := by
  unfold Rung.cutoff Rung.ascVals Rung.npQ
  by_cases hn : r.data.length < 2
  · simp [hn, quantileAsc]
  · have hn2 : 2 ≤ r.data.length := by omega
    rw [quantileAsc_eq _ _ (by simpa using hn2)]
    simp only [hn, if_false, List.length_map, List.length_reverse]
    generalize hk : r.data.length - 1 = k
    have hk1 : 1 ≤ k := by omega
    have hkq : (0:ℚ) < k := by exact_mod_cast hk1
    generalize hq' : 1 - r.q = q'
    have hq'0 : 0 < q' := by linarith
    have hq'1 : q' < 1 := by linarith
    have hv0 : (0:ℚ) ≤ (k:ℚ) * q' := by positivity
    have hv1 : (k:ℚ) * q' < (k:ℚ) := by nlinarith
    have hfl : ((k:ℚ) * q' + 1).floor = ((k:ℚ) * q').floor + 1 := by
      simp only [rat_floor_eq]; exact Int.floor_add_one _
    have hi := floor_toNat_lt hv0 hv1
    have hf0 : (0 : ℤ) ≤ ((k:ℚ) * q').floor := by rw [rat_floor_eq]; exact Int.floor_nonneg.mpr hv0
    have hidx : ((k:ℚ) * q' + 1).floor.toNat = ((k:ℚ) * q').floor.toNat + 1 := by
      rw [hfl]; omega
    simp only [hidx]
    generalize hi' : ((k:ℚ) * q').floor.toNat = i at *
    have hcond : 1 ≤ i + 1 ∧ i + 1 < r.data.length := by omega
    simp only [hcond, not_true_eq_false, if_false, and_self]
    unfold interpAt
    have e1 : (List.map (fun x => x.val) r.data).reverse[i]? = (r.data[r.data.length - (i + 1) - 1 + 1]?).map (·.val) := by
      rw [List.getElem?_reverse (by simp; omega)]
      simp only [List.getElem?_map, List.length_map]
      congr 2; omega
    have e2 : (List.map (fun x => x.val) r.data).reverse[i+1]? = (r.data[r.data.length - (i + 1) - 1]?).map (·.val) := by
      rw [List.getElem?_reverse (by simp; omega)]
      simp only [List.getElem?_map, List.length_map]
      congr 2; omega
    rw [e1, e2]
    rcases h1 : r.data[r.data.length - (i + 1) - 1]? with _ | a <;> rcases h2 : r.data[r.data.length - (i + 1) - 1 + 1]? with _ | b <;> simp
    rw [hfl]; push_cast; ring

/-! ### `insertEntry` (SortedList.add) -/

def SortedBy (m : Mode) (l : List Entry) : Prop :=
  l.Pairwise (fun a b => m.key a.val ≤ m.key b.val)

theorem insertEntry_length (m : Mode) (e : Entry) (l : List Entry) :
    (insertEntry m e l).length = l.length + 1 := by
  induction l with
  | nil => simp [insertEntry]
  | cons x xs ih => unfold insertEntry; split <;> simp [ih]

theorem insertEntry_perm (m : Mode) (e : Entry) (l : List Entry) :
    (insertEntry m e l).Perm (e :: l) := by
  induction l with
  | nil => simp [insertEntry]
  | cons x xs ih =>
    unfold insertEntry; split
    · exact List.Perm.refl _
    · exact (List.Perm.cons x ih).trans (List.Perm.swap e x xs)

theorem insertEntry_mem (m : Mode) (e x : Entry) (l : List Entry) :
    x ∈ insertEntry m e l ↔ x = e ∨ x ∈ l := by
  rw [(insertEntry_perm m e l).mem_iff]; simp

theorem insertEntry_sorted (m : Mode) (e : Entry) (l : List Entry) (h : SortedBy m l) :
    SortedBy m (insertEntry m e l) := by
  induction l with
  | nil => simp [insertEntry, SortedBy]
  | cons x xs ih =>
    unfold SortedBy at h ih ⊢
    rw [List.pairwise_cons] at h
    unfold insertEntry; split
    · rename_i hlt
      rw [List.pairwise_cons, List.pairwise_cons]
      refine ⟨?_, h.1, h.2⟩
      intro a ha
      rcases List.mem_cons.mp ha with rfl | ha
      · exact le_of_lt hlt
      · exact le_trans (le_of_lt hlt) (h.1 a ha)
    · rename_i hnlt
      rw [List.pairwise_cons]
      refine ⟨?_, ih h.2⟩
      intro a ha
      rcases (insertEntry_mem m e a xs).mp ha with rfl | ha
      · exact not_lt.mp hnlt
      · exact h.1 a ha

theorem insertEntry_tids_nodup (m : Mode) (e : Entry) (l : List Entry)
    (h : (l.map (·.tid)).Nodup) (hn : e.tid ∉ l.map (·.tid)) :
    ((insertEntry m e l).map (·.tid)).Nodup := by
  have hp : ((insertEntry m e l).map (·.tid)).Perm ((e :: l).map (·.tid)) :=
    (insertEntry_perm m e l).map _
  rw [hp.nodup_iff]
  simpa using ⟨by simpa using hn, h⟩

theorem contains_iff (r : Rung) (tid : Nat) : r.contains tid = true ↔ tid ∈ r.data.map (·.tid) := by
  unfold Rung.contains
  simp only [List.any_eq_true, beq_iff_eq, List.mem_map]

end SyneTune
