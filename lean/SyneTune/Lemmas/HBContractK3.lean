import SyneTune.Lemmas.HBContractK2
import SyneTune.Lemmas.HBPickSpec
import SyneTune.Props.C14
/- Preservation of `KInv` by every scheduler operation (ASHA / PASHA). -/
namespace SyneTune
open SyneTune.C13Hb

theorem taskRemove_fields (g : Manager) (tid : Nat) :
    (g.taskRemove tid).type = g.type ∧ (g.taskRemove tid).maxT = g.maxT ∧
    unpromotedSys (g.taskRemove tid).systems = unpromotedSys g.systems ∧
    ((∀ sys ∈ g.systems, RunOK sys) → ∀ sys ∈ (g.taskRemove tid).systems, RunOK sys) := by
  unfold Manager.taskRemove
  cases alookup tid g.taskInfo with
  | none => exact ⟨rfl, rfl, rfl, fun h => h⟩
  | some b =>
    refine ⟨rfl, rfl, delRunningAt_unpromoted _ _ _, ?_⟩
    intro h sys hsys
    simp only at hsys
    unfold delRunningAt at hsys
    cases hg : g.systems[(g.sysFor b).1]? with
    | none => rw [hg] at hsys; exact h sys hsys
    | some s0 =>
      rw [hg] at hsys
      rcases mem_set_cases _ _ _ _ hsys with rfl | hm
      · intro x hx rf hrf
        exact h s0 (List.mem_of_getElem? hg) x (mem_adel _ _ _ hx) rf hrf
      · exact h sys hm

theorem cleanup_KInv (s : Sched) (tid : Nat) (d : Decision) (hd : d ≠ .continue) (h : KInv s) :
    KInv (s.cleanup tid d) := by
  obtain ⟨f1, f2, f3, f4⟩ := taskRemove_fields s.mgr tid
  unfold Sched.cleanup
  refine ⟨by simp only [f1]; exact h.pr, ?_, by simp only [f3]; exact h.nodup, f4 h.runok⟩
  intro t ht
  simp only [f3] at ht
  obtain ⟨rec, hr, hdec⟩ := h.paused t ht
  unfold NotRunning
  by_cases he : t = tid
  · subst he
    simp only [hr]
    exact ⟨{ rec with decision := d }, C14_alookup_aset_self _ _ _, hd⟩
  · cases hl : alookup tid s.active with
    | none => exact ⟨rec, hr, hdec⟩
    | some r2 => simp only; exact ⟨rec, by rw [alookup_aset_ne _ _ _ _ he]; exact hr, hdec⟩

theorem getElem?_set_self' {α} (l : List α) (i : Nat) (x y : α) (h : l[i]? = some x) :
    (l.set i y)[i]? = some y := by
  have := (List.getElem?_eq_some_iff.mp h).1
  simp [this]

/-- `on_task_schedule` for plain promotion types -/
theorem taskSchedule_plain (g g' : Manager) (bracket : Nat) (hint : Option Nat) (so : Option SchedOut)
    (ms : Nat) (fr : Bool) (hty : g.type.pauseResume = true) (h : g.taskSchedule bracket hint = .ok (g', so, ms, fr)) :
    g'.type = g.type ∧ g'.taskInfo = g.taskInfo ∧
    ((∀ sys ∈ g.systems, RunOK sys) → ∀ sys ∈ g'.systems, RunOK sys) ∧
    (match so with
     | none => unpromotedSys g'.systems = unpromotedSys g.systems
     | some o => (unpromotedSys g.systems).Perm (o.trial :: unpromotedSys g'.systems)) := by
  unfold Manager.taskSchedule at h
  cases hs : g.systems[(g.sysFor bracket).1]? with
  | none => simp [hs] at h
  | some sys =>
    simp only [hs, hty, not_true_eq_false, if_false] at h
    have hrun : ∀ sys' : RungSys, sys'.running = sys.running →
        (∀ y ∈ g.systems, RunOK y) → ∀ y ∈ (g.setSys (g.sysFor bracket).1 sys').systems, RunOK y := by
      intro sys' hr hall y hy
      rcases mem_set_cases _ _ _ _ hy with rfl | hm
      · intro x hx rf hrf; rw [hr] at hx
        exact hall sys (List.mem_of_getElem? hs) x hx rf hrf
      · exact hall y hm
    cases hout : (sys.promoSchedule g.type g.mode hint).2.1 with
    | none =>
      simp only [hout] at h
      injection h with h
      simp only [Prod.mk.injEq] at h
      obtain ⟨h1, h2, _, _⟩ := h
      subst h1; subst h2
      refine ⟨rfl, rfl, hrun _ rfl, ?_⟩
      simp only
      apply unpromotedSys_set_same g.systems _ sys _ hs
      unfold RungSys.promoSchedule at hout ⊢
      exact (promoScan_unpromoted_any g.type g.mode sys.numThr (sys.cap g.type) hint sys.maxT sys.thresholds sys.rungs).2 hout
    | some o =>
      simp only [hout] at h
      injection h with h
      simp only [Prod.mk.injEq] at h
      obtain ⟨h1, h2, _, _⟩ := h
      subst h1; subst h2
      refine ⟨rfl, rfl, hrun _ rfl, ?_⟩
      simp only
      apply unpromotedSys_set_del g.systems _ sys _ o.trial hs
      unfold RungSys.promoSchedule at hout ⊢
      exact (promoScan_unpromoted_any g.type g.mode sys.numThr (sys.cap g.type) hint sys.maxT sys.thresholds sys.rungs).1 o hout

/-- `on_task_add` changes only `_running` of one system and `_task_info` -/
theorem taskAdd_fields (g g' : Manager) (tid bracket : Nat) (resume : Option (Nat × Nat)) (first : Nat)
    (h : g.taskAdd tid bracket resume = .ok (g', first)) :
    g'.type = g.type ∧ unpromotedSys g'.systems = unpromotedSys g.systems ∧
    ((∀ sys ∈ g.systems, RunOK sys) → ∀ sys ∈ g'.systems, RunOK sys) := by
  unfold Manager.taskAdd at h
  cases hs : g.systems[(g.sysFor bracket).1]? with
  | none => simp [hs] at h
  | some sys =>
    simp only [hs] at h
    cases ha : sys.taskAdd g.type.pauseResume tid (g.sysFor bracket).2 resume with
    | error e => simp [ha] at h
    | ok sys' =>
      simp only [ha] at h
      injection h with h
      simp only [Prod.mk.injEq] at h
      obtain ⟨h1, _⟩ := h
      subst h1
      have hr : sys'.rungs = sys.rungs ∧ (RunOK sys → RunOK sys') := by
        unfold RungSys.taskAdd at ha
        split at ha
        · cases resume with
          | none =>
            simp only at ha
            injection ha with ha; subst ha
            refine ⟨rfl, ?_⟩
            intro hok x hx rf hrf
            rcases C14.mem_aset _ _ _ _ hx with rfl | hx
            · simp at hrf
            · exact hok x hx rf hrf
          | some mr =>
            simp only at ha
            split at ha
            · cases ha
            · rename_i hlt
              injection ha with ha; subst ha
              refine ⟨rfl, ?_⟩
              intro hok x hx rf hrf
              rcases C14.mem_aset _ _ _ _ hx with rfl | hx
              · simp only [Option.some.injEq] at hrf; subst hrf
                simpa using hlt
              · exact hok x hx rf hrf
        · injection ha with ha; subst ha; exact ⟨rfl, fun h => h⟩
      refine ⟨rfl, ?_, ?_⟩
      · exact unpromotedSys_set_same g.systems _ sys sys' hs hr.1
      · intro hall y hy
        rcases mem_set_cases _ _ _ _ hy with rfl | hm
        · exact hr.2 (hall sys (List.mem_of_getElem? hs))
        · exact hall y hm

end SyneTune
