import SyneTune.Lemmas.RandomRestrictRun
/-
`get_state` / `clone_from_state` of the random searcher with `restrict_configurations`
(`Model/RandomRestrict.lean`): states that differ only in the representation of the
exclusion set are indistinguishable by any continuation; the clone of a snapshot is such a
state.  Used by `Props/C16Restrict.lean`.
-/
namespace SyneTune.Srch

/-- equal up to the representation of the exclusion set (and the unused trial map) -/
structure XState.Equiv (imm : RImm) (s t : XState) : Prop where
  base : RState.Equiv imm s.base t.base
  rc : s.rc = t.rc
  pos : s.pos = t.pos

/-- results on equivalent states: equal outputs and equivalent states, or equal errors -/
def RelX {β} (imm : RImm) (a b : Except Err (XState × β)) : Prop :=
  match a, b with
  | .ok (s1, o1), .ok (t1, o2) => o1 = o2 ∧ XState.Equiv imm s1 t1
  | .error e1, .error e2 => e1 = e2
  | _, _ => False

def RelS (imm : RImm) (a b : Except Err XState) : Prop :=
  match a, b with
  | .ok s1, .ok t1 => XState.Equiv imm s1 t1
  | .error e1, .error e2 => e1 = e2
  | _, _ => False

theorem restrictLoop_congr (mk : MK) (excl excl' : List String) (rc : List Config) (di : Nat → Nat)
    (h : ∀ m, m ∈ excl ↔ m ∈ excl') :
    ∀ fuel i, restrictLoop mk excl rc di fuel i = restrictLoop mk excl' rc di fuel i := by
  intro fuel
  induction fuel with
  | zero => intro i; rfl
  | succ fuel ih =>
    intro i
    simp only [restrictLoop]
    cases hg : rc[di i]? with
    | none => rfl
    | some c =>
      simp only
      cases hm : mk c with
      | error e => rfl
      | ok m =>
        simp only
        by_cases hin : m ∈ excl
        · have hin' := (h m).mp hin
          simp only [hin, hin', if_true]; exact ih (i + 1)
        · have hin' : m ∉ excl' := fun c => hin ((h m).mpr c)
          simp only [hin, hin', if_false]

theorem advance_equiv (imm : RImm) (s t : XState) (he : XState.Equiv imm s t) (n : Nat) :
    XState.Equiv imm (s.advance n) (t.advance n) :=
  ⟨⟨he.base.p2e, by simp [XState.advance, he.base.rng], he.base.excl, he.base.cfgFor⟩, he.rc, he.pos⟩

theorem markReturned_equiv (imm : RImm) (s t : XState) (he : XState.Equiv imm s t) (p : Nat) :
    XState.Equiv imm (s.markReturned imm p) (t.markReturned imm p) := by
  unfold XState.markReturned
  cases imm.allowDup with
  | true => exact he
  | false => exact ⟨he.base, he.rc, by simp [he.pos]⟩

theorem drawRestricted_equiv (imm : RImm) (s t : XState) (he : XState.Equiv imm s t) (rc : List Config)
    (di : Nat → Nat) : RelX imm (s.drawRestricted imm rc di) (t.drawRestricted imm rc di) := by
  unfold XState.drawRestricted
  by_cases hem : rc.isEmpty = true
  · simp only [hem, if_true]; exact ⟨rfl, he⟩
  · simp only [hem]
    rw [← restrictLoop_congr imm.mkf _ _ rc di (fun m => he.base.excl.mem_iff) imm.maxRetries 0]
    simp only [Bool.false_eq_true, if_false]
    cases hl : restrictLoop imm.mkf s.base.excl rc di imm.maxRetries 0 with
    | error e => exact rfl
    | ok rn =>
      obtain ⟨r, n⟩ := rn
      cases r with
      | none => exact ⟨rfl, advance_equiv imm s t he n⟩
      | some cp => exact ⟨rfl, markReturned_equiv imm _ _ (advance_equiv imm s t he n) cp.2⟩

theorem drawUnrestricted_equiv (imm : RImm) (s t : XState) (he : XState.Equiv imm s t) (dc : Nat → Config) :
    RelX imm (s.drawUnrestricted imm dc) (t.drawUnrestricted imm dc) := by
  unfold XState.drawUnrestricted RState.randomConfig
  rw [← exhausted_congr imm.size _ _ he.base.excl,
      ← sampleLoop_congr imm.mkf _ _ dc (fun m => he.base.excl.mem_iff) imm.maxRetries 0]
  cases hex : exhausted imm.size s.base.excl with
  | true => simp only [if_true]; exact ⟨rfl, advance_equiv imm s t he 0⟩
  | false =>
    simp only [Bool.false_eq_true, if_false]
    cases hl : sampleLoop imm.mkf s.base.excl dc imm.maxRetries 0 with
    | error e => exact rfl
    | ok rn => exact ⟨rfl, advance_equiv imm s t he rn.2⟩

theorem drawConfig_equiv (imm : RImm) (s t : XState) (he : XState.Equiv imm s t) (dc : Nat → Config)
    (di : Nat → Nat) : RelX imm (s.drawConfig imm dc di) (t.drawConfig imm dc di) := by
  unfold XState.drawConfig
  rw [← he.rc]
  cases s.rc with
  | none => exact drawUnrestricted_equiv imm s t he dc
  | some rc => exact drawRestricted_equiv imm s t he rc di

theorem popReturned_equiv (imm : RImm) (s t : XState) (he : XState.Equiv imm s t) (c : Config) :
    RelS imm (s.popReturned imm c) (t.popReturned imm c) := by
  unfold XState.popReturned
  rw [← he.rc, ← he.pos]
  cases hrc : s.rc with
  | none => exact he
  | some rc =>
    simp only
    by_cases hem : s.pos.isEmpty = true
    · simp only [hem, if_true]; exact he
    · simp only [hem]
      simp only [Bool.false_eq_true, if_false]
      cases hm : imm.mkf c with
      | error e => exact rfl
      | ok m =>
        simp only
        cases hp : popLoop imm.mkf m rc s.pos with
        | error e => exact rfl
        | ok rc' => exact ⟨he.base, rfl, rfl⟩

theorem xfinish_equiv (imm : RImm) (s t : XState) (he : XState.Equiv imm s t) (r : Option Config) :
    RelX imm (XState.finish imm s r) (XState.finish imm t r) := by
  unfold XState.finish
  cases r with
  | none => exact ⟨rfl, he⟩
  | some c =>
    simp only
    cases hd : imm.allowDup with
    | true => simp only [if_true]; exact ⟨rfl, he⟩
    | false =>
      simp only [Bool.false_eq_true, if_false]
      unfold exclAddConfig
      cases hm : imm.mkf c with
      | error e => exact rfl
      | ok m =>
        simp only
        have he' : XState.Equiv imm { s with base := { s.base with excl := exclAdd m s.base.excl } }
            { t with base := { t.base with excl := exclAdd m t.base.excl } } :=
          ⟨⟨he.base.p2e, he.base.rng, exclAdd_perm m _ _ he.base.excl, he.base.cfgFor⟩, he.rc, he.pos⟩
        have hp := popReturned_equiv imm _ _ he' c
        revert hp
        cases h1 : XState.popReturned imm { s with base := { s.base with excl := exclAdd m s.base.excl } } c with
        | error e =>
          cases h2 : XState.popReturned imm { t with base := { t.base with excl := exclAdd m t.base.excl } } c with
          | error e' => intro h; exact h
          | ok r => intro h; exact h.elim
        | ok s1 =>
          cases h2 : XState.popReturned imm { t with base := { t.base with excl := exclAdd m t.base.excl } } c with
          | error e' => intro h; exact h.elim
          | ok t1 => intro h; exact ⟨rfl, h⟩

theorem xgetConfig_equiv (imm : RImm) (s t : XState) (he : XState.Equiv imm s t) (dc : Nat → Config)
    (di : Nat → Nat) : RelX imm (s.getConfig imm dc di) (t.getConfig imm dc di) := by
  unfold XState.getConfig
  rw [← he.base.p2e]
  cases hp : s.base.p2e with
  | cons c rest =>
    simp only
    refine xfinish_equiv imm _ _ ?_ (some c)
    exact ⟨⟨rfl, he.base.rng, he.base.excl, he.base.cfgFor⟩, he.rc, he.pos⟩
  | nil =>
    simp only
    have hd := drawConfig_equiv imm s t he dc di
    revert hd
    cases h1 : s.drawConfig imm dc di with
    | error e =>
      cases h2 : t.drawConfig imm dc di with
      | error e' => intro h; exact h
      | ok r => intro h; exact h.elim
    | ok sr =>
      obtain ⟨s1, r1⟩ := sr
      cases h2 : t.drawConfig imm dc di with
      | error e' => intro h; exact h.elim
      | ok tr =>
        obtain ⟨t1, r2⟩ := tr
        intro h
        obtain ⟨hr, he1⟩ := h
        subst hr
        exact xfinish_equiv imm s1 t1 he1 r1

theorem xstep_equiv (imm : RImm) (dc : Nat → Config) (di : Nat → Nat) (s t : XState)
    (he : XState.Equiv imm s t) (op : ROp) :
    RelX imm (XState.step imm dc di s op) (XState.step imm dc di t op) := by
  cases op with
  | get =>
    simp only [XState.step]
    have := xgetConfig_equiv imm s t he (fun i => dc (s.base.rng + i)) (fun i => di (s.base.rng + i))
    rw [← he.base.rng]
    revert this
    cases hs : s.getConfig imm (fun i => dc (s.base.rng + i)) (fun i => di (s.base.rng + i)) with
    | error e =>
      cases ht : t.getConfig imm (fun i => dc (s.base.rng + i)) (fun i => di (s.base.rng + i)) with
      | error e' => intro h; exact h
      | ok r => intro h; exact h.elim
    | ok r =>
      obtain ⟨s1, o1⟩ := r
      cases ht : t.getConfig imm (fun i => dc (s.base.rng + i)) (fun i => di (s.base.rng + i)) with
      | error e' => intro h; exact h.elim
      | ok r' =>
        obtain ⟨t1, o2⟩ := r'
        intro h
        exact ⟨by rw [h.1], h.2⟩
  | pending tid c =>
    simp only [XState.step]
    have hb := step_equiv imm dc s.base t.base he.base (.pending tid c)
    simp only [RState.step] at hb
    exact ⟨rfl, ⟨hb.2, he.rc, he.pos⟩⟩
  | failed tid =>
    simp only [XState.step]
    have hb := step_equiv imm dc s.base t.base he.base (.failed tid)
    simp only [RState.step] at hb
    unfold XState.evaluationFailed
    revert hb
    cases h1 : s.base.evaluationFailed imm tid with
    | error e =>
      cases h2 : t.base.evaluationFailed imm tid with
      | error e' => intro h; exact h
      | ok r => intro h; exact h.elim
    | ok b1 =>
      cases h2 : t.base.evaluationFailed imm tid with
      | error e' => intro h; exact h.elim
      | ok b2 => intro h; exact ⟨rfl, ⟨h.2, he.rc, he.pos⟩⟩
  | result tid =>
    simp only [XState.step]
    exact ⟨rfl, he⟩

/-- equivalent states produce equal outputs (and equal errors) for EVERY continuation -/
theorem xrun_equiv (imm : RImm) (dc : Nat → Config) (di : Nat → Nat) :
    ∀ (ops : List ROp) (s t : XState), XState.Equiv imm s t →
      RelX imm (XState.run imm dc di s ops) (XState.run imm dc di t ops) := by
  intro ops
  induction ops with
  | nil => intro s t he; exact ⟨rfl, he⟩
  | cons op ops ih =>
    intro s t he
    have hs := xstep_equiv imm dc di s t he op
    simp only [XState.run]
    revert hs
    cases h1 : XState.step imm dc di s op with
    | error e =>
      cases h2 : XState.step imm dc di t op with
      | error e' => intro h; exact h
      | ok r => intro h; exact h.elim
    | ok r =>
      obtain ⟨s1, o1⟩ := r
      cases h2 : XState.step imm dc di t op with
      | error e' => intro h; exact h.elim
      | ok r' =>
        obtain ⟨t1, o2⟩ := r'
        intro h
        obtain ⟨ho, he1⟩ := h
        subst ho
        have := ih s1 t1 he1
        simp only
        revert this
        cases h3 : XState.run imm dc di s1 ops with
        | error e =>
          cases h4 : XState.run imm dc di t1 ops with
          | error e' => intro h; exact h
          | ok r => intro h; exact h.elim
        | ok r =>
          obtain ⟨s2, os⟩ := r
          cases h4 : XState.run imm dc di t1 ops with
          | error e' => intro h; exact h.elim
          | ok r' =>
            obtain ⟨t2, os'⟩ := r'
            intro h
            exact ⟨by rw [h.1], h.2⟩

/-- equal outputs, read off `RelX` -/
theorem outputs_of_relX (imm : RImm) (a b : Except Err (XState × List (Option Config))) (h : RelX imm a b) :
    b.map Prod.snd = a.map Prod.snd := by
  revert h
  cases a with
  | error e =>
    cases b with
    | error e' => intro h; simp only [RelX] at h; subst h; rfl
    | ok r => intro h; exact h.elim
  | ok r =>
    obtain ⟨s1, o1⟩ := r
    cases b with
    | error e' => intro h; exact h.elim
    | ok r' =>
      obtain ⟨t1, o2⟩ := r'
      intro h
      simp only [RelX] at h
      simp [Except.map, h.1]

/-- the exclusion set of a searcher with a list never holds a match string twice -/
theorem xrun_excl_nodup (imm : RImm) (dc : Nat → Config) (di : Nat → Nat) :
    ∀ (ops : List ROp) (s s' : XState) (l : List Config) (outs : List (Option Config)),
      XState.run imm dc di s ops = .ok (s', outs) → s.rc = some l → s.pos = [] → s.base.excl.Nodup →
      s'.base.excl.Nodup := by
  intro ops
  induction ops with
  | nil =>
    intro s s' l outs h _ _ hn
    obtain ⟨e1, _⟩ := xrun_nil imm dc di s s' outs h
    subst e1; exact hn
  | cons op ops ih =>
    intro s s' l outs h hrc hpos hn
    obtain ⟨s1, o, os, hstep, hrun, _⟩ := xrun_cons imm dc di s s' op ops outs h
    cases op with
    | get =>
      obtain ⟨o1, _, hg⟩ := xstep_get imm dc di s s1 o hstep
      obtain ⟨hpos1, _, hcase⟩ := xget_cases imm s s1 l _ _ o1 hrc hpos hg
      rcases hcase with ⟨c0, rest, _, _, _, _, hrc1, hT, hF⟩ | ⟨_, _, hcase⟩
      · apply ih s1 s' l os hrun hrc1 hpos1
        cases hd : imm.allowDup with
        | true => rw [hT hd]; exact hn
        | false => obtain ⟨m, _, he⟩ := hF hd; rw [he]; exact exclAdd_nodup _ _ hn
      · rcases hcase with ⟨_, hex, hrc1, _⟩ | ⟨c0, m0, p, n, _, _, _, _, _, _, _, _, _, hT, hF⟩
        · exact ih s1 s' l os hrun hrc1 hpos1 (by rw [hex]; exact hn)
        · cases hd : imm.allowDup with
          | true => exact ih s1 s' l os hrun (hT hd).2 hpos1 (by rw [(hT hd).1]; exact hn)
          | false =>
            exact ih s1 s' (l.eraseIdx p) os hrun (hF hd).2 hpos1 (by rw [(hF hd).1]; exact exclAdd_nodup _ _ hn)
    | pending tid c =>
      simp only [XState.step] at hstep
      injection hstep with hstep; injection hstep with h1 _
      subst h1
      apply ih _ s' l os hrun hrc hpos
      show (s.base.registerPending imm tid c).excl.Nodup
      rw [(registerPending_fields imm s.base tid c).2.1]; exact hn
    | failed tid =>
      simp only [XState.step] at hstep
      unfold XState.evaluationFailed at hstep
      cases hf : s.base.evaluationFailed imm tid with
      | error e => simp [hf] at hstep
      | ok b2 =>
        simp only [hf] at hstep
        injection hstep with hstep; injection hstep with h1 _
        subst h1
        apply ih _ s' l os hrun hrc hpos
        rcases (evaluationFailed_spec imm s.base b2 tid hf).2.2.2 with d | ⟨_, m', _, _, _, d⟩
        · simp only; rw [d]; exact hn
        · simp only; rw [d]; exact exclAdd_nodup _ _ hn
    | result tid =>
      simp only [XState.step] at hstep
      injection hstep with hstep; injection hstep with h1 _
      subst h1
      exact ih s s' l os hrun hrc hpos hn

/-- `clone_from_state(get_state())` of a state whose `_rc_returned_pos` is empty (as it is
between any two calls): the clone exists, holds the same list — `None`, `[]` or longer —
and is equivalent to the original, for every order in which the set of match strings is
listed in the snapshot -/
theorem xclone_equiv (imm : RImm) (s : XState) (keys order : List String)
    (hn : s.base.excl.Nodup) (hp : order.Perm s.base.excl) (hpos : s.pos = []) :
    ∃ t, XState.clone imm (s.getState imm keys order) = .ok t ∧ XState.Equiv imm s t ∧ t.rc = s.rc := by
  obtain ⟨b, hb, he⟩ := clone_equiv imm s.base keys order hn hp
  unfold XState.clone XState.getState
  simp only [hb]
  exact ⟨_, rfl, ⟨he, rfl, hpos⟩, rfl⟩

/-- a searcher whose list is used up (`[]`, NOT `None`) and which has no initial
configuration left answers `None` to every request, whatever else happens -/
theorem xrun_used_up (imm : RImm) (dc : Nat → Config) (di : Nat → Nat) :
    ∀ (ops : List ROp) (s s' : XState) (outs : List (Option Config)),
      XState.run imm dc di s ops = .ok (s', outs) → s.rc = some [] → s.pos = [] → s.base.p2e = [] →
      (∀ o ∈ outs, o = none) ∧ s'.rc = some [] := by
  intro ops
  induction ops with
  | nil =>
    intro s s' outs h hrc _ _
    obtain ⟨e1, e2⟩ := xrun_nil imm dc di s s' outs h
    subst e1; subst e2
    exact ⟨by simp, hrc⟩
  | cons op ops ih =>
    intro s s' outs h hrc hpos hp
    obtain ⟨s1, o, os, hstep, hrun, hout⟩ := xrun_cons imm dc di s s' op ops outs h
    subst hout
    by_cases hop : op = .get
    · subst hop
      obtain ⟨o1, ho, hg⟩ := xstep_get imm dc di s s1 o hstep
      subst ho
      obtain ⟨hpos1, _, hcase⟩ := xget_cases imm s s1 [] _ _ o1 hrc hpos hg
      rcases hcase with ⟨c0, rest, hp', _⟩ | ⟨_, hp1, hcase⟩
      · rw [hp] at hp'; cases hp'
      · rcases hcase with ⟨ho1, _, hrc1, _⟩ | ⟨c0, m, p, n, _, _, _, hcp, _⟩
        · subst ho1
          obtain ⟨a, b⟩ := ih s1 s' os hrun hrc1 hpos1 hp1
          refine ⟨?_, b⟩
          intro o ho
          simp only [Option.toList, List.singleton_append, List.mem_cons] at ho
          rcases ho with ho | ho
          · exact ho
          · exact a o ho
        · simp at hcp
    · obtain ⟨ho, hrc1, hpos1, hp1, _⟩ := xstep_other imm dc di s s1 op o hop hstep
      subst ho
      obtain ⟨a, b⟩ := ih s1 s' os hrun (by rw [hrc1]; exact hrc) (by rw [hpos1]; exact hpos) (by rw [hp1]; exact hp)
      exact ⟨by simpa using a, b⟩

/-! ### without a list the model is the model of `Model/RandomSearcher.lean` -/

/-- a searcher constructed without `restrict_configurations` -/
def XState.ofBase (b : RState) : XState := { base := b, rc := none, pos := [] }

/-- lift a result of the unrestricted model -/
def liftBase {β} (r : Except Err (RState × β)) : Except Err (XState × β) :=
  match r with
  | .ok bo => .ok (XState.ofBase bo.1, bo.2)
  | .error e => .error e

theorem xfinish_unrestricted (imm : RImm) (b : RState) (r : Option Config) :
    XState.finish imm (XState.ofBase b) r = liftBase (RState.finish imm b r) := by
  unfold XState.finish RState.finish
  cases r with
  | none => rfl
  | some c =>
    simp only
    cases imm.allowDup with
    | true => rfl
    | false =>
      simp only [Bool.false_eq_true, if_false]
      cases hm : exclAddConfig imm.mkf b.excl c with
      | error e => simp [XState.ofBase, hm, liftBase]
      | ok ex => simp [XState.ofBase, hm, liftBase, XState.popReturned]

theorem xgetConfig_unrestricted (imm : RImm) (b : RState) (dc : Nat → Config) (di : Nat → Nat) :
    (XState.ofBase b).getConfig imm dc di = liftBase (b.getConfig imm dc) := by
  unfold XState.getConfig RState.getConfig
  cases hp : b.p2e with
  | cons c rest =>
    simp only [XState.ofBase, hp]
    exact xfinish_unrestricted imm { b with p2e := rest } (some c)
  | nil =>
    simp only [XState.ofBase, hp, XState.drawConfig, XState.drawUnrestricted]
    cases hr : b.randomConfig imm dc with
    | error e => simp [liftBase]
    | ok rn =>
      obtain ⟨r, n⟩ := rn
      simp only [XState.advance]
      have := xfinish_unrestricted imm { b with rng := b.rng + n } r
      simp only [XState.ofBase, hp] at this
      rw [hp]
      exact this

theorem xstep_unrestricted (imm : RImm) (dc : Nat → Config) (di : Nat → Nat) (b : RState) (op : ROp) :
    XState.step imm dc di (XState.ofBase b) op = liftBase (RState.step imm dc b op) := by
  cases op with
  | get =>
    simp only [XState.step, RState.step]
    have := xgetConfig_unrestricted imm b (fun i => dc (b.rng + i)) (fun i => di (b.rng + i))
    simp only [XState.ofBase] at this ⊢
    rw [this]
    cases b.getConfig imm (fun i => dc (b.rng + i)) with
    | error e => rfl
    | ok r => rfl
  | pending tid c => rfl
  | failed tid =>
    simp only [XState.step, RState.step, XState.evaluationFailed, XState.ofBase]
    cases b.evaluationFailed imm tid with
    | error e => rfl
    | ok r => rfl
  | result tid => rfl

/-- **the restricted model extends the unrestricted one**: without a list, every history
gives the outputs (and errors) of `RState.run` -/
theorem xrun_unrestricted (imm : RImm) (dc : Nat → Config) (di : Nat → Nat) :
    ∀ (ops : List ROp) (b : RState),
      XState.run imm dc di (XState.ofBase b) ops = liftBase (RState.run imm dc b ops) := by
  intro ops
  induction ops with
  | nil => intro b; rfl
  | cons op ops ih =>
    intro b
    simp only [XState.run, RState.run]
    rw [xstep_unrestricted]
    cases RState.step imm dc b op with
    | error e => rfl
    | ok r =>
      obtain ⟨b1, o⟩ := r
      simp only [liftBase]
      rw [ih b1]
      cases RState.run imm dc b1 ops with
      | error e => rfl
      | ok r2 => rfl

end SyneTune.Srch
