import SyneTune.Lemmas.DomainsCont
/- C07 helper lemmas: the finite-range domain `FinDom` (`config_space.FiniteRange`) and its
encoder `FinRange` (`HyperparameterRangeFiniteRange`). -/
namespace SyneTune.Dom
open SyneTune

/-- the scaling `HyperparameterRangesImpl` passes to the encoder of a `FiniteRange` -/
theorem fin_encScale (d : FinDom) :
    (Domain.fin d).encScale = if d.log then ScaleKind.log else ScaleKind.lin := by
  cases h : d.log <;> simp [Domain.encScale, Domain.isLog, Domain.isRLog, h]

/-- what `FiniteRange.__init__` asserts -/
theorem fin_ok {d : FinDom} (hok : d.ok = true) :
    d.lower ≤ d.upper ∧ 1 ≤ d.size ∧ (d.log = true → 0 < d.lower) := by
  unfold FinDom.ok at hok
  simp only [Bool.and_eq_true, Bool.or_eq_true, decide_eq_true_eq, Bool.not_eq_true'] at hok
  obtain ⟨⟨h1, h2⟩, h3⟩ := hok
  refine ⟨h1, h2, fun hl => ?_⟩
  rcases h3 with h3 | h3
  · rw [hl] at h3; cases h3
  · exact h3

/-! ### the listed values -/

theorem fin_values_length (env : Env) (d : FinDom) : (d.values env).length = d.size := by
  simp [FinDom.values]

theorem fin_values_getElem (env : Env) (d : FinDom) (k : ℕ) (h : k < d.size) :
    (d.values env)[k]? = some (d.valueAt env k) := by
  simp [FinDom.values, h]

theorem fin_valueAt_mem (env : Env) (d : FinDom) (k : ℕ) (h : k < d.size) :
    d.valueAt env k ∈ d.values env :=
  List.mem_map.mpr ⟨k, List.mem_range.mpr h, rfl⟩

theorem fin_mem_values {env : Env} {d : FinDom} {v : Val} (h : v ∈ d.values env) :
    ∃ k, k < d.size ∧ v = d.valueAt env k := by
  obtain ⟨k, hk, e⟩ := List.mem_map.mp h
  exact ⟨k, List.mem_range.mp hk, e.symm⟩

/-- **samples are listed values** (`randint(0, size-1)` index) -/
theorem fin_sample_member (env : Env) (d : FinDom) (k : ℤ) (h0 : 0 ≤ k) (h1 : k < d.size) :
    ∃ v, d.sample env (.idx k) = .ok v ∧ v ∈ d.values env := by
  have hk : k.toNat < d.size := by omega
  refine ⟨d.valueAt env k.toNat, ?_, fin_valueAt_mem env d _ hk⟩
  simp only [FinDom.sample, fin_values_getElem env d _ hk]

theorem fin_mapToInt_lt (env : Env) (d : FinDom) (hok : d.ok = true) (x : ℚ) :
    d.mapToInt env x < d.size := by
  obtain ⟨_, hs, _⟩ := fin_ok hok
  unfold FinDom.mapToInt
  split
  · omega
  · have := clipI_mem (x := roundHalfEven (d.indexPre env x)) (lo := 0) (hi := (d.size : ℤ) - 1)
      (by omega)
    omega

/-- **`cast` of a number is a listed value** (the index is clipped) -/
theorem fin_cast_member (env : Env) (d : FinDom) (hok : d.ok = true) (x : Val) (r : ℚ)
    (hx : x.num? = some r) : ∃ v, d.cast env x = .ok v ∧ v ∈ d.values env := by
  have hk := fin_mapToInt_lt env d hok r
  refine ⟨d.valueAt env (d.mapToInt env r), ?_, fin_valueAt_mem env d _ hk⟩
  simp only [FinDom.cast, hx, fin_values_getElem env d _ hk]

/-! ### the encoder built for a `FinDom` -/

theorem fin_toI_lower (env : Env) (d : FinDom) :
    toI env (if d.log then ScaleKind.log else ScaleKind.lin) d.lower = d.lowInt env := by
  unfold FinDom.lowInt
  cases d.log <;> rfl

theorem fin_toI_upper (env : Env) (d : FinDom) :
    toI env (if d.log then ScaleKind.log else ScaleKind.lin) d.upper = d.upInt env := by
  unfold FinDom.upInt
  cases d.log <;> rfl

/-- all fields of the encoder in terms of the domain -/
theorem finrange_fields {env : Env} {c : Consts} {d : FinDom} {r : FinRange}
    (hmk : mkFin env c d.lower d.upper d.size (if d.log then .log else .lin) d.castInt = .ok r) :
    r.lowInt = d.lowInt env ∧ r.upInt = d.upInt env ∧ r.step = d.step env ∧ r.lower = d.lower ∧
    r.upper = d.upper ∧ r.size = d.size ∧ r.castInt = d.castInt ∧
    r.scale = (if d.log then ScaleKind.log else ScaleKind.lin) ∧
    mkInt env c 0 ((d.size : ℤ) - 1) .lin none none = .ok r.rint := by
  unfold mkFin at hmk
  split at hmk
  · split at hmk
    · rename_i a b ri ha hb hri
      injection hmk with hmk
      obtain ⟨_, ea⟩ := toInternal_eq_ok ha
      obtain ⟨_, eb⟩ := toInternal_eq_ok hb
      rw [fin_toI_lower] at ea
      rw [fin_toI_upper] at eb
      subst hmk ea eb
      exact ⟨rfl, rfl, rfl, rfl, rfl, rfl, rfl, rfl, hri⟩
    · cases hmk
    · cases hmk
    · cases hmk
  · cases hmk

theorem fin_mapFromInt {env : Env} {c : Consts} {d : FinDom} {r : FinRange}
    (hmk : mkFin env c d.lower d.upper d.size (if d.log then .log else .lin) d.castInt = .ok r)
    (k : ℕ) : r.mapFromInt env (k : ℤ) = d.valueAt env k := by
  obtain ⟨h1, _, h3, h4, h5, _, h7, h8, _⟩ := finrange_fields hmk
  have hv : r.valuePre env (k : ℤ) = d.valuePre env k := by
    unfold FinRange.valuePre FinDom.valuePre
    rw [h1, h3, h4, h5, h8]
    cases h : d.log <;> simp [Env.fromInternal]
  unfold FinRange.mapFromInt FinDom.valueAt
  rw [hv, h7]

/-- the encoder `HyperparameterRangesImpl` builds for a `FiniteRange` has the fields of the
domain and the same `_map_from_int` -/
theorem finrange_link {env : Env} {c : Consts} {d : FinDom} {r : FinRange} (_hok : d.ok = true)
    (hmk : mkFin env c d.lower d.upper d.size (if d.log then .log else .lin) d.castInt = .ok r) :
    (r.lowInt = d.lowInt env ∧ r.upInt = d.upInt env ∧ r.step = d.step env ∧ r.lower = d.lower ∧
      r.upper = d.upper ∧ r.size = d.size ∧ r.castInt = d.castInt) ∧
    (∀ k : ℕ, r.mapFromInt env (k : ℤ) = d.valueAt env k) ∧
    mkInt env c 0 ((d.size : ℤ) - 1) .lin none none = .ok r.rint := by
  obtain ⟨h1, h2, h3, h4, h5, h6, h7, _, h9⟩ := finrange_fields hmk
  exact ⟨⟨h1, h2, h3, h4, h5, h6, h7⟩, fin_mapFromInt hmk, h9⟩

/-- **decoded values are listed values**; exactly the inputs outside `[-EPS, 1+EPS]` are rejected -/
theorem fin_decode_member {env : Env} {c : Consts} {d : FinDom} {r : FinRange} (_hok : d.ok = true)
    (hmk : mkFin env c d.lower d.upper d.size (if d.log then .log else .lin) d.castInt = .ok r)
    (x : ℚ) :
    (-c.eps ≤ x ∧ x ≤ 1 + c.eps → ∃ v, r.decode env c x = .ok v ∧ v ∈ d.values env) ∧
    (¬ (-c.eps ≤ x ∧ x ≤ 1 + c.eps) → r.decode env c x = .error .assertion) := by
  obtain ⟨_, _, _, _, _, _, _, _, hri⟩ := finrange_fields hmk
  have hd := int_decode_member hri x
  unfold FinRange.decode
  constructor
  · intro hx
    obtain ⟨k, hk, k0, k1⟩ := hd.1 hx
    rw [hk]
    refine ⟨_, rfl, ?_⟩
    have hkn : ((k.toNat : ℕ) : ℤ) = k := Int.toNat_of_nonneg k0
    rw [← hkn, fin_mapFromInt hmk]
    exact fin_valueAt_mem env d _ (by omega)
  · intro hx
    rw [hd.2 hx]

/-- **encodings lie in the unit interval** -/
theorem fin_encode_cube {env : Env} {c : Consts} {r : FinRange} {y x : ℚ}
    (h : r.encode env c y = .ok x) : 0 ≤ x ∧ x ≤ 1 := by
  unfold FinRange.encode at h
  split at h
  · exact int_encode_cube h
  · cases h

/-! ### round trips -/

/-- the grid `k * step + lowInt`, `k < size`, stays inside `[lowInt, upInt]` -/
theorem fin_grid_range (env : Env) (d : FinDom) (hmono : d.lowInt env ≤ d.upInt env) {k : ℕ}
    (hk : k < d.size) :
    0 ≤ d.step env ∧ d.lowInt env ≤ (k : ℚ) * d.step env + d.lowInt env ∧
      (k : ℚ) * d.step env + d.lowInt env ≤ d.upInt env := by
  unfold FinDom.step
  split
  · rename_i h1
    have hn : (0 : ℚ) < ((d.size - 1 : ℕ) : ℚ) := by
      have : 0 < d.size - 1 := by omega
      exact_mod_cast this
    have hkn : (k : ℚ) ≤ ((d.size - 1 : ℕ) : ℚ) := by
      have : k ≤ d.size - 1 := by omega
      exact_mod_cast this
    have hq : 0 ≤ (d.upInt env - d.lowInt env) / ((d.size - 1 : ℕ) : ℚ) :=
      div_nonneg (by linarith) (le_of_lt hn)
    have h2 := mul_le_mul_of_nonneg_right hkn hq
    have h3 : ((d.size - 1 : ℕ) : ℚ) * ((d.upInt env - d.lowInt env) / ((d.size - 1 : ℕ) : ℚ))
        = d.upInt env - d.lowInt env := by
      field_simp
    have h4 : 0 ≤ (k : ℚ) * ((d.upInt env - d.lowInt env) / ((d.size - 1 : ℕ) : ℚ)) :=
      mul_nonneg (by positivity) hq
    refine ⟨hq, by linarith, by linarith⟩
  · refine ⟨le_refl _, ?_, ?_⟩ <;> simp only [mul_zero, zero_add] <;> linarith

theorem fin_valueAt_step0 (env : Env) (d : FinDom) (hs : d.step env = 0) (k : ℕ) :
    d.valueAt env k = d.valueAt env 0 := by
  unfold FinDom.valueAt FinDom.valuePre
  simp only [hs, mul_zero]

/-- if `_map_to_int` returns the index `k`, encoding then decoding returns the `k`-th value -/
theorem fin_roundtrip_of_mapToInt {env : Env} {c : Consts} {d : FinDom} {r : FinRange}
    (hmk : mkFin env c d.lower d.upper d.size (if d.log then .log else .lin) d.castInt = .ok r)
    (heps : 0 ≤ c.eps) (heps2 : c.eps ≤ 1 / 2) {y : ℚ} {k : ℕ} (hk : k < d.size)
    (hm : r.mapToInt env y = .ok (k : ℤ)) :
    ∃ x, r.encode env c y = .ok x ∧ r.decode env c x = .ok (d.valueAt env k) := by
  obtain ⟨_, _, _, _, _, _, _, _, hri⟩ := finrange_fields hmk
  obtain ⟨x, e1, e2⟩ := int_roundtrip hri heps heps2 (scaleOK_lin env _ _) (k := (k : ℤ))
    (by omega) (by omega)
  refine ⟨x, ?_, ?_⟩
  · unfold FinRange.encode; rw [hm]; exact e1
  · unfold FinRange.decode; rw [e2]; simp only; rw [fin_mapFromInt hmk]

/-- `step = 0` (one value, or `lower = upper`): everything encodes to index 0 and all listed
values coincide -/
theorem fin_roundtrip_step0 {env : Env} {c : Consts} {d : FinDom} {r : FinRange} (hok : d.ok = true)
    (hmk : mkFin env c d.lower d.upper d.size (if d.log then .log else .lin) d.castInt = .ok r)
    (heps : 0 ≤ c.eps) (heps2 : c.eps ≤ 1 / 2) (hs : d.step env = 0) (y : ℚ) (k : ℕ) :
    ∃ x, r.encode env c y = .ok x ∧ r.decode env c x = .ok (d.valueAt env k) := by
  obtain ⟨_, _, h3, _⟩ := finrange_fields hmk
  obtain ⟨_, hsz, _⟩ := fin_ok hok
  rw [fin_valueAt_step0 env d hs k]
  refine fin_roundtrip_of_mapToInt hmk heps heps2 (by omega) ?_
  unfold FinRange.mapToInt
  rw [h3, if_pos hs]; rfl

/-- `step ≠ 0`: a number whose internal value lies within half a step of the `k`-th grid point
is encoded to index `k` -/
theorem fin_roundtrip_near {env : Env} {c : Consts} {d : FinDom} {r : FinRange}
    (hmk : mkFin env c d.lower d.upper d.size (if d.log then .log else .lin) d.castInt = .ok r)
    (heps : 0 ≤ c.eps) (heps2 : c.eps ≤ 1 / 2) (hs : d.step env ≠ 0) {y t : ℚ} {k : ℕ}
    (hk : k < d.size) (hy : env.toInternal r.scale y = .ok t)
    (hlo : (k : ℚ) - 1 / 2 < (clipR t (d.lowInt env) (d.upInt env) - d.lowInt env) / d.step env)
    (hhi : (clipR t (d.lowInt env) (d.upInt env) - d.lowInt env) / d.step env < (k : ℚ) + 1 / 2) :
    ∃ x, r.encode env c y = .ok x ∧ r.decode env c x = .ok (d.valueAt env k) := by
  obtain ⟨h1, h2, h3, _⟩ := finrange_fields hmk
  refine fin_roundtrip_of_mapToInt hmk heps heps2 hk ?_
  unfold FinRange.mapToInt FinRange.indexPre
  rw [h3, if_neg hs, hy, h1, h2]
  simp only
  have hc : ((k : ℕ) : ℚ) = (((k : ℕ) : ℤ) : ℚ) := (Int.cast_natCast k).symm
  rw [hc] at hlo hhi
  rw [le_antisymm (rhe_le hhi) (rhe_ge hlo)]

/-- a number whose internal value is exactly the `k`-th grid point -/
theorem fin_roundtrip_grid {env : Env} {c : Consts} {d : FinDom} {r : FinRange} (hok : d.ok = true)
    (hmk : mkFin env c d.lower d.upper d.size (if d.log then .log else .lin) d.castInt = .ok r)
    (heps : 0 ≤ c.eps) (heps2 : c.eps ≤ 1 / 2) (hmono : d.lowInt env ≤ d.upInt env) {y : ℚ} {k : ℕ}
    (hk : k < d.size)
    (hy : env.toInternal r.scale y = .ok ((k : ℚ) * d.step env + d.lowInt env)) :
    ∃ x, r.encode env c y = .ok x ∧ r.decode env c x = .ok (d.valueAt env k) := by
  by_cases hs : d.step env = 0
  · exact fin_roundtrip_step0 hok hmk heps heps2 hs y k
  · obtain ⟨_, g1, g2⟩ := fin_grid_range env d hmono hk
    have hq : (clipR ((k : ℚ) * d.step env + d.lowInt env) (d.lowInt env) (d.upInt env)
        - d.lowInt env) / d.step env = (k : ℚ) := by
      rw [clipR_id g1 g2, add_sub_cancel_right, mul_div_cancel_right₀ _ hs]
    refine fin_roundtrip_near hmk heps heps2 hs hk hy ?_ ?_ <;> rw [hq] <;> linarith

end SyneTune.Dom
