import SyneTune.Lemmas.DomainsCont
/- C07 helper lemmas: the finite-range domain `FinDom` (`config_space.FiniteRange`) and its
encoder `FinRange` (`HyperparameterRangeFiniteRange`). -/
namespace SyneTune.Dom
open SyneTune

/-- the scaling `HyperparameterRangesImpl` passes to the encoder of a `FiniteRange` -/
theorem fin_encScale (d : FinDom) :
    (Domain.fin d).encScale = if d.log then ScaleKind.log else ScaleKind.lin := by
  cases h : d.log <;> simp [Domain.encScale, Domain.isLog, Domain.isRLog, h]

/-- what `FiniteRange.__init__` asserts -/
theorem fin_ok {d : FinDom} (hok : d.ok = true) :
    d.lower ≤ d.upper ∧ 1 ≤ d.size ∧ (d.log = true → 0 < d.lower) := by
  unfold FinDom.ok at hok
  simp only [Bool.and_eq_true, Bool.or_eq_true, decide_eq_true_eq, Bool.not_eq_true'] at hok
  obtain ⟨⟨h1, h2⟩, h3⟩ := hok
  refine ⟨h1, h2, fun hl => ?_⟩
  rcases h3 with h3 | h3
  · rw [hl] at h3; cases h3
  · exact h3

/-! ### the listed values -/

theorem fin_values_length (env : Env) (d : FinDom) : (d.values env).length = d.size := by
  simp [FinDom.values]

theorem fin_values_getElem (env : Env) (d : FinDom) (k : ℕ) (h : k < d.size) :
    (d.values env)[k]? = some (d.valueAt env k) := by
  simp [FinDom.values, h]

theorem fin_valueAt_mem (env : Env) (d : FinDom) (k : ℕ) (h : k < d.size) :
    d.valueAt env k ∈ d.values env :=
  List.mem_map.mpr ⟨k, List.mem_range.mpr h, rfl⟩

theorem fin_mem_values {env : Env} {d : FinDom} {v : Val} (h : v ∈ d.values env) :
    ∃ k, k < d.size ∧ v = d.valueAt env k := by
  obtain ⟨k, hk, e⟩ := List.mem_map.mp h
  exact ⟨k, List.mem_range.mp hk, e.symm⟩

/-- **samples are listed values** (`randint(0, size-1)` index) -/
theorem fin_sample_member (env : Env) (d : FinDom) (k : ℤ) (h0 : 0 ≤ k) (h1 : k < d.size) :
    ∃ v, d.sample env (.idx k) = .ok v ∧ v ∈ d.values env := by
  have hk : k.toNat < d.size := by omega
  refine ⟨d.valueAt env k.toNat, ?_, fin_valueAt_mem env d _ hk⟩
  simp only [FinDom.sample, fin_values_getElem env d _ hk]

theorem fin_mapToInt_lt (env : Env) (d : FinDom) (hok : d.ok = true) (x : ℚ) :
    d.mapToInt env x < d.size := by
  obtain ⟨_, hs, _⟩ := fin_ok hok
  unfold FinDom.mapToInt
  split
  · omega
  · have := clipI_mem (x := roundHalfEven (d.indexPre env x)) (lo := 0) (hi := (d.size : ℤ) - 1)
      (by omega)
    omega

/-- **`cast` of a number is a listed value** (the index is clipped) -/
theorem fin_cast_member (env : Env) (d : FinDom) (hok : d.ok = true) (x : Val) (r : ℚ)
    (hx : x.num? = some r) : ∃ v, d.cast env x = .ok v ∧ v ∈ d.values env := by
  have hk := fin_mapToInt_lt env d hok r
  refine ⟨d.valueAt env (d.mapToInt env r), ?_, fin_valueAt_mem env d _ hk⟩
  simp only [FinDom.cast, hx, fin_values_getElem env d _ hk]

/-! ### the encoder built for a `FinDom` -/

theorem fin_toI_lower (env : Env) (d : FinDom) :
    toI env (if d.log then ScaleKind.log else ScaleKind.lin) d.lower = d.lowInt env := by
  unfold FinDom.lowInt
  cases d.log <;> rfl

theorem fin_toI_upper (env : Env) (d : FinDom) :
    toI env (if d.log then ScaleKind.log else ScaleKind.lin) d.upper = d.upInt env := by
  unfold FinDom.upInt
  cases d.log <;> rfl

/-- all fields of the encoder in terms of the domain -/
theorem finrange_fields {env : Env} {c : Consts} {d : FinDom} {r : FinRange}
    (hmk : mkFin env c d.lower d.upper d.size (if d.log then .log else .lin) d.castInt = .ok r) :
    r.lowInt = d.lowInt env ∧ r.upInt = d.upInt env ∧ r.step = d.step env ∧ r.lower = d.lower ∧
    r.upper = d.upper ∧ r.size = d.size ∧ r.castInt = d.castInt ∧
    r.scale = (if d.log then ScaleKind.log else ScaleKind.lin) ∧
    mkInt env c 0 ((d.size : ℤ) - 1) .lin none none = .ok r.rint := by
  unfold mkFin at hmk
  split at hmk
  · split at hmk
    · rename_i a b ri ha hb hri
      injection hmk with hmk
      obtain ⟨_, ea⟩ := toInternal_eq_ok ha
      obtain ⟨_, eb⟩ := toInternal_eq_ok hb
      rw [fin_toI_lower] at ea
      rw [fin_toI_upper] at eb
      subst hmk ea eb
      exact ⟨rfl, rfl, rfl, rfl, rfl, rfl, rfl, rfl, hri⟩
    · cases hmk
    · cases hmk
    · cases hmk
  · cases hmk

theorem fin_mapFromInt {env : Env} {c : Consts} {d : FinDom} {r : FinRange}
    (hmk : mkFin env c d.lower d.upper d.size (if d.log then .log else .lin) d.castInt = .ok r)
    (k : ℕ) : r.mapFromInt env (k : ℤ) = d.valueAt env k := by
  obtain ⟨h1, _, h3, h4, h5, _, h7, h8, _⟩ := finrange_fields hmk
  have hv : r.valuePre env (k : ℤ) = d.valuePre env k := by
    unfold FinRange.valuePre FinDom.valuePre
    rw [h1, h3, h4, h5, h8]
    cases h : d.log <;> simp [Env.fromInternal]
  unfold FinRange.mapFromInt FinDom.valueAt
  rw [hv, h7]

/-- the encoder `HyperparameterRangesImpl` builds for a `FiniteRange` has the fields of the
domain and the same `_map_from_int` -/
theorem finrange_link {env : Env} {c : Consts} {d : FinDom} {r : FinRange} (_hok : d.ok = true)
    (hmk : mkFin env c d.lower d.upper d.size (if d.log then .log else .lin) d.castInt = .ok r) :
    (r.lowInt = d.lowInt env ∧ r.upInt = d.upInt env ∧ r.step = d.step env ∧ r.lower = d.lower ∧
      r.upper = d.upper ∧ r.size = d.size ∧ r.castInt = d.castInt) ∧
    (∀ k : ℕ, r.mapFromInt env (k : ℤ) = d.valueAt env k) ∧
    mkInt env c 0 ((d.size : ℤ) - 1) .lin none none = .ok r.rint := by
  obtain ⟨h1, h2, h3, h4, h5, h6, h7, _, h9⟩ := finrange_fields hmk
  exact ⟨⟨h1, h2, h3, h4, h5, h6, h7⟩, fin_mapFromInt hmk, h9⟩

/-- **decoded values are listed values**; exactly the inputs outside `[-EPS, 1+EPS]` are rejected -/
theorem fin_decode_member {env : Env} {c : Consts} {d : FinDom} {r : FinRange} (_hok : d.ok = true)
    (hmk : mkFin env c d.lower d.upper d.size (if d.log then .log else .lin) d.castInt = .ok r)
    (x : ℚ) :
    (-c.eps ≤ x ∧ x ≤ 1 + c.eps → ∃ v, r.decode env c x = .ok v ∧ v ∈ d.values env) ∧
    (¬ (-c.eps ≤ x ∧ x ≤ 1 + c.eps) → r.decode env c x = .error .assertion) := by
  obtain ⟨_, _, _, _, _, _, _, _, hri⟩ := finrange_fields hmk
  have hd := int_decode_member hri x
  unfold FinRange.decode
  constructor
  · intro hx
    obtain ⟨k, hk, k0, k1⟩ := hd.1 hx
    rw [hk]
    refine ⟨_, rfl, ?_⟩
    have hkn : ((k.toNat : ℕ) : ℤ) = k := Int.toNat_of_nonneg k0
    rw [← hkn, fin_mapFromInt hmk]
    exact fin_valueAt_mem env d _ (by omega)
  · intro hx
    rw [hd.2 hx]

/-- **encodings lie in the unit interval** -/
theorem fin_encode_cube {env : Env} {c : Consts} {r : FinRange} {y x : ℚ}
    (h : r.encode env c y = .ok x) : 0 ≤ x ∧ x ≤ 1 := by
  unfold FinRange.encode at h
  split at h
  · exact int_encode_cube h
  · cases h

/-! ### round trips -/

/-- the grid `k * step + lowInt`, `k < size`, stays inside `[lowInt, upInt]` -/
theorem fin_grid_range (env : Env) (d : FinDom) (hmono : d.lowInt env ≤ d.upInt env) {k : ℕ}
    (hk : k < d.size) :
    0 ≤ d.step env ∧ d.lowInt env ≤ (k : ℚ) * d.step env + d.lowInt env ∧
      (k : ℚ) * d.step env + d.lowInt env ≤ d.upInt env := by
  unfold FinDom.step
  split
  · rename_i h1
    have hn : (0 : ℚ) < ((d.size - 1 : ℕ) : ℚ) := by
      have : 0 < d.size - 1 := by omega
      exact_mod_cast this
    have hkn : (k : ℚ) ≤ ((d.size - 1 : ℕ) : ℚ) := by
      have : k ≤ d.size - 1 := by omega
      exact_mod_cast this
    have hq : 0 ≤ (d.upInt env - d.lowInt env) / ((d.size - 1 : ℕ) : ℚ) :=
      div_nonneg (by linarith) (le_of_lt hn)
    have h2 := mul_le_mul_of_nonneg_right hkn hq
    have h3 : ((d.size - 1 : ℕ) : ℚ) * ((d.upInt env - d.lowInt env) / ((d.size - 1 : ℕ) : ℚ))
        = d.upInt env - d.lowInt env := by
      field_simp
    have h4 : 0 ≤ (k : ℚ) * ((d.upInt env - d.lowInt env) / ((d.size - 1 : ℕ) : ℚ)) :=
      mul_nonneg (by positivity) hq
    refine ⟨hq, by linarith, by linarith⟩
  · refine ⟨le_refl _, ?_, ?_⟩ <;> simp only [mul_zero, zero_add] <;> linarith

theorem fin_valueAt_step0 (env : Env) (d : FinDom) (hs : d.step env = 0) (k : ℕ) :
    d.valueAt env k = d.valueAt env 0 := by
  unfold FinDom.valueAt FinDom.valuePre
  simp only [hs, mul_zero]

/-- if `_map_to_int` returns the index `k`, encoding then decoding returns the `k`-th value -/
theorem fin_roundtrip_of_mapToInt {env : Env} {c : Consts} {d : FinDom} {r : FinRange}
    (hmk : mkFin env c d.lower d.upper d.size (if d.log then .log else .lin) d.castInt = .ok r)
    (heps : 0 ≤ c.eps) (heps2 : c.eps ≤ 1 / 2) {y : ℚ} {k : ℕ} (hk : k < d.size)
    (hm : r.mapToInt env y = .ok (k : ℤ)) :
    ∃ x, r.encode env c y = .ok x ∧ r.decode env c x = .ok (d.valueAt env k) := by
  obtain ⟨_, _, _, _, _, _, _, _, hri⟩ := finrange_fields hmk
  obtain ⟨x, e1, e2⟩ := int_roundtrip hri heps heps2 (scaleOK_lin env _ _) (k := (k : ℤ))
    (by omega) (by omega)
  refine ⟨x, ?_, ?_⟩
  · unfold FinRange.encode; rw [hm]; exact e1
  · unfold FinRange.decode; rw [e2]; simp only; rw [fin_mapFromInt hmk]

/-- `step = 0` (one value, or `lower = upper`): everything encodes to index 0 and all listed
values coincide -/
theorem fin_roundtrip_step0 {env : Env} {c : Consts} {d : FinDom} {r : FinRange} (hok : d.ok = true)
    (hmk : mkFin env c d.lower d.upper d.size (if d.log then .log else .lin) d.castInt = .ok r)
    (heps : 0 ≤ c.eps) (heps2 : c.eps ≤ 1 / 2) (hs : d.step env = 0) (y : ℚ) (k : ℕ) :
    ∃ x, r.encode env c y = .ok x ∧ r.decode env c x = .ok (d.valueAt env k) := by
  obtain ⟨_, _, h3, _⟩ := finrange_fields hmk
  obtain ⟨_, hsz, _⟩ := fin_ok hok
  rw [fin_valueAt_step0 env d hs k]
  refine fin_roundtrip_of_mapToInt hmk heps heps2 (by omega) ?_
  unfold FinRange.mapToInt
  rw [h3, if_pos hs]; rfl

/-- `step ≠ 0`: a number whose internal value lies within half a step of the `k`-th grid point
is encoded to index `k` -/
theorem fin_roundtrip_near {env : Env} {c : Consts} {d : FinDom} {r : FinRange}
    (hmk : mkFin env c d.lower d.upper d.size (if d.log then .log else .lin) d.castInt = .ok r)
    (heps : 0 ≤ c.eps) (heps2 : c.eps ≤ 1 / 2) (hs : d.step env ≠ 0) {y t : ℚ} {k : ℕ}
    (hk : k < d.size) (hy : env.toInternal r.scale y = .ok t)
    (hlo : (k : ℚ) - 1 / 2 < (clipR t (d.lowInt env) (d.upInt env) - d.lowInt env) / d.step env)
    (hhi : (clipR t (d.lowInt env) (d.upInt env) - d.lowInt env) / d.step env < (k : ℚ) + 1 / 2) :
    ∃ x, r.encode env c y = .ok x ∧ r.decode env c x = .ok (d.valueAt env k) := by
  obtain ⟨h1, h2, h3, _⟩ := finrange_fields hmk
  refine fin_roundtrip_of_mapToInt hmk heps heps2 hk ?_
  unfold FinRange.mapToInt FinRange.indexPre
  rw [h3, if_neg hs, hy, h1, h2]
  simp only
  have hc : ((k : ℕ) : ℚ) = (((k : ℕ) : ℤ) : ℚ) := (Int.cast_natCast k).symm
  rw [hc] at hlo hhi
  rw [le_antisymm (rhe_le hhi) (rhe_ge hlo)]

/-- a number whose internal value is exactly the `k`-th grid point -/
theorem fin_roundtrip_grid {env : Env} {c : Consts} {d : FinDom} {r : FinRange} (hok : d.ok = true)
    (hmk : mkFin env c d.lower d.upper d.size (if d.log then .log else .lin) d.castInt = .ok r)
    (heps : 0 ≤ c.eps) (heps2 : c.eps ≤ 1 / 2) (hmono : d.lowInt env ≤ d.upInt env) {y : ℚ} {k : ℕ}
    (hk : k < d.size)
    (hy : env.toInternal r.scale y = .ok ((k : ℚ) * d.step env + d.lowInt env)) :
    ∃ x, r.encode env c y = .ok x ∧ r.decode env c x = .ok (d.valueAt env k) := by
  by_cases hs : d.step env = 0
  · exact fin_roundtrip_step0 hok hmk heps heps2 hs y k
  · obtain ⟨_, g1, g2⟩ := fin_grid_range env d hmono hk
    have hq : (clipR ((k : ℚ) * d.step env + d.lowInt env) (d.lowInt env) (d.upInt env)
        - d.lowInt env) / d.step env = (k : ℚ) := by
      rw [clipR_id g1 g2, add_sub_cancel_right, mul_div_cancel_right₀ _ hs]
    refine fin_roundtrip_near hmk heps heps2 hs hk hy ?_ ?_ <;> rw [hq] <;> linarith

theorem fin_lowInt_lin (env : Env) (d : FinDom) (hl : d.log = false) : d.lowInt env = d.lower := by
  simp [FinDom.lowInt, hl]

theorem fin_upInt_lin (env : Env) (d : FinDom) (hl : d.log = false) : d.upInt env = d.upper := by
  simp [FinDom.upInt, hl]

/-- linear grid: the clip of `_map_from_int` is the identity on listed indices -/
theorem fin_valuePre_lin (env : Env) (d : FinDom) (hok : d.ok = true) (hl : d.log = false) {k : ℕ}
    (hk : k < d.size) :
    d.valuePre env k = (k : ℚ) * d.step env + d.lower ∧ d.lower ≤ d.valuePre env k ∧
      d.valuePre env k ≤ d.upper := by
  obtain ⟨hle, _, _⟩ := fin_ok hok
  have hL := fin_lowInt_lin env d hl
  have hU := fin_upInt_lin env d hl
  obtain ⟨_, g1, g2⟩ := fin_grid_range env d (by rw [hL, hU]; exact hle) hk
  rw [hL] at g1 g2
  rw [hU] at g2
  have hv : d.valuePre env k = (k : ℚ) * d.step env + d.lower := by
    unfold FinDom.valuePre
    simp only [hl, hL, Bool.false_eq_true, if_false]
    exact clipR_id g1 g2
  rw [hv]
  exact ⟨rfl, g1, g2⟩

/-- **round trip, linear grid of floats**: `decode (encode v) = v` for every listed value -/
theorem fin_roundtrip_lin {env : Env} {c : Consts} {d : FinDom} {r : FinRange} (hok : d.ok = true)
    (hmk : mkFin env c d.lower d.upper d.size (if d.log then .log else .lin) d.castInt = .ok r)
    (hl : d.log = false) (_hc : d.castInt = false) (heps : 0 ≤ c.eps) (heps2 : c.eps ≤ 1 / 2)
    {k : ℕ} (hk : k < d.size) :
    ∃ x, r.encode env c (d.valuePre env k) = .ok x ∧ r.decode env c x = .ok (d.valueAt env k) := by
  obtain ⟨hle, _, _⟩ := fin_ok hok
  have hL := fin_lowInt_lin env d hl
  have hU := fin_upInt_lin env d hl
  obtain ⟨_, _, _, _, _, _, _, h8, _⟩ := finrange_fields hmk
  have hsc : r.scale = .lin := by rw [h8, hl]; rfl
  refine fin_roundtrip_grid hok hmk heps heps2 (by rw [hL, hU]; exact hle) hk ?_
  rw [hsc, (fin_valuePre_lin env d hok hl hk).1, hL]
  rfl

/-- **round trip, logarithmic grid of floats**, under the properties of `log` / `exp` the abstract
scaling must have on the internal interval: `log (exp t) = t`, `log lower ≤ log upper`, and
`exp t ∈ [lower, upper]` (so that the clip of `_map_from_int` is the identity).
(`0 < exp t` follows from `0 < lower ≤ exp t`.) -/
theorem fin_roundtrip_log {env : Env} {c : Consts} {d : FinDom} {r : FinRange} (hok : d.ok = true)
    (hmk : mkFin env c d.lower d.upper d.size (if d.log then .log else .lin) d.castInt = .ok r)
    (hl : d.log = true) (_hc : d.castInt = false) (heps : 0 ≤ c.eps) (heps2 : c.eps ≤ 1 / 2)
    (hinv1 : ∀ t, d.lowInt env ≤ t → t ≤ d.upInt env → env.log.toInt (env.log.fromInt t) = t)
    (hmono : d.lowInt env ≤ d.upInt env)
    (hrange : ∀ t, d.lowInt env ≤ t → t ≤ d.upInt env →
      d.lower ≤ env.log.fromInt t ∧ env.log.fromInt t ≤ d.upper)
    {k : ℕ} (hk : k < d.size) :
    ∃ x, r.encode env c (d.valuePre env k) = .ok x ∧ r.decode env c x = .ok (d.valueAt env k) := by
  obtain ⟨_, _, hpos⟩ := fin_ok hok
  obtain ⟨_, _, _, _, _, _, _, h8, _⟩ := finrange_fields hmk
  have hsc : r.scale = .log := by rw [h8, hl]; rfl
  obtain ⟨_, g1, g2⟩ := fin_grid_range env d hmono hk
  obtain ⟨r1, r2⟩ := hrange _ g1 g2
  have hv : d.valuePre env k = env.log.fromInt ((k : ℚ) * d.step env + d.lowInt env) := by
    unfold FinDom.valuePre
    simp only [hl, if_true]
    exact clipR_id r1 r2
  refine fin_roundtrip_grid hok hmk heps heps2 hmono hk ?_
  have hp : 0 < env.log.fromInt ((k : ℚ) * d.step env + d.lowInt env) :=
    lt_of_lt_of_le (hpos hl) r1
  rw [hsc, hv]
  simp only [Env.toInternal]
  rw [if_pos hp, hinv1 _ g1 g2]

/-- **`cast` is the identity on listed values** (linear grid of floats) -/
theorem fin_cast_idem_lin (env : Env) (d : FinDom) (hok : d.ok = true) (hl : d.log = false)
    (_hc : d.castInt = false) {k : ℕ} (hk : k < d.size) :
    d.cast env (.flt (d.valuePre env k)) = .ok (d.valueAt env k) := by
  obtain ⟨hv, v1, v2⟩ := fin_valuePre_lin env d hok hl hk
  have hL := fin_lowInt_lin env d hl
  have hm : d.valueAt env (d.mapToInt env (d.valuePre env k)) = d.valueAt env k := by
    by_cases hs : d.step env = 0
    · rw [fin_valueAt_step0 env d hs k, fin_valueAt_step0 env d hs (d.mapToInt env _)]
    · have hi : d.indexPre env (d.valuePre env k) = (((k : ℕ) : ℤ) : ℚ) := by
        unfold FinDom.indexPre
        simp only [hl, hL, Bool.false_eq_true, if_false]
        rw [clipR_id v1 v2, hv, add_sub_cancel_right, mul_div_cancel_right₀ _ hs, Int.cast_natCast]
      unfold FinDom.mapToInt
      rw [if_neg hs, hi, rhe_int, clipI_id (by omega) (by omega), Int.toNat_natCast]
  unfold FinDom.cast
  simp only [Val.num?]
  rw [fin_values_getElem env d _ (fin_mapToInt_lt env d hok _), hm]

/-- **round trip, linear grid cast to integers** — partial: restricted to spacing `1 < step`, so
that rounding a grid point to an integer cannot move it to another grid index.
(The statement without `hstep` is `fin_roundtrip_castint_lin` below.) -/
theorem fin_roundtrip_castint_partial {env : Env} {c : Consts} {d : FinDom} {r : FinRange}
    (hok : d.ok = true)
    (hmk : mkFin env c d.lower d.upper d.size (if d.log then .log else .lin) d.castInt = .ok r)
    (hl : d.log = false) (_hc : d.castInt = true) (heps : 0 ≤ c.eps) (heps2 : c.eps ≤ 1 / 2)
    (hstep : 1 < d.step env) {k : ℕ} (hk : k < d.size) :
    ∃ x, r.encode env c ((roundHalfEven (d.valuePre env k) : ℤ) : ℚ) = .ok x ∧
      r.decode env c x = .ok (d.valueAt env k) := by
  obtain ⟨hv, v1, v2⟩ := fin_valuePre_lin env d hok hl hk
  have hL := fin_lowInt_lin env d hl
  have hU := fin_upInt_lin env d hl
  obtain ⟨_, _, _, _, _, _, _, h8, _⟩ := finrange_fields hmk
  have hsc : r.scale = .lin := by rw [h8, hl]; rfl
  obtain ⟨a1, a2⟩ := rhe_abs (d.valuePre env k)
  have hspos : 0 < d.step env := by linarith
  generalize ((roundHalfEven (d.valuePre env k) : ℤ) : ℚ) = y at a1 a2 ⊢
  have hw : d.valuePre env k - 1 / 2 ≤ clipR y d.lower d.upper ∧
      clipR y d.lower d.upper ≤ d.valuePre env k + 1 / 2 := by
    unfold clipR
    dsimp only
    split_ifs <;> constructor <;> linarith
  have hy : env.toInternal r.scale y = .ok y := by rw [hsc]; rfl
  refine fin_roundtrip_near hmk heps heps2 (ne_of_gt hspos) hk hy ?_ ?_
  · rw [hL, hU, lt_div_iff₀ hspos]
    linarith [hw.1]
  · rw [hL, hU, div_lt_iff₀ hspos]
    linarith [hw.2]

/-! ### rounding facts used for `cast_int` grids -/

theorem rhe_half (m : ℤ) : roundHalfEven ((m : ℚ) + 1 / 2) = if m % 2 = 0 then m else m + 1 := by
  have hf : ⌊(m : ℚ) + 1 / 2⌋ = m := by
    rw [Int.floor_eq_iff]; constructor <;> linarith
  have key : roundHalfEven ((m : ℚ) + 1 / 2) =
      (if (m : ℚ) + 1 / 2 - (⌊(m : ℚ) + 1 / 2⌋ : ℚ) < 1 / 2 then ⌊(m : ℚ) + 1 / 2⌋
      else if 1 / 2 < (m : ℚ) + 1 / 2 - (⌊(m : ℚ) + 1 / 2⌋ : ℚ) then ⌊(m : ℚ) + 1 / 2⌋ + 1
      else if ⌊(m : ℚ) + 1 / 2⌋ % 2 = 0 then ⌊(m : ℚ) + 1 / 2⌋ else ⌊(m : ℚ) + 1 / 2⌋ + 1) := rfl
  rw [key, hf]
  have e : (m : ℚ) + 1 / 2 - (m : ℚ) = 1 / 2 := by ring
  rw [e, if_neg (lt_irrefl _), if_neg (lt_irrefl _)]

/-- a tie that is rounded to `w` shows `w` is even -/
theorem rhe_tie_even {a : ℚ} {w : ℤ} (ha : roundHalfEven a = w)
    (h : a = (w : ℚ) + 1 / 2 ∨ a = (w : ℚ) - 1 / 2) : w % 2 = 0 := by
  rcases h with h | h
  · rw [h, rhe_half] at ha
    split at ha <;> omega
  · have e : (w : ℚ) - 1 / 2 = ((w - 1 : ℤ) : ℚ) + 1 / 2 := by push_cast; ring
    rw [h, e, rhe_half] at ha
    split at ha <;> omega

theorem rhe_even_tie {b : ℚ} {w : ℤ} (hev : w % 2 = 0)
    (h : b = (w : ℚ) + 1 / 2 ∨ b = (w : ℚ) - 1 / 2) : roundHalfEven b = w := by
  rcases h with h | h
  · rw [h, rhe_half, if_pos hev]
  · have e : (w : ℚ) - 1 / 2 = ((w - 1 : ℤ) : ℚ) + 1 / 2 := by push_cast; ring
    rw [h, e, rhe_half, if_neg (by omega)]
    omega

/-- a number at most as far from the integer `w` as a number that rounds to `w` rounds to `w` -/
theorem rhe_closer {a b : ℚ} {w : ℤ} (ha : roundHalfEven a = w) (h : |b - w| ≤ |a - w|) :
    roundHalfEven b = w := by
  obtain ⟨a1, a2⟩ := rhe_abs a
  rw [ha] at a1 a2
  have haw : |a - w| ≤ 1 / 2 := abs_le.mpr ⟨by linarith, by linarith⟩
  obtain ⟨b1, b2⟩ := abs_le.mp (le_trans h haw)
  by_cases h1 : (w : ℚ) - 1 / 2 < b
  · by_cases h2 : b < (w : ℚ) + 1 / 2
    · exact le_antisymm (rhe_le h2) (rhe_ge h1)
    · have hb : b = (w : ℚ) + 1 / 2 := by linarith
      have : (1 : ℚ) / 2 ≤ |a - w| := by
        refine le_trans ?_ h
        have e : (w : ℚ) + 1 / 2 - w = 1 / 2 := by ring
        rw [hb, e, abs_of_pos (by norm_num)]
      rcases le_abs'.mp this with h3 | h3
      · exact rhe_even_tie (rhe_tie_even ha (Or.inr (by linarith))) (Or.inl hb)
      · exact rhe_even_tie (rhe_tie_even ha (Or.inl (by linarith))) (Or.inl hb)
  · have hb : b = (w : ℚ) - 1 / 2 := by linarith
    have : (1 : ℚ) / 2 ≤ |a - w| := by
      refine le_trans ?_ h
      have e : (w : ℚ) - 1 / 2 - w = -(1 / 2) := by ring
      rw [hb, e, abs_neg, abs_of_pos (by norm_num)]
    rcases le_abs'.mp this with h3 | h3
    · exact rhe_even_tie (rhe_tie_even ha (Or.inr (by linarith))) (Or.inr hb)
    · exact rhe_even_tie (rhe_tie_even ha (Or.inl (by linarith))) (Or.inr hb)

/-- `round q` is a nearest integer to `q` -/
theorem rhe_nearest (q : ℚ) (k : ℤ) : |q - (roundHalfEven q : ℚ)| ≤ |q - (k : ℚ)| := by
  obtain ⟨a1, a2⟩ := rhe_abs q
  rcases lt_trichotomy k (roundHalfEven q) with h | h | h
  · have h' : (k : ℚ) + 1 ≤ (roundHalfEven q : ℚ) := by exact_mod_cast h
    have := le_abs_self (q - (k : ℚ))
    exact abs_le.mpr ⟨by linarith, by linarith⟩
  · rw [h]
  · have h' : (roundHalfEven q : ℚ) + 1 ≤ (k : ℚ) := by exact_mod_cast h
    have := neg_abs_le (q - (k : ℚ))
    exact abs_le.mpr ⟨by linarith, by linarith⟩

theorem clip_closer {w lo hi vj vk : ℚ} (hj : lo ≤ vj ∧ vj ≤ hi) (hk : lo ≤ vk ∧ vk ≤ hi)
    (h : |clipR w lo hi - vj| ≤ |clipR w lo hi - vk|) : |vj - w| ≤ |vk - w| := by
  unfold clipR at h
  dsimp only at h
  split_ifs at h with h1 h2 h3
  · linarith [hj.1, hj.2]
  · rw [abs_of_nonpos (by linarith [hj.1] : lo - vj ≤ 0),
      abs_of_nonpos (by linarith [hk.1] : lo - vk ≤ 0)] at h
    rw [abs_of_nonneg (by linarith [hj.1] : 0 ≤ vj - w), abs_of_nonneg (by linarith [hk.1] : 0 ≤ vk - w)]
    linarith
  · rw [abs_of_nonneg (by linarith [hj.2] : 0 ≤ hi - vj),
      abs_of_nonneg (by linarith [hk.2] : 0 ≤ hi - vk)] at h
    rw [abs_of_nonpos (by linarith [hj.2] : vj - w ≤ 0), abs_of_nonpos (by linarith [hk.2] : vk - w ≤ 0)]
    linarith
  · rw [abs_sub_comm vj w, abs_sub_comm vk w]; exact h

theorem fin_step_mul (env : Env) (d : FinDom) (h : 1 < d.size) :
    ((d.size - 1 : ℕ) : ℚ) * d.step env = d.upInt env - d.lowInt env := by
  have hn : (0 : ℚ) < ((d.size - 1 : ℕ) : ℚ) := by
    have : 0 < d.size - 1 := by omega
    exact_mod_cast this
  unfold FinDom.step
  rw [if_pos h]
  field_simp

/-- **round trip, linear grid cast to integers** (full statement, no restriction on the spacing):
encoding the integer `round(v_k)` and decoding returns `round(v_k)`.  The index found by the
encoder may differ from `k`, but its value rounds to the same integer (ties included: a tie
rounded to `w` makes `w` even, and then both `w ± 1/2` round to `w`). -/
theorem fin_roundtrip_castint_lin {env : Env} {c : Consts} {d : FinDom} {r : FinRange}
    (hok : d.ok = true)
    (hmk : mkFin env c d.lower d.upper d.size (if d.log then .log else .lin) d.castInt = .ok r)
    (hl : d.log = false) (hc : d.castInt = true) (heps : 0 ≤ c.eps) (heps2 : c.eps ≤ 1 / 2)
    {k : ℕ} (hk : k < d.size) :
    ∃ x, r.encode env c ((roundHalfEven (d.valuePre env k) : ℤ) : ℚ) = .ok x ∧
      r.decode env c x = .ok (d.valueAt env k) := by
  by_cases hs : d.step env = 0
  · exact fin_roundtrip_step0 hok hmk heps heps2 hs _ k
  obtain ⟨hle, _, _⟩ := fin_ok hok
  obtain ⟨hv, v1, v2⟩ := fin_valuePre_lin env d hok hl hk
  have hL := fin_lowInt_lin env d hl
  have hU := fin_upInt_lin env d hl
  obtain ⟨h1, h2, h3, _, _, _, _, h8, _⟩ := finrange_fields hmk
  have hsc : r.scale = .lin := by rw [h8, hl]; rfl
  have hs0 := (fin_grid_range env d (by rw [hL, hU]; exact hle) hk).1
  have hspos : 0 < d.step env := lt_of_le_of_ne hs0 (Ne.symm hs)
  have hsize : 1 < d.size := by
    by_contra h
    apply hs
    unfold FinDom.step
    rw [if_neg h]
  have hmul := fin_step_mul env d hsize
  rw [hL, hU] at hmul
  generalize hw : roundHalfEven (d.valuePre env k) = w
  obtain ⟨c1, c2⟩ := clipR_mem (x := (w : ℚ)) hle
  generalize hw' : clipR (w : ℚ) d.lower d.upper = w' at c1 c2
  have hq0 : 0 ≤ (w' - d.lower) / d.step env := div_nonneg (by linarith) hs0
  have hq1 : (w' - d.lower) / d.step env ≤ ((d.size - 1 : ℕ) : ℚ) := by
    rw [div_le_iff₀ hspos, hmul]; linarith
  have hqs : (w' - d.lower) / d.step env * d.step env = w' - d.lower := div_mul_cancel₀ _ hs
  have near := rhe_nearest ((w' - d.lower) / d.step env) (k : ℤ)
  generalize hq : (w' - d.lower) / d.step env = q at hq0 hq1 hqs near
  have hj0 : 0 ≤ roundHalfEven q := rhe_ge_of_le (k := 0) (by simpa using hq0)
  have hj1 : roundHalfEven q ≤ ((d.size - 1 : ℕ) : ℤ) := rhe_le_of_le (by exact_mod_cast hq1)
  have hjlt : (roundHalfEven q).toNat < d.size := by omega
  have hjn : (((roundHalfEven q).toNat : ℕ) : ℤ) = roundHalfEven q := Int.toNat_of_nonneg hj0
  have hm : r.mapToInt env (w : ℚ) = .ok (((roundHalfEven q).toNat : ℕ) : ℤ) := by
    unfold FinRange.mapToInt FinRange.indexPre
    rw [h3, if_neg hs, hsc, h1, h2, hL, hU, hjn]
    simp only [Env.toInternal]
    rw [hw', hq]
  obtain ⟨x, e1, e2⟩ := fin_roundtrip_of_mapToInt hmk heps heps2 hjlt hm
  refine ⟨x, e1, ?_⟩
  rw [e2]
  obtain ⟨hvj, vj1, vj2⟩ := fin_valuePre_lin env d hok hl hjlt
  have hJ : (((roundHalfEven q).toNat : ℕ) : ℚ) = ((roundHalfEven q : ℤ) : ℚ) := by
    exact_mod_cast hjn
  have key : roundHalfEven (d.valuePre env (roundHalfEven q).toNat) = w := by
    apply rhe_closer hw
    apply clip_closer ⟨vj1, vj2⟩ ⟨v1, v2⟩
    rw [hw']
    have ej : w' - d.valuePre env (roundHalfEven q).toNat
        = (q - ((roundHalfEven q : ℤ) : ℚ)) * d.step env := by
      rw [hvj, hJ, sub_mul, hqs]; ring
    have ek : w' - d.valuePre env k = (q - ((k : ℤ) : ℚ)) * d.step env := by
      rw [hv, sub_mul, hqs]; push_cast; ring
    rw [ej, ek, abs_mul, abs_mul, abs_of_pos hspos]
    exact mul_le_mul_of_nonneg_right near hs0
  unfold FinDom.valueAt
  rw [hc, if_pos rfl, if_pos rfl, key, hw]

/-! ### the hypotheses are satisfiable (identity scaling standing in for `log`/`exp`) -/

private def exEnv : Env := ⟨⟨id, id⟩, ⟨id, id⟩, ⟨id, id⟩⟩
private def exC : Consts := ⟨1 / 100000000, 499 / 1000, 1 / 100⟩
/-- `finrange(0.1, 1.0, 10, cast_int=True)`: spacing `1/10`, listed values `0,0,0,0,0,1,1,1,1,1` -/
private def exD : FinDom := ⟨1 / 10, 1, 10, false, true⟩
private def exL : FinDom := ⟨1, 8, 4, true, false⟩

example : (mkFin exEnv exC exD.lower exD.upper exD.size (if exD.log then .log else .lin)
    exD.castInt).isOk = true := by decide +kernel

example : exD.values exEnv
    = [.int 0, .int 0, .int 0, .int 0, .int 0, .int 1, .int 1, .int 1, .int 1, .int 1] := by
  decide +kernel

example (r : FinRange)
    (hmk : mkFin exEnv exC exD.lower exD.upper exD.size (if exD.log then .log else .lin)
      exD.castInt = .ok r) (k : ℕ) (hk : k < 10) :
    ∃ x, r.encode exEnv exC ((roundHalfEven (exD.valuePre exEnv k) : ℤ) : ℚ) = .ok x ∧
      r.decode exEnv exC x = .ok (exD.valueAt exEnv k) :=
  fin_roundtrip_castint_lin (by decide +kernel) hmk rfl rfl (by norm_num [exC]) (by norm_num [exC]) hk

example : (mkFin exEnv exC exL.lower exL.upper exL.size (if exL.log then .log else .lin)
    exL.castInt).isOk = true := by decide +kernel

example (r : FinRange)
    (hmk : mkFin exEnv exC exL.lower exL.upper exL.size (if exL.log then .log else .lin)
      exL.castInt = .ok r) (k : ℕ) (hk : k < 4) :
    ∃ x, r.encode exEnv exC (exL.valuePre exEnv k) = .ok x ∧
      r.decode exEnv exC x = .ok (exL.valueAt exEnv k) :=
  fin_roundtrip_log (by decide +kernel) hmk rfl rfl (by norm_num [exC]) (by norm_num [exC])
    (fun _ _ _ => rfl) (by decide +kernel) (fun _ h1 h2 => ⟨h1, h2⟩) hk

end SyneTune.Dom
