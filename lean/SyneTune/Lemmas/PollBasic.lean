import SyneTune.Model.PollBackend
/-
Basic lemmas for the generic poll model: `modifyAt`, the stamp sort, `newReps`.
-/
namespace SyneTune.PollL
open SyneTune SyneTune.Backend

theorem length_modifyAt {α} (f : α → α) (n : Nat) (l : List α) : (modifyAt f n l).length = l.length := by
  induction l generalizing n with
  | nil => simp [modifyAt]
  | cons x xs ih => cases n <;> simp [modifyAt, ih]

theorem getElem?_modifyAt {α} (f : α → α) (n i : Nat) (l : List α) :
    (modifyAt f n l)[i]? = if i = n then (l[i]?).map f else l[i]? := by
  induction l generalizing n i with
  | nil => simp [modifyAt]
  | cons x xs ih =>
    cases n with
    | zero => cases i <;> simp [modifyAt]
    | succ n =>
      cases i with
      | zero => simp [modifyAt]
      | succ i => simp [modifyAt, ih]

theorem mem_modifyAt {α} (f : α → α) (n : Nat) (l : List α) (y : α) (h : y ∈ modifyAt f n l) :
    y ∈ l ∨ ∃ x, l[n]? = some x ∧ y = f x := by
  induction l generalizing n with
  | nil => simp [modifyAt] at h
  | cons x xs ih =>
    cases n with
    | zero =>
      simp only [modifyAt, List.mem_cons] at h
      rcases h with h | h
      · right; exact ⟨x, by simp, h⟩
      · left; simp [h]
    | succ n =>
      simp only [modifyAt, List.mem_cons] at h
      rcases h with h | h
      · left; simp [h]
      · rcases ih n h with h' | ⟨z, hz, hy⟩
        · left; simp [h']
        · right; exact ⟨z, by simpa using hz, hy⟩

/-! ### sort by stamp -/

def StampSorted (l : List (Nat × Rep)) : Prop := l.Pairwise (fun a b => a.2.stamp ≤ b.2.stamp)

theorem insertByStamp_mem (x y : Nat × Rep) (l : List (Nat × Rep)) :
    y ∈ insertByStamp x l ↔ y = x ∨ y ∈ l := by
  induction l with
  | nil => simp [insertByStamp]
  | cons z zs ih =>
    unfold insertByStamp
    split
    · simp
    · simp only [List.mem_cons, ih]
      constructor
      · rintro (h | h | h) <;> simp [h]
      · rintro (h | h | h) <;> simp [h]

theorem insertByStamp_sorted (x : Nat × Rep) (l : List (Nat × Rep)) (h : StampSorted l) :
    StampSorted (insertByStamp x l) := by
  induction l with
  | nil => simp [insertByStamp, StampSorted]
  | cons z zs ih =>
    unfold StampSorted at h ih ⊢
    rw [List.pairwise_cons] at h
    unfold insertByStamp
    split
    · rename_i hlt
      rw [List.pairwise_cons]
      refine ⟨?_, List.pairwise_cons.mpr h⟩
      intro a ha
      rcases List.mem_cons.mp ha with rfl | ha
      · omega
      · have := h.1 a ha; omega
    · rename_i hge
      rw [List.pairwise_cons]
      refine ⟨?_, ih h.2⟩
      intro a ha
      rcases (insertByStamp_mem x a zs).mp ha with rfl | ha
      · omega
      · exact h.1 a ha

theorem sortByStamp_sorted (l : List (Nat × Rep)) : StampSorted (sortByStamp l) := by
  induction l with
  | nil => simp [sortByStamp, StampSorted]
  | cons x xs ih => exact insertByStamp_sorted x _ ih

theorem insertByStamp_of_lt (x : Nat × Rep) (l : List (Nat × Rep))
    (h : ∀ z ∈ l, x.2.stamp < z.2.stamp) : insertByStamp x l = x :: l := by
  cases l with
  | nil => rfl
  | cons z zs => simp [insertByStamp, h z (by simp)]

theorem filter_insertByStamp (p : Nat × Rep → Bool) (x : Nat × Rep) (l : List (Nat × Rep))
    (h : StampSorted l) :
    (insertByStamp x l).filter p = if p x then insertByStamp x (l.filter p) else l.filter p := by
  induction l with
  | nil => simp [insertByStamp]; split <;> simp_all
  | cons z zs ih =>
    unfold StampSorted at h ih
    rw [List.pairwise_cons] at h
    by_cases hlt : x.2.stamp < z.2.stamp
    · have hall : ∀ w ∈ (z :: zs).filter p, x.2.stamp < w.2.stamp := by
        intro w hw
        have hw' := (List.mem_filter.mp hw).1
        rcases List.mem_cons.mp hw' with rfl | hw'
        · exact hlt
        · have := h.1 w hw'; omega
      rw [insertByStamp_of_lt x (z :: zs) (by
        intro w hw
        rcases List.mem_cons.mp hw with rfl | hw
        · exact hlt
        · have := h.1 w hw; omega)]
      by_cases hp : p x
      · simp only [hp, if_true]
        rw [insertByStamp_of_lt x _ hall, List.filter_cons_of_pos hp]
      · simp only [hp]
        rw [List.filter_cons_of_neg hp]; simp
    · have : insertByStamp x (z :: zs) = z :: insertByStamp x zs := by
        simp [insertByStamp, hlt]
      rw [this]
      by_cases hz : p z
      · rw [List.filter_cons_of_pos hz, List.filter_cons_of_pos hz, ih h.2]
        split
        · simp [insertByStamp, hlt]
        · rfl
      · rw [List.filter_cons_of_neg hz, List.filter_cons_of_neg hz, ih h.2]

theorem filter_sortByStamp (p : Nat × Rep → Bool) (l : List (Nat × Rep)) :
    (sortByStamp l).filter p = sortByStamp (l.filter p) := by
  induction l with
  | nil => simp [sortByStamp]
  | cons x xs ih =>
    have h1 : sortByStamp (x :: xs) = insertByStamp x (sortByStamp xs) := rfl
    rw [h1, filter_insertByStamp p x _ (sortByStamp_sorted xs), ih]
    by_cases hp : p x
    · simp only [hp, if_true]; rw [List.filter_cons_of_pos hp]; rfl
    · simp only [hp]; rw [List.filter_cons_of_neg hp]; simp

theorem sortByStamp_of_sorted (l : List (Nat × Rep))
    (h : l.Pairwise (fun a b => a.2.stamp < b.2.stamp)) : sortByStamp l = l := by
  induction l with
  | nil => rfl
  | cons x xs ih =>
    rw [List.pairwise_cons] at h
    have h1 : sortByStamp (x :: xs) = insertByStamp x (sortByStamp xs) := rfl
    rw [h1, ih h.2, insertByStamp_of_lt x xs h.1]

/-! ### `newReps` -/

theorem newReps_length (run k c n : Nat) : (newReps run k c n).length = n := by
  induction n generalizing k c with
  | zero => rfl
  | succ n ih => simp [newReps, ih]

theorem newReps_run (run k c n : Nat) : ∀ r ∈ newReps run k c n, r.run = run := by
  induction n generalizing k c with
  | zero => simp [newReps]
  | succ n ih =>
    intro r hr
    simp only [newReps, List.mem_cons] at hr
    rcases hr with rfl | hr
    · rfl
    · exact ih _ _ r hr

theorem newReps_idx (run k c n : Nat) : (newReps run k c n).map (·.idx) = List.range' k n := by
  induction n generalizing k c with
  | zero => rfl
  | succ n ih => simp [newReps, ih, List.range'_succ]

theorem newReps_stamp_bounds (run k c n : Nat) : ∀ r ∈ newReps run k c n, c ≤ r.stamp ∧ r.stamp < c + n := by
  induction n generalizing k c with
  | zero => simp [newReps]
  | succ n ih =>
    intro r hr
    simp only [newReps, List.mem_cons] at hr
    rcases hr with rfl | hr
    · simp
    · have := ih (k + 1) (c + 1) r hr; omega

theorem newReps_stamp_sorted (run k c n : Nat) :
    (newReps run k c n).Pairwise (fun a b => a.stamp < b.stamp) := by
  induction n generalizing k c with
  | zero => simp [newReps]
  | succ n ih =>
    simp only [newReps, List.pairwise_cons]
    refine ⟨?_, ih _ _⟩
    intro r hr
    have := newReps_stamp_bounds run (k + 1) (c + 1) n r hr
    simp; omega

end SyneTune.PollL
