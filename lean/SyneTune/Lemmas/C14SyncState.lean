import SyneTune.Lemmas.C14SyncOps
/- C14 synchronous composition: lemmas about the searcher state (`label`, `evaluation_failed`,
`register_pending`), about `stepCS`, and consequences of the invariant used by every case. -/
namespace SyneTune.Sync.C14S
open SyneTune.C14 SyneTune.C14Comp

/-! ### the searcher state -/

theorem lab_iff (st : SState) (t r : Nat) : st.isLabeled t r = true ↔ (obsAt st t r).isSome = true := by
  rw [isLabeled_eq]; rfl

theorem lab_false_iff (st : SState) (t r : Nat) : st.isLabeled t r = false ↔ obsAt st t r = none := by
  rw [isLabeled_eq]
  unfold obsAt
  cases (alookup t st.observed).bind (alookup r) <;> simp

theorem obsAt_label (st : SState) (t r : Nat) (c : Rat) (t' r' : Nat) :
    obsAt (st.label t r c) t' r' = if t' = t ∧ r' = r then some c else obsAt st t' r' := by
  show (alookup t' (aset t _ st.observed)).bind (alookup r') = _
  unfold obsAt
  rw [alookup_aset]
  by_cases ht : t' = t
  · subst ht
    simp only [if_true, Option.bind_some, true_and, alookup_aset]
    by_cases hr : r' = r
    · simp [hr]
    · simp only [hr, if_false]
      cases alookup t' st.observed <;> simp [alookup]
  · simp [ht]

theorem label_wf (st : SState) (t r : Nat) (c : Rat) (hw : ObsWF st) : ObsWF (st.label t r c) := by
  obtain ⟨w1, w2⟩ := hw
  unfold SState.label
  refine ⟨aset_keysNodup _ _ _ w1, ?_⟩
  intro t' ms' hm
  rcases mem_aset _ _ _ _ hm with h1 | h1
  · injection h1 with _ h1; subst h1
    apply aset_keysNodup
    cases hl : alookup t st.observed with
    | none => simp [KeysNodup]
    | some ms => exact w2 t ms (alookup_mem t ms _ hl)
  · exact w2 t' ms' h1

theorem aset_of_lookup {β} (k : Nat) (v : β) (l : List (Nat × β)) (h : alookup k l = some v) :
    aset k v l = l := by
  induction l with
  | nil => simp [alookup] at h
  | cons x xs ih =>
    obtain ⟨a, b⟩ := x
    unfold alookup at h
    unfold aset
    by_cases hk : k = a
    · simp only [hk, if_true, Option.some.injEq] at h
      subst h; subst hk; simp
    · simp only [hk, if_false] at h
      simp only [hk, if_false, ih h]

theorem dropPending_not_mem (t r : Nat) (P : List (Nat × Nat)) (h : (t, r) ∉ P) : dropPending t r P = P := by
  induction P with
  | nil => rfl
  | cons x xs ih =>
    simp only [List.mem_cons, not_or] at h
    unfold dropPending
    have hx : ¬ ((x.1 == t && x.2 == r) = true) := by
      intro hc
      simp only [Bool.and_eq_true, beq_iff_eq] at hc
      apply h.1
      obtain ⟨a, b⟩ := x
      simp only at hc
      rw [hc.1, hc.2]
    simp only [hx, Bool.false_eq_true, if_false, ih h.2]

theorem mem_dropPending_of_ne (t r : Nat) (P : List (Nat × Nat)) (p : Nat × Nat) (hp : p ∈ P)
    (hne : p ≠ (t, r)) : p ∈ dropPending t r P := by
  induction P with
  | nil => cases hp
  | cons x xs ih =>
    unfold dropPending
    by_cases hx : (x.1 == t && x.2 == r) = true
    · simp only [hx, if_true]
      rcases List.mem_cons.mp hp with rfl | h
      · exfalso
        simp only [Bool.and_eq_true, beq_iff_eq] at hx
        apply hne
        obtain ⟨a, b⟩ := p
        simp only at hx
        rw [hx.1, hx.2]
      · exact h
    · simp only [hx, Bool.false_eq_true, if_false]
      rcases List.mem_cons.mp hp with rfl | h
      · exact List.mem_cons_self ..
      · exact List.mem_cons_of_mem _ (ih h)

/-- an observation which is already there, for a level which is not pending: `label_trial` with
the same value changes nothing -/
theorem label_noop (st : SState) (t r : Nat) (c : Rat) (ho : obsAt st t r = some c) (hp : (t, r) ∉ st.pending) :
    st.label t r c = st := by
  unfold obsAt at ho
  cases hl : alookup t st.observed with
  | none => rw [hl] at ho; cases ho
  | some ms =>
    rw [hl] at ho
    simp only [Option.bind_some] at ho
    unfold SState.label
    simp only [hl, dropPending_not_mem t r _ hp, aset_of_lookup r c ms ho, aset_of_lookup t ms _ hl]

theorem isPending_false (st : SState) (t r : Nat) (h : ∀ p ∈ st.pending, p.1 ≠ t) : st.isPending t r = false := by
  unfold SState.isPending
  rw [List.any_eq_false]
  intro p hp
  simp only [Bool.and_eq_true, beq_iff_eq, not_and]
  intro h1; exact absurd h1 (h p hp)

theorem apply_pending_new (st : SState) (t r : Nat) (h1 : st.isPending t r = false) (h2 : st.isLabeled t r = false) :
    st.apply (.pending t r) = .ok { st with pending := st.pending ++ [(t, r)] } := by
  simp [SState.apply, h1, h2]

theorem apply_update_true (st : SState) (t r : Nat) (x : Rat) :
    st.apply (.update t r x true) = .ok (st.label t r (st.crit x)) := by
  simp [SState.apply]

theorem apply_update_false (st : SState) (t r : Nat) (x : Rat) :
    st.apply (.update t r x false) = .ok st := by
  simp [SState.apply]

theorem apply_evalFailed (st : SState) (t : Nat) :
    ∃ st', st.apply (.evalFailed t) = .ok st' ∧ st'.pending = st.pending.filter (fun p => p.1 != t) ∧
      st'.observed = st.observed ∧ st'.mode = st.mode := by
  simp only [SState.apply]
  split
  · exact ⟨_, rfl, rfl, rfl, rfl⟩
  · exact ⟨_, rfl, rfl, rfl, rfl⟩

theorem obsAt_congr {st st' : SState} (h : st'.observed = st.observed) (t r : Nat) : obsAt st' t r = obsAt st t r := by
  unfold obsAt; rw [h]

theorem obsWF_congr {st st' : SState} (h : st'.observed = st.observed) (hw : ObsWF st) : ObsWF st' := by
  unfold ObsWF at *; rw [h]; exact hw

theorem markFailed_pending (st : SState) (t : Nat) : (markFailed st t).pending = st.pending := by
  unfold markFailed; split <;> rfl

theorem markFailed_observed (st : SState) (t : Nat) : (markFailed st t).observed = st.observed := by
  unfold markFailed; split <;> rfl

theorem markFailed_mode (st : SState) (t : Nat) : (markFailed st t).mode = st.mode := by
  unfold markFailed; split <;> rfl

/-! ### `stepCS` -/

theorem applyActs_single (st : SState) (a : SAct) : applyActs st [a] = applyAct st a := by
  simp only [applyActs]
  cases applyAct st a <;> rfl


theorem stepCS_ok {y : SysS} {op : Op} {s' : Sched} {o : Out} {st' : SState}
    (h1 : y.sched.step op = .ok (s', o)) (h2 : applyActs y.st (o.calls.map trCall) = .ok st') :
    stepCS y op = { sched := s', st := st', last := ghostNext y.sched y.last op o } := by
  unfold stepCS
  rw [h1]
  simp only [h2]

theorem stepCS_sched_error {y : SysS} {op : Op} {e : SErr} (h1 : y.sched.step op = .error e) : stepCS y op = y := by
  unfold stepCS
  rw [h1]

theorem step_suggest {s s' : Sched} {tid : Nat} {c : Bool} {sg : Suggestion} {calls : List SCall}
    (h : s.suggest tid c = .ok (s', sg, calls)) :
    s.step (.suggest tid c) = .ok (s', { suggestion := some sg, calls := calls }) := by
  simp only [Sched.step, h]

theorem step_result {s s' : Sched} {t r : Nat} {v : Metric} {d : Decision} {calls : List SCall}
    (h : s.onResult t r v = .ok (s', d, calls)) :
    s.step (.result t r v) = .ok (s', { decision := some d, calls := calls }) := by
  simp only [Sched.step, h]

theorem step_error {s s' : Sched} {t : Nat} {calls : List SCall} (h : s.onError t = .ok (s', calls)) :
    s.step (.error t) = .ok (s', { calls := calls }) := by
  simp only [Sched.step, h]

theorem lastOf_aset (sch : Sched) (st : SState) (last : List (Nat × Nat)) (t r t' : Nat) :
    ({ sched := sch, st := st, last := aset t r last } : SysS).lastOf t' =
      if t' = t then r else ({ sched := sch, st := st, last := last } : SysS).lastOf t' := by
  unfold SysS.lastOf
  simp only [alookup_aset]
  by_cases h : t' = t <;> simp [h]

/-! ### consequences of the invariant -/

/-- two registered trials do not share a slot -/
theorem slot_owner_unique {s : Sched} (hI : Inv s) {t t' id id' : Nat} {sl sl' : SlotInRung}
    (h : alookup t s.pending = some (id, sl)) (h' : alookup t' s.pending = some (id', sl'))
    (he : (id', sl'.rungIndex, sl'.slotIndex) = (id, sl.rungIndex, sl.slotIndex)) : t' = t := by
  simp only [Prod.mk.injEq] at he
  obtain ⟨rfl, _, h3⟩ := he
  exact hI.distinct t' t id' sl' sl h' h h3

/-- an occupied slot is not the slot a running trial is registered for: it survives the answer -/
theorem fwd_occupied {s : Sched} (hI : Inv s) {t id : Nat} {sl : SlotInRung}
    (hlook : alookup t s.pending = some (id, sl)) {g' : Manager}
    (hfr : Frame s.mgr g' (some (id, sl.rungIndex, sl.slotIndex))) {j k p : Nat} {y : Slot}
    (h : s.mgr.SlotAt j k p y) (hy : y.metric.isSome = true) : g'.SlotAt j k p y := by
  apply hfr.fwd j k p y h
  intro he
  simp only [Option.some.injEq, Prod.mk.injEq] at he
  obtain ⟨rfl, rfl, rfl⟩ := he
  obtain ⟨x, hx, hxm, _⟩ := pend_slotAt hI hlook
  have := slotAt_functional h hx
  subst this
  rw [hxm] at hy; cases hy

/-- the slot of a trial which stays registered keeps its content -/
theorem started_iff {s : Sched} (hI : Inv s) {g' : Manager} {ans : Option (Nat × Nat × Nat)}
    (hfr : Frame s.mgr g' ans) {t' id' : Nat} {sl' : SlotInRung}
    (hlook : alookup t' s.pending = some (id', sl'))
    (hne : ans ≠ some (id', sl'.rungIndex, sl'.slotIndex)) :
    g'.SlotAt id' sl'.rungIndex sl'.slotIndex ⟨none, none⟩ ↔
      s.mgr.SlotAt id' sl'.rungIndex sl'.slotIndex ⟨none, none⟩ := by
  obtain ⟨x, hx, _, _, _⟩ := pend_slotAt hI hlook
  have hx' := hfr.fwd _ _ _ x hx hne
  constructor
  · intro h
    have := slotAt_functional h hx'
    rw [this]; exact hx
  · intro h
    have := slotAt_functional h hx
    rw [this]; exact hx'

/-- **No observation is written twice**: a running trial has no observation at a level of the
window of its current run above its last report -/
theorem fresh_level {y : SysS} (h : CInvS y) {t id : Nat} {sl : SlotInRung}
    (hlook : alookup t y.sched.pending = some (id, sl)) {r : Nat}
    (hprev : y.sched.prevLvl id sl.rungIndex < r) (hlast : y.lastOf t < r) :
    y.st.isLabeled t r = false := by
  cases hl : y.st.isLabeled t r with
  | false => rfl
  | true =>
    exfalso
    rcases h.obs t r hl with ⟨j, k, p, m, hslot, _, h2, _, _⟩ | ⟨id', sl', hl', _, h2, _⟩
    · obtain ⟨rfl, hk⟩ := finished_below h.inv hlook hslot
      obtain ⟨br, rg, x, hbr, hps, _⟩ := h.inv.pend t j sl hlook
      have hrg : br.rungs[sl.rungIndex]? = some rg := by rw [hps.ri]; exact hps.hrg
      have := lvl_mono h.inv.mwf hbr hrg hk
      change y.sched.lvl j k ≤ y.sched.prevLvl j sl.rungIndex at this
      omega
    · omega

/-- the invariant reads the searcher state through `pending`, `observed` and `mode` only (not
through `failed`) -/
theorem cinvS_st_congr {sch : Sched} {st st' : SState} {last : List (Nat × Nat)}
    (h : CInvS { sched := sch, st := st, last := last }) (hp : st'.pending = st.pending)
    (ho : st'.observed = st.observed) (hm : st'.mode = st.mode) :
    CInvS { sched := sch, st := st', last := last } := by
  have hlab : ∀ t r, st'.isLabeled t r = st.isLabeled t r := by
    intro t r; unfold SState.isLabeled; rw [ho]
  have hobs : ∀ t r, obsAt st' t r = obsAt st t r := fun t r => obsAt_congr ho t r
  have hcrit : ∀ x, st'.crit x = st.crit x := fun x => crit_of_mode hm x
  refine ⟨h.inv, by change st'.pending.Nodup; rw [hp]; exact h.pnd, obsWF_congr ho h.owf, ?_, ?_, h.lastOk, ?_, ?_⟩
  · intro p hpp
    change p ∈ st'.pending at hpp
    rw [hp] at hpp
    exact h.pend p hpp
  · intro t id sl hl hs
    change (t, sl.level) ∈ st'.pending
    rw [hp]; exact h.conv t id sl hl hs
  · intro t r hl
    change st'.isLabeled t r = true at hl
    rw [hlab] at hl
    rcases h.obs t r hl with ⟨j, k, p, m, hs, a1, a2, a3, a4⟩ | h2
    · refine Or.inl ⟨j, k, p, m, hs, a1, a2, ?_, a4⟩
      intro hrl
      obtain ⟨x, hx, ho'⟩ := a3 hrl
      refine ⟨x, hx, ?_⟩
      change obsAt st' t r = some (st'.crit x)
      rw [hobs, hcrit]; exact ho'
    · exact Or.inr h2
  · intro t j k p x hs
    change obsAt st' t (sch.lvl j k) = some (st'.crit x)
    rw [hobs, hcrit]; exact h.fin t j k p x hs

/-- a trial which is not registered has no pending evaluation -/
theorem no_pending_of_not_running {y : SysS} (h : CInvS y) {t : Nat} (hn : alookup t y.sched.pending = none) :
    ∀ p ∈ y.st.pending, p.1 ≠ t := by
  intro p hp he
  obtain ⟨id, sl, hl, _⟩ := h.pend p hp
  rw [he, hn] at hl; cases hl

/-- a pending evaluation has no observation -/
theorem pending_not_labeled {y : SysS} (h : CInvS y) {p : Nat × Nat} (hp : p ∈ y.st.pending) :
    y.st.isLabeled p.1 p.2 = false := by
  obtain ⟨id, sl, hl, hlv, _⟩ := h.pend p hp
  obtain ⟨h1, h2, _⟩ := pend_level h.inv hl
  apply fresh_level h hl
  · rw [hlv, h1]; exact h2
  · rw [hlv]; exact h.lastOk p.1 id sl hl

/-- an observation belongs to a trial the scheduler has a configuration for -/
theorem labeled_known {y : SysS} (h : CInvS y) {t r : Nat} (hl : y.st.isLabeled t r = true) :
    t ∈ y.sched.configs := by
  rcases h.obs t r hl with ⟨j, k, p, m, hslot, _⟩ | ⟨id', sl', hl', _⟩
  · exact h.inv.ids t (slotAt_hasId hslot rfl)
  · exact h.inv.pkeys t _ hl'

end SyneTune.Sync.C14S
