import SyneTune.Lemmas.HBContractK4
/- `KInv` under `on_trial_result` (ASHA / PASHA). -/
namespace SyneTune
open SyneTune.C13Hb

/-- what a report does to one promotion rung system -/
structure ReportRel (s s' : RungSys) (tid : Nat) (o : RepOut) : Prop where
  running : s'.running = s.running
  cases : (unpromotedOf s'.rungs = unpromotedOf s.rungs) ∨
          (o.continues = false ∧ o.ignoreData = false ∧ (unpromotedOf s'.rungs).Perm (tid :: unpromotedOf s.rungs))

theorem promoReport_rel (s s' : RungSys) (m : Mode) (tid r : Nat) (v cost : Rat) (o : RepOut)
    (hok : RunOK s) (h : s.promoReport m tid r v cost = .ok (s', o)) : ReportRel s s' tid o := by
  unfold RungSys.promoReport at h
  cases hr : alookup tid s.running with
  | none => simp [hr] at h
  | some mr =>
    simp only [hr] at h
    split at h
    · rename_i hle
      split at h
      · cases h
      · rename_i heq
        have heq' : r = mr.1 := by simpa using heq
        obtain ⟨⟨h1, h2⟩, h3, hs⟩ := promoReached_spec s s' m tid v cost mr.1 _ o h
        have hig : o.ignoreData = false := by
          rw [h3]
          unfold ignoreOf
          cases hf : mr.2 with
          | none => rfl
          | some f =>
            have hlt : f < mr.1 := hok (tid, mr) (C14.alookup_mem tid mr _ hr) f hf
            simp only [decide_eq_false_iff_not, not_le]
            omega
        rcases hs with rfl | ⟨pos, rg, g1, _, _, rfl, _⟩
        · exact ⟨rfl, Or.inl rfl⟩
        · refine ⟨rfl, Or.inr ⟨h1, hig, ?_⟩⟩
          obtain ⟨pre, post, e1, _, e3⟩ := split_of_getElem? s.rungs pos rg g1
          simp only [e3]
          rw [e1]
          exact unpromotedOf_replace_add pre post rg _ tid (unpromoted_add m rg _ rfl)
    · injection h with h; injection h with h1 h2; subst h1
      exact ⟨rfl, Or.inl rfl⟩

theorem pashaReport_rel (s s' : RungSys) (m : Mode) (tid r : Nat) (v eps : Rat) (o : RepOut)
    (hok : RunOK s) (h : s.pashaReport m tid r v eps = .ok (s', o)) : ReportRel s s' tid o := by
  unfold RungSys.pashaReport at h
  cases hp : s.promoReport m tid r v with
  | error e => simp [hp] at h
  | ok res =>
    obtain ⟨s1, o1⟩ := res
    have hrel := promoReport_rel s s1 m tid r v 0 o1 hok hp
    simp only [hp] at h
    cases hinc : ({ s1 with epsilon := eps } : RungSys).pashaIncrease m with
    | error e => simp [hinc] at h
    | ok inc =>
      simp only [hinc] at h
      split at h
      · split at h
        · split at h
          · cases h
          · injection h with h; injection h with h1 h2; subst h1; subst h2
            exact ⟨hrel.running, hrel.cases⟩
        · injection h with h; injection h with h1 h2; subst h1; subst h2
          exact ⟨hrel.running, hrel.cases⟩
      · injection h with h; injection h with h1 h2; subst h1; subst h2
        exact ⟨hrel.running, hrel.cases⟩

theorem fixNext_fields (maxT : Nat) (o : RepOut) :
    (fixNext maxT o).continues = o.continues ∧ (fixNext maxT o).reached = o.reached ∧
    (fixNext maxT o).ignoreData = o.ignoreData := by
  unfold fixNext; split <;> simp

/-- `terminator.on_task_report` for plain promotion types -/
theorem taskReport_plain (g g' : Manager) (tid r : Nat) (v : Rat) (hint : Bool) (cost eps : Rat) (o : RepOut)
    (hty : g.type.pauseResume = true) (hrun : ∀ sys ∈ g.systems, RunOK sys)
    (h : g.taskReport tid r v hint cost eps = .ok (g', o)) :
    g'.type = g.type ∧ g'.maxT = g.maxT ∧ (∀ sys ∈ g'.systems, RunOK sys) ∧
    ((unpromotedSys g'.systems = unpromotedSys g.systems) ∨
     (o.continues = false ∧ o.ignoreData = false ∧ (unpromotedSys g'.systems).Perm (tid :: unpromotedSys g.systems))) := by
  obtain ⟨ty1, ty2⟩ := taskReport_type_maxT g g' tid r v hint cost eps o h
  refine ⟨ty1, ty2, ?_⟩
  unfold Manager.taskReport at h
  cases h1 : alookup tid g.taskInfo with
  | none => simp [h1] at h
  | some b =>
    simp only [h1] at h
    cases h2 : g.systems[(g.sysFor b).1]? with
    | none => simp [h2] at h
    | some sys =>
      simp only [h2] at h
      split at h
      · cases hsr : g.sysReport sys tid r v (g.sysFor b).2 hint cost eps with
        | error e => simp [hsr] at h
        | ok res =>
          obtain ⟨sys', o1⟩ := res
          simp only [hsr] at h
          injection h with h
          simp only [Prod.mk.injEq] at h
          obtain ⟨e1, e2⟩ := h
          subst e1
          have hsysok : RunOK sys := hrun sys (List.mem_of_getElem? h2)
          have hrel : ReportRel sys sys' tid o1 := by
            unfold Manager.sysReport at hsr
            rcases pauseResume_cases hty with ht | ht | ht | ht
            · simp only [ht] at hsr; exact promoReport_rel sys sys' g.mode tid r v 0 o1 hsysok hsr
            · simp only [ht] at hsr; exact pashaReport_rel sys sys' g.mode tid r v eps o1 hsysok hsr
            · simp only [ht] at hsr; exact promoReport_rel sys sys' g.mode tid r v cost o1 hsysok hsr
            · simp only [ht] at hsr; exact promoReport_rel sys sys' g.mode tid r v 0 o1 hsysok hsr
          obtain ⟨f1, f2, f3⟩ := fixNext_fields g.maxT o1
          refine ⟨?_, ?_⟩
          · intro y hy
            rcases mem_set_cases _ _ _ _ hy with rfl | hm
            · intro x hx rf hrf; rw [hrel.running] at hx; exact hsysok x hx rf hrf
            · exact hrun y hm
          · rcases hrel.cases with hc | ⟨c1, c2, c3⟩
            · left
              obtain ⟨pre, post, _, _, k3, k4⟩ := unpromotedSys_set g.systems _ sys sys' h2
              simp only [Manager.setSys]
              rw [k3, k4, hc]
            · right
              rw [← e2, f1, f3]
              exact ⟨c1, c2, unpromotedSys_set_add g.systems _ sys sys' tid h2 c3⟩
      · injection h with h
        simp only [Prod.mk.injEq] at h
        obtain ⟨e1, _⟩ := h
        subst e1
        exact ⟨hrun, Or.inl rfl⟩

theorem afterReport_decision_keeps (rec : TrialInfo) (r : Nat) (v : Rat) (o : RepOut) (b : Bool) :
    (rec.afterReport r v o b).2.decision = rec.decision := by
  unfold TrialInfo.afterReport
  split
  · split <;> rfl
  · rfl

/-- **`on_trial_result` preserves `KInv`.** -/
theorem onResult_KInv (s s' : Sched) (tid r : Nat) (v : Rat) (hint : Bool) (cost eps : Rat) (out : ResOut)
    (hinv : KInv s) (h : s.onResult tid r v hint cost eps = .ok (s', out)) : KInv s' := by
  unfold Sched.onResult at h
  cases hrec : alookup tid s.active with
  | none => simp [hrec] at h
  | some rec =>
    simp only [hrec] at h
    by_cases hlive : rec.decision ≠ .continue
    · simp only [hlive, ne_eq, not_false_eq_true, if_true] at h
      injection h with h; injection h with h1 _; subst h1; exact hinv
    · have hcont : rec.decision = .continue := by simpa using hlive
      simp only [hcont, ne_eq, not_true_eq_false, if_false] at h
      cases htr : s.mgr.taskReport tid r v hint (s.totalCost tid cost) eps with
      | error e => simp [htr] at h
      | ok res =>
        obtain ⟨g, o⟩ := res
        simp only [htr] at h
        obtain ⟨t1, t2, t3, t4⟩ := taskReport_plain s.mgr g tid r v hint _ eps o hinv.pr hinv.runok htr
        have hnotin : tid ∉ unpromotedSys s.mgr.systems := by
          intro hm
          obtain ⟨rec2, hr2, hd2⟩ := hinv.paused tid hm
          rw [hrec] at hr2; injection hr2 with hr2; subst hr2; exact hd2 hcont
        unfold Sched.afterReport at h
        cases hco : s.costOffsetAfter tid (s.totalCost tid cost) o with
        | error e => simp [hco] at h
        | ok co =>
          simp only [hco] at h
          by_cases hig : o.ignoreData = true
          · simp only [hig, if_true] at h
            injection h with h; injection h with h1 _; subst h1
            have hsame : unpromotedSys g.systems = unpromotedSys s.mgr.systems := by
              rcases t4 with h4 | ⟨_, c2, _⟩
              · exact h4
              · rw [hig] at c2; cases c2
            exact ⟨by simp only [t1]; exact hinv.pr,
              by intro t ht; simp only [hsame] at ht; exact hinv.paused t ht,
              by simp only [hsame]; exact hinv.nodup, t3⟩
          · simp only [hig, Bool.false_eq_true, if_false] at h
            dsimp only [Sched.onResultLive] at h
            split at h
            · cases h
            · injection h with h; injection h with h1 _
              -- the active table after the report: only `tid` changes
              have hact : ∀ t, t ≠ tid → ∀ (A : List (Nat × TrialInfo)) (x : TrialInfo),
                  alookup t (aset tid x A) = alookup t A := fun t hne A x => alookup_aset_ne _ _ _ _ hne
              by_cases hc : o.continues = true
              · -- continues: rungs unchanged
                simp only [hc, if_true] at h1
                subst h1
                have hsame : unpromotedSys g.systems = unpromotedSys s.mgr.systems := by
                  rcases t4 with h4 | ⟨c1, _, _⟩
                  · exact h4
                  · rw [hc] at c1; cases c1
                refine ⟨by simp only [t1]; exact hinv.pr, ?_, by simp only [hsame]; exact hinv.nodup, t3⟩
                intro t ht
                simp only [hsame] at ht
                obtain ⟨rec2, hr2, hd2⟩ := hinv.paused t ht
                have hne : t ≠ tid := by intro he; subst he; exact hnotin ht
                exact ⟨rec2, by simp only; rw [hact t hne]; exact hr2, hd2⟩
              · simp only [hc, Bool.false_eq_true, if_false] at h1
                subst h1
                -- stopped / paused: decision ≠ continue for `tid`
                have hd : ({ s with mgr := g, costOffset := co } : Sched).decisionFor r o ≠ .continue := by
                  unfold Sched.decisionFor
                  simp only [hc, Bool.false_eq_true, if_false]
                  split <;> simp
                obtain ⟨f1, f2, f3, f4⟩ := taskRemove_fields g tid
                unfold Sched.cleanup
                simp only
                refine ⟨by simp only [f1, t1]; exact hinv.pr, ?_, ?_, f4 t3⟩
                · intro t ht
                  simp only [f3] at ht
                  by_cases he : t = tid
                  · subst he
                    simp only [C14_alookup_aset_self]
                    exact ⟨_, C14_alookup_aset_self _ _ _, hd⟩
                  · have hold : t ∈ unpromotedSys s.mgr.systems := by
                      rcases t4 with h4 | ⟨_, _, c3⟩
                      · rw [h4] at ht; exact ht
                      · rcases List.mem_cons.mp (c3.mem_iff.mp ht) with h5 | h5
                        · exact absurd h5 he
                        · exact h5
                    obtain ⟨rec2, hr2, hd2⟩ := hinv.paused t hold
                    simp only [C14_alookup_aset_self]
                    exact ⟨rec2, by rw [hact t he, hact t he]; exact hr2, hd2⟩
                · simp only [f3]
                  rcases t4 with h4 | ⟨_, _, c3⟩
                  · rw [h4]; exact hinv.nodup
                  · rw [c3.nodup_iff, List.nodup_cons]; exact ⟨hnotin, hinv.nodup⟩


/-- reports at `resource ≥ max_t` are answered "do not continue" without touching the manager
(same statement as `C03.stop_at_max`, kept here for the lemma files) -/
theorem C03_stop_at_max (g g' : Manager) (tid r : Nat) (v : Rat) (hint : Bool) (cost eps : Rat) (o : RepOut)
    (h : g.taskReport tid r v hint cost eps = .ok (g', o)) (hr : g.maxT ≤ r) :
    o.continues = false ∧ g' = g := by
  have hlt : ¬ r < g.maxT := by omega
  unfold Manager.taskReport at h
  cases h1 : alookup tid g.taskInfo with
  | none => simp [h1] at h
  | some b =>
    simp only [h1] at h
    cases h2 : g.systems[(g.sysFor b).1]? with
    | none => simp [h2] at h
    | some sys =>
      simp only [h2, hlt, if_false] at h
      injection h with h
      injection h with ha hb
      subst ha; subst hb; simp

end SyneTune
