import SyneTune.Lemmas.DyHPODefs
import SyneTune.Lemmas.DyHPORung
/-
DyHPO: the scheduler invariant `KInv` (contract K of `Props/C04K.lean`) under `suggestDy`.
`taskScheduleDy_plain` is the DyHPO version of `taskSchedule_plain`; `afterSchedule_KInv` is the
second half of `suggest_KInv` (what `_promote_trial` / `_on_config_suggest` do once the rung
system has answered), stated for ANY answer with the properties both rung systems guarantee.
-/
namespace SyneTune.DyHPO
open SyneTune SyneTune.C04K SyneTune.C13Hb

/-- `on_task_schedule` of the DyHPO rung system: same guarantees as `taskSchedule_plain` -/
theorem taskScheduleDy_plain (g g' : Manager) (bracket : Nat) (sh : Bool) (hint pick : Option Nat)
    (so : Option SchedOut) (ms : Nat) (fr : Bool)
    (h : g.taskScheduleDy bracket sh hint pick = .ok (g', so, ms, fr)) :
    g'.type = g.type ∧ g'.taskInfo = g.taskInfo ∧
    ((∀ sys ∈ g.systems, RunOK sys) → ∀ sys ∈ g'.systems, RunOK sys) ∧
    (match so with
     | none => unpromotedSys g'.systems = unpromotedSys g.systems
     | some o => (unpromotedSys g.systems).Perm (o.trial :: unpromotedSys g'.systems)) := by
  unfold Manager.taskScheduleDy at h
  by_cases hty : g.type = .promotion
  · simp only [hty, ne_eq, not_true_eq_false, if_false] at h
    cases hs : g.systems[(g.sysFor bracket).1]? with
    | none => simp [hs] at h
    | some sys =>
      simp only [hs] at h
      cases hd : sys.dyhpoSchedule g.mode sh hint pick with
      | error e => simp [hd] at h
      | ok res =>
        obtain ⟨sys', so', fr'⟩ := res
        simp only [hd] at h
        obtain ⟨d1, _, d3, d4⟩ := dyhpoSchedule_effect sys sys' g.mode sh hint pick so' fr' hd
        have hrun : (∀ y ∈ g.systems, RunOK y) → ∀ y ∈ (g.setSys (g.sysFor bracket).1 sys').systems, RunOK y := by
          intro hall y hy
          rcases mem_set_cases _ _ _ _ hy with rfl | hm
          · intro x hx rf hrf; rw [d1] at hx
            exact hall sys (List.mem_of_getElem? hs) x hx rf hrf
          · exact hall y hm
        cases so' with
        | none =>
          simp only at h
          injection h with h
          simp only [Prod.mk.injEq] at h
          obtain ⟨h1, h2, _, _⟩ := h
          subst h1; subst h2
          exact ⟨rfl, rfl, hrun, unpromotedSys_set_same g.systems _ sys _ hs (d3 rfl)⟩
        | some o =>
          simp only at h
          injection h with h
          simp only [Prod.mk.injEq] at h
          obtain ⟨h1, h2, _, _⟩ := h
          subst h1; subst h2
          exact ⟨rfl, rfl, hrun, unpromotedSys_set_del g.systems _ sys _ o.trial hs (d4 o rfl).1.unpromoted⟩
  · simp [hty] at h

/-- what `_suggest` does after the rung system answered `(g, so)`: `suggestStart` for "no
promotion", `suggestResume` for a promoted trial -/
def afterSchedule (s : Sched) (g : Manager) (so : Option SchedOut) (newTid bracket ms : Nat) (fr : Bool) :
    Except Err (Sched × Suggestion × List SCall × Bool) :=
  match so with
  | none => s.suggestStart g newTid bracket ms fr
  | some o => s.suggestResume g bracket o fr

theorem suggestDy_eq (s : Sched) (newTid bracket : Nat) (sh : Bool) (hint pick : Option Nat) :
    s.suggestDy newTid bracket sh hint pick =
      match s.mgr.taskScheduleDy bracket sh hint pick with
      | .error e => .error e
      | .ok res => afterSchedule s res.1 res.2.1 newTid bracket res.2.2.1 res.2.2.2 := by
  unfold Sched.suggestDy afterSchedule
  cases s.mgr.taskScheduleDy bracket sh hint pick with
  | error e => rfl
  | ok res => obtain ⟨g, so, ms, fr⟩ := res; cases so <;> rfl

/-- the second half of `suggest_KInv`, for any rung-system answer `(g, so)` with the properties
of `taskSchedule_plain` -/
theorem afterSchedule_KInv (s s' : Sched) (g : Manager) (so : Option SchedOut) (newTid bracket ms : Nat)
    (fr0 : Bool) (sg : Suggestion) (calls : List SCall) (fr : Bool) (hinv : KInv s)
    (t1 : g.type = s.mgr.type)
    (t3 : (∀ sys ∈ s.mgr.systems, RunOK sys) → ∀ sys ∈ g.systems, RunOK sys)
    (t4 : match so with
      | none => unpromotedSys g.systems = unpromotedSys s.mgr.systems
      | some o => (unpromotedSys s.mgr.systems).Perm (o.trial :: unpromotedSys g.systems))
    (h : afterSchedule s g so newTid bracket ms fr0 = .ok (s', sg, calls, fr)) :
    KInv s' ∧ (∀ t f m, sg = .resume t f m → NotRunning s t) ∧
    (∀ t b m, sg = .start t b m → t = newTid ∧ alookup newTid s.active = none) := by
  unfold afterSchedule at h
  cases so with
  | none =>
    simp only at h t4
    unfold Sched.suggestStart at h
    by_cases hex : (alookup newTid s.active).isSome = true
    · simp [hex] at h
    · simp only [hex, Bool.false_eq_true, if_false] at h
      have hnone : alookup newTid s.active = none := by
        cases hl : alookup newTid s.active with
        | none => rfl
        | some x => simp [hl] at hex
      cases hta : g.taskAdd newTid bracket none with
      | error e => simp [hta] at h
      | ok r2 =>
        obtain ⟨g2, first⟩ := r2
        simp only [hta] at h
        injection h with h
        simp only [Prod.mk.injEq] at h
        obtain ⟨h1, h2, _, _⟩ := h
        subst h1
        obtain ⟨a1, a2, a3⟩ := taskAdd_fields g g2 newTid bracket none first hta
        refine ⟨⟨by simp only [a1, t1]; exact hinv.pr, ?_, by simp only [a2, t4]; exact hinv.nodup,
          a3 (t3 hinv.runok)⟩, ?_, ?_⟩
        · intro t ht
          simp only [a2, t4] at ht
          obtain ⟨rec, hr, hd⟩ := hinv.paused t ht
          have hne : t ≠ newTid := by intro he; subst he; rw [hnone] at hr; cases hr
          exact ⟨rec, by simp only; rw [alookup_aset_ne _ _ _ _ hne]; exact hr, hd⟩
        · intro t f m hsg; rw [← h2] at hsg; cases hsg
        · intro t b m hsg; rw [← h2] at hsg; injection hsg with e1 _ _; exact ⟨e1.symm, hnone⟩
  | some o =>
    simp only at h t4
    unfold Sched.suggestResume at h
    cases hta : g.taskAdd o.trial bracket (some (o.milestone, o.resumeFrom)) with
    | error e => simp [hta] at h
    | ok r2 =>
      obtain ⟨g2, first⟩ := r2
      simp only [hta] at h
      have hmem : o.trial ∈ unpromotedSys s.mgr.systems := t4.mem_iff.mpr (by simp)
      obtain ⟨rec, hr, hd⟩ := hinv.paused o.trial hmem
      simp only [hr, hd, if_false] at h
      injection h with h
      simp only [Prod.mk.injEq] at h
      obtain ⟨h1, h2, _, _⟩ := h
      subst h1
      obtain ⟨a1, a2, a3⟩ := taskAdd_fields g g2 o.trial bracket _ first hta
      have hnd : (o.trial :: unpromotedSys g.systems).Nodup := (t4.nodup_iff).mp hinv.nodup
      rw [List.nodup_cons] at hnd
      refine ⟨⟨by simp only [a1, t1]; exact hinv.pr, ?_, by simp only [a2]; exact hnd.2,
        a3 (t3 hinv.runok)⟩, ?_, ?_⟩
      · intro t ht
        simp only [a2] at ht
        have hne : t ≠ o.trial := by intro he; subst he; exact hnd.1 ht
        obtain ⟨rec2, hr2, hd2⟩ := hinv.paused t (t4.mem_iff.mpr (List.mem_cons_of_mem _ ht))
        exact ⟨rec2, by simp only; rw [alookup_aset_ne _ _ _ _ hne]; exact hr2, hd2⟩
      · intro t f m hsg; rw [← h2] at hsg; injection hsg with e1 _ _; subst e1
        exact ⟨rec, hr, hd⟩
      · intro t b m hsg; rw [← h2] at hsg; cases hsg

/-- **Contract K for DyHPO, one step.**  On a state satisfying `KInv`, whenever `_suggest`
(through `DyHPORungSystem.on_task_schedule`) answers, the invariant is preserved; a
`resume(t, …)` — by the SH rule or by the searcher's pick — is only issued for a trial recorded
as not running, so the assertions of `_promote_trial` are unreachable; a `start` never re-uses
a known id. -/
theorem suggestDy_KInv (s s' : Sched) (newTid bracket : Nat) (sh : Bool) (hint pick : Option Nat)
    (sg : Suggestion) (calls : List SCall) (fr : Bool) (hinv : KInv s)
    (h : s.suggestDy newTid bracket sh hint pick = .ok (s', sg, calls, fr)) :
    KInv s' ∧ (∀ t f m, sg = .resume t f m → NotRunning s t) ∧
    (∀ t b m, sg = .start t b m → t = newTid ∧ alookup newTid s.active = none) := by
  rw [suggestDy_eq] at h
  cases hts : s.mgr.taskScheduleDy bracket sh hint pick with
  | error e => simp [hts] at h
  | ok res =>
    obtain ⟨g, so, ms, fr0⟩ := res
    simp only [hts] at h
    obtain ⟨t1, _, t3, t4⟩ := taskScheduleDy_plain s.mgr g bracket sh hint pick so ms fr0 hts
    cases so with
    | none => exact afterSchedule_KInv s s' g none newTid bracket ms fr0 sg calls fr hinv t1 t3 t4 h
    | some o => exact afterSchedule_KInv s s' g (some o) newTid bracket ms fr0 sg calls fr hinv t1 t3 t4 h

/-- `KInv` is preserved by every operation of `DOp` -/
theorem stepD_KInv (s : Sched) (op : DOp) (h : KInv s) : KInv (stepD s op) := by
  cases op with
  | old op => exact step_KInv s op h
  | suggestDy n b sh hint pick =>
    simp only [stepD]
    cases hs : s.suggestDy n b sh hint pick with
    | error e => exact h
    | ok res =>
      obtain ⟨s', sg, calls, fr⟩ := res
      exact (suggestDy_KInv s s' n b sh hint pick sg calls fr h hs).1

end SyneTune.DyHPO
