import SyneTune.Lemmas.TunerKInv
/-
Behind C01 `notify`: when a scheduler callback is pending, the run of the trial is open for
the scheduler.  For `on_trial_error` this needs the extra hypothesis `NCOk` on the
scheduler's decisions (no STOP/PAUSE on a result of a trial that the same poll reports as
failed, no PAUSE for one it reports as stopped from outside) — see the counterexample in
`Props/C01.lean`.
-/
namespace SyneTune.Tuner
open SyneTune AL

/-- **no end clash**: the scheduler does not decide STOP / PAUSE on a result of a trial whose
polled status is `failed`, nor PAUSE for one whose polled status is `stopped`. -/
def NCOk (s : LState) (a : Ans) : Prop :=
  s.pc = .decision → ∀ d m, a = .decision d m → d ≠ .continue →
    alookup s.cur.tid s.sd ≠ some .failed ∧ (d = .pause → alookup s.cur.tid s.sd ≠ some .stopped)

/-- a done trial is not one the second loop will report as failed -/
def NoClash (s : LState) (l : List (Nat × St)) : Prop :=
  ∀ kv ∈ l, kv.1 ∈ keys s.done → kv.2 ≠ .failed ∧ (kv.2 = .stopped → kv.1 ∈ s.schedStopped)

def stopPath (s : LState) : Prop :=
  (s.pc = .cbResult ∧ s.curD = .stop) ∨ s.pc = .stopCmd ∨ s.pc = .stopDel ∨ s.pc = .removeS

def pausePath (s : LState) : Prop :=
  (s.pc = .cbResult ∧ s.curD = .pause) ∨ s.pc = .pauseCmd ∨ s.pc = .removeP

structure DInv (s : LState) : Prop where
  d1 : firstPc s.pc = true → NoClash s s.sd
  d2 : (s.pc = .second ∨ curItemPc s.pc = true) → NoClash s s.items
  d3 : stopPath s → alookup s.cur.tid s.sd ≠ some .failed
  d4 : pausePath s → alookup s.cur.tid s.sd ≠ some .failed ∧ alookup s.cur.tid s.sd ≠ some .stopped
  n1 : (s.pc = .completeS ∨ s.pc = .errorS) → s.t ∉ keys s.done

theorem NoClash.same {s s' : LState} {l : List (Nat × St)} (h : NoClash s l) (hd : s'.done = s.done)
    (hss : s'.schedStopped = s.schedStopped) : NoClash s' l := by
  intro kv hkv hk; rw [hd] at hk; rw [hss]; exact h kv hkv hk

theorem stopPath_first {s : LState} (h : stopPath s) : firstPc s.pc = true := by
  rcases h with ⟨h, _⟩ | h | h | h <;> rw [h] <;> rfl
theorem pausePath_first {s : LState} (h : pausePath s) : firstPc s.pc = true := by
  rcases h with ⟨h, _⟩ | h | h <;> rw [h] <;> rfl

/-- a state outside both loops of `_update_running_trials` -/
theorem DInv.out {s' : LState} (hp : updPc s'.pc = false) : DInv s' := by
  have hne : ∀ {p : Pc}, updPc p = true → s'.pc ≠ p := fun hpp hc => by rw [hc, hpp] at hp; cases hp
  refine ⟨fun hc => ?_, fun hc => ?_, fun hc => ?_, fun hc => ?_, fun hc => ?_⟩
  · rw [first_upd _ hc] at hp; cases hp
  · rcases hc with hc | hc
    · exact absurd hc (hne rfl)
    · rw [curItem_upd _ hc] at hp; cases hp
  · rw [first_upd _ (stopPath_first hc)] at hp; cases hp
  · rw [first_upd _ (pausePath_first hc)] at hp; cases hp
  · rcases hc with hc | hc <;> exact absurd hc (hne rfl)

/-- a first-loop step that leaves `sd`, `done`, `schedStopped` alone -/
theorem DInv.first {s s' : LState} (h : DInv s) (hp : firstPc s.pc = true) (hp' : firstPc s'.pc = true)
    (hsd : s'.sd = s.sd) (hd : s'.done = s.done) (hss : s'.schedStopped = s.schedStopped)
    (h3 : stopPath s' → alookup s'.cur.tid s.sd ≠ some .failed)
    (h4 : pausePath s' → alookup s'.cur.tid s.sd ≠ some .failed ∧ alookup s'.cur.tid s.sd ≠ some .stopped) :
    DInv s' := by
  refine ⟨fun _ => ?_, fun hc' => ?_, fun hc' => ?_, fun hc' => ?_, fun hc' => ?_⟩
  · rw [hsd]; exact (h.d1 hp).same hd hss
  · rcases hc' with hc' | hc'
    · rw [hc'] at hp'; cases hp'
    · rw [first_not_item _ hp'] at hc'; cases hc'
  · rw [hsd]; exact h3 hc'
  · rw [hsd]; exact h4 hc'
  · rcases hc' with hc' | hc' <;> (rw [hc'] at hp'; cases hp')

/-- the current result's trial enters `done_trials` (after STOP: also `trials_scheduler_stopped`) -/
theorem DInv.removed {s s' : LState} (h : DInv s) (hS : SInv s) (hp : curResPc s.pc = true) (hp' : s'.pc = .nextRes)
    (v : St) (hsd : s'.sd = s.sd) (hd : s'.done = aset s.cur.tid v s.done)
    (hnf : alookup s.cur.tid s.sd ≠ some .failed)
    (hst : alookup s.cur.tid s.sd = some .stopped → s.cur.tid ∈ s'.schedStopped)
    (hss : ∀ t ∈ s.schedStopped, t ∈ s'.schedStopped) : DInv s' := by
  have hu := curRes_upd _ hp
  have hfp := curRes_first _ hp
  have hnd := hS.sdNodup hu
  refine ⟨fun _ => ?_, fun hc' => ?_, fun hc' => ?_, fun hc' => ?_, fun hc' => ?_⟩
  · rw [hsd]
    intro kv hkv hk
    rw [hd] at hk
    have hlk : alookup kv.1 s.sd = some kv.2 := alookup_of_mem hnd hkv
    rcases (mem_keys_aset _ _ _ _).mp hk with h1 | h1
    · rw [h1] at hlk
      refine ⟨fun hc => hnf (by rw [hlk, hc]), fun hc => ?_⟩
      rw [h1]; exact hst (by rw [hlk, hc])
    · obtain ⟨h2, h3⟩ := h.d1 hfp kv hkv h1
      exact ⟨h2, fun hc => hss _ (h3 hc)⟩
  · rcases hc' with hc' | hc' <;> (rw [hp'] at hc'; cases hc')
  · rcases hc' with ⟨hc', _⟩ | hc' | hc' | hc' <;> (rw [hp'] at hc'; cases hc')
  · rcases hc' with ⟨hc', _⟩ | hc' | hc' <;> (rw [hp'] at hc'; cases hc')
  · rcases hc' with hc' | hc' <;> (rw [hp'] at hc'; cases hc')


/-! ### the second loop -/

theorem NoClash.tail {s : LState} {kv : Nat × St} {rest : List (Nat × St)} (h : NoClash s (kv :: rest)) :
    NoClash s rest := fun x hx => h x (List.mem_cons_of_mem _ hx)

/-- one item of the second loop is looked at -/
theorem DInv.secondItem {s : LState} (h : DInv s) (hp : s.pc = .second) (t : Nat) (st : St) (rest : List (Nat × St))
    (hi : s.items = (t, st) :: rest) : DInv (secondItem s t st rest) := by
  have hnc : NoClash s ((t, st) :: rest) := by rw [← hi]; exact h.d2 (Or.inl hp)
  have hhead := hnc (t, st) List.mem_cons_self
  -- target: an item control point, `done` / `schedStopped` unchanged
  have toItem : ∀ s' : LState, s'.done = s.done → s'.schedStopped = s.schedStopped → s'.items = rest → s'.t = t →
      curItemPc s'.pc = true → ((s'.pc = .completeS ∨ s'.pc = .errorS) → t ∉ keys s.done) → DInv s' := by
    intro s' hd hss hit ht hpc hn
    refine ⟨fun hc => ?_, fun _ => ?_, fun hc => ?_, fun hc => ?_, fun hc => ?_⟩
    · exfalso; revert hc hpc; cases s'.pc <;> simp [firstPc, curItemPc]
    · rw [hit]; exact hnc.tail.same hd hss
    · have := stopPath_first hc; exfalso; revert this hpc; cases s'.pc <;> simp [firstPc, curItemPc]
    · have := pausePath_first hc; exfalso; revert this hpc; cases s'.pc <;> simp [firstPc, curItemPc]
    · rw [ht, hd]; exact hn hc
  have toSecond : ∀ s' : LState, s'.done = s.done → s'.schedStopped = s.schedStopped → s'.items = rest →
      s'.pc = .second → DInv s' := by
    intro s' hd hss hit hpc
    refine ⟨fun hc => ?_, fun _ => ?_, fun hc => ?_, fun hc => ?_, fun hc => ?_⟩
    · rw [hpc] at hc; cases hc
    · rw [hit]; exact hnc.tail.same hd hss
    · have := stopPath_first hc; rw [hpc] at this; cases this
    · have := pausePath_first hc; rw [hpc] at this; cases this
    · rcases hc with hc | hc <;> (rw [hpc] at hc; cases hc)
  cases st with
  | failed =>
    simp only [Tuner.secondItem]
    exact toItem _ rfl rfl rfl rfl rfl (fun _ hc => (hhead hc).1 rfl)
  | stopped =>
    simp only [Tuner.secondItem]
    by_cases hss : t ∈ s.schedStopped
    · simp only [hss, if_true]; exact toSecond _ rfl rfl rfl hp
    · simp only [hss, if_false]
      exact toItem _ rfl rfl rfl rfl rfl (fun _ hc => hss ((hhead hc).2 rfl))
  | completed =>
    simp only [Tuner.secondItem]
    cases hls : alookup t s.lastSeen with
    | none => simp only []; exact toItem _ rfl rfl rfl rfl rfl (fun hc => by rcases hc with hc | hc <;> cases hc)
    | some rid =>
      simp only []
      by_cases hk : hasKey t s.done = true
      · by_cases hpz : alookup t s.done = some St.paused
        · simp only [hk, hpz, if_true, Bool.not_true, Bool.false_eq_true, if_false]
          rw [aset_eq_self _ _ _ hpz]
          exact toSecond _ rfl rfl rfl hp
        · simp only [hk, hpz, if_true, Bool.not_true, Bool.false_eq_true, if_false]
          exact toItem _ rfl rfl rfl rfl rfl (fun hc => by rcases hc with hc | hc <;> cases hc)
      · have hk' : hasKey t s.done = false := by cases hh : hasKey t s.done <;> simp_all
        simp only [hk', Bool.not_false, if_true]
        exact toItem _ rfl rfl rfl rfl rfl (fun _ => (hasKey_false_iff _ _).mp hk')
  | inProgress => simp only [Tuner.secondItem]; exact toSecond _ rfl rfl rfl hp
  | paused => simp only [Tuner.secondItem]; exact toSecond _ rfl rfl rfl hp
  | stopping => simp only [Tuner.secondItem]; exact toSecond _ rfl rfl rfl hp

/-- a step between calls about the current item, or the item entering `done_trials` -/
theorem DInv.itemStep {s s' : LState} (h : DInv s) (hS : SInv s) (hp : curItemPc s.pc = true)
    (hp' : s'.pc = .second ∨ (curItemPc s'.pc = true ∧ s'.pc ≠ .completeS ∧ s'.pc ≠ .errorS))
    (hit : s'.items = s.items) (hss : s'.schedStopped = s.schedStopped)
    (hd : s'.done = s.done ∨ ∃ v, s'.done = aset s.t v s.done) : DInv s' := by
  have hu := curItem_upd _ hp
  obtain ⟨pre, st, hsd, _, _⟩ := hS.item hp
  have hnd := hS.sdNodup hu
  -- the current trial is not a key of the remaining items
  have hnk : ∀ kv ∈ s.items, kv.1 ≠ s.t := by
    intro kv hkv hc
    rw [hsd] at hnd
    simp only [keys, List.map_append, List.map_cons] at hnd
    have h2 := (List.nodup_append.mp hnd).2.1
    simp only [List.nodup_cons] at h2
    exact h2.1 (by rw [← hc]; exact List.mem_map.mpr ⟨kv, hkv, rfl⟩)
  have hnc := h.d2 (Or.inr hp)
  have hnc' : NoClash s' s'.items := by
    rw [hit]
    intro kv hkv hk
    rw [hss]
    rcases hd with hd | ⟨v, hd⟩
    · rw [hd] at hk; exact hnc kv hkv hk
    · rw [hd] at hk
      rcases (mem_keys_aset _ _ _ _).mp hk with h1 | h1
      · exact absurd h1 (hnk kv hkv)
      · exact hnc kv hkv h1
  have hnf : firstPc s'.pc = false := by
    rcases hp' with hp' | ⟨hp', _⟩
    · rw [hp']; rfl
    · revert hp'; cases s'.pc <;> simp [firstPc, curItemPc]
  refine ⟨fun hc => ?_, fun _ => hnc', fun hc => ?_, fun hc => ?_, fun hc => ?_⟩
  · rw [hnf] at hc; cases hc
  · rw [stopPath_first hc] at hnf; cases hnf
  · rw [pausePath_first hc] at hnf; cases hnf
  · rcases hp' with hp' | ⟨_, h1, h2⟩
    · rcases hc with hc | hc <;> (rw [hp'] at hc; cases hc)
    · rcases hc with hc | hc
      · exact absurd hc h1
      · exact absurd hc h2


/-! ### the machine -/

/-- a state in which no clause applies -/
theorem DInv.none {s' : LState} (h1 : firstPc s'.pc = false) (h2 : s'.pc ≠ .second) (h3 : curItemPc s'.pc = false) :
    DInv s' := by
  refine ⟨fun hc => ?_, fun hc => ?_, fun hc => ?_, fun hc => ?_, fun hc => ?_⟩
  · rw [h1] at hc; cases hc
  · rcases hc with hc | hc
    · exact absurd hc h2
    · rw [h3] at hc; cases hc
  · rw [stopPath_first hc] at h1; cases h1
  · rw [pausePath_first hc] at h1; cases h1
  · rcases hc with hc | hc <;> (rw [hc] at h3; cases h3)

theorem DInv.polled {s' : LState} (hp : s'.pc = .cbFetch) (hd : s'.done = []) : DInv s' := by
  refine ⟨fun _ => ?_, fun hc => ?_, fun hc => ?_, fun hc => ?_, fun hc => ?_⟩
  · intro kv _ hk; rw [hd] at hk; simp [keys] at hk
  · rcases hc with hc | hc <;> (rw [hp] at hc; cases hc)
  · rcases hc with ⟨hc, _⟩ | hc | hc | hc <;> (rw [hp] at hc; cases hc)
  · rcases hc with ⟨hc, _⟩ | hc | hc <;> (rw [hp] at hc; cases hc)
  · rcases hc with hc | hc <;> (rw [hp] at hc; cases hc)

/-- first-loop step to a control point at which no STOP / PAUSE is under way -/
theorem DInv.firstPlain {s s' : LState} (h : DInv s) (hp : firstPc s.pc = true)
    (hp' : s'.pc = .nextRes ∨ s'.pc = .decision)
    (hsd : s'.sd = s.sd) (hd : s'.done = s.done) (hss : s'.schedStopped = s.schedStopped) : DInv s' := by
  refine h.first hp (by rcases hp' with hp' | hp' <;> rw [hp'] <;> rfl) hsd hd hss (fun hc => ?_) (fun hc => ?_)
  · rcases hc with ⟨hc, _⟩ | hc | hc | hc <;> rcases hp' with hp' | hp' <;> (rw [hp'] at hc; cases hc)
  · rcases hc with ⟨hc, _⟩ | hc | hc <;> rcases hp' with hp' | hp' <;> (rw [hp'] at hc; cases hc)

theorem DInv.toSecond {s : LState} (h : DInv s) (hp : s.pc = .nextRes) : DInv { s with pc := .second, items := s.sd } := by
  have hf : firstPc s.pc = true := by rw [hp]; rfl
  refine ⟨(fun hc => nomatch hc), fun _ => h.d1 hf, fun hc => ?_, fun hc => ?_, fun hc => ?_⟩
  · rcases hc with ⟨hc, _⟩ | hc | hc | hc <;> cases hc
  · rcases hc with ⟨hc, _⟩ | hc | hc <;> cases hc
  · rcases hc with hc | hc <;> cases hc

/-- the scheduler's decision has arrived -/
theorem DInv.decided {s s' : LState} (h : DInv s) (hp : s.pc = .decision) (hp' : s'.pc = .cbResult) (d : Decision)
    (hsd : s'.sd = s.sd) (hd : s'.done = s.done) (hss : s'.schedStopped = s.schedStopped)
    (hc : s'.cur.tid = s.cur.tid) (hcd : s'.curD = d)
    (hNC : d ≠ .continue → alookup s.cur.tid s.sd ≠ some .failed ∧ (d = .pause → alookup s.cur.tid s.sd ≠ some .stopped)) :
    DInv s' := by
  refine h.first (by rw [hp]; rfl) (by rw [hp']; rfl) hsd hd hss (fun hh => ?_) (fun hh => ?_)
  · rcases hh with ⟨_, h2⟩ | hh | hh | hh
    · rw [hc]; exact (hNC (by rw [← hcd, h2]; decide)).1
    all_goals (rw [hp'] at hh; cases hh)
  · rcases hh with ⟨_, h2⟩ | hh | hh
    · rw [hc]
      have hdp : d = .pause := by rw [← hcd, h2]
      exact ⟨(hNC (by rw [hdp]; decide)).1, (hNC (by rw [hdp]; decide)).2 hdp⟩
    all_goals (rw [hp'] at hh; cases hh)

/-- a step along the STOP / PAUSE path -/
theorem DInv.pathStep {s s' : LState} (h : DInv s) (hp : firstPc s.pc = true) (hp' : firstPc s'.pc = true)
    (hsd : s'.sd = s.sd) (hd : s'.done = s.done) (hss : s'.schedStopped = s.schedStopped)
    (hc : s'.cur.tid = s.cur.tid) (h3 : stopPath s' → stopPath s) (h4 : pausePath s' → pausePath s) : DInv s' :=
  h.first hp hp' hsd hd hss (fun hh => by rw [hc]; exact h.d3 (h3 hh)) (fun hh => by rw [hc]; exact h.d4 (h4 hh))

theorem DInv.addRow {s : LState} (h : DInv s) : DInv (addRow s) := by
  unfold Tuner.addRow
  split
  · exact ⟨h.d1, h.d2, h.d3, h.d4, h.n1⟩
  · exact h

theorem addRow_sd (s : LState) : (addRow s).sd = s.sd := by unfold addRow; split <;> rfl
theorem addRow_done (s : LState) : (addRow s).done = s.done := by unfold addRow; split <;> rfl
theorem addRow_ss (s : LState) : (addRow s).schedStopped = s.schedStopped := by unfold addRow; split <;> rfl
theorem addRow_cur (s : LState) : (addRow s).cur = s.cur := by unfold addRow; split <;> rfl
theorem addRow_curD (s : LState) : (addRow s).curD = s.curD := by unfold addRow; split <;> rfl

/-- the user callbacks returned after a STOP / PAUSE / CONTINUE decision -/
theorem DInv.afterCb {s : LState} (h : DInv s) (hp : s.pc = .cbResult) (pc' : Pc)
    (hpc : (s.curD = .stop ∧ (pc' = .stopCmd ∨ pc' = .removeS)) ∨ (s.curD = .pause ∧ pc' = .pauseCmd)
      ∨ (s.curD = .continue ∧ pc' = .nextRes)) : DInv { Tuner.addRow s with pc := pc' } := by
  have hf : firstPc s.pc = true := by rw [hp]; rfl
  have hf' : firstPc pc' = true := by
    rcases hpc with ⟨_, h1 | h1⟩ | ⟨_, h1⟩ | ⟨_, h1⟩ <;> rw [h1] <;> rfl
  refine h.first hf hf' (addRow_sd s) (addRow_done s) (addRow_ss s) (fun hh => ?_) (fun hh => ?_)
  · show alookup (Tuner.addRow s).cur.tid s.sd ≠ some St.failed
    rw [addRow_cur]
    apply h.d3
    rcases hpc with ⟨h0, _⟩ | ⟨h0, h1⟩ | ⟨h0, h1⟩
    · exact Or.inl ⟨hp, h0⟩
    · exfalso; subst h1; rcases hh with ⟨hh, _⟩ | hh | hh | hh <;> cases hh
    · exfalso; subst h1; rcases hh with ⟨hh, _⟩ | hh | hh | hh <;> cases hh
  · show alookup (Tuner.addRow s).cur.tid s.sd ≠ some St.failed ∧ alookup (Tuner.addRow s).cur.tid s.sd ≠ some St.stopped
    rw [addRow_cur]
    apply h.d4
    rcases hpc with ⟨h0, h1⟩ | ⟨h0, _⟩ | ⟨h0, h1⟩
    · exfalso; rcases h1 with h1 | h1 <;> subst h1 <;> rcases hh with ⟨hh, _⟩ | hh | hh <;> cases hh
    · exact Or.inl ⟨hp, h0⟩
    · exfalso; subst h1; rcases hh with ⟨hh, _⟩ | hh | hh <;> cases hh

theorem DInv_next (s : LState) (a : Ans) (h : DInv s) (hS : SInv s) (hN : NCOk s a) : DInv (next s a) := by
  unfold next
  split
  all_goals (rename_i hpc)
  all_goals (try simp only [])
  all_goals (repeat' split)
  all_goals first
    | exact h
    | exact DInv.polled rfl rfl
    | exact h.firstPlain (by rw [hpc]; rfl) (Or.inl rfl) rfl rfl rfl
    | exact h.firstPlain (by rw [hpc]; rfl) (Or.inr rfl) rfl rfl rfl
    | exact h.firstPlain (by rw [hpc]; rfl) (Or.inl hpc) rfl rfl rfl
    | exact h.toSecond hpc
    | exact h.decided hpc rfl _ rfl rfl rfl rfl rfl (hN hpc _ _ rfl)
    | exact h.afterCb hpc _ (Or.inl ⟨by assumption, Or.inl rfl⟩)
    | exact h.afterCb hpc _ (Or.inl ⟨by assumption, Or.inr rfl⟩)
    | exact h.afterCb hpc _ (Or.inr (Or.inl ⟨by assumption, rfl⟩))
    | exact h.afterCb hpc _ (Or.inr (Or.inr ⟨by assumption, rfl⟩))
    | exact h.pathStep (by rw [hpc]; rfl) rfl rfl rfl rfl rfl (fun _ => Or.inr (Or.inl hpc)) (fun hh => by
        rcases hh with ⟨hh, _⟩ | hh | hh <;> cases hh)
    | exact h.pathStep (by rw [hpc]; rfl) rfl rfl rfl rfl rfl (fun _ => Or.inr (Or.inr (Or.inl hpc))) (fun hh => by
        rcases hh with ⟨hh, _⟩ | hh | hh <;> cases hh)
    | exact h.pathStep (by rw [hpc]; rfl) rfl rfl rfl rfl rfl (fun hh => by
        rcases hh with ⟨hh, _⟩ | hh | hh | hh <;> cases hh) (fun _ => Or.inr (Or.inl hpc))
    | exact h.removed hS (by rw [hpc]; rfl) rfl _ rfl rfl (h.d3 (Or.inr (Or.inr (Or.inr hpc))))
        (fun _ => (mem_sadd _ _ _).mpr (Or.inl rfl)) (fun t ht => (mem_sadd _ _ _).mpr (Or.inr ht))
    | exact h.removed hS (by rw [hpc]; rfl) rfl _ rfl rfl (h.d4 (Or.inr (Or.inr hpc))).1
        (fun hc => absurd hc (h.d4 (Or.inr (Or.inr hpc))).2) (fun t ht => ht)
    | exact h.secondItem hpc _ _ _ (by assumption)
    | exact h.itemStep hS (by rw [hpc]; rfl) (Or.inr ⟨rfl, (fun hc => nomatch hc), (fun hc => nomatch hc)⟩) rfl rfl (Or.inl rfl)
    | exact h.itemStep hS (by rw [hpc]; rfl) (Or.inl rfl) rfl rfl (Or.inr ⟨_, rfl⟩)
    | exact DInv.none rfl (fun hc => nomatch hc) rfl
    | exact DInv.out (by rcases afterUpdate_pc s with hh | hh | hh <;> rw [hh] <;> rfl)

theorem DInv_step (s : LState) (a : Ans) (h : DInv s) (hS : SInv s) (hN : NCOk s a) : DInv (step s a) :=
  step_of_next (P := DInv) (fun _ _ h => ⟨h.d1, h.d2, h.d3, h.d4, h.n1⟩) s a (DInv_next s a h hS hN)

theorem DInv_init (c : Cfg) : DInv (init c) := DInv.out rfl

/-- **when a scheduler callback is pending, the run of the trial is open for the scheduler**
(`on_trial_add`: the trial is new to it) -/
structure NotifyOK (s : LState) : Prop where
  result : s.pc = .decision → alookup s.cur.tid s.kst = some .live
  remove : (s.pc = .removeS ∨ s.pc = .removeP) → alookup s.cur.tid s.kst = some .live
  complete : s.pc = .completeS → alookup s.t s.kst = some .live
  error : s.pc = .errorS → alookup s.t s.kst = some .live
  add : s.pc = .addS → alookup s.sId s.kst = none

theorem notifyOK_of_inv {s : LState} (hS : SInv s) (hK : KInv s) (hD : DInv s) : NotifyOK s := by
  have item : (s.pc = .completeS ∨ s.pc = .errorS) → alookup s.t s.kst = some .live := by
    intro hp
    have hci : curItemPc s.pc = true := by rcases hp with hp | hp <;> rw [hp] <;> rfl
    have hf : finPc s.pc = false := by rcases hp with hp | hp <;> rw [hp] <;> rfl
    have hb := hK hf
    obtain ⟨hrun, _, _⟩ := item_facts hS hb hci
    rcases hb.lv.live _ hrun with h1 | h1 | h1
    · exact absurd h1.2 (hD.n1 hp)
    · exact h1
    · rcases hp with hp | hp <;> (rw [hp] at h1; exact nomatch h1.1)
  refine ⟨fun hp => ?_, fun hp => ?_, fun hp => item (Or.inl hp), fun hp => item (Or.inr hp), fun hp => ?_⟩
  · exact (cur_facts hS (hK (by rw [hp]; rfl)) (by rw [hp]; rfl)).2.2.1
  · rcases hp with hp | hp <;> exact (cur_facts hS (hK (by rw [hp]; rfl)) (by rw [hp]; rfl)).2.2.1
  · exact (alookup_eq_none_iff _ _).mpr ((hK (by rw [hp]; rfl)).rg.regAddK hp)

/-- the three invariants along a run obeying B, K and the no-end-clash hypothesis -/
theorem SKD_run (c : Cfg) (as : List Ans) (hB : Along BOk (init c) as) (hK : Along KOk (init c) as)
    (hN : Along NCOk (init c) as) :
    SInv (run (init c) as) ∧ KInv (run (init c) as) ∧ DInv (run (init c) as) :=
  run_inv_along (Inv := fun s => SInv s ∧ KInv s ∧ DInv s) (P := fun s a => (BOk s a ∧ KOk s a) ∧ NCOk s a)
    (fun s a h hp => ⟨SInv_step s a h.1 hp.1.1, KInv_step s a h.2.1 h.1 hp.1.1 hp.1.2, DInv_step s a h.2.2 h.1 hp.2⟩)
    as (init c) ⟨SInv_init c, KInv_init c, DInv_init c⟩ (Along.and (Along.and hB hK) hN)

end SyneTune.Tuner
