import SyneTune.Lemmas.TunerC12bCount
import SyneTune.Lemmas.TunerC12bInProgress
/-
Behind C12b: the generic count invariant instantiated for `max_num_trials_completed` and
`max_num_trials_finished`; the invariant for `max_num_evaluations` (the count of reported results
overshoots by at most the number of results the last poll delivered).
-/
namespace SyneTune.Tuner.Cnt
open SyneTune SyneTune.Tuner AL

/-! ### the status tests -/

def pCompleted : St → Bool := (· == .completed)
/-- finished or still recorded as `in_progress`: what `num_trials_finished` counts after
`mark_running_job_as_stopped` -/
def pFinOrRun : St → Bool := fun v => v.isFinished || v == .inProgress

theorem numCompleted_eq (ts : TStatus) : ts.numCompleted = ts.numIn pCompleted := rfl
theorem numFinished_eq (ts : TStatus) : ts.numFinished = ts.numIn St.isFinished := rfl

theorem markInv_completed : MarkInv pCompleted := rfl
theorem markInv_finOrRun : MarkInv pFinOrRun := rfl

theorem critBound_completed {c : Criterion} {m : Nat} (hm : c.maxCompleted = some m) : CritBound pCompleted m c := by
  intro ts clk kc h
  unfold Criterion.eval at h
  simp only [Bool.or_eq_false_iff] at h
  have h2 := h.1.1.1.1.1.2
  rw [hm] at h2
  simp only [exceedsNat, decide_eq_false_iff_not, Nat.not_lt] at h2
  exact h2

theorem critBound_finished {c : Criterion} {m : Nat} (hm : c.maxFinished = some m) : CritBound St.isFinished m c := by
  intro ts clk kc h
  unfold Criterion.eval at h
  simp only [Bool.or_eq_false_iff] at h
  have h2 := h.1.1.1.1.2
  rw [hm] at h2
  simp only [exceedsNat, decide_eq_false_iff_not, Nat.not_lt] at h2
  exact h2

/-- the completed trials are among those passing any test that accepts `completed` -/
theorem qOk_completed (p : St → Bool) (hp : p .completed = true) (s : LState) : QOk p pCompleted s := by
  intro _
  rw [numIn_eq]
  refine Nat.le_trans (cnt_mono (q := p) (fun v hv => ?_) _) (cnt_le_psi p _ _)
  have : v = .completed := by simpa [pCompleted] using hv
  rw [this]; exact hp

/-- `max_num_trials_completed = m`, contract B -/
theorem completed_run (c : Cfg) (m : Nat) (hm : c.crit.maxCompleted = some m) (as : List Ans)
    (hB : Along BOk (init c) as) : GInv pCompleted pCompleted m (run (init c) as) :=
  (GInv_run pCompleted pCompleted m c rfl markInv_completed (critBound_completed hm)
    (X := fun _ => True) (P := fun _ _ => True) trivial (fun _ _ _ _ _ => trivial)
    (fun s _ => qOk_completed pCompleted rfl s) as hB (Along.mono (fun _ _ _ => trivial) hB)).1

/-- `max_num_trials_finished = m`, contract B -/
theorem finished_run (c : Cfg) (m : Nat) (hm : c.crit.maxFinished = some m) (as : List Ans)
    (hB : Along BOk (init c) as) : GInv St.isFinished pCompleted m (run (init c) as) :=
  (GInv_run St.isFinished pCompleted m c rfl markInv_completed (critBound_finished hm)
    (X := fun _ => True) (P := fun _ _ => True) trivial (fun _ _ _ _ _ => trivial)
    (fun s _ => qOk_completed St.isFinished rfl s) as hB (Along.mono (fun _ _ _ => trivial) hB)).1

/-- finished or in progress is bounded by the potential when every `in_progress` trial is in the running set -/
theorem qOk_finOrRun {s : LState} (hL : LNInv s) (hR : RInv s) : QOk St.isFinished pFinOrRun s := by
  intro hp
  rw [numIn_eq]
  unfold cnt psi
  apply List.countP_mono_left
  intro kv hkv hq
  simp only [pFinOrRun, Bool.or_eq_true, beq_iff_eq] at hq
  simp only [Bool.or_eq_true, decide_eq_true_eq]
  rcases hq with hq | hq
  · exact Or.inl hq
  · right
    apply hR.ip hp kv.1
    have : (kv.1, kv.2) ∈ s.status.last := hkv
    rw [alookup_of_mem hL this, hq]

/-- `max_num_trials_finished = m`, contract B and no rebinding of `running_trials_ids` -/
theorem finished_end_run (c : Cfg) (m : Nat) (hm : c.crit.maxFinished = some m) (as : List Ans)
    (hB : Along BOk (init c) as) (hR : Along RebindOk (init c) as) :
    GInv St.isFinished pFinOrRun m (run (init c) as) :=
  (GInv_run St.isFinished pFinOrRun m c rfl markInv_finOrRun (critBound_finished hm)
    (X := fun s => LNInv s ∧ PInv s ∧ RInv s) (P := RebindOk)
    ⟨by simp [LNInv, init, keys], PInv_init c, RInv_init c⟩
    (fun s a hX hS hP => ⟨step_of_next (P := LNInv) (fun _ _ h => h) s a (LNInv_next s a hX.1), PInv_step s a hX.2.1 hP,
      RInv_step s a hX.2.2 hS hX.2.1.loc⟩)
    (fun _ hX => qOk_finOrRun hX.1 hX.2.2) as hB hR).1

/-- what `mark_running_job_as_stopped` does to `num_trials_finished` -/
theorem numFinished_markStopped (ts : TStatus) : ts.markStopped.numFinished = ts.numFinished + ts.numRunning := by
  unfold TStatus.numFinished TStatus.numRunning TStatus.numIn TStatus.markStopped
  simp only [← List.countP_eq_length_filter]
  rw [List.countP_map]
  induction ts.last with
  | nil => rfl
  | cons kv l ih =>
    simp only [List.countP_cons, Function.comp] at ih ⊢
    obtain ⟨k, v⟩ := kv
    cases v <;> simp [St.isFinished] at ih ⊢ <;> omega

/-- finished and running trials are disjoint classes -/
theorem numIn_finOrRun (ts : TStatus) : ts.numIn pFinOrRun = ts.numFinished + ts.numRunning := by
  unfold TStatus.numFinished TStatus.numRunning TStatus.numIn
  simp only [← List.countP_eq_length_filter]
  induction ts.last with
  | nil => rfl
  | cons kv l ih =>
    simp only [List.countP_cons] at ih ⊢
    obtain ⟨k, v⟩ := kv
    cases v <;> simp [St.isFinished, pFinOrRun] at ih ⊢ <;> omega

/-! ### `max_num_evaluations` -/

theorem addResult_count (ts : TStatus) (r : Nat × Metrics) : (ts.addResult r).overall.count = ts.overall.count + 1 := by
  show (ts.overall.add r.2).count = _
  unfold MStat.add
  simp only []
  have : ∀ (m : Metrics) (s : MStat), (m.foldl MStat.addOne s).count = s.count := by
    intro m
    induction m with
    | nil => intro s; rfl
    | cons kv m ih =>
      intro s
      simp only [List.foldl_cons]
      rw [ih]
      unfold MStat.addOne
      split
      · cases kv.2 <;> rfl
      · rfl
  rw [this]

theorem foldl_addResult_count (res : List (Nat × Metrics)) (ts : TStatus) :
    (res.foldl TStatus.addResult ts).overall.count = ts.overall.count + res.length := by
  induction res generalizing ts with
  | nil => rfl
  | cons r res ih => simp only [List.foldl_cons, List.length_cons]; rw [ih, addResult_count]; omega

/-- `tuning_status.update` counts every result handed to it -/
theorem update_count (ts : TStatus) (sd : List (Nat × St)) (res : List (Nat × Metrics)) :
    (ts.update sd res).overall.count = ts.overall.count + res.length := by
  unfold TStatus.update
  simp only []
  rw [foldl_addResult_count]

theorem afterUpdate_count (s : LState) :
    (afterUpdate s).status.overall.count = s.status.overall.count + s.allRes.length := by
  show (s.status.update _ _).overall.count = _
  rw [update_count, List.length_map]

theorem scheduled_count (s : LState) (t : Nat) : (scheduled s t).status.overall.count = s.status.overall.count := by
  unfold scheduled addRunning
  split <;> (show (TStatus.update _ _ _).overall.count = _; rw [update_count]; rfl)

theorem scheduled_allRes (s : LState) (t : Nat) : (scheduled s t).allRes = s.allRes := by
  unfold scheduled addRunning; split <;> rfl

theorem addRow_allRes (s : LState) : (addRow s).allRes = s.allRes := by unfold addRow; split <;> rfl
theorem secondItem_allRes (s : LState) (t : Nat) (st : St) (rest : List (Nat × St)) :
    (secondItem s t st rest).allRes = s.allRes := by
  unfold secondItem; repeat' split
  all_goals rfl

/-- only the poll replaces `new_results` (the scheduler may rewrite a result dict in place) -/
theorem next_allRes (s : LState) (a : Ans) (h : s.pc ≠ .fetch) : (next s a).allRes.length = s.allRes.length := by
  unfold next
  split
  all_goals (rename_i hpc)
  all_goals (try simp only [])
  all_goals (repeat' split)
  all_goals first
    | rfl
    | exact absurd hpc h
    | (show (setMetrics _ _ _).length = _; unfold setMetrics; rw [List.length_map])
    | (show (addRow s).allRes.length = _; rw [addRow_allRes])
    | (rw [secondItem_allRes])
    | (rw [scheduled_allRes])

theorem critBound_evals {c : Criterion} {m : Nat} (hm : c.maxEvals = some m) {ts : TStatus} {clk : Rat} {kc : Nat}
    (h : c.eval ts clk kc = false) : ts.overall.count ≤ m := by
  unfold Criterion.eval at h
  simp only [Bool.or_eq_false_iff] at h
  have h2 := h.1.1.2
  rw [hm] at h2
  simp only [exceedsNat, decide_eq_false_iff_not, Nat.not_lt] at h2
  exact h2

structure EInv (m : Nat) (s : LState) : Prop where
  e1 : s.stopReached = false → prePc s.pc = true → s.status.overall.count ≤ m
  e2 : s.stopReached = false → finPc s.pc = false → s.status.overall.count ≤ m + s.allRes.length
  e3 : s.cfg.wait = false → s.status.overall.count ≤ m + s.allRes.length

variable {m : Nat}

theorem EInv.frame {s s' : LState} (h : EInv m s) (hst : s'.status.overall.count = s.status.overall.count)
    (hsr : s'.stopReached = s.stopReached) (hc : s'.cfg = s.cfg)
    (hlen : s'.allRes.length = s.allRes.length) (hfl : flow s.pc s'.pc = true) (hnl : s'.pc ≠ .loopHead) : EInv m s' := by
  refine ⟨fun hs hp => ?_, fun hs hp => ?_, fun hw => ?_⟩
  · rw [hst]; exact h.e1 (by rw [← hsr]; exact hs) (pre_back _ _ hfl hp hnl)
  · rw [hst, hlen]; exact h.e2 (by rw [← hsr]; exact hs) (fin_back _ _ hfl hp)
  · rw [hst, hlen]; exact h.e3 (by rw [← hc]; exact hw)

theorem EInv.evaluated {s : LState} (h : EInv m s) (b : Bool) (hb : b = false → s.status.overall.count ≤ m) :
    EInv m { s with stopReached := b, pc := .loopHead } :=
  ⟨fun hs _ => hb hs, fun hs _ => Nat.le_trans (hb hs) (Nat.le_add_right _ _), h.e3⟩

/-- a step out of an iteration's first part during which the stopping condition is known to be false -/
theorem EInv.low {s s' : LState} (h : EInv m s) (hJ : JInv s) (hit : iterPc s.pc = true)
    (hst : s'.status.overall.count ≤ s.status.overall.count + (s'.allRes.length))
    (hsr : s'.stopReached = s.stopReached) (hc : s'.cfg = s.cfg)
    (hpre : prePc s'.pc = true → s'.status.overall.count = s.status.overall.count) : EInv m s' := by
  have hp : prePc s.pc = true := by revert hit; cases s.pc <;> simp [iterPc, prePc]
  have hlow : s.stopReached = false → s'.status.overall.count ≤ m + s'.allRes.length := by
    intro hs; have := h.e1 hs hp; omega
  refine ⟨fun hs hp' => ?_, fun hs _ => hlow (by rw [← hsr]; exact hs), fun hw => ?_⟩
  · rw [hpre hp']; exact h.e1 (by rw [← hsr]; exact hs) hp
  · apply hlow
    cases hsr' : s.stopReached
    · rfl
    · have hw' := hJ.j1 hit hsr'
      have hw2 : s.cfg.wait = false := by rw [← hc]; exact hw
      rw [hw2] at hw'; cases hw'

theorem stopCond_evals {s : LState} (hm : s.cfg.crit.maxEvals = some m) (clk : Rat) (h : stopCond s clk = false) :
    s.status.overall.count ≤ m := by
  unfold stopCond at h
  simp only [Bool.or_eq_false_iff] at h
  exact critBound_evals hm h.1

theorem EInv_next (s : LState) (a : Ans) (h : EInv m s) (hm : s.cfg.crit.maxEvals = some m) (hJ : JInv s) :
    EInv m (next s a) := by
  have hfl := next_flow s a
  have hcfg := next_cfg s a
  by_cases hsp : specialPc s.pc = false ∧ s.pc ≠ .fetch
  · have hf := next_frame s a hsp.1
    refine h.frame (by rw [hf.status]) hf.sr hcfg (next_allRes s a hsp.2) hfl (fun hc => ?_)
    rw [hc] at hfl
    have := loopHead_from _ hfl
    rw [hsp.1] at this; cases this
  · cases hpc : s.pc
    all_goals first
      | (exfalso; apply hsp; rw [hpc]; exact ⟨rfl, pcne rfl⟩; done)
      | skip
    · -- clock
      rcases next_clock s a hpc with ⟨t, ht⟩ | ht
      · rw [ht]; exact h.evaluated _ (stopCond_evals hm t)
      · rw [ht]; exact h.frame rfl rfl rfl rfl (by rw [hpc]; rfl) (pcne rfl)
    · -- fetch
      simp only [next, hpc]
      split
      · exact h.low hJ (by rw [hpc]; rfl) (Nat.le_add_right _ _) rfl rfl (fun _ => rfl)
      · exact h.frame rfl rfl rfl rfl (by rw [hpc]; rfl) (pcne rfl)
    · -- startCb
      rcases next_startCb s a hpc with ht | ht
      · rw [ht]
        exact h.frame (scheduled_count _ _) (scheduled_sr _ _) (scheduled_cfg _ _) (by rw [scheduled_allRes])
          (by rw [hpc]; rfl) (pcne rfl)
      · rw [ht]; exact h.frame rfl rfl rfl rfl (by rw [hpc]; rfl) (pcne rfl)
    · -- resumeCb
      rcases next_resumeCb s a hpc with ht | ht
      · rw [ht]
        exact h.frame (scheduled_count _ _) (scheduled_sr _ _) (scheduled_cfg _ _) (by rw [scheduled_allRes])
          (by rw [hpc]; rfl) (pcne rfl)
      · rw [ht]; exact h.frame rfl rfl rfl rfl (by rw [hpc]; rfl) (pcne rfl)
    · -- evalStop
      rcases next_evalStop s a hpc with ht | ht
      · rw [ht]; exact h.frame rfl rfl rfl rfl (by rw [hpc]; rfl) (pcne rfl)
      · rw [ht]; exact h.evaluated _ (stopCond_evals hm 0)
    · -- afterUpd
      rw [next_afterUpd s a hpc]
      refine h.low hJ (by rw [hpc]; rfl) (by rw [afterUpdate_count]; exact Nat.le_refl _) rfl rfl (fun hc => ?_)
      rcases afterUpdate_pc s with hh | hh | hh <;> (rw [hh] at hc; cases hc)
    · -- finMark
      obtain ⟨h1, _, h3, _, _, h6⟩ := next_finMark s a hpc
      refine h.frame (by rw [h1]; rfl) h3 hcfg (next_allRes s a (by rw [hpc]; exact pcne rfl)) hfl (fun hc => ?_)
      rcases h6 with hh | hh <;> (rw [hh] at hc; cases hc)

theorem EInv_init (m : Nat) (c : Cfg) : EInv m (init c) :=
  ⟨fun _ _ => Nat.zero_le _, fun _ _ => Nat.zero_le _, fun _ => Nat.zero_le _⟩

/-- `max_num_evaluations = m`: no contract needed -/
theorem evals_run (c : Cfg) (m : Nat) (hm : c.crit.maxEvals = some m) (as : List Ans) : EInv m (run (init c) as) := by
  have key := run_inv (Inv := fun s => s.cfg = c ∧ JInv s ∧ EInv m s)
    (fun s a h => ⟨by rw [step_cfg]; exact h.1, JInv_step s a h.2.1,
      step_of_next (P := EInv m) (fun _ _ h => ⟨h.e1, h.e2, h.e3⟩) s a (EInv_next s a h.2.2 (by rw [h.1]; exact hm) h.2.1)⟩)
    as (init c) ⟨rfl, JInv_init c, EInv_init m c⟩
  exact key.2.2

end SyneTune.Tuner.Cnt
