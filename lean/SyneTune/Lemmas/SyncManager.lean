import SyneTune.Model.SyncManager
import SyneTune.Lemmas.SyncBracketResult
/- Invariant of the synchronous Hyperband bracket manager; `next_job` and `on_result`. -/
namespace SyneTune.Sync
open SyneTune

/-- what `_create_new_bracket` needs -/
structure MPre (g : Manager) : Prop where
  kind : g.kind = .hyperband
  sysNe : g.bracketRungs ≠ []
  sysOk : ∀ spec ∈ g.bracketRungs, checkRungs spec = true
  lenEq : g.idToOffset.length = g.brackets.length

/-- bracket `id` is a well-formed bracket of rung system `id mod num_offsets` -/
def BrOK (g : Manager) (id : Nat) (br : Bracket) : Prop :=
  ∃ spec, g.bracketRungs[id % g.numOffsets]? = some spec ∧ BWF spec br ∧ br.mode = g.mode

/-- the part of the invariant which does not mention the primary bracket -/
structure MWF0 (g : Manager) : Prop extends MPre g where
  cycle : ∀ id off, g.idToOffset[id]? = some off → off = id % g.numOffsets
  wf : ∀ id br, g.brackets[id]? = some br → BrOK g id br

/-- invariant of `SynchronousHyperbandBracketManager` -/
structure MWF (g : Manager) : Prop extends MWF0 g where
  primLt : g.primary < g.brackets.length
  below : ∀ id br, id < g.primary → g.brackets[id]? = some br → br.isComplete = true
  primOpen : ∀ br, g.brackets[g.primary]? = some br → br.isComplete = false

theorem MPre.numOffsets_pos {g : Manager} (h : MPre g) : 0 < g.numOffsets := by
  unfold Manager.numOffsets
  cases hb : g.bracketRungs with
  | nil => exact absurd hb h.sysNe
  | cons _ _ => simp

theorem MPre.spec_at {g : Manager} (h : MPre g) (id : Nat) :
    ∃ spec, g.bracketRungs[id % g.numOffsets]? = some spec ∧ checkRungs spec = true := by
  have hlt : id % g.numOffsets < g.bracketRungs.length := Nat.mod_lt _ h.numOffsets_pos
  exact ⟨g.bracketRungs[id % g.numOffsets], List.getElem?_eq_getElem hlt, h.sysOk _ (List.getElem_mem hlt)⟩

/-! ### `_create_new_bracket` -/

theorem createBracket_spec {g : Manager} (h : MPre g) :
    ∃ br spec, g.bracketRungs[g.brackets.length % g.numOffsets]? = some spec ∧
      BWF spec br ∧ br.mode = g.mode ∧ br.HasFree ∧ br.current = 0 ∧ br.firstFree = 0 ∧
      (∀ t, ¬ br.HasId t) ∧ br.isComplete = false ∧
      g.createBracket = .ok ({ g with idToOffset := g.idToOffset ++ [g.brackets.length % g.numOffsets],
                                      brackets := g.brackets ++ [br] }, g.brackets.length) := by
  obtain ⟨spec, hspec, hok⟩ := h.spec_at g.brackets.length
  obtain ⟨br, hmk, hwf, hmode, hfree, hcur, hff, hid, hcomp⟩ := mkBracket_wf g.mode spec hok
  refine ⟨br, spec, hspec, hwf, hmode, hfree, hcur, hff, hid, hcomp, ?_⟩
  unfold Manager.createBracket
  have h1 : ¬ g.brackets.length ≠ g.idToOffset.length := by simp [h.lenEq]
  have h2 : ¬ g.numOffsets = 0 := by have := h.numOffsets_pos; omega
  simp only [h1, if_false, h2, hspec, h.kind, hmk]

theorem MWF0.append {g : Manager} (hw : MWF0 g) (br : Bracket) (spec : List (Nat × Nat))
    (hspec : g.bracketRungs[g.brackets.length % g.numOffsets]? = some spec)
    (hb : BWF spec br) (hm : br.mode = g.mode) :
    MWF0 { g with idToOffset := g.idToOffset ++ [g.brackets.length % g.numOffsets],
                  brackets := g.brackets ++ [br] } := by
  refine ⟨⟨hw.kind, hw.sysNe, hw.sysOk, ?_⟩, ?_, ?_⟩
  · simp [hw.lenEq]
  · intro id off hoff
    change (g.idToOffset ++ [g.brackets.length % g.numOffsets])[id]? = some off at hoff
    change off = id % g.numOffsets
    by_cases hid : id < g.idToOffset.length
    · rw [List.getElem?_append_left hid] at hoff
      exact hw.cycle id off hoff
    · rw [List.getElem?_append_right (by omega)] at hoff
      have hlen := hw.lenEq
      by_cases h0 : id - g.idToOffset.length = 0
      · rw [h0] at hoff
        simp only [List.getElem?_cons_zero, Option.some.injEq] at hoff
        have : id = g.brackets.length := by omega
        rw [← hoff, this]
      · have : (id - g.idToOffset.length) = (id - g.idToOffset.length - 1) + 1 := by omega
        rw [this] at hoff; simp at hoff
  · intro id b hbget
    change (g.brackets ++ [br])[id]? = some b at hbget
    by_cases hid : id < g.brackets.length
    · rw [List.getElem?_append_left hid] at hbget
      exact hw.wf id b hbget
    · rw [List.getElem?_append_right (by omega)] at hbget
      by_cases h0 : id - g.brackets.length = 0
      · rw [h0] at hbget
        simp only [List.getElem?_cons_zero, Option.some.injEq] at hbget
        subst hbget
        have : id = g.brackets.length := by omega
        subst this
        exact ⟨spec, hspec, hb, hm⟩
      · have : (id - g.brackets.length) = (id - g.brackets.length - 1) + 1 := by omega
        rw [this] at hbget; simp at hbget

theorem MWF0.primary {g : Manager} (hw : MWF0 g) (q : Nat) : MWF0 { g with primary := q } :=
  ⟨⟨hw.kind, hw.sysNe, hw.sysOk, hw.lenEq⟩, hw.cycle, hw.wf⟩

theorem MWF.append {g : Manager} (hw : MWF g) (br : Bracket) (spec : List (Nat × Nat))
    (hspec : g.bracketRungs[g.brackets.length % g.numOffsets]? = some spec)
    (hb : BWF spec br) (hm : br.mode = g.mode) :
    MWF { g with idToOffset := g.idToOffset ++ [g.brackets.length % g.numOffsets],
                 brackets := g.brackets ++ [br] } := by
  refine ⟨hw.toMWF0.append br spec hspec hb hm, ?_, ?_, ?_⟩
  · change g.primary < (g.brackets ++ [br]).length
    have := hw.primLt; simp; omega
  · intro id b hid hbget
    change (g.brackets ++ [br])[id]? = some b at hbget
    have hp := hw.primLt
    change id < g.primary at hid
    rw [List.getElem?_append_left (by omega)] at hbget
    exact hw.below id b hid hbget
  · intro b hbget
    change (g.brackets ++ [br])[g.primary]? = some b at hbget
    rw [List.getElem?_append_left hw.primLt] at hbget
    exact hw.primOpen b hbget

theorem getElem?_lt {α} {l : List α} {i : Nat} {a : α} (h : l[i]? = some a) : i < l.length := by
  rcases Nat.lt_or_ge i l.length with h1 | h1
  · exact h1
  · rw [List.getElem?_eq_none h1] at h; cases h

theorem MWF0.set {g : Manager} (hw : MWF0 g) (id : Nat) (br br' : Bracket)
    (hget : g.brackets[id]? = some br) (hok : BrOK g id br') : MWF0 (g.setBracket id br') := by
  have hidlt : id < g.brackets.length := getElem?_lt hget
  refine ⟨⟨hw.kind, hw.sysNe, hw.sysOk, ?_⟩, hw.cycle, ?_⟩
  · simp [Manager.setBracket, hw.lenEq]
  · intro j b hb
    change (g.brackets.set id br')[j]? = some b at hb
    by_cases hj : id = j
    · subst hj
      rw [List.getElem?_set_self hidlt] at hb
      have : b = br' := (Option.some.inj hb).symm
      subst this; exact hok
    · rw [List.getElem?_set_ne hj] at hb
      exact hw.wf j b hb

/-- replacing a bracket by a well-formed one with the same completeness below/at primary -/
theorem MWF.set {g : Manager} (hw : MWF g) (id : Nat) (br br' : Bracket)
    (hget : g.brackets[id]? = some br) (hok : BrOK g id br')
    (hcomp : id ≤ g.primary → br'.isComplete = br.isComplete) :
    MWF (g.setBracket id br') := by
  have hidlt : id < g.brackets.length := getElem?_lt hget
  refine ⟨hw.toMWF0.set id br br' hget hok, ?_, ?_, ?_⟩
  · simp [Manager.setBracket]; exact hw.primLt
  · intro j b hj hb
    change (g.brackets.set id br')[j]? = some b at hb
    change j < g.primary at hj
    by_cases hij : id = j
    · subst hij
      rw [List.getElem?_set_self hidlt] at hb
      have : b = br' := (Option.some.inj hb).symm
      subst this
      rw [hcomp (by omega)]; exact hw.below id br hj hget
    · rw [List.getElem?_set_ne hij] at hb
      exact hw.below j b hj hb
  · intro b hb
    change (g.brackets.set id br')[g.primary]? = some b at hb
    by_cases hij : id = g.primary
    · rw [hij, List.getElem?_set_self hw.primLt] at hb
      have : b = br' := (Option.some.inj hb).symm
      subst this
      rw [hcomp (by omega)]; exact hw.primOpen br (hij ▸ hget)
    · rw [List.getElem?_set_ne hij] at hb
      exact hw.primOpen b hb

/-! ### construction -/

theorem checkSystems_ok (maxNum : Nat) (systems : List (List (Nat × Nat))) (offset : Nat)
    (h : checkSystems maxNum systems offset = true) : ∀ spec ∈ systems, checkRungs spec = true := by
  induction systems generalizing offset with
  | nil => intro spec hs; cases hs
  | cons rs rest ih =>
    simp only [checkSystems, Bool.and_eq_true, decide_eq_true_eq] at h
    intro spec hs
    rcases List.mem_cons.mp hs with rfl | hs
    · exact h.1.2
    · exact ih (offset + 1) h.2 spec hs

theorem init_wf (mode : Mode) (systems : List (List (Nat × Nat))) (g : Manager)
    (h : Manager.init .hyperband mode systems = .ok g) : MWF g ∧ g.mode = mode ∧ g.bracketRungs = systems := by
  unfold Manager.init at h
  cases systems with
  | nil => cases h
  | cons first rest =>
    simp only at h
    split at h
    · cases h
    · rename_i hcs
      simp only [Bool.not_eq_eq_eq_not] at hcs
      set g0 : Manager := { kind := .hyperband, mode := mode, bracketRungs := first :: rest } with hg0
      have hpre : MPre g0 := ⟨rfl, by simp [hg0], checkSystems_ok _ _ 0 (by simpa using hcs), rfl⟩
      obtain ⟨br, spec, hspec, hwf, hmode, hfree, hcur, hff, hid, hcomp, hcreate⟩ := createBracket_spec hpre
      rw [hcreate] at h
      simp only [Except.ok.injEq] at h
      subst h
      refine ⟨⟨⟨⟨rfl, hpre.sysNe, hpre.sysOk, by simp [hg0]⟩, ?_, ?_⟩, ?_, ?_, ?_⟩, rfl, rfl⟩
      · intro id off hoff
        simp only [hg0, List.length_nil, List.nil_append] at hoff
        cases id with
        | zero => simp at hoff; rw [← hoff]; simp
        | succ n => simp at hoff
      · intro id b hb
        simp only [hg0, List.nil_append] at hb
        cases id with
        | zero =>
          simp only [List.getElem?_cons_zero, Option.some.injEq] at hb
          subst hb
          exact ⟨spec, by simpa [hg0] using hspec, hwf, hmode⟩
        | succ n => simp at hb
      · simp [hg0]
      · intro id b hid; simp [hg0] at hid
      · intro b hb
        simp only [hg0, List.length_nil, List.nil_append, List.getElem?_cons_zero, Option.some.injEq] at hb
        subst hb; exact hcomp

/-! ### `next_job` -/

/-- slot handed out by `next_free_slot` of bracket `br` -/
def slotOf (br : Bracket) (rg : Rung) (sl : Slot) : SlotInRung :=
  { rungIndex := br.current, level := rg.level, slotIndex := br.firstFree, tid := sl.tid, metric := none }

def bump (br : Bracket) : Bracket := { br with firstFree := br.firstFree + 1 }

theorem scan_none {g : Manager} (hw : MWF0 g) (ids : List Nat)
    (h : ∀ id ∈ ids, ∃ br, g.brackets[id]? = some br ∧ ¬ br.HasFree) : g.scan ids = .ok none := by
  induction ids with
  | nil => rfl
  | cons id rest ih =>
    obtain ⟨br, hbr, hnf⟩ := h id (by simp)
    obtain ⟨spec, _, hb, _⟩ := hw.wf id br hbr
    simp only [Manager.scan, hbr, nextFreeSlot_of_not_hasFree hb hnf]
    exact ih (fun j hj => h j (List.mem_cons_of_mem _ hj))

theorem scan_found {g : Manager} (hw : MWF0 g) (pre : List Nat) (id : Nat) (post : List Nat) (br : Bracket)
    (hpre : ∀ j ∈ pre, ∃ b, g.brackets[j]? = some b ∧ ¬ b.HasFree)
    (hbr : g.brackets[id]? = some br) (hf : br.HasFree) :
    ∃ rg sl, br.rungs[br.current]? = some rg ∧ rg.slots[br.firstFree]? = some sl ∧
      g.scan (pre ++ id :: post) = .ok (some (g.setBracket id (bump br), id, slotOf br rg sl)) := by
  induction pre with
  | nil =>
    obtain ⟨spec, _, hb, _⟩ := hw.wf id br hbr
    obtain ⟨rg, sl, hrg, hsl, hn⟩ := nextFreeSlot_of_hasFree hb hf
    refine ⟨rg, sl, hrg, hsl, ?_⟩
    simp only [List.nil_append, Manager.scan, hbr, hn]
    rfl
  | cons j rest ih =>
    obtain ⟨b, hbj, hnf⟩ := hpre j (by simp)
    obtain ⟨spec, _, hb, _⟩ := hw.wf j b hbj
    obtain ⟨rg, sl, hrg, hsl, hs⟩ := ih (fun k hk => hpre k (List.mem_cons_of_mem _ hk))
    refine ⟨rg, sl, hrg, hsl, ?_⟩
    simp only [List.cons_append, Manager.scan, hbj, nextFreeSlot_of_not_hasFree hb hnf]
    exact hs

/-- outcome of `next_job` -/
inductive JobCase (g : Manager) : Manager → Nat → SlotInRung → Prop
  | existing (id : Nat) (br : Bracket) (rg : Rung) (sl : Slot)
      (hge : g.primary ≤ id) (hbr : g.brackets[id]? = some br)
      (hbefore : ∀ j b, g.primary ≤ j → j < id → g.brackets[j]? = some b → ¬ b.HasFree)
      (hf : br.HasFree) (hrg : br.rungs[br.current]? = some rg) (hsl : rg.slots[br.firstFree]? = some sl) :
      JobCase g (g.setBracket id (bump br)) id (slotOf br rg sl)
  | fresh (br : Bracket) (rg : Rung) (sl : Slot)
      (hnone : ∀ j b, g.primary ≤ j → g.brackets[j]? = some b → ¬ b.HasFree)
      (hok : BrOK g g.brackets.length br) (hcur : br.current = 0) (hff : br.firstFree = 0)
      (hid : ∀ t, ¬ br.HasId t) (hf : br.HasFree)
      (hrg : br.rungs[br.current]? = some rg) (hsl : rg.slots[br.firstFree]? = some sl) :
      JobCase g
        (({ g with idToOffset := g.idToOffset ++ [g.brackets.length % g.numOffsets],
                   brackets := g.brackets ++ [br] } : Manager).setBracket g.brackets.length (bump br))
        g.brackets.length (slotOf br rg sl)

theorem mem_rangeFrom (a b j : Nat) : j ∈ rangeFrom a b ↔ a ≤ j ∧ j < b := by
  unfold rangeFrom
  rw [List.mem_range']
  constructor
  · rintro ⟨i, hi, rfl⟩; omega
  · rintro ⟨h1, h2⟩; exact ⟨j - a, by omega, by omega⟩

theorem rangeFrom_split (a b id : Nat) (h1 : a ≤ id) (h2 : id < b) :
    rangeFrom a b = rangeFrom a id ++ id :: rangeFrom (id + 1) b := by
  unfold rangeFrom
  have e1 : b - a = (id - a) + ((b - id - 1) + 1) := by omega
  rw [e1, ← List.range'_append_1]
  congr 1
  have e2 : a + (id - a) = id := by omega
  rw [e2, List.range'_succ]
  congr 2

theorem bump_ok {g : Manager} {id : Nat} {br : Bracket} (hok : BrOK g id br) (hf : br.HasFree) :
    BrOK g id (bump br) := by
  obtain ⟨spec, hs, hb, hm⟩ := hok
  exact ⟨spec, hs, bump_wf hb hf, hm⟩

/-- **`next_job` never blocks**: on a well-formed manager it returns a job; the job comes
from the first open bracket (from the primary on) which has a free slot, and a new bracket
is created exactly when none has. The invariant is kept. -/
theorem nextJob_spec {g : Manager} (hw : MWF g) :
    ∃ g' id sl, g.nextJob = .ok (g', id, sl) ∧ JobCase g g' id sl ∧ MWF g' := by
  by_cases hex : ∃ id, g.primary ≤ id ∧ id < g.brackets.length ∧ ∃ br, g.brackets[id]? = some br ∧ br.HasFree
  · -- least such id
    have hleast : ∃ id, (g.primary ≤ id ∧ id < g.brackets.length ∧ ∃ br, g.brackets[id]? = some br ∧ br.HasFree) ∧
        ∀ j, j < id → ¬ (g.primary ≤ j ∧ j < g.brackets.length ∧ ∃ br, g.brackets[j]? = some br ∧ br.HasFree) := by
      classical
      exact ⟨Nat.find hex, Nat.find_spec hex, fun j hj => Nat.find_min hex hj⟩
    obtain ⟨id, ⟨hge, hlt, br, hbr, hf⟩, hmin⟩ := hleast
    have hbefore : ∀ j b, g.primary ≤ j → j < id → g.brackets[j]? = some b → ¬ b.HasFree := by
      intro j b h1 h2 hb hfb
      exact hmin j h2 ⟨h1, by omega, b, hb, hfb⟩
    have hpre : ∀ j ∈ rangeFrom g.primary id, ∃ b, g.brackets[j]? = some b ∧ ¬ b.HasFree := by
      intro j hj
      rw [mem_rangeFrom] at hj
      have hjl : j < g.brackets.length := by omega
      exact ⟨g.brackets[j], List.getElem?_eq_getElem hjl, hbefore j _ hj.1 hj.2 (List.getElem?_eq_getElem hjl)⟩
    obtain ⟨rg, sl, hrg, hsl, hscan⟩ := scan_found hw.toMWF0 (rangeFrom g.primary id) id (rangeFrom (id + 1) g.brackets.length) br hpre hbr hf
    rw [← rangeFrom_split _ _ _ hge hlt] at hscan
    refine ⟨_, id, _, ?_, JobCase.existing id br rg sl hge hbr hbefore hf hrg hsl, ?_⟩
    · simp only [Manager.nextJob, hscan]
    · apply hw.set id br (bump br) hbr (bump_ok (hw.wf id br hbr) hf)
      intro _; rfl
  · -- no open bracket has a free slot: create one
    have hnone : ∀ j b, g.primary ≤ j → g.brackets[j]? = some b → ¬ b.HasFree := by
      intro j b h1 hb hfb
      have hjl : j < g.brackets.length := by
        rcases Nat.lt_or_ge j g.brackets.length with h | h
        · exact h
        · rw [List.getElem?_eq_none h] at hb; cases hb
      exact hex ⟨j, h1, hjl, b, hb, hfb⟩
    have hscan : g.scan (rangeFrom g.primary g.brackets.length) = .ok none := by
      apply scan_none hw.toMWF0
      intro j hj
      rw [mem_rangeFrom] at hj
      exact ⟨g.brackets[j], List.getElem?_eq_getElem hj.2, hnone j _ hj.1 (List.getElem?_eq_getElem hj.2)⟩
    obtain ⟨br, spec, hspec, hwf, hmode, hfree, hcur, hff, hid, hcomp, hcreate⟩ := createBracket_spec hw.toMWF0.toMPre
    set g1 : Manager := { g with idToOffset := g.idToOffset ++ [g.brackets.length % g.numOffsets],
                                 brackets := g.brackets ++ [br] } with hg1
    have hw1 : MWF g1 := hw.append br spec hspec hwf hmode
    have hget : g1.brackets[g.brackets.length]? = some br := by
      simp [hg1]
    obtain ⟨rg, sl, hrg, hsl, hscan1⟩ := scan_found hw1.toMWF0 [] g.brackets.length [] br (by simp) hget hfree
    have hok : BrOK g g.brackets.length br := ⟨spec, hspec, hwf, hmode⟩
    refine ⟨_, g.brackets.length, _, ?_, JobCase.fresh br rg sl hnone hok hcur hff hid hfree hrg hsl, ?_⟩
    · simp only [Manager.nextJob, hscan, hcreate]
      simp only [List.nil_append] at hscan1
      rw [hscan1]
    · apply hw1.set g.brackets.length br (bump br) hget (bump_ok (hw1.wf _ br hget) hfree)
      intro _; rfl

/-! ### `on_result` -/

theorem skipComplete_spec (brs : List Bracket) (last fuel p : Nat) (hp : p ≤ last) (hl : last < brs.length)
    (hfuel : last - p < fuel) :
    ∃ q, skipComplete brs last fuel p = some q ∧ p ≤ q ∧ q ≤ last ∧
      (∀ j b, p ≤ j → j < q → brs[j]? = some b → b.isComplete = true) ∧
      (∀ b, brs[q]? = some b → b.isComplete = true → q = last) := by
  induction fuel generalizing p with
  | zero => omega
  | succ fuel ih =>
    have hpl : p < brs.length := by omega
    have hget : brs[p]? = some brs[p] := List.getElem?_eq_getElem hpl
    unfold skipComplete
    simp only [hget]
    by_cases hc : brs[p].isComplete = true ∧ p < last
    · simp only [hc, and_self, if_true]
      obtain ⟨q, hq, h1, h2, h3, h4⟩ := ih (p + 1) (by omega) (by omega)
      refine ⟨q, hq, by omega, h2, ?_, h4⟩
      intro j b hj1 hj2 hb
      by_cases hjp : j = p
      · subst hjp; rw [hget] at hb
        have : b = brs[j] := (Option.some.inj hb).symm
        rw [this]; exact hc.1
      · exact h3 j b (by omega) hj2 hb
    · simp only [hc, if_false]
      refine ⟨p, rfl, Nat.le_refl _, hp, ?_, ?_⟩
      · intro j b h1 h2; omega
      · intro b hb hcomp
        rw [hget] at hb
        have : b = brs[p] := (Option.some.inj hb).symm
        rw [this] at hcomp
        by_contra hne
        exact hc ⟨hcomp, by omega⟩

theorem movePrimary_open (g1 : Manager) (q : Nat) (b : Bracket)
    (hq : skipComplete g1.brackets (g1.brackets.length - 1) (g1.brackets.length - g1.primary) g1.primary = some q)
    (hb : g1.brackets[q]? = some b) (hc : b.isComplete = false) :
    g1.movePrimary = .ok { g1 with primary := q } := by
  unfold Manager.movePrimary
  rw [hq]
  simp only [hb, hc, Bool.false_eq_true, if_false]

theorem movePrimary_create (g1 : Manager) (q : Nat) (b : Bracket)
    (hq : skipComplete g1.brackets (g1.brackets.length - 1) (g1.brackets.length - g1.primary) g1.primary = some q)
    (hb : g1.brackets[q]? = some b) (hc : b.isComplete = true) (g2 : Manager) (id : Nat)
    (hcr : ({ g1 with primary := q } : Manager).createBracket = .ok (g2, id)) :
    g1.movePrimary = .ok { g2 with primary := id } := by
  unfold Manager.movePrimary
  rw [hq]
  simp only [hb, hc, if_true, hcr]

/-- what `on_result` does to the manager, apart from the bracket concerned -/
structure MgrRes (g : Manager) (id : Nat) (br' : Bracket) (g' : Manager) : Prop where
  sys : g'.bracketRungs = g.bracketRungs
  mode : g'.mode = g.mode
  prim : g.primary ≤ g'.primary
  brs : ∃ extra, g'.brackets = g.brackets.set id br' ++ extra ∧
        ∀ b ∈ extra, (∀ t, ¬ b.HasId t) ∧ b.firstFree = 0 ∧ b.current = 0 ∧ b.isComplete = false

theorem legal_incomplete {spec br res rg sl} (hb : BWF spec br) (hl : LegalRes br res rg sl) :
    br.isComplete = false := by
  cases hc : br.isComplete with
  | false => rfl
  | true =>
    have := hb.cur_none (hb.complete_iff.mp hc)
    rw [hl.hrg] at this; cases this

theorem resultCase_mode {br res rg br' np} (h : ResultCase br res rg br' np) : br'.mode = br.mode := by
  cases h <;> rfl

/-- **`on_result` of the manager on a legal call** does not raise, performs the bracket's
`on_result`, and keeps the invariant (the primary bracket moves on to the first incomplete
bracket, a new bracket being created when there is none). -/
theorem mgr_onResult_spec {g : Manager} (hw : MWF g) (id : Nat) (br : Bracket) (res : SlotInRung)
    (rg : Rung) (sl : Slot) (hbr : g.brackets[id]? = some br) (hl : LegalRes br res rg sl) :
    ∃ g' np br', g.onResult id res = .ok (g', np) ∧ ResultCase br res rg br' np ∧ BrOK g id br' ∧
      MWF g' ∧ MgrRes g id br' g' := by
  obtain ⟨spec, hspec, hb, hmode⟩ := hw.wf id br hbr
  have hinc := legal_incomplete hb hl
  have hidlt : id < g.brackets.length := getElem?_lt hbr
  have hge : g.primary ≤ id := by
    by_contra hc
    have := hw.below id br (by omega) hbr
    rw [hinc] at this; cases this
  obtain ⟨br', np, hres, hcase, hb'⟩ := onResult_cases hb hl
  have hok' : BrOK g id br' := ⟨spec, hspec, hb', (resultCase_mode hcase).trans hmode⟩
  have hw1 : MWF0 (g.setBracket id br') := hw.toMWF0.set id br br' hbr hok'
  have hget1 : ∀ j, j ≠ id → (g.setBracket id br').brackets[j]? = g.brackets[j]? := by
    intro j hj; simp only [Manager.setBracket]; exact List.getElem?_set_ne (Ne.symm hj)
  have hgetid : (g.setBracket id br').brackets[id]? = some br' := by
    simp only [Manager.setBracket]; exact List.getElem?_set_self hidlt
  have hlen1 : (g.setBracket id br').brackets.length = g.brackets.length := by simp [Manager.setBracket]
  unfold Manager.onResult
  have hcond : ¬ ¬ (g.primary ≤ id ∧ id < g.brackets.length) := by simp [hge, hidlt]
  simp only [hcond, if_false, hbr, hres]
  by_cases hprim : id = g.primary
  · simp only [hprim, if_true]
    subst hprim
    -- move the primary bracket
    obtain ⟨q, hq, hq1, hq2, hq3, hq4⟩ := skipComplete_spec (g.setBracket g.primary br').brackets
      (g.brackets.length - 1) (g.brackets.length - g.primary) g.primary (by omega) (by rw [hlen1]; omega) (by omega)
    have hqlt : q < (g.setBracket g.primary br').brackets.length := by rw [hlen1]; omega
    have hgetq := List.getElem?_eq_getElem hqlt
    have hq' : skipComplete (g.setBracket g.primary br').brackets ((g.setBracket g.primary br').brackets.length - 1)
        ((g.setBracket g.primary br').brackets.length - (g.setBracket g.primary br').primary)
        (g.setBracket g.primary br').primary = some q := by rw [hlen1]; exact hq
    have hbelow : ∀ j b, j < q → (g.setBracket g.primary br').brackets[j]? = some b → b.isComplete = true := by
      intro j b hj hbj
      by_cases hjp : j < g.primary
      · rw [hget1 j (by omega)] at hbj
        exact hw.below j b hjp hbj
      · exact hq3 j b (by omega) hj hbj
    cases hcq : ((g.setBracket g.primary br').brackets[q]).isComplete with
    | true =>
      have hqlast : q = g.brackets.length - 1 := hq4 _ hgetq hcq
      obtain ⟨nb, nspec, hnspec, hnwf, hnmode, hnfree, hncur, hnff, hnid, hncomp, hcreate⟩ :=
        createBracket_spec (hw1.primary q).toMPre
      rw [movePrimary_create _ q _ hq' hgetq hcq _ _ hcreate]
      refine ⟨_, np, br', rfl, hcase, hok', ?_, ?_⟩
      · refine ⟨((hw1.primary q).append nb nspec hnspec hnwf hnmode).primary _, ?_, ?_, ?_⟩
        · simp [Manager.setBracket]
        · intro j b hj hbj
          change j < (g.setBracket g.primary br').brackets.length at hj
          change ((g.setBracket g.primary br').brackets ++ [nb])[j]? = some b at hbj
          rw [List.getElem?_append_left hj] at hbj
          by_cases hjq : j < q
          · exact hbelow j b hjq hbj
          · have : j = q := by rw [hlen1] at hj; omega
            subst this
            rw [hgetq] at hbj
            have : b = _ := (Option.some.inj hbj).symm
            rw [this]; exact hcq
        · intro b hbj
          change ((g.setBracket g.primary br').brackets ++ [nb])[(g.setBracket g.primary br').brackets.length]? = some b at hbj
          rw [List.getElem?_append_right (Nat.le_refl _)] at hbj
          simp only [Nat.sub_self, List.getElem?_cons_zero, Option.some.injEq] at hbj
          rw [← hbj]; exact hncomp
      · refine ⟨rfl, rfl, ?_, [nb], rfl, ?_⟩
        · change g.primary ≤ (g.setBracket g.primary br').brackets.length
          rw [hlen1]; omega
        · intro b hbm
          simp only [List.mem_singleton] at hbm; subst hbm
          exact ⟨hnid, hnff, hncur, hncomp⟩
    | false =>
      rw [movePrimary_open _ q _ hq' hgetq hcq]
      refine ⟨_, np, br', rfl, hcase, hok', ?_, ?_⟩
      · refine ⟨hw1.primary q, ?_, ?_, ?_⟩
        · exact hqlt
        · intro j b hj hbj; exact hbelow j b hj hbj
        · intro b hbj
          change (g.setBracket g.primary br').brackets[q]? = some b at hbj
          rw [hgetq] at hbj
          have : b = _ := (Option.some.inj hbj).symm
          rw [this]; exact hcq
      · exact ⟨rfl, rfl, hq1, [], by simp [Manager.setBracket], by simp⟩
  · simp only [hprim, if_false]
    refine ⟨_, np, br', rfl, hcase, hok', ?_, ?_⟩
    · exact hw.set id br br' hbr hok' (by intro h; omega)
    · exact ⟨rfl, rfl, Nat.le_refl _, [], by simp [Manager.setBracket], by simp⟩

end SyneTune.Sync
