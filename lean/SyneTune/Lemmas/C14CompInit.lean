import SyneTune.Lemmas.C14CompObs
import SyneTune.Props.C03
/- C14 composed system: the constructed initial system satisfies the invariant. -/
namespace SyneTune.C14Comp
open SyneTune SyneTune.C04K SyneTune.C14 SyneTune.C13Hb

theorem mkSys_rungs (ty : HBType) (numThr : Nat) (ls : List Nat) (qs : List Rat) (maxT : Nat) :
    (mkSys ty numThr ls qs maxT).rungs = (mkRungSys ls qs maxT).rungs ∧ (mkSys ty numThr ls qs maxT).maxT = maxT := by
  unfold mkSys
  split
  · exact ⟨rfl, rfl⟩
  · exact ⟨rfl, rfl⟩

theorem sig_mkSys (ty : HBType) (numThr : Nat) (ls : List Nat) (qs : List Rat) (maxT : Nat)
    (h : qs.length = ls.length) : sig (mkSys ty numThr ls qs maxT) = (maxT, ls.reverse) := by
  obtain ⟨h1, h2⟩ := mkSys_rungs ty numThr ls qs maxT
  unfold sig
  rw [h1, h2]
  simp only [mkRungSys, List.map_reverse, C03.zipWith_rung_levels ls qs h]

theorem init_MgrWF (ty : HBType) (mode : Mode) (maxT : Nat) (levels : List Nat) (brackets : Nat)
    (perBracket : Bool) (numThr : Nat) (hmax : 1 ≤ maxT) (hinc : levels.Pairwise (· < ·))
    (hlev : ∀ l ∈ levels, 1 ≤ l ∧ l < maxT) :
    MgrWF (Manager.init ty mode maxT levels brackets perBracket numThr) := by
  refine ⟨hmax, fun l hl => (hlev l hl).2, ?_⟩
  intro x hx
  simp only [Manager.init, List.map_map, List.mem_map, List.mem_range, Function.comp] at hx
  obtain ⟨k, _, rfl⟩ := hx
  have hlen : ((promoteQuantiles levels maxT).drop k).length = (levels.drop k).length := by
    simp [C03.promoteQuantiles_length]
  rw [sig_mkSys ty numThr _ _ maxT hlen]
  refine ⟨rfl, ?_, ?_⟩
  · simp only
    rw [List.pairwise_reverse]
    exact hinc.sublist (List.drop_sublist k levels)
  · intro l hl
    simp only [List.mem_reverse] at hl
    have hm := List.mem_of_mem_drop hl
    exact ⟨(hlev l hm).1, (hlev l hm).2, hm⟩

theorem init_no_entries (ty : HBType) (mode : Mode) (maxT : Nat) (levels : List Nat) (brackets : Nat)
    (perBracket : Bool) (numThr : Nat) (L : Nat) (e : Entry) :
    ¬ EntIn (Manager.init ty mode maxT levels brackets perBracket numThr).systems L e := by
  rintro ⟨sys, hs, rg, hrg, _, he⟩
  simp only [Manager.init, List.mem_map, List.mem_range] at hs
  obtain ⟨k, _, rfl⟩ := hs
  rw [(mkSys_rungs ty numThr _ _ maxT).1] at hrg
  rw [C03_init_data _ _ maxT rg hrg] at he
  cases he

/-- **The constructed system satisfies the invariant**: a `HyperbandScheduler` of any type
built by the bracket manager's constructor from positive, strictly increasing rung levels
below `max_t` (what `successive_halving_rung_levels` produces, `C03.rung_levels_rf`), with any
`searcher_data` policy, `register_pending_myopic` and `max_resource_attr` setting, together
with a searcher that has no data yet. -/
theorem init_CInv' (ty : HBType) (mode : Mode) (maxT : Nat) (levels : List Nat) (brackets : Nat)
    (perBracket : Bool) (numThr : Nat) (sd : SearcherData) (my mra hc : Bool)
    (hmax : 1 ≤ maxT) (hinc : levels.Pairwise (· < ·)) (hlev : ∀ l ∈ levels, 1 ≤ l ∧ l < maxT) :
    CInv { sched := { mgr := Manager.init ty mode maxT levels brackets perBracket numThr, searcherData := sd,
                      hasCost := hc, pendingMyopic := my, maxResourceAttr := mra },
           st := { mode := mode } } := by
  refine ⟨init_MgrWF ty mode maxT levels brackets perBracket numThr hmax hinc hlev, ?_, ?_, ?_, ?_,
    List.nodup_nil, ?_, ⟨by simp [KeysNodup], by simp⟩, ?_, ?_⟩
  · intro hpr
    exact init_KInv ty hpr mode maxT levels brackets perBracket numThr sd my mra hc
  · intro L e he
    exact absurd he (init_no_entries ty mode maxT levels brackets perBracket numThr L e)
  · intro t rec ht; simp [alookup] at ht
  · intro t rec ht; simp [alookup] at ht
  · intro p hp; simp at hp
  · intro t r hl; simp [SState.isLabeled, alookup] at hl
  · intro _ t rec ht; simp [alookup] at ht

end SyneTune.C14Comp
