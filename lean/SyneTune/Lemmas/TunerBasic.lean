import SyneTune.Model.Tuner
/-
Basic facts about the association-list / set helpers and generic machinery for invariants of
the tuning-loop machine (`Model/Tuner.lean`).
-/
namespace SyneTune.Tuner
open SyneTune

/-! ### association lists and sets -/

theorem alookup_aset_self {β} (k : Nat) (v : β) (l : List (Nat × β)) : alookup k (aset k v l) = some v := by
  induction l with
  | nil => simp [aset, alookup]
  | cons x xs ih =>
    obtain ⟨k', v'⟩ := x
    by_cases h : k = k'
    · simp [aset, alookup, h]
    · simp [aset, alookup, h, ih]

theorem alookup_aset_ne {β} (k k' : Nat) (v : β) (l : List (Nat × β)) (h : k' ≠ k) :
    alookup k' (aset k v l) = alookup k' l := by
  induction l with
  | nil => simp [aset, alookup, h]
  | cons x xs ih =>
    obtain ⟨k2, v2⟩ := x
    by_cases h2 : k = k2
    · subst h2; simp [aset, alookup, h]
    · by_cases h3 : k' = k2
      · simp [aset, alookup, h2, h3]
      · simp [aset, alookup, h2, h3, ih]

theorem alookup_aset {β} (k k' : Nat) (v : β) (l : List (Nat × β)) :
    alookup k' (aset k v l) = if k' = k then some v else alookup k' l := by
  by_cases h : k' = k
  · subst h; simp [alookup_aset_self]
  · simp [h, alookup_aset_ne _ _ _ _ h]

theorem mem_sadd (x y : Nat) (l : List Nat) : y ∈ sadd x l ↔ y = x ∨ y ∈ l := by
  unfold sadd
  by_cases h : x ∈ l
  · simp only [h, if_true]
    constructor
    · intro hy; exact Or.inr hy
    · rintro (rfl | hy)
      · exact h
      · exact hy
  · simp only [h, if_false, List.mem_append, List.mem_singleton]
    constructor
    · rintro (hy | rfl)
      · exact Or.inr hy
      · exact Or.inl rfl
    · rintro (rfl | hy)
      · exact Or.inr rfl
      · exact Or.inl hy

theorem nodup_sadd (x : Nat) (l : List Nat) (h : l.Nodup) : (sadd x l).Nodup := by
  unfold sadd
  by_cases hx : x ∈ l
  · simp [hx, h]
  · simp only [hx, if_false]
    rw [List.nodup_append]
    refine ⟨h, by simp, ?_⟩
    intro a ha b hb
    simp only [List.mem_singleton] at hb
    subst hb
    intro hab; subst hab; exact hx ha

theorem length_sadd_le (x : Nat) (l : List Nat) : (sadd x l).length ≤ l.length + 1 := by
  unfold sadd
  by_cases hx : x ∈ l <;> simp [hx]

/-! ### the machine: invariants along runs -/

/-- a predicate on (state, answer) holds at every step of a run: used for the environment
contracts `B`, `K`, … -/
def Along (P : LState → Ans → Prop) : LState → List Ans → Prop
  | _, [] => True
  | s, a :: as => P s a ∧ Along P (step s a) as

theorem run_inv {Inv : LState → Prop} (hstep : ∀ s a, Inv s → Inv (step s a)) :
    ∀ (as : List Ans) (s : LState), Inv s → Inv (run s as) := by
  intro as
  induction as with
  | nil => intro s h; exact h
  | cons a as ih => intro s h; exact ih _ (hstep s a h)

theorem run_inv_along {Inv : LState → Prop} {P : LState → Ans → Prop}
    (hstep : ∀ s a, Inv s → P s a → Inv (step s a)) :
    ∀ (as : List Ans) (s : LState), Inv s → Along P s as → Inv (run s as) := by
  intro as
  induction as with
  | nil => intro s h _; exact h
  | cons a as ih => intro s h hp; exact ih _ (hstep s a h hp.1) hp.2

theorem run_append (s : LState) (as bs : List Ans) : run s (as ++ bs) = run (run s as) bs := by
  induction as generalizing s with
  | nil => rfl
  | cons a as ih => simp [run, ih]

theorem Along.and {P Q : LState → Ans → Prop} : ∀ {s : LState} {as : List Ans},
    Along P s as → Along Q s as → Along (fun s a => P s a ∧ Q s a) s as := by
  intro s as
  induction as generalizing s with
  | nil => intro _ _; trivial
  | cons a as ih => intro hp hq; exact ⟨⟨hp.1, hq.1⟩, ih hp.2 hq.2⟩

theorem Along.mono {P Q : LState → Ans → Prop} (h : ∀ s a, P s a → Q s a) : ∀ {s : LState} {as : List Ans},
    Along P s as → Along Q s as := by
  intro s as
  induction as generalizing s with
  | nil => intro _; trivial
  | cons a as ih => intro hp; exact ⟨h _ _ hp.1, ih hp.2⟩

/-- the ghost log is not read by the loop: `step` is `next` plus an append to the log. -/
theorem step_eq (s : LState) (a : Ans) :
    step s a = if (next s a).pc.silent || s.pc = .done then next s a
               else { next s a with log := (next s a).log ++ [pending (next s a)] } := rfl

/-- a property that does not mention the log is transported from `next` to `step` -/
theorem step_of_next {P : LState → Prop} (hlog : ∀ (s : LState) (l : List Call), P s → P { s with log := l })
    (s : LState) (a : Ans) (h : P (next s a)) : P (step s a) := by
  rw [step_eq]
  split
  · exact h
  · exact hlog _ _ h

end SyneTune.Tuner
