import SyneTune.Lemmas.C14SyncDefs
/- C14 synchronous composition: rung levels from the rung systems (`lvl`, `prevLvl`,
`level_to_prev_level`), slots of the bracket manager (`SlotAt`): uniqueness, what `next_job` and
`on_result` do to them in both directions (`Frame`). -/
namespace SyneTune.Sync.C14S
open SyneTune.C14 SyneTune.C14Comp

/-! ### strictly increasing rung levels -/

theorem isIncreasing_pairwise (l : List Nat) (h : isIncreasing l = true) : l.Pairwise (· < ·) := by
  induction l with
  | nil => exact List.Pairwise.nil
  | cons x xs ih =>
    cases xs with
    | nil => simp
    | cons y ys =>
      simp only [isIncreasing, Bool.and_eq_true, decide_eq_true_eq] at h
      have ih' := ih h.2
      refine List.Pairwise.cons ?_ ih'
      intro a ha
      rcases List.mem_cons.mp ha with rfl | ha
      · exact h.1
      · exact Nat.lt_trans h.1 ((List.pairwise_cons.mp ih').1 a ha)

theorem checkRungs_levels (spec : List (Nat × Nat)) (h : checkRungs spec = true) :
    (spec.map (·.2)).Pairwise (· < ·) ∧ ∀ a ∈ spec, 1 ≤ a.2 := by
  simp only [checkRungs, Bool.and_eq_true, List.all_eq_true, decide_eq_true_eq] at h
  exact ⟨isIncreasing_pairwise _ h.1.1.2, h.1.1.1.2⟩

theorem levels_lt (spec : List (Nat × Nat)) (hp : (spec.map (·.2)).Pairwise (· < ·)) (i j : Nat)
    (a b : Nat × Nat) (hi : spec[i]? = some a) (hj : spec[j]? = some b) (hij : i < j) : a.2 < b.2 := by
  rw [List.pairwise_map, List.pairwise_iff_getElem] at hp
  have hil := getElem?_lt hi
  have hjl := getElem?_lt hj
  have := hp i j hil hjl hij
  rw [List.getElem?_eq_getElem hil] at hi
  rw [List.getElem?_eq_getElem hjl] at hj
  rw [Option.some.inj hi, Option.some.inj hj] at this
  exact this

theorem prevLevelIn_inc (spec : List (Nat × Nat)) (hp : (spec.map (·.2)).Pairwise (· < ·)) (k : Nat)
    (a : Nat × Nat) (h : spec[k]? = some a) (p0 : Nat) :
    prevLevelIn spec a.2 p0 =
      some (match k with
            | 0 => p0
            | k' + 1 => (match spec[k']? with | some b => b.2 | none => 0)) := by
  induction spec generalizing k p0 with
  | nil => simp at h
  | cons y ys ih =>
    obtain ⟨sz, lv⟩ := y
    cases k with
    | zero =>
      simp only [List.getElem?_cons_zero, Option.some.injEq] at h
      subst h
      simp [prevLevelIn]
    | succ k =>
      simp only [List.getElem?_cons_succ] at h
      simp only [List.map_cons, List.pairwise_cons] at hp
      have hlt : lv < a.2 := hp.1 a.2 (List.mem_map_of_mem (List.mem_of_getElem? h))
      have hne : ¬ lv = a.2 := by omega
      simp only [prevLevelIn, hne, if_false]
      rw [ih hp.2 k h lv]
      cases k with
      | zero => simp
      | succ k' => simp

/-! ### `lvl`, `prevLvl` and the brackets of a well-formed manager -/

theorem specAt_of_rung {g : Manager} (hw : MWF g) {id k : Nat} {br : Bracket} {rg : Rung}
    (hbr : g.brackets[id]? = some br) (hrg : br.rungs[k]? = some rg) :
    ∃ spec, g.bracketRungs[id % g.bracketRungs.length]? = some spec ∧ checkRungs spec = true ∧
      spec[k]? = some (rg.slots.length, rg.level) := by
  obtain ⟨spec, hspec, hb, _⟩ := hw.wf id br hbr
  refine ⟨spec, hspec, hb.specOk, ?_⟩
  rw [← hb.shape]; exact shape_getElem br k rg hrg

/-- the level of a materialised rung is the level the rung system prescribes -/
theorem lvl_of_rung {g : Manager} (hw : MWF g) {id k : Nat} {br : Bracket} {rg : Rung}
    (hbr : g.brackets[id]? = some br) (hrg : br.rungs[k]? = some rg) :
    lvl g.bracketRungs id k = rg.level := by
  obtain ⟨spec, hspec, _, hk⟩ := specAt_of_rung hw hbr hrg
  simp [lvl, specAt, hspec, hk]

/-- rung levels are positive and strictly increasing within a bracket -/
theorem prevLvl_lt_lvl {g : Manager} (hw : MWF g) {id k : Nat} {br : Bracket} {rg : Rung}
    (hbr : g.brackets[id]? = some br) (hrg : br.rungs[k]? = some rg) :
    prevLvl g.bracketRungs id k < lvl g.bracketRungs id k := by
  obtain ⟨spec, hspec, hck, hk⟩ := specAt_of_rung hw hbr hrg
  obtain ⟨hinc, hpos⟩ := checkRungs_levels spec hck
  cases k with
  | zero =>
    have := hpos _ (List.mem_of_getElem? hk)
    simp only [prevLvl, lvl, specAt, hspec, Option.bind_some, hk]
    exact this
  | succ k' =>
    have hk'l : k' < spec.length := by have := getElem?_lt hk; omega
    have hk' := List.getElem?_eq_getElem hk'l
    have := levels_lt spec hinc k' (k' + 1) _ _ hk' hk (by omega)
    simp only [prevLvl, lvl, specAt, hspec, Option.bind_some, hk, hk']
    exact this

theorem lvl_mono {g : Manager} (hw : MWF g) {id k k' : Nat} {br : Bracket} {rg : Rung}
    (hbr : g.brackets[id]? = some br) (hrg : br.rungs[k]? = some rg) (hlt : k' < k) :
    lvl g.bracketRungs id k' ≤ prevLvl g.bracketRungs id k := by
  obtain ⟨spec, hspec, hck, hk⟩ := specAt_of_rung hw hbr hrg
  obtain ⟨hinc, _⟩ := checkRungs_levels spec hck
  cases k with
  | zero => omega
  | succ k1 =>
    have hk1l : k1 < spec.length := by have := getElem?_lt hk; omega
    have hk1 := List.getElem?_eq_getElem hk1l
    have hk'l : k' < spec.length := by omega
    have hk' := List.getElem?_eq_getElem hk'l
    simp only [prevLvl, lvl, specAt, hspec, Option.bind_some, hk1, hk']
    by_cases he : k' = k1
    · subst he; exact Nat.le_refl _
    · exact Nat.le_of_lt (levels_lt spec hinc k' k1 _ _ hk' hk1 (by omega))

/-- `level_to_prev_level(bracket_id, level of rung k)` is the level of rung `k - 1` -/
theorem levelToPrevLevel_eq {g : Manager} (hw : MWF g) {id k : Nat} {br : Bracket} {rg : Rung}
    (hbr : g.brackets[id]? = some br) (hrg : br.rungs[k]? = some rg) :
    g.levelToPrevLevel id (lvl g.bracketRungs id k) = .ok (prevLvl g.bracketRungs id k) := by
  obtain ⟨spec, hspec, hck, hk⟩ := specAt_of_rung hw hbr hrg
  obtain ⟨hinc, _⟩ := checkRungs_levels spec hck
  have hidlt : id < g.idToOffset.length := by rw [hw.lenEq]; exact getElem?_lt hbr
  have hoff := hw.cycle id _ (List.getElem?_eq_getElem hidlt)
  have hspec' : g.bracketRungs[id % g.numOffsets]? = some spec := hspec
  have hp := prevLevelIn_inc spec hinc k _ hk 0
  have hl : lvl g.bracketRungs id k = rg.level := lvl_of_rung hw hbr hrg
  unfold Manager.levelToPrevLevel
  rw [List.getElem?_eq_getElem hidlt]
  simp only [hoff, hspec', hl]
  simp only at hp
  rw [hp]
  cases k with
  | zero => rfl
  | succ k' =>
    have hk'l : k' < spec.length := by have := getElem?_lt hk; omega
    have hk' := List.getElem?_eq_getElem hk'l
    simp only [prevLvl, lvl, specAt, hspec, Option.bind_some, hk']

/-! ### slots -/

theorem slotAt_functional {g : Manager} {j k p : Nat} {y y' : Slot} (h : g.SlotAt j k p y)
    (h' : g.SlotAt j k p y') : y = y' := by
  obtain ⟨b, rg, hb, hk, hp⟩ := h
  obtain ⟨b', rg', hb', hk', hp'⟩ := h'
  rw [hb] at hb'
  have : b = b' := Option.some.inj hb'
  subst this
  rw [hk] at hk'
  have : rg = rg' := Option.some.inj hk'
  subst this
  rw [hp] at hp'
  exact Option.some.inj hp'

theorem slotAt_hasId {g : Manager} {j k p : Nat} {y : Slot} {t : Nat} (h : g.SlotAt j k p y)
    (ht : y.tid = some t) : g.HasId t := by
  obtain ⟨b, rg, hb, hk, hp⟩ := h
  exact ⟨b, List.mem_of_getElem? hb, rg, List.mem_of_getElem? hk, (mem_ids_iff rg t).mpr ⟨p, y, hp, ht⟩⟩

/-- the slot a running trial is registered for -/
theorem pend_slotAt {s : Sched} (hI : Inv s) {t id : Nat} {sl : SlotInRung}
    (hlook : alookup t s.pending = some (id, sl)) :
    ∃ x, s.mgr.SlotAt id sl.rungIndex sl.slotIndex x ∧ x.metric = none ∧
      (x.tid = none ∨ x.tid = some t) ∧ (x.tid = none → ¬ s.mgr.HasId t) := by
  obtain ⟨br, rg, x, hbr, hps, _⟩ := hI.pend t id sl hlook
  refine ⟨x, ⟨br, rg, hbr, ?_, hps.hsl⟩, hps.empty, hps.stid, hps.fresh⟩
  rw [hps.ri]; exact hps.hrg

/-- level facts of the slot a running trial is registered for -/
theorem pend_level {s : Sched} (hI : Inv s) {t id : Nat} {sl : SlotInRung}
    (hlook : alookup t s.pending = some (id, sl)) :
    sl.level = s.lvl id sl.rungIndex ∧ s.prevLvl id sl.rungIndex < s.lvl id sl.rungIndex ∧
    s.mgr.levelToPrevLevel id sl.level = .ok (s.prevLvl id sl.rungIndex) := by
  obtain ⟨br, rg, x, hbr, hps, _⟩ := hI.pend t id sl hlook
  have hrg : br.rungs[sl.rungIndex]? = some rg := by rw [hps.ri]; exact hps.hrg
  have h1 : sl.level = s.lvl id sl.rungIndex := by
    rw [hps.lvl]; exact (lvl_of_rung hI.mwf hbr hrg).symm
  refine ⟨h1, prevLvl_lt_lvl hI.mwf hbr hrg, ?_⟩
  rw [h1]; exact levelToPrevLevel_eq hI.mwf hbr hrg

/-- a finished slot of a running trial lies in the same bracket, in a lower rung; a trial
started for its slot has none -/
theorem finished_below {s : Sched} (hI : Inv s) {t id : Nat} {sl : SlotInRung}
    (hlook : alookup t s.pending = some (id, sl)) {j k p : Nat} {m : Metric}
    (hf : s.mgr.SlotAt j k p ⟨some t, some m⟩) : j = id ∧ k < sl.rungIndex := by
  obtain ⟨br, rg, x, hbr, hps, _⟩ := hI.pend t id sl hlook
  have hid : s.mgr.HasId t := slotAt_hasId hf rfl
  obtain ⟨b, rgk, hb, hk, hp⟩ := hf
  rcases hps.stid with hn | hs
  · exact absurd hid (hps.fresh hn)
  · have hbt : br.HasId t :=
      ⟨rg, List.mem_of_getElem? hps.hrg, (mem_ids_iff rg t).mpr ⟨sl.slotIndex, x, hps.hsl, hs⟩⟩
    have hb't : b.HasId t :=
      ⟨rgk, List.mem_of_getElem? hk, (mem_ids_iff rgk t).mpr ⟨p, _, hp, rfl⟩⟩
    have hji : j = id := hI.disjoint j id b br t hb hbr hb't hbt
    subst hji
    rw [hbr] at hb
    have : br = b := Option.some.inj hb
    subst this
    refine ⟨rfl, ?_⟩
    obtain ⟨spec, _, hbw, _⟩ := hI.mwf.wf j br hbr
    have hklt := getElem?_lt hk
    have hkle : k ≤ br.current := by have := hbw.len; omega
    rw [hps.ri]
    rcases Nat.lt_or_ge k br.current with h | h
    · exact h
    · exfalso
      have hkc : k = br.current := by omega
      subst hkc
      rw [hps.hrg] at hk
      have : rg = rgk := Option.some.inj hk
      subst this
      have hnd := hbw.nodup rg (List.mem_of_getElem? hps.hrg)
      have := nodup_idx rg.slots t hnd p sl.slotIndex _ x hp hps.hsl rfl hs
      subst this
      rw [hps.hsl] at hp
      have hx : x = ⟨some t, some m⟩ := Option.some.inj hp
      have := hps.empty
      rw [hx] at this; cases this

/-! ### what an operation of the manager does to the slots -/

/-- `g'` arises from `g` by handing out / answering slots: every slot except the answered one
`ans` is where it was, and every occupied slot with a trial id was there before or is the
answered one -/
structure Frame (g g' : Manager) (ans : Option (Nat × Nat × Nat)) : Prop where
  fwd : ∀ j k p y, g.SlotAt j k p y → ans ≠ some (j, k, p) → g'.SlotAt j k p y
  bwd : ∀ j k p t m, g'.SlotAt j k p ⟨some t, some m⟩ →
    g.SlotAt j k p ⟨some t, some m⟩ ∨ ans = some (j, k, p)

theorem Frame.refl (g : Manager) : Frame g g none :=
  ⟨fun _ _ _ _ h _ => h, fun _ _ _ _ _ h => Or.inl h⟩

theorem Frame.trans {g g1 g' : Manager} {a : Option (Nat × Nat × Nat)} (h1 : Frame g g1 none)
    (h2 : Frame g1 g' a) : Frame g g' a := by
  refine ⟨?_, ?_⟩
  · intro j k p y h hne
    exact h2.fwd j k p y (h1.fwd j k p y h (by simp)) hne
  · intro j k p t m h
    rcases h2.bwd j k p t m h with h' | h'
    · rcases h1.bwd j k p t m h' with h'' | h''
      · exact Or.inl h''
      · cases h''
    · exact Or.inr h'

theorem frame_job {g g1 : Manager} {id : Nat} {sl : SlotInRung} {br : Bracket} {rg : Rung} {x : Slot}
    (hs : JobStruct g g1 id sl br rg x) : Frame g g1 none := by
  refine ⟨fun j k p y h _ => slotAt_after_job hs j k p y h, ?_⟩
  intro j k p t m h
  left
  obtain ⟨b, rgk, hb, hk, hp⟩ := h
  rcases hs.after j b hb with ⟨rfl, rfl⟩ | ⟨_, hold⟩
  · rcases hs.old with ho | ⟨_, hno, _⟩
    · exact ⟨br, rgk, ho, hk, hp⟩
    · exfalso
      exact hno t ⟨rgk, List.mem_of_getElem? hk, (mem_ids_iff rgk t).mpr ⟨p, _, hp, rfl⟩⟩
  · exact ⟨b, rgk, hold, hk, hp⟩

/-- slots of the bracket after `rung[pos] = …` -/
theorem written_slot {br : Bracket} {res : SlotInRung} {rg : Rung} {x : Slot} (hl : LegalRes br res rg x)
    (k p : Nat) (rgk : Rung) (y : Slot) (hk : (br.written rg res).rungs[k]? = some rgk)
    (hp : rgk.slots[p]? = some y) :
    (k = br.current ∧ p = res.slotIndex) ∨ ∃ rgk0, br.rungs[k]? = some rgk0 ∧ rgk0.slots[p]? = some y := by
  by_cases hkc : k = br.current
  · subst hkc
    rw [written_cur hl] at hk
    have : rg.write res = rgk := Option.some.inj hk
    subst this
    by_cases hpp : p = res.slotIndex
    · exact Or.inl ⟨rfl, hpp⟩
    · right
      refine ⟨rg, hl.hrg, ?_⟩
      simp only [Rung.write, List.getElem?_set_ne (Ne.symm hpp)] at hp
      exact hp
  · right
    rw [written_other k hkc] at hk
    exact ⟨rgk, hk, hp⟩

theorem frame_report {g g' : Manager} {id : Nat} {br br' : Bracket} {res : SlotInRung} {rg : Rung}
    {x : Slot} {np : Option (List (Option Nat))}
    (hbr : g.brackets[id]? = some br) (hl : LegalRes br res rg x) (hc : ResultCase br res rg br' np)
    (hmr : MgrRes g id br' g') : Frame g g' (some (id, br.current, res.slotIndex)) := by
  refine ⟨?_, ?_⟩
  · intro j k p y h hne
    exact (slotAt_after_report hbr hl hc hmr).1 j k p y h (fun he => hne (by rw [he]))
  · intro j k p t m h
    obtain ⟨b, rgk, hb, hk, hp⟩ := h
    rcases brackets_after hbr hmr j b hb with ⟨rfl, rfl⟩ | ⟨_, hold⟩ | ⟨hno, _⟩
    · -- the bracket answered
      have key : (br.written rg res).rungs[k]? = some rgk →
          g.SlotAt j k p ⟨some t, some m⟩ ∨ some (j, br.current, res.slotIndex) = some (j, k, p) := by
        intro hk'
        rcases written_slot hl k p rgk _ hk' hp with ⟨h1, h2⟩ | ⟨rgk0, h1, h2⟩
        · right; rw [h1, h2]
        · left; exact ⟨br, rgk0, hbr, h1, h2⟩
      cases hc with
      | stay _ => exact key hk
      | last _ _ => exact key hk
      | promote _ newLen ms rest es _ _ =>
        change ((br.written rg res).rungs ++ [_])[k]? = some rgk at hk
        by_cases hkl : k < (br.written rg res).rungs.length
        · rw [List.getElem?_append_left hkl] at hk
          exact key hk
        · exfalso
          rw [List.getElem?_append_right (by omega)] at hk
          have hmem := List.mem_of_getElem? hk
          simp only [List.mem_singleton] at hmem
          subst hmem
          have hmem2 := List.mem_of_getElem? hp
          simp only [List.mem_map] at hmem2
          obtain ⟨o, _, ho⟩ := hmem2
          cases ho
    · exact Or.inl ⟨b, rgk, hold, hk, hp⟩
    · exfalso
      exact hno t ⟨rgk, List.mem_of_getElem? hk, (mem_ids_iff rgk t).mpr ⟨p, _, hp, rfl⟩⟩

end SyneTune.Sync.C14S
