import SyneTune.Lemmas.C14CompInit
/- C14 composed system: a STOP / PAUSE answer of `on_trial_result` is recorded in the trial's
record; what `on_trial_complete` / `on_trial_error` leave in the pending list. -/
namespace SyneTune.C14Comp
open SyneTune SyneTune.C04K SyneTune.C14 SyneTune.C13Hb

theorem onResult_decision_recorded (s s' : Sched) (t r : Nat) (v : Rat) (hint : Bool) (c e : Rat) (out : ResOut)
    (h : s.onResult t r v hint c e = .ok (s', out)) (hd : out.decision ≠ .continue) :
    ∃ rec', alookup t s'.active = some rec' ∧ rec'.decision = out.decision := by
  obtain ⟨rec, hrec, hcs⟩ := onResult_cases s s' t r v hint c e out h
  rcases hcs with ⟨_, rfl, _, hdec⟩ | ⟨hcont, g, o, co, htr, hcs⟩
  · exact ⟨rec, hrec, hdec.symm⟩
  · rcases hcs with ⟨_, _, _, hdec⟩ | ⟨_, _, _, hdec, rfl⟩
    · exact absurd hdec hd
    · have eff := taskReport_eff s.mgr g t r v hint _ e o htr
      obtain ⟨u, _, _⟩ := liveSched_upd1 s g co t r v rec o eff _ rfl
        ((afterReport_decision_keeps rec r v o _).trans hcont)
      exact ⟨_, u.self, hdec.symm⟩

theorem stepC_complete_pending (y : Sys) (t r : Nat) (v : Rat) (rec : TrialInfo)
    (hrec : alookup t y.sched.active = some rec) :
    ∀ p ∈ (stepC y (.complete t r v)).st.pending, p.1 ≠ t := by
  unfold stepC
  rw [opStep_complete, hrec]
  simp only [completeCalls]
  intro p hp
  cases hlu : rec.largestUpdate with
  | none =>
    simp only [hlu, List.nil_append, applyAll_cleanup] at hp
    exact ((mem_cleanupPending _ t p).mp hp).2
  | some l =>
    simp only [hlu] at hp
    by_cases hlr : l < r
    · simp only [hlr, if_true, List.cons_append, List.nil_append, applyAll_update_cleanup] at hp
      exact ((mem_cleanupPending _ t p).mp hp).2
    · simp only [hlr, if_false, List.nil_append, applyAll_cleanup] at hp
      exact ((mem_cleanupPending _ t p).mp hp).2

theorem stepC_error_pending (y : Sys) (t : Nat) : ∀ p ∈ (stepC y (.error t)).st.pending, p.1 ≠ t := by
  rw [stepC_error]
  intro p hp
  simp only at hp
  split at hp <;> exact ((mem_cleanupPending _ t p).mp hp).2

end SyneTune.C14Comp
