import SyneTune.Model.HB
import SyneTune.Lemmas.Rung
/- `successive_halving_rung_levels` with a reduction factor: levels are positive, strictly
increasing and below `max_t`. -/
namespace SyneTune

theorem roundHalfEven_bounds (x : ℚ) :
    (x - 1/2 ≤ (roundHalfEven x : ℚ)) ∧ ((roundHalfEven x : ℚ) ≤ x + 1/2) := by
  unfold roundHalfEven
  simp only [rat_floor_eq]
  have h1 := Int.floor_le x
  have h2 := Int.lt_floor_add_one x
  by_cases ha : x - (⌊x⌋ : ℚ) < 1/2
  · simp only [ha, if_true]; constructor <;> linarith
  · simp only [ha, if_false]
    by_cases hb : 1/2 < x - (⌊x⌋ : ℚ)
    · simp only [hb, if_true]; push_cast; constructor <;> linarith
    · simp only [hb, if_false]
      have heq : x - (⌊x⌋ : ℚ) = 1/2 := by linarith
      by_cases hpar : ⌊x⌋ % 2 = 0
      · simp only [hpar, if_true]; constructor <;> linarith
      · simp only [hpar, if_false]; push_cast; constructor <;> linarith

theorem roundHalfEven_int (n : ℤ) : roundHalfEven (n : ℚ) = n := by
  unfold roundHalfEven
  simp [rat_floor_eq]

/-- rounding keeps strict order when the arguments are at least a factor 2 apart (≥ 1) -/
theorem roundHalfEven_lt (x y : ℚ) (hx : 1 ≤ x) (hy : 2 * x ≤ y) : roundHalfEven x < roundHalfEven y := by
  obtain ⟨a1, a2⟩ := roundHalfEven_bounds x
  obtain ⟨b1, b2⟩ := roundHalfEven_bounds y
  by_cases h1 : x = 1
  · subst h1
    have : roundHalfEven (1 : ℚ) = 1 := by simpa using roundHalfEven_int 1
    rw [this]
    have : (3/2 : ℚ) ≤ (roundHalfEven y : ℚ) := by linarith
    have : (1 : ℚ) < (roundHalfEven y : ℚ) := by linarith
    exact_mod_cast this
  · have hgt : 1 < x := lt_of_le_of_ne hx (Ne.symm h1)
    have : (roundHalfEven x : ℚ) < (roundHalfEven y : ℚ) + 0 ∨ True := Or.inr trivial
    -- round y - round x ≥ y - x - 1 ≥ x - 1 > 0
    have hd : (0 : ℚ) < (roundHalfEven y : ℚ) - (roundHalfEven x : ℚ) := by linarith
    have : (roundHalfEven x : ℚ) < (roundHalfEven y : ℚ) := by linarith
    exact_mod_cast this

theorem powRat_ge_one (b : ℚ) (hb : 1 ≤ b) (k : ℕ) : 1 ≤ powRat b k := by
  induction k with
  | zero => simp [powRat]
  | succ k ih => simp only [powRat]; nlinarith

theorem powRat_succ_ge (b : ℚ) (hb : 2 ≤ b) (k : ℕ) : 2 * powRat b k ≤ powRat b (k + 1) := by
  have := powRat_ge_one b (by linarith) k
  simp only [powRat]; nlinarith

/-- the loop counter of `maxRungs`: every index below the result satisfies the loop condition -/
theorem maxRungs_spec (minT : ℕ) (rf : ℚ) (maxT : ℕ) (fuel k : ℕ)
    (hprev : ∀ j, j < k → (minT : ℚ) * powRat rf j < (maxT : ℚ)) :
    ∀ j, j < maxRungs minT rf maxT fuel k → (minT : ℚ) * powRat rf j < (maxT : ℚ) := by
  induction fuel generalizing k with
  | zero => simpa [maxRungs] using hprev
  | succ f ih =>
    unfold maxRungs
    split
    · rename_i hc
      apply ih (k + 1)
      intro j hj
      by_cases hjk : j < k
      · exact hprev j hjk
      · have : j = k := by omega
        subst this; exact hc
    · exact hprev

/-- the un-stripped level list -/
def rawLevelsRF (minT : ℕ) (rf : ℚ) (maxT : ℕ) : List ℕ :=
  (List.range (maxRungs minT rf maxT maxT 0)).map (fun j => (roundHalfEven ((minT : ℚ) * powRat rf j)).toNat)

theorem rawLevelsRF_props (minT : ℕ) (rf : ℚ) (maxT : ℕ) (hm : 1 ≤ minT) (hrf : 2 ≤ rf) :
    (rawLevelsRF minT rf maxT).Pairwise (· < ·) ∧ ∀ l ∈ rawLevelsRF minT rf maxT, 0 < l ∧ l ≤ maxT := by
  have hcond := maxRungs_spec minT rf maxT maxT 0 (by intro j hj; omega)
  have hmq : (1 : ℚ) ≤ minT := by exact_mod_cast hm
  have hx1 : ∀ j, (1 : ℚ) ≤ (minT : ℚ) * powRat rf j := by
    intro j; have := powRat_ge_one rf (by linarith) j; nlinarith
  have hpos : ∀ j, (1 : ℤ) ≤ roundHalfEven ((minT : ℚ) * powRat rf j) := by
    intro j
    have := (roundHalfEven_bounds ((minT : ℚ) * powRat rf j)).1
    have h2 : (1/2 : ℚ) ≤ (roundHalfEven ((minT : ℚ) * powRat rf j) : ℚ) := by linarith [hx1 j]
    have h3 : (0 : ℚ) < (roundHalfEven ((minT : ℚ) * powRat rf j) : ℚ) := by linarith
    have : (0 : ℤ) < roundHalfEven ((minT : ℚ) * powRat rf j) := by exact_mod_cast h3
    omega
  have hmono : ∀ i j, i < j → roundHalfEven ((minT : ℚ) * powRat rf i) < roundHalfEven ((minT : ℚ) * powRat rf j) := by
    intro i j hij
    induction j with
    | zero => omega
    | succ j ih =>
      have hstep : roundHalfEven ((minT : ℚ) * powRat rf j) < roundHalfEven ((minT : ℚ) * powRat rf (j + 1)) := by
        apply roundHalfEven_lt _ _ (hx1 j)
        have := powRat_succ_ge rf hrf j
        have hm0 : (0 : ℚ) ≤ minT := by linarith
        nlinarith
      by_cases hij' : i < j
      · exact lt_trans (ih hij') hstep
      · have : i = j := by omega
        subst this; exact hstep
  unfold rawLevelsRF
  constructor
  · rw [List.pairwise_map]
    refine List.Pairwise.imp ?_ List.pairwise_lt_range
    intro a b hab
    have h1 := hmono a b hab
    have := hpos a; have := hpos b
    omega
  · intro l hl
    simp only [List.mem_map, List.mem_range] at hl
    obtain ⟨j, hj, rfl⟩ := hl
    have hp := hpos j
    refine ⟨by omega, ?_⟩
    have hlt := hcond j hj
    have hb := (roundHalfEven_bounds ((minT : ℚ) * powRat rf j)).2
    have : (roundHalfEven ((minT : ℚ) * powRat rf j) : ℚ) < (maxT : ℚ) + 1/2 := by linarith
    have h3 : (roundHalfEven ((minT : ℚ) * powRat rf j) : ℚ) < ((maxT + 1 : ℤ) : ℚ) := by push_cast; linarith
    have h4 : roundHalfEven ((minT : ℚ) * powRat rf j) < (maxT + 1 : ℤ) := by exact_mod_cast h3
    omega

theorem dropLast_pairwise_lt_bound (l : List ℕ) (b : ℕ) (hp : l.Pairwise (· < ·)) (hle : ∀ x ∈ l, x ≤ b) :
    ∀ x ∈ l.dropLast, x < b := by
  induction l with
  | nil => simp
  | cons a as ih =>
    cases as with
    | nil => simp
    | cons c cs =>
      rw [List.pairwise_cons] at hp
      intro x hx
      simp only [List.dropLast_cons_cons, List.mem_cons] at hx
      rcases hx with rfl | hx
      · have := hp.1 c (by simp); have := hle c (by simp); omega
      · exact ih hp.2 (fun y hy => hle y (List.mem_cons_of_mem _ hy)) x hx

/-- **`successive_halving_rung_levels` (reduction factor)**: levels are positive, strictly
increasing and all `< max_t` (after stripping a trailing `max_t`). -/
theorem rungLevelsRF_props (minT : ℕ) (rf : ℚ) (maxT : ℕ) (hm : 1 ≤ minT) (hrf : 2 ≤ rf) :
    (rungLevelsRF minT rf maxT).Pairwise (· < ·) ∧ ∀ l ∈ rungLevelsRF minT rf maxT, 0 < l ∧ l < maxT := by
  obtain ⟨hp, hb⟩ := rawLevelsRF_props minT rf maxT hm hrf
  have heq : rungLevelsRF minT rf maxT =
      if (rawLevelsRF minT rf maxT).getLast? = some maxT then (rawLevelsRF minT rf maxT).dropLast
      else rawLevelsRF minT rf maxT := rfl
  rw [heq]
  split
  · refine ⟨hp.sublist (List.dropLast_sublist _), ?_⟩
    intro l hl
    exact ⟨(hb l ((List.dropLast_sublist _).subset hl)).1,
      dropLast_pairwise_lt_bound _ maxT hp (fun x hx => (hb x hx).2) l hl⟩
  · rename_i hne
    refine ⟨hp, ?_⟩
    intro l hl
    refine ⟨(hb l hl).1, ?_⟩
    have hle := (hb l hl).2
    by_contra hc
    have hl_eq : l = maxT := by omega
    subst hl_eq
    -- `maxT` is in the strictly increasing list whose elements are ≤ maxT, so it is the last one
    apply hne
    obtain ⟨pre, post, hsplit⟩ := List.append_of_mem hl
    have hpost : post = [] := by
      cases post with
      | nil => rfl
      | cons c cs =>
        exfalso
        rw [hsplit, List.pairwise_append] at hp
        have h1 := hp.2.1
        rw [List.pairwise_cons] at h1
        have := h1.1 c (by simp)
        have := (hb c (by rw [hsplit]; simp)).2
        omega
    rw [hsplit, hpost]; simp

end SyneTune
