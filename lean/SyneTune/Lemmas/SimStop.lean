import SyneTune.Lemmas.SimHeap
/-
After `_stop_or_pause_trial` no event of the trial remains in the heap, and none appears
until the trial is resumed (`CmdInv`); what was queued for it is dropped by the next poll
that does not cover it.
-/
namespace SyneTune.SimL
open SyneTune SyneTune.Backend SyneTune.PollL

variable {J : Type}

/-- the heap holds no event of trial `t` -/
def NoEv (t : Nat) (heap : List Ev) : Prop := ∀ e ∈ heap, e.trial ≠ t

/-- `a ⊕ b ≥ a` for `b ≥ 0` (true of IEEE and of exact addition) -/
def AddGe (A : Arith) : Prop := ∀ a b : Rat, 0 ≤ b → a ≤ A.add a b

/-- jobs end as completed or failed, never "paused" -/
def JobStatusOK (job : JobFn J) : Prop := ∀ js t js' st rs, job js t = .ok (js', st, rs) → st ≠ .paused

theorem processEvent_fields {A : Arith} {job : JobFn J} {s s' : Sim J} {e : Ev}
    (h : s.processEvent A job e = .ok s') :
    s'.now = s.now ∧ s'.cfg = s.cfg ∧ s'.trials.length = s.trials.length ∧
    s'.realNow = s.realNow ∧ s'.lastExit = s.lastExit := by
  unfold Sim.processEvent at h
  split at h
  · obtain ⟨x, js', status, rs, _, _, rfl⟩ := processStart_inv h
    have := pushResults_fields A e.trial e.time x.runs rs ({ s with js := js' } : Sim J) 0 e.time
    simp only at this
    obtain ⟨h1, h2, h3, _, _, _, _, _, _, h10, h11, _⟩ := this
    simp only [startResult, updT_now, push_now, h1, updT_cfg, push_cfg, h2, updT_length, push_trials, h3]
    exact ⟨trivial, trivial, trivial, h10, h11⟩
  · obtain ⟨_, rfl⟩ := processComplete_inv h; exact ⟨rfl, rfl, by simp, rfl, rfl⟩
  · cases h; exact ⟨rfl, rfl, rfl, rfl, rfl⟩
  · obtain ⟨_, rfl⟩ := processResult_inv h; exact ⟨rfl, rfl, by simp, rfl, rfl⟩

theorem startResult_mem {A : Arith} {s : Sim J} {t : Nat} {te : Rat} {x : STrial} {js' : J} {status : St}
    {rs : List Res} {e : Ev} (h : e ∈ (startResult A s t te x js' status rs).heap) : e ∈ s.heap ∨ e.trial = t := by
  simp only [startResult, updT_heap, push_heap, mem_insertEv] at h
  rcases h with rfl | h
  · right; rfl
  · rw [pushResults_mem] at h
    rcases h with h | ⟨k, r, _, rfl⟩
    · left; exact h
    · right; rfl

theorem mem_startResult {A : Arith} {s : Sim J} {t : Nat} {te : Rat} {x : STrial} {js' : J} {status : St}
    {rs : List Res} {e : Ev} (h : e ∈ s.heap) : e ∈ (startResult A s t te x js' status rs).heap := by
  simp only [startResult, updT_heap, push_heap, mem_insertEv]
  right
  rw [pushResults_mem]
  left; exact h

/-- handling an event of another trial creates no event of trial `u` -/
theorem processEvent_noEv {A : Arith} {job : JobFn J} {s s' : Sim J} {e : Ev} {u : Nat}
    (hne : e.trial ≠ u) (hno : NoEv u s.heap) (h : s.processEvent A job e = .ok s') : NoEv u s'.heap := by
  unfold Sim.processEvent at h
  split at h
  · obtain ⟨x, js', status, rs, _, _, rfl⟩ := processStart_inv h
    intro e' he'
    rcases startResult_mem he' with h1 | h1
    · exact hno e' h1
    · rw [h1]; exact hne
  · obtain ⟨_, rfl⟩ := processComplete_inv h; exact hno
  · cases h
    intro e' he'
    exact hno e' (List.mem_filter.mp he').1
  · obtain ⟨_, rfl⟩ := processResult_inv h; exact hno

theorem processUntil_noEv {A : Arith} {job : JobFn J} {fuel : Nat} {s s' : Sim J} {u : Nat}
    (hno : NoEv u s.heap) (h : Sim.processUntil A job fuel s = .ok s') : NoEv u s'.heap := by
  refine processUntil_induct A job (fun s => NoEv u s.heap) ?_ fuel s s' hno h
  intro s e rest s1 hs hheap _ hev
  have he : e.trial ≠ u := hs e (by rw [hheap]; simp)
  have hr : NoEv u rest := fun e' he' => hs e' (by rw [hheap]; exact List.mem_cons_of_mem _ he')
  exact processEvent_noEv he hr hev

theorem processUntil_fields {A : Arith} {job : JobFn J} {fuel : Nat} {s s' : Sim J}
    (h : Sim.processUntil A job fuel s = .ok s') :
    s'.now = s.now ∧ s'.cfg = s.cfg ∧ s'.trials.length = s.trials.length ∧
    s'.realNow = s.realNow ∧ s'.lastExit = s.lastExit := by
  refine processUntil_induct A job
    (fun x => x.now = s.now ∧ x.cfg = s.cfg ∧ x.trials.length = s.trials.length ∧
      x.realNow = s.realNow ∧ x.lastExit = s.lastExit) ?_ fuel s s' ⟨rfl, rfl, rfl, rfl, rfl⟩ h
  intro x e rest x1 hx _ _ hev
  obtain ⟨h1, h2, h3, h4, h5⟩ := processEvent_fields hev
  exact ⟨by rw [h1]; exact hx.1, by rw [h2]; exact hx.2.1, by rw [h3]; exact hx.2.2.1,
    by rw [h4]; exact hx.2.2.2.1, by rw [h5]; exact hx.2.2.2.2⟩

/-- first phase of `_stop_or_pause_trial`: once a due stop event of `t` is in the heap, the
event loop ends with no event of `t` left -/
theorem processUntil_stop_removes {A : Arith} {job : JobFn J} {fuel : Nat} {s s' : Sim J} {t : Nat}
    (hok : HeapOK s) (hstop : ∃ e ∈ s.heap, e.trial = t ∧ e.kind = .stop ∧ e.time ≤ s.now)
    (h : Sim.processUntil A job fuel s = .ok s') : NoEv t s'.heap := by
  have hP : (∃ e ∈ s'.heap, e.trial = t ∧ e.kind = .stop ∧ e.time ≤ s'.now) ∨ NoEv t s'.heap := by
    refine processUntil_induct A job
      (fun x => (∃ e ∈ x.heap, e.trial = t ∧ e.kind = .stop ∧ e.time ≤ x.now) ∨ NoEv t x.heap)
      ?_ fuel s s' (Or.inl hstop) h
    intro x e rest x1 hx hheap _ hev
    have hnow := (processEvent_fields hev).1
    simp only at hnow
    rcases hx with ⟨e0, he0, ht0, hk0, hd0⟩ | hx
    · rw [hheap] at he0
      by_cases hstopT : e.trial = t ∧ e.kind = .stop
      · -- a stop event of `t` is handled: all events of `t` go
        right
        unfold Sim.processEvent at hev
        rw [hstopT.2] at hev
        cases hev
        intro e' he'
        have := (List.mem_filter.mp he').2
        rw [hstopT.1] at this
        simpa using this
      · have he0r : e0 ∈ rest := by
          rcases List.mem_cons.mp he0 with rfl | h1
          · exact absurd ⟨ht0, hk0⟩ hstopT
          · exact h1
        left
        refine ⟨e0, ?_, ht0, hk0, by rw [hnow]; exact hd0⟩
        unfold Sim.processEvent at hev
        split at hev
        · obtain ⟨y, js', status, rs, _, _, rfl⟩ := processStart_inv hev
          exact mem_startResult he0r
        · obtain ⟨_, rfl⟩ := processComplete_inv hev; exact he0r
        · rename_i hk
          cases hev
          simp only [Sim.processStop]
          refine List.mem_filter.mpr ⟨he0r, ?_⟩
          have : e.trial ≠ t := fun hh => hstopT ⟨hh, hk⟩
          rw [ht0]; simpa using fun hh => this hh.symm
        · obtain ⟨_, rfl⟩ := processResult_inv hev; exact he0r
    · right
      have he : e.trial ≠ t := hx e (by rw [hheap]; simp)
      have hr : NoEv t rest := fun e' he' => hx e' (by rw [hheap]; exact List.mem_cons_of_mem _ he')
      exact processEvent_noEv he hr hev
  rcases hP with ⟨e0, he0, _, _, hd0⟩ | hP
  · have := processUntil_nodue hok h e0 he0
    linarith
  · exact hP

/-- second phase: only due completion events of `t` are in the heap → none afterwards -/
theorem processUntil_complete_removes {A : Arith} {job : JobFn J} {fuel : Nat} {s s' : Sim J} {t : Nat}
    (hok : HeapOK s)
    (honly : ∀ e ∈ s.heap, e.trial = t → (∃ st nat, e.kind = .complete st nat) ∧ e.time ≤ s.now)
    (h : Sim.processUntil A job fuel s = .ok s') : NoEv t s'.heap := by
  have hP : ∀ e ∈ s'.heap, e.trial = t → (∃ st nat, e.kind = .complete st nat) ∧ e.time ≤ s'.now := by
    refine processUntil_induct A job
      (fun x => ∀ e ∈ x.heap, e.trial = t → (∃ st nat, e.kind = .complete st nat) ∧ e.time ≤ x.now)
      ?_ fuel s s' honly h
    intro x e rest x1 hx hheap _ hev
    have hnow := (processEvent_fields hev).1
    simp only at hnow
    have hrest : ∀ e' ∈ rest, e'.trial = t → (∃ st nat, e'.kind = .complete st nat) ∧ e'.time ≤ x1.now := by
      intro e' he' ht'
      have := hx e' (by rw [hheap]; exact List.mem_cons_of_mem _ he') ht'
      exact ⟨this.1, by rw [hnow]; exact this.2⟩
    unfold Sim.processEvent at hev
    split at hev
    · rename_i hk
      obtain ⟨y, js', status, rs, _, _, rfl⟩ := processStart_inv hev
      intro e' he' ht'
      rcases startResult_mem he' with h1 | h1
      · exact hrest e' h1 ht'
      · -- the start event would be an event of `t` that is not a completion
        exfalso
        have := (hx e (by rw [hheap]; simp) (by rw [← h1]; exact ht')).1
        obtain ⟨st, nat, hc⟩ := this
        rw [hk] at hc; cases hc
    · obtain ⟨_, rfl⟩ := processComplete_inv hev; exact hrest
    · cases hev
      intro e' he' ht'
      exact hrest e' (List.mem_filter.mp he').1 ht'
    · obtain ⟨_, rfl⟩ := processResult_inv hev; exact hrest
  intro e he ht
  have h1 := (hP e he ht).2
  have h2 := processUntil_nodue hok h e he
  linarith

theorem le_maxRat_right' (a b : Rat) : b ≤ maxRat a b := by unfold maxRat; split <;> linarith
theorem le_maxRat_left' (a b : Rat) : a ≤ maxRat a b := by unfold maxRat; split <;> linarith

/-- **`_stop_or_pause_trial` removes every event of the trial.** -/
theorem stopOrPause_removes {A : Arith} {job : JobFn J} {s s' : Sim J} {t : Nat} {st : St}
    (hA : AddGe A) (hg : 0 ≤ s.cfg.guard) (hok : HeapOK s) (h : s.stopOrPause A job t st = .ok s') :
    NoEv t s'.heap := by
  obtain ⟨s1, s3, s5, h1, h3, h5, rfl⟩ := stopOrPause_inv h
  have hok1 : HeapOK s1 := hok.advanceOutside h1
  have hcfg1 : s1.cfg = s.cfg := by obtain ⟨_, rfl⟩ := advance_inv h1; rfl
  -- phase 1
  have hok2 : HeapOK ((s1.push (A.add s1.now s1.cfg.dStop) t .stop).advanceTo
      (A.add (A.add s1.now s1.cfg.dStop) s1.cfg.guard)) :=
    (hok1.push _ t .stop).of_eq (s' := Sim.advanceTo _ _) rfl rfl
  have hno3 : NoEv t s3.heap := by
    refine processUntil_stop_removes hok2 ?_ h3
    refine ⟨⟨A.add s1.now s1.cfg.dStop, s1.added, t, .stop⟩, ?_, rfl, rfl, ?_⟩
    · simp only [Sim.advanceTo, push_heap, mem_insertEv]; simp
    · simp only [Sim.advanceTo, push_now]
      exact le_trans (hA _ _ (by rw [hcfg1]; exact hg)) (le_maxRat_right' _ _)
  have hok3 := HeapOK.processUntil hok2 h3
  have hcfg3 : s3.cfg = s.cfg := by rw [(processUntil_fields h3).2.1]; exact hcfg1
  -- phase 2
  have hok4 : HeapOK ((s3.push (A.add s3.now s3.cfg.dCompleteStop) t (.complete st none)).advanceTo
      (A.add (A.add s3.now s3.cfg.dCompleteStop) s3.cfg.guard)) :=
    (hok3.push _ t (.complete st none)).of_eq (s' := Sim.advanceTo _ _) rfl rfl
  have hno5 : NoEv t s5.heap := by
    refine processUntil_complete_removes hok4 ?_ h5
    intro e he ht
    simp only [Sim.advanceTo, push_heap, mem_insertEv] at he
    rcases he with rfl | he
    · refine ⟨⟨st, none, rfl⟩, ?_⟩
      simp only [Sim.advanceTo, push_now]
      exact le_trans (hA _ _ (by rw [hcfg3]; exact hg)) (le_maxRat_right' _ _)
    · exact absurd ht (hno3 e he)
  exact hno5

end SyneTune.SimL
