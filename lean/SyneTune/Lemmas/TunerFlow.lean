import SyneTune.Lemmas.TunerBasic
/-
Control flow of the tuning-loop machine: the control point only moves along the edges of
`flow`; the configuration never changes.  "Which call can follow which" questions become
finite checks over `Pc`.
-/
namespace SyneTune.Tuner
open SyneTune

/-- successors of a control point -/
def succs : Pc → List Pc
  | .tuningStart => [.evalStop, .finTuningEnd]
  | .evalStop => [.clock, .loopHead]
  | .clock => [.loopHead, .finTuningEnd]
  | .loopHead => [.loopStart, .finTuningEnd]
  | .loopStart => [.fetch, .finTuningEnd]
  | .fetch => [.cbFetch, .finTuningEnd]
  | .cbFetch => [.nextRes, .finTuningEnd]
  | .nextRes => [.second, .nextRes, .decision, .finTuningEnd]
  | .decision => [.cbResult, .finTuningEnd]
  | .cbResult => [.stopCmd, .removeS, .pauseCmd, .nextRes, .finTuningEnd]
  | .stopCmd => [.stopDel, .removeS, .finTuningEnd]
  | .stopDel => [.removeS, .finTuningEnd]
  | .removeS => [.nextRes, .finTuningEnd]
  | .pauseCmd => [.removeP, .finTuningEnd]
  | .removeP => [.nextRes, .finTuningEnd]
  | .second => [.afterUpd, .stdoutNM, .completeS, .completeCb, .errorS, .second]
  | .stdoutNM => [.stderrNM, .finTuningEnd]
  | .stderrNM => [.finTuningEnd]
  | .completeS => [.completeCb, .second, .finTuningEnd]
  | .completeCb => [.second, .finTuningEnd]
  | .errorS => [.second, .finTuningEnd]
  | .afterUpd => [.sleepWait, .finTuningEnd, .schedNew]
  | .sleepWait => [.loopEnd, .finTuningEnd]
  | .schedNew => [.sleepSched, .suggestNext, .busy]
  | .busy => [.sleepSched, .suggestNext, .finTuningEnd]
  | .sleepSched => [.loopEnd, .finTuningEnd]
  | .suggestNext => [.loopEnd, .suggest]
  | .suggest => [.loopEnd, .startCmd, .resumeCmd, .finTuningEnd]
  | .startCmd => [.copyCmd, .addS, .finTuningEnd]
  | .copyCmd => [.addS, .finTuningEnd]
  | .addS => [.startCb, .finTuningEnd]
  | .startCb => [.suggestNext, .finTuningEnd]
  | .resumeCmd => [.resumeCb, .finTuningEnd]
  | .resumeCb => [.suggestNext, .finTuningEnd]
  | .loopEnd => [.removable, .evalStop, .finTuningEnd]
  | .removable => [.delNext, .finTuningEnd]
  | .delNext => [.evalStop, .delRem]
  | .delRem => [.delNext, .finTuningEnd]
  | .finTuningEnd => [.finAll, .done]
  | .finAll => [.finStatusNext, .done]
  | .finStatusNext => [.finDelAll, .finStatus]
  | .finStatus => [.finStop, .finStatusNext, .done]
  | .finStop => [.finStopDel, .finStatusNext, .done]
  | .finStopDel => [.finStatusNext, .done]
  | .finDelAll => [.finDelNext, .finMark]
  | .finDelNext => [.finMark, .finDel]
  | .finDel => [.finDelNext, .done]
  | .finMark => [.hfOut, .done]
  | .hfOut => [.hfErr, .done]
  | .hfErr => [.done]
  | .done => [.done]

def flow (p q : Pc) : Bool := (succs p).contains q

/-- all control points (for finite checks) -/
def Pc.all : List Pc :=
  [.tuningStart, .clock, .loopStart, .fetch, .cbFetch, .decision, .cbResult, .stopCmd, .stopDel, .removeS, .pauseCmd,
   .removeP, .stdoutNM, .stderrNM, .completeS, .completeCb, .errorS, .sleepWait, .busy, .sleepSched, .suggest,
   .startCmd, .copyCmd, .addS, .startCb, .resumeCmd, .resumeCb, .loopEnd, .removable, .delRem, .finTuningEnd, .finAll,
   .finStatus, .finStop, .finStopDel, .finDel, .hfOut, .hfErr, .done,
   .evalStop, .loopHead, .nextRes, .second, .afterUpd, .schedNew, .suggestNext, .delNext, .finStatusNext, .finDelAll,
   .finDelNext, .finMark]

theorem Pc.mem_all (p : Pc) : p ∈ Pc.all := by cases p <;> decide

/-- a finite check over all control points -/
theorem Pc.forall_of_all {P : Pc → Bool} (h : Pc.all.all P = true) (p : Pc) : P p = true :=
  List.all_eq_true.mp h p (Pc.mem_all p)

/-- a finite check over all pairs of control points -/
theorem Pc.forall2_of_all {P : Pc → Pc → Bool} (h : Pc.all.all (fun p => Pc.all.all (P p)) = true) (p q : Pc) :
    P p q = true :=
  Pc.forall_of_all (Pc.forall_of_all (P := fun p => Pc.all.all (P p)) h p) q

theorem pcne {p q : Pc} (h : (p == q) = false) : p ≠ q := by
  intro hc; subst hc; simp at h

/-- control points of the `finally` block -/
def finPc : Pc → Bool
  | .finTuningEnd | .finAll | .finStatus | .finStop | .finStopDel | .finDel | .hfOut | .hfErr | .done
  | .finStatusNext | .finDelAll | .finDelNext | .finMark => true
  | _ => false

/-! fields of the helper functions -/

@[simp] theorem addRow_pc (s : LState) : (addRow s).pc = s.pc := by unfold addRow; split <;> rfl
@[simp] theorem addRow_cfg (s : LState) : (addRow s).cfg = s.cfg := by unfold addRow; split <;> rfl
@[simp] theorem scheduled_pc (s : LState) (t : Nat) : (scheduled s t).pc = .suggestNext := rfl
@[simp] theorem scheduled_cfg (s : LState) (t : Nat) : (scheduled s t).cfg = s.cfg := by
  unfold scheduled addRunning; split <;> rfl
@[simp] theorem started_pc (s : LState) : (started s).pc = .addS := rfl
@[simp] theorem started_cfg (s : LState) : (started s).cfg = s.cfg := rfl
@[simp] theorem afterUpdate_cfg (s : LState) : (afterUpdate s).cfg = s.cfg := rfl
@[simp] theorem raiseFin_pc (s : LState) (e : Raised) : (raiseFin s e).pc = .finTuningEnd := rfl
@[simp] theorem exitRaise_pc (s : LState) : (exitRaise s).pc = .done := rfl
@[simp] theorem raiseFin_cfg (s : LState) (e : Raised) : (raiseFin s e).cfg = s.cfg := rfl
@[simp] theorem exitRaise_cfg (s : LState) : (exitRaise s).cfg = s.cfg := rfl

theorem afterUpdate_pc (s : LState) :
    (afterUpdate s).pc = .sleepWait ∨ (afterUpdate s).pc = .finTuningEnd ∨ (afterUpdate s).pc = .schedNew := by
  unfold afterUpdate
  simp only []
  split
  · split
    · exact Or.inl rfl
    · exact Or.inr (Or.inl rfl)
  · exact Or.inr (Or.inr rfl)

theorem secondItem_cfg (s : LState) (t : Nat) (st : St) (rest : List (Nat × St)) :
    (secondItem s t st rest).cfg = s.cfg := by
  unfold secondItem; repeat' split
  all_goals rfl

theorem secondItem_pc (s : LState) (t : Nat) (st : St) (rest : List (Nat × St)) :
    flow .second (secondItem s t st rest).pc = true ∨ (secondItem s t st rest).pc = s.pc := by
  unfold secondItem; repeat' split
  all_goals first
    | exact Or.inl rfl
    | exact Or.inr rfl

/-- **the configuration never changes** -/
theorem next_cfg (s : LState) (a : Ans) : (next s a).cfg = s.cfg := by
  unfold next
  split
  all_goals (try simp only [])
  all_goals (repeat' split)
  all_goals first
    | rfl
    | simp only [addRow_cfg, scheduled_cfg, secondItem_cfg]

theorem step_cfg (s : LState) (a : Ans) : (step s a).cfg = s.cfg := by
  rw [step_eq]; split
  · exact next_cfg s a
  · exact next_cfg s a

theorem run_cfg (s : LState) (as : List Ans) : (run s as).cfg = s.cfg := by
  induction as generalizing s with
  | nil => rfl
  | cons a as ih => simp only [run]; rw [ih, step_cfg]

/-- **the control point only moves along `flow`** -/
theorem next_flow (s : LState) (a : Ans) : flow s.pc (next s a).pc = true := by
  unfold next
  split
  all_goals (try simp only [])
  all_goals (repeat' split)
  all_goals (rw [‹s.pc = _›])
  all_goals first
    | rfl
    | (simp only [addRow_pc]; rfl)
    | (rcases afterUpdate_pc s with h | h | h <;> rw [h] <;> rfl)
    | (rcases secondItem_pc s _ _ _ with h | h
       · exact h
       · rw [h, ‹s.pc = _›]; rfl)

theorem step_pc (s : LState) (a : Ans) : (step s a).pc = (next s a).pc := by
  rw [step_eq]; split <;> rfl

theorem step_flow (s : LState) (a : Ans) : flow s.pc (step s a).pc = true := by
  rw [step_pc]; exact next_flow s a

/-- once in the `finally` block, always in it -/
theorem fin_closed (s : LState) (a : Ans) (h : finPc s.pc = true) : finPc (step s a).pc = true := by
  have hf := step_flow s a
  have key : ∀ p q, (!(finPc p && flow p q) || finPc q) = true :=
    Pc.forall2_of_all (P := fun p q => !(finPc p && flow p q) || finPc q) (by decide)
  have := key s.pc (step s a).pc
  simp only [h, hf, Bool.and_self, Bool.not_true, Bool.false_or] at this
  exact this

end SyneTune.Tuner
