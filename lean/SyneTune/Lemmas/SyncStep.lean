import SyneTune.Lemmas.SyncOps
/- Every operation of the scheduler keeps the invariant and does not raise (except for a
training script which skips its rung level). -/
namespace SyneTune.Sync
open SyneTune

theorem nodup_idx (l : List Slot) (t : Nat) (h : (l.filterMap (·.tid)).Nodup) (i j : Nat) (a b : Slot)
    (hi : l[i]? = some a) (hj : l[j]? = some b) (ha : a.tid = some t) (hb : b.tid = some t) : i = j := by
  induction l generalizing i j with
  | nil => simp at hi
  | cons z zs ih =>
    have hnd' : (zs.filterMap (·.tid)).Nodup := by
      simp only [List.filterMap_cons] at h
      cases hz : z.tid with
      | none => simpa [hz] using h
      | some u => simp only [hz, List.nodup_cons] at h; exact h.2
    cases i with
    | zero =>
      cases j with
      | zero => rfl
      | succ j =>
        simp only [List.getElem?_cons_zero, Option.some.injEq] at hi
        simp only [List.getElem?_cons_succ] at hj
        subst hi
        simp only [List.filterMap_cons, ha, List.nodup_cons] at h
        exact absurd (List.mem_filterMap.mpr ⟨b, List.mem_of_getElem? hj, hb⟩) h.1
    | succ i =>
      cases j with
      | zero =>
        simp only [List.getElem?_cons_zero, Option.some.injEq] at hj
        simp only [List.getElem?_cons_succ] at hi
        subst hj
        simp only [List.filterMap_cons, hb, List.nodup_cons] at h
        exact absurd (List.mem_filterMap.mpr ⟨a, List.mem_of_getElem? hi, ha⟩) h.1
      | succ j =>
        simp only [List.getElem?_cons_succ] at hi hj
        rw [ih hnd' i j hi hj]

theorem handed_hasId {g1 id sl br1 rg x} (hh : Handed g1 id sl br1 rg x) (t : Nat) (hx : x.tid = some t) :
    br1.HasId t ∧ g1.HasId t := by
  have h1 : br1.HasId t :=
    ⟨rg, List.mem_of_getElem? hh.hrg, List.mem_filterMap.mpr ⟨x, List.mem_of_getElem? hh.hsl, hx⟩⟩
  exact ⟨h1, br1, List.mem_of_getElem? hh.hbr, h1⟩

/-- a trial sitting in the handed-out slot is not registered as pending -/
theorem handed_not_pending {g1 : Manager} {P : List (Nat × (Nat × SlotInRung))} {C : List Nat}
    {id sl br1 rg x} (hI : InvExc g1 P C (some (id, sl.slotIndex))) (hh : Handed g1 id sl br1 rg x)
    (t : Nat) (hx : x.tid = some t) : alookup t P = none := by
  cases hlook : alookup t P with
  | none => rfl
  | some v =>
    obtain ⟨id', sl'⟩ := v
    exfalso
    obtain ⟨b', rg', x', hb', hps, hexc⟩ := hI.pend t id' sl' hlook
    have hid := handed_hasId hh t hx
    rcases hps.stid with hn | hs
    · exact hps.fresh hn hid.2
    · have hb't : b'.HasId t :=
        ⟨rg', List.mem_of_getElem? hps.hrg, List.mem_filterMap.mpr ⟨x', List.mem_of_getElem? hps.hsl, hs⟩⟩
      have hii : id' = id := hI.disjoint id' id b' br1 t hb' hh.hbr hb't hid.1
      subst hii
      rw [hh.hbr] at hb'
      have : b' = br1 := (Option.some.inj hb').symm
      subst this
      have hr : rg' = rg := by
        have := hps.hrg; rw [hh.hrg] at this; exact (Option.some.inj this).symm
      subst hr
      obtain ⟨spec, _, hb, _⟩ := hI.mwf.wf id' b' hh.hbr
      have hnd := hb.nodup rg' (List.mem_of_getElem? hh.hrg)
      have := nodup_idx rg'.slots t hnd sl'.slotIndex sl.slotIndex x' x hps.hsl hh.hsl hs hx
      exact hexc (by rw [this])

/-! ### `level_to_prev_level` -/

theorem prevLevelIn_some (rs : List (Nat × Nat)) (k : Nat) (r : Nat × Nat) (h : rs[k]? = some r) (prev : Nat) :
    ∃ p, prevLevelIn rs r.2 prev = some p := by
  induction rs generalizing k prev with
  | nil => simp at h
  | cons y ys ih =>
    obtain ⟨sz, lv⟩ := y
    simp only [prevLevelIn]
    by_cases hlv : lv = r.2
    · exact ⟨prev, by simp [hlv]⟩
    · simp only [hlv, if_false]
      cases k with
      | zero =>
        simp only [List.getElem?_cons_zero, Option.some.injEq] at h
        subst h; exact absurd rfl hlv
      | succ k => exact ih k (by simpa using h) lv

theorem levelToPrevLevel_ok {g : Manager} (hw : MWF g) (id : Nat) (br : Bracket) (k : Nat) (rg : Rung)
    (hbr : g.brackets[id]? = some br) (hrg : br.rungs[k]? = some rg) :
    ∃ p, g.levelToPrevLevel id rg.level = .ok p := by
  have hidlt : id < g.idToOffset.length := by rw [hw.lenEq]; exact getElem?_lt hbr
  have hoff := hw.cycle id _ (List.getElem?_eq_getElem hidlt)
  obtain ⟨spec, hspec, hb, _⟩ := hw.wf id br hbr
  have hsh := shape_getElem br k rg hrg
  rw [hb.shape] at hsh
  obtain ⟨p, hp⟩ := prevLevelIn_some spec k _ hsh 0
  refine ⟨p, ?_⟩
  unfold Manager.levelToPrevLevel
  rw [List.getElem?_eq_getElem hidlt]
  simp only [hoff, hspec]
  simp only at hp
  rw [hp]

/-! ### `suggest` -/

theorem slot_tid_eta (sl : SlotInRung) (t : Nat) (h : sl.tid = some t) : { sl with tid := some t } = sl := by
  cases sl; simp_all

/-- facts about a successful `suggest` -/
structure SuggestFacts (s : Sched) (tid : Nat) (c : Bool) (s' : Sched) (sg : Suggestion) : Prop where
  job : ∃ g1 id sl br1 rg x, s.mgr.nextJob = .ok (g1, id, sl) ∧ JobCase s.mgr g1 id sl ∧
    Handed g1 id sl br1 rg x ∧ (∀ u, g1.HasId u ↔ s.mgr.HasId u) ∧
    ((∃ t, x.tid = some t ∧ sg = .resume t sl.level (s.cfgLevel sl.level) ∧ s'.mgr = g1 ∧
        s'.pending = aset t (id, sl) s.pending ∧ s'.removable = s.removable) ∨
     (x.tid = none ∧ c = true ∧ sg = .start tid id sl.rungIndex sl.slotIndex sl.level (s.cfgLevel sl.level) ∧
        s'.mgr = g1 ∧ s'.pending = aset tid (id, { sl with tid := some tid }) s.pending ∧
        s'.removable = s.removable) ∨
     (x.tid = none ∧ c = false ∧ sg = .none ∧ s'.pending = s.pending ∧
        ∃ br' np, ResultCase br1 { sl with metric := some .nan } rg br' np ∧ MgrRes g1 id br' s'.mgr ∧
          s'.removable = (match np with | some l => s.removable ++ l | none => s.removable)))

theorem suggest_spec {s : Sched} (hI : Inv s) (tid : Nat) (c : Bool) (hfresh : tid ∉ s.configs) :
    ∃ s' sg calls, s.suggest tid c = .ok (s', sg, calls) ∧ Inv s' ∧ SuggestFacts s tid c s' sg := by
  obtain ⟨g1, id, sl, br1, rg, x, hjob, hcase, hh, hI1, hids, hsys⟩ := nextJob_inv hI
  unfold Sched.suggest
  rw [hjob]
  simp only
  cases hx : x.tid with
  | some t =>
    have hslt : sl.tid = some t := by rw [hh.tid, hx]
    have hid := handed_hasId hh t hx
    have htC : t ∈ s.configs := hI1.ids t hid.2
    have hnp := handed_not_pending hI1 hh t hx
    simp only [hslt, htC, not_true_eq_false, if_false, Sched.register, hnp, Option.isSome_none,
      Bool.false_eq_true]
    refine ⟨_, _, _, rfl, ?_, ⟨g1, id, sl, br1, rg, x, hjob, hcase, hh, hids, Or.inl ⟨t, hx, rfl, rfl, rfl, rfl⟩⟩⟩
    have := register_inv t hI1 hh hnp (fun c hc => hc) htC (Or.inl hx)
    rw [slot_tid_eta sl t hslt] at this
    exact this
  | none =>
    have hslt : sl.tid = none := by rw [hh.tid, hx]
    simp only [hslt]
    cases c with
    | true =>
      have hnid : ¬ g1.HasId tid := fun h => hfresh (hI1.ids tid h)
      have hnp : alookup tid s.pending = none := by
        cases hl : alookup tid s.pending with
        | none => rfl
        | some v => exact absurd (hI1.pkeys tid v hl) hfresh
      simp only [if_true, hfresh, if_false, Sched.register, hnp, Option.isSome_none, Bool.false_eq_true]
      refine ⟨_, _, _, rfl, ?_, ⟨g1, id, sl, br1, rg, x, hjob, hcase, hh, hids, Or.inr (Or.inl ⟨hx, rfl, rfl, rfl, rfl, rfl⟩)⟩⟩
      exact register_inv tid hI1 hh hnp (fun c hc => List.mem_append_left _ hc) (by simp) (Or.inr ⟨hx, hnid⟩)
    | false =>
      simp only [Bool.false_eq_true, if_false, Sched.reportAsFailed, Sched.report]
      have hl : LegalRes br1 { sl with metric := some Metric.nan } rg x :=
        ⟨hh.hrg, hh.ri, hh.lt, hh.lvl, hh.hsl, Or.inl hx, hh.empty, rfl, by
          intro _ t ht; change sl.tid = some t at ht; rw [hslt] at ht; cases ht⟩
      obtain ⟨g', np, br', hres, hrc, _, hmr, hI'⟩ := report_core hI1 br1 _ rg x hh.hbr hl rfl
        (by intro _ t ht; change sl.tid = some t at ht; rw [hslt] at ht; cases ht)
        (by intro t ht; change sl.tid = some t at ht; rw [hslt] at ht; cases ht)
        (by intro t ht; change sl.tid = some t at ht; rw [hslt] at ht; cases ht)
      rw [hres]
      exact ⟨_, _, _, rfl, hI', ⟨g1, id, sl, br1, rg, x, hjob, hcase, hh, hids,
        Or.inr (Or.inr ⟨hx, rfl, rfl, rfl, br', np, hrc, hmr, rfl⟩)⟩⟩

/-! ### reporting for a pending trial -/

theorem pend_legal {g : Manager} {br : Bracket} {t : Nat} {sl : SlotInRung} {rg : Rung} {x : Slot}
    (hbr : br ∈ g.brackets) (hps : PendSlot g br t sl rg x) (mv : Metric) :
    LegalRes br { sl with metric := some mv } rg x := by
  refine ⟨hps.hrg, hps.ri, hps.lt, hps.lvl, hps.hsl, ?_, hps.empty, rfl, ?_⟩
  · rcases hps.stid with h | h
    · exact Or.inl h
    · exact Or.inr (h.trans hps.tid.symm)
  · intro hx u hu hc
    change sl.tid = some u at hu
    rw [hps.tid] at hu
    have : u = t := (Option.some.inj hu).symm
    subst this
    exact hps.fresh hx ⟨br, hbr, hc⟩

/-- facts about reporting metric `mv` for the pending trial `t` -/
structure ReportFacts (s : Sched) (t : Nat) (mv : Metric) (s1 : Sched) : Prop where
  ex : ∃ id sl br rg x br' np, alookup t s.pending = some (id, sl) ∧ s.mgr.brackets[id]? = some br ∧
    PendSlot s.mgr br t sl rg x ∧ ResultCase br { sl with metric := some mv } rg br' np ∧
    MgrRes s.mgr id br' s1.mgr ∧
    s1.removable = (match np with | some l => s.removable ++ l | none => s.removable)

theorem report_pending {s : Sched} (hI : Inv s) (t id : Nat) (sl : SlotInRung) (mv : Metric)
    (hlook : alookup t s.pending = some (id, sl)) :
    ∃ s1, s.report id { sl with metric := some mv } = .ok s1 ∧ s1.pending = s.pending ∧ s1.configs = s.configs ∧
      InvExc s1.mgr (adel t s.pending) s.configs none ∧ ReportFacts s t mv s1 ∧
      ∃ br' rg', s1.mgr.brackets[id]? = some br' ∧ br'.rungs[sl.rungIndex]? = some rg' ∧ rg'.level = sl.level := by
  obtain ⟨br, rg, x, hbr, hps, _⟩ := hI.pend t id sl hlook
  have hl := pend_legal (List.mem_of_getElem? hbr) hps mv
  have hIa := inv_adel hI t id sl hlook
  obtain ⟨g', np, br', hres, hrc, _, hmr, hI'⟩ := report_core hIa br _ rg x hbr hl rfl
    (by
      intro hx u hu
      change sl.tid = some u at hu
      rw [hps.tid] at hu
      have : u = t := (Option.some.inj hu).symm
      subst this; exact hps.fresh hx)
    (by
      intro u hu
      change sl.tid = some u at hu
      rw [hps.tid] at hu
      have : u = t := (Option.some.inj hu).symm
      subst this; exact alookup_adel_self _ _ hI.keys)
    (by
      intro u hu
      change sl.tid = some u at hu
      rw [hps.tid] at hu
      have : u = t := (Option.some.inj hu).symm
      subst this; exact hI.pkeys _ _ hlook)
  unfold Sched.report
  rw [hres]
  refine ⟨_, rfl, rfl, rfl, hI', ⟨id, sl, br, rg, x, br', np, hlook, hbr, hps, hrc, hmr, rfl⟩, ?_⟩
  have hold := brackets_after_old hbr hmr
  refine ⟨br', rg.write { sl with metric := some mv }, hold.1, ?_, ?_⟩
  · rw [hps.ri]
    have hw := written_cur hl
    cases hrc with
    | stay _ => exact hw
    | last _ _ => exact hw
    | promote _ _ _ _ _ _ _ =>
      change ((br.written rg _).rungs ++ [_])[br.current]? = _
      rw [List.getElem?_append_left (getElem?_lt hw)]; exact hw
  · exact hps.lvl.symm

/-! ### `on_trial_error` -/

theorem onError_spec {s : Sched} (hI : Inv s) (tid : Nat) :
    ∃ s' calls, s.onError tid = .ok (s', calls) ∧ Inv s' ∧
      ((alookup tid s.pending = none ∧ s' = s) ∨
       (∃ s1, ReportFacts s tid .nan s1 ∧ s' = { s1 with pending := adel tid s.pending })) := by
  unfold Sched.onError
  cases hlook : alookup tid s.pending with
  | none => exact ⟨s, _, rfl, hI, Or.inl ⟨rfl, rfl⟩⟩
  | some v =>
    obtain ⟨id, sl⟩ := v
    obtain ⟨s1, hrep, hp1, hc1, hI1, hf, _⟩ := report_pending hI tid id sl .nan hlook
    simp only [Sched.reportAsFailed, hrep]
    refine ⟨_, _, rfl, ?_, Or.inr ⟨s1, hf, by rw [hp1]⟩⟩
    change InvExc s1.mgr (adel tid s1.pending) s1.configs none
    rw [hp1, hc1]; exact hI1

/-! ### `on_trial_result` -/

theorem onResult_spec {s : Sched} (hI : Inv s) (tid r : Nat) (v : Metric) :
    (∃ s' d calls, s.onResult tid r v = .ok (s', d, calls) ∧ Inv s' ∧
      ((alookup tid s.pending = none ∧ s' = s ∧ d = .stop) ∨
       (∃ id sl, alookup tid s.pending = some (id, sl) ∧ r < sl.level ∧ s' = s ∧ d = .continue) ∨
       (∃ id sl s1, alookup tid s.pending = some (id, sl) ∧ r = sl.level ∧ ReportFacts s tid v s1 ∧
          s' = { s1 with pending := adel tid s.pending } ∧ d = .pause))) ∨
    (∃ id sl e, alookup tid s.pending = some (id, sl) ∧ sl.level < r ∧ s.onResult tid r v = .error e) := by
  unfold Sched.onResult
  cases hlook : alookup tid s.pending with
  | none => exact Or.inl ⟨s, _, _, rfl, hI, Or.inl ⟨rfl, rfl, rfl⟩⟩
  | some p =>
    obtain ⟨id, sl⟩ := p
    obtain ⟨br, rg, x, hbr, hps, _⟩ := hI.pend tid id sl hlook
    have htC : tid ∈ s.configs := hI.pkeys _ _ hlook
    simp only [hps.tid, ne_eq, not_true_eq_false, if_false]
    unfold Sched.atMilestone
    by_cases hlv : sl.level ≤ r
    · by_cases heq : r = sl.level
      · -- the milestone report
        obtain ⟨s1, hrep, hp1, hc1, hI1, hf, br', rg', hbr', hrg', hlvl'⟩ := report_pending hI tid id sl v hlook
        subst heq
        simp only [Nat.le_refl, if_true, ne_eq, not_true_eq_false, if_false]
        simp only [hrep]
        obtain ⟨p, hp⟩ := levelToPrevLevel_ok hI1.mwf id br' sl.rungIndex rg' hbr' hrg'
        rw [hlvl'] at hp
        simp only [hp]
        have htC1 : tid ∈ s1.configs := by rw [hc1]; exact htC
        have hI' : Inv { s1 with pending := adel tid s1.pending } := by
          change InvExc s1.mgr (adel tid s1.pending) s1.configs none
          rw [hp1, hc1]; exact hI1
        by_cases hpr : p < sl.level
        · simp only [hpr, if_true, htC1, not_true_eq_false, if_false]
          exact Or.inl ⟨_, _, _, rfl, hI', Or.inr (Or.inr ⟨id, sl, s1, rfl, rfl, hf, by rw [hp1], rfl⟩)⟩
        · simp only [hpr, if_false]
          exact Or.inl ⟨_, _, _, rfl, hI', Or.inr (Or.inr ⟨id, sl, s1, rfl, rfl, hf, by rw [hp1], rfl⟩)⟩
      · -- the training script skipped its rung level
        refine Or.inr ⟨id, sl, SErr.assertion "Training script must not skip rung levels", rfl, by omega, ?_⟩
        simp only [hlv, if_true, heq, ne_eq, not_false_eq_true]
    · simp only [hlv, if_false]
      have hrg : br.rungs[br.current]? = some rg := hps.hrg
      obtain ⟨p, hp⟩ := levelToPrevLevel_ok hI.mwf id br br.current rg hbr hrg
      rw [← hps.lvl] at hp
      simp only [hp]
      by_cases hpr : p < r
      · simp only [hpr, if_true, htC, not_true_eq_false, if_false]
        exact Or.inl ⟨_, _, _, rfl, hI, Or.inr (Or.inl ⟨id, sl, rfl, by omega, rfl, rfl⟩)⟩
      · simp only [hpr, if_false]
        exact Or.inl ⟨_, _, _, rfl, hI, Or.inr (Or.inl ⟨id, sl, rfl, by omega, rfl, rfl⟩)⟩

end SyneTune.Sync
