import SyneTune.Lemmas.HBPromotion3
/-
Scheduler contract K for promotion-type asynchronous Hyperband (ASHA / PASHA):
"a `resume(t)` is only issued for a trial the scheduler itself does not consider running".
Bookkeeping of unpromoted rung entries.
-/
namespace SyneTune

/-- trial ids of the not-yet-promoted entries of a rung / a rung list / a rung system list -/
def Rung.unpromoted (rg : Rung) : List Nat := (rg.data.filter (fun e => !e.promoted)).map (·.tid)
def unpromotedOf (rs : List Rung) : List Nat := rs.flatMap Rung.unpromoted
def unpromotedSys (ss : List RungSys) : List Nat := ss.flatMap (fun s => unpromotedOf s.rungs)

theorem unpromoted_add (m : Mode) (rg : Rung) (e : Entry) (he : e.promoted = false) :
    (rg.add m e).unpromoted.Perm (e.tid :: rg.unpromoted) := by
  unfold Rung.unpromoted Rung.add
  have h1 := (insertEntry_perm m e rg.data).filter (fun e => !e.promoted)
  have h2 := h1.map (·.tid)
  simpa [List.filter_cons, he] using h2

theorem unpromoted_mark (m : Mode) (rg : Rung) (pos : Nat) (e : Entry)
    (h : rg.data[pos]? = some e) (he : e.promoted = false) :
    rg.unpromoted.Perm (e.tid :: (markPromoted m rg pos).unpromoted) := by
  unfold Rung.unpromoted
  obtain ⟨hp, _, _⟩ := markPromoted_perm m rg pos e h
  have h1 := ((eraseIdx_perm rg.data pos e h).filter (fun e => !e.promoted)).map (·.tid)
  have h2 := (hp.filter (fun e => !e.promoted)).map (·.tid)
  simp only [List.filter_cons, he, Bool.not_false, if_true, List.map_cons] at h1
  simp only [List.filter_cons, Bool.not_true, Bool.false_eq_true, if_false] at h2
  exact h1.trans (List.Perm.cons _ h2.symm)

theorem unpromotedOf_append (a b : List Rung) : unpromotedOf (a ++ b) = unpromotedOf a ++ unpromotedOf b := by
  simp [unpromotedOf]

theorem unpromotedOf_cons (a : Rung) (b : List Rung) : unpromotedOf (a :: b) = a.unpromoted ++ unpromotedOf b := by
  simp [unpromotedOf]

/-- replacing one rung: the multiset of unpromoted ids changes by the rung's change -/
theorem unpromotedOf_replace_add (pre post : List Rung) (rg rg' : Rung) (t : Nat)
    (h : rg'.unpromoted.Perm (t :: rg.unpromoted)) :
    (unpromotedOf (pre ++ rg' :: post)).Perm (t :: unpromotedOf (pre ++ rg :: post)) := by
  simp only [unpromotedOf_append, unpromotedOf_cons]
  have h1 : (unpromotedOf pre ++ (rg'.unpromoted ++ unpromotedOf post)).Perm
      (unpromotedOf pre ++ ((t :: rg.unpromoted) ++ unpromotedOf post)) :=
    List.Perm.append_left _ (List.Perm.append_right _ h)
  refine h1.trans ?_
  simp only [List.cons_append]
  exact List.perm_middle

theorem unpromotedOf_replace_del (pre post : List Rung) (rg rg' : Rung) (t : Nat)
    (h : rg.unpromoted.Perm (t :: rg'.unpromoted)) :
    (unpromotedOf (pre ++ rg :: post)).Perm (t :: unpromotedOf (pre ++ rg' :: post)) :=
  unpromotedOf_replace_add pre post rg' rg t h

/-- a promotion (plain types) removes exactly one occurrence: the promoted trial's -/
theorem promoScan_unpromoted (ty : HBType) (hty : ty.plain) (m : Mode) (numThr cap : Nat)
    (hint : Option Nat) (next : Nat) (thr : List (Nat × Rat)) (rs : List Rung) (o : SchedOut)
    (h : (promoScan ty m numThr cap hint next thr rs).out = some o) :
    (unpromotedOf rs).Perm (o.trial :: unpromotedOf (promoScan ty m numThr cap hint next thr rs).rungs) := by
  obtain ⟨pre, rg, post, pos, h1, _, _, _, h5, h6, _⟩ :=
    promoScan_plain_pre_none ty hty m numThr cap hint next thr rs o h
  obtain ⟨c, e, _, g2, g3, g4, _, _⟩ := plainPick_some m rg hint o.trial pos h5
  rw [h6, h1, ← g3]
  exact unpromotedOf_replace_del pre post rg _ e.tid (unpromoted_mark m rg pos e g2 g4)

theorem split_of_getElem? {α} (l : List α) (i : Nat) (x : α) (h : l[i]? = some x) :
    ∃ pre post, l = pre ++ x :: post ∧ pre.length = i ∧ ∀ y, l.set i y = pre ++ y :: post := by
  induction l generalizing i with
  | nil => simp at h
  | cons a as ih =>
    cases i with
    | zero => simp at h; subst h; exact ⟨[], as, rfl, rfl, fun y => rfl⟩
    | succ j =>
      rw [List.getElem?_cons_succ] at h
      obtain ⟨pre, post, h1, h2, h3⟩ := ih j h
      exact ⟨a :: pre, post, by rw [h1]; rfl, by simp [h2], fun y => by simp [List.set_cons_succ, h3 y]⟩

/-- reaching a milestone adds exactly one unpromoted entry: the reporting trial's -/
theorem promoReached_unpromoted (s s' : RungSys) (m : Mode) (tid : Nat) (v cost : Rat) (ms : Nat)
    (ig : Bool) (o : RepOut) (h : s.promoReached m tid v cost ms ig = .ok (s', o)) :
    s' = s ∨ (unpromotedOf s'.rungs).Perm (tid :: unpromotedOf s.rungs) := by
  obtain ⟨_, _, hs⟩ := promoReached_spec s s' m tid v cost ms ig o h
  rcases hs with rfl | ⟨pos, rg, h1, _, _, rfl, _⟩
  · exact Or.inl rfl
  · right
    obtain ⟨pre, post, g1, _, g3⟩ := split_of_getElem? s.rungs pos rg h1
    simp only [g3]
    rw [g1]
    exact unpromotedOf_replace_add pre post rg _ tid (unpromoted_add m rg _ rfl)

theorem promoReport_unpromoted (s s' : RungSys) (m : Mode) (tid r : Nat) (v cost : Rat) (o : RepOut)
    (h : s.promoReport m tid r v cost = .ok (s', o)) :
    (o.reached = false ∧ s' = s) ∨
    (o.reached = true ∧ o.continues = false ∧
      (s' = s ∨ (unpromotedOf s'.rungs).Perm (tid :: unpromotedOf s.rungs))) := by
  unfold RungSys.promoReport at h
  cases hr : alookup tid s.running with
  | none => simp [hr] at h
  | some mr =>
    simp only [hr] at h
    split at h
    · split at h
      · cases h
      · right
        obtain ⟨⟨h1, h2⟩, _, _⟩ := promoReached_spec s s' m tid v cost mr.1 _ o h
        exact ⟨h2, h1, promoReached_unpromoted s s' m tid v cost mr.1 _ o h⟩
    · injection h with h; injection h with h1 h2; subst h1; subst h2
      exact Or.inl ⟨rfl, rfl⟩


theorem C03_init_data (levels : List Nat) (qs : List Rat) (maxT : Nat) :
    ∀ rg ∈ (mkRungSys levels qs maxT).rungs, rg.data = [] := by
  intro rg hrg
  unfold mkRungSys at hrg
  simp only [List.mem_reverse] at hrg
  induction levels generalizing qs with
  | nil => simp at hrg
  | cons l ls ih =>
    cases qs with
    | nil => simp at hrg
    | cons q qs' =>
      simp only [List.zipWith_cons_cons, List.mem_cons] at hrg
      rcases hrg with rfl | hrg
      · rfl
      · exact ih qs' hrg

end SyneTune
