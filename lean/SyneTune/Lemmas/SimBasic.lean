import SyneTune.Lemmas.PollBasic
import SyneTune.Model.TabularBackend
import Mathlib.Tactic.Linarith
/-
Shared lemmas for the simulator model: heap order, `insertEv`, `push`, association lists,
an induction principle for `_process_events_until_now`.
-/
namespace SyneTune.SimL
open SyneTune SyneTune.Backend SyneTune.PollL

variable {J : Type}

/-! ### association lists -/

theorem alookup_aset {β} (k u : Nat) (v : β) (l : List (Nat × β)) :
    alookup u (aset k v l) = if u = k then some v else alookup u l := by
  induction l with
  | nil => by_cases h : u = k <;> simp [aset, alookup, h]
  | cons p ps ih =>
    obtain ⟨k', v'⟩ := p
    by_cases hk : k = k'
    · subst hk; by_cases hu : u = k <;> simp [aset, alookup, hu]
    · by_cases hu : u = k'
      · subst hu
        have : ¬ u = k := fun h => hk h.symm
        simp [aset, alookup, hk, this]
      · simp [aset, alookup, hk, hu, ih]

theorem alookup_adel {β} (k u : Nat) (l : List (Nat × β)) (hnd : (l.map (·.1)).Nodup) :
    alookup u (adel k l) = if u = k then none else alookup u l := by
  induction l with
  | nil => simp [adel, alookup]
  | cons p ps ih =>
    obtain ⟨k', v'⟩ := p
    simp only [List.map_cons, List.nodup_cons] at hnd
    by_cases hk : k = k'
    · subst hk
      simp only [adel, if_true, alookup]
      by_cases hu : u = k
      · subst hu
        simp only [if_true]
        -- `u` does not occur in `ps`
        have : ∀ (q : List (Nat × β)), u ∉ q.map (·.1) → alookup u q = none := by
          intro q hq
          induction q with
          | nil => rfl
          | cons a as iha =>
            obtain ⟨ka, va⟩ := a
            simp only [List.map_cons, List.mem_cons, not_or] at hq
            simp [alookup, hq.1, iha hq.2]
        exact this ps hnd.1
      · simp [hu]
    · simp only [adel, hk, if_false, alookup]
      by_cases hu : u = k'
      · subst hu
        have : ¬ u = k := fun h => hk h.symm
        simp [this]
      · simp only [hu, if_false]; exact ih hnd.2

theorem aset_keys_nodup {β} (k : Nat) (v : β) (l : List (Nat × β)) (h : (l.map (·.1)).Nodup) :
    ((aset k v l).map (·.1)).Nodup := by
  induction l with
  | nil => simp [aset]
  | cons p ps ih =>
    obtain ⟨k', v'⟩ := p
    simp only [List.map_cons, List.nodup_cons] at h
    by_cases hk : k = k'
    · subst hk; simp only [aset, if_true, List.map_cons, List.nodup_cons]; exact h
    · simp only [aset, hk, if_false, List.map_cons, List.nodup_cons]
      refine ⟨?_, ih h.2⟩
      intro hm
      have : ∀ (q : List (Nat × β)), k' ∈ (aset k v q).map (·.1) → k' ∈ q.map (·.1) := by
        intro q
        induction q with
        | nil => simp [aset]; exact fun h => hk h.symm
        | cons a as iha =>
          obtain ⟨ka, va⟩ := a
          by_cases hka : k = ka
          · subst hka; simp [aset]
          · simp only [aset, hka, if_false, List.map_cons, List.mem_cons]
            rintro (h | h)
            · exact Or.inl h
            · exact Or.inr (iha h)
      exact h.1 (this ps hm)

theorem adel_keys_nodup {β} (k : Nat) (l : List (Nat × β)) (h : (l.map (·.1)).Nodup) :
    ((adel k l).map (·.1)).Nodup := by
  induction l with
  | nil => simp [adel]
  | cons p ps ih =>
    obtain ⟨k', v'⟩ := p
    simp only [List.map_cons, List.nodup_cons] at h
    by_cases hk : k = k'
    · simp [adel, hk, h.2]
    · simp only [adel, hk, if_false, List.map_cons, List.nodup_cons]
      refine ⟨?_, ih h.2⟩
      intro hm
      have : ∀ (q : List (Nat × β)), k' ∈ (adel k q).map (·.1) → k' ∈ q.map (·.1) := by
        intro q
        induction q with
        | nil => simp [adel]
        | cons a as iha =>
          obtain ⟨ka, va⟩ := a
          by_cases hka : k = ka
          · simp only [adel, hka, if_true, List.map_cons, List.mem_cons]; exact fun h => Or.inr h
          · simp only [adel, hka, if_false, List.map_cons, List.mem_cons]
            rintro (h | h)
            · exact Or.inl h
            · exact Or.inr (iha h)
      exact h.1 (this ps hm)

/-! ### heap order -/

/-- `(time, cnt)` lexicographic -/
def keyLt (a b : Ev) : Prop := a.time < b.time ∨ (a.time = b.time ∧ a.cnt < b.cnt)

theorem before_iff (a b : Ev) : a.before b = true ↔ keyLt a b := by
  simp [Ev.before, keyLt]

theorem keyLt_trans {a b c : Ev} (h1 : keyLt a b) (h2 : keyLt b c) : keyLt a c := by
  unfold keyLt at *
  rcases h1 with h1 | ⟨h1, h1'⟩ <;> rcases h2 with h2 | ⟨h2, h2'⟩
  · left; linarith
  · left; linarith
  · left; linarith
  · right; exact ⟨by linarith, by omega⟩

theorem keyLt_of_not {a b : Ev} (h : ¬ keyLt a b) (hc : a.cnt ≠ b.cnt) : keyLt b a := by
  unfold keyLt at *
  rw [not_or] at h
  rcases lt_trichotomy a.time b.time with h3 | h3 | h3
  · exact absurd h3 h.1
  · right
    refine ⟨h3.symm, ?_⟩
    have := h.2
    rw [not_and] at this
    have := this h3
    omega
  · left; exact h3

theorem mem_insertEv (e x : Ev) (l : List Ev) : x ∈ insertEv e l ↔ x = e ∨ x ∈ l := by
  induction l with
  | nil => simp [insertEv]
  | cons y ys ih =>
    unfold insertEv
    split
    · simp
    · simp only [List.mem_cons, ih]
      constructor
      · rintro (h | h | h) <;> simp [h]
      · rintro (h | h | h) <;> simp [h]

theorem insertEv_sorted (e : Ev) (l : List Ev) (hs : l.Pairwise keyLt) (hc : ∀ x ∈ l, x.cnt ≠ e.cnt) :
    (insertEv e l).Pairwise keyLt := by
  induction l with
  | nil => simp [insertEv]
  | cons y ys ih =>
    rw [List.pairwise_cons] at hs
    unfold insertEv
    split
    · rename_i hb
      rw [before_iff] at hb
      rw [List.pairwise_cons]
      refine ⟨?_, List.pairwise_cons.mpr hs⟩
      intro a ha
      rcases List.mem_cons.mp ha with rfl | ha
      · exact hb
      · exact keyLt_trans hb (hs.1 a ha)
    · rename_i hb
      rw [before_iff] at hb
      rw [List.pairwise_cons]
      refine ⟨?_, ih hs.2 (fun x hx => hc x (List.mem_cons_of_mem _ hx))⟩
      intro a ha
      rcases (mem_insertEv e a ys).mp ha with rfl | ha
      · exact keyLt_of_not hb (fun h => hc y (by simp) h.symm)
      · exact hs.1 a ha

/-- a new entry whose counter is fresh goes behind every entry that is not later in time -/
theorem insertEv_split (e : Ev) (l : List Ev) (hc : ∀ x ∈ l, x.cnt < e.cnt) :
    ∃ l1 l2, l = l1 ++ l2 ∧ insertEv e l = l1 ++ e :: l2 ∧ (∀ x ∈ l1, x.time ≤ e.time) := by
  induction l with
  | nil => exact ⟨[], [], rfl, rfl, by simp⟩
  | cons y ys ih =>
    unfold insertEv
    split
    · exact ⟨[], y :: ys, rfl, rfl, by simp⟩
    · rename_i hb
      rw [before_iff] at hb
      obtain ⟨l1, l2, h1, h2, h3⟩ := ih (fun x hx => hc x (List.mem_cons_of_mem _ hx))
      refine ⟨y :: l1, l2, by rw [h1]; rfl, by rw [h2]; rfl, ?_⟩
      intro x hx
      rcases List.mem_cons.mp hx with rfl | hx
      · unfold keyLt at hb
        rw [not_or] at hb
        have := hb.1
        linarith
      · exact h3 x hx

/-! ### `push`, `updT` -/

@[simp] theorem push_heap (s : Sim J) (tm : Rat) (t : Nat) (k : EvKind) :
    (s.push tm t k).heap = insertEv ⟨tm, s.added, t, k⟩ s.heap := rfl
@[simp] theorem push_added (s : Sim J) (tm : Rat) (t : Nat) (k : EvKind) : (s.push tm t k).added = s.added + 1 := rfl
@[simp] theorem push_now (s : Sim J) (tm : Rat) (t : Nat) (k : EvKind) : (s.push tm t k).now = s.now := rfl
@[simp] theorem push_cfg (s : Sim J) (tm : Rat) (t : Nat) (k : EvKind) : (s.push tm t k).cfg = s.cfg := rfl
@[simp] theorem push_trials (s : Sim J) (tm : Rat) (t : Nat) (k : EvKind) : (s.push tm t k).trials = s.trials := rfl
@[simp] theorem push_next (s : Sim J) (tm : Rat) (t : Nat) (k : EvKind) : (s.push tm t k).next = s.next := rfl
@[simp] theorem push_log (s : Sim J) (tm : Rat) (t : Nat) (k : EvKind) : (s.push tm t k).log = s.log := rfl
@[simp] theorem push_runs (s : Sim J) (tm : Rat) (t : Nat) (k : EvKind) : (s.push tm t k).runs = s.runs := rfl
@[simp] theorem push_js (s : Sim J) (tm : Rat) (t : Nat) (k : EvKind) : (s.push tm t k).js = s.js := rfl

theorem updT_get (s : Sim J) (t u : Nat) (f : STrial → STrial) :
    (s.updT t f).trials[u]? = if u = t then (s.trials[u]?).map f else s.trials[u]? :=
  getElem?_modifyAt f t u s.trials

@[simp] theorem updT_heap (s : Sim J) (t : Nat) (f : STrial → STrial) : (s.updT t f).heap = s.heap := rfl
@[simp] theorem updT_now (s : Sim J) (t : Nat) (f : STrial → STrial) : (s.updT t f).now = s.now := rfl
@[simp] theorem updT_next (s : Sim J) (t : Nat) (f : STrial → STrial) : (s.updT t f).next = s.next := rfl
@[simp] theorem updT_log (s : Sim J) (t : Nat) (f : STrial → STrial) : (s.updT t f).log = s.log := rfl
@[simp] theorem updT_added (s : Sim J) (t : Nat) (f : STrial → STrial) : (s.updT t f).added = s.added := rfl
@[simp] theorem updT_cfg (s : Sim J) (t : Nat) (f : STrial → STrial) : (s.updT t f).cfg = s.cfg := rfl
@[simp] theorem updT_runs (s : Sim J) (t : Nat) (f : STrial → STrial) : (s.updT t f).runs = s.runs := rfl
@[simp] theorem updT_js (s : Sim J) (t : Nat) (f : STrial → STrial) : (s.updT t f).js = s.js := rfl
@[simp] theorem updT_length (s : Sim J) (t : Nat) (f : STrial → STrial) : (s.updT t f).trials.length = s.trials.length :=
  length_modifyAt f t s.trials

/-! ### inversion of the event handlers -/

/-- the state after a start event of trial `t` (run number `x.runs`) whose job returned
`(js', status, rs)` -/
def startResult (A : Arith) (s : Sim J) (t : Nat) (te : Rat) (x : STrial) (js' : J) (status : St)
    (rs : List Res) : Sim J :=
  let s0 : Sim J := { s with js := js' }
  let p := pushResults A s0 t te x.runs rs 0 te
  let s1 := p.1.push (A.add p.2 s.cfg.dCompleteFinal) t (.complete status (some x.runs))
  { (s1.updT t fun y => { y with runs := y.runs + 1 }) with
    busy := insertNat t s1.busy,
    runs := s1.runs ++ [⟨t, x.runs, te, s.js, js', rs⟩] }

theorem processStart_inv {A : Arith} {job : JobFn J} {s s' : Sim J} {t : Nat} {te : Rat}
    (h : s.processStart A job t te = .ok s') :
    ∃ x js' status rs, s.trials[t]? = some x ∧ job s.js t = .ok (js', status, rs) ∧
      s' = startResult A s t te x js' status rs := by
  unfold Sim.processStart at h
  cases hx : s.trials[t]? with
  | none => rw [hx] at h; cases h
  | some x =>
    rw [hx] at h
    simp only at h
    cases hj : job s.js t with
    | error e => rw [hj] at h; cases h
    | ok r =>
      obtain ⟨js', status, rs⟩ := r
      rw [hj] at h
      simp only [Except.ok.injEq] at h
      exact ⟨x, js', status, rs, rfl, rfl, h.symm⟩

theorem processComplete_inv {s s' : Sim J} {t : Nat} {st : St} {nat : Option Nat}
    (h : s.processComplete t st nat = .ok s') :
    t < s.trials.length ∧
    s' = { (s.updT t fun y => { y with isResult := true, status := st,
                                       completedRun := if nat.isSome then nat else y.completedRun }) with
           busy := s.busy.erase t } := by
  unfold Sim.processComplete at h
  split at h
  · rename_i hl; cases h; exact ⟨hl, rfl⟩
  · cases h

theorem processResult_inv {s s' : Sim J} {t : Nat} {te : Rat} {r : Res} {tag : Tag}
    (h : s.processResult t te r tag = .ok s') :
    t < s.trials.length ∧
    s' = { (s.updT t fun y => if y.isResult then y else { y with isResult := true, status := .inProgress }) with
           next := aset t ((alookup t s.next).getD [] ++ [⟨r, te, tag⟩]) s.next } := by
  unfold Sim.processResult at h
  split at h
  · rename_i hl; cases h; exact ⟨hl, rfl⟩
  · cases h

/-! ### induction over `_process_events_until_now` -/

/-- an invariant kept by the handling of every due event is kept by the event loop -/
theorem processUntil_induct (A : Arith) (job : JobFn J) (P : Sim J → Prop)
    (hstep : ∀ (s : Sim J) (e : Ev) (rest : List Ev) (s' : Sim J), P s → s.heap = e :: rest → e.time ≤ s.now →
        ({ s with heap := rest } : Sim J).processEvent A job e = .ok s' → P s') :
    ∀ (fuel : Nat) (s s' : Sim J), P s → Sim.processUntil A job fuel s = .ok s' → P s' := by
  intro fuel
  induction fuel with
  | zero =>
    intro s s' hp h
    unfold Sim.processUntil at h
    split at h
    · cases h; exact hp
    · split at h
      · cases h
      · cases h; exact hp
  | succ n ih =>
    intro s s' hp h
    unfold Sim.processUntil at h
    split at h
    · cases h; exact hp
    · rename_i e rest hheap
      split at h
      · rename_i hdue
        cases hev : ({ s with heap := rest } : Sim J).processEvent A job e with
        | error err => rw [hev] at h; cases h
        | ok s1 =>
          rw [hev] at h
          exact ih s1 s' (hstep s e rest s1 hp hheap hdue hev) h
      · cases h; exact hp

/-- when the event loop returns, the first heap entry (if any) is not due -/
theorem processUntil_head (A : Arith) (job : JobFn J) :
    ∀ (fuel : Nat) (s s' : Sim J), Sim.processUntil A job fuel s = .ok s' →
      ∀ e, s'.heap.head? = some e → s'.now < e.time := by
  intro fuel
  induction fuel with
  | zero =>
    intro s s' h e he
    unfold Sim.processUntil at h
    split at h
    · cases h; rename_i hh; rw [hh] at he; cases he
    · rename_i e0 rest hheap
      split at h
      · cases h
      · rename_i hnd
        cases h
        rw [hheap] at he
        simp only [List.head?_cons, Option.some.injEq] at he
        subst he
        linarith
  | succ n ih =>
    intro s s' h e he
    unfold Sim.processUntil at h
    split at h
    · cases h; rename_i hh; rw [hh] at he; cases he
    · rename_i e0 rest hheap
      split at h
      · cases hev : ({ s with heap := rest } : Sim J).processEvent A job e0 with
        | error err => rw [hev] at h; cases h
        | ok s1 => rw [hev] at h; exact ih s1 s' h e he
      · rename_i hnd
        cases h
        rw [hheap] at he
        simp only [List.head?_cons, Option.some.injEq] at he
        subst he
        linarith

end SyneTune.SimL
