import SyneTune.Lemmas.SimHeap
import SyneTune.Lemmas.SimTab
/-
Provenance of simulated results: every result event in the heap, every arrived result and
every log entry stems from a recorded run (start event), with the time stamp
`(start ⊕ elapsed) ⊕ delay_on_trial_result`.
-/
namespace SyneTune.SimL
open SyneTune SyneTune.Backend SyneTune.PollL

variable {J : Type}

/-- the result `res` of trial `t`, with time stamp `time` and ghost tag `tag`, is the
`tag.idx`-th result of the `tag.run`-th start event of trial `t`, whose job call is recorded -/
def Prov (A : Arith) (job : JobFn J) (s : Sim J) (t : Nat) (res : Res) (time : Rat) (tag : Tag) : Prop :=
  ∃ ρ ∈ s.runs, ρ.trial = t ∧ ρ.run = tag.run ∧ ρ.results[tag.idx]? = some res ∧
    (∃ st, job ρ.jsBefore t = .ok (ρ.jsAfter, st, ρ.results)) ∧
    time = A.add (A.add ρ.start res.elapsed) s.cfg.dResult

structure ProvInv (A : Arith) (job : JobFn J) (s : Sim J) : Prop where
  heap : ∀ e ∈ s.heap, ∀ r tag, e.kind = .result r tag → Prov A job s e.trial r e.time tag
  next : ∀ p ∈ s.next, ∀ a ∈ p.2, Prov A job s p.1 a.res a.time a.tag
  log : ∀ en ∈ s.log, Prov A job s en.trial en.arr.res en.arr.time en.tag ∧ en.tag = en.arr.tag

/-! ### association lists: membership -/

theorem mem_aset {β} (k : Nat) (v : β) (l : List (Nat × β)) (p : Nat × β) (h : p ∈ aset k v l) :
    p = (k, v) ∨ p ∈ l := by
  induction l with
  | nil => simp only [aset, List.mem_singleton] at h; exact Or.inl h
  | cons q qs ih =>
    obtain ⟨k', v'⟩ := q
    unfold aset at h
    split at h
    · rcases List.mem_cons.mp h with h | h
      · exact Or.inl h
      · exact Or.inr (List.mem_cons_of_mem _ h)
    · rcases List.mem_cons.mp h with h | h
      · exact Or.inr (by rw [h]; exact List.mem_cons_self)
      · rcases ih h with h | h
        · exact Or.inl h
        · exact Or.inr (List.mem_cons_of_mem _ h)

theorem mem_adel {β} (k : Nat) (l : List (Nat × β)) (p : Nat × β) (h : p ∈ adel k l) : p ∈ l := by
  induction l with
  | nil => simp [adel] at h
  | cons q qs ih =>
    obtain ⟨k', v'⟩ := q
    unfold adel at h
    split at h
    · exact List.mem_cons_of_mem _ h
    · rcases List.mem_cons.mp h with h | h
      · rw [h]; exact List.mem_cons_self
      · exact List.mem_cons_of_mem _ (ih h)

theorem alookup_mem {β} (k : Nat) (v : β) (l : List (Nat × β)) (h : alookup k l = some v) : (k, v) ∈ l := by
  induction l with
  | nil => simp [alookup] at h
  | cons q qs ih =>
    obtain ⟨k', v'⟩ := q
    unfold alookup at h
    split at h
    · rename_i hk
      simp only [Option.some.injEq] at h
      subst hk; subst h
      exact List.mem_cons_self
    · exact List.mem_cons_of_mem _ (ih h)

/-! ### `Prov` only looks at `runs` and `cfg` -/

theorem Prov.mono {A : Arith} {job : JobFn J} {s s' : Sim J} {t : Nat} {res : Res} {time : Rat} {tag : Tag}
    (h : Prov A job s t res time tag) (hr : ∀ ρ ∈ s.runs, ρ ∈ s'.runs) (hc : s'.cfg = s.cfg) :
    Prov A job s' t res time tag := by
  obtain ⟨ρ, hm, h1, h2, h3, h4, h5⟩ := h
  exact ⟨ρ, hr ρ hm, h1, h2, h3, h4, by rw [hc]; exact h5⟩

theorem Prov.of_eq {A : Arith} {job : JobFn J} {s s' : Sim J} {t : Nat} {res : Res} {time : Rat} {tag : Tag}
    (h : Prov A job s t res time tag) (hr : s'.runs = s.runs) (hc : s'.cfg = s.cfg) :
    Prov A job s' t res time tag :=
  h.mono (by rw [hr]; exact fun _ h => h) hc

/-- the invariant survives growing `runs` and shrinking heap / arrived results / log -/
theorem ProvInv.weaken {A : Arith} {job : JobFn J} {s s' : Sim J} (h : ProvInv A job s) (hc : s'.cfg = s.cfg)
    (hr : ∀ ρ ∈ s.runs, ρ ∈ s'.runs) (hh : ∀ e ∈ s'.heap, e ∈ s.heap) (hn : ∀ p ∈ s'.next, p ∈ s.next)
    (hl : ∀ en ∈ s'.log, en ∈ s.log) : ProvInv A job s' := by
  constructor
  · intro e he r tag hk
    exact (h.heap e (hh e he) r tag hk).mono hr hc
  · intro p hp a ha
    exact (h.next p (hn p hp) a ha).mono hr hc
  · intro en hen
    obtain ⟨h1, h2⟩ := h.log en (hl en hen)
    exact ⟨h1.mono hr hc, h2⟩

theorem ProvInv.of_eq {A : Arith} {job : JobFn J} {s s' : Sim J} (h : ProvInv A job s) (hc : s'.cfg = s.cfg)
    (hh : s'.heap = s.heap) (hn : s'.next = s.next) (hl : s'.log = s.log) (hr : s'.runs = s.runs) :
    ProvInv A job s' :=
  h.weaken hc (by rw [hr]; exact fun _ h => h) (by rw [hh]; exact fun _ h => h)
    (by rw [hn]; exact fun _ h => h) (by rw [hl]; exact fun _ h => h)

/-! ### the state after a start event -/

theorem startResult_fields (A : Arith) (s : Sim J) (t : Nat) (te : Rat) (x : STrial) (js' : J) (status : St)
    (rs : List Res) :
    (startResult A s t te x js' status rs).cfg = s.cfg ∧
    (startResult A s t te x js' status rs).next = s.next ∧
    (startResult A s t te x js' status rs).log = s.log ∧
    (startResult A s t te x js' status rs).js = js' ∧
    (startResult A s t te x js' status rs).runs = s.runs ++ [⟨t, x.runs, te, s.js, js', rs⟩] := by
  have hf := pushResults_fields A t te x.runs rs ({ s with js := js' } : Sim J) 0 te
  simp only at hf
  obtain ⟨_, h2, _, h4, h5, h6, h7, _⟩ := hf
  refine ⟨h2, h4, h5, h7, ?_⟩
  show (pushResults A ({ s with js := js' } : Sim J) t te x.runs rs 0 te).1.runs ++ _ = _
  rw [h6]

theorem startResult_heap {A : Arith} {s : Sim J} {t : Nat} {te : Rat} {x : STrial} {js' : J} {status : St}
    {rs : List Res} {e : Ev} (he : e ∈ (startResult A s t te x js' status rs).heap) :
    (∃ tm c, e = ⟨tm, c, t, .complete status (some x.runs)⟩) ∨ e ∈ s.heap ∨
    ∃ k r, rs[k]? = some r ∧
      e = ⟨A.add (A.add te r.elapsed) s.cfg.dResult, s.added + k, t, .result r ⟨x.runs, k⟩⟩ := by
  have he' : e ∈ insertEv ⟨_, _, t, .complete status (some x.runs)⟩
      (pushResults A ({ s with js := js' } : Sim J) t te x.runs rs 0 te).1.heap := he
  rw [mem_insertEv, pushResults_mem] at he'
  rcases he' with rfl | h | ⟨k, r, hk, rfl⟩
  · left; exact ⟨_, _, rfl⟩
  · right; left; exact h
  · right; right; exact ⟨k, r, hk, by simp⟩

theorem ProvInv.startRes {A : Arith} {job : JobFn J} {s : Sim J} (h : ProvInv A job s) (t : Nat) (te : Rat)
    (x : STrial) (js' : J) (status : St) (rs : List Res) (hj : job s.js t = .ok (js', status, rs)) :
    ProvInv A job (startResult A s t te x js' status rs) := by
  obtain ⟨hc, hn, hl, _, hr⟩ := startResult_fields A s t te x js' status rs
  have hsub : ∀ ρ ∈ s.runs, ρ ∈ (startResult A s t te x js' status rs).runs := by
    intro ρ hρ; rw [hr]; exact List.mem_append_left _ hρ
  constructor
  · intro e he r tag hk
    rcases startResult_heap he with ⟨tm, c, rfl⟩ | he | ⟨k, r', hk', rfl⟩
    · cases hk
    · exact (h.heap e he r tag hk).mono hsub hc
    · simp only [EvKind.result.injEq] at hk
      obtain ⟨rfl, rfl⟩ := hk
      refine ⟨⟨t, x.runs, te, s.js, js', rs⟩, by rw [hr]; simp, rfl, rfl, hk', ⟨status, hj⟩, ?_⟩
      rw [hc]
  · intro p hp a ha
    rw [hn] at hp
    exact (h.next p hp a ha).mono hsub hc
  · intro en hen
    rw [hl] at hen
    obtain ⟨h1, h2⟩ := h.log en hen
    exact ⟨h1.mono hsub hc, h2⟩

/-! ### the event handlers keep the invariant -/

theorem ProvInv.processEvent {A : Arith} {job : JobFn J} {s s' : Sim J} {e : Ev} {rest : List Ev}
    (h : ProvInv A job s) (hheap : s.heap = e :: rest)
    (hev : ({ s with heap := rest } : Sim J).processEvent A job e = .ok s') : ProvInv A job s' := by
  have hrest : ∀ e' ∈ rest, e' ∈ s.heap := by
    intro e' he'; rw [hheap]; exact List.mem_cons_of_mem _ he'
  have h0 : ProvInv A job ({ s with heap := rest } : Sim J) :=
    h.weaken rfl (fun _ h => h) hrest (fun _ h => h) (fun _ h => h)
  unfold Sim.processEvent at hev
  split at hev
  · obtain ⟨x, js', status, rs, _, hj, rfl⟩ := processStart_inv hev
    exact h0.startRes _ _ _ _ _ _ hj
  · obtain ⟨_, rfl⟩ := processComplete_inv hev
    exact h0.of_eq rfl rfl rfl rfl rfl
  · cases hev
    refine h0.weaken rfl (fun _ h => h) ?_ (fun _ h => h) (fun _ h => h)
    intro e' he'
    exact (List.mem_filter.mp he').1
  · rename_i r tag hk
    obtain ⟨_, rfl⟩ := processResult_inv hev
    have hpe : Prov A job s e.trial r e.time tag := h.heap e (by rw [hheap]; exact List.mem_cons_self) r tag hk
    constructor
    · intro e' he' r' tag' hk'
      exact (h.heap e' (hrest e' he') r' tag' hk').mono (fun _ h => h) rfl
    · intro p hp a ha
      rcases mem_aset _ _ _ _ hp with rfl | hp
      · simp only [List.mem_append, List.mem_singleton] at ha
        rcases ha with ha | rfl
        · cases hq : alookup e.trial s.next with
          | none =>
            have hq' : alookup e.trial ({ s with heap := rest } : Sim J).next = none := hq
            rw [hq'] at ha; simp at ha
          | some q =>
            have hq' : alookup e.trial ({ s with heap := rest } : Sim J).next = some q := hq
            rw [hq'] at ha
            exact (h.next _ (alookup_mem _ _ _ hq) a ha).mono (fun _ h => h) rfl
        · exact hpe.mono (fun _ h => h) rfl
      · exact (h.next p hp a ha).mono (fun _ h => h) rfl
    · intro en hen
      obtain ⟨h1, h2⟩ := h.log en hen
      exact ⟨h1.mono (fun _ h => h) rfl, h2⟩

theorem ProvInv.push {A : Arith} {job : JobFn J} {s : Sim J} (h : ProvInv A job s) (tm : Rat) (t : Nat)
    (k : EvKind) (hk : ∀ r tag, k ≠ .result r tag) : ProvInv A job (s.push tm t k) := by
  constructor
  · intro e he r tag hke
    simp only [push_heap, mem_insertEv] at he
    rcases he with rfl | he
    · exact absurd hke (hk r tag)
    · exact (h.heap e he r tag hke).mono (fun _ h => h) rfl
  · intro p hp a ha
    exact (h.next p hp a ha).mono (fun _ h => h) rfl
  · intro en hen
    obtain ⟨h1, h2⟩ := h.log en hen
    exact ⟨h1.mono (fun _ h => h) rfl, h2⟩

/-! ### `fetchCovered`, `dropRest` -/

theorem ProvInv.fetchCov {A : Arith} {job : JobFn J} (ids : List Nat) : ∀ (s : Sim J), ProvInv A job s →
    ProvInv A job (fetchCovered s ids).1 ∧
    ∀ p ∈ (fetchCovered s ids).2, Prov A job (fetchCovered s ids).1 p.1 p.2.res p.2.time p.2.tag := by
  induction ids with
  | nil => intro s h; exact ⟨h, by simp [SyneTune.Backend.fetchCovered]⟩
  | cons t rest ih =>
    intro s h
    unfold SyneTune.Backend.fetchCovered
    split
    · exact ih s h
    · rename_i l hl
      simp only
      have hmem : (t, l) ∈ s.next := alookup_mem _ _ _ hl
      have h1 : ProvInv A job
          (Sim.updT { s with next := adel t s.next, seen := incSeen s.seen t l.length,
                             log := s.log ++ l.map (fun (a : Arrived) => (⟨t, a.tag, true, a⟩ : LogEntry)) } t
            (fun y => { y with since := y.since ++ l.map Arrived.tag })) := by
        constructor
        · intro e he r tag hk
          exact (h.heap e he r tag hk).mono (fun _ h => h) rfl
        · intro p hp a ha
          exact (h.next p (mem_adel _ _ _ hp) a ha).mono (fun _ h => h) rfl
        · intro en hen
          rcases List.mem_append.mp hen with hen | hen
          · obtain ⟨h1, h2⟩ := h.log en hen
            exact ⟨h1.mono (fun _ h => h) rfl, h2⟩
          · obtain ⟨a, ha, rfl⟩ := List.mem_map.mp hen
            exact ⟨(h.next _ hmem a ha).mono (fun _ h => h) rfl, rfl⟩
      obtain ⟨i1, i2⟩ := ih _ h1
      refine ⟨i1, ?_⟩
      intro p hp
      rcases List.mem_append.mp hp with hp | hp
      · obtain ⟨a, ha, rfl⟩ := List.mem_map.mp hp
        have hf := fetchCovered_fields rest
          (Sim.updT { s with next := adel t s.next, seen := incSeen s.seen t l.length,
                             log := s.log ++ l.map (fun (a : Arrived) => (⟨t, a.tag, true, a⟩ : LogEntry)) } t
            (fun y => { y with since := y.since ++ l.map Arrived.tag }))
        exact (h.next _ hmem a ha).of_eq hf.2.2.2.2.2.1 hf.2.2.2.1
      · exact i2 p hp

theorem ProvInv.dropR {A : Arith} {job : JobFn J} (l : List (Nat × List Arrived)) : ∀ (s : Sim J),
    ProvInv A job s → (∀ p ∈ l, ∀ a ∈ p.2, Prov A job s p.1 a.res a.time a.tag) →
    ProvInv A job (dropRest s l) := by
  induction l with
  | nil =>
    intro s h _
    unfold SyneTune.Backend.dropRest
    exact h.weaken rfl (fun _ h => h) (fun _ h => h) (by intro p hp; cases hp) (fun _ h => h)
  | cons p rest ih =>
    intro s h hl
    obtain ⟨t, q⟩ := p
    unfold SyneTune.Backend.dropRest
    refine ih _ ?_ ?_
    · constructor
      · intro e he r tag hk
        exact (h.heap e he r tag hk).mono (fun _ h => h) rfl
      · intro p hp a ha
        exact (h.next p hp a ha).mono (fun _ h => h) rfl
      · intro en hen
        rcases List.mem_append.mp hen with hen | hen
        · obtain ⟨h1, h2⟩ := h.log en hen
          exact ⟨h1.mono (fun _ h => h) rfl, h2⟩
        · obtain ⟨a, ha, rfl⟩ := List.mem_map.mp hen
          exact ⟨(hl (t, q) List.mem_cons_self a ha).mono (fun _ h => h) rfl, rfl⟩
    · intro p hp a ha
      exact (hl p (List.mem_cons_of_mem _ hp) a ha).mono (fun _ h => h) rfl

theorem ProvInv.fetchDrop {A : Arith} {job : JobFn J} (s : Sim J) (ids : List Nat) (h : ProvInv A job s) :
    ProvInv A job (dropRest (fetchCovered s ids).1 (fetchCovered s ids).1.next) :=
  ProvInv.dropR _ _ (ProvInv.fetchCov ids s h).1 (ProvInv.fetchCov ids s h).1.next

/-! ### a generic preservation principle for the operations of the tabular backend -/

/-- what a state predicate has to satisfy in order to be kept by every operation -/
structure Pres (A : Arith) (job : JobFn TabState) (P : TB → Prop) : Prop where
  ev : ∀ (s : TB) (e : Ev) (rest : List Ev) (s' : TB), P s → s.heap = e :: rest →
      ({ s with heap := rest } : TB).processEvent A job e = .ok s' → P s'
  frame : ∀ (s s' : TB), P s → s'.cfg = s.cfg → s'.heap = s.heap → s'.next = s.next → s'.log = s.log →
      s'.runs = s.runs → s'.js = s.js → P s'
  push : ∀ (s : TB) (tm : Rat) (t : Nat) (k : EvKind), (∀ r tag, k ≠ .result r tag) → P s → P (s.push tm t k)
  js : ∀ (s : TB) (js' : TabState), js'.table = s.js.table → js'.seedFix = s.js.seedFix →
      js'.checkpointing = s.js.checkpointing → js'.maxResAttr = s.js.maxResAttr → js'.minStep = s.js.minStep →
      js'.seedFor = s.js.seedFor → P s → P { s with js := js' }
  fetch : ∀ (s : TB) (ids : List Nat), P s → P (dropRest (fetchCovered s ids).1 (fetchCovered s ids).1.next)

section pres
variable {A : Arith} {job : JobFn TabState} {P : TB → Prop}

theorem Pres.processUntil (hp : Pres A job P) {fuel : Nat} {s s' : TB} (h : P s)
    (hu : Sim.processUntil A job fuel s = .ok s') : P s' := by
  refine processUntil_induct A job P ?_ fuel s s' h hu
  intro s e rest s1 hs hheap _ hev
  exact hp.ev s e rest s1 hs hheap hev

theorem Pres.advance (hp : Pres A job P) {s s' : TB} {step : Rat} (h : P s) (ha : s.advance A step = .ok s') : P s' := by
  obtain ⟨_, rfl⟩ := advance_inv ha
  exact hp.frame _ _ h rfl rfl rfl rfl rfl rfl

theorem Pres.schedule (hp : Pres A job P) {s s' : TB} {t : Nat} (h : P s) (hs : s.schedule A job t = .ok s') : P s' := by
  obtain ⟨s1, s2, h1, h2, rfl⟩ := schedule_inv hs
  have a2 := hp.processUntil (hp.advance h h1) h2
  exact hp.frame _ _ (hp.push _ (A.add s2.now s2.cfg.dStart) t .start (by intro r tag hk; cases hk) a2)
    rfl rfl rfl rfl rfl rfl

theorem Pres.stopOrPause (hp : Pres A job P) {s s' : TB} {t : Nat} {st : St} (h : P s)
    (hs : s.stopOrPause A job t st = .ok s') : P s' := by
  obtain ⟨s1, s3, s5, h1, h3, h5, rfl⟩ := stopOrPause_inv hs
  have a1 := hp.advance h h1
  have a3 : P s3 := by
    refine hp.processUntil ?_ h3
    exact hp.frame _ _ (hp.push _ _ t .stop (by intro r tag hk; cases hk) a1) rfl rfl rfl rfl rfl rfl
  have a5 : P s5 := by
    refine hp.processUntil ?_ h5
    exact hp.frame _ _ (hp.push _ _ t (.complete st none) (by intro r tag hk; cases hk) a3) rfl rfl rfl rfl rfl rfl
  exact hp.frame _ _ a5 rfl rfl rfl rfl rfl rfl

theorem Pres.stopTrial (hp : Pres A job P) {s s' : TB} {t : Nat} (h : P s)
    (hs : s.stopTrial A job t = .ok s') : P s' := by
  refine hp.stopOrPause ?_ hs
  exact hp.frame _ _ h rfl rfl rfl rfl rfl rfl

theorem Pres.stopAllGo (hp : Pres A job P) (l : List Nat) : ∀ {s s' : TB}, P s →
    simStopAllGo A job s l = .ok s' → P s' := by
  induction l with
  | nil => intro s s' h hs; cases hs; exact h
  | cons t rest ih =>
    intro s s' h hs
    unfold simStopAllGo at hs
    split at hs
    · exact ih h hs
    · split at hs
      · cases h1 : s.stopTrial A job t with
        | error e => rw [h1] at hs; cases hs
        | ok s1 => rw [h1] at hs; exact ih (hp.stopTrial h h1) hs
      · exact ih h hs

theorem Pres.step (hp : Pres A job P) {s s' : TB} {op : SOp} (h : P s)
    (hs : TB.step A job s op = .ok s') : P s' := by
  cases op with
  | start cfg =>
    simp only [TB.step, Sim.startTrial] at hs
    cases h1 : s.schedule A job s.trials.length with
    | error e => rw [h1] at hs; cases hs
    | ok s1 =>
      rw [h1] at hs; cases hs
      have a1 := hp.schedule h h1
      have a2 : P ({ s1 with trials := s1.trials ++ [{}] } : TB) := hp.frame _ _ a1 rfl rfl rfl rfl rfl rfl
      exact hp.js ({ s1 with trials := s1.trials ++ [{}] } : TB) ({ s1.js with cfgs := aset s.trials.length cfg s1.js.cfgs }) rfl rfl rfl rfl rfl rfl a2
  | resume t nc =>
    simp only [TB.step, Sim.resumeTrial] at hs
    split at hs
    · cases hs
    · split at hs
      · cases hs
      · split at hs
        · cases hs
        · cases h1 : Sim.schedule A job ({ s with js := _ } : TB) t with
          | error e => rw [h1] at hs; cases hs
          | ok s1 =>
            rw [h1] at hs; cases hs
            have a : P s1 := by
              refine hp.schedule ?_ h1
              cases nc with
              | none => exact hp.js _ _ rfl rfl rfl rfl rfl rfl h
              | some c => exact hp.js _ _ rfl rfl rfl rfl rfl rfl h
            exact hp.frame _ _ a rfl rfl rfl rfl rfl rfl
  | pause t lv =>
    simp only [TB.step, Sim.pauseTrial] at hs
    split at hs
    · cases h1 : Sim.stopOrPause A job (s.updT t _) t .paused with
      | error e => rw [h1] at hs; cases hs
      | ok s1 =>
        rw [h1] at hs; cases hs
        have a : P s1 := by
          refine hp.stopOrPause ?_ h1
          exact hp.frame _ _ h rfl rfl rfl rfl rfl rfl
        cases lv with
        | none => exact hp.js _ _ rfl rfl rfl rfl rfl rfl a
        | some c => exact hp.js _ _ rfl rfl rfl rfl rfl rfl a
    · cases hs
  | stop t => exact hp.stopTrial h hs
  | fetch ids =>
    simp only [TB.step] at hs
    cases h1 : s.fetch A job ids with
    | error e => rw [h1] at hs; cases hs
    | ok r =>
      obtain ⟨s1, sts, res⟩ := r
      rw [h1] at hs; cases hs
      obtain ⟨s1', s2, h1', h2, _, rfl⟩ := fetch_inv h1
      have a2 := hp.processUntil (hp.advance h h1') h2
      exact hp.frame _ _ (hp.fetch s2 ids a2) rfl rfl rfl rfl rfl rfl
  | busy =>
    simp only [TB.step, Sim.busyIds] at hs
    cases h1 : Sim.processUntil A job simFuel s with
    | error e => rw [h1] at hs; cases hs
    | ok s1 => rw [h1] at hs; cases hs; exact hp.processUntil h h1
  | sleep => exact hp.advance h hs
  | advance dt => exact hp.advance h hs
  | tick dt => cases hs; exact hp.frame _ _ h rfl rfl rfl rfl rfl rfl
  | tape d => cases hs; exact hp.js _ _ rfl rfl rfl rfl rfl rfl h
  | stopAll => exact hp.stopAllGo _ h hs

theorem Pres.run (hp : Pres A job P) (ops : List SOp) : ∀ {s s' : TB}, P s →
    TB.run A job s ops = .ok s' → P s' := by
  induction ops with
  | nil => intro s s' h hs; cases hs; exact h
  | cons op ops ih =>
    intro s s' h hs
    unfold TB.run at hs
    cases h1 : TB.step A job s op with
    | error e => rw [h1] at hs; cases hs
    | ok s1 => rw [h1] at hs; exact ih (hp.step h h1) hs

end pres

/-! ### provenance -/

theorem ProvInv.pres (A : Arith) (job : JobFn TabState) : Pres A job (ProvInv A job) where
  ev := fun _ _ _ _ h hheap hev => h.processEvent hheap hev
  frame := fun _ _ h hc hh hn hl hr _ => h.of_eq hc hh hn hl hr
  push := fun _ tm t k hk h => h.push tm t k hk
  js := fun _ _ _ _ _ _ _ _ h => h.of_eq rfl rfl rfl rfl rfl
  fetch := fun s ids h => ProvInv.fetchDrop s ids h

theorem ProvInv.init (A : Arith) (job : JobFn TabState) (cfg : SimCfg) (js : TabState) :
    ProvInv A job (TB.init cfg js) := by
  constructor
  · intro e he; simp [TB.init] at he
  · intro p hp; simp [TB.init] at hp
  · intro en hen; simp [TB.init] at hen

/-- the invariant holds in every state reachable from the initial one -/
theorem prov_run (A : Arith) (job : JobFn TabState) (cfg : SimCfg) (js : TabState) (ops : List SOp) (s' : TB)
    (h : TB.run A job (TB.init cfg js) ops = .ok s') : ProvInv A job s' :=
  (ProvInv.pres A job).run ops (ProvInv.init A job cfg js) h

/-- everything `fetch_status_results` returns has a provenance -/
theorem fetch_prov (A : Arith) (job : JobFn TabState) (s s' : TB) (ids : List Nat) (sts : List (Nat × St))
    (res : List (Nat × Arrived)) (hinv : ProvInv A job s) (h : s.fetch A job ids = .ok (s', sts, res)) :
    ProvInv A job s' ∧ ∀ p ∈ res, Prov A job s' p.1 p.2.res p.2.time p.2.tag := by
  obtain ⟨s1, s2, h1, h2, rfl, rfl⟩ := fetch_inv h
  have hp := ProvInv.pres A job
  have a2 : ProvInv A job s2 := hp.processUntil (hp.advance hinv h1) h2
  obtain ⟨c1, c2⟩ := ProvInv.fetchCov ids s2 a2
  have hd := dropRest_fields (fetchCovered s2 ids).1.next (fetchCovered s2 ids).1
  refine ⟨hp.frame _ _ (ProvInv.fetchDrop s2 ids a2) rfl rfl rfl rfl rfl rfl, ?_⟩
  intro p hpm
  exact (c2 p hpm).of_eq hd.2.2.2.2.2.1 hd.2.2.2.1

/-! ### predicates that only look at `cfg`, `js`, `runs` (tabular job) -/

theorem tabJob_stable (A : Arith) (js js' : TabState) (t : Nat) (st : St) (rs : List Res)
    (h : tabJob A js t = .ok (js', st, rs)) :
    (∀ u s0, alookup u js.seedFor = some s0 → alookup u js'.seedFor = some s0) ∧
    js'.table = js.table ∧ js'.seedFix = js.seedFix ∧ js'.checkpointing = js.checkpointing ∧
    js'.maxResAttr = js.maxResAttr ∧ js'.minStep = js.minStep := by
  obtain ⟨_, cfg, sd, all, _, hs, _, _⟩ := SimTab.tabJob_spec A js js' t st rs h
  obtain ⟨h1, _, h3, _, _, h6, h7, h8, h9⟩ := SimTab.seedOf_stable js js' t sd hs
  exact ⟨h1, h3, h6, h7, h8, h9⟩

/-- a predicate that depends on `cfg`, `js`, `runs` only, is kept by a start event and by the
hooks that change the configurations, the paused levels and the seed tape -/
theorem Pres.ofJsRuns (A : Arith) (P : TB → Prop)
    (hframe : ∀ (s s' : TB), P s → s'.cfg = s.cfg → s'.runs = s.runs → s'.js = s.js → P s')
    (hstart : ∀ (s : TB) (t run : Nat) (te : Rat) (js' : TabState) (st : St) (rs : List Res), P s →
      tabJob A s.js t = .ok (js', st, rs) →
      P { s with js := js', runs := s.runs ++ [⟨t, run, te, s.js, js', rs⟩] })
    (hjs : ∀ (s : TB) (js' : TabState), js'.table = s.js.table → js'.seedFix = s.js.seedFix →
      js'.checkpointing = s.js.checkpointing → js'.maxResAttr = s.js.maxResAttr → js'.minStep = s.js.minStep →
      js'.seedFor = s.js.seedFor → P s → P { s with js := js' }) :
    Pres A (tabJob A) P where
  ev := by
    intro s e rest s' h hheap hev
    unfold Sim.processEvent at hev
    split at hev
    · obtain ⟨x, js', status, rs, _, hj, rfl⟩ := processStart_inv hev
      obtain ⟨hc, _, _, hjs', hr⟩ := startResult_fields A ({ s with heap := rest } : TB) e.trial e.time x js' status rs
      exact hframe _ _ (hstart s e.trial x.runs e.time js' status rs h hj) hc hr hjs'
    · obtain ⟨_, rfl⟩ := processComplete_inv hev
      exact hframe _ _ h rfl rfl rfl
    · cases hev
      exact hframe _ _ h rfl rfl rfl
    · obtain ⟨_, rfl⟩ := processResult_inv hev
      exact hframe _ _ h rfl rfl rfl
  frame := fun s s' h hc _ _ _ hr hj => hframe s s' h hc hr hj
  push := fun s tm t k _ h => hframe _ _ h rfl rfl rfl
  js := hjs
  fetch := by
    intro s ids h
    have hc := fetchCovered_fields ids s
    have hd := dropRest_fields (fetchCovered s ids).1.next (fetchCovered s ids).1
    exact hframe _ _ h (by rw [hd.2.2.2.1, hc.2.2.2.1]) (by rw [hd.2.2.2.2.2.1, hc.2.2.2.2.2.1])
      (by rw [hd.2.2.2.2.1, hc.2.2.2.2.1])

/-- simulator configuration and (for the tabular job) the table, the fixed seed and the
constants never change; recorded per-trial seeds are never overwritten -/
theorem const_run (A : Arith) (ops : List SOp) : ∀ (s s' : TB),
    TB.run A (tabJob A) s ops = .ok s' →
    s'.cfg = s.cfg ∧ s'.js.table = s.js.table ∧ s'.js.seedFix = s.js.seedFix ∧
    s'.js.checkpointing = s.js.checkpointing ∧ s'.js.maxResAttr = s.js.maxResAttr ∧ s'.js.minStep = s.js.minStep ∧
    (∀ u sd, alookup u s.js.seedFor = some sd → alookup u s'.js.seedFor = some sd) ∧
    (∀ ρ ∈ s.runs, ρ ∈ s'.runs) := by
  intro s s' h
  refine (Pres.ofJsRuns A (fun s' : TB =>
    s'.cfg = s.cfg ∧ s'.js.table = s.js.table ∧ s'.js.seedFix = s.js.seedFix ∧
    s'.js.checkpointing = s.js.checkpointing ∧ s'.js.maxResAttr = s.js.maxResAttr ∧ s'.js.minStep = s.js.minStep ∧
    (∀ u sd, alookup u s.js.seedFor = some sd → alookup u s'.js.seedFor = some sd) ∧
    (∀ ρ ∈ s.runs, ρ ∈ s'.runs)) ?_ ?_ ?_).run ops ?_ h
  · intro a b hP hc hr hj
    rw [hc, hr, hj]; exact hP
  · intro a t run te js' st rs hP hj
    obtain ⟨p1, p2, p3, p4, p5, p6, p7, p8⟩ := hP
    obtain ⟨q1, q2, q3, q4, q5, q6⟩ := tabJob_stable A a.js js' t st rs hj
    refine ⟨p1, q2.trans p2, q3.trans p3, q4.trans p4, q5.trans p5, q6.trans p6, ?_, ?_⟩
    · intro u sd hu; exact q1 u sd (p7 u sd hu)
    · intro ρ hρ; exact List.mem_append_left _ (p8 ρ hρ)
  · intro a js' q2 q3 q4 q5 q6 q7 hP
    obtain ⟨p1, p2, p3, p4, p5, p6, p7, p8⟩ := hP
    refine ⟨p1, q2.trans p2, q3.trans p3, q4.trans p4, q5.trans p5, q6.trans p6, ?_, p8⟩
    intro u sd hu
    show alookup u js'.seedFor = some sd
    rw [q7]; exact p7 u sd hu
  · exact ⟨rfl, rfl, rfl, rfl, rfl, rfl, fun _ _ h => h, fun _ h => h⟩

/-- for the tabular job: the job states recorded with a run carry the same table / constants
as the current state, and the seeds recorded then are still the current ones -/
structure TabRunsInv (s : TB) : Prop where
  table : ∀ ρ ∈ s.runs, ρ.jsBefore.table = s.js.table ∧ ρ.jsAfter.table = s.js.table ∧
      ρ.jsBefore.seedFix = s.js.seedFix ∧ ρ.jsBefore.minStep = s.js.minStep ∧
      ρ.jsBefore.checkpointing = s.js.checkpointing ∧ ρ.jsBefore.maxResAttr = s.js.maxResAttr
  seeds : ∀ ρ ∈ s.runs, ∀ u sd, alookup u ρ.jsAfter.seedFor = some sd → alookup u s.js.seedFor = some sd

theorem TabRunsInv.pres (A : Arith) : Pres A (tabJob A) TabRunsInv := by
  refine Pres.ofJsRuns A TabRunsInv ?_ ?_ ?_
  · intro a b hP hc hr hj
    constructor
    · rw [hr, hj]; exact hP.table
    · rw [hr, hj]; exact hP.seeds
  · intro a t run te js' st rs hP hj
    obtain ⟨q1, q2, q3, q4, q5, q6⟩ := tabJob_stable A a.js js' t st rs hj
    constructor
    · intro ρ hρ
      rcases List.mem_append.mp hρ with hρ | hρ
      · obtain ⟨t1, t2, t3, t4, t5, t6⟩ := hP.table ρ hρ
        exact ⟨t1.trans q2.symm, t2.trans q2.symm, t3.trans q3.symm, t4.trans q6.symm, t5.trans q4.symm,
          t6.trans q5.symm⟩
      · rw [List.mem_singleton] at hρ
        subst hρ
        exact ⟨q2.symm, rfl, q3.symm, q6.symm, q4.symm, q5.symm⟩
    · intro ρ hρ u sd hu
      rcases List.mem_append.mp hρ with hρ | hρ
      · exact q1 u sd (hP.seeds ρ hρ u sd hu)
      · rw [List.mem_singleton] at hρ
        subst hρ
        exact hu
  · intro a js' q2 q3 q4 q5 q6 q7 hP
    constructor
    · intro ρ hρ
      obtain ⟨t1, t2, t3, t4, t5, t6⟩ := hP.table ρ hρ
      exact ⟨t1.trans q2.symm, t2.trans q2.symm, t3.trans q3.symm, t4.trans q6.symm, t5.trans q4.symm,
        t6.trans q5.symm⟩
    · intro ρ hρ u sd hu
      show alookup u js'.seedFor = some sd
      rw [q7]; exact hP.seeds ρ hρ u sd hu

theorem tabRuns_run (A : Arith) (cfg : SimCfg) (js : TabState) (ops : List SOp) (s' : TB)
    (h : TB.run A (tabJob A) (TB.init cfg js) ops = .ok s') : TabRunsInv s' := by
  refine (TabRunsInv.pres A).run ops ?_ h
  constructor
  · intro ρ hρ; simp [TB.init] at hρ
  · intro ρ hρ; simp [TB.init] at hρ

end SyneTune.SimL
