import SyneTune.Model.Pareto
import Mathlib.Tactic.Linarith
/- Helper lemmas for C19: dominance, the Pareto mask, the non-dominated sort. -/
namespace SyneTune

/-- a numpy array of shape `[N, d]` -/
def Rect (X : List Point) (d : Nat) : Prop := ∀ x ∈ X, x.length = d

/-! ### dominance is a strict partial order on vectors of one length -/

theorem anyLt_irrefl (a : Point) : anyLt a a = false := by
  induction a with
  | nil => rfl
  | cons x xs ih => simp [anyLt, ih]

theorem allLe_trans : ∀ (a b c : Point), a.length = b.length → b.length = c.length →
    allLe a b = true → allLe b c = true → allLe a c = true
  | [], _, _, _, _, _, _ => by cases ‹Point› <;> simp [allLe]
  | x :: xs, [], _, h, _, _, _ => by simp at h
  | x :: xs, y :: ys, [], _, h, _, _ => by simp at h
  | x :: xs, y :: ys, z :: zs, h1, h2, hab, hbc => by
    simp only [allLe, Bool.and_eq_true, decide_eq_true_eq] at hab hbc ⊢
    exact ⟨le_trans hab.1 hbc.1, allLe_trans xs ys zs (by simpa using h1) (by simpa using h2) hab.2 hbc.2⟩

theorem anyLt_of_lt_le : ∀ (a b c : Point), a.length = b.length → b.length = c.length →
    anyLt a b = true → allLe b c = true → allLe a b = true → anyLt a c = true
  | [], _, _, _, _, h, _, _ => by cases ‹Point› <;> simp [anyLt] at h
  | x :: xs, [], _, h, _, _, _, _ => by simp at h
  | x :: xs, y :: ys, [], _, h, _, _, _ => by simp at h
  | x :: xs, y :: ys, z :: zs, h1, h2, hab, hbc, hle => by
    simp only [anyLt, allLe, Bool.or_eq_true, Bool.and_eq_true, decide_eq_true_eq] at hab hbc hle ⊢
    rcases hab with hab | hab
    · exact Or.inl (lt_of_lt_of_le hab hbc.1)
    · exact Or.inr (anyLt_of_lt_le xs ys zs (by simpa using h1) (by simpa using h2) hab hbc.2 hle.2)

theorem anyLt_of_le_lt : ∀ (a b c : Point), a.length = b.length → b.length = c.length →
    allLe a b = true → anyLt b c = true → allLe b c = true → anyLt a c = true
  | [], [], _, _, _, _, h, _ => by cases ‹Point› <;> simp [anyLt] at h
  | [], _ :: _, _, h, _, _, _, _ => by simp at h
  | x :: xs, [], _, h, _, _, _, _ => by simp at h
  | x :: xs, y :: ys, [], _, h, _, _, _ => by simp at h
  | x :: xs, y :: ys, z :: zs, h1, h2, hab, hbc, hle => by
    simp only [anyLt, allLe, Bool.or_eq_true, Bool.and_eq_true, decide_eq_true_eq] at hab hbc hle ⊢
    rcases hbc with hbc | hbc
    · exact Or.inl (lt_of_le_of_lt hab.1 hbc)
    · exact Or.inr (anyLt_of_le_lt xs ys zs (by simpa using h1) (by simpa using h2) hab.2 hbc hle.2)

theorem dominates_irrefl' (a : Point) : dominates a a = false := by
  simp [dominates, anyLt_irrefl]

theorem dominates_trans' (a b c : Point) (h1 : a.length = b.length) (h2 : b.length = c.length)
    (hab : dominates a b = true) (hbc : dominates b c = true) : dominates a c = true := by
  simp only [dominates, Bool.and_eq_true] at *
  exact ⟨allLe_trans a b c h1 h2 hab.1 hbc.1, anyLt_of_lt_le a b c h1 h2 hab.2 hbc.1 hab.1⟩

theorem sum_le_of_allLe : ∀ (a b : Point), a.length = b.length → allLe a b = true → a.sum ≤ b.sum
  | [], [], _, _ => by simp
  | [], _ :: _, h, _ => by simp at h
  | _ :: _, [], h, _ => by simp at h
  | x :: xs, y :: ys, h, hab => by
    simp only [allLe, Bool.and_eq_true, decide_eq_true_eq] at hab
    have := sum_le_of_allLe xs ys (by simpa using h) hab.2
    simp only [List.sum_cons]; linarith [hab.1]

theorem sum_lt_of_dominates : ∀ (a b : Point), a.length = b.length → dominates a b = true →
    a.sum < b.sum
  | [], [], _, h => by simp [dominates, anyLt] at h
  | [], _ :: _, h, _ => by simp at h
  | _ :: _, [], h, _ => by simp at h
  | x :: xs, y :: ys, h, hab => by
    simp only [dominates, allLe, anyLt, Bool.and_eq_true, Bool.or_eq_true, decide_eq_true_eq] at hab
    have hl : xs.length = ys.length := by simpa using h
    simp only [List.sum_cons]
    rcases hab.2 with hlt | hlt
    · have := sum_le_of_allLe xs ys hl hab.1.2; linarith
    · have := sum_lt_of_dominates xs ys hl (by simp [dominates, hab.1.2, hlt]); linarith [hab.1.1]

/-! ### the mask loop -/

/-- invariant of the `for i` loop of `pareto_efficient` after `k` iterations -/
structure MaskInv (X : List Point) (k : Nat) (m : List Bool) : Prop where
  len : m.length = X.length
  sound : ∀ (j : Nat) (xj : Point), X[j]? = some xj → m[j]? = some false →
    ∃ (l : Nat) (a : Point), l < k ∧ X[l]? = some a ∧ dominates a xj = true
  complete : ∀ (l : Nat) (a : Point) (j : Nat) (xj : Point), l < k → X[l]? = some a →
    X[j]? = some xj → dominates a xj = true → m[j]? = some false

theorem maskInv_zero (X : List Point) : MaskInv X 0 (List.replicate X.length true) := by
  refine ⟨by simp, ?_, ?_⟩
  · intro j xj _ h
    rw [List.getElem?_replicate] at h
    split at h <;> simp at h
  · intro l a j xj h; omega

theorem paretoStep_getElem? (X : List Point) (m : List Bool) (k j : Nat) (a : Point)
    (hm : m[k]? = some true) (ha : X[k]? = some a) :
    (paretoStep X m k)[j]? =
      match X[j]?, m[j]? with
      | some x, some b => some (b && !dominates a x)
      | _, _ => none := by
  unfold paretoStep
  simp only [hm, ha]
  rw [List.getElem?_zipWith]
  cases X[j]? <;> cases m[j]? <;> rfl

theorem maskInv_step (X : List Point) (d : Nat) (hX : Rect X d) (k : Nat) (hk : k < X.length)
    (m : List Bool) (h : MaskInv X k m) : MaskInv X (k + 1) (paretoStep X m k) := by
  obtain ⟨a, ha⟩ : ∃ a, X[k]? = some a := ⟨X[k], List.getElem?_eq_getElem hk⟩
  have hkm : k < m.length := by rw [h.len]; exact hk
  obtain ⟨b, hb⟩ : ∃ b, m[k]? = some b := ⟨m[k], List.getElem?_eq_getElem hkm⟩
  have hlen : ∀ x ∈ X, x.length = d := hX
  have memX : ∀ j xj, X[j]? = some xj → xj ∈ X := fun j xj hj => List.mem_of_getElem? hj
  cases b with
  | true =>
    have hget := fun j => paretoStep_getElem? X m k j a hb ha
    refine ⟨?_, ?_, ?_⟩
    · unfold paretoStep; simp only [hb, ha, List.length_zipWith, h.len, Nat.min_self]
    · intro j xj hj hf
      rw [hget j, hj] at hf
      cases hmj : m[j]? with
      | none => simp [hmj] at hf
      | some bj =>
        simp only [hmj, Option.some.injEq, Bool.and_eq_false_imp] at hf
        cases bj with
        | false =>
          obtain ⟨l, a', hl, hla, hd⟩ := h.sound j xj hj hmj
          exact ⟨l, a', by omega, hla, hd⟩
        | true =>
          have := hf rfl
          simp only [Bool.not_eq_false'] at this
          exact ⟨k, a, by omega, ha, this⟩
    · intro l a' j xj hl hla hj hd
      have hjm : j < m.length := by
        rw [h.len]; exact (List.getElem?_eq_some_iff.mp hj).1
      obtain ⟨bj, hbj⟩ : ∃ b, m[j]? = some b := ⟨m[j], List.getElem?_eq_getElem hjm⟩
      rw [hget j, hj, hbj]
      by_cases hlk : l < k
      · have := h.complete l a' j xj hlk hla hj hd
        rw [hbj] at this; injection this with this; subst this; simp
      · have : l = k := by omega
        subst this
        rw [ha] at hla; injection hla with hla; subst hla
        simp [hd]
  | false =>
    have hst : paretoStep X m k = m := by unfold paretoStep; simp [hb]
    rw [hst]
    refine ⟨h.len, ?_, ?_⟩
    · intro j xj hj hf
      obtain ⟨l, a', hl, hla, hd⟩ := h.sound j xj hj hf
      exact ⟨l, a', by omega, hla, hd⟩
    · intro l a' j xj hl hla hj hd
      by_cases hlk : l < k
      · exact h.complete l a' j xj hlk hla hj hd
      · have : l = k := by omega
        subst this
        rw [ha] at hla; injection hla with hla; subst hla
        obtain ⟨l', a'', hl', hla', hd'⟩ := h.sound l a ha hb
        have htr := dominates_trans' a'' a xj
          (by rw [hlen _ (memX _ _ hla'), hlen _ (memX _ _ ha)])
          (by rw [hlen _ (memX _ _ ha), hlen _ (memX _ _ hj)]) hd' hd
        exact h.complete l' a'' j xj hl' hla' hj htr

theorem maskInv_fold (X : List Point) (d : Nat) (hX : Rect X d) (k : Nat) (hk : k ≤ X.length) :
    MaskInv X k ((List.range k).foldl (paretoStep X) (List.replicate X.length true)) := by
  induction k with
  | zero => simpa using maskInv_zero X
  | succ k ih =>
    rw [List.range_succ, List.foldl_append]
    simp only [List.foldl_cons, List.foldl_nil]
    exact maskInv_step X d hX k (by omega) _ (ih (by omega))

/-- O(n²) definition of the Pareto mask -/
def bruteMask (X : List Point) : List Bool := X.map (fun x => !X.any (fun a => dominates a x))

theorem paretoEfficient_eq_brute (X : List Point) (d : Nat) (hX : Rect X d) :
    paretoEfficient X = bruteMask X := by
  have h := maskInv_fold X d hX X.length (le_refl _)
  change MaskInv X X.length (paretoEfficient X) at h
  apply List.ext_getElem?
  intro j
  unfold bruteMask
  rw [List.getElem?_map]
  by_cases hj : j < X.length
  · have hxj : X[j]? = some X[j] := List.getElem?_eq_getElem hj
    have hjm : j < (paretoEfficient X).length := by rw [h.len]; exact hj
    rw [hxj, List.getElem?_eq_getElem hjm]
    simp only [Option.map_some, Option.some.injEq]
    cases hb : (paretoEfficient X)[j] with
    | false =>
      have hb' : (paretoEfficient X)[j]? = some false := by rw [List.getElem?_eq_getElem hjm, hb]
      obtain ⟨l, a, _, hla, hd⟩ := h.sound j X[j] hxj hb'
      symm
      simp only [Bool.not_eq_false', List.any_eq_true]
      exact ⟨a, List.mem_of_getElem? hla, hd⟩
    | true =>
      symm
      simp only [Bool.not_eq_true', List.any_eq_false]
      intro a ha hd
      obtain ⟨l, hl, hla⟩ := List.getElem_of_mem ha
      have := h.complete l a j X[j] hl (by rw [List.getElem?_eq_getElem hl, hla]) hxj (by simpa using hd)
      rw [List.getElem?_eq_getElem hjm, hb] at this
      cases this
  · have h1 : X[j]? = none := List.getElem?_eq_none (by omega)
    have h2 : (paretoEfficient X)[j]? = none := List.getElem?_eq_none (by rw [h.len]; omega)
    rw [h1, h2]; rfl

/-! ### fronts: the mask algorithm on `remaining` equals the O(n²) definition -/

def RectI (R : List IPoint) (d : Nat) : Prop := ∀ q ∈ R, q.2.length = d

/-- `q` is not dominated by any point of `R` -/
def isMinimal (R : List IPoint) (q : IPoint) : Bool := !R.any (fun p => dominates p.2 q.2)

/-- the Pareto front of `R` by the O(n²) definition (order of `R` kept) -/
def specFront (R : List IPoint) : List IPoint := R.filter (isMinimal R)

/-- the points of `R` dominated by some point of `R` -/
def specRest (R : List IPoint) : List IPoint := R.filter (fun q => !isMinimal R q)

theorem maskFilter_map {α} (l : List α) (f : α → Bool) : maskFilter l (l.map f) = l.filter f := by
  induction l with
  | nil => rfl
  | cons x xs ih =>
    simp only [List.map_cons, maskFilter, List.filter_cons, ih]

theorem rect_of_rectI (R : List IPoint) (d : Nat) (h : RectI R d) : Rect (R.map (·.2)) d := by
  intro x hx
  obtain ⟨q, hq, rfl⟩ := List.mem_map.mp hx
  exact h q hq

theorem mask_eq_isMinimal (R : List IPoint) (d : Nat) (h : RectI R d) :
    paretoEfficient (R.map (·.2)) = R.map (isMinimal R) := by
  rw [paretoEfficient_eq_brute _ d (rect_of_rectI R d h)]
  unfold bruteMask
  rw [List.map_map]
  apply List.map_congr_left
  intro q _
  simp [isMinimal, List.any_map, Function.comp_def]

theorem frontOf_eq (R : List IPoint) (d : Nat) (h : RectI R d) : frontOf R = specFront R := by
  unfold frontOf specFront
  rw [mask_eq_isMinimal R d h, maskFilter_map]

theorem restOf_eq (R : List IPoint) (d : Nat) (h : RectI R d) : restOf R = specRest R := by
  unfold restOf specRest
  rw [mask_eq_isMinimal R d h, List.map_map, maskFilter_map]
  rfl

theorem rectI_specRest (R : List IPoint) (d : Nat) (h : RectI R d) : RectI (specRest R) d :=
  fun q hq => h q (List.mem_filter.mp hq).1

theorem front_rest_perm (R : List IPoint) : (specFront R ++ specRest R).Perm R :=
  List.filter_append_perm _ R

theorem front_rest_length (R : List IPoint) : (specFront R).length + (specRest R).length = R.length := by
  have := (front_rest_perm R).length_eq
  simpa using this

theorem exists_min_sum : ∀ (R : List IPoint), R ≠ [] → ∃ q ∈ R, ∀ p ∈ R, q.2.sum ≤ p.2.sum
  | [], h => absurd rfl h
  | [q], _ => ⟨q, by simp, by simp⟩
  | q :: q' :: rest, _ => by
    obtain ⟨m, hm, hmin⟩ := exists_min_sum (q' :: rest) (by simp)
    by_cases hq : q.2.sum ≤ m.2.sum
    · refine ⟨q, by simp, ?_⟩
      intro p hp
      rcases List.mem_cons.mp hp with rfl | hp
      · exact le_refl _
      · exact le_trans hq (hmin p hp)
    · refine ⟨m, List.mem_cons_of_mem _ hm, ?_⟩
      intro p hp
      rcases List.mem_cons.mp hp with rfl | hp
      · exact le_of_lt (not_le.mp hq)
      · exact hmin p hp

/-- a non-empty set of vectors has a non-dominated element -/
theorem specFront_ne_nil (R : List IPoint) (d : Nat) (hR : RectI R d) (h : R ≠ []) :
    specFront R ≠ [] := by
  obtain ⟨q, hq, hmin⟩ := exists_min_sum R h
  have : q ∈ specFront R := by
    unfold specFront
    rw [List.mem_filter]
    refine ⟨hq, ?_⟩
    simp only [isMinimal, Bool.not_eq_true', List.any_eq_false]
    intro p hp hd
    have := sum_lt_of_dominates p.2 q.2 (by rw [hR p hp, hR q hq]) (by simpa using hd)
    exact absurd (hmin p hp) (not_le.mpr this)
  intro hnil
  rw [hnil] at this
  simp at this

theorem specRest_length_lt (R : List IPoint) (d : Nat) (hR : RectI R d) (h : R ≠ []) :
    (specRest R).length < R.length := by
  have h1 := front_rest_length R
  have h2 : 0 < (specFront R).length := List.length_pos_iff.mpr (specFront_ne_nil R d hR h)
  omega

/-! ### the ε-net oracle and `front[order]` -/

/-- contract of `compute_epsilon_net`: the returned vector is a permutation of `range(len(P))` -/
def EpsOK (eps : Nat → List Point → List Nat) : Prop := ∀ k P, (eps k P).Perm (List.range P.length)

theorem takeIdx_of_lt (front : List Nat) : ∀ (order : List Nat), (∀ r ∈ order, r < front.length) →
    takeIdx front order = some (order.map (fun r => front.getD r 0))
  | [], _ => rfl
  | r :: rs, h => by
    have hr : r < front.length := h r (by simp)
    have ih := takeIdx_of_lt front rs (fun x hx => h x (List.mem_cons_of_mem _ hx))
    simp only [takeIdx, ih, List.getElem?_eq_getElem hr, List.map_cons, List.getD_eq_getElem?_getD,
      Option.getD_some]

theorem map_getD_range (front : List Nat) :
    (List.range front.length).map (fun r => front.getD r 0) = front := by
  apply List.ext_getElem
  · simp
  · intro i h1 h2
    simp [List.getD_eq_getElem?_getD, List.getElem?_eq_getElem h2]

theorem takeIdx_perm (front order : List Nat) (h : order.Perm (List.range front.length)) :
    ∃ l, takeIdx front order = some l ∧ l.Perm front ∧ l.length = front.length := by
  have hlt : ∀ r ∈ order, r < front.length := by
    intro r hr
    have := (h.mem_iff).mp hr
    simpa using this
  refine ⟨_, takeIdx_of_lt front order hlt, ?_, ?_⟩
  · have := h.map (fun r => front.getD r 0)
    rwa [map_getD_range] at this
  · have := h.length_eq
    simpa using this

/-! ### the layers by the O(n²) definition -/

/-- Pareto layers of `R` (as lists of indices): repeatedly split off the non-dominated points -/
def specLayers : Nat → List IPoint → List (List Nat)
  | 0, _ => []
  | fuel + 1, R => if R.isEmpty then [] else (specFront R).map (·.1) :: specLayers fuel (specRest R)

theorem loopCond_none (R : List IPoint) (n : Nat) : loopCond none R n = !R.isEmpty := by
  simp [loopCond]

theorem sortLoop_none (eps : Nat → List Point → List Nat) (hε : EpsOK eps) (d : Nat) :
    ∀ (fuel k : Nat) (R : List IPoint) (n : Nat), RectI R d → R.length ≤ fuel →
      ∃ L, sortLoop eps none fuel k R n = .ok L ∧ List.Forall₂ List.Perm L (specLayers fuel R) := by
  intro fuel
  induction fuel with
  | zero =>
    intro k R n _ hlen
    have : R = [] := List.eq_nil_of_length_eq_zero (by omega)
    subst this
    exact ⟨[], by simp [sortLoop, loopCond], by simp [specLayers]⟩
  | succ fuel ih =>
    intro k R n hR hlen
    by_cases hnil : R = []
    · subst hnil
      exact ⟨[], by simp [sortLoop, loopCond], by simp [specLayers]⟩
    · have hemp : R.isEmpty = false := by cases R <;> simp_all
      have hf := frontOf_eq R d hR
      have hr := restOf_eq R d hR
      obtain ⟨layer, htake, hperm, _⟩ := takeIdx_perm ((specFront R).map (·.1))
        (eps k ((specFront R).map (·.2))) (by simpa using hε k ((specFront R).map (·.2)))
      have hlt := specRest_length_lt R d hR hnil
      obtain ⟨ls, hls, hfor⟩ := ih (k + 1) (specRest R) (n + (specFront R).length)
        (rectI_specRest R d hR) (by omega)
      refine ⟨layer :: ls, ?_, ?_⟩
      · simp only [sortLoop, loopCond_none, hemp, Bool.not_false, if_true, hf, hr, htake, hls]
      · simp only [specLayers, hemp, Bool.false_eq_true, if_false]
        exact List.Forall₂.cons hperm hfor

/-- the first layers of `L` until `b` items are reached (`b` = items still wanted) -/
def takeLayers : Nat → List (List Nat) → List (List Nat)
  | _, [] => []
  | b, l :: ls => if b = 0 then [] else l :: takeLayers (b - l.length) ls

theorem sortLoop_some (eps : Nat → List Point → List Nat) (hε : EpsOK eps) (d m : Nat) :
    ∀ (fuel k : Nat) (R : List IPoint) (n n' : Nat) (L : List (List Nat)), RectI R d →
      sortLoop eps none fuel k R n' = .ok L →
      sortLoop eps (some m) fuel k R n = .ok (takeLayers (m - n) L) := by
  intro fuel
  induction fuel with
  | zero =>
    intro k R n n' L _ h
    simp only [sortLoop, loopCond_none] at h
    cases R with
    | nil => simp at h; subst h; simp [sortLoop, loopCond, takeLayers]
    | cons q qs => simp at h
  | succ fuel ih =>
    intro k R n n' L hR h
    cases R with
    | nil =>
      simp [sortLoop, loopCond] at h
      subst h; simp [sortLoop, loopCond, takeLayers]
    | cons q qs =>
      have hf := frontOf_eq (q :: qs) d hR
      have hr := restOf_eq (q :: qs) d hR
      simp only [sortLoop, loopCond_none, List.isEmpty_cons, Bool.not_false, if_true, hf, hr] at h
      obtain ⟨layer, htake, _, hlen⟩ := takeIdx_perm ((specFront (q :: qs)).map (·.1))
        (eps k ((specFront (q :: qs)).map (·.2))) (by simpa using hε k ((specFront (q :: qs)).map (·.2)))
      rw [htake] at h
      simp only at h
      cases hrec : sortLoop eps none fuel (k + 1) (specRest (q :: qs)) (n' + (specFront (q :: qs)).length) with
      | error e => rw [hrec] at h; simp at h
      | ok ls =>
        rw [hrec] at h
        simp only [Except.ok.injEq] at h
        subst h
        have ih' := ih (k + 1) (specRest (q :: qs)) (n + (specFront (q :: qs)).length) _ ls
          (rectI_specRest _ d hR) hrec
        by_cases hnm : n < m
        · simp only [sortLoop, loopCond, List.isEmpty_cons, Bool.not_false, hnm, decide_true,
            Bool.and_self, if_true, hf, hr, htake, ih']
          have hb : ¬ (m - n = 0) := by omega
          simp only [takeLayers, hb, if_false]
          have : m - (n + (specFront (q :: qs)).length) = m - n - layer.length := by
            simp only [List.length_map] at hlen; omega
          rw [this]
        · have hb : m - n = 0 := by omega
          simp [sortLoop, loopCond, hnm, takeLayers, hb]

/-! ### `enumFrom`, flattening -/

theorem enumFrom_map_fst : ∀ (s : Nat) (X : List Point), (enumFrom s X).map (·.1) = List.range' s X.length
  | _, [] => rfl
  | s, x :: xs => by simp [enumFrom, enumFrom_map_fst (s + 1) xs, List.range'_succ]

theorem enumFrom_map_snd : ∀ (s : Nat) (X : List Point), (enumFrom s X).map (·.2) = X
  | _, [] => rfl
  | s, x :: xs => by simp [enumFrom, enumFrom_map_snd (s + 1) xs]

theorem enumFrom_length (s : Nat) (X : List Point) : (enumFrom s X).length = X.length := by
  have := congrArg List.length (enumFrom_map_snd s X)
  simpa using this

theorem rectI_enumFrom (s : Nat) (X : List Point) (d : Nat) (h : Rect X d) : RectI (enumFrom s X) d := by
  intro q hq
  apply h
  rw [← enumFrom_map_snd s X]
  exact List.mem_map_of_mem hq

theorem mem_enumFrom : ∀ (s : Nat) (X : List Point) (i : Nat) (x : Point), X[i]? = some x →
    (s + i, x) ∈ enumFrom s X
  | _, [], i, x, h => by simp at h
  | s, y :: ys, 0, x, h => by simp at h; subst h; simp [enumFrom]
  | s, y :: ys, i + 1, x, h => by
    simp only [List.getElem?_cons_succ] at h
    have := mem_enumFrom (s + 1) ys i x h
    simp only [enumFrom, List.mem_cons]
    right
    have e : s + 1 + i = s + (i + 1) := by omega
    rwa [e] at this

theorem forall₂_perm_flatten {L S : List (List Nat)} (h : List.Forall₂ List.Perm L S) :
    L.flatten.Perm S.flatten := by
  induction h with
  | nil => exact List.Perm.refl _
  | cons hp _ ih => simp only [List.flatten_cons]; exact hp.append ih

theorem forall₂_getElem? {L S : List (List Nat)} (h : List.Forall₂ List.Perm L S) :
    ∀ (a : Nat) (la : List Nat), S[a]? = some la → ∃ la', L[a]? = some la' ∧ la'.Perm la := by
  induction h with
  | nil => intro a la h; simp at h
  | cons hp _ ih =>
    intro a la h
    cases a with
    | zero => simp at h; subst h; exact ⟨_, by simp, hp⟩
    | succ a => simp only [List.getElem?_cons_succ] at h ⊢; exact ih a la h

theorem forall₂_getElem?' {L S : List (List Nat)} (h : List.Forall₂ List.Perm L S) :
    ∀ (a : Nat) (la : List Nat), L[a]? = some la → ∃ la', S[a]? = some la' ∧ la.Perm la' := by
  induction h with
  | nil => intro a la h; simp at h
  | cons hp _ ih =>
    intro a la h
    cases a with
    | zero => simp at h; subst h; exact ⟨_, by simp, hp⟩
    | succ a => simp only [List.getElem?_cons_succ] at h ⊢; exact ih a la h

theorem specLayers_flatten_perm : ∀ (fuel : Nat) (R : List IPoint), R.length ≤ fuel →
    (∃ d, RectI R d) → (specLayers fuel R).flatten.Perm (R.map (·.1))
  | 0, R, h, _ => by
    have : R = [] := List.eq_nil_of_length_eq_zero (by omega)
    subst this; simp [specLayers]
  | fuel + 1, R, h, ⟨d, hR⟩ => by
    by_cases hnil : R = []
    · subst hnil; simp [specLayers]
    · have hemp : R.isEmpty = false := by cases R <;> simp_all
      simp only [specLayers, hemp, Bool.false_eq_true, if_false, List.flatten_cons]
      have hlt := specRest_length_lt R d hR hnil
      have ih := specLayers_flatten_perm fuel (specRest R) (by omega) ⟨d, rectI_specRest R d hR⟩
      have h1 : ((specFront R).map (·.1) ++ (specLayers fuel (specRest R)).flatten).Perm
          ((specFront R).map (·.1) ++ (specRest R).map (·.1)) := List.Perm.append_left _ ih
      refine h1.trans ?_
      rw [← List.map_append]
      exact (front_rest_perm R).map _

/-! ### truncation to `max_items` -/

theorem takeLayers_eq_nil (b : Nat) (L : List (List Nat)) : takeLayers b L = [] ↔ L = [] ∨ b = 0 := by
  cases L with
  | nil => simp [takeLayers]
  | cons l ls => by_cases hb : b = 0 <;> simp [takeLayers, hb]

theorem sumLengths_cons (l : List Nat) (D : List (List Nat)) : sumLengths (l :: D) = l.length + sumLengths D := by
  simp [sumLengths]

theorem takeLayers_trunc : ∀ (L : List (List Nat)) (b : Nat), 0 < b → L ≠ [] →
    ∀ last, (takeLayers b L).getLast? = some last →
      (takeLayers b L).dropLast.flatten ++ last.take (b - sumLengths (takeLayers b L).dropLast)
        = L.flatten.take b
  | [], _, _, h => absurd rfl h
  | l :: ls, b, hb, _ => by
    intro last hlast
    have hb0 : ¬ b = 0 := by omega
    simp only [takeLayers, hb0, if_false] at hlast ⊢
    by_cases hT : takeLayers (b - l.length) ls = []
    · rw [hT] at hlast ⊢
      simp only [List.getLast?_singleton, Option.some.injEq] at hlast
      subst hlast
      simp only [List.dropLast_singleton, List.flatten_nil, List.nil_append, sumLengths, List.map_nil,
        List.sum_nil, Nat.sub_zero, List.flatten_cons]
      rw [List.take_append]
      rcases (takeLayers_eq_nil _ _).mp hT with h | h
      · subst h; simp
      · rw [h]; simp
    · have hb' : 0 < b - l.length := by
        rcases Nat.eq_zero_or_pos (b - l.length) with h | h
        · exact absurd ((takeLayers_eq_nil _ _).mpr (Or.inr h)) hT
        · exact h
      have hls : ls ≠ [] := fun h => hT ((takeLayers_eq_nil _ _).mpr (Or.inl h))
      rw [List.getLast?_cons_of_ne_nil hT] at hlast
      have ih := takeLayers_trunc ls (b - l.length) hb' hls last hlast
      rw [List.dropLast_cons_of_ne_nil hT, List.flatten_cons, sumLengths_cons, List.flatten_cons,
        List.take_append, List.append_assoc]
      have e1 : b - (l.length + sumLengths (takeLayers (b - l.length) ls).dropLast)
          = b - l.length - sumLengths (takeLayers (b - l.length) ls).dropLast := by omega
      have hlb : l.length ≤ b := by omega
      rw [e1, ih, List.take_of_length_le hlb]

theorem truncate_takeLayers (m : Nat) (L : List (List Nat)) (hm : 0 < m) (hL : L ≠ []) :
    ∃ T, truncateLayers (some m) (takeLayers m L) = .ok T ∧ T.flatten = L.flatten.take m := by
  have hne : takeLayers m L ≠ [] := by
    intro h; rcases (takeLayers_eq_nil _ _).mp h with h | h
    · exact hL h
    · omega
  obtain ⟨last, hlast⟩ : ∃ last, (takeLayers m L).getLast? = some last :=
    ⟨_, List.getLast?_eq_some_getLast hne⟩
  have key := takeLayers_trunc L m hm hL last hlast
  unfold truncateLayers
  simp only [hlast]
  split
  · rename_i hnil
    refine ⟨_, rfl, ?_⟩
    rw [← key, hnil]; simp
  · refine ⟨_, rfl, ?_⟩
    rw [← key]; simp

/-! ### positions in a flattened list of layers -/

theorem idxOf_flatten_lt : ∀ (L : List (List Nat)), L.flatten.Nodup → ∀ (a b : Nat) (la lb : List Nat),
    L[a]? = some la → L[b]? = some lb → a < b → ∀ i j, i ∈ la → j ∈ lb →
    L.flatten.idxOf i < L.flatten.idxOf j
  | [], _, a, b, la, lb, h, _, _, _, _, _, _ => by simp at h
  | l :: ls, hnd, a, b, la, lb, ha, hb, hab, i, j, hi, hj => by
    simp only [List.flatten_cons] at hnd ⊢
    obtain ⟨_, hnd2, hdis⟩ := List.nodup_append.mp hnd
    cases b with
    | zero => omega
    | succ b =>
      simp only [List.getElem?_cons_succ] at hb
      have hjf : j ∈ ls.flatten := List.mem_flatten.mpr ⟨lb, List.mem_of_getElem? hb, hj⟩
      have hjl : j ∉ l := fun h => hdis j h j hjf rfl
      rw [List.idxOf_append (a := j), if_neg hjl]
      cases a with
      | zero =>
        simp at ha; subst ha
        rw [List.idxOf_append, if_pos hi]
        have := List.idxOf_lt_length_of_mem hi
        omega
      | succ a =>
        simp only [List.getElem?_cons_succ] at ha
        have hif : i ∈ ls.flatten := List.mem_flatten.mpr ⟨la, List.mem_of_getElem? ha, hi⟩
        have hil : i ∉ l := fun h => hdis i h i hif rfl
        rw [List.idxOf_append, if_neg hil]
        have := idxOf_flatten_lt ls hnd2 a b la lb ha hb (by omega) i j hi hj
        omega

/-! ### a dominating point lies in a strictly earlier layer -/

theorem mem_specLayers (fuel : Nat) (R : List IPoint) (d : Nat) (hR : RectI R d) (hlen : R.length ≤ fuel)
    (q : IPoint) (hq : q ∈ R) : ∃ (b : Nat) (lb : List Nat), (specLayers fuel R)[b]? = some lb ∧ q.1 ∈ lb := by
  have hp := specLayers_flatten_perm fuel R hlen ⟨d, hR⟩
  have : q.1 ∈ (specLayers fuel R).flatten := hp.mem_iff.mpr (List.mem_map_of_mem hq)
  obtain ⟨lb, hlb, hq'⟩ := List.mem_flatten.mp this
  obtain ⟨b, hb, hbe⟩ := List.getElem_of_mem hlb
  exact ⟨b, lb, by rw [List.getElem?_eq_getElem hb, hbe], hq'⟩

theorem specLayers_dominated (d : Nat) : ∀ (fuel : Nat) (R : List IPoint), RectI R d → R.length ≤ fuel →
    ∀ p q, p ∈ R → q ∈ R → dominates p.2 q.2 = true →
    ∃ (a b : Nat) (la lb : List Nat), a < b ∧ (specLayers fuel R)[a]? = some la ∧ (specLayers fuel R)[b]? = some lb ∧
      p.1 ∈ la ∧ q.1 ∈ lb
  | 0, R, _, hlen, p, _, hp, _, _ => by
    have : R = [] := List.eq_nil_of_length_eq_zero (by omega)
    subst this; simp at hp
  | fuel + 1, R, hR, hlen, p, q, hp, hq, hd => by
    have hnil : R ≠ [] := List.ne_nil_of_mem hp
    have hemp : R.isEmpty = false := by cases R <;> simp_all
    have hlt := specRest_length_lt R d hR hnil
    have hqr : q ∈ specRest R := by
      unfold specRest
      rw [List.mem_filter]
      refine ⟨hq, ?_⟩
      simp only [isMinimal, Bool.not_not, List.any_eq_true]
      exact ⟨p, hp, hd⟩
    simp only [specLayers, hemp, Bool.false_eq_true, if_false]
    by_cases hpf : isMinimal R p = true
    · obtain ⟨b, lb, hb, hqb⟩ := mem_specLayers fuel (specRest R) d (rectI_specRest R d hR) (by omega) q hqr
      refine ⟨0, b + 1, (specFront R).map (·.1), lb, by omega, by simp, by simpa using hb, ?_, hqb⟩
      exact List.mem_map_of_mem (List.mem_filter.mpr ⟨hp, hpf⟩)
    · have hpr : p ∈ specRest R := by
        unfold specRest
        rw [List.mem_filter]
        exact ⟨hp, by simpa using hpf⟩
      obtain ⟨a, b, la, lb, hab, ha, hb, hpa, hqb⟩ :=
        specLayers_dominated d fuel (specRest R) (rectI_specRest R d hR) (by omega) p q hpr hqr hd
      exact ⟨a + 1, b + 1, la, lb, by omega, by simpa using ha, by simpa using hb, hpa, hqb⟩

/-! ### `priorities[order] = arange(len(order))` -/

theorem scatter_getElem? : ∀ (order : List Nat) (prio : List Nat) (pos i : Nat), order.Nodup →
    (scatter prio order pos)[i]? =
      if i ∈ order then (prio[i]?).map (fun _ => pos + order.idxOf i) else prio[i]?
  | [], prio, pos, i, _ => by simp [scatter]
  | i0 :: rest, prio, pos, i, hnd => by
    obtain ⟨hi0, hnd'⟩ := List.nodup_cons.mp hnd
    rw [scatter, scatter_getElem? rest (prio.set i0 pos) (pos + 1) i hnd']
    by_cases hir : i ∈ rest
    · have hne : i0 ≠ i := fun h => hi0 (h ▸ hir)
      have hmem : i ∈ i0 :: rest := List.mem_cons_of_mem _ hir
      rw [if_pos hir, if_pos hmem, List.getElem?_set_ne hne, List.idxOf_cons]
      have : (i0 == i) = false := by simpa using hne
      simp only [this, cond_false]
      congr 1; funext _; omega
    · rw [if_neg hir]
      by_cases h0 : i0 = i
      · subst h0
        rw [if_pos (List.mem_cons_self), List.idxOf_cons_self, List.getElem?_set]
        simp only [if_true]
        by_cases hl : i0 < prio.length
        · simp [hl]
        · simp [hl]
      · have hmem : i ∉ i0 :: rest := by
          intro h; rcases List.mem_cons.mp h with h | h
          · exact h0 h.symm
          · exact hir h
        rw [if_neg hmem, List.getElem?_set_ne h0]

theorem scatter_length : ∀ (order : List Nat) (prio : List Nat) (pos : Nat),
    (scatter prio order pos).length = prio.length
  | [], _, _ => rfl
  | i0 :: rest, prio, pos => by rw [scatter, scatter_length rest]; simp

/-- with `prio` initialised to `len(order)` the scatter yields the position of every index in
`order` (`List.idxOf` is `order.length` for an absent index) -/
theorem scatter_eq_idxOf (order : List Nat) (N : Nat) (hnd : order.Nodup) :
    scatter (List.replicate N order.length) order 0 = (List.range N).map (fun i => order.idxOf i) := by
  apply List.ext_getElem?
  intro i
  rw [scatter_getElem? order _ 0 i hnd]
  by_cases hi : i < N
  · simp only [List.getElem?_replicate, hi, if_true, Option.map_some, Nat.zero_add, List.getElem?_map,
      List.getElem?_range hi]
    split
    · rfl
    · rename_i h; rw [List.idxOf_eq_length h]
  · have h1 : (List.replicate N order.length)[i]? = none := List.getElem?_eq_none (by simp; omega)
    have h2 : ((List.range N).map (fun i => order.idxOf i))[i]? = none := List.getElem?_eq_none (by simp; omega)
    rw [h1, h2]; simp

/-! ### positions as counts -/

/-- in a duplicate-free list exactly `min v (length)` elements sit at a position `< v` -/
theorem countP_idxOf_lt : ∀ (l : List Nat), l.Nodup → ∀ (v : Nat),
    l.countP (fun i => decide (l.idxOf i < v)) = min v l.length
  | [], _, v => by simp
  | x :: xs, hnd, v => by
    obtain ⟨hx, hnd'⟩ := List.nodup_cons.mp hnd
    rw [List.countP_cons]
    have hrest : xs.countP (fun i => decide ((x :: xs).idxOf i < v)) = xs.countP (fun i => decide (xs.idxOf i < v - 1)) := by
      apply List.countP_congr
      intro i hi
      have hne : (x == i) = false := by
        simp only [beq_eq_false_iff_ne, ne_eq]; intro h; exact hx (h ▸ hi)
      simp only [List.idxOf_cons, hne, cond_false, decide_eq_true_eq]
      omega
    rw [hrest, countP_idxOf_lt xs hnd' (v - 1)]
    simp only [List.idxOf_cons_self, List.length_cons]
    by_cases hv : 0 < v
    · simp only [hv, decide_true, if_true]; omega
    · have : v = 0 := by omega
      subst this; simp

theorem idxOf_flatten_eq : ∀ (L : List (List Nat)), L.flatten.Nodup → ∀ (b : Nat) (lb : List Nat),
    L[b]? = some lb → ∀ i, i ∈ lb → L.flatten.idxOf i = sumLengths (L.take b) + lb.idxOf i
  | [], _, b, lb, h, _, _ => by simp at h
  | l :: ls, hnd, b, lb, hb, i, hi => by
    simp only [List.flatten_cons] at hnd ⊢
    obtain ⟨_, hnd2, hdis⟩ := List.nodup_append.mp hnd
    cases b with
    | zero =>
      simp at hb; subst hb
      rw [List.idxOf_append, if_pos hi]
      simp [sumLengths]
    | succ b =>
      simp only [List.getElem?_cons_succ] at hb
      have hif : i ∈ ls.flatten := List.mem_flatten.mpr ⟨lb, List.mem_of_getElem? hb, hi⟩
      have hil : i ∉ l := fun h => hdis i h i hif rfl
      rw [List.idxOf_append, if_neg hil, idxOf_flatten_eq ls hnd2 b lb hb i hi, List.take_succ_cons,
        sumLengths_cons]
      omega

theorem forall₂_sumLengths_take {L S : List (List Nat)} (h : List.Forall₂ List.Perm L S) :
    ∀ b, sumLengths (L.take b) = sumLengths (S.take b) := by
  induction h with
  | nil => intro b; simp
  | cons hp _ ih =>
    intro b
    cases b with
    | zero => simp
    | succ b => simp only [List.take_succ_cons, sumLengths_cons, ih b, hp.length_eq]

end SyneTune
