import SyneTune.Lemmas.GP
import Mathlib.LinearAlgebra.Matrix.Trace
/-
Helper lemmas for C09: the hand-written backward pass of the Cholesky factorisation
(`custom_op.py: cholesky_factorization_backward`) is the adjoint of the tangent map of
`A = L Lᵀ`; the backward pass of `AddJitterOp`.
-/
set_option linter.unusedSectionVars false
set_option linter.unusedSimpArgs false
namespace SyneTune.GP
open Matrix

variable {𝕜 : Type} [Field 𝕜] {n : ℕ}

/-- `copyltu` on Mathlib matrices -/
def copyltuM (X : Matrix (Fin n) (Fin n) 𝕜) : Matrix (Fin n) (Fin n) 𝕜 :=
  Matrix.of fun i j => if j ≤ i then X i j else X j i

theorem toM_copyltu (X : Mat 𝕜 n n) : toM (copyltu X) = copyltuM (toM X) := by
  ext i j
  simp only [copyltu, toM_apply, Mat.of_get, copyltuM, Matrix.of_apply, Fin.le_def]

theorem copyltuM_transpose (X : Matrix (Fin n) (Fin n) 𝕜) : (copyltuM X)ᵀ = copyltuM X := by
  ext i j
  simp only [copyltuM, Matrix.transpose_apply, Matrix.of_apply]
  rcases lt_trichotomy i j with h | h | h
  · simp [h.le, not_le.mpr h]
  · subst h; simp
  · simp [h.le, not_le.mpr h]

/-- against a lower-triangular matrix, `copyltu X` acts like `Xᵀ`:
`tr(copyltu(X) S) = tr(Xᵀ S) = Σᵢⱼ Xᵢⱼ Sᵢⱼ`. -/
theorem trace_copyltuM_mul (X S : Matrix (Fin n) (Fin n) 𝕜) (hS : S.IsLowerTriangular) :
    trace (copyltuM X * S) = trace (Xᵀ * S) := by
  simp only [Matrix.trace, Matrix.diag_apply, Matrix.mul_apply]
  refine Finset.sum_congr rfl fun i _ => Finset.sum_congr rfl fun j _ => ?_
  simp only [copyltuM, Matrix.of_apply, Matrix.transpose_apply]
  rcases lt_trichotomy i j with h | h | h
  · simp [not_le.mpr h]
  · subst h; simp
  · have : S j i = 0 := hS (by simpa using h)
    simp [this]

/-- `tr(tril(G)ᵀ D) = tr(Gᵀ D)` for lower-triangular `D`. -/
theorem trace_tril_mul (G D : Matrix (Fin n) (Fin n) 𝕜) (hD : D.IsLowerTriangular) :
    trace ((Matrix.of fun i j => if j ≤ i then G i j else 0)ᵀ * D) = trace (Gᵀ * D) := by
  simp only [Matrix.trace, Matrix.diag_apply, Matrix.mul_apply]
  refine Finset.sum_congr rfl fun i _ => Finset.sum_congr rfl fun j _ => ?_
  simp only [Matrix.of_apply, Matrix.transpose_apply]
  by_cases h : i ≤ j
  · simp [h]
  · have : D j i = 0 := hD (by simpa using h)
    simp [this]

theorem toM_tril (X : Mat 𝕜 n n) : toM (tril X) = Matrix.of fun i j => if j ≤ i then toM X i j else 0 := by
  ext i j
  simp only [tril, toM_apply, Mat.of_get, Matrix.of_apply, Fin.le_def]

/-- **the matrix identity behind `cholesky_factorization_backward`.**  `T` invertible lower
triangular; `Z`, `W` the two triangular solves of the code (`Tᵀ Z = copyltu(Tᵀ Ḡ)`,
`Tᵀ W = Zᵀ`); then for every lower-triangular tangent `dL`, with `dA = dL Tᵀ + T dLᵀ`:
`tr((½W)ᵀ dA) = tr(Ḡᵀ dL)`. -/
theorem chol_vjp_matrix (h2 : (2 : 𝕜) ≠ 0) {T G dL Z W : Matrix (Fin n) (Fin n) 𝕜}
    (hT : IsUnit T.det) (hTl : T.IsLowerTriangular) (hdL : dL.IsLowerTriangular)
    (hZ : Tᵀ * Z = copyltuM (Tᵀ * G)) (hW : Tᵀ * W = Zᵀ) :
    trace (((1 / 2 : 𝕜) • W)ᵀ * (dL * Tᵀ + T * dLᵀ)) = trace (Gᵀ * dL) := by
  set M := copyltuM (Tᵀ * G) with hM
  have hMt : Mᵀ = M := copyltuM_transpose _
  have hTt : IsUnit Tᵀ.det := by rwa [Matrix.det_transpose]
  -- `Tᵀ W = M T⁻¹` and `Tᵀ Wᵀ = M T⁻¹`
  have hZ' : Z = Tᵀ⁻¹ * M := by
    rw [← hZ, ← Matrix.mul_assoc, Matrix.nonsing_inv_mul _ hTt, Matrix.one_mul]
  have hZt : Zᵀ = M * T⁻¹ := by
    rw [hZ', Matrix.transpose_mul, hMt, Matrix.transpose_nonsing_inv, Matrix.transpose_transpose]
  have hW' : W = Tᵀ⁻¹ * (M * T⁻¹) := by
    rw [← hZt, ← hW, ← Matrix.mul_assoc, Matrix.nonsing_inv_mul _ hTt, Matrix.one_mul]
  have hWt : Wᵀ = W := by
    rw [hW', Matrix.transpose_mul, Matrix.transpose_mul, hMt, Matrix.transpose_nonsing_inv,
      Matrix.transpose_nonsing_inv, Matrix.transpose_transpose, Matrix.mul_assoc]
  have hTW : Tᵀ * W = M * T⁻¹ := by rw [hW, hZt]
  -- the tangent in the coordinates `S = T⁻¹ dL`
  have : Invertible T := Matrix.invertibleOfIsUnitDet T hT
  have hTil : T⁻¹.IsLowerTriangular := blockTriangular_inv_of_blockTriangular hTl
  have hS : (T⁻¹ * dL).IsLowerTriangular := BlockTriangular.mul hTil hdL
  have hTS : T * (T⁻¹ * dL) = dL := by
    rw [← Matrix.mul_assoc, Matrix.mul_nonsing_inv _ hT, Matrix.one_mul]
  have e1 : trace (W * (dL * Tᵀ)) = trace (M * (T⁻¹ * dL)) := by
    rw [← Matrix.mul_assoc, Matrix.trace_mul_comm, ← Matrix.mul_assoc, hTW, Matrix.mul_assoc]
  have e2 : trace (W * (T * dLᵀ)) = trace (M * (T⁻¹ * dL)) := by
    calc trace (W * (T * dLᵀ)) = trace ((W * (T * dLᵀ))ᵀ) := (Matrix.trace_transpose _).symm
      _ = trace (dL * (Tᵀ * W)) := by
        rw [Matrix.transpose_mul, Matrix.transpose_mul, Matrix.transpose_transpose, hWt, Matrix.mul_assoc]
      _ = trace (M * (T⁻¹ * dL)) := by rw [hTW, Matrix.trace_mul_comm, Matrix.mul_assoc]
  rw [Matrix.transpose_smul, hWt, Matrix.smul_mul, Matrix.trace_smul, Matrix.mul_add, Matrix.trace_add,
    e1, e2, hM, trace_copyltuM_mul _ _ hS, Matrix.transpose_mul, Matrix.transpose_transpose,
    Matrix.mul_assoc, hTS, smul_eq_mul]
  field_simp
  ring

/-- the result of the two solves is symmetric -/
theorem chol_vjp_symm {T G Z W : Matrix (Fin n) (Fin n) 𝕜} (hT : IsUnit T.det)
    (hZ : Tᵀ * Z = copyltuM (Tᵀ * G)) (hW : Tᵀ * W = Zᵀ) : Wᵀ = W := by
  set M := copyltuM (Tᵀ * G) with hM
  have hMt : Mᵀ = M := copyltuM_transpose _
  have hTt : IsUnit Tᵀ.det := by rwa [Matrix.det_transpose]
  have hZ' : Z = Tᵀ⁻¹ * M := by
    rw [← hZ, ← Matrix.mul_assoc, Matrix.nonsing_inv_mul _ hTt, Matrix.one_mul]
  have hZt : Zᵀ = M * T⁻¹ := by
    rw [hZ', Matrix.transpose_mul, hMt, Matrix.transpose_nonsing_inv, Matrix.transpose_transpose]
  have hW' : W = Tᵀ⁻¹ * (M * T⁻¹) := by
    rw [← hZt, ← hW, ← Matrix.mul_assoc, Matrix.nonsing_inv_mul _ hTt, Matrix.one_mul]
  rw [hW', Matrix.transpose_mul, Matrix.transpose_mul, hMt, Matrix.transpose_nonsing_inv,
    Matrix.transpose_nonsing_inv, Matrix.transpose_transpose, Matrix.mul_assoc]

/-- every symmetric perturbation `dA` of `A = T Tᵀ` is `dL Tᵀ + T dLᵀ` for a lower-triangular
`dL` (so quantifying over lower-triangular `dL` in `chol_vjp` covers every symmetric `dA`). -/
theorem chol_tangent_surjective (h2 : (2 : 𝕜) ≠ 0) {T dA : Matrix (Fin n) (Fin n) 𝕜}
    (hT : IsUnit T.det) (hTl : T.IsLowerTriangular) (hA : dAᵀ = dA) :
    ∃ dL : Matrix (Fin n) (Fin n) 𝕜, dL.IsLowerTriangular ∧ dL * Tᵀ + T * dLᵀ = dA := by
  have hTt : IsUnit Tᵀ.det := by rwa [Matrix.det_transpose]
  set S := T⁻¹ * dA * Tᵀ⁻¹ with hSdef
  have hSt : Sᵀ = S := by
    rw [hSdef, Matrix.transpose_mul, Matrix.transpose_mul, hA, Matrix.transpose_nonsing_inv,
      Matrix.transpose_nonsing_inv, Matrix.transpose_transpose, Matrix.mul_assoc]
  let Φ : Matrix (Fin n) (Fin n) 𝕜 := Matrix.of fun i j => if j < i then S i j else if j = i then S i i / 2 else 0
  have hΦl : Φ.IsLowerTriangular := by
    intro i j hij
    have hij' : i < j := by simpa using hij
    simp [Φ, not_lt.mpr hij'.le, hij'.ne']
  have hΦ : Φ + Φᵀ = S := by
    ext i j
    have hs : S j i = S i j := congrFun (congrFun hSt i) j
    simp only [Φ, Matrix.add_apply, Matrix.transpose_apply, Matrix.of_apply]
    rcases lt_trichotomy i j with h | h | h
    · simp [h, not_lt.mpr h.le, h.ne', hs]
    · subst h; simp; field_simp; ring
    · simp [h, not_lt.mpr h.le, h.ne']
  refine ⟨T * Φ, BlockTriangular.mul hTl hΦl, ?_⟩
  have e : T * Φ * Tᵀ + T * (T * Φ)ᵀ = T * (Φ + Φᵀ) * Tᵀ := by
    rw [Matrix.transpose_mul, Matrix.mul_add, Matrix.add_mul, Matrix.mul_assoc T Φᵀ]
  rw [e, hΦ, hSdef]
  simp only [← Matrix.mul_assoc]
  rw [Matrix.mul_nonsing_inv _ hT, Matrix.one_mul, Matrix.mul_assoc, Matrix.nonsing_inv_mul _ hTt,
    Matrix.mul_one]

/-! ### the model's `cholBackward` -/

theorem toM_cholBackward (L Lbar : Mat 𝕜 n n) :
    toM (cholBackward L Lbar) =
      (1 / 2 : 𝕜) • toM (solveLowerTM L (transpose (solveLowerTM L (copyltu (matMul (transpose L) Lbar))))) := by
  ext i j
  simp only [cholBackward, toM_apply, Mat.of_get, Matrix.smul_apply, smul_eq_mul]
  ring

end SyneTune.GP
