import SyneTune.Model.TabularBackend
/-
Lemmas about the tabular job `tabJob` (`_run_job_and_collect_results` of
`_BlackboxSimulatorBackend`): table lookup, level filter, elapsed-time rebasing, repair.
-/
namespace SyneTune.SimTab
open SyneTune SyneTune.Backend

/-- in range, and (for a checkpointed resume) above the paused level -/
def keepLevel (lo hi : Nat) (p : Option Nat) (f : Nat) : Bool :=
  decide (lo ≤ f) && decide (f ≤ hi) && (match p with | some q => decide (q < f) | none => true)

/-! ### helpers -/

theorem le_maxRat_left (a b : Rat) : a ≤ maxRat a b := by
  unfold maxRat; split
  · exact Rat.le_of_lt ‹_›
  · exact Rat.le_refl

theorem le_maxRat_right (a b : Rat) : b ≤ maxRat a b := by
  unfold maxRat; split
  · exact Rat.le_refl
  · exact Rat.not_lt.mp ‹_›

theorem alookup_aset {β : Type} (u t : Nat) (v : β) (l : List (Nat × β)) :
    alookup u (aset t v l) = if u = t then some v else alookup u l := by
  induction l with
  | nil => simp [aset, alookup]
  | cons x xs ih =>
    obtain ⟨k', v'⟩ := x
    unfold aset
    by_cases htk : t = k'
    · subst htk
      simp only [if_true, alookup]
      by_cases hut : u = t <;> simp [hut]
    · simp only [htk, if_false, alookup, ih]
      by_cases huk : u = k'
      · subst huk
        have : ¬ u = t := fun h => htk h.symm
        simp [this]
      · simp [huk]

theorem rowsInRange_mem (tcol lo hi : Nat) (fids : List Nat) (rows : List (List Rat)) (r : Res)
    (h : r ∈ rowsInRange tcol lo hi fids rows) :
    ∃ i : Nat, fids[i]? = some r.level ∧ rows[i]? = some r.row ∧ lo ≤ r.level ∧ r.level ≤ hi ∧
      r.elapsed = (r.row[tcol]?).getD 0 := by
  induction fids generalizing rows with
  | nil => simp [rowsInRange] at h
  | cons f fs ih =>
    cases rows with
    | nil => simp [rowsInRange] at h
    | cons row rows =>
      simp only [rowsInRange] at h
      split at h
      · rename_i hc
        rcases List.mem_cons.mp h with h | h
        · subst h
          exact ⟨0, by simp [mkRes], by simp [mkRes], hc.1, hc.2, rfl⟩
        · obtain ⟨i, h1, h2, h3⟩ := ih rows h
          exact ⟨i + 1, by simpa using h1, by simpa using h2, h3⟩
      · obtain ⟨i, h1, h2, h3⟩ := ih rows h
        exact ⟨i + 1, by simpa using h1, by simpa using h2, h3⟩

theorem rowsInRange_levels (tcol lo hi : Nat) (fids : List Nat) (rows : List (List Rat))
    (hlen : fids.length ≤ rows.length) :
    (rowsInRange tcol lo hi fids rows).map (·.level) = fids.filter (fun f => decide (lo ≤ f) && decide (f ≤ hi)) := by
  induction fids generalizing rows with
  | nil => simp [rowsInRange]
  | cons f fs ih =>
    cases rows with
    | nil => simp at hlen
    | cons row rows =>
      have hlen' : fs.length ≤ rows.length := by simpa using hlen
      simp only [rowsInRange, List.filter_cons]
      by_cases hc : lo ≤ f ∧ f ≤ hi
      · simp [hc, ih rows hlen', mkRes]
      · have hc' : (decide (lo ≤ f) && decide (f ≤ hi)) = false := by
          simpa using hc
        simp only [hc, if_false, hc']
        exact ih rows hlen'

/-! ### repair -/

theorem repairFrom_levels (A : Arith) (step prev : Rat) (rs : List Res) :
    (repairFrom A step prev rs).map (·.level) = rs.map (·.level) := by
  induction rs generalizing prev with
  | nil => rfl
  | cons r rs ih => simp [repairFrom, ih]

theorem repairFrom_rows (A : Arith) (step prev : Rat) (rs : List Res) :
    (repairFrom A step prev rs).map (·.row) = rs.map (·.row) := by
  induction rs generalizing prev with
  | nil => rfl
  | cons r rs ih => simp [repairFrom, ih]

/-- the repair keeps levels and rows -/
theorem repair_levels_rows (A : Arith) (step : Rat) (rs rs' : List Res) (h : repair A step rs = .ok rs') :
    rs'.map (·.level) = rs.map (·.level) ∧ rs'.map (·.row) = rs.map (·.row) ∧ rs ≠ [] := by
  cases rs with
  | nil => simp [repair] at h
  | cons r rs =>
    simp only [repair, Except.ok.injEq] at h
    subst h
    simp [repairFrom_levels, repairFrom_rows]

theorem repairFrom_chain (A : Arith) (step : Rat) (rs : List Res) :
    ∀ (x : Res) (i : Nat) (r p' r' : Res), rs[i]? = some r →
      (x :: repairFrom A step x.elapsed rs)[i]? = some p' →
      (x :: repairFrom A step x.elapsed rs)[i+1]? = some r' →
      r'.elapsed = maxRat r.elapsed (A.add p'.elapsed step) := by
  induction rs with
  | nil => intro x i r p' r' h; simp at h
  | cons r1 rs ih =>
    intro x i r p' r' h1 h2 h3
    cases i with
    | zero =>
      simp only [repairFrom, List.getElem?_cons_zero, List.getElem?_cons_succ, Option.some.injEq] at h1 h2 h3
      subst h1 h2 h3
      rfl
    | succ j =>
      simp only [repairFrom, List.getElem?_cons_succ] at h1 h2 h3
      exact ih _ j r p' r' h1 h2 h3

/-- the repaired elapsed times: `e'_0 = max(e_0, step)`, `e'_{i+1} = max(e_{i+1}, e'_i ⊕ step)` -/
theorem repair_elapsed (A : Arith) (step : Rat) (rs rs' : List Res) (h : repair A step rs = .ok rs') :
    (∀ r0 r0', rs[0]? = some r0 → rs'[0]? = some r0' → r0'.elapsed = maxRat r0.elapsed step) ∧
    (∀ i r p' r', rs[i+1]? = some r → rs'[i]? = some p' → rs'[i+1]? = some r' →
        r'.elapsed = maxRat r.elapsed (A.add p'.elapsed step)) := by
  cases rs with
  | nil => simp [repair] at h
  | cons r rs =>
    simp only [repair, Except.ok.injEq] at h
    subst h
    constructor
    · intro r0 r0' h1 h2
      simp only [List.getElem?_cons_zero, Option.some.injEq] at h1 h2
      subst h1 h2
      rfl
    · intro i r1 p' r' h1 h2 h3
      simp only [List.getElem?_cons_succ] at h1
      exact repairFrom_chain A step rs { r with elapsed := maxRat r.elapsed step } i r1 p' r' h1 h2 h3

theorem repairFrom_ge (A : Arith) (step : Rat) (hadd : ∀ a, a ≤ A.add a step) (rs : List Res) :
    ∀ (prev : Rat), ∀ r ∈ repairFrom A step prev rs, prev ≤ r.elapsed := by
  induction rs with
  | nil => intro prev r h; simp [repairFrom] at h
  | cons r1 rs ih =>
    intro prev r h
    simp only [repairFrom] at h
    have h0 : prev ≤ maxRat r1.elapsed (A.add prev step) :=
      Rat.le_trans (hadd prev) (le_maxRat_right _ _)
    rcases List.mem_cons.mp h with h | h
    · subst h; exact h0
    · exact Rat.le_trans h0 (ih _ r h)

theorem repairFrom_pairwise (A : Arith) (step : Rat) (hadd : ∀ a, a ≤ A.add a step) (rs : List Res) :
    ∀ (prev : Rat), (repairFrom A step prev rs).Pairwise (fun a b => a.elapsed ≤ b.elapsed) := by
  induction rs with
  | nil => intro prev; simp [repairFrom]
  | cons r1 rs ih =>
    intro prev
    simp only [repairFrom]
    exact List.Pairwise.cons (fun b hb => repairFrom_ge A step hadd rs _ b hb) (ih _)

/-- after the repair elapsed times are non-decreasing and at least `step`, provided adding
`step` does not decrease a number (`hadd`; true for IEEE and exact addition with `step ≥ 0`) -/
theorem repair_sorted (A : Arith) (step : Rat) (hadd : ∀ a, a ≤ A.add a step)
    (rs rs' : List Res) (h : repair A step rs = .ok rs') :
    rs'.Pairwise (fun a b => a.elapsed ≤ b.elapsed) ∧ (∀ r ∈ rs', step ≤ r.elapsed) := by
  cases rs with
  | nil => simp [repair] at h
  | cons r rs =>
    simp only [repair, Except.ok.injEq] at h
    subst h
    constructor
    · exact List.Pairwise.cons (fun b hb => repairFrom_ge A step hadd rs _ b hb)
        (repairFrom_pairwise A step hadd rs _)
    · intro x hx
      rcases List.mem_cons.mp hx with hx | hx
      · subst hx; exact le_maxRat_right _ _
      · exact Rat.le_trans (le_maxRat_right r.elapsed step) (repairFrom_ge A step hadd rs _ x hx)

/-! ### resume filter -/

theorem resumeFilter_levels_rows (A : Arith) (p : Nat) (all : List Res) :
    (resumeFilter A p all).map (·.level) = (all.filter (fun r => decide (p < r.level))).map (·.level) ∧
    (resumeFilter A p all).map (·.row) = (all.filter (fun r => decide (p < r.level))).map (·.row) ∧
    (resumeFilter A p all).map (·.elapsed) =
      (all.filter (fun r => decide (p < r.level))).map (fun r => A.sub r.elapsed (offsetAt p all 0)) := by
  simp [resumeFilter, List.map_map, Function.comp_def]

theorem offsetAt_gen (p : Nat) (all : List Res) :
    ∀ off : Rat, (∃ r ∈ all, r.level = p ∧ offsetAt p all off = r.elapsed) ∨
      ((∀ r ∈ all, r.level ≠ p) ∧ offsetAt p all off = off) := by
  induction all with
  | nil => intro off; right; simp [offsetAt]
  | cons r rs ih =>
    intro off
    simp only [offsetAt]
    rcases ih (if r.level = p then r.elapsed else off) with ⟨x, hx, hp, he⟩ | ⟨hn, he⟩
    · exact Or.inl ⟨x, List.mem_cons_of_mem _ hx, hp, he⟩
    · by_cases hr : r.level = p
      · left
        refine ⟨r, List.mem_cons_self, hr, ?_⟩
        rw [he]; simp [hr]
      · right
        constructor
        · intro y hy
          rcases List.mem_cons.mp hy with hy | hy
          · subst hy; exact hr
          · exact hn y hy
        · rw [he]; simp [hr]

/-- the offset is the elapsed time of a result at the paused level (0 if there is none) -/
theorem offsetAt_spec (p : Nat) (all : List Res) :
    (∃ r ∈ all, r.level = p ∧ offsetAt p all 0 = r.elapsed) ∨
    ((∀ r ∈ all, r.level ≠ p) ∧ offsetAt p all 0 = 0) :=
  offsetAt_gen p all 0

/-! ### seeds -/

/-- how the seed of a query is determined; the per-trial seed map only grows -/
theorem seedOf_spec (js js' : TabState) (t sd : Nat) (h : js.seedOf t = .ok (js', sd)) :
    ((js.seedFix = some sd ∧ js' = js) ∨
     (js.seedFix = none ∧ alookup t js.seedFor = some sd ∧ js' = js) ∨
     (js.seedFix = none ∧ alookup t js.seedFor = none ∧ alookup t js.seedTape = some sd ∧
        js' = { js with seedFor := aset t sd js.seedFor })) := by
  unfold TabState.seedOf at h
  cases hf : js.seedFix with
  | some s =>
    simp only [hf, Except.ok.injEq, Prod.mk.injEq] at h
    left; exact ⟨by rw [h.2], h.1.symm⟩
  | none =>
    simp only [hf] at h
    cases hl : alookup t js.seedFor with
    | some s =>
      simp only [hl, Except.ok.injEq, Prod.mk.injEq] at h
      right; left; exact ⟨rfl, by rw [h.2], h.1.symm⟩
    | none =>
      simp only [hl] at h
      cases hp : alookup t js.seedTape with
      | none => simp [hp] at h
      | some s =>
        simp only [hp, Except.ok.injEq, Prod.mk.injEq] at h
        right; right
        obtain ⟨h1, h2⟩ := h
        subst h2
        exact ⟨rfl, rfl, rfl, h1.symm⟩

theorem seedOf_stable (js js' : TabState) (t sd : Nat) (h : js.seedOf t = .ok (js', sd)) :
    (∀ u s0, alookup u js.seedFor = some s0 → alookup u js'.seedFor = some s0) ∧
    (js.seedFix = none → alookup t js'.seedFor = some sd) ∧
    js'.table = js.table ∧ js'.cfgs = js.cfgs ∧ js'.paused = js.paused ∧ js'.seedFix = js.seedFix ∧
    js'.checkpointing = js.checkpointing ∧ js'.maxResAttr = js.maxResAttr ∧ js'.minStep = js.minStep := by
  rcases seedOf_spec js js' t sd h with ⟨h1, h2⟩ | ⟨h1, h2, h3⟩ | ⟨h1, h2, h3, h4⟩
  · subst h2
    refine ⟨fun _ _ h => h, ?_, rfl, rfl, rfl, rfl, rfl, rfl, rfl⟩
    intro hn; rw [hn] at h1; cases h1
  · subst h3
    exact ⟨fun _ _ h => h, fun _ => h2, rfl, rfl, rfl, rfl, rfl, rfl, rfl⟩
  · subst h4
    refine ⟨?_, ?_, rfl, rfl, rfl, rfl, rfl, rfl, rfl⟩
    · intro u s0 hu
      simp only [alookup_aset]
      by_cases hut : u = t
      · subst hut; rw [h2] at hu; cases hu
      · simp [hut, hu]
    · intro _
      simp [alookup_aset]

/-! ### the job -/

/-- everything `tabJob` returns, in one statement -/
theorem tabJob_spec (A : Arith) (js js' : TabState) (t : Nat) (st : St) (rs : List Res)
    (h : tabJob A js t = .ok (js', st, rs)) :
    st = .completed ∧
    ∃ cfg sd all, alookup t js.cfgs = some cfg ∧ js.seedOf t = .ok (js', sd) ∧
      js'.allResults cfg sd = .ok all ∧
      repair A js.minStep
        (match alookup t js.paused with
         | some p => if js.checkpointing then resumeFilter A p all else all
         | none => all) = .ok rs := by
  unfold tabJob at h
  cases hc : alookup t js.cfgs with
  | none => simp [hc] at h
  | some cfg =>
    simp only [hc] at h
    cases hs : js.seedOf t with
    | error e => simp [hs] at h
    | ok p =>
      obtain ⟨js1, sd⟩ := p
      simp only [hs] at h
      cases ha : js1.allResults cfg sd with
      | error e => simp [ha] at h
      | ok all =>
        simp only [ha] at h
        obtain ⟨_, _, _, _, hpa, _, hck, _, hms⟩ := seedOf_stable js js1 t sd hs
        rw [hpa, hck, hms] at h
        split at h
        · simp at h
        · rename_i rs1 hr
          simp only [Except.ok.injEq, Prod.mk.injEq] at h
          obtain ⟨h1, h2, h3⟩ := h
          subst h1 h2 h3
          exact ⟨rfl, cfg, sd, all, rfl, rfl, ha, hr⟩

theorem allResults_tail (n sd : Nat) (ro : Option (List (List Rat)))
    (f : List (List Rat) → List Res) (all : List Res) (e1 e2 : BErr)
    (h : (if ¬ sd < n then (Except.error e1 : Except BErr (List Res)) else
            match ro with
            | none => Except.error e2
            | some rows => Except.ok (f rows)) = Except.ok all) :
    sd < n ∧ ∃ rows, ro = some rows ∧ all = f rows := by
  by_cases hsd : sd < n
  · simp only [hsd, not_true_eq_false, if_false] at h
    cases ro with
    | none => simp at h
    | some rows =>
      simp only [Except.ok.injEq] at h
      exact ⟨hsd, rows, rfl, h.symm⟩
  · simp [hsd] at h

theorem allResults_spec (js : TabState) (cfg : Cfg) (sd : Nat) (all : List Res)
    (h : js.allResults cfg sd = .ok all) :
    ∃ lo hi0 rows, listMin js.table.fids = some lo ∧ listMax js.table.fids = some hi0 ∧
      sd < js.table.numSeeds ∧ js.table.rows cfg.idx sd = some rows ∧
      all = rowsInRange js.table.tcol lo
        (match js.maxResAttr, cfg.maxRes with | true, some m => m | _, _ => hi0) js.table.fids rows := by
  unfold TabState.allResults at h
  cases hlo : listMin js.table.fids with
  | none => simp [hlo] at h
  | some lo =>
    cases hhi : listMax js.table.fids with
    | none => simp [hlo, hhi] at h
    | some hi0 =>
      simp only [hlo, hhi] at h
      refine ⟨lo, hi0, ?_⟩
      cases hm : js.maxResAttr <;> cases hr : cfg.maxRes <;> simp only [hm, hr] at h ⊢
      case true.some m =>
        by_cases hlm : lo ≤ m
        · simp only [hlm, if_true] at h
          obtain ⟨h1, rows, h2, h3⟩ := allResults_tail _ _ _ _ _ _ _ h
          exact ⟨rows, trivial, trivial, h1, h2, h3⟩
        · simp [hlm] at h
      all_goals
        obtain ⟨h1, rows, h2, h3⟩ := allResults_tail _ _ _ _ _ _ _ h
        exact ⟨rows, trivial, trivial, h1, h2, h3⟩

theorem repairFrom_mem (A : Arith) (step : Rat) (rs : List Res) :
    ∀ (prev : Rat), ∀ r ∈ repairFrom A step prev rs, ∃ r0 ∈ rs, r0.level = r.level ∧ r0.row = r.row := by
  induction rs with
  | nil => intro prev r h; simp [repairFrom] at h
  | cons r1 rs ih =>
    intro prev r h
    simp only [repairFrom] at h
    rcases List.mem_cons.mp h with h | h
    · subst h; exact ⟨r1, List.mem_cons_self, rfl, rfl⟩
    · obtain ⟨r0, h0, h1⟩ := ih _ r h
      exact ⟨r0, List.mem_cons_of_mem _ h0, h1⟩

theorem repair_mem (A : Arith) (step : Rat) (rs rs' : List Res) (h : repair A step rs = .ok rs') :
    ∀ r ∈ rs', ∃ r0 ∈ rs, r0.level = r.level ∧ r0.row = r.row := by
  cases rs with
  | nil => simp [repair] at h
  | cons r1 rs =>
    simp only [repair, Except.ok.injEq] at h
    subst h
    intro r hr
    rcases List.mem_cons.mp hr with hr | hr
    · subst hr; exact ⟨r1, List.mem_cons_self, rfl, rfl⟩
    · obtain ⟨r0, h0, h1⟩ := repairFrom_mem A step rs _ r hr
      exact ⟨r0, List.mem_cons_of_mem _ h0, h1⟩

theorem resumeFilter_mem (A : Arith) (p : Nat) (all : List Res) :
    ∀ r ∈ resumeFilter A p all, ∃ r0 ∈ all, r0.level = r.level ∧ r0.row = r.row := by
  intro r hr
  simp only [resumeFilter, List.mem_map, List.mem_filter] at hr
  obtain ⟨r0, ⟨h0, _⟩, h1⟩ := hr
  subst h1
  exact ⟨r0, h0, rfl, rfl⟩

/-- **values**: every result of the job carries a row of the table, at the trial's
configuration, the trial's seed and the position of its level -/
theorem tabJob_values (A : Arith) (js js' : TabState) (t : Nat) (st : St) (rs : List Res)
    (h : tabJob A js t = .ok (js', st, rs)) :
    ∃ cfg sd rows, alookup t js.cfgs = some cfg ∧ js.seedOf t = .ok (js', sd) ∧ sd < js.table.numSeeds ∧
      js.table.rows cfg.idx sd = some rows ∧
      ∀ r ∈ rs, ∃ i : Nat, js.table.fids[i]? = some r.level ∧ rows[i]? = some r.row := by
  obtain ⟨_, cfg, sd, all, hc, hs, ha, hr⟩ := tabJob_spec A js js' t st rs h
  obtain ⟨_, _, htb, _, _, _, _, hmr, _⟩ := seedOf_stable js js' t sd hs
  obtain ⟨lo, hi0, rows, _, _, hsd, hrows, hall⟩ := allResults_spec js' cfg sd all ha
  rw [htb] at hsd hrows hall
  refine ⟨cfg, sd, rows, hc, hs, hsd, hrows, ?_⟩
  intro r hrm
  obtain ⟨r0, hr0, hl, hw⟩ := repair_mem A js.minStep _ rs hr r hrm
  have hr0all : ∃ r1 ∈ all, r1.level = r.level ∧ r1.row = r.row := by
    cases hp : alookup t js.paused with
    | none =>
      simp only [hp] at hr0
      exact ⟨r0, hr0, hl, hw⟩
    | some p =>
      simp only [hp] at hr0
      by_cases hck : js.checkpointing = true
      · simp only [hck, if_true] at hr0
        obtain ⟨r1, h1, h2, h3⟩ := resumeFilter_mem A p all r0 hr0
        exact ⟨r1, h1, h2.trans hl, h3.trans hw⟩
      · simp only [hck] at hr0
        exact ⟨r0, hr0, hl, hw⟩
  obtain ⟨r1, h1, h2, h3⟩ := hr0all
  rw [hall] at h1
  obtain ⟨i, hi1, hi2, _⟩ := rowsInRange_mem _ _ _ _ _ _ h1
  exact ⟨i, by rw [hi1, h2], by rw [hi2, h3]⟩

theorem keepLevel_none (lo hi : Nat) :
    keepLevel lo hi none = (fun f => decide (lo ≤ f) && decide (f ≤ hi)) := by
  funext f; simp [keepLevel]

theorem keepLevel_some (lo hi p : Nat) :
    keepLevel lo hi (some p) = (fun f => decide (p < f) && (decide (lo ≤ f) && decide (f ≤ hi))) := by
  funext f; simp only [keepLevel]; rw [Bool.and_comm]

theorem resumeFilter_levels_filter (A : Arith) (p : Nat) (all : List Res) :
    (resumeFilter A p all).map (·.level) = (all.map (·.level)).filter (fun f => decide (p < f)) := by
  rw [(resumeFilter_levels_rows A p all).1, List.filter_map]
  rfl

/-- **levels**: the levels of a run are the table's fidelity values inside
`[min fidelity, config[max_resource_attr]]` (all if the attribute is not used), above the
paused level for a checkpointed resume, in table order -/
theorem tabJob_levels (A : Arith) (js js' : TabState) (t : Nat) (st : St) (rs : List Res)
    (h : tabJob A js t = .ok (js', st, rs)) :
    ∃ cfg sd rows lo hi0, alookup t js.cfgs = some cfg ∧ js.seedOf t = .ok (js', sd) ∧
      js.table.rows cfg.idx sd = some rows ∧
      listMin js.table.fids = some lo ∧ listMax js.table.fids = some hi0 ∧
      (js.table.fids.length ≤ rows.length →
        rs.map (·.level) = js.table.fids.filter
          (keepLevel lo (match js.maxResAttr, cfg.maxRes with | true, some m => m | _, _ => hi0)
                     (if js.checkpointing then alookup t js.paused else none))) := by
  obtain ⟨_, cfg, sd, all, hc, hs, ha, hr⟩ := tabJob_spec A js js' t st rs h
  obtain ⟨_, _, htb, _, _, _, _, hmr, _⟩ := seedOf_stable js js' t sd hs
  obtain ⟨lo, hi0, rows, hlo, hhi, hsd, hrows, hall⟩ := allResults_spec js' cfg sd all ha
  rw [htb] at hsd hrows hall hlo hhi
  rw [hmr] at hall
  refine ⟨cfg, sd, rows, lo, hi0, hc, hs, hrows, hlo, hhi, ?_⟩
  intro hlen
  generalize hhi' : (match js.maxResAttr, cfg.maxRes with | true, some m => m | _, _ => hi0) = hi at hall ⊢
  have hlv : all.map (·.level) = js.table.fids.filter (fun f => decide (lo ≤ f) && decide (f ≤ hi)) := by
    rw [hall]; exact rowsInRange_levels _ _ _ _ _ hlen
  rw [(repair_levels_rows A js.minStep _ rs hr).1]
  cases hp : alookup t js.paused with
  | none =>
    simp only [ite_self, keepLevel_none]
    exact hlv
  | some p =>
    by_cases hck : js.checkpointing = true
    · simp only [hck, if_true, keepLevel_some]
      rw [resumeFilter_levels_filter, hlv, List.filter_filter]
    · have hck' : js.checkpointing = false := by simpa using hck
      simp only [hck', Bool.false_eq_true, if_false, keepLevel_none]
      exact hlv

/-- for fidelities `1, …, F`: consecutive levels `p+1, …, min(F, max_resource)` -/
theorem filter_range_consecutive (F hi : Nat) (p : Option Nat) :
    (List.range' 1 F).filter (keepLevel 1 hi p) =
      List.range' ((p.getD 0) + 1) (min F hi - (p.getD 0)) := by
  induction F with
  | zero => simp
  | succ F ih =>
    rw [List.range'_concat, List.filter_append, ih]
    by_cases hk : keepLevel 1 hi p (1 + F) = true
    · have hk' : F + 1 ≤ hi ∧ p.getD 0 < F + 1 := by
        cases p with
        | none => simp [keepLevel] at hk ⊢; omega
        | some q => simp [keepLevel] at hk ⊢; omega
      have e1 : min (F + 1) hi - p.getD 0 = (min F hi - p.getD 0) + 1 := by omega
      have e2 : 1 + F = (p.getD 0 + 1) + 1 * (min F hi - p.getD 0) := by omega
      rw [e1, List.range'_concat, ← e2]
      simp [hk]
    · have hk' : ¬ (F + 1 ≤ hi ∧ p.getD 0 < F + 1) := by
        cases p with
        | none => simp [keepLevel] at hk ⊢; omega
        | some q => simp [keepLevel] at hk ⊢; omega
      have e1 : min (F + 1) hi - p.getD 0 = min F hi - p.getD 0 := by omega
      rw [e1]
      simp [hk]

/-- the job's elapsed times are non-decreasing and ≥ the repair step -/
theorem tabJob_sorted (A : Arith) (js js' : TabState) (t : Nat) (st : St) (rs : List Res)
    (hadd : ∀ a, a ≤ A.add a js.minStep)
    (h : tabJob A js t = .ok (js', st, rs)) :
    rs.Pairwise (fun a b => a.elapsed ≤ b.elapsed) ∧ (∀ r ∈ rs, js.minStep ≤ r.elapsed) ∧ rs ≠ [] := by
  obtain ⟨_, cfg, sd, all, hc, hs, ha, hr⟩ := tabJob_spec A js js' t st rs h
  obtain ⟨h1, h2⟩ := repair_sorted A js.minStep hadd _ rs hr
  refine ⟨h1, h2, ?_⟩
  obtain ⟨hl, _, hne⟩ := repair_levels_rows A js.minStep _ rs hr
  intro hnil
  subst hnil
  apply hne
  simpa using hl.symm

end SyneTune.SimTab
