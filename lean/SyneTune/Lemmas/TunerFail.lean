import SyneTune.Lemmas.TunerC12
/-
Behind C13 (loop side) `abort_names_failed`: `_handle_failure` finds a failed trial whenever the
tuning status counts one.
-/
namespace SyneTune.Tuner
open SyneTune AL

/-- firstFailed finds a failed trial whenever there is one -/
theorem firstFailed_spec (l : List (Nat × St)) (hn : (keys l).Nodup) :
    (∀ t, firstFailed l = some t → alookup t l = some .failed) ∧
    ((∃ t, alookup t l = some .failed) → (firstFailed l).isSome = true) := by
  induction l with
  | nil => exact ⟨fun t h => by simp [firstFailed] at h, fun ⟨t, h⟩ => by simp [alookup] at h⟩
  | cons x xs ih =>
    obtain ⟨k, v⟩ := x
    simp only [keys, List.map_cons, List.nodup_cons] at hn
    obtain ⟨ih1, ih2⟩ := ih hn.2
    constructor
    · intro t h
      simp only [firstFailed] at h
      by_cases hv : v = .failed
      · simp only [hv, if_true, Option.some.injEq] at h
        subst h; simp [alookup, hv]
      · simp only [hv, if_false] at h
        have := ih1 t h
        have hne : t ≠ k := by
          intro hc; subst hc
          exact hn.1 ((hasKey_iff_mem_keys _ _).mp (by unfold hasKey; rw [this]; rfl))
        simp [alookup, hne, this]
    · rintro ⟨t, h⟩
      simp only [firstFailed]
      by_cases hv : v = .failed
      · simp [hv]
      · simp only [hv, if_false]
        apply ih2
        by_cases hc : t = k
        · subst hc; simp [alookup] at h; exact absurd h hv
        · exact ⟨t, by simpa [alookup, hc] using h⟩

/-- a positive count exhibits an entry -/
theorem exists_of_numIn_pos (ts : TStatus) (p : St → Bool) (h : 0 < ts.numIn p) (hn : (keys ts.last).Nodup) :
    ∃ t st, alookup t ts.last = some st ∧ p st = true := by
  unfold TStatus.numIn at h
  obtain ⟨kv, hkv⟩ := List.exists_mem_of_length_pos h
  obtain ⟨h1, h2⟩ := List.mem_filter.mp hkv
  exact ⟨kv.1, kv.2, alookup_of_mem hn h1, h2⟩


/-- the keys of `last_trial_status_seen` are distinct (it is a dict) -/
def LNInv (s : LState) : Prop := (keys s.status.last).Nodup

theorem LNInv_next (s : LState) (a : Ans) (h : LNInv s) : LNInv (next s a) := by
  unfold next
  split
  all_goals (try simp only [])
  all_goals (repeat' split)
  all_goals first
    | exact h
    | (show (keys (addRow s).status.last).Nodup; rw [addRow_status]; exact h)
    | (show (keys (secondItem s _ _ _).status.last).Nodup; rw [secondItem_status]; exact h)
    | (show (keys (afterUpdate s).status.last).Nodup
       rw [show (afterUpdate s).status.last = aupdate s.status.last (aupdate s.sd s.done) from update_last _ _ _]
       exact nodup_keys_aupdate _ _ h)
    | (show (keys (scheduled s _).status.last).Nodup
       have hl : ∀ u, (scheduled s u).status.last = aset u .inProgress s.status.last := by
         intro u; unfold scheduled addRunning; split <;> exact update_last _ _ _
       rw [hl]; exact nodup_keys_aset _ _ _ h)
    | (show (keys (TStatus.markStopped s.status).last).Nodup; rw [markStopped_keys]; exact h)

theorem LNInv_run (c : Cfg) (as : List Ans) : LNInv (run (init c) as) :=
  run_inv (Inv := LNInv) (fun s a h => step_of_next (P := LNInv) (fun _ _ h => h) s a (LNInv_next s a h)) as (init c)
    (by simp [LNInv, init, keys])

end SyneTune.Tuner
