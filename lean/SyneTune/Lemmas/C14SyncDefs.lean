import SyneTune.Lemmas.C14CompObs
import SyneTune.Lemmas.SyncMore
/-
C14, composed system for SYNCHRONOUS Hyperband: the model of `SynchronousHyperbandScheduler`
(`Model/SyncScheduler.lean`, `Sync.Sched`) and the model of the data bookkeeping of the GP
searcher (`Model/SearcherState.lean`, `SState`) run together.  Every call on the searcher the
scheduler emits (`Sync.SCall`) is translated to the `SCall` which `SState.apply` understands and
fed into it, in order.

Definitions only (translation, system, step, the operation contract `OpOKS`, the invariant
`CInvS`); proofs are in `Lemmas/C14Sync*.lean`, the property theorems in `Props/C14Sync.lean`.
-/
namespace SyneTune.Sync.C14S
open SyneTune.C14 SyneTune.C14Comp

/-! ### translation of the searcher calls -/

/-- what the searcher does on a call of the scheduler: a call `SState.apply` understands, or —
which `SState.apply` has no call for — the arrival of a NaN / infinite result for `(t, r)` with
`update=True` -/
inductive SAct
  | call (c : SyneTune.SCall)
  | nanArrived (t r : Nat)

/-- `state_transformer.mark_trial_failed(trial_id)`: the trial id is appended to `failed_trials`
unless it is there (the same update as inside `SState.apply (.evalFailed t)`) -/
def markFailed (st : SState) (t : Nat) : SState :=
  if st.failed.contains t then st else { st with failed := st.failed ++ [t] }

/-- effect of one action on the searcher's data.  `nanArrived t r` (`ModelBasedSearcher._update`
for a NaN / infinite metric value, /repo commit b827303): `drop_pending_evaluation(t, r)` — the
first pending entry `(t, r)`, if any — and `mark_trial_failed(t)`; no observation -/
def applyAct (st : SState) : SAct → Except Err SState
  | .call c => st.apply c
  | .nanArrived t r => .ok (markFailed { st with pending := dropPending t r st.pending } t)

def applyActs (st : SState) : List SAct → Except Err SState
  | [] => .ok st
  | a :: as =>
    match applyAct st a with
    | .error e => .error e
    | .ok st' => applyActs st' as

/-- the searcher calls of the synchronous scheduler as actions on the searcher model:
* `pending t level` — `searcher.register_pending(trial_id, config, milestone=level)` in `_suggest`
  (new trial only);
* `update t r v upd` — `searcher.on_trial_result(trial_id, config, result, update=upd)` in
  `on_trial_result` (and with `update=True` in `on_trial_complete`).  A finite metric value is
  passed as it is.  For `float("nan")` (and `inf`, which the model's `Metric` does not have)
  `ModelBasedSearcher._update` (called iff `update=True`) "rejects NaN or infinite values": no
  observation is stored, but — since commit b827303 of /repo — the pending evaluation the result
  replaces, `(trial, resource of the result)`, is dropped, exactly what `label_trial` would have
  dropped, and the trial is marked as failed (`nanArrived`).  With `update=False` the searcher
  is not updated at all;
* `evalFailed t` — `searcher.evaluation_failed(trial_id)` in `on_trial_error`. -/
def trCall : SCall → SAct
  | .pending t level => .call (.pending t level)
  | .update t r (.val x) upd => .call (.update t r x upd)
  | .update t r .nan true => .nanArrived t r
  | .update t r .nan false => .call (.update t r 0 false)
  | .evalFailed t => .call (.evalFailed t)

/-! ### the composed system -/

/-- scheduler + searcher bookkeeping + a ghost component: `last` maps a trial to the resource
level of the last result it reported in its current (or most recent) run — what the training
script / the `Tuner` (`last_seen_result_per_trial`) know; reset to 0 when the trial is started
or resumed.  No operation of scheduler or searcher reads it; the contract and the invariant do. -/
structure SysS where
  sched : Sched
  st : SState
  last : List (Nat × Nat) := []

/-- level of the last report of `t` in its current run, 0 if there is none -/
def SysS.lastOf (y : SysS) (t : Nat) : Nat := (alookup t y.last).getD 0

/-- the ghost component after an operation which scheduler and searcher accepted -/
def ghostNext (s : Sched) (last : List (Nat × Nat)) (op : Op) (o : Out) : List (Nat × Nat) :=
  match op with
  | .suggest _ _ =>
    (match o.suggestion with
     | some (.start t _ _ _ _ _) => aset t 0 last
     | some (.resume t _ _) => aset t 0 last
     | _ => last)
  | .result t r _ => if (alookup t s.pending).isSome then aset t r last else last
  | _ => last

/-- one step of the composed system.  A Python exception of the scheduler (`Sched.step` is an
error) leaves everything as it was (convention of `Sched.next`).  The calls are translated and
applied (`applyActs`) in the order the scheduler issues them; if the searcher raised on one of them
(`SState.apply`: "already has observation, cannot be pending"), the exception would propagate
out of the scheduler method: the operation is rejected as a whole.  `calls_accepted_sync` proves
this branch unreachable. -/
def stepCS (y : SysS) (op : Op) : SysS :=
  match y.sched.step op with
  | .error _ => y
  | .ok (s', o) =>
    match applyActs y.st (o.calls.map trCall) with
    | .ok st' => { sched := s', st := st', last := ghostNext y.sched y.last op o }
    | .error _ => y

def runCS (y : SysS) (ops : List Op) : SysS := ops.foldl stepCS y

/-! ### levels of the rungs, from the rung systems -/

/-- `(size, level)` of rung `k` of bracket `id`: `bracket_rungs[id mod num_offsets][k]` -/
def specAt (sys : List (List (Nat × Nat))) (id k : Nat) : Option (Nat × Nat) :=
  (sys[id % sys.length]?).bind (·[k]?)

/-- level of rung `k` of bracket `id` -/
def lvl (sys : List (List (Nat × Nat))) (id k : Nat) : Nat :=
  match specAt sys id k with
  | some a => a.2
  | none => 0

/-- `level_to_prev_level(bracket_id, level of rung k)`: level of rung `k - 1`, 0 for the base rung -/
def prevLvl (sys : List (List (Nat × Nat))) (id : Nat) : Nat → Nat
  | 0 => 0
  | k + 1 => lvl sys id k

/-! ### contract of the operation stream -/

/-- clause for `on_trial_result` of a trial which is registered for a slot: the level is above
the last one reported in this run and not above the slot's milestone -/
def ResultOK (o : Option (Nat × SlotInRung)) (last r : Nat) : Prop :=
  match o with
  | some (_, sl) => last < r ∧ r ≤ sl.level
  | none => True

instance (o : Option (Nat × SlotInRung)) (last r : Nat) : Decidable (ResultOK o last r) :=
  match o with
  | some (_, sl) => inferInstanceAs (Decidable (last < r ∧ r ≤ sl.level))
  | none => isTrue trivial

/-- clause for `on_trial_complete`: the result has been dealt with before — a finite one is in
the data, for a NaN one no evaluation is pending at its level -/
def CompleteOK (st : SState) (t r : Nat) : Metric → Prop
  | .val x => obsAt st t r = some (st.crit x)
  | .nan => (t, r) ∉ st.pending

instance (st : SState) (t r : Nat) (v : Metric) : Decidable (CompleteOK st t r v) :=
  match v with
  | .val x => inferInstanceAs (Decidable (obsAt st t r = some (st.crit x)))
  | .nan => inferInstanceAs (Decidable ((t, r) ∉ st.pending))

/-- What the caller of the scheduler (the `Tuner` loop and the training scripts) guarantees for
one operation; nothing is asked of `error`, `remove`, `takeRemovable`.

* `suggest tid _`: the trial id offered for a new trial is new (the `Tuner` counts them up) —
  `LegalOp` of `Lemmas/SyncRun.lean`.
* `result t r v`: if `t` is running (registered in `_trial_to_pending_slot`) `r` is above the level
  of the last result of this run — a training script reports increasing resource levels, a
  resumed one starts again from 1 (no checkpoint) or from where it was — and not above the
  milestone of its slot ("Training script must not skip rung levels": the script is stopped at
  the milestone, or runs up to `max_resource_attr`).  The metric value is unconstrained (NaN
  allowed).  Results of trials which are not running are unconstrained (answer STOP, nothing
  recorded).
* `complete t r v`: the result handed to `on_trial_complete` is one the searcher has already
  received with `update=True` (a finite one is in the data; for a NaN one nothing is pending at
  its level) — the `Tuner` passes the last result of the trial, "for which `on_trial_result` was
  called before", and calls `on_trial_complete` only for a trial whose last result was not
  answered PAUSE/STOP; a trial of this scheduler runs until it is paused at its milestone, so
  within the contract the call does not occur at all or repeats a report already dealt with. -/
def OpOKS (y : SysS) : Op → Prop
  | .suggest tid _ => tid ∉ y.sched.configs
  | .result t r _ => ResultOK (alookup t y.sched.pending) (y.lastOf t) r
  | .complete t r v => CompleteOK y.st t r v
  | _ => True

instance (y : SysS) (op : Op) : Decidable (OpOKS y op) :=
  match op with
  | .suggest tid _ => inferInstanceAs (Decidable (tid ∉ y.sched.configs))
  | .result t r _ => inferInstanceAs (Decidable (ResultOK (alookup t y.sched.pending) (y.lastOf t) r))
  | .complete t r v => inferInstanceAs (Decidable (CompleteOK y.st t r v))
  | .error _ => isTrue trivial
  | .remove _ => isTrue trivial
  | .takeRemovable => isTrue trivial

/-- the contract evaluated along a run -/
def OpsOKS : SysS → List Op → Prop
  | _, [] => True
  | y, op :: ops => OpOKS y op ∧ OpsOKS (stepCS y op) ops

instance instDecidableOpsOKS : (y : SysS) → (ops : List Op) → Decidable (OpsOKS y ops)
  | _, [] => isTrue trivial
  | y, op :: ops =>
    have := instDecidableOpsOKS (stepCS y op) ops
    (inferInstance : Decidable (OpOKS y op ∧ OpsOKS (stepCS y op) ops))

/-! ### the invariant -/

/-- level of rung `k` of bracket `id` of the scheduler -/
abbrev _root_.SyneTune.Sync.Sched.lvl (s : Sched) (id k : Nat) : Nat :=
  SyneTune.Sync.C14S.lvl s.mgr.bracketRungs id k

/-- level of the rung below rung `k` of bracket `id` (`level_to_prev_level`) -/
abbrev _root_.SyneTune.Sync.Sched.prevLvl (s : Sched) (id k : Nat) : Nat :=
  SyneTune.Sync.C14S.prevLvl s.mgr.bracketRungs id k

/-- a pending evaluation belongs to a trial registered for a slot (running), at the milestone
of that slot, and the trial was STARTED for this slot: the slot of the bracket holds no trial
id yet (`(None, None)`) — a resumed trial sits in its slot as `(trial_id, None)` -/
def PendOK (y : SysS) : Prop :=
  ∀ p ∈ y.st.pending, ∃ id sl, alookup p.1 y.sched.pending = some (id, sl) ∧ p.2 = sl.level ∧
    y.sched.mgr.SlotAt id sl.rungIndex sl.slotIndex ⟨none, none⟩

/-- every running trial which was started for its slot has its milestone pending -/
def PendConv (y : SysS) : Prop :=
  ∀ t id sl, alookup t y.sched.pending = some (id, sl) →
    y.sched.mgr.SlotAt id sl.rungIndex sl.slotIndex ⟨none, none⟩ → (t, sl.level) ∈ y.st.pending

/-- a running trial has not yet reported its milestone -/
def LastOK (y : SysS) : Prop :=
  ∀ t id sl, alookup t y.sched.pending = some (id, sl) → y.lastOf t < sl.level

/-- where an observation comes from: either from a finished run of the trial — slot `p` of rung
`k` of bracket `id` holds `(t, m)` —, at a level in the window `(prev_level, level]` of that rung,
at the rung level itself only with a finite metric value `m` (the stored value is its
criterion), and with `searcher_data = "rungs"` only at the rung level; or from the current run
of a running trial, `searcher_data = "all"`, at a level of the window it has reported -/
def ObsOK (y : SysS) : Prop :=
  ∀ t r, y.st.isLabeled t r = true →
    (∃ id k p m, y.sched.mgr.SlotAt id k p ⟨some t, some m⟩ ∧
        y.sched.prevLvl id k < r ∧ r ≤ y.sched.lvl id k ∧
        (r = y.sched.lvl id k → ∃ x, m = .val x ∧ obsAt y.st t r = some (y.st.crit x)) ∧
        (y.sched.searcherAll = false → r = y.sched.lvl id k)) ∨
    (∃ id sl, alookup t y.sched.pending = some (id, sl) ∧
        y.sched.prevLvl id sl.rungIndex < r ∧ r ≤ y.lastOf t ∧ y.sched.searcherAll = true)

/-- every finite rung entry is in the data, with its value -/
def FinOK (y : SysS) : Prop :=
  ∀ t id k p x, y.sched.mgr.SlotAt id k p ⟨some t, some (.val x)⟩ →
    obsAt y.st t (y.sched.lvl id k) = some (y.st.crit x)

/-- **The invariant of the composed system.** -/
structure CInvS (y : SysS) : Prop where
  inv : Inv y.sched
  pnd : y.st.pending.Nodup
  owf : ObsWF y.st
  pend : PendOK y
  conv : PendConv y
  lastOk : LastOK y
  obs : ObsOK y
  fin : FinOK y

end SyneTune.Sync.C14S
