import SyneTune.Lemmas.HBContractK3
/- `KInv` under `suggest` and `on_trial_result`; contract K. -/
namespace SyneTune
open SyneTune.C13Hb

/-- **Contract K for ASHA / PASHA, one step.**  On a state satisfying `KInv`, whenever
`_suggest` answers, the invariant is preserved; and if the answer is `resume(t, …)` then the
scheduler recorded `t` as not running before the call (decision PAUSE or STOP) — in
particular the assertions "Paused trial must be in _active_trials" / "Paused trial marked
as running" of `_promote_trial` are unreachable. -/
theorem suggest_KInv (s s' : Sched) (newTid bracket : Nat) (hint : Option Nat) (sg : Suggestion)
    (calls : List SCall) (fr : Bool) (hinv : KInv s)
    (h : s.suggest newTid bracket hint = .ok (s', sg, calls, fr)) :
    KInv s' ∧ (∀ t f m, sg = .resume t f m → NotRunning s t) ∧
    (∀ t b m, sg = .start t b m → t = newTid ∧ alookup newTid s.active = none) := by
  unfold Sched.suggest at h
  cases hts : s.mgr.taskSchedule bracket hint with
  | error e => simp [hts] at h
  | ok res =>
    obtain ⟨g, so, ms, fr0⟩ := res
    simp only [hts] at h
    obtain ⟨t1, t2, t3, t4⟩ := taskSchedule_plain s.mgr g bracket hint so ms fr0 hinv.pr hts
    cases so with
    | none =>
      simp only at h t4
      unfold Sched.suggestStart at h
      by_cases hex : (alookup newTid s.active).isSome = true
      · simp [hex] at h
      · simp only [hex, Bool.false_eq_true, if_false] at h
        have hnone : alookup newTid s.active = none := by
          cases hl : alookup newTid s.active with
          | none => rfl
          | some x => simp [hl] at hex
        cases hta : g.taskAdd newTid bracket none with
        | error e => simp [hta] at h
        | ok r2 =>
          obtain ⟨g2, first⟩ := r2
          simp only [hta] at h
          injection h with h
          simp only [Prod.mk.injEq] at h
          obtain ⟨h1, h2, _, _⟩ := h
          subst h1
          obtain ⟨a1, a2, a3⟩ := taskAdd_fields g g2 newTid bracket none first hta
          refine ⟨⟨by simp only [a1, t1]; exact hinv.pr, ?_, by simp only [a2, t4]; exact hinv.nodup,
            a3 (t3 hinv.runok)⟩, ?_, ?_⟩
          · intro t ht
            simp only [a2, t4] at ht
            obtain ⟨rec, hr, hd⟩ := hinv.paused t ht
            have hne : t ≠ newTid := by intro he; subst he; rw [hnone] at hr; cases hr
            exact ⟨rec, by simp only; rw [alookup_aset_ne _ _ _ _ hne]; exact hr, hd⟩
          · intro t f m hsg; rw [← h2] at hsg; cases hsg
          · intro t b m hsg; rw [← h2] at hsg; injection hsg with e1 _ _; exact ⟨e1.symm, hnone⟩
    | some o =>
      simp only at h t4
      unfold Sched.suggestResume at h
      cases hta : g.taskAdd o.trial bracket (some (o.milestone, o.resumeFrom)) with
      | error e => simp [hta] at h
      | ok r2 =>
        obtain ⟨g2, first⟩ := r2
        simp only [hta] at h
        have hmem : o.trial ∈ unpromotedSys s.mgr.systems := t4.mem_iff.mpr (by simp)
        obtain ⟨rec, hr, hd⟩ := hinv.paused o.trial hmem
        simp only [hr, hd, if_false] at h
        injection h with h
        simp only [Prod.mk.injEq] at h
        obtain ⟨h1, h2, _, _⟩ := h
        subst h1
        obtain ⟨a1, a2, a3⟩ := taskAdd_fields g g2 o.trial bracket _ first hta
        have hnd : (o.trial :: unpromotedSys g.systems).Nodup := (t4.nodup_iff).mp hinv.nodup
        rw [List.nodup_cons] at hnd
        refine ⟨⟨by simp only [a1, t1]; exact hinv.pr, ?_, by simp only [a2]; exact hnd.2,
          a3 (t3 hinv.runok)⟩, ?_, ?_⟩
        · intro t ht
          simp only [a2] at ht
          have hne : t ≠ o.trial := by intro he; subst he; exact hnd.1 ht
          obtain ⟨rec2, hr2, hd2⟩ := hinv.paused t (t4.mem_iff.mpr (List.mem_cons_of_mem _ ht))
          exact ⟨rec2, by simp only; rw [alookup_aset_ne _ _ _ _ hne]; exact hr2, hd2⟩
        · intro t f m hsg; rw [← h2] at hsg; injection hsg with e1 _ _; subst e1
          exact ⟨rec, hr, hd⟩
        · intro t b m hsg; rw [← h2] at hsg; cases hsg

end SyneTune
