import SyneTune.Lemmas.SyncSched
/- Reporting a result (or a failure) for a handed-out slot re-establishes the invariant. -/
namespace SyneTune.Sync
open SyneTune

theorem legal_slot_hasId {br res rg x} (hl : LegalRes br res rg x) (t : Nat) (h : x.tid = some t) :
    br.HasId t :=
  ⟨rg, List.mem_of_getElem? hl.hrg, List.mem_filterMap.mpr ⟨x, List.mem_of_getElem? hl.hsl, h⟩⟩

/-- where the brackets of the manager after `on_result` come from -/
theorem brackets_after {g g' : Manager} {id : Nat} {br br' : Bracket} (hbr : g.brackets[id]? = some br)
    (hr : MgrRes g id br' g') (j : Nat) (b : Bracket) (hb : g'.brackets[j]? = some b) :
    (j = id ∧ b = br') ∨ (j ≠ id ∧ g.brackets[j]? = some b) ∨
      ((∀ t, ¬ b.HasId t) ∧ b.firstFree = 0 ∧ b.current = 0 ∧ b.isComplete = false ∧ g.brackets.length ≤ j) := by
  obtain ⟨extra, hbrs, hex⟩ := hr.brs
  have hidlt := getElem?_lt hbr
  rw [hbrs] at hb
  by_cases hj : j < g.brackets.length
  · rw [List.getElem?_append_left (by simpa using hj)] at hb
    by_cases hji : j = id
    · subst hji
      rw [List.getElem?_set_self hidlt] at hb
      exact Or.inl ⟨rfl, (Option.some.inj hb).symm⟩
    · rw [List.getElem?_set_ne (Ne.symm hji)] at hb
      exact Or.inr (Or.inl ⟨hji, hb⟩)
  · rw [List.getElem?_append_right (by simpa using Nat.le_of_not_lt hj)] at hb
    have := hex b (List.mem_of_getElem? hb)
    exact Or.inr (Or.inr ⟨this.1, this.2.1, this.2.2.1, this.2.2.2, Nat.le_of_not_lt hj⟩)

theorem brackets_after_old {g g' : Manager} {id : Nat} {br br' : Bracket} (hbr : g.brackets[id]? = some br)
    (hr : MgrRes g id br' g') :
    g'.brackets[id]? = some br' ∧ ∀ j b, j ≠ id → g.brackets[j]? = some b → g'.brackets[j]? = some b := by
  obtain ⟨extra, hbrs, _⟩ := hr.brs
  have hidlt := getElem?_lt hbr
  constructor
  · rw [hbrs, List.getElem?_append_left (by simpa using hidlt), List.getElem?_set_self hidlt]
  · intro j b hj hb
    have hjlt := getElem?_lt hb
    rw [hbrs, List.getElem?_append_left (by simpa using hjlt), List.getElem?_set_ne (Ne.symm hj)]
    exact hb

theorem hasId_after {g g' : Manager} {id : Nat} {spec br br' res rg x np} (hbr : g.brackets[id]? = some br)
    (hb : BWF spec br) (hl : LegalRes br res rg x) (hc : ResultCase br res rg br' np)
    (hr : MgrRes g id br' g') (t : Nat) : g'.HasId t ↔ g.HasId t ∨ res.tid = some t := by
  have hid := resultCase_hasId hb hl hc t
  have hold := brackets_after_old hbr hr
  constructor
  · rintro ⟨b, hbm, ht⟩
    obtain ⟨j, hj⟩ := List.mem_iff_getElem?.mp hbm
    rcases brackets_after hbr hr j b hj with ⟨_, rfl⟩ | ⟨_, h2⟩ | ⟨h3, _⟩
    · rcases hid.mp ht with h | h
      · exact Or.inl ⟨br, List.mem_of_getElem? hbr, h⟩
      · exact Or.inr h
    · exact Or.inl ⟨b, List.mem_of_getElem? h2, ht⟩
    · exact absurd ht (h3 t)
  · rintro (⟨b, hbm, ht⟩ | h)
    · obtain ⟨j, hj⟩ := List.mem_iff_getElem?.mp hbm
      by_cases hji : j = id
      · subst hji
        rw [hbr] at hj
        have : b = br := (Option.some.inj hj).symm
        subst this
        exact ⟨br', List.mem_of_getElem? hold.1, hid.mpr (Or.inl ht)⟩
      · exact ⟨b, List.mem_of_getElem? (hold.2 j b hji hj), ht⟩
    · exact ⟨br', List.mem_of_getElem? hold.1, hid.mpr (Or.inr h)⟩

/-- another unoccupied, handed-out slot in the same rung keeps the rung open -/
theorem stay_of_other_pending {spec br res rg x br' np} (hb : BWF spec br) (hl : LegalRes br res rg x)
    (hc : ResultCase br res rg br' np) (q : Nat) (y : Slot) (hq : rg.slots[q]? = some y)
    (hne : q ≠ res.slotIndex) (hy : y.metric = none) : br' = br.written rg res := by
  have hnd : ¬ RungDone (rg.write res) br.firstFree := by
    intro hd
    have hall := (rungDone_iff hb hl).mp hd
    have hget : (rg.write res).slots[q]? = some y := by
      simp only [Rung.write, List.getElem?_set_ne (Ne.symm hne)]; exact hq
    have := hall y (List.mem_of_getElem? hget)
    rw [hy] at this; cases this
  cases hc with
  | stay h => rfl
  | last h _ => exact absurd h hnd
  | promote h _ _ _ _ _ _ => exact absurd h hnd

/-- **Central lemma.**  The slot `p` of bracket `id` is handed out and not registered in `P`
(`exc = some (id, p)`); reporting a legal result for it does not raise and re-establishes
the full invariant. -/
theorem report_core {g : Manager} {P : List (Nat × (Nat × SlotInRung))} {C : List Nat} {id p : Nat}
    (hI : InvExc g P C (some (id, p))) (br : Bracket) (res : SlotInRung) (rg : Rung) (x : Slot)
    (hbr : g.brackets[id]? = some br) (hl : LegalRes br res rg x) (hp : res.slotIndex = p)
    (hfreshG : x.tid = none → ∀ t, res.tid = some t → ¬ g.HasId t)
    (hnotPend : ∀ t, res.tid = some t → alookup t P = none)
    (hC : ∀ t, res.tid = some t → t ∈ C) :
    ∃ g' np br', g.onResult id res = .ok (g', np) ∧ ResultCase br res rg br' np ∧ BrOK g id br' ∧
      MgrRes g id br' g' ∧ InvExc g' P C none := by
  obtain ⟨g', np, br', hres, hcase, hok', hmwf', hmr⟩ := mgr_onResult_spec hI.mwf id br res rg x hbr hl
  obtain ⟨spec, hspec, hb, hmode⟩ := hI.mwf.wf id br hbr
  refine ⟨g', np, br', hres, hcase, hok', hmr, ?_⟩
  have hold := brackets_after_old hbr hmr
  have hafter := brackets_after hbr hmr
  have hids := hasId_after hbr hb hl hcase hmr
  refine ⟨hmwf', ?_, hI.keys, hI.distinct, ?_, ?_, hI.pkeys, ?_⟩
  · -- pending entries
    intro t' id' sl' hlook
    obtain ⟨b', rg', x', hb', hps, hexc⟩ := hI.pend t' id' sl' hlook
    have hnores : res.tid ≠ some t' := by
      intro h; rw [hnotPend t' h] at hlook; cases hlook
    have hfresh' : x'.tid = none → ¬ g'.HasId t' := by
      intro hx hc
      rcases (hids t').mp hc with h | h
      · exact hps.fresh hx h
      · exact hnores h
    by_cases hid' : id' = id
    · subst hid'
      rw [hbr] at hb'
      have hbb : b' = br := (Option.some.inj hb').symm
      subst hbb
      have hrr : rg' = rg := by
        have := hps.hrg; rw [hl.hrg] at this; exact (Option.some.inj this).symm
      subst hrr
      have hqne : sl'.slotIndex ≠ res.slotIndex := by
        intro h; apply hexc; rw [hp] at h; rw [h]
      have hst := stay_of_other_pending hb hl hcase sl'.slotIndex x' hps.hsl hqne hps.empty
      subst hst
      refine ⟨b'.written rg' res, rg'.write res, x', hold.1, ?_, by simp⟩
      refine ⟨written_cur hl, hps.ri, hps.lt, hps.lvl, ?_, hps.tid, hps.stid, hps.empty, hfresh'⟩
      simp only [Rung.write, List.getElem?_set_ne (Ne.symm hqne)]; exact hps.hsl
    · refine ⟨b', rg', x', hold.2 id' b' hid' hb', ?_, by simp⟩
      exact ⟨hps.hrg, hps.ri, hps.lt, hps.lvl, hps.hsl, hps.tid, hps.stid, hps.empty, hfresh'⟩
  · -- every pending slot is owed by a trial
    intro j b rgj q xq hbj hrgj hxq hqlt hxm _
    rcases hafter j b hbj with ⟨rfl, rfl⟩ | ⟨hji, hbold⟩ | ⟨_, hff, _⟩
    · cases hcase with
      | stay h =>
        have hr : rgj = rg.write res := by
          have h1 : (br.written rg res).rungs[br.current]? = some rgj := hrgj
          rw [written_cur hl] at h1; exact (Option.some.inj h1).symm
        subst hr
        have hqne : q ≠ res.slotIndex := by
          intro h; subst h
          have hlt : res.slotIndex < rg.slots.length := getElem?_lt hl.hsl
          simp only [Rung.write, List.getElem?_set_self hlt, Option.some.injEq] at hxq
          subst hxq
          have := hl.hm
          simp only at hxm
          rw [hxm] at this; cases this
        simp only [Rung.write, List.getElem?_set_ne (Ne.symm hqne)] at hxq
        exact hI.owed j br rg q xq hbr hl.hrg hxq hqlt hxm (by
          intro h; simp only [Option.some.injEq, Prod.mk.injEq] at h; exact hqne (h.2.symm.trans hp.symm))
      | last h _ => exact absurd hqlt (Nat.not_lt_zero _)
      | promote h _ _ _ _ _ _ => exact absurd hqlt (Nat.not_lt_zero _)
    · exact hI.owed j b rgj q xq hbold hrgj hxq hqlt hxm (by
        intro h; simp only [Option.some.injEq, Prod.mk.injEq] at h; exact hji h.1.symm)
    · rw [hff] at hqlt; exact absurd hqlt (Nat.not_lt_zero _)
  · -- ids are known configurations
    intro t ht
    rcases (hids t).mp ht with h | h
    · exact hI.ids t h
    · exact hC t h
  · -- trial ids of different brackets are disjoint
    have key : ∀ (j : Nat) (bj : Bracket) (t : Nat), j ≠ id → g.brackets[j]? = some bj → bj.HasId t →
        br'.HasId t → False := by
      intro j bj t hj hbj htj htb
      rcases (resultCase_hasId hb hl hcase t).mp htb with h | h
      · exact hj (hI.disjoint j id bj br t hbj hbr htj h)
      · rcases hl.tid with hx | hx
        · exact hfreshG hx t h ⟨bj, List.mem_of_getElem? hbj, htj⟩
        · rw [← hx] at h
          exact hj (hI.disjoint j id bj br t hbj hbr htj (legal_slot_hasId hl t h))
    intro i j bi bj t hbi hbj hti htj
    rcases hafter i bi hbi with ⟨rfl, rfl⟩ | ⟨hii, hbiold⟩ | ⟨hno, _⟩
    · rcases hafter j bj hbj with ⟨rfl, _⟩ | ⟨hji, hbjold⟩ | ⟨hno, _⟩
      · rfl
      · exact absurd hti (fun h => key j bj t hji hbjold htj h)
      · exact absurd htj (hno t)
    · rcases hafter j bj hbj with ⟨rfl, rfl⟩ | ⟨hji, hbjold⟩ | ⟨hno, _⟩
      · exact absurd htj (fun h => key i bi t hii hbiold hti h)
      · exact hI.disjoint i j bi bj t hbiold hbjold hti htj
      · exact absurd htj (hno t)
    · exact absurd hti (hno t)

end SyneTune.Sync
