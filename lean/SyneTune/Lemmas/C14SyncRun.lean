import SyneTune.Lemmas.C14SyncStep
/- C14 synchronous composition: the constructed system, the scheduler component of a run is
the run of the scheduler alone, where observations come from, which reports are present. -/
namespace SyneTune.Sync.C14S
open SyneTune.C14 SyneTune.C14Comp

/-! ### the constructed system -/

theorem init_fields {mode : Mode} {systems : List (List (Nat × Nat))} {a b : Bool} {s : Sched}
    (h : Sched.init mode systems a b = .ok s) : s.pending = [] ∧ s.configs = [] ∧ s.searcherAll = b := by
  unfold Sched.init at h
  split at h
  · cases h
  · injection h with h; subst h; exact ⟨rfl, rfl, rfl⟩

theorem init_cinvS (mode : Mode) (systems : List (List (Nat × Nat))) (a b : Bool) (s : Sched)
    (h : Sched.init mode systems a b = .ok s) (m : Mode) :
    CInvS { sched := s, st := { mode := m }, last := [] } := by
  obtain ⟨hI, _, _⟩ := init_inv mode systems a b s h
  obtain ⟨hp, hc, _⟩ := init_fields h
  refine ⟨hI, List.nodup_nil, ⟨by simp [KeysNodup], by simp⟩, ?_, ?_, ?_, ?_, ?_⟩
  · intro p hp'; cases hp'
  · intro t id sl hl
    change alookup t s.pending = _ at hl
    rw [hp] at hl; cases hl
  · intro t id sl hl
    change alookup t s.pending = _ at hl
    rw [hp] at hl; cases hl
  · intro t r hl
    simp [SState.isLabeled, alookup] at hl
  · intro t id k p x hs
    have := hI.ids t (slotAt_hasId hs rfl)
    change t ∈ s.configs at this
    rw [hc] at this; cases this

/-! ### the scheduler component -/

theorem legal_of_ok {y : SysS} {op : Op} (hok : OpOKS y op) : LegalOp y.sched op := by
  cases op <;> first | exact hok | trivial

theorem stepCS_sched_next {y : SysS} {op : Op} (ha : Accepted y op) : (stepCS y op).sched = y.sched.next op := by
  obtain ⟨s', o, st', h1, h2⟩ := ha
  rw [stepCS_ok h1 h2]
  simp only [Sched.next, h1]

/-- along a run within the contract the scheduler component is the scheduler run on its own
(`Sched.run`), and the run is legal in the sense of `Lemmas/SyncRun.lean`: all theorems about
`Reachable` states (C05, C13, C20) apply to it -/
theorem sched_run_eq {y : SysS} (h : CInvS y) (ops : List Op) (hok : OpsOKS y ops) :
    (runCS y ops).sched = y.sched.run ops ∧ LegalRun y.sched ops := by
  induction ops generalizing y with
  | nil => exact ⟨rfl, trivial⟩
  | cons op ops ih =>
    have hn := stepCS_sched_next (accepted_step h op hok.1)
    obtain ⟨i1, i2⟩ := ih (cinvS_step' h op hok.1) hok.2
    rw [hn] at i1 i2
    exact ⟨i1, legal_of_ok hok.1, i2⟩

theorem step_consts {y : SysS} (h : CInvS y) (op : Op) (hok : OpOKS y op) :
    (stepCS y op).sched.mgr.bracketRungs = y.sched.mgr.bracketRungs ∧
    (stepCS y op).sched.searcherAll = y.sched.searcherAll := by
  have ha := accepted_step h op hok
  have hn := stepCS_sched_next ha
  refine ⟨?_, ?_⟩
  · rw [hn]; exact (step_spec h.inv op (legal_of_ok hok)).2.1.1
  · cases op with
    | suggest tid c =>
      obtain ⟨s', o, st', h1, h2⟩ := ha
      rw [stepCS_ok h1 h2]
      simp only [Sched.step] at h1
      split at h1
      · cases h1
      · rename_i s2 sg calls hs
        injection h1 with h1
        simp only [Prod.mk.injEq] at h1
        obtain ⟨rfl, _⟩ := h1
        exact (suggest_out hs).1
    | result t r v =>
      rcases (stepCS_result_shape h t r v hok).2 with ⟨_, _, he⟩ | ⟨_, _, _, _, _, _, _, he⟩ |
          ⟨_, _, _, _, _, _, _, _, _, _, he⟩ | ⟨_, _, _, _, _, _, _, _, _, _, hsa, _, _, _, he⟩ |
          ⟨_, _, _, _, _, _, _, _, _, hsa, _, _, _, he⟩
      · rw [he]
      · obtain ⟨_, _, _, _, he⟩ := he; rw [he]
      · rw [he]
      · rw [he]; exact hsa
      · obtain ⟨_, _, _, _, he⟩ := he; rw [he]; exact hsa
    | error t =>
      obtain ⟨_, st', _, _, _, hc⟩ := stepCS_error_shape h t
      rcases hc with ⟨_, he⟩ | ⟨_, _, _, _, _, _, hsa, _, _, _, he⟩
      · rw [he]
      · rw [he]; exact hsa
    | complete t r v => obtain ⟨_, _, _, _, _, he⟩ := stepCS_complete h t r v hok; rw [he]
    | remove t => rfl
    | takeRemovable => rfl

theorem run_consts {y : SysS} (h : CInvS y) (ops : List Op) (hok : OpsOKS y ops) :
    (runCS y ops).sched.mgr.bracketRungs = y.sched.mgr.bracketRungs ∧
    (runCS y ops).sched.searcherAll = y.sched.searcherAll := by
  induction ops generalizing y with
  | nil => exact ⟨rfl, rfl⟩
  | cons op ops ih =>
    obtain ⟨a1, a2⟩ := step_consts h op hok.1
    obtain ⟨b1, b2⟩ := ih (cinvS_step' h op hok.1) hok.2
    exact ⟨b1.trans a1, b2.trans a2⟩

/-! ### where observations come from -/

/-- `(trial, level, metric value)` reported by `on_trial_result` -/
def opReportsS : Op → List (Nat × Nat × Metric)
  | .result t r v => [(t, r, v)]
  | _ => []

theorem step_obs_source {y : SysS} (h : CInvS y) (op : Op) (hok : OpOKS y op) (t r : Nat) (c : Rat)
    (hc : obsAt (stepCS y op).st t r = some c) :
    obsAt y.st t r = some c ∨ ∃ x, op = .result t r (.val x) ∧ c = y.st.crit x := by
  have key : ∀ (t0 r0 : Nat) (x : Rat), obsAt (y.st.label t0 r0 (y.st.crit x)) t r = some c →
      obsAt y.st t r = some c ∨ (t = t0 ∧ r = r0 ∧ c = y.st.crit x) := by
    intro t0 r0 x hc
    rw [obsAt_label] at hc
    by_cases he : t = t0 ∧ r = r0
    · simp only [he, and_self, if_true, Option.some.injEq] at hc
      exact Or.inr ⟨he.1, he.2, hc.symm⟩
    · simp only [he, if_false] at hc; exact Or.inl hc
  cases op with
  | suggest tid cc =>
    obtain ⟨_, _, ho, _, _⟩ := stepCS_suggest_shape h tid cc hok
    rw [obsAt_congr ho] at hc; exact Or.inl hc
  | result t0 r0 v =>
    rcases (stepCS_result_shape h t0 r0 v hok).2 with ⟨_, _, he⟩ | ⟨_, _, _, _, _, _, _, he⟩ |
        ⟨_, _, x, _, _, _, _, _, hv, _, he⟩ | ⟨_, sl, _, x, _, hr, hv, _, _, _, _, _, _, _, he⟩ |
        ⟨_, _, _, _, _, _, _, _, _, _, _, _, _, he⟩
    · rw [he] at hc; exact Or.inl hc
    · obtain ⟨st2, _, e2, _, he⟩ := he
      rw [he] at hc
      change obsAt st2 t r = some c at hc
      rw [obsAt_congr e2] at hc; exact Or.inl hc
    · rw [he] at hc
      subst hv
      rcases key t0 r0 x hc with h1 | ⟨rfl, rfl, h3⟩
      · exact Or.inl h1
      · exact Or.inr ⟨x, rfl, h3⟩
    · rw [he] at hc
      subst hv; subst hr
      rcases key t0 sl.level x hc with h1 | ⟨rfl, rfl, h3⟩
      · exact Or.inl h1
      · exact Or.inr ⟨x, rfl, h3⟩
    · obtain ⟨st2, _, e2, _, he⟩ := he
      rw [he] at hc
      change obsAt st2 t r = some c at hc
      rw [obsAt_congr e2] at hc; exact Or.inl hc
  | error t0 =>
    obtain ⟨_, st', _, hobs, _, hcs⟩ := stepCS_error_shape h t0
    rcases hcs with ⟨_, he⟩ | ⟨_, _, _, _, _, _, _, _, _, _, he⟩
    · rw [he] at hc
      change obsAt st' t r = some c at hc
      rw [obsAt_congr hobs] at hc; exact Or.inl hc
    · rw [he] at hc
      change obsAt st' t r = some c at hc
      rw [obsAt_congr hobs] at hc; exact Or.inl hc
  | complete t0 r0 v =>
    obtain ⟨st2, _, e2, _, _, he⟩ := stepCS_complete h t0 r0 v hok
    rw [he] at hc
    change obsAt st2 t r = some c at hc
    rw [obsAt_congr e2] at hc; exact Or.inl hc
  | remove t0 => exact Or.inl hc
  | takeRemovable => exact Or.inl hc

theorem run_obs_source {y : SysS} (h : CInvS y) (ops : List Op) (hok : OpsOKS y ops) (t r : Nat) (c : Rat)
    (hc : obsAt (runCS y ops).st t r = some c) :
    obsAt y.st t r = some c ∨ ∃ x, (t, r, Metric.val x) ∈ ops.flatMap opReportsS ∧ c = y.st.crit x := by
  induction ops generalizing y with
  | nil => exact Or.inl hc
  | cons op ops ih =>
    rcases ih (cinvS_step' h op hok.1) hok.2 hc with h1 | ⟨x, hx, hcx⟩
    · rcases step_obs_source h op hok.1 t r c h1 with h2 | ⟨x, rfl, hcx⟩
      · exact Or.inl h2
      · exact Or.inr ⟨x, by simp [opReportsS], hcx⟩
    · refine Or.inr ⟨x, ?_, ?_⟩
      · simp only [List.flatMap_cons, List.mem_append]; exact Or.inr hx
      · rw [hcx, crit_of_mode (step_stable h op hok.1).1]

/-! ### a report the policy selects is in the data -/

theorem result_present {y : SysS} (h : CInvS y) {t r : Nat} {x : Rat} (hok : OpOKS y (.result t r (.val x)))
    {id : Nat} {sl : SlotInRung} (hlook : alookup t y.sched.pending = some (id, sl))
    (hprev : y.sched.prevLvl id sl.rungIndex < r) (hsel : y.sched.searcherAll = true ∨ r = sl.level) :
    obsAt (stepCS y (.result t r (.val x))).st t r = some (y.st.crit x) := by
  rcases (stepCS_result_shape h t r (.val x) hok).2 with ⟨hn, _⟩ | ⟨id', sl', hl', _, hr, hno, _, _⟩ |
      ⟨_, _, x', _, _, _, _, _, hv, _, he⟩ | ⟨_, sl', _, x', hl', hr, hv, _, _, _, _, _, _, _, he⟩ |
      ⟨_, _, _, _, _, hv, _⟩
  · rw [hn] at hlook; cases hlook
  · exfalso
    rw [hlook] at hl'
    simp only [Option.some.injEq, Prod.mk.injEq] at hl'
    obtain ⟨rfl, rfl⟩ := hl'
    rcases hsel with hs | hs
    · exact hno ⟨hprev, hs, rfl⟩
    · omega
  · rw [he]
    simp only [Metric.val.injEq] at hv
    subst hv
    change obsAt (y.st.label t r (y.st.crit x)) t r = _
    rw [obsAt_label]; simp
  · rw [he]
    simp only [Metric.val.injEq] at hv
    subst hv; subst hr
    change obsAt (y.st.label t sl'.level (y.st.crit x)) t sl'.level = _
    rw [obsAt_label]; simp
  · cases hv

/-! ### no pending evaluation survives the end of a run -/

theorem error_no_pending {y : SysS} (h : CInvS y) (t : Nat) : ∀ p ∈ (stepCS y (.error t)).st.pending, p.1 ≠ t := by
  obtain ⟨_, st', hpend, _, _, hc⟩ := stepCS_error_shape h t
  have hst : (stepCS y (.error t)).st = st' := by
    rcases hc with ⟨_, he⟩ | ⟨_, _, _, _, _, _, _, _, _, _, he⟩ <;> rw [he]
  rw [hst, hpend]
  intro p hp
  simp only [List.mem_filter, bne_iff_ne, ne_eq] at hp
  exact hp.2

theorem result_end_no_pending {y : SysS} (h : CInvS y) (t r : Nat) (v : Metric) (hok : OpOKS y (.result t r v))
    {s' : Sched} {d : Decision} {calls : List SCall} (hres : y.sched.onResult t r v = .ok (s', d, calls))
    (hd : d ≠ .continue) : ∀ p ∈ (stepCS y (.result t r v)).st.pending, p.1 ≠ t := by
  have hinv' := cinvS_result h t r v hok
  rcases (stepCS_result_shape h t r v hok).2 with ⟨hn, _, he⟩ | ⟨_, _, _, _, _, _, ⟨cs, hcs⟩, _⟩ |
      ⟨_, _, _, _, _, _, _, _, _, ⟨cs, hcs⟩, _⟩ | ⟨_, sl, s2, x, hlook, _, _, _, _, hp', _, _, _, _, he⟩ |
      ⟨_, sl, s2, hlook, _, _, _, _, hp', _, _, _, _, he⟩
  · rw [he]; exact no_pending_of_not_running h hn
  · rw [hres] at hcs
    simp only [Except.ok.injEq, Prod.mk.injEq] at hcs
    exact absurd hcs.2.1 hd
  · rw [hres] at hcs
    simp only [Except.ok.injEq, Prod.mk.injEq] at hcs
    exact absurd hcs.2.1 hd
  · apply no_pending_of_not_running hinv'
    rw [he]
    change alookup t s2.pending = none
    rw [hp']; exact alookup_adel_self _ _ h.inv.keys
  · apply no_pending_of_not_running hinv'
    obtain ⟨_, _, _, _, he⟩ := he
    rw [he]
    change alookup t s2.pending = none
    rw [hp']; exact alookup_adel_self _ _ h.inv.keys

end SyneTune.Sync.C14S
