import SyneTune.Model.ReportChannel
/-
Helper lemmas for C18 (report channel): the regex scanner `scan`, line structure,
self-overlap of the marker.  Core Lean only.
-/
namespace SyneTune.Report

/-! ### `uptoLastClose`, `restOfLine` -/

theorem uptoLastClose_append_close (mid : List Char) :
    uptoLastClose (mid ++ ['}']) = some (mid ++ ['}']) := by
  induction mid with
  | nil => simp [uptoLastClose]
  | cons c cs ih => simp [uptoLastClose, ih]

theorem uptoLastClose_length_le {l p : List Char} (h : uptoLastClose l = some p) :
    p.length ≤ l.length := by
  induction l generalizing p with
  | nil => simp [uptoLastClose] at h
  | cons c cs ih =>
    simp only [uptoLastClose] at h
    cases hc : uptoLastClose cs with
    | some q =>
      rw [hc] at h; simp at h; subst h
      have := ih hc; simp; omega
    | none =>
      rw [hc] at h
      by_cases h1 : c = '}'
      · simp [h1] at h; subst h; simp
      · simp [h1] at h

theorem uptoLastClose_pos {l p : List Char} (h : uptoLastClose l = some p) : 0 < p.length := by
  cases l with
  | nil => simp [uptoLastClose] at h
  | cons c cs =>
    simp only [uptoLastClose] at h
    cases hc : uptoLastClose cs with
    | some q => rw [hc] at h; simp at h; subst h; simp
    | none =>
      rw [hc] at h
      by_cases h1 : c = '}'
      · simp [h1] at h; subst h; simp
      · simp [h1] at h

theorem restOfLine_append_nl (y b : List Char) :
    restOfLine (y ++ '\n' :: b) = restOfLine y := by
  induction y with
  | nil => simp [restOfLine]
  | cons c cs ih =>
    unfold restOfLine at *
    by_cases h : c = '\n'
    · simp [h]
    · simp [h, ih]

theorem restOfLine_of_no_nl {y : List Char} (h : '\n' ∉ y) : restOfLine y = y := by
  induction y with
  | nil => simp [restOfLine]
  | cons c cs ih =>
    unfold restOfLine at *
    have hc : c ≠ '\n' := fun e => h (by simp [e])
    have hcs : '\n' ∉ cs := fun e => h (by simp [e])
    simp [hc, ih hcs]

theorem restOfLine_length_le (y : List Char) : (restOfLine y).length ≤ y.length := by
  unfold restOfLine
  exact (List.takeWhile_sublist _).length_le

/-! ### `matchAt` only looks at the current line -/

theorem isPrefixOf_append_nl {pre : List Char} (hnl : '\n' ∉ pre) (x b : List Char) :
    pre.isPrefixOf (x ++ '\n' :: b) = pre.isPrefixOf x := by
  induction pre generalizing x with
  | nil => simp
  | cons p ps ih =>
    have hp : p ≠ '\n' := fun e => hnl (by simp [e])
    have hps : '\n' ∉ ps := fun e => hnl (by simp [e])
    cases x with
    | nil => simp [List.isPrefixOf, hp]
    | cons c cs => simp [List.isPrefixOf, ih hps]

theorem matchAt_append_nl {pre : List Char} (hnl : '\n' ∉ pre) (x b : List Char) :
    matchAt pre (x ++ '\n' :: b) = matchAt pre x := by
  unfold matchAt
  rw [isPrefixOf_append_nl hnl]
  by_cases h : pre.isPrefixOf x = true
  · simp only [h, if_true]
    have hx : pre <+: x := List.isPrefixOf_iff_prefix.mp h
    obtain ⟨y, rfl⟩ := hx
    simp only [List.append_assoc, List.drop_left']
    unfold groupOf
    rw [restOfLine_append_nl]
  · simp [h]

theorem matchAt_len_le {pre s g : List Char} {len : Nat} (h : matchAt pre s = some (g, len)) :
    1 ≤ len ∧ len ≤ s.length := by
  unfold matchAt at h
  by_cases hp : pre.isPrefixOf s = true
  · simp only [hp, if_true] at h
    obtain ⟨y, rfl⟩ := List.isPrefixOf_iff_prefix.mp hp
    simp only [List.drop_left'] at h
    unfold groupOf at h
    cases hu : uptoLastClose (restOfLine y) with
    | none => rw [hu] at h; simp at h
    | some q =>
      rw [hu] at h; simp at h
      have h1 := uptoLastClose_length_le hu
      have h2 := restOfLine_length_le y
      have h3 := uptoLastClose_pos hu
      obtain ⟨_, h⟩ := h
      subst h
      simp; omega
  · simp [hp] at h

theorem matchAt_prefix {pre s g : List Char} {len : Nat} (h : matchAt pre s = some (g, len)) :
    pre <+: s := by
  unfold matchAt at h
  by_cases hp : pre.isPrefixOf s = true
  · exact List.isPrefixOf_iff_prefix.mp hp
  · simp [hp] at h

theorem matchAt_none_of_not_prefix {pre s : List Char} (h : ¬ pre <+: s) : matchAt pre s = none := by
  unfold matchAt
  have : ¬ pre.isPrefixOf s = true := fun e => h (List.isPrefixOf_iff_prefix.mp e)
  simp [this]

/-! ### `scan` and line breaks -/

theorem scan_nl {pre : List Char} (hnl : '\n' ∉ pre) (hne : pre ≠ []) (b : List Char) :
    scan pre 0 ('\n' :: b) = scan pre 0 b := by
  have : matchAt pre ('\n' :: b) = none := by
    apply matchAt_none_of_not_prefix
    intro hp
    cases pre with
    | nil => exact hne rfl
    | cons p ps =>
      have : p = '\n' := by
        obtain ⟨t, ht⟩ := hp
        simp at ht; exact ht.1
      exact hnl (by simp [this])
  simp [scan, this]

/-- **matches never cross a line break**: scanning a text is scanning its part before a
`'\n'` and then, afresh, the part after it. -/
theorem scan_append_nl {pre : List Char} (hnl : '\n' ∉ pre) (hne : pre ≠ []) :
    ∀ (a : List Char) (n : Nat) (b : List Char), n ≤ a.length →
      scan pre n (a ++ '\n' :: b) = scan pre n a ++ scan pre 0 b := by
  intro a
  induction a with
  | nil =>
    intro n b hn
    have : n = 0 := by simpa using hn
    subst this
    simp [scan_nl hnl hne, scan]
  | cons c a ih =>
    intro n b hn
    cases n with
    | succ n =>
      simp only [List.cons_append, scan]
      exact ih n b (by simp at hn; omega)
    | zero =>
      simp only [List.cons_append, scan]
      have hm : matchAt pre (c :: (a ++ '\n' :: b)) = matchAt pre (c :: a) :=
        matchAt_append_nl hnl (c :: a) b
      rw [hm]
      cases h : matchAt pre (c :: a) with
      | none => simp only []; exact ih 0 b (by omega)
      | some gl =>
        obtain ⟨g, len⟩ := gl
        have hl := (matchAt_len_le h).2
        simp only [List.length_cons] at hl
        simp only [List.cons_append]
        rw [ih (len - 1) b (by omega)]

theorem scan_skip (pre : List Char) (a b : List Char) :
    scan pre a.length (a ++ b) = scan pre 0 b := by
  induction a with
  | nil => simp
  | cons c cs ih => simp [scan, ih]

theorem scan_skip_nil (pre : List Char) (n : Nat) (a : List Char) (h : a.length ≤ n) :
    scan pre n a = [] := by
  induction a generalizing n with
  | nil => simp [scan]
  | cons c cs ih =>
    cases n with
    | zero => simp at h
    | succ n => simp only [scan]; exact ih n (by simp at h; omega)

/-! ### self-overlap -/

theorem noBorder_of_B {p : List Char} (h : noBorderB p = true) : NoBorder p := by
  intro m hm0 hm hpre
  unfold noBorderB at h
  rw [List.all_eq_true] at h
  have := h m (List.mem_range.mpr hm)
  have hm0' : (m == 0) = false := by simp; omega
  simp only [hm0', Bool.false_or, Bool.not_eq_true', ] at this
  have h2 : (p.drop m).isPrefixOf p = true := List.isPrefixOf_iff_prefix.mpr hpre
  rw [h2] at this
  exact Bool.noConfusion this

/-- an occurrence of `p` that starts inside a `p`-free text `n2 ≠ []` (a suffix of the
noise) and runs into a following copy of `p` would be a self-overlap of `p`. -/
theorem no_early_match {p : List Char} (hb : NoBorder p) (n2 x : List Char) (hne : n2 ≠ [])
    (hfree : ¬ p <:+: n2) : ¬ p <+: n2 ++ (p ++ x) := by
  intro hpre
  by_cases hlen : p.length ≤ n2.length
  · -- the occurrence lies inside n2
    apply hfree
    have : p <+: n2 := by
      have h1 : n2 <+: n2 ++ (p ++ x) := List.prefix_append _ _
      exact List.prefix_of_prefix_length_le hpre h1 hlen
    exact this.isInfix
  · have hlt : n2.length < p.length := by omega
    have h1 : n2 <+: n2 ++ (p ++ x) := List.prefix_append _ _
    have hn2p : n2 <+: p := List.prefix_of_prefix_length_le h1 hpre (by omega)
    obtain ⟨q, hq⟩ := hn2p
    subst hq
    -- p = n2 ++ q, and q is a prefix of p ++ x
    have hq2 : q <+: (n2 ++ q) ++ x := by
      have hpre' : n2 ++ q <+: n2 ++ ((n2 ++ q) ++ x) := hpre
      exact (List.prefix_append_right_inj n2).mp hpre'
    have hqp : q <+: n2 ++ q := by
      have h3 : n2 ++ q <+: (n2 ++ q) ++ x := List.prefix_append _ _
      exact List.prefix_of_prefix_length_le hq2 h3 (by simp)
    have hdrop : (n2 ++ q).drop n2.length = q := by simp
    have hpos : 0 < n2.length := by
      cases n2 with
      | nil => exact absurd rfl hne
      | cons _ _ => simp
    exact hb n2.length hpos hlt (by rw [hdrop]; exact hqp)

/-- infix of a suffix -/
theorem infix_of_suffix_part {p a b : List Char} (h : p <:+: b) : p <:+: a ++ b := by
  obtain ⟨s, t, hst⟩ := h
  exact ⟨a ++ s, t, by simp [← hst]⟩

/-- leading noise that does not contain the marker is skipped without a match -/
theorem scan_noise {p : List Char} (hb : NoBorder p) (n x : List Char) (hfree : ¬ p <:+: n) :
    scan p 0 (n ++ (p ++ x)) = scan p 0 (p ++ x) := by
  induction n with
  | nil => simp
  | cons c cs ih =>
    have hcs : ¬ p <:+: cs := fun h => hfree (infix_of_suffix_part (a := [c]) h)
    have hno : matchAt p (c :: cs ++ (p ++ x)) = none :=
      matchAt_none_of_not_prefix (no_early_match hb (c :: cs) x (by simp) hfree)
    simp only [List.cons_append] at hno ⊢
    simp only [scan, hno]
    exact ih hcs

/-- trailing noise: no marker, no match -/
theorem scan_free {p : List Char} (t : List Char) (hfree : ¬ p <:+: t) : scan p 0 t = [] := by
  induction t with
  | nil => simp [scan]
  | cons c cs ih =>
    have hcs : ¬ p <:+: cs := fun h => hfree (infix_of_suffix_part (a := [c]) h)
    have hno : matchAt p (c :: cs) = none :=
      matchAt_none_of_not_prefix (fun h => hfree h.isInfix)
    simp only [scan, hno]
    exact ih hcs

/-- a report line: the greedy match ends at the line's last `'}'`, which is the
payload's own last character; scanning continues behind the line break. -/
theorem scan_line {p : List Char} (hnl : '\n' ∉ p) (hne : p ≠ []) (mid rest : List Char)
    (hmid : '\n' ∉ mid) :
    scan p 0 (p ++ (mid ++ '}' :: '\n' :: rest)) = ('{' :: (mid ++ ['}'])) :: scan p 0 rest := by
  have hbody : '\n' ∉ mid ++ ['}'] := by
    intro h
    rcases List.mem_append.mp h with h | h
    · exact hmid h
    · simp at h
  have hm : matchAt p (p ++ (mid ++ '}' :: '\n' :: rest)) =
      some ('{' :: (mid ++ ['}']), p.length + (mid ++ ['}']).length) := by
    have e : p ++ (mid ++ '}' :: '\n' :: rest) = (p ++ (mid ++ ['}'])) ++ '\n' :: rest := by simp
    rw [e, matchAt_append_nl hnl]
    unfold matchAt
    have hp : p.isPrefixOf (p ++ (mid ++ ['}'])) = true :=
      List.isPrefixOf_iff_prefix.mpr (List.prefix_append _ _)
    simp only [hp, if_true, List.drop_left']
    unfold groupOf
    rw [restOfLine_of_no_nl hbody, uptoLastClose_append_close]
  cases p with
  | nil => exact absurd rfl hne
  | cons c cs =>
    simp only [List.cons_append] at hm ⊢
    simp only [scan, hm]
    congr 1
    have e : cs ++ (mid ++ '}' :: '\n' :: rest) = (cs ++ (mid ++ ['}'])) ++ '\n' :: rest := by simp
    have hl : (c :: cs).length + (mid ++ ['}']).length - 1 = (cs ++ (mid ++ ['}'])).length := by
      simp; omega
    rw [hl, e, scan_skip]
    exact scan_nl hnl (by simp) rest

/-! ### `"\n".join(f.readlines())` adds only empty lines -/

theorem joinNl_readlines_cons {c : Char} (hc : c ≠ '\n') (cs : List Char) :
    joinNl (readlines (c :: cs)) = c :: joinNl (readlines cs) := by
  simp only [readlines, hc, if_false]
  cases h : readlines cs with
  | nil => simp [joinNl]
  | cons l ls =>
    cases ls with
    | nil => simp [joinNl]
    | cons l2 ls2 => simp [joinNl]

theorem readlines_eq_nil {s : List Char} (h : readlines s = []) : s = [] := by
  cases s with
  | nil => rfl
  | cons c cs =>
    simp only [readlines] at h
    by_cases hc : c = '\n'
    · simp [hc] at h
    · simp only [hc, if_false] at h
      cases h2 : readlines cs <;> simp [h2] at h

theorem scan_join_readlines {pre : List Char} (hnl : '\n' ∉ pre) (hne : pre ≠ [])
    (s : List Char) : ∀ a : List Char,
    scan pre 0 (a ++ joinNl (readlines s)) = scan pre 0 (a ++ s) := by
  induction s with
  | nil => intro a; simp [readlines, joinNl]
  | cons c cs ih =>
    intro a
    by_cases hc : c = '\n'
    · subst hc
      have hr : readlines ('\n' :: cs) = ['\n'] :: readlines cs := by simp [readlines]
      rw [hr]
      cases h : readlines cs with
      | nil =>
        have : cs = [] := readlines_eq_nil h
        subst this
        simp [joinNl]
      | cons l ls =>
        have hj : joinNl (['\n'] :: l :: ls) = '\n' :: '\n' :: joinNl (l :: ls) := by simp [joinNl]
        rw [hj, ← h]
        rw [scan_append_nl hnl hne a 0 _ (by omega), scan_append_nl hnl hne a 0 _ (by omega)]
        rw [scan_nl hnl hne]
        have := ih []
        simp only [List.nil_append] at this
        rw [this]
    · rw [joinNl_readlines_cons hc]
      have e1 : a ++ c :: joinNl (readlines cs) = (a ++ [c]) ++ joinNl (readlines cs) := by simp
      have e2 : a ++ c :: cs = (a ++ [c]) ++ cs := by simp
      rw [e1, e2]
      exact ih (a ++ [c])

/-- the regex sees the same reports in `"\n".join(readlines(s))` as in `s` -/
theorem retrieve_readlines {tag : List Char} (hnl : '\n' ∉ marker tag) (s : List Char) :
    retrieve tag (readlines s) = findall tag s := by
  unfold retrieve findall
  have := scan_join_readlines hnl (by simp [marker]) s []
  simpa using this

/-! ### universal newlines -/

theorem prefix_univAux {p : List Char} (hnl : '\n' ∉ p) :
    ∀ s : List Char, p <+: univAux false s → p <+: s := by
  induction p with
  | nil => intro s _; exact List.nil_prefix
  | cons q qs ih =>
    intro s h
    have hq : q ≠ '\n' := fun e => hnl (by simp [e])
    have hqs : '\n' ∉ qs := fun e => hnl (by simp [e])
    cases s with
    | nil => simp [univAux] at h
    | cons c cs =>
      simp only [univAux] at h
      by_cases hc : c = '\r'
      · simp only [hc, if_true] at h
        exact absurd (List.cons_prefix_cons.mp h).1 hq
      · simp only [hc, if_false] at h
        by_cases hc2 : c = '\n'
        · simp [hc2] at h
          exact absurd h.1 hq
        · simp only [hc2, if_false] at h
          have h' := List.cons_prefix_cons.mp h
          exact List.cons_prefix_cons.mpr ⟨h'.1, ih hqs cs h'.2⟩

theorem infix_nl_cons {p x : List Char} (hnl : '\n' ∉ p) (h : p <:+: '\n' :: x) : p <:+: x := by
  rcases List.infix_cons_iff.mp h with h | h
  · cases p with
    | nil => exact List.nil_infix
    | cons q qs =>
      have := (List.cons_prefix_cons.mp h).1
      exact absurd this (fun e => hnl (by simp [e]))
  · exact h

/-- universal-newline translation cannot create an occurrence of a text without line
terminators -/
theorem infix_univAux {p : List Char} (hnl : '\n' ∉ p) :
    ∀ (s : List Char) (b : Bool), p <:+: univAux b s → p <:+: s := by
  intro s
  induction s with
  | nil => intro b h; simpa [univAux] using h
  | cons c cs ih =>
    intro b h
    simp only [univAux] at h
    by_cases hc : c = '\r'
    · simp only [hc, if_true] at h
      exact infix_of_suffix_part (a := [c]) (ih true (infix_nl_cons hnl h))
    · simp only [hc, if_false] at h
      by_cases hc2 : c = '\n'
      · simp only [hc2, if_true] at h
        cases b with
        | true => exact infix_of_suffix_part (a := [c]) (ih false (by simpa using h))
        | false => exact infix_of_suffix_part (a := [c]) (ih false (infix_nl_cons hnl (by simpa using h)))
      · simp only [hc2, if_false] at h
        rcases List.infix_cons_iff.mp h with h | h
        · have : p <+: univAux false (c :: cs) := by simpa [univAux, hc, hc2] using h
          exact (prefix_univAux hnl _ this).isInfix
        · exact infix_of_suffix_part (a := [c]) (ih false h)

theorem univAux_clean (x : List Char) (hr : '\r' ∉ x) (rest : List Char) :
    univAux false (x ++ rest) = x ++ univAux false rest := by
  induction x with
  | nil => simp
  | cons c cs ih =>
    have hc : c ≠ '\r' := fun e => hr (by simp [e])
    have hcs : '\r' ∉ cs := fun e => hr (by simp [e])
    by_cases hc2 : c = '\n'
    · simp [univAux, hc2, ih hcs]
    · simp [univAux, hc, hc2, ih hcs]

theorem univAux_head (b : Bool) (c : Char) (cs : List Char) (h1 : c ≠ '\n') (h2 : c ≠ '\r') :
    univAux b (c :: cs) = c :: univAux false cs := by
  simp [univAux, h1, h2]

theorem univAux_append (n rest : List Char) (b : Bool) :
    ∃ b', univAux b (n ++ rest) = univAux b n ++ univAux b' rest := by
  induction n generalizing b with
  | nil => exact ⟨b, by simp [univAux]⟩
  | cons c cs ih =>
    simp only [List.cons_append, univAux]
    by_cases hc : c = '\r'
    · obtain ⟨b', h⟩ := ih true
      exact ⟨b', by simp [hc, h]⟩
    · by_cases hc2 : c = '\n'
      · obtain ⟨b', h⟩ := ih false
        refine ⟨b', ?_⟩
        cases b <;> simp [hc2, h]
      · obtain ⟨b', h⟩ := ih false
        exact ⟨b', by simp [hc, hc2, h]⟩

/-! ### the framing induction -/

theorem marker_nl {tag : List Char} (h : '\n' ∉ tag) : '\n' ∉ marker tag := by
  simp [marker, h]

theorem marker_cr {tag : List Char} (h : '\r' ∉ tag) : '\r' ∉ marker tag := by
  simp [marker, h]

theorem render_eq {tag mid : List Char} :
    render tag ('{' :: (mid ++ ['}'])) = marker tag ++ (mid ++ ['}', '\n']) := by
  simp [render, linePrefix, marker]

/-- scanning a stream of the documented shape, directly on the text -/
theorem framing_text_aux {tag : List Char} (hm : MarkerOK tag)
    (segs : List (List Char × List Char)) (tail : List Char)
    (hp : ∀ s ∈ segs, PayloadOK s.2)
    (hn : ∀ s ∈ segs, ¬ marker tag <:+: s.1) (ht : ¬ marker tag <:+: tail) :
    scan (marker tag) 0 (streamText tag segs tail) = segs.map (·.2) := by
  have hnl := marker_nl hm.nl
  induction segs with
  | nil => simpa [streamText] using scan_free tail ht
  | cons s segs ih =>
    obtain ⟨n, p⟩ := s
    obtain ⟨mid, hmid⟩ := (hp (n, p) (by simp)).shape
    have hpnl := (hp (n, p) (by simp)).nl
    simp only at hmid hpnl
    subst hmid
    have hmidnl : '\n' ∉ mid := fun e => hpnl (by simp [e])
    have e : streamText tag ((n, '{' :: (mid ++ ['}'])) :: segs) tail =
        n ++ (marker tag ++ (mid ++ '}' :: '\n' :: streamText tag segs tail)) := by
      simp [streamText, render_eq]
    have hn0 : ¬ marker tag <:+: n := hn (n, '{' :: (mid ++ ['}'])) (by simp)
    rw [e, scan_noise hm.border n _ hn0,
      scan_line hnl (by simp [marker]) mid _ hmidnl,
      ih (fun s hs => hp s (by simp [hs])) (fun s hs => hn s (by simp [hs]))]
    simp

/-- the same through the universal-newline translation of the file read -/
theorem framing_univ_aux {tag : List Char} (hm : MarkerOK tag)
    (segs : List (List Char × List Char)) (tail : List Char)
    (hp : ∀ s ∈ segs, PayloadOK s.2)
    (hn : ∀ s ∈ segs, ¬ marker tag <:+: s.1) (ht : ¬ marker tag <:+: tail) (b : Bool) :
    scan (marker tag) 0 (univAux b (streamText tag segs tail)) = segs.map (·.2) := by
  have hnl := marker_nl hm.nl
  have hcr := marker_cr hm.cr
  induction segs generalizing b with
  | nil =>
    simp only [streamText, List.flatMap_nil, List.nil_append, List.map_nil]
    exact scan_free _ (fun h => ht (infix_univAux hnl _ _ h))
  | cons s segs ih =>
    obtain ⟨n, p⟩ := s
    have hpo := hp (n, p) (by simp)
    obtain ⟨mid, hmid⟩ := hpo.shape
    have hpnl := hpo.nl
    have hpcr := hpo.cr
    simp only at hmid hpnl hpcr
    subst hmid
    have hmidnl : '\n' ∉ mid := fun e => hpnl (by simp [e])
    have hmidcr : '\r' ∉ mid := fun e => hpcr (by simp [e])
    have e : streamText tag ((n, '{' :: (mid ++ ['}'])) :: segs) tail =
        n ++ (marker tag ++ (mid ++ '}' :: '\n' :: streamText tag segs tail)) := by
      simp [streamText, render_eq]
    rw [e]
    obtain ⟨b', hb'⟩ := univAux_append n (marker tag ++ (mid ++ '}' :: '\n' :: streamText tag segs tail)) b
    rw [hb']
    have hline : univAux b' (marker tag ++ (mid ++ '}' :: '\n' :: streamText tag segs tail)) =
        marker tag ++ (mid ++ '}' :: '\n' :: univAux false (streamText tag segs tail)) := by
      have e2 : marker tag ++ (mid ++ '}' :: '\n' :: streamText tag segs tail) =
          '[' :: ((tag ++ [']', ':', ' ', '{'] ++ mid ++ ['}', '\n']) ++ streamText tag segs tail) := by
        simp [marker]
      rw [e2, univAux_head b' '[' _ (by decide) (by decide), univAux_clean]
      · simp [marker]
      · have := hm.cr
        simp [this, hmidcr]
    have hn0 : ¬ marker tag <:+: n := hn (n, '{' :: (mid ++ ['}'])) (by simp)
    rw [hline, scan_noise hm.border _ _ (fun h => hn0 (infix_univAux hnl _ _ h)),
      scan_line hnl (by simp [marker]) mid _ hmidnl,
      ih (fun s hs => hp s (by simp [hs])) (fun s hs => hn s (by simp [hs])) false]
    simp

theorem markerOK_of_B {tag : List Char} (h : markerOKB tag = true) : MarkerOK tag := by
  unfold markerOKB at h
  simp only [Bool.and_eq_true, Bool.not_eq_true', List.contains_eq_mem, decide_eq_false_iff_not] at h
  exact ⟨h.1.1, h.1.2, noBorder_of_B h.2⟩

end SyneTune.Report
